package main

import (
	"strings"
	"unicode/utf8"
	"fmt"
	"math"
	"sort"

	at "github.com/DanielSvub/anytype"
)

func init() {
	generators["C07"] = genC07
	generators["C14"] = genC14
	generators["C17"] = genC17
}

// ---------- helpers on trees ----------

func (v *V) clone() *V {
	c := *v
	if v.L != nil {
		c.L = make([]*V, len(v.L))
		for i, e := range v.L {
			c.L[i] = e.clone()
		}
	}
	if v.O != nil {
		c.O = make([]KV, len(v.O))
		for i, kv := range v.O {
			c.O[i] = KV{kv.K, kv.V.clone()}
		}
	}
	return &c
}

// sortKeys orders object members by key, recursively (the canonical member order shared with the model)
func (v *V) sortKeys() *V {
	for _, e := range v.L {
		e.sortKeys()
	}
	for _, kv := range v.O {
		kv.V.sortKeys()
	}
	sort.SliceStable(v.O, func(i, j int) bool { return v.O[i].K < v.O[j].K })
	return v
}

// reference typed structural equality (independent of the library)
func refEq(a, b *V) bool {
	if a.K != b.K {
		return false
	}
	switch a.K {
	case KNil:
		return true
	case KBool:
		return a.B == b.B
	case KInt:
		return a.I == b.I
	case KFloat:
		return a.F == b.F
	case KStr:
		return a.S == b.S
	case KList:
		if len(a.L) != len(b.L) {
			return false
		}
		for i := range a.L {
			if !refEq(a.L[i], b.L[i]) {
				return false
			}
		}
		return true
	case KObj:
		if len(a.O) != len(b.O) {
			return false
		}
		m := map[string]*V{}
		for _, kv := range b.O {
			m[kv.K] = kv.V
		}
		for _, kv := range a.O {
			w, ok := m[kv.K]
			if !ok || !refEq(kv.V, w) {
				return false
			}
		}
		return true
	}
	return false
}

func (v *V) nanFree() bool {
	if v.K == KFloat && math.IsNaN(v.F) {
		return false
	}
	for _, e := range v.L {
		if !e.nanFree() {
			return false
		}
	}
	for _, kv := range v.O {
		if !kv.V.nanFree() {
			return false
		}
	}
	return true
}

// all nodes of a tree (pointers), for one-place edits
func (v *V) nodes(acc *[]*V) {
	*acc = append(*acc, v)
	for _, e := range v.L {
		e.nodes(acc)
	}
	for _, kv := range v.O {
		kv.V.nodes(acc)
	}
}

// set by the generator for the guaranteed large shapes: the edit goes to the tail
var forceTailEdit bool

// one-place edit of a copy of t; returns the edited copy and a tag
func (r *R) editOnce(t *V, o *TreeOpts) (*V, string) {
	c := t.clone()
	var ns []*V
	c.nodes(&ns)
	if r.chance(0.12) { // aim at a string that is not valid UTF-8, if the tree has one
		for _, k := range r.Perm(len(ns)) {
			if m := ns[k]; m.K == KStr && !utf8.ValidString(m.S) {
				if r.chance(0.5) && strings.HasSuffix(m.S, "\xe9") {
					m.S = m.S[:len(m.S)-1] + "\xe8"
					return c, "edit:ill-formed-byte-changed"
				}
				m.S = strings.ToValidUTF8(m.S, "\uFFFD")
				return c, "edit:ill-formed-bytes->U+FFFD"
			}
		}
	}
	// on long containers: the LAST scalar leaves (a comparison that splits the work by size may never look at the tail)
	if len(ns) > 40 && (forceTailEdit || r.chance(0.35)) {
		for k := len(ns) - 1; k >= 0 && k >= len(ns)-6; k-- {
			m := ns[k]
			switch m.K {
			case KInt:
				m.I++
				return c, "edit:tail-int-nudged"
			case KStr:
				m.S += "!"
				return c, "edit:tail-string-extended"
			case KBool:
				m.B = !m.B
				return c, "edit:tail-bool-flipped"
			case KNil:
				*m = *vint(0)
				return c, "edit:tail-nil->0"
			}
		}
	}
	n := ns[r.Intn(len(ns))]
	switch r.Intn(10) {
	case 0: // change one scalar's kind, keeping "the same" value where that makes sense
		switch n.K {
		case KInt:
			*n = *vfloat(float64(n.I))
			return c, "edit:int->float"
		case KFloat:
			if n.F == math.Trunc(n.F) && math.Abs(n.F) < 1e15 {
				*n = *vint(int(n.F))
				return c, "edit:float->int"
			}
			*n = *vstr(fmt.Sprint(n.F))
			return c, "edit:float->string"
		case KNil:
			*n = *vbool(false)
			return c, "edit:nil->false"
		case KBool:
			*n = *vnil()
			return c, "edit:bool->nil"
		case KStr:
			*n = *vnil()
			return c, "edit:string->nil"
		case KList:
			if len(n.L) == 0 {
				*n = *vobj()
				return c, "edit:[]->{}"
			}
		case KObj:
			if len(n.O) == 0 {
				*n = *vlist()
				return c, "edit:{}->[]"
			}
		}
		return c, "edit:none"
	case 1: // rename one key
		if n.K == KObj && len(n.O) > 0 {
			i := r.Intn(len(n.O))
			nk := n.O[i].K + "'"
			for _, kv := range n.O {
				if kv.K == nk {
					return c, "edit:none"
				}
			}
			n.O[i].K = nk
			return c, "edit:key-renamed"
		}
		return c, "edit:none"
	case 2: // append an element / a member
		if n.K == KList {
			n.L = append(n.L, r.scalar(o))
			return c, "edit:element-appended"
		}
		if n.K == KObj {
			nk := "zz-new"
			for _, kv := range n.O {
				if kv.K == nk {
					return c, "edit:none"
				}
			}
			n.O = append(n.O, KV{nk, r.scalar(o)})
			return c, "edit:member-added"
		}
		return c, "edit:none"
	case 3: // remove an element / a member
		if n.K == KList && len(n.L) > 0 {
			i := r.Intn(len(n.L))
			n.L = append(n.L[:i:i], n.L[i+1:]...)
			return c, "edit:element-removed"
		}
		if n.K == KObj && len(n.O) > 0 {
			i := r.Intn(len(n.O))
			n.O = append(n.O[:i:i], n.O[i+1:]...)
			return c, "edit:member-removed"
		}
		return c, "edit:none"
	case 4: // permute member insertion order (must stay equal)
		if n.K == KObj && len(n.O) > 1 {
			r.Shuffle(len(n.O), func(i, j int) { n.O[i], n.O[j] = n.O[j], n.O[i] })
			return c, "edit:members-permuted"
		}
		return c, "edit:none"
	case 5: // -0 vs 0
		if n.K == KFloat && n.F == 0 {
			n.F = math.Copysign(0, -1)
			if math.Signbit(t.F) {
				n.F = 0
			}
			return c, "edit:zero-sign"
		}
		return c, "edit:none"
	case 6: // change a scalar value slightly
		switch n.K {
		case KInt:
			n.I++
			return c, "edit:int+1"
		case KStr:
			n.S += "x"
			return c, "edit:string+x"
		case KBool:
			n.B = !n.B
			return c, "edit:bool-flipped"
		case KFloat:
			n.F = math.Nextafter(n.F, math.Inf(1))
			return c, "edit:float-nextafter"
		}
		return c, "edit:none"
	case 7: // swap two elements of a list
		if n.K == KList && len(n.L) > 1 {
			i, j := r.Intn(len(n.L)), r.Intn(len(n.L))
			n.L[i], n.L[j] = n.L[j], n.L[i]
			return c, "edit:elements-swapped"
		}
		return c, "edit:none"
	case 8: // a string that is not valid UTF-8 against its "printed" form (ill-formed bytes replaced by U+FFFD): different strings
		if n.K == KStr && !utf8.ValidString(n.S) {
			n.S = strings.ToValidUTF8(n.S, "\uFFFD")
			return c, "edit:ill-formed-bytes->U+FFFD"
		}
		if n.K == KStr && strings.HasSuffix(n.S, "\xe9") {
			n.S = n.S[:len(n.S)-1] + "\xe8"
			return c, "edit:ill-formed-byte-changed"
		}
		return c, "edit:identical-copy"
	default:
		return c, "edit:identical-copy"
	}
}

func equalsAny(a, b any) (res bool, panicked bool) {
	defer func() {
		if r := recover(); r != nil {
			panicked = true
		}
	}()
	switch x := a.(type) {
	case at.List:
		return x.Equals(b.(at.List)), false
	case at.Object:
		return x.Equals(b.(at.Object)), false
	}
	panic("not a container")
}

func genC07(r *R, n int, tier string, out *Out) {
	o := defaultOpts()
	o.Stress = true
	// Go strings are byte strings: Equals compares them exactly, also when they are not valid UTF-8
	o.Str = func(r *R) string {
		if r.chance(0.12) {
			return pickOf(r, []string{"\xff", "\xfe", "caf\xe9", "caf\xe8", "\xfe\xff", "\xef\xbf\xbd", "a\xc0\xafb", "\xed\xa0\x80", "caf\xef\xbf\xbd"})
		}
		return r.str()
	}
	o.Floats = func(r *R) float64 {
		if r.chance(0.04) {
			return math.NaN()
		}
		if r.chance(0.04) {
			return pickOf(r, []float64{math.Inf(1), math.Inf(-1)}) // (infinities are not NaN: Equals is reflexive on them)
		}
		return r.finiteFloat()
	}
	big := r.bigTrees(o)
	for i := 0; i < n; i++ {
		var a *V
		if i < 3*len(big) {
			a = big[i%len(big)] // each large shape three times: the edits below then aim at the tail, at random places, or make a copy
		} else if r.chance(0.5) {
			a = r.listTree(o)
		} else {
			a = r.objTree(o)
		}
		var b *V
		tag := ""
		if i >= 3*len(big) && r.chance(0.1) { // unrelated tree of the same root kind
			if a.K == KList {
				b = r.listTree(o)
			} else {
				b = r.objTree(o)
			}
			tag = "unrelated"
		} else {
			forceTailEdit = i < len(big) // the first pass over the large shapes: an edit of one of the last leaves, always
			b, tag = r.editOnce(a, o)
			forceTailEdit = false
			if b.K != a.K { // the root itself changed kind: Equals takes the same interface type
				b = a.clone()
				tag = "edit:identical-copy"
			}
			if r.chance(0.15) {
				b, _ = r.editOnce(b, o)
				if b.K != a.K {
					b = a.clone()
				}
				tag += "+2nd"
			}
		}
		var c *V // third tree for transitivity
		c, _ = r.editOnce(b, o)
		if c.K != a.K {
			c = b.clone()
		}
		ga, gb, gc := a.toAny(), b.toAny(), c.toAny()
		ca, cb := canon(ga), canon(gb)
		ab, p1 := equalsAny(ga, gb)
		ba, p2 := equalsAny(gb, ga)
		aa, p3 := equalsAny(ga, ga)
		bc, p4 := equalsAny(gb, gc)
		ac, p5 := equalsAny(ga, gc)
		pred, msg := true, ""
		fail := func(f string, x ...any) {
			if pred {
				pred, msg = false, fmt.Sprintf(f, x...)
			}
		}
		if p1 || p2 || p3 || p4 || p5 {
			fail("Equals panicked")
		}
		if ab != refEq(a, b) {
			fail("Equals(a,b)=%v, structural equality says %v", ab, refEq(a, b))
		}
		if ba != refEq(b, a) {
			fail("Equals(b,a)=%v, structural equality says %v", ba, refEq(b, a))
		}
		if a.nanFree() && !aa {
			fail("not reflexive on NaN-free data")
		}
		if a.nanFree() && b.nanFree() && ab != ba {
			fail("not symmetric")
		}
		if ab && bc && !ac {
			fail("not transitive")
		}
		if canon(ga) != ca || canon(gb) != cb {
			fail("Equals modified an operand")
		}
		cs := &Case{
			Coq:        fmt.Sprintf("(%s, %s, %s, %s)", a.coq(), b.coq(), coqBool(ab), coqBool(ba)),
			Desc:       map[string]any{"a": a.desc(), "b": b.desc(), "equals_ab": ab, "equals_ba": ba, "edit": tag},
			Pred:       pred, PredMsg: msg,
			Nontrivial: tag != "edit:none" && tag != "edit:identical-copy",
			Key:        a.canon() + "|" + b.canon(),
			Tags:       []string{tag, fmt.Sprintf("equal=%v", ab)},
		}
		out.emit(cs)
	}
}

// ---------- C14 ----------

func truthy(x any) bool {
	switch t := x.(type) {
	case nil:
		return false
	case bool:
		return t
	case int:
		return t > 0
	case float64:
		return t > 0
	case string:
		return t != ""
	case at.List:
		return t.Count() > 0
	case at.Object:
		return t.Count() > 0
	}
	return false
}

func kindCode(x any) int {
	switch x.(type) {
	case nil:
		return 1
	case at.Object:
		return 2
	case at.List:
		return 3
	case string:
		return 4
	case bool:
		return 5
	case int:
		return 6
	case float64:
		return 7
	}
	return 0
}

func cbMap(x any) any { return at.NewList(kindCode(x), x) }

type obsItem struct {
	multiset bool
	v        *V
}

func coqObs(items []obsItem) string {
	s := make([]string, len(items))
	for i, it := range items {
		s[i] = "(" + coqBool(it.multiset) + "," + it.v.coq() + ")"
	}
	return coqList(s)
}

func listOf[T any](xs []T) *V {
	r := &V{K: KList}
	for _, x := range xs {
		r.L = append(r.L, fromAny(any(x)))
	}
	return r
}

func genC14(r *R, n int, tier string, out *Out) {
	o := defaultOpts()
	o.Depth = 3
	o.Floats = (*R).anyFloat
	for i := 0; i < n; i++ {
		isObj := r.chance(0.35)
		// mixture with multiplicities 0/1/3 per kind
		var elems []*V
		if i < 2 { // the empty list and the empty object are always among the cases
			isObj = i == 1
		}
		long := r.chance(0.03) // a long container: multiplicities up to 40 per kind
		only := -1             // a homogeneous container (the All* family holds on these): one kind, special values included
		if r.chance(0.07) {
			only = 1 + r.Intn(6)
			if r.chance(0.3) {
				only = 3 // floats
			}
		}
		for k := 0; k < 7 && i >= 2; k++ {
			m := pickOf(r, []int{0, 0, 1, 3, 2})
			if long {
				m = pickOf(r, []int{0, 1, 9, 17, 33, 40})
			}
			if only >= 0 {
				m = 0
				if k == only {
					m = 1 + r.Intn(6)
				} else if only == 3 && k == 2 && r.chance(0.3) {
					m = 1 // numeric: ints among the floats
				}
			}
			for j := 0; j < m; j++ {
				var e *V
				switch k {
				case 0:
					e = vnil()
				case 1:
					e = vbool(r.chance(0.5))
				case 2:
					e = vint(r.intVal())
				case 3:
					e = vfloat(o.Floats(r))
					if only == 3 && r.chance(0.25) {
						e = vfloat(pickOf(r, []float64{math.NaN(), math.Inf(1), math.Inf(-1), math.Copysign(0, -1), 0}))
					}
				case 4:
					e = vstr(r.str())
				case 5:
					e = r.listTree(&TreeOpts{Depth: 2, Width: 3, Floats: o.Floats, Str: o.Str, Key: o.Key})
				default:
					e = r.objTree(&TreeOpts{Depth: 2, Width: 3, Floats: o.Floats, Str: o.Str, Key: o.Key})
				}
				elems = append(elems, e)
			}
		}
		r.Shuffle(len(elems), func(a, b int) { elems[a], elems[b] = elems[b], elems[a] })
		for _, e := range elems {
			e.sortKeys()
		}
		pred, msg := true, ""
		fail := func(f string, x ...any) {
			if pred {
				pred, msg = false, fmt.Sprintf(f, x...)
			}
		}
		var obs []obsItem
		var input *V
		if !isObj {
			input = vlist(elems...)
			l := input.toList()
			before := canon(l)
			var results []at.List
			add := func(v *V) { obs = append(obs, obsItem{false, v}) }
			addL := func(x at.List) { results = append(results, x); add(fromAny(x)) }
			func() {
			defer func() {
				if e := recover(); e != nil {
					fail("a view panicked: %v", e)
				}
			}()
			// XSlice
			add(listOf(l.ObjectSlice()))
			add(listOf(l.ListSlice()))
			add(listOf(l.StringSlice()))
			add(listOf(l.BoolSlice()))
			add(listOf(l.IntSlice()))
			add(listOf(l.FloatSlice()))
			// ForEachX logs
			var lo []at.Object
			l.ForEachObject(func(x at.Object) { lo = append(lo, x) })
			add(listOf(lo))
			var ll []at.List
			l.ForEachList(func(x at.List) { ll = append(ll, x) })
			add(listOf(ll))
			var ls []string
			l.ForEachString(func(x string) { ls = append(ls, x) })
			add(listOf(ls))
			var lb []bool
			l.ForEachBool(func(x bool) { lb = append(lb, x) })
			add(listOf(lb))
			var li []int
			l.ForEachInt(func(x int) { li = append(li, x) })
			add(listOf(li))
			var lf []float64
			l.ForEachFloat(func(x float64) { lf = append(lf, x) })
			add(listOf(lf))
			// MapX
			addL((l.MapObjects(func(x at.Object) any { return cbMap(x) })))
			addL((l.MapLists(func(x at.List) any { return cbMap(x) })))
			addL((l.MapStrings(func(x string) any { return cbMap(x) })))
			addL((l.MapBools(func(x bool) any { return cbMap(x) })))
			addL((l.MapInts(func(x int) any { return cbMap(x) })))
			addL((l.MapFloats(func(x float64) any { return cbMap(x) })))
			// FilterX (no FilterBools in the API)
			addL((l.FilterObjects(func(x at.Object) bool { return truthy(x) })))
			addL((l.FilterLists(func(x at.List) bool { return truthy(x) })))
			addL((l.FilterStrings(func(x string) bool { return truthy(x) })))
			addL((l.FilterInts(func(x int) bool { return truthy(x) })))
			addL((l.FilterFloats(func(x float64) bool { return truthy(x) })))
			// ReduceX
			add(vstr(l.ReduceStrings(">", func(a, s string) string { return a + "|" + s })))
			add(vint(l.ReduceInts(7, func(a, z int) int { return a*31 + z })))
			add(vfloat(l.ReduceFloats(1, func(a, z float64) float64 { h := a * 0.5; return h + z })))
			// AllX
			add(vbool(l.AllObjects()))
			add(vbool(l.AllLists()))
			add(vbool(l.AllStrings()))
			add(vbool(l.AllBools()))
			add(vbool(l.AllInts()))
			add(vbool(l.AllFloats()))
			add(vbool(l.AllNumeric()))
			// untyped
			pairs := &V{K: KList}
			l.ForEach(func(i int, x any) { pairs.L = append(pairs.L, vlist(vint(i), fromAny(x))) })
			add(pairs)
			vals := &V{K: KList}
			l.ForEachValue(func(x any) { vals.L = append(vals.L, fromAny(x)) })
			add(vals)
			addL((l.Map(func(i int, x any) any { return at.NewList(i, x) })))
			addL((l.MapValues(func(x any) any { return cbMap(x) })))
			addL((l.Filter(func(x any) bool { return truthy(x) })))
			redAny := func(acc any, x any) any {
				if al, ok := acc.(at.List); ok {
					return al.Clone().Add(x)
				}
				return at.NewList(acc, x)
			}
			add(fromAny(l.Reduce(at.NewList(), redAny)))
			add(fromAny(l.Reduce(nil, redAny)))
			if canon(l) != before {
				fail("a view modified the list")
			}
			// results are new lists with their own storage: none is the receiver, and changing one changes neither the
			// receiver nor any other result
			var canons []string
			for _, x := range results {
				canons = append(canons, canon(x))
			}
			for ri, x := range results {
				if x == at.List(l) {
					fail("result %d of a Map/Filter view is the receiver itself", ri)
					break
				}
				x.Add("\x00sentinel")
				x.Add("\x00sentinel2").Pop() // the value Add returns and Pop go through the result's own identity
				if canon(l) != before {
					fail("adding to / popping from result %d of a Map/Filter view changed the receiver", ri)
					break
				}
				if canon(x) == canons[ri] {
					fail("adding to result %d of a Map/Filter view did not change that result", ri)
					break
				}
				for rj, y := range results {
					if rj > ri && canon(y) != canons[rj] {
						fail("adding to result %d of a Map/Filter view changed result %d", ri, rj)
					}
				}
			}
			// property predicate, independently of the model: typed views = elements whose TypeOf is X, in index order;
			// identity: the containers handed out are the stored ones
			var wantI []int
			cntObj := 0
			for idx := 0; idx < l.Count(); idx++ {
				switch l.TypeOf(idx) {
				case at.TypeInt:
					wantI = append(wantI, l.GetInt(idx))
				case at.TypeObject:
					if cntObj < len(lo) && lo[cntObj] != l.GetObject(idx) {
						fail("ForEachObject handed out a different object than Get(%d)", idx)
					}
					cntObj++
				}
			}
			if fmt.Sprint(wantI) != fmt.Sprint(li) || fmt.Sprint(wantI) != fmt.Sprint(l.IntSlice()) {
				fail("int views differ from the elements whose TypeOf is Int: %v vs %v", li, wantI)
			}
			if cntObj != len(lo) {
				fail("ForEachObject visited %d objects, list holds %d", len(lo), cntObj)
			}
			if len(pairs.L) != l.Count() {
				fail("ForEach visited %d of %d elements", len(pairs.L), l.Count())
			}
			}()
		} else {
			input = &V{K: KObj}
			seen := map[string]bool{}
			for _, e := range elems {
				k := r.key()
				if seen[k] {
					continue
				}
				seen[k] = true
				input.O = append(input.O, KV{k, e})
			}
			input.sortKeys()
			ob := input.toObject()
			before := canon(ob)
			addM := func(v *V) { obs = append(obs, obsItem{true, v}) }
			var results []at.Object
			add := func(v *V) { obs = append(obs, obsItem{false, v}) }
			addO := func(x at.Object) { results = append(results, x); add(fromAny(x)) }
			func() {
			defer func() {
				if e := recover(); e != nil {
					fail("a view panicked: %v", e)
				}
			}()
			kvl := &V{K: KList}
			ob.ForEach(func(k string, x any) { kvl.L = append(kvl.L, vlist(vstr(k), fromAny(x))) })
			addM(kvl)
			vl := &V{K: KList}
			ob.ForEachValue(func(x any) { vl.L = append(vl.L, fromAny(x)) })
			addM(vl)
			var lo []at.Object
			ob.ForEachObject(func(x at.Object) { lo = append(lo, x) })
			addM(listOf(lo))
			var ll []at.List
			ob.ForEachList(func(x at.List) { ll = append(ll, x) })
			addM(listOf(ll))
			var ls []string
			ob.ForEachString(func(x string) { ls = append(ls, x) })
			addM(listOf(ls))
			var lb []bool
			ob.ForEachBool(func(x bool) { lb = append(lb, x) })
			addM(listOf(lb))
			var li []int
			ob.ForEachInt(func(x int) { li = append(li, x) })
			addM(listOf(li))
			var lf []float64
			ob.ForEachFloat(func(x float64) { lf = append(lf, x) })
			addM(listOf(lf))
			addO((ob.Map(func(k string, x any) any { return at.NewList(k, x) })))
			addO((ob.MapValues(func(x any) any { return cbMap(x) })))
			addO((ob.MapObjects(func(x at.Object) any { return cbMap(x) })))
			addO((ob.MapLists(func(x at.List) any { return cbMap(x) })))
			addO((ob.MapStrings(func(x string) any { return cbMap(x) })))
			addO((ob.MapBools(func(x bool) any { return cbMap(x) })))
			addO((ob.MapInts(func(x int) any { return cbMap(x) })))
			addO((ob.MapFloats(func(x float64) any { return cbMap(x) })))
			if canon(ob) != before {
				fail("a view modified the object")
			}
			cnt := 0
			for _, kv := range input.O {
				if ob.TypeOf(kv.K) == at.TypeInt {
					cnt++
				}
			}
			if cnt != len(li) {
				fail("ForEachInt visited %d fields, object holds %d ints", len(li), cnt)
			}
			if len(kvl.L) != ob.Count() {
				fail("ForEach visited %d of %d fields", len(kvl.L), ob.Count())
			}
			for ri, x := range results {
				if x == at.Object(ob) {
					fail("result %d of a Map view is the receiver itself", ri)
					break
				}
				x.Set("\x00sentinel", 1)
				if canon(ob) != before {
					fail("setting a field of result %d of a Map view changed the receiver", ri)
					break
				}
			}
			}()
		}
		kinds := map[Kind]int{}
		for _, e := range elems {
			kinds[e.K]++
		}
		multi := 0
		for _, c := range kinds {
			if c >= 2 {
				multi++
			}
		}
		cs := &Case{
			Coq:        fmt.Sprintf("(%s, %s)", input.coq(), coqObs(obs)),
			Desc:       map[string]any{"container": input.desc(), "observations": len(obs)},
			Pred:       pred, PredMsg: msg,
			Nontrivial: len(kinds) >= 2 && multi >= 1,
			Key:        input.canon(),
			Tags:       []string{map[bool]string{true: "object", false: "list"}[isObj], fmt.Sprintf("kinds=%d", len(kinds)), fmt.Sprintf("len=%d", len(elems))},
		}
		out.emit(cs)
	}
}

// ---------- C17 ----------

func genC17(r *R, n int, tier string, out *Out) {
	strPool := []string{"", "a", "b", "ab", "abc", "abd", "a\x00", "é", "z", "Z", "zz", "\xf0\x9f\x98\x80", "~", " ", "aa", "B",
		"\xff", "\xfe", "b\xc0", "\xef\xbf\xbd", "\xed\xa0\x80", "a\xff", "a\xfe"} // (Go strings are byte strings: "bytewise" includes ill-formed UTF-8)
	for i := 0; i < n; i++ {
		mode := r.Intn(8)
		ln := 1 + r.Intn(9)
		if r.chance(0.08) {
			ln = 0
		} else if r.chance(0.15) {
			ln = 13 + r.Intn(40) // beyond the insertion-sort threshold of sort.Slice and friends
		}
		if boosted() {
			ln = 60 + r.Intn(200)
		}
		if r.chance(0.03) {
			ln = r.stressSize()
		}
		if i < 12 {
			ln = []int{1025, 4101, 4102, 1030, 4099, 257, 5003, 1023, 4097, 70, 131, 64}[i]
			mode = i % 4 // (ints with duplicates, extreme ints, strings, floats from a small pool with both zeros: the first modes)
		}
		var elems []*V
		tag := ""
		for j := 0; j < ln; j++ {
			switch mode {
			case 0:
				tag = "ints-small-dups"
				elems = append(elems, vint(r.Intn(5)-1))
			case 1:
				tag = "ints-extreme"
				elems = append(elems, vint(pickOf(r, []int{math.MinInt64, math.MaxInt64, 0, -1, 1, math.MaxInt64 - 1, math.MinInt64 + 1})))
			case 2:
				tag = "strings"
				if r.chance(0.6) {
					elems = append(elems, vstr(pickOf(r, strPool)))
				} else {
					elems = append(elems, vstr(r.str()))
				}
			case 3:
				tag = "floats"
				elems = append(elems, vfloat(pickOf(r, []float64{0, math.Copysign(0, -1), 1, -1, math.Inf(1), math.Inf(-1), 1.5, -1.5, 5e-324, -5e-324, math.MaxFloat64, -math.MaxFloat64, 2, 0.1})))
			case 4:
				tag = "floats-random"
				elems = append(elems, vfloat(r.finiteFloat()))
			case 5:
				tag = "ints-random"
				elems = append(elems, vint(r.intVal()))
			case 6:
				tag = "mixed-kinds"
				elems = append(elems, r.tree(defaultOpts(), 1))
			default:
				tag = "first-other-kind"
				if j == 0 {
					elems = append(elems, pickOf(r, []*V{vnil(), vbool(true), vlist(), vobj()}))
				} else {
					elems = append(elems, r.scalar(defaultOpts()))
				}
			}
		}
		if (mode <= 5) && ln > 1 {
			switch r.Intn(4) {
			case 0:
				tag += "/presorted"
				sort.SliceStable(elems, func(a, b int) bool { return lessV(elems[a], elems[b]) })
			case 1:
				tag += "/reverse-sorted"
				sort.SliceStable(elems, func(a, b int) bool { return lessV(elems[b], elems[a]) })
			}
		}
		for _, e := range elems {
			e.sortKeys()
		}
		// how the list under test is built: from a literal, or through constructors/derivations that (in the current
		// implementation) leave several slots holding the same scalar wrapper - contents are the same either way
		build := "literal"
		if mode <= 5 && ln >= 2 {
			switch r.Intn(5) {
			case 0:
				build = "self-concat"
				h := ln / 2
				elems = append(append([]*V{}, elems[:h]...), elems[:h]...)
				ln = len(elems)
			case 1:
				build = "listof-replace"
				for j := range elems {
					if r.chance(0.5) {
						elems[j] = elems[0]
					}
				}
			}
		}
		input := vlist(elems...)
		mk := func() at.List {
			switch build {
			case "self-concat":
				half := vlist(elems[:ln/2]...).toList()
				return half.Concat(half)
			case "listof-replace":
				l := at.NewListOf(elems[0].toAny(), ln)
				for j, e := range elems {
					if e != elems[0] {
						l.Replace(j, e.toAny())
					}
				}
				return l
			}
			return input.toList()
		}
		tag += "/" + build
		pred, msg := true, ""
		fail := func(f string, x ...any) {
			if pred {
				pred, msg = false, fmt.Sprintf(f, x...)
			}
		}
		// Reverse on a fresh copy
		lr := mk()
		held := make([]any, lr.Count())
		for k := range held {
			held[k] = lr.Get(k)
		}
		rr := lr.Reverse()
		if rr != lr {
			fail("Reverse did not return the same list")
		}
		rv := fromAny(lr)
		for k := range held {
			if cv := lr.Get(len(held) - 1 - k); held[k] != cv && !(isNaNAny(held[k]) && isNaNAny(cv)) {
				fail("Reverse: element %d is not at position n-1-%d", k, k)
			}
		}
		lr.Reverse()
		if canon(lr) != input.canon() {
			fail("Reverse twice does not restore the list")
		}
		// Sort
		ls := mk()
		before := canon(ls)
		if before != input.canon() {
			fail("the list built by %s does not hold the intended elements", build)
		}
		var sorted at.List
		panicked := try(func() { sorted = ls.Sort() })
		srt := "Panic"
		homog := ln > 0
		for _, e := range elems {
			if e.K != elems[0].K {
				homog = false
			}
		}
		inDomain := homog && (elems[0].K == KInt || elems[0].K == KStr || elems[0].K == KFloat)
		if !panicked {
			got := fromAny(ls)
			srt = "(Ok " + coqList(coqVals(got.L)) + ")"
			if sorted != ls {
				fail("Sort did not return the same list")
			}
			if inDomain {
				if !isSortedV(got.L) {
					fail("Sort result is not non-decreasing")
				}
				if multiset(got.L) != multiset(elems) {
					fail("Sort result is not a permutation of the original elements")
				}
				c1 := canon(ls)
				ls.Sort()
				if !sameUpToZeros(canon(ls), c1) {
					fail("sorting twice differs from sorting once")
				}
			}
		} else {
			if inDomain {
				fail("Sort panicked on a homogeneous list")
			}
			if canon(ls) != before {
				fail("a panicking Sort modified the list")
			}
		}
		firstOther := ln > 0 && elems[0].K != KInt && elems[0].K != KStr && elems[0].K != KFloat
		if firstOther && !panicked {
			fail("Sort did not panic on a list whose first element is neither string, int nor float")
		}
		cs := &Case{
			Coq:        fmt.Sprintf("(%s, %s, %s)", coqList(coqVals(elems)), srt, coqList(coqVals(rv.L))),
			Desc:       map[string]any{"list": input.desc(), "sort_panicked": panicked, "sorted": fromAny(ls).desc(), "reversed": rv.desc()},
			Pred:       pred, PredMsg: msg,
			Nontrivial: ln >= 2,
			Key:        input.canon(),
			Tags:       []string{tag, fmt.Sprintf("len=%d", ln), fmt.Sprintf("parity=%d", ln%2)},
		}
		out.emit(cs)
	}
}

func isNaNAny(x any) bool {
	f, ok := x.(float64)
	return ok && math.IsNaN(f)
}

func coqVals(vs []*V) []string {
	s := make([]string, len(vs))
	for i, v := range vs {
		s[i] = v.coq()
	}
	return s
}

func lessV(a, b *V) bool {
	if a.K != b.K {
		return false
	}
	switch a.K {
	case KInt:
		return a.I < b.I
	case KStr:
		return a.S < b.S
	case KFloat:
		return a.F < b.F
	}
	return false
}
func isSortedV(l []*V) bool {
	for i := 1; i < len(l); i++ {
		if lessV(l[i], l[i-1]) {
			return false
		}
	}
	return true
}
func multiset(l []*V) string {
	s := make([]string, len(l))
	for i, v := range l {
		s[i] = v.canon()
	}
	sort.Strings(s)
	return fmt.Sprint(s)
}

// two canonical renderings equal up to the sign of float zeros
func sameUpToZeros(a, b string) bool {
	norm := func(s string) string {
		out := []byte(s)
		const nz = "f8000000000000000"
		for i := 0; i+len(nz) <= len(out); i++ {
			if string(out[i:i+len(nz)]) == nz {
				copy(out[i:], "f0000000000000000")
			}
		}
		return string(out)
	}
	return norm(a) == norm(b)
}
