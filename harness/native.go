package main

// C12 (every stored value is normalised to one of seven kinds) and C13 (native conversions).

import (
	"time"
	"fmt"
	"math"
	"reflect"
	"sort"

	at "github.com/DanielSvub/anytype"
)

func init() {
	generators["C12"] = genC12
	generators["C13"] = genC13
}

// a Go value together with its Coq `gov` term
type gv struct {
	v   any
	coq string
	tag string
}

func kvsValCoq(o *V) string { // content of an Object as list (bytes * val)
	items := make([]string, len(o.O))
	for i, kv := range o.O {
		items[i] = "(" + coqBytes(kv.K) + "," + kv.V.coq() + ")"
	}
	return coqList(items)
}

var intBoundaries = []int64{0, 1, -1, 127, 128, -128, -129, 200, 255, 256, 32767, -32768, 40000, 65535, 65536, 2147483647, -2147483648, 3000000000, 4294967295, 4294967296,
	math.MaxInt64, math.MinInt64, math.MaxInt64 - 1}

func (r *R) govScalar() gv {
	switch r.Intn(16) {
	case 0:
		return gv{nil, "GNil", "nil"}
	case 1:
		b := r.chance(0.5)
		return gv{b, "(GBool " + coqBool(b) + ")", "bool"}
	case 2:
		s := r.str()
		return gv{s, "(GStr " + coqBytes(s) + ")", "string"}
	case 3:
		x := r.intVal()
		return gv{x, fmt.Sprintf("(GIntW WInt %s)", coqZ(int64(x))), "int"}
	case 4:
		x := int8(pickOf(r, intBoundaries))
		if r.chance(0.5) {
			x = int8(r.Intn(256) - 128)
		}
		return gv{x, fmt.Sprintf("(GIntW WInt8 %s)", coqZ(int64(x))), "int8"}
	case 5:
		x := int16(pickOf(r, intBoundaries))
		if r.chance(0.5) {
			x = int16(r.Intn(65536) - 32768)
		}
		return gv{x, fmt.Sprintf("(GIntW WInt16 %s)", coqZ(int64(x))), "int16"}
	case 6:
		x := int32(pickOf(r, intBoundaries))
		if r.chance(0.5) {
			x = int32(r.Uint32())
		}
		return gv{x, fmt.Sprintf("(GIntW WInt32 %s)", coqZ(int64(x))), "int32"}
	case 7:
		x := pickOf(r, intBoundaries)
		if r.chance(0.5) {
			x = int64(r.Uint64())
		}
		return gv{x, fmt.Sprintf("(GIntW WInt64 %s)", coqZ(x)), "int64"}
	case 8:
		x := uint8(pickOf(r, intBoundaries))
		if r.chance(0.5) {
			x = uint8(r.Intn(256))
		}
		return gv{x, fmt.Sprintf("(GIntW WUint8 %d)", x), "uint8"}
	case 9:
		x := uint16(pickOf(r, intBoundaries))
		if r.chance(0.5) {
			x = uint16(r.Intn(65536))
		}
		return gv{x, fmt.Sprintf("(GIntW WUint16 %d)", x), "uint16"}
	case 10:
		x := uint32(pickOf(r, intBoundaries))
		if r.chance(0.5) {
			x = r.Uint32()
		}
		return gv{x, fmt.Sprintf("(GIntW WUint32 %d)", x), "uint32"}
	case 11:
		x := uint64(pickOf(r, intBoundaries))
		if r.chance(0.4) {
			x = r.Uint64()
		} else if r.chance(0.3) {
			x = pickOf(r, []uint64{1 << 63, 1<<63 - 1, math.MaxUint64, 1<<63 + 1})
		}
		if r.chance(0.5) {
			return gv{uint(x), fmt.Sprintf("(GIntW WUint %d)", x), "uint"}
		}
		return gv{x, fmt.Sprintf("(GIntW WUint64 %d)", x), "uint64"}
	case 12:
		f := r.anyFloat()
		return gv{f, fmt.Sprintf("(GF64 %d)", fbits(f)), "float64"}
	case 13, 14:
		var f float32
		switch r.Intn(5) {
		case 0:
			f = pickOf(r, []float32{0.1, 1, -1, 0, float32(math.Copysign(0, -1)), math.MaxFloat32, math.SmallestNonzeroFloat32, 1e-40, -3e-39, 16777217, 0.333333343,
				float32(math.Inf(1)), float32(math.Inf(-1)), float32(math.NaN())})
		case 1:
			f = math.Float32frombits(r.Uint32() & 0x807fffff) // subnormals
		default:
			f = math.Float32frombits(r.Uint32())
		}
		return gv{f, fmt.Sprintf("(GF32 %d)", math.Float32bits(f)), "float32"}
	default:
		x := r.Intn(2001) - 1000
		return gv{x, fmt.Sprintf("(GIntW WInt %s)", coqZ(int64(x))), "int"}
	}
}

type myStruct struct{ A int }

// defined types over supported underlying types are NOT among the supported dynamic types
type myInt int
type myInt8 int8
type myUint16 uint16
type myString string
type myBool bool
type myFloat float64
type mySlice []any
type myMap map[string]any

func (r *R) govOther() gv {
	xs := []any{[]int8{1}, myStruct{1}, map[int]any{1: 2}, [2]int{1, 2}, (*int)(nil), uintptr(3), complex(1, 2), []byte("x"), make(chan int), []uint{1},
		map[string]int8{"a": 1}, []float32{1}, &myStruct{2}, func() {}, []any(nil)[:0:0], int64(5),
		time.Duration(5), time.Month(3), myInt(7), myInt8(-3), myUint16(9), myString("s"), myBool(true), myFloat(1.5), mySlice{1}, myMap{"a": 1}}
	x := pickOf(r, xs)
	switch x.(type) {
	case int64:
		return gv{x, "(GIntW WInt64 5)", "int64"}
	case []any:
		return gv{[]any{}, "(GSliceAny [])", "[]any"}
	}
	return gv{x, "GOther", fmt.Sprintf("other:%T", x)}
}

func (r *R) govValue(depth int) gv {
	if depth <= 0 || r.chance(0.45) {
		if r.chance(0.06) {
			return r.govOther()
		}
		return r.govScalar()
	}
	o := &TreeOpts{Depth: 2, Width: 3, Floats: (*R).anyFloat, Str: (*R).str, Key: (*R).key}
	n := r.Intn(4)
	switch r.Intn(17) {
	case 0: // an existing Object
		t := r.objTree(o).sortKeys()
		return gv{t.toObject(), "(GObjC " + kvsValCoq(t) + ")", "Object"}
	case 1: // an existing List
		t := r.listTree(o).sortKeys()
		return gv{t.toList(), "(GListC " + coqList(coqVals(t.L)) + ")", "List"}
	case 2, 3:
		var xs []any
		var cs []string
		for i := 0; i < n; i++ {
			g := r.govValue(depth - 1)
			xs = append(xs, g.v)
			cs = append(cs, g.coq)
		}
		if xs == nil {
			xs = []any{}
		}
		return gv{xs, "(GSliceAny " + coqList(cs) + ")", "[]any"}
	case 4, 5:
		m := map[string]any{}
		var keys []string
		cs := map[string]string{}
		for i := 0; i < n; i++ {
			k := r.key()
			g := r.govValue(depth - 1)
			if _, dup := m[k]; dup {
				continue
			}
			m[k] = g.v
			cs[k] = g.coq
			keys = append(keys, k)
		}
		sort.Strings(keys)
		items := make([]string, len(keys))
		for i, k := range keys {
			items[i] = "(" + coqBytes(k) + "," + cs[k] + ")"
		}
		return gv{m, "(GMapAny " + coqList(items) + ")", "map[string]any"}
	case 6:
		var xs []at.Object
		var cs []string
		for i := 0; i < n; i++ {
			if r.chance(0.15) { // a nil entry: reaches parseVal as a nil interface, stored as nil
				xs = append(xs, nil)
				cs = append(cs, "None")
				continue
			}
			t := r.objTree(o).sortKeys()
			xs = append(xs, t.toObject())
			cs = append(cs, "(Some "+kvsValCoq(t)+")")
		}
		return gv{xs, "(GSliceObj " + coqList(cs) + ")", "[]Object"}
	case 7:
		var xs []at.List
		var cs []string
		for i := 0; i < n; i++ {
			if r.chance(0.15) {
				xs = append(xs, nil)
				cs = append(cs, "None")
				continue
			}
			t := r.listTree(o).sortKeys()
			xs = append(xs, t.toList())
			cs = append(cs, "(Some "+coqList(coqVals(t.L))+")")
		}
		return gv{xs, "(GSliceList " + coqList(cs) + ")", "[]List"}
	case 8:
		var xs []string
		var cs []string
		for i := 0; i < n; i++ {
			s := r.str()
			xs = append(xs, s)
			cs = append(cs, coqBytes(s))
		}
		return gv{xs, "(GSliceStr " + coqList(cs) + ")", "[]string"}
	case 9:
		var xs []bool
		var cs []string
		for i := 0; i < n; i++ {
			b := r.chance(0.5)
			xs = append(xs, b)
			cs = append(cs, coqBool(b))
		}
		return gv{xs, "(GSliceBool " + coqList(cs) + ")", "[]bool"}
	case 10:
		var xs []int
		var cs []string
		for i := 0; i < n; i++ {
			x := r.intVal()
			xs = append(xs, x)
			cs = append(cs, coqZ(int64(x)))
		}
		return gv{xs, "(GSliceInt " + coqList(cs) + ")", "[]int"}
	case 11:
		var xs []float64
		var cs []string
		for i := 0; i < n; i++ {
			x := r.anyFloat()
			xs = append(xs, x)
			cs = append(cs, coqU(fbits(x)))
		}
		return gv{xs, "(GSliceF64 " + coqList(cs) + ")", "[]float64"}
	default:
		// typed maps
		keys := []string{}
		seen := map[string]bool{}
		for i := 0; i < n; i++ {
			k := r.key()
			if !seen[k] {
				seen[k] = true
				keys = append(keys, k)
			}
		}
		sort.Strings(keys)
		items := make([]string, len(keys))
		switch r.Intn(6) {
		case 0:
			m := map[string]at.Object{}
			for i, k := range keys {
				if r.chance(0.15) {
					m[k] = nil
					items[i] = "(" + coqBytes(k) + ",None)"
					continue
				}
				t := r.objTree(o).sortKeys()
				m[k] = t.toObject()
				items[i] = "(" + coqBytes(k) + ",Some " + kvsValCoq(t) + ")"
			}
			return gv{m, "(GMapObj " + coqList(items) + ")", "map[string]Object"}
		case 1:
			m := map[string]at.List{}
			for i, k := range keys {
				if r.chance(0.15) {
					m[k] = nil
					items[i] = "(" + coqBytes(k) + ",None)"
					continue
				}
				t := r.listTree(o).sortKeys()
				m[k] = t.toList()
				items[i] = "(" + coqBytes(k) + ",Some " + coqList(coqVals(t.L)) + ")"
			}
			return gv{m, "(GMapList " + coqList(items) + ")", "map[string]List"}
		case 2:
			m := map[string]string{}
			for i, k := range keys {
				s := r.str()
				m[k] = s
				items[i] = "(" + coqBytes(k) + "," + coqBytes(s) + ")"
			}
			return gv{m, "(GMapStr " + coqList(items) + ")", "map[string]string"}
		case 3:
			m := map[string]bool{}
			for i, k := range keys {
				b := r.chance(0.5)
				m[k] = b
				items[i] = "(" + coqBytes(k) + "," + coqBool(b) + ")"
			}
			return gv{m, "(GMapBool " + coqList(items) + ")", "map[string]bool"}
		case 4:
			m := map[string]int{}
			for i, k := range keys {
				x := r.intVal()
				m[k] = x
				items[i] = "(" + coqBytes(k) + "," + coqZ(int64(x)) + ")"
			}
			return gv{m, "(GMapInt " + coqList(items) + ")", "map[string]int"}
		default:
			m := map[string]float64{}
			for i, k := range keys {
				x := r.anyFloat()
				m[k] = x
				items[i] = "(" + coqBytes(k) + "," + coqU(fbits(x)) + ")"
			}
			return gv{m, "(GMapF64 " + coqList(items) + ")", "map[string]float64"}
		}
	}
}

func resValCoq(v *V, panicked bool) string {
	if panicked {
		return "Panic"
	}
	return "(Ok " + v.coq() + ")"
}

type stored struct {
	tree     *V
	panicked bool
	raw      any
}

func storeVia(name string, f func() any) (s stored) {
	defer func() {
		if r := recover(); r != nil {
			s = stored{panicked: true}
		}
	}()
	x := f()
	return stored{tree: fromAny(x), raw: x}
}

// A rejected value leaves nothing behind: after an insertion panicked on an unsupported element nested inside a []any / map[string]any
// (and the caller recovered), the same Go slice / map - repaired - is accepted through every entry point and stored like a fresh one.
func rejectedThenRepaired(f *failer) {
	type bad struct{ x int }
	inner := []any{1, bad{1}, "s"}
	innerM := map[string]any{"a": 1, "bad": bad{2}}
	outer := []any{inner, innerM, 2.5}
	outerM := map[string]any{"l": inner, "m": innerM}
	stores := []func(any) any{
		func(v any) any { return at.NewList(v) },
		func(v any) any { return at.NewList().Add(v) },
		func(v any) any { return at.NewList(0).Insert(0, v) },
		func(v any) any { return at.NewList(0).Replace(0, v) },
		func(v any) any { return at.NewListOf(v, 2) },
		func(v any) any { return at.NewObject("k", v) },
		func(v any) any { return at.NewObject().Set("k", v) },
		func(v any) any { return at.NewObject().SetTF(".k", v) },
		func(v any) any { return at.NewList().SetTF("#0", v) },
		func(v any) any { return at.NewListFrom([]any{v}) },
		func(v any) any { return at.NewObjectFrom(map[string]any{"k": v}) },
	}
	for _, st := range stores {
		for _, v := range []any{outer, outerM} {
			if !try(func() { st(v) }) {
				f.fail("a value with an unsupported element nested inside was accepted")
				return
			}
		}
	}
	if !try(func() { at.NewListFrom(outer) }) || !try(func() { at.NewObjectFrom(outerM) }) || !try(func() { at.NewListFrom(inner) }) || !try(func() { at.NewObjectFrom(innerM) }) {
		f.fail("NewListFrom / NewObjectFrom accepted a slice or map with an unsupported element")
		return
	}
	inner[1] = 2
	delete(innerM, "bad")
	if try(func() {
		if canon(at.NewListFrom(inner)) != canon(at.NewList(1, 2, "s")) || canon(at.NewObjectFrom(innerM)) != canon(at.NewObject("a", 1)) ||
			canon(at.NewObjectFrom(outerM).GetList("l")) != canon(at.NewList(1, 2, "s")) || at.NewListFrom(outer).Count() != 3 {
			f.fail("NewListFrom / NewObjectFrom on a repaired slice or map (rejected once before) builds other content than on a fresh one")
		}
	}) {
		f.fail("NewListFrom / NewObjectFrom panics on a repaired slice or map that was rejected once before")
		return
	}
	want := canon(at.NewList([]any{[]any{1, 2, "s"}, map[string]any{"a": 1}, 2.5}))
	wantM := canon(at.NewList(map[string]any{"l": []any{1, 2, "s"}, "m": map[string]any{"a": 1}}))
	for k, st := range stores {
		for j, v := range []any{outer, outerM} {
			var got any
			if try(func() { got = st(v) }) {
				f.fail("after an earlier insertion of the same Go slice/map was rejected (unsupported nested element, panic recovered) and the element was repaired, entry point %d panics on it", k)
				return
			}
			var stored any
			switch c := got.(type) {
			case at.List:
				stored = c.Get(0)
			case at.Object:
				stored = c.Get("k")
			}
			w := want
			if j == 1 {
				w = wantM
			}
			if canon(at.NewList(stored)) != w {
				f.fail("a repaired Go slice/map is stored differently after an earlier rejected insertion (entry point %d)", k)
				return
			}
		}
	}
}

func genC12(r *R, n int, tier string, out *Out) {
	for i := 0; i < n; i++ {
		g := r.govValue(3)
		f := &failer{pred: true}
		if i%97 == 5 {
			rejectedThenRepaired(f)
		}
		v := g.v
		entries := []struct {
			name string
			f    func() any
		}{
			{"NewList", func() any { return at.NewList(v).Get(0) }},
			{"NewListOf", func() any { return at.NewListOf(v, 2).Get(1) }},
			{"NewListFrom([]any)", func() any { return at.NewListFrom([]any{v}).Get(0) }},
			{"Add", func() any { return at.NewList().Add(v).Get(0) }},
			{"Insert", func() any { return at.NewList(1).Insert(0, v).Get(0) }},
			{"Replace", func() any { return at.NewList(1).Replace(0, v).Get(0) }},
			{"List.SetTF", func() any { return at.NewList().SetTF("#0", v).Get(0) }},
			{"NewObject", func() any { return at.NewObject("k", v).Get("k") }},
			{"NewObjectFrom(map[string]any)", func() any { return at.NewObjectFrom(map[string]any{"k": v}).Get("k") }},
			{"Set", func() any { return at.NewObject().Set("k", v).Get("k") }},
			{"Object.SetTF", func() any { return at.NewObject().SetTF(".k", v).Get("k") }},
			{"Map", func() any { return at.NewList(0).Map(func(int, any) any { return v }).Get(0) }},
			{"Object.MapValues", func() any { return at.NewObject("k", 0).MapValues(func(any) any { return v }).Get("k") }},
		}
		first := storeVia(entries[0].name, entries[0].f)
		for _, e := range entries[1:] {
			s := storeVia(e.name, e.f)
			if s.panicked != first.panicked {
				f.fail("%s and NewList disagree on accepting a %s", e.name, g.tag)
			} else if !s.panicked && s.tree.canon() != first.tree.canon() {
				f.fail("%s stores a %s differently than NewList", e.name, g.tag)
			}
		}
		// kind / getter consistency on the stored value
		if !first.panicked {
			l := at.NewList(v)
			kind := l.TypeOf(0)
			got := l.Get(0)
			wantGo := map[at.Type]string{at.TypeNil: "<nil>", at.TypeObject: "object", at.TypeList: "list", at.TypeString: "string", at.TypeBool: "bool", at.TypeInt: "int", at.TypeFloat: "float64"}[kind]
			gotGo := "<nil>"
			switch got.(type) {
			case nil:
			case at.Object:
				gotGo = "object"
			case at.List:
				gotGo = "list"
			default:
				gotGo = reflect.TypeOf(got).String()
			}
			if wantGo != gotGo {
				f.fail("TypeOf reports %v but Get returns a %s", kind, gotGo)
			}
			getters := map[at.Type]func(){
				at.TypeObject: func() { l.GetObject(0) }, at.TypeList: func() { l.GetList(0) }, at.TypeString: func() { l.GetString(0) },
				at.TypeBool: func() { l.GetBool(0) }, at.TypeInt: func() { l.GetInt(0) }, at.TypeFloat: func() { l.GetFloat(0) },
			}
			for k, get := range getters {
				p := try(get)
				if (k == kind) == p {
					f.fail("typed getter for %v on a value of kind %v: panicked=%v", k, kind, p)
				}
			}
			// numeric value preserved when representable
			rv := reflect.ValueOf(v)
			switch {
			case v == nil:
			case rv.CanInt():
				if x, ok := got.(int); !ok || int64(x) != rv.Int() {
					f.fail("%s %d stored as %v", g.tag, rv.Int(), got)
				}
			case rv.CanUint():
				if rv.Uint() <= math.MaxInt64 {
					if x, ok := got.(int); !ok || uint64(x) != rv.Uint() {
						f.fail("%s %d stored as %v", g.tag, rv.Uint(), got)
					}
				}
			case rv.Kind() == reflect.Float32:
				if x, ok := got.(float64); !ok || !(x == float64(v.(float32)) || (math.IsNaN(x) && math.IsNaN(float64(v.(float32))))) {
					f.fail("float32 %v stored as %v", v, got)
				}
			}
			// a list of zero repetitions is an ordinary empty list (it can be stored, read back, printed, compared)
			if try(func() {
				z := at.NewListOf(v, 0)
				if z.Count() != 0 || !z.Empty() || z.String() != "[]" || !z.Equals(at.NewList()) {
					f.fail("NewListOf(x, 0) is not an empty list")
				}
				if h := at.NewList(z); h.TypeOf(0) != at.TypeList || h.Get(0) != any(z) || h.GetList(0) != z {
					f.fail("NewListOf(x, 0) stored in a list is not read back as itself")
				}
				if z.Add(1) != z || z.Count() != 1 {
					f.fail("Add on NewListOf(x, 0) does not behave like Add on an empty list")
				}
			}) {
				f.fail("NewListOf(x, 0) cannot be used like an empty list (panic)")
			}
			// an existing container is stored by reference
			switch c := v.(type) {
			case at.Object:
				if got != any(c) {
					f.fail("an Object argument was not stored by reference")
				}
			case at.List:
				if got != any(c) {
					f.fail("a List argument was not stored by reference")
				}
			}
		} else if g.coq != "GOther" && !containsOther(g.coq) {
			f.fail("a supported %s was rejected", g.tag)
		}
		if !first.panicked && g.coq == "GOther" {
			f.fail("a value of the unsupported dynamic type %s was accepted instead of causing a panic", g.tag)
		}
		lf := storeVia("NewListFrom", func() any { return at.NewListFrom(v) })
		of := storeVia("NewObjectFrom", func() any { return at.NewObjectFrom(v) })
		out.emit(&Case{
			Coq:        fmt.Sprintf("(%s, %s, %s, %s)", g.coq, resValCoq(first.tree, first.panicked), resValCoq(lf.tree, lf.panicked), resValCoq(of.tree, of.panicked)),
			Desc:       map[string]any{"go_type": g.tag, "go_value": clip(fmt.Sprintf("%#v", safeFmt(v))), "stored_panicked": first.panicked, "stored": descOrNil(first.tree)},
			Pred:       f.pred, PredMsg: f.msg,
			Nontrivial: true,
			Key:        g.coq,
			Tags:       []string{g.tag, fmt.Sprintf("panicked=%v", first.panicked)},
		})
	}
}

func safeFmt(v any) any {
	switch v.(type) {
	case at.Object, at.List, []at.Object, []at.List, map[string]at.Object, map[string]at.List, func(), chan int:
		return fmt.Sprintf("<%T>", v)
	}
	return v
}
func descOrNil(v *V) any {
	if v == nil {
		return nil
	}
	return v.desc()
}
func containsOther(coq string) bool { return len(coq) > 0 && (stringsContains(coq, "GOther")) }
func stringsContains(a, b string) bool {
	for i := 0; i+len(b) <= len(a); i++ {
		if a[i:i+len(b)] == b {
			return true
		}
	}
	return false
}

// ---------- C13 ----------

// the native Go value a tree denotes: map[string]any / []any / scalars
func (v *V) toNative() any {
	switch v.K {
	case KNil:
		return nil
	case KBool:
		return v.B
	case KInt:
		return v.I
	case KFloat:
		return v.F
	case KStr:
		return v.S
	case KList:
		r := make([]any, 0, len(v.L))
		for _, e := range v.L {
			r = append(r, e.toNative())
		}
		return r
	case KObj:
		r := map[string]any{}
		for _, kv := range v.O {
			r[kv.K] = kv.V.toNative()
		}
		return r
	}
	return nil
}

// observed Go native value -> gov term (map keys sorted); anytype containers inside are reported as GObjC/GListC
func govOfNative(x any) string {
	switch t := x.(type) {
	case nil:
		return "GNil"
	case bool:
		return "(GBool " + coqBool(t) + ")"
	case string:
		return "(GStr " + coqBytes(t) + ")"
	case int:
		return fmt.Sprintf("(GIntW WInt %s)", coqZ(int64(t)))
	case float64:
		return fmt.Sprintf("(GF64 %d)", fbits(t))
	case []any:
		cs := make([]string, len(t))
		for i, e := range t {
			cs[i] = govOfNative(e)
		}
		return "(GSliceAny " + coqList(cs) + ")"
	case map[string]any:
		keys := make([]string, 0, len(t))
		for k := range t {
			keys = append(keys, k)
		}
		sort.Strings(keys)
		cs := make([]string, len(keys))
		for i, k := range keys {
			cs[i] = "(" + coqBytes(k) + "," + govOfNative(t[k]) + ")"
		}
		return "(GMapAny " + coqList(cs) + ")"
	case at.Object:
		return "(GObjC " + kvsValCoq(fromAny(t)) + ")"
	case at.List:
		return "(GListC " + coqList(coqVals(fromAny(t).L)) + ")"
	}
	return "GOther"
}

func hasContainer(x any) bool {
	switch t := x.(type) {
	case at.Object, at.List:
		return true
	case []any:
		for _, e := range t {
			if hasContainer(e) {
				return true
			}
		}
	case map[string]any:
		for _, e := range t {
			if hasContainer(e) {
				return true
			}
		}
	}
	return false
}

func deepEqualNaN(a, b any) bool {
	return fromNative(a).canon() == fromNative(b).canon()
}
func fromNative(x any) *V {
	switch t := x.(type) {
	case []any:
		r := &V{K: KList}
		for _, e := range t {
			r.L = append(r.L, fromNative(e))
		}
		return r
	case map[string]any:
		r := &V{K: KObj}
		for k, e := range t {
			r.O = append(r.O, KV{k, fromNative(e)})
		}
		return r.sortKeysShallow()
	case at.Object, at.List:
		return vstr("<container>")
	}
	return fromAny(x)
}
func (v *V) sortKeysShallow() *V {
	sort.Slice(v.O, func(i, j int) bool { return v.O[i].K < v.O[j].K })
	return v
}

func genC13(r *R, n int, tier string, out *Out) {
	o := &TreeOpts{Depth: 5, Width: 4, Floats: (*R).anyFloat, Str: (*R).str, Key: (*R).key, Stress: true}
	big := r.bigTrees(&TreeOpts{Depth: 2, Width: 3, Floats: (*R).finiteFloat, Str: (*R).str, Key: (*R).key})
	for i := 0; i < n; i++ {
		var t *V
		if i < len(big) {
			t = big[i]
		} else if r.chance(0.5) {
			t = r.listTree(o)
		} else {
			t = r.objTree(o)
		}
		t.sortKeys()
		// how the container is put together (its content is t either way): plainly; with one nested container stored a second
		// time (the same instance at two places, no cycle); with the nested containers stored as derived structures
		shape := "plain"
		share := -1
		var contIdx []int
		if t.K == KList {
			for j, e := range t.L {
				if e.K == KList || e.K == KObj {
					contIdx = append(contIdx, j)
				}
			}
		} else {
			for j, kv := range t.O {
				if kv.V.K == KList || kv.V.K == KObj {
					contIdx = append(contIdx, j)
				}
			}
		}
		if len(contIdx) > 0 && r.chance(0.4) {
			if r.chance(0.5) {
				shape = "shared"
				share = pickOf(r, contIdx)
				if t.K == KList {
					t.L = append(t.L, t.L[share])
				} else {
					t.O = append(t.O, KV{"zz-shared", t.O[share].V}) // sorts last among the generated keys? re-sorted below
					t.sortKeysShallow()
					for j, kv := range t.O {
						if kv.K != "zz-shared" && kv.V == t.O[indexOfKey(t, "zz-shared")].V {
							share = j
						}
					}
				}
			} else {
				shape = "derived"
			}
		}
		wrap := func(x any) any { // a derived structure holding the same content
			switch c := x.(type) {
			case at.List:
				m := &MyList{List: c}
				m.Init(m)
				if r.chance(0.3) {
					m2 := &MyList2{MyList: m}
					m2.Init(m2)
					return m2
				}
				return m
			case at.Object:
				m := &MyObj{Object: c}
				m.Init(m)
				return m
			}
			return x
		}
		mk := func() any {
			switch shape {
			case "shared":
				if t.K == KList {
					l := vlist(t.L[:len(t.L)-1]...).toList()
					return l.Add(l.Get(share))
				}
				ob := at.NewObject()
				for _, kv := range t.O {
					if kv.K != "zz-shared" {
						ob.Set(kv.K, kv.V.toAny())
					}
				}
				return ob.Set("zz-shared", ob.Get(t.O[share].K))
			case "derived":
				if t.K == KList {
					l := at.NewList()
					for _, e := range t.L {
						l.Add(wrap(e.toAny()))
					}
					return l
				}
				ob := at.NewObject()
				for _, kv := range t.O {
					ob.Set(kv.K, wrap(kv.V.toAny()))
				}
				return ob
			}
			return t.toAny()
		}
		f := &failer{pred: true}
		if i%97 == 11 {
			rejectedThenRepaired(f) // (a conversion that was rejected once leaves nothing behind that a later conversion could trip over)
		}
		c := mk()
		before := canon(c)
		if before != t.canon() {
			f.fail("the container built as %q does not hold the intended content", shape)
		}
		var export, snapshot any
		switch cc := c.(type) {
		case at.List:
			export = cc.NativeSlice()
			snapshot = []any(cc.Slice())
			for j, e := range cc.Slice() {
				if !sameAny(e, cc.Get(j)) {
					f.fail("Slice()[%d] is not what Get returns", j)
				}
			}
		case at.Object:
			export = cc.NativeDict()
			d := cc.Dict()
			snapshot = map[string]any(d)
			if len(d) != cc.Count() {
				f.fail("Dict() has %d entries, Count() = %d", len(d), cc.Count())
			}
			for k, e := range d {
				if !cc.KeyExists(k) {
					f.fail("Dict() holds the key %q, which the object does not have", k)
				} else if !sameAny(e, cc.Get(k)) {
					f.fail("Dict()[%q] is not what Get returns", k)
				}
			}
		}
		if hasContainer(export) {
			f.fail("a Native* export contains an anytype container")
		}
		want := t.toNative()
		if !deepEqualNaN(export, want) {
			f.fail("the Native* export is not deep-equal to the container's content")
		}
		if t.nanFree() && !reflect.DeepEqual(export, want) {
			f.fail("the Native* export is not reflect.DeepEqual to the content")
		}
		// round trip from the native tree
		var back any
		switch w := want.(type) {
		case []any:
			back = at.NewListFrom(w).NativeSlice()
		case map[string]any:
			back = at.NewObjectFrom(w).NativeDict()
		}
		if !deepEqualNaN(back, want) {
			f.fail("NewXFrom(m).NativeX() does not reproduce m")
		}
		// no aliasing: mutate the export, the snapshot and the source native value; the container must not change, and vice versa
		mutateNative(export)
		mutateNative(snapshot)
		if canon(c) != before {
			f.fail("modifying an exported Go map/slice changed the container")
		}
		var src any
		var built any
		switch w := want.(type) {
		case []any:
			src = w
			built = at.NewListFrom(w)
		case map[string]any:
			src = w
			built = at.NewObjectFrom(w)
		}
		b0 := canon(built)
		mutateNative(src)
		if canon(built) != b0 {
			f.fail("modifying the Go map/slice a container was built from changed the container")
		}
		var export2 any
		switch cc := c.(type) {
		case at.List:
			export2 = cc.NativeSlice()
			if !deepEqualNaN(export2, t.toNative()) {
				f.fail("a second NativeSlice, taken after the first export was modified by its owner, is not deep-equal to the container's content")
			}
			e0 := fromNative(export2).canon()
			cc.Add(1).Reverse()
			if cc.Count() > 1 {
				cc.Replace(0, "changed")
			}
			if fromNative(export2).canon() != e0 {
				f.fail("modifying the container changed an earlier export")
			}
		case at.Object:
			export2 = cc.NativeDict()
			if !deepEqualNaN(export2, t.toNative()) {
				f.fail("a second NativeDict, taken after the first export was modified by its owner, is not deep-equal to the container's content")
			}
			e0 := fromNative(export2).canon()
			cc.Set("zz-added", 1)
			for _, kv := range t.O {
				cc.Set(kv.K, "changed")
				break
			}
			if fromNative(export2).canon() != e0 {
				f.fail("modifying the container changed an earlier export")
			}
		}
		// observations for the model are taken from a fresh container (the one above was mutated)
		c2 := mk()
		var e2, s2 any
		switch cc := c2.(type) {
		case at.List:
			e2, s2 = cc.NativeSlice(), []any(cc.Slice())
		case at.Object:
			e2, s2 = cc.NativeDict(), map[string]any(cc.Dict())
		}
		out.emit(&Case{
			Coq:        fmt.Sprintf("(%s, %s, %s)", t.coq(), govOfNative(e2), govOfNative(s2)),
			Desc:       map[string]any{"container": t.desc()},
			Pred:       f.pred, PredMsg: f.msg,
			Nontrivial: t.size() >= 4,
			Key:        t.canon(),
			Tags:       []string{map[bool]string{true: "object", false: "list"}[t.K == KObj], fmt.Sprintf("size=%d", t.size()/4*4), "shape=" + shape},
		})
	}
}

func indexOfKey(t *V, k string) int {
	for j, kv := range t.O {
		if kv.K == k {
			return j
		}
	}
	return -1
}

func mutateNative(x any) {
	switch t := x.(type) {
	case []any:
		for i := range t {
			mutateNative(t[i])
			t[i] = "mutated"
		}
	case map[string]any:
		for k := range t {
			mutateNative(t[k])
			t[k] = "mutated"
		}
		t["zz-mutated"] = 1
	}
}
