package main

import (
	"fmt"
	"math"

	at "github.com/DanielSvub/anytype"
)

func init() { generators["C18"] = genC18 }

func sameF(a, b float64) bool {
	return (math.IsNaN(a) && math.IsNaN(b)) || math.Float64bits(a) == math.Float64bits(b)
}

func resZ(v uint64, panicked bool) string {
	if panicked {
		return "Panic"
	}
	return "(Ok " + coqU(v) + ")"
}

func genC18(r *R, n int, tier string, out *Out) {
	for i := 0; i < n; i++ {
		var elems []*V
		mode := r.Intn(9)
		ln := r.Intn(9)
		if r.chance(0.1) {
			ln = 1
		}
		if r.chance(0.05) {
			ln = 0
		}
		if boosted() {
			ln = 20 + r.Intn(100)
		}
		if i < 10 {
			ln = []int{1025, 1030, 4101, 1026, 1027, 4102, 1500, 1023, 2049, 257}[i]
			mode = []int{0, 2, 4, 6, 0, 2, 4, 6, 0, 2}[i]
		} else if r.chance(0.03) {
			ln = r.stressSize() // the sizes at which an implementation may switch strategy (chunking, pooling, unrolling)
		}
		tag := ""
		for j := 0; j < ln; j++ {
			switch mode {
			case 0: // all negative
				tag = "all-negative"
				if r.chance(0.5) {
					elems = append(elems, vint(-1-r.Intn(1000)))
				} else {
					elems = append(elems, vfloat(-math.Abs(r.finiteFloat())-0.5))
				}
			case 1: // ints near the int64 boundaries (overflowing sums/products)
				tag = "int-boundary"
				elems = append(elems, vint(pickOf(r, interestingInts)))
			case 2: // ints and floats interleaved
				tag = "mixed-numeric"
				if r.chance(0.5) {
					elems = append(elems, vint(r.intVal()))
				} else {
					elems = append(elems, vfloat(r.finiteFloat()))
				}
			case 3: // non-int elements interleaved (Int family on any list)
				tag = "interleaved-other-kinds"
				elems = append(elems, r.tree(defaultOpts(), 1))
			case 4: // small ints
				tag = "small-ints"
				elems = append(elems, vint(r.Intn(21)-10))
			case 5: // floats only, incl. zeros of both signs and extremes
				tag = "floats"
				elems = append(elems, vfloat(r.finiteFloat()))
			case 6: // all positive
				tag = "all-positive"
				if r.chance(0.5) {
					elems = append(elems, vint(1+r.Intn(1000)))
				} else {
					elems = append(elems, vfloat(math.Abs(r.finiteFloat())+0.5))
				}
			case 8: // finite elements whose running product/sum overflows to an infinity before a zero or an opposite value arrives
				tag = "overflow-then-zero"
				switch {
				case j < 2 || r.chance(0.3):
					if r.chance(0.5) {
						elems = append(elems, vfloat(pickOf(r, []float64{1e200, -1e200, math.MaxFloat64, -math.MaxFloat64, 1e308})))
					} else {
						elems = append(elems, vint(pickOf(r, []int{math.MaxInt64, math.MinInt64, math.MaxInt64 - 1})))
					}
				case r.chance(0.6):
					elems = append(elems, pickOf(r, []*V{vint(0), vfloat(0), vfloat(math.Copysign(0, -1))}))
				default:
					elems = append(elems, vfloat(pickOf(r, []float64{2, -2, 0.5, -1e308, 1e-300})))
				}
			default: // numeric incl. non-finite (outside the theorem's domain, inside the model)
				tag = "numeric-with-nonfinite"
				if r.chance(0.4) {
					elems = append(elems, vint(r.intVal()))
				} else {
					elems = append(elems, vfloat(r.anyFloat()))
				}
			}
		}
		if ln == 0 {
			tag = "empty"
		} else if ln == 1 {
			tag = tag + "/single"
		}
		// on long lists the extreme element often sits in one of the last three positions (a fold that splits the work by size may
		// never look at the tail)
		if len(elems) >= 40 && (i < 10 || r.chance(0.6)) {
			k := len(elems) - 1 - r.Intn(3)
			choice := r.Intn(4)
			if i < 10 { // the guaranteed large lists: the strict minimum (even i) or maximum (odd i) is the very last element
				k = len(elems) - 1
				choice = i % 2
			}
			switch choice {
			case 0:
				elems[k] = vfloat(-1e300)
			case 1:
				elems[k] = vfloat(1e300)
			case 2:
				elems[k] = vint(math.MinInt64 + 5)
			default:
				elems[k] = vint(math.MaxInt64 - 5)
			}
			tag += "/extreme-in-tail"
		}
		tree := vlist(elems...)
		l := tree.toList()
		before := canon(l)
		sum, _ := tryVal(l.Sum)
		prod, _ := tryVal(l.Prod)
		avg, _ := tryVal(l.Avg)
		mn, mnP := tryVal(l.Min)
		mx, mxP := tryVal(l.Max)
		isum, iprod, imin, imax := l.IntSum(), l.IntProd(), l.IntMin(), l.IntMax()
		after := canon(l)

		// property predicate on the implementation: reference folds
		pred, msg := true, ""
		fail := func(f string, a ...any) {
			if pred {
				pred = false
				msg = fmt.Sprintf(f, a...)
			}
		}
		if before != after {
			fail("list modified by an aggregate")
		}
		allNum, allFinite := true, true
		var fs []float64
		var is []int
		for _, e := range elems {
			switch e.K {
			case KInt:
				fs = append(fs, float64(e.I))
				is = append(is, e.I)
			case KFloat:
				fs = append(fs, e.F)
				if math.IsNaN(e.F) || math.IsInf(e.F, 0) {
					allFinite = false
				}
			default:
				allNum = false
			}
		}
		if allNum && allFinite {
			rs, rp := 0.0, 1.0
			for _, f := range fs {
				rs += f
				rp *= f
			}
			if !sameF(sum, rs) {
				fail("Sum=%v want %v", sum, rs)
			}
			if !sameF(prod, rp) {
				fail("Prod=%v want %v", prod, rp)
			}
			if len(fs) > 0 {
				if !sameF(avg, rs/float64(len(fs))) {
					fail("Avg=%v want %v", avg, rs/float64(len(fs)))
				}
				rmin, rmax := fs[0], fs[0]
				for _, f := range fs {
					rmin = math.Min(rmin, f)
					rmax = math.Max(rmax, f)
				}
				if mnP || mn != rmin {
					fail("Min=%v want %v", mn, rmin)
				}
				if mxP || mx != rmax {
					fail("Max=%v want %v", mx, rmax)
				}
			} else {
				if mn != 0 || mx != 0 || mnP || mxP {
					fail("Min/Max of empty = %v/%v", mn, mx)
				}
			}
		}
		{
			rs, rp := 0, 1
			for _, x := range is {
				rs += x
				rp *= x
			}
			if isum != rs {
				fail("IntSum=%d want %d", isum, rs)
			}
			if iprod != rp {
				fail("IntProd=%d want %d", iprod, rp)
			}
			rmin, rmax := 0, 0
			if len(is) > 0 {
				rmin, rmax = is[0], is[0]
				for _, x := range is {
					if x < rmin {
						rmin = x
					}
					if x > rmax {
						rmax = x
					}
				}
			}
			if imin != rmin {
				fail("IntMin=%d want %d", imin, rmin)
			}
			if imax != rmax {
				fail("IntMax=%d want %d", imax, rmax)
			}
		}
		_ = at.TypeInt
		obs := fmt.Sprintf("(mkC18 %s %s %s %s %s %s %s %s %s)", coqU(fbits(sum)), coqU(fbits(prod)), coqU(fbits(avg)),
			resZ(fbits(mn), mnP), resZ(fbits(mx), mxP), coqZ(int64(isum)), coqZ(int64(iprod)), coqZ(int64(imin)), coqZ(int64(imax)))
		elemsCoq := make([]string, len(elems))
		for j, e := range elems {
			elemsCoq[j] = e.coq()
		}
		c := &Case{
			Coq:  fmt.Sprintf("(%s, %s)", coqList(elemsCoq), obs),
			Desc: map[string]any{"list": tree.desc(), "sum": sum2s(sum), "prod": sum2s(prod), "avg": sum2s(avg), "min": sum2s(mn), "max": sum2s(mx), "min_panicked": mnP, "max_panicked": mxP, "intsum": isum, "intprod": iprod, "intmin": imin, "intmax": imax},
			Pred: pred, PredMsg: msg,
			Nontrivial: ln >= 2,
			Key:        before,
			Tags:       []string{tag, fmt.Sprintf("len=%d", ln)},
		}
		out.emit(c)
	}
}

func sum2s(f float64) string { return fmt.Sprintf("%v", f) }
