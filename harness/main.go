package main

import (
	"flag"
	"fmt"
	"os"
)

type genFunc func(r *R, n int, tier string, out *Out)

var generators = map[string]genFunc{}

func main() {
	if len(os.Args) < 2 {
		fmt.Fprintln(os.Stderr, "usage: harness <property|cmd> [flags]")
		os.Exit(2)
	}
	prop := os.Args[1]
	fs := flag.NewFlagSet(prop, flag.ExitOnError)
	seed := fs.Int64("seed", 1, "PRNG seed")
	n := fs.Int("n", 100, "number of cases")
	tier := fs.String("tier", "quick", "tier")
	outp := fs.String("out", "cases.jsonl", "output file")
	replay := fs.String("replay", "", "replay file")
	fs.Parse(os.Args[2:])
	if cmd, ok := commands[prop]; ok {
		os.Exit(cmd(fs.Args(), *seed, *n, *tier, *outp, *replay))
	}
	g, ok := generators[prop]
	if !ok {
		fmt.Fprintln(os.Stderr, "unknown property", prop)
		os.Exit(2)
	}
	thorough = *tier == "thorough"
	boostR = newR(*seed ^ 0x5eed5eed)
	out := newOut(*outp)
	switch prop {
	case "C06", "C08", "C12", "C13":
		out.emit(deepScaleCase(prop))
	}
	g(newR(*seed), *n, *tier, out)
	// a second stream for the properties whose operations also run inside heap-level programs (heapext.go)
	if xp, ok := xStreams[prop]; ok && !asyncStuck {
		nx := *n / xp.div
		if nx < xp.min {
			nx = xp.min
		}
		genXHeap(xp.prof)(newR(*seed^0x78686561), nx, *tier, out)
	}
	if prop == "C04" {
		// exhaustive over a 12-symbol structural alphabet: bodies up to length 3 (quick: 4 x 1885 inputs) or 4 (thorough: 4 x 22621)
		if thorough {
			genExhaustiveParser(4, out)
		} else {
			genExhaustiveParser(3, out)
		}
	}
	out.close()
}

// extra commands (astx, race soak, ...) register here
var commands = map[string]func(args []string, seed int64, n int, tier, out, replay string) int{}
