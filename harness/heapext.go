package main

// Extended heap engine (HeapExt.v): the rest of the public API as operations of heap-level programs, so that every method can
// be interleaved with mutations through aliases: views with callbacks, typed slices, All*, aggregates, String/FormatString
// (as the data they denote), Native*, NewListFrom/NewObjectFrom, async variants. The callback family mirrors HeapExt.v.

import (
	"encoding/json"
	"bytes"
	"fmt"
	"math"
	"runtime/debug"
	"sort"
	"strings"
	"sync"
	"sync/atomic"

	at "github.com/DanielSvub/anytype"
)

// ---------- native sources (NewListFrom / NewObjectFrom) ----------

type NSrc struct {
	Leaf  *Operand
	Slice []*NSrc
	Map   []NKV
	Kind  int // 0 leaf, 1 slice, 2 map
}
type NKV struct {
	K string
	V *NSrc
}

func (n *NSrc) coq() string {
	switch n.Kind {
	case 0:
		return "(NOp " + n.Leaf.coq() + ")"
	case 1:
		return "(NSlice " + coqNSrcs(n.Slice) + ")"
	}
	return "(NMap " + coqNKVs(n.Map) + ")"
}
func coqNSrcs(l []*NSrc) string {
	s := make([]string, len(l))
	for i, x := range l {
		s[i] = x.coq()
	}
	return coqList(s)
}
func coqNKVs(l []NKV) string {
	s := make([]string, len(l))
	for i, kv := range l {
		s[i] = "(" + coqBytes(kv.K) + "," + kv.V.coq() + ")"
	}
	return coqList(s)
}
func (n *NSrc) String() string {
	switch n.Kind {
	case 0:
		return n.Leaf.String()
	case 1:
		s := make([]string, len(n.Slice))
		for i, x := range n.Slice {
			s[i] = x.String()
		}
		return "[]any{" + strings.Join(s, ",") + "}"
	}
	s := make([]string, len(n.Map))
	for i, kv := range n.Map {
		s[i] = fmt.Sprintf("%q:%s", kv.K, kv.V.String())
	}
	return "map{" + strings.Join(s, ",") + "}"
}
func (n *NSrc) toAny(m *Machine) any {
	switch n.Kind {
	case 0:
		return m.operand(*n.Leaf)
	case 1:
		r := make([]any, len(n.Slice))
		for i, x := range n.Slice {
			r[i] = x.toAny(m)
		}
		return r
	}
	r := map[string]any{}
	for _, kv := range n.Map {
		r[kv.K] = kv.V.toAny(m)
	}
	return r
}

// a typed flavour of a []any when all elements have one scalar kind (the model does not distinguish the flavours)
func typedSlice(xs []any) any {
	if len(xs) == 0 {
		return xs
	}
	// []List / []Object, nil entries allowed (a nil entry reaches parseVal as a nil interface and is stored as nil)
	var firstC any
	for _, x := range xs {
		if x != nil {
			firstC = x
			break
		}
	}
	switch firstC.(type) {
	case at.List:
		r := make([]at.List, len(xs))
		for i, x := range xs {
			if x == nil {
				continue
			}
			v, ok := x.(at.List)
			if !ok {
				return xs
			}
			r[i] = v
		}
		return r
	case at.Object:
		r := make([]at.Object, len(xs))
		for i, x := range xs {
			if x == nil {
				continue
			}
			v, ok := x.(at.Object)
			if !ok {
				return xs
			}
			r[i] = v
		}
		return r
	}
	switch xs[0].(type) {
	case int:
		r := make([]int, len(xs))
		for i, x := range xs {
			v, ok := x.(int)
			if !ok {
				return xs
			}
			r[i] = v
		}
		return r
	case string:
		r := make([]string, len(xs))
		for i, x := range xs {
			v, ok := x.(string)
			if !ok {
				return xs
			}
			r[i] = v
		}
		return r
	case bool:
		r := make([]bool, len(xs))
		for i, x := range xs {
			v, ok := x.(bool)
			if !ok {
				return xs
			}
			r[i] = v
		}
		return r
	case float64:
		r := make([]float64, len(xs))
		for i, x := range xs {
			v, ok := x.(float64)
			if !ok {
				return xs
			}
			r[i] = v
		}
		return r
	case at.List:
		r := make([]at.List, len(xs))
		for i, x := range xs {
			v, ok := x.(at.List)
			if !ok {
				return xs
			}
			r[i] = v
		}
		return r
	case at.Object:
		r := make([]at.Object, len(xs))
		for i, x := range xs {
			v, ok := x.(at.Object)
			if !ok {
				return xs
			}
			r[i] = v
		}
		return r
	}
	return xs
}
func typedMap(xs map[string]any) any {
	if len(xs) == 0 {
		return xs
	}
	var firstC any
	for _, v := range xs {
		if v != nil {
			firstC = v
		}
	}
	switch firstC.(type) {
	case at.List:
		r := map[string]at.List{}
		for k, x := range xs {
			if x == nil {
				r[k] = nil
				continue
			}
			v, ok := x.(at.List)
			if !ok {
				return xs
			}
			r[k] = v
		}
		return r
	case at.Object:
		r := map[string]at.Object{}
		for k, x := range xs {
			if x == nil {
				r[k] = nil
				continue
			}
			v, ok := x.(at.Object)
			if !ok {
				return xs
			}
			r[k] = v
		}
		return r
	}
	var first any
	for _, v := range xs {
		first = v
		break
	}
	switch first.(type) {
	case int:
		r := map[string]int{}
		for k, x := range xs {
			v, ok := x.(int)
			if !ok {
				return xs
			}
			r[k] = v
		}
		return r
	case string:
		r := map[string]string{}
		for k, x := range xs {
			v, ok := x.(string)
			if !ok {
				return xs
			}
			r[k] = v
		}
		return r
	case float64:
		r := map[string]float64{}
		for k, x := range xs {
			v, ok := x.(float64)
			if !ok {
				return xs
			}
			r[k] = v
		}
		return r
	case bool:
		r := map[string]bool{}
		for k, x := range xs {
			v, ok := x.(bool)
			if !ok {
				return xs
			}
			r[k] = v
		}
		return r
	}
	return xs
}

// ---------- callbacks (mirror HeapExt.v: hpred, hmapf) ----------

func kindCodeOf(x any) int {
	switch x.(type) {
	case nil:
		return 1
	case at.Object:
		return 2
	case at.List:
		return 3
	case string:
		return 4
	case bool:
		return 5
	case int:
		return 6
	case float64:
		return 7
	}
	return 0
}

func hTruthy(x any) bool {
	switch v := x.(type) {
	case nil:
		return false
	case bool:
		return v
	case int:
		return v > 0
	case float64:
		return v > 0
	case string:
		return v != ""
	case at.List:
		return v.Count() > 0
	case at.Object:
		return v.Count() > 0
	}
	return false
}

func (m *Machine) longestOtherList(l at.List) at.List {
	var best at.List
	for _, v := range m.vars {
		if c, ok := v.(at.List); ok && c != l && (best == nil || c.Count() > best.Count()) {
			best = c
		}
	}
	return best
}

// touch: a callback may itself iterate (nested iteration is ordinary use: a matrix, a list of records); reading the element's own
// content from inside the callback, and the receiver's through a second iteration, must not disturb the iteration in progress
var touchDepth int32

func touch(x any) {
	if atomic.AddInt32(&touchDepth, 1) <= 2 {
		switch c := x.(type) {
		case at.List:
			c.ForEach(func(int, any) {})
			c.ForEachValue(func(any) {})
			_ = c.Count()
		case at.Object:
			c.ForEach(func(string, any) {})
			_ = c.Count()
		}
	}
	atomic.AddInt32(&touchDepth, -1)
}

func applyPred(p string, k at.Type, x any) bool {
	touch(x)
	switch p {
	case "PTruthy":
		return hTruthy(x)
	case "PKindIs":
		return kindCodeOf(x) == int(k)
	case "PAll":
		return true
	}
	return false
}
func predCoq(p string, k at.Type) string {
	if p == "PKindIs" {
		return "(PKindIs " + kindCoq(k) + ")"
	}
	return p
}
func applyMapf(f string, tag any, x any) any {
	touch(x)
	switch f {
	case "MId":
		return x
	case "MPair":
		return []any{tag, x}
	case "MDict":
		return map[string]any{"t": tag, "v": x}
	}
	return nil
}

var xKinds = []at.Type{at.TypeObject, at.TypeList, at.TypeString, at.TypeBool, at.TypeInt, at.TypeFloat}

// ---------- emission ----------

func isXOp(name string) bool { return strings.HasPrefix(name, "X") }

func (o *Op) xcoq() string {
	switch o.Name {
	case "XNewListFrom":
		return "(XNewListFrom " + coqNSrcs(o.Src) + ")"
	case "XNewObjectFrom":
		return "(XNewObjectFrom " + coqNKVs(o.SrcKV) + ")"
	case "XLFilter":
		return fmt.Sprintf("(XLFilter %d %s)", o.R, predCoq(o.Pred, o.PKind))
	case "XLFilterK":
		return fmt.Sprintf("(XLFilterK %s %d %s)", kindCoq(o.Kind), o.R, predCoq(o.Pred, o.PKind))
	case "XLMap", "XLMapValues", "XLMapAsync", "XOMap", "XOMapValues", "XOMapAsync":
		return fmt.Sprintf("(%s %d %s)", o.Name, o.R, o.Mapf)
	case "XLMapK", "XOMapK":
		return fmt.Sprintf("(%s %s %d %s)", o.Name, kindCoq(o.Kind), o.R, o.Mapf)
	case "XLForEachK", "XLSliceK", "XLAll", "XOForEachK":
		return fmt.Sprintf("(%s %s %d)", o.Name, kindCoq(o.Kind), o.R)
	case "XLAgg":
		return fmt.Sprintf("(XLAgg %s %d)", o.Agg, o.R)
	case "XFormat":
		return fmt.Sprintf("(XFormat %d %s)", o.R, coqZ(o.I))
	default:
		return fmt.Sprintf("(%s %d)", o.Name, o.R)
	}
}

func (o *Op) xString() string {
	switch o.Name {
	case "XNewListFrom":
		return "XNewListFrom " + (&NSrc{Kind: 1, Slice: o.Src}).String() + flavourNote(o)
	case "XNewObjectFrom":
		return "XNewObjectFrom " + (&NSrc{Kind: 2, Map: o.SrcKV}).String() + flavourNote(o)
	case "XLFilter":
		return fmt.Sprintf("XLFilter v%d %s", o.R, predCoq(o.Pred, o.PKind))
	case "XLFilterK":
		return fmt.Sprintf("XLFilter<%s> v%d %s", kindCoq(o.Kind), o.R, predCoq(o.Pred, o.PKind))
	case "XLMap", "XLMapValues", "XLMapAsync", "XOMap", "XOMapValues", "XOMapAsync":
		return fmt.Sprintf("%s v%d %s", o.Name, o.R, o.Mapf)
	case "XLMapK", "XOMapK":
		return fmt.Sprintf("%s<%s> v%d %s", o.Name, kindCoq(o.Kind), o.R, o.Mapf)
	case "XLForEachK", "XLSliceK", "XLAll", "XOForEachK":
		return fmt.Sprintf("%s<%s> v%d", o.Name, kindCoq(o.Kind), o.R)
	case "XLAgg":
		return fmt.Sprintf("XLAgg %s v%d", o.Agg, o.R)
	case "XFormat":
		return fmt.Sprintf("XFormat v%d indent=%d", o.R, o.I)
	}
	return fmt.Sprintf("%s v%d", o.Name, o.R)
}
func flavourNote(o *Op) string {
	if o.Typed {
		return " (typed flavour when homogeneous)"
	}
	return ""
}

func ovs(xs []any) string {
	items := make([]string, len(xs))
	for i, x := range xs {
		items[i] = hvalAnyCoq(x)
	}
	return coqList(items)
}

// sortV: object members by key, recursively (what vcanon does in the model)
func sortV(v *V) *V {
	switch v.K {
	case KList:
		r := &V{K: KList}
		for _, e := range v.L {
			r.L = append(r.L, sortV(e))
		}
		return r
	case KObj:
		r := &V{K: KObj}
		for _, kv := range v.O {
			r.O = append(r.O, KV{kv.K, sortV(kv.V)})
		}
		sort.SliceStable(r.O, func(i, j int) bool { return r.O[i].K < r.O[j].K })
		return r
	}
	return v
}

// a plain Go tree (no anytype value inside) as a value tree; ok=false if an anytype container or a foreign type is found
func fromNativeTree(x any) (*V, bool) {
	switch t := x.(type) {
	case nil:
		return vnil(), true
	case bool:
		return vbool(t), true
	case int:
		return vint(t), true
	case float64:
		return vfloat(t), true
	case string:
		return vstr(t), true
	case []any:
		r := &V{K: KList}
		for _, e := range t {
			v, ok := fromNativeTree(e)
			if !ok {
				return nil, false
			}
			r.L = append(r.L, v)
		}
		return r, true
	case map[string]any:
		r := &V{K: KObj}
		keys := make([]string, 0, len(t))
		for k := range t {
			keys = append(keys, k)
		}
		sort.Strings(keys)
		for _, k := range keys {
			v, ok := fromNativeTree(t[k])
			if !ok {
				return nil, false
			}
			r.O = append(r.O, KV{k, v})
		}
		return r, true
	}
	return nil, false
}

// ---------- results that were handed out stay what they were ----------
// A Go slice / map / string returned by Slice, Dict, the typed slices, Native*, String or FormatString belongs to the caller: later
// calls on any container must not change it (a reused scratch buffer, a memoised snapshot, a string built on pooled bytes would).
type heldResult struct {
	what string
	ref  any
	sig  string
}

func shallowSig(x any) string {
	var b strings.Builder
	elem := func(e any) {
		switch c := e.(type) {
		case at.List:
			fmt.Fprintf(&b, "L%p;", c)
		case at.Object:
			fmt.Fprintf(&b, "O%p;", c)
		case float64:
			fmt.Fprintf(&b, "f%x;", math.Float64bits(c))
		default:
			fmt.Fprintf(&b, "%T:%#v;", e, e)
		}
	}
	switch t := x.(type) {
	case string:
		return strings.Clone(t)
	case []any:
		for _, e := range t {
			elem(e)
		}
	case map[string]any:
		keys := make([]string, 0, len(t))
		for k := range t {
			keys = append(keys, k)
		}
		sort.Strings(keys)
		for _, k := range keys {
			fmt.Fprintf(&b, "%q=", k)
			elem(t[k])
		}
	case []at.Object:
		for _, e := range t {
			elem(e)
		}
	case []at.List:
		for _, e := range t {
			elem(e)
		}
	case []string:
		for _, e := range t {
			elem(e)
		}
	case []bool:
		for _, e := range t {
			elem(e)
		}
	case []int:
		for _, e := range t {
			elem(e)
		}
	case []float64:
		for _, e := range t {
			elem(e)
		}
	}
	return b.String()
}

func (m *Machine) hold(what string, ref any) {
	m.held = append(m.held, heldResult{what, ref, shallowSig(ref)})
	if len(m.held) > 8 {
		m.held = m.held[len(m.held)-8:]
	}
}

func (m *Machine) verifyHeld(after string) {
	for _, h := range m.held {
		if shallowSig(h.ref) != h.sig {
			m.fail("a value returned earlier by %s changed when %s ran later (the result does not own its storage)", h.what, after)
			m.held = nil
			return
		}
	}
}

// ---------- execution on the implementation ----------

// execX runs one extended op. It returns (xout term, result container or nil). Panics propagate to the caller's try().
func (m *Machine) execX(o *Op) (xout string, result any, hasResult bool) {
	sameElem := func(name string, got any, want any) {
		switch got.(type) {
		case at.List, at.Object:
			if got != want {
				m.fail("%s handed the callback a container that is not the stored one", name)
			}
		}
	}
	switch o.Name {
	case "XNewListFrom":
		src := (&NSrc{Kind: 1, Slice: o.Src}).toAny(m).([]any)
		var arg any = src
		if o.Typed {
			arg = typedSlice(src)
		}
		return "", at.NewListFrom(arg), true
	case "XNewObjectFrom":
		src := (&NSrc{Kind: 2, Map: o.SrcKV}).toAny(m).(map[string]any)
		var arg any = src
		if o.Typed {
			arg = typedMap(src)
		}
		return "", at.NewObjectFrom(arg), true
	case "XLFilter":
		l := m.list(o.R)
		first := true
		return "", l.Filter(func(x any) bool {
			if first {
				first = false
				if other := m.longestOtherList(l); other != nil {
					other.Filter(func(any) bool { return true })
					other.ForEachValue(func(any) {})
				}
			}
			return applyPred(o.Pred, o.PKind, x)
		}), true
	case "XLFilterK":
		l := m.list(o.R)
		p := func(x any) bool { return applyPred(o.Pred, o.PKind, x) }
		switch o.Kind {
		case at.TypeObject:
			return "", l.FilterObjects(func(x at.Object) bool { return p(x) }), true
		case at.TypeList:
			return "", l.FilterLists(func(x at.List) bool { return p(x) }), true
		case at.TypeString:
			return "", l.FilterStrings(func(x string) bool { return p(x) }), true
		case at.TypeInt:
			return "", l.FilterInts(func(x int) bool { return p(x) }), true
		case at.TypeFloat:
			return "", l.FilterFloats(func(x float64) bool { return p(x) }), true
		}
		panic("XLFilterK: no such variant")
	case "XLMap":
		l := m.list(o.R)
		return "", l.Map(func(i int, x any) any {
			if i == 0 {
				if other := m.longestOtherList(l); other != nil {
					other.Map(func(_ int, y any) any { return y })
					other.ForEach(func(int, any) {})
				}
			}
			return applyMapf(o.Mapf, i, x)
		}), true
	case "XLMapAsync":
		return "", m.list(o.R).MapAsync(func(i int, x any) any { return applyMapf(o.Mapf, i, x) }), true
	case "XLMapValues":
		return "", m.list(o.R).MapValues(func(x any) any { return applyMapf(o.Mapf, kindCodeOf(x), x) }), true
	case "XLMapK":
		l := m.list(o.R)
		f := func(x any) any { return applyMapf(o.Mapf, kindCodeOf(x), x) }
		switch o.Kind {
		case at.TypeObject:
			return "", l.MapObjects(func(x at.Object) any { return f(x) }), true
		case at.TypeList:
			return "", l.MapLists(func(x at.List) any { return f(x) }), true
		case at.TypeString:
			return "", l.MapStrings(func(x string) any { return f(x) }), true
		case at.TypeBool:
			return "", l.MapBools(func(x bool) any { return f(x) }), true
		case at.TypeInt:
			return "", l.MapInts(func(x int) any { return f(x) }), true
		case at.TypeFloat:
			return "", l.MapFloats(func(x float64) any { return f(x) }), true
		}
		panic("XLMapK: no such variant")
	case "XLForEach", "XLForEachAsync":
		l := m.list(o.R)
		type iv struct {
			i int
			x any
		}
		var log []iv
		var mu sync.Mutex
		var ret at.List
		if o.Name == "XLForEach" {
			ret = l.ForEach(func(i int, x any) {
				touch(x)
				if i == 0 {
					l.ForEach(func(int, any) {}) // the receiver iterated again from inside its own iteration
					if other := m.longestOtherList(l); other != nil {
						other.ForEach(func(int, any) {}) // and another live list (a matrix walked row by row does this)
						other.ForEachValue(func(any) {})
						other.Map(func(_ int, x any) any { return x })
						other.Filter(func(any) bool { return true })
					}
				}
				log = append(log, iv{i, x})
			})
		} else {
			ret = l.ForEachAsync(func(i int, x any) { mu.Lock(); log = append(log, iv{i, x}); mu.Unlock() })
			sort.SliceStable(log, func(a, b int) bool { return log[a].i < log[b].i })
		}
		if ret != l {
			m.fail("%s did not return its receiver", o.Name)
		}
		items := make([]string, len(log))
		for k, e := range log {
			items[k] = "(" + coqZ(int64(e.i)) + "," + hvalAnyCoq(e.x) + ")"
			if e.i >= 0 && e.i < l.Count() {
				sameElem(o.Name, e.x, l.Get(e.i))
			}
		}
		return "(XIdx " + coqList(items) + ")", nil, false
	case "XLForEachValue":
		l := m.list(o.R)
		var log []any
		first := true
		if l.ForEachValue(func(x any) {
			touch(x)
			if first {
				first = false
				if other := m.longestOtherList(l); other != nil {
					other.ForEachValue(func(any) {})
					other.ForEach(func(int, any) {})
				}
			}
			log = append(log, x)
		}) != l {
			m.fail("ForEachValue did not return its receiver")
		}
		return "(XO (OVs " + ovs(log) + "))", nil, false
	case "XLReduce":
		l := m.list(o.R)
		res := l.Reduce([]any{}, func(acc any, x any) any { touch(x); return append(acc.([]any), x) })
		return "(XO (OVs " + ovs(res.([]any)) + "))", nil, false
	case "XLForEachK":
		l := m.list(o.R)
		var log []any
		var ret at.List
		switch o.Kind {
		case at.TypeObject:
			ret = l.ForEachObject(func(x at.Object) { touch(x); log = append(log, x) })
		case at.TypeList:
			ret = l.ForEachList(func(x at.List) { touch(x); log = append(log, x) })
		case at.TypeString:
			ret = l.ForEachString(func(x string) { log = append(log, x) })
		case at.TypeBool:
			ret = l.ForEachBool(func(x bool) { log = append(log, x) })
		case at.TypeInt:
			ret = l.ForEachInt(func(x int) { log = append(log, x) })
		case at.TypeFloat:
			ret = l.ForEachFloat(func(x float64) { log = append(log, x) })
		}
		if ret != l {
			m.fail("ForEach<%s> did not return its receiver", kindCoq(o.Kind))
		}
		m.checkKindLog(o, l, log)
		return "(XO (OVs " + ovs(log) + "))", nil, false
	case "XLSliceK":
		l := m.list(o.R)
		var log []any
		switch o.Kind {
		case at.TypeObject:
			sl := l.ObjectSlice()
			m.hold("ObjectSlice", sl)
			for _, x := range sl {
				log = append(log, x)
			}
		case at.TypeList:
			sl := l.ListSlice()
			m.hold("ListSlice", sl)
			for _, x := range sl {
				log = append(log, x)
			}
		case at.TypeString:
			sl := l.StringSlice()
			m.hold("StringSlice", sl)
			for _, x := range sl {
				log = append(log, x)
			}
		case at.TypeBool:
			sl := l.BoolSlice()
			m.hold("BoolSlice", sl)
			for _, x := range sl {
				log = append(log, x)
			}
		case at.TypeInt:
			sl := l.IntSlice()
			m.hold("IntSlice", sl)
			for _, x := range sl {
				log = append(log, x)
			}
		case at.TypeFloat:
			sl := l.FloatSlice()
			m.hold("FloatSlice", sl)
			for _, x := range sl {
				log = append(log, x)
			}
		}
		m.checkKindLog(o, l, log)
		return "(XO (OVs " + ovs(log) + "))", nil, false
	case "XLReduceStr":
		s := m.list(o.R).ReduceStrings(">", func(a, s string) string { return a + "|" + s })
		return "(XO (OV (HStr " + coqBytes(s) + ")))", nil, false
	case "XLReduceInt":
		z := m.list(o.R).ReduceInts(7, func(a, z int) int { return a*31 + z })
		return "(XO (OZ " + coqZ(int64(z)) + "))", nil, false
	case "XLReduceFloat":
		f := m.list(o.R).ReduceFloats(-math.MaxFloat64, func(a, v float64) float64 {
			if a < v {
				return v
			}
			return a
		})
		return "(XO (OV (HFloat " + coqU(fbits(f)) + ")))", nil, false
	case "XLAll":
		l := m.list(o.R)
		var b bool
		switch o.Kind {
		case at.TypeObject:
			b = l.AllObjects()
		case at.TypeList:
			b = l.AllLists()
		case at.TypeString:
			b = l.AllStrings()
		case at.TypeBool:
			b = l.AllBools()
		case at.TypeInt:
			b = l.AllInts()
		case at.TypeFloat:
			b = l.AllFloats()
		}
		return "(XO (OB " + coqBool(b) + "))", nil, false
	case "XLAllNumeric":
		return "(XO (OB " + coqBool(m.list(o.R).AllNumeric()) + "))", nil, false
	case "XLAgg":
		l := m.list(o.R)
		f := func(x float64) string { return "(XO (OV (HFloat " + coqU(fbits(x)) + ")))" }
		i := func(x int) string { return "(XO (OZ " + coqZ(int64(x)) + "))" }
		switch o.Agg {
		case "ASum":
			return f(l.Sum()), nil, false
		case "AProd":
			return f(l.Prod()), nil, false
		case "AAvg":
			return f(l.Avg()), nil, false
		case "AMin":
			return f(l.Min()), nil, false
		case "AMax":
			return f(l.Max()), nil, false
		case "AIntSum":
			return i(l.IntSum()), nil, false
		case "AIntProd":
			return i(l.IntProd()), nil, false
		case "AIntMin":
			return i(l.IntMin()), nil, false
		case "AIntMax":
			return i(l.IntMax()), nil, false
		}
		panic("XLAgg: unknown aggregate")
	case "XOForEach", "XOForEachAsync":
		ob := m.object(o.R)
		type kv struct {
			k string
			x any
		}
		var log []kv
		var mu sync.Mutex
		var ret at.Object
		if o.Name == "XOForEach" {
			ret = ob.ForEach(func(k string, x any) { touch(x); log = append(log, kv{k, x}) })
		} else {
			ret = ob.ForEachAsync(func(k string, x any) { mu.Lock(); log = append(log, kv{k, x}); mu.Unlock() })
		}
		if ret != ob {
			m.fail("%s did not return its receiver", o.Name)
		}
		sort.SliceStable(log, func(a, b int) bool { return log[a].k < log[b].k })
		items := make([]string, len(log))
		for i, e := range log {
			items[i] = "(" + coqBytes(e.k) + "," + hvalAnyCoq(e.x) + ")"
			if ob.KeyExists(e.k) {
				sameElem(o.Name, e.x, ob.Get(e.k))
			}
		}
		return "(XO (OKVs " + coqList(items) + "))", nil, false
	case "XOForEachValue":
		ob := m.object(o.R)
		var log []any
		if ob.ForEachValue(func(x any) { log = append(log, x) }) != ob {
			m.fail("Object.ForEachValue did not return its receiver")
		}
		return "(XBag " + ovs(log) + ")", nil, false
	case "XOForEachK":
		ob := m.object(o.R)
		var log []any
		var ret at.Object
		switch o.Kind {
		case at.TypeObject:
			ret = ob.ForEachObject(func(x at.Object) { log = append(log, x) })
		case at.TypeList:
			ret = ob.ForEachList(func(x at.List) { log = append(log, x) })
		case at.TypeString:
			ret = ob.ForEachString(func(x string) { log = append(log, x) })
		case at.TypeBool:
			ret = ob.ForEachBool(func(x bool) { log = append(log, x) })
		case at.TypeInt:
			ret = ob.ForEachInt(func(x int) { log = append(log, x) })
		case at.TypeFloat:
			ret = ob.ForEachFloat(func(x float64) { log = append(log, x) })
		}
		if ret != ob {
			m.fail("Object.ForEach<%s> did not return its receiver", kindCoq(o.Kind))
		}
		return "(XBag " + ovs(log) + ")", nil, false
	case "XOMap":
		return "", m.object(o.R).Map(func(k string, x any) any { return applyMapf(o.Mapf, k, x) }), true
	case "XOMapAsync":
		return "", m.object(o.R).MapAsync(func(k string, x any) any { return applyMapf(o.Mapf, k, x) }), true
	case "XOMapValues":
		return "", m.object(o.R).MapValues(func(x any) any { return applyMapf(o.Mapf, kindCodeOf(x), x) }), true
	case "XOMapK":
		ob := m.object(o.R)
		f := func(x any) any { return applyMapf(o.Mapf, kindCodeOf(x), x) }
		switch o.Kind {
		case at.TypeObject:
			return "", ob.MapObjects(func(x at.Object) any { return f(x) }), true
		case at.TypeList:
			return "", ob.MapLists(func(x at.List) any { return f(x) }), true
		case at.TypeString:
			return "", ob.MapStrings(func(x string) any { return f(x) }), true
		case at.TypeBool:
			return "", ob.MapBools(func(x bool) any { return f(x) }), true
		case at.TypeInt:
			return "", ob.MapInts(func(x int) any { return f(x) }), true
		case at.TypeFloat:
			return "", ob.MapFloats(func(x float64) any { return f(x) }), true
		}
		panic("XOMapK: no such variant")
	case "XString", "XFormat":
		var s string
		switch c := m.vars[o.R].(type) {
		case at.List:
			if o.Name == "XString" {
				s = c.String()
			} else {
				s = c.FormatString(int(o.I))
			}
		case at.Object:
			if o.Name == "XString" {
				s = c.String()
			} else {
				s = c.FormatString(int(o.I))
			}
		}
		m.hold(o.Name[1:]+"String", s)
		if o.Name == "XFormat" && o.I >= 0 && o.I <= 10 {
			// the canonical layout of the tokens String() writes, computed by encoding/json
			var plain string
			switch c := m.vars[o.R].(type) {
			case at.List:
				plain = c.String()
			case at.Object:
				plain = c.String()
			}
			var buf bytes.Buffer
			if err := json.Indent(&buf, []byte(plain), "", strings.Repeat(" ", int(o.I))); err == nil {
				if _, isObj := m.vars[o.R].(at.Object); !isObj && buf.String() != s { // (member order of objects varies from call to call)
					if !strings.Contains(plain, "{") || strings.Count(plain, "\":") <= 1 {
						m.fail("FormatString(%d) is not the canonical layout of String(): %q, want %q", o.I, s, buf.String())
					}
				}
			}
		}
		if o.Name == "XFormat" && o.I >= 0 && o.I <= 10 && json.Valid([]byte(s)) {
			// whatever the member order: the text is its own canonical layout (compacted and indented again it is itself)
			var c, ind bytes.Buffer
			if json.Compact(&c, []byte(s)) == nil && json.Indent(&ind, c.Bytes(), "", strings.Repeat(" ", int(o.I))) == nil && ind.String() != s {
				m.fail("FormatString(%d) is not canonically laid out: %q, its canonical layout is %q", o.I, s, ind.String())
			}
		}
		v, ok := refDecode(s)
		if !ok {
			m.fail("%s returned a text that encoding/json does not decode: %q", o.Name, s)
			return "(XTree VNil)", nil, false
		}
		return "(XTree " + sortV(v).coq() + ")", nil, false
	case "XNative":
		var x any
		switch c := m.vars[o.R].(type) {
		case at.List:
			mutateNative(c.NativeSlice()) // an export belongs to the caller: the first one is scribbled over, the second one counts
			x = c.NativeSlice()
		case at.Object:
			mutateNative(c.NativeDict())
			x = c.NativeDict()
		}
		m.hold("NativeSlice/NativeDict", x)
		v, ok := fromNativeTree(x)
		if !ok {
			m.fail("NativeSlice/NativeDict returned something that is not plain Go data ([]any / map[string]any / scalars)")
			return "(XTree VNil)", nil, false
		}
		return "(XTree " + sortV(v).coq() + ")", nil, false
	}
	panic("execX: unknown op " + o.Name)
}

// the typed callbacks / typed slices must hand out the stored containers themselves, in index order
func (m *Machine) checkKindLog(o *Op, l at.List, log []any) {
	if o.Kind != at.TypeObject && o.Kind != at.TypeList {
		return
	}
	j := 0
	for i := 0; i < l.Count() && j < len(log); i++ {
		if l.TypeOf(i) == o.Kind {
			if log[j] != l.Get(i) {
				m.fail("%s: element %d of the result is not the container stored at index %d", o.Name, j, i)
				return
			}
			j++
		}
	}
}

// tryLib runs f; a panic raised inside the library (a frame of the anytype package is on the panicking stack) is reported as
// true; any other panic is a bug of the harness itself and is re-raised, so that it can never be mistaken for a finding
func tryLib(f func()) (libPanicked bool) {
	defer func() {
		if r := recover(); r != nil {
			if strings.Contains(string(debug.Stack()), "DanielSvub/anytype.") {
				libPanicked = true
				return
			}
			panic(r)
		}
	}()
	f()
	return false
}

// ---------- generation ----------

var mapfs = []string{"MId", "MPair", "MDict", "MNil"}
var aggs = []string{"ASum", "AProd", "AAvg", "AMin", "AMax", "AIntSum", "AIntProd", "AIntMin", "AIntMax"}

func (p *Prog) randPred() (string, at.Type) {
	switch p.r.Intn(6) {
	case 0:
		return "PAll", 0
	case 1:
		return "PNone", 0
	case 2, 3:
		return "PKindIs", at.Type(1 + p.r.Intn(7))
	}
	return "PTruthy", 0
}

func (p *Prog) nsrc(depth int) *NSrc {
	if depth <= 0 || p.r.chance(0.55) {
		o := p.value(-1)
		return &NSrc{Kind: 0, Leaf: &o}
	}
	if p.r.chance(0.55) {
		n := p.r.Intn(4)
		s := &NSrc{Kind: 1}
		for i := 0; i < n; i++ {
			s.Slice = append(s.Slice, p.nsrc(depth-1))
		}
		return s
	}
	return &NSrc{Kind: 2, Map: p.nkvs(depth - 1)}
}
func (p *Prog) nkvs(depth int) []NKV {
	n := p.r.Intn(4)
	var kvs []NKV
	seen := map[string]bool{}
	for i := 0; i < n; i++ {
		k := pickOf(p.r, heapKeys)
		if seen[k] {
			continue
		}
		seen[k] = true
		kvs = append(kvs, NKV{k, p.nsrc(depth)})
	}
	return kvs
}

// homogeneous scalar leaves: the typed flavours ([]int, []string, map[string]float64 ...) reach NewListFrom / NewObjectFrom
func (p *Prog) homogLeaves(n int) []*NSrc {
	// live containers of one kind, with nil entries: the []List / []Object / map[string]List / map[string]Object flavours
	if p.r.chance(0.3) {
		regs := p.listRegs()
		if p.r.chance(0.5) {
			regs = p.objRegs()
		}
		if len(regs) > 0 {
			var r []*NSrc
			for i := 0; i < n; i++ {
				o := Operand{IsReg: true, Reg: pickOf(p.r, regs)}
				if p.r.chance(0.3) {
					o = Operand{V: vnil()}
				}
				r = append(r, &NSrc{Kind: 0, Leaf: &o})
			}
			return r
		}
	}
	pool := [][]*V{
		{vint(0), vint(1), vint(-7), vint(math.MaxInt64), vint(math.MinInt64)},
		{vstr(""), vstr("a"), vstr("xyz"), vstr("é")},
		{vbool(true), vbool(false)},
		{vfloat(1.5), vfloat(0), vfloat(math.Copysign(0, -1)), vfloat(1), vfloat(-2.25e10)},
	}[p.r.Intn(4)]
	var r []*NSrc
	for i := 0; i < n; i++ {
		o := Operand{V: pickOf(p.r, pool)}
		r = append(r, &NSrc{Kind: 0, Leaf: &o})
	}
	return r
}

func (p *Prog) xNewFrom(list bool) {
	typed := p.r.chance(0.4)
	if list {
		var src []*NSrc
		if typed {
			src = p.homogLeaves(p.r.Intn(5))
		} else {
			n := p.r.Intn(5)
			for i := 0; i < n; i++ {
				src = append(src, p.nsrc(2))
			}
		}
		p.do(&Op{Name: "XNewListFrom", Src: src, Typed: typed})
		return
	}
	var kvs []NKV
	if typed {
		leaves := p.homogLeaves(p.r.Intn(4))
		seen := map[string]bool{}
		for _, l := range leaves {
			k := pickOf(p.r, heapKeys)
			if seen[k] {
				continue
			}
			seen[k] = true
			kvs = append(kvs, NKV{k, l})
		}
	} else {
		kvs = p.nkvs(2)
	}
	p.do(&Op{Name: "XNewObjectFrom", SrcKV: kvs, Typed: typed})
}

// one view/deriver/observer of the extended API on list register r; `class` narrows the choice to a property's operations
func (p *Prog) xListOp(r int, class string) {
	if n := p.m.list(r).Count(); n > 0 && p.r.chance(0.06) && (class == "foreach" || class == "map" || class == "filter" || class == "reduce") {
		// the callback panics at one of its calls and the caller recovers: the receiver is as it was, and stays usable
		p.do(&Op{Name: "LCallbackPanics", R: r, I: int64(p.r.Intn(n)), S: int64(p.r.Intn(6))})
		return
	}
	k := pickOf(p.r, xKinds)
	if n := p.m.list(r).Count(); n > 0 && p.r.chance(0.7) {
		if t := p.m.list(r).TypeOf(p.r.Intn(n)); t >= at.TypeObject {
			k = t // mostly a kind the list really holds
		}
	}
	pr, pk := p.randPred()
	switch class {
	case "filter":
		if p.r.chance(0.5) {
			p.do(&Op{Name: "XLFilter", R: r, Pred: pr, PKind: pk})
		} else {
			fk := pickOf(p.r, []at.Type{at.TypeObject, at.TypeList, at.TypeString, at.TypeInt, at.TypeFloat})
			p.do(&Op{Name: "XLFilterK", R: r, Kind: fk, Pred: pr, PKind: pk})
		}
	case "map":
		f := pickOf(p.r, mapfs)
		switch p.r.Intn(4) {
		case 0:
			p.do(&Op{Name: "XLMap", R: r, Mapf: f})
		case 1:
			p.do(&Op{Name: "XLMapValues", R: r, Mapf: f})
		default:
			p.do(&Op{Name: "XLMapK", R: r, Kind: k, Mapf: f})
		}
	case "foreach":
		switch p.r.Intn(4) {
		case 0:
			p.do(&Op{Name: "XLForEach", R: r})
		case 1:
			p.do(&Op{Name: "XLForEachValue", R: r})
		default:
			p.do(&Op{Name: "XLForEachK", R: r, Kind: k})
		}
	case "reduce":
		p.do(&Op{Name: pickOf(p.r, []string{"XLReduce", "XLReduceStr", "XLReduceInt", "XLReduceFloat"}), R: r})
	case "slice":
		p.do(&Op{Name: "XLSliceK", R: r, Kind: k})
	case "all":
		if p.r.chance(0.2) {
			p.do(&Op{Name: "XLAllNumeric", R: r})
		} else {
			p.do(&Op{Name: "XLAll", R: r, Kind: k})
		}
	case "agg":
		p.do(&Op{Name: "XLAgg", R: r, Agg: pickOf(p.r, aggs)})
	case "async":
		if p.r.chance(0.5) {
			p.do(&Op{Name: "XLForEachAsync", R: r})
		} else {
			p.do(&Op{Name: "XLMapAsync", R: r, Mapf: pickOf(p.r, mapfs)})
		}
	}
}

func (p *Prog) xObjOp(r int, class string) {
	k := pickOf(p.r, xKinds)
	// mostly a kind the object really holds (a typed variant on a kind that is absent does nothing)
	if p.r.chance(0.7) {
		var present []at.Type
		seen := map[at.Type]bool{}
		for _, x := range p.m.object(r).Dict() {
			if t := at.Type(kindCodeOf(x)); t >= at.TypeObject && !seen[t] {
				seen[t] = true
				present = append(present, t)
			}
		}
		sort.Slice(present, func(i, j int) bool { return present[i] < present[j] })
		if len(present) > 0 {
			k = pickOf(p.r, present)
		}
	}
	switch class {
	case "map":
		f := pickOf(p.r, mapfs)
		switch p.r.Intn(4) {
		case 0:
			p.do(&Op{Name: "XOMap", R: r, Mapf: f})
		case 1:
			p.do(&Op{Name: "XOMapValues", R: r, Mapf: f})
		default:
			p.do(&Op{Name: "XOMapK", R: r, Kind: k, Mapf: f})
		}
	case "foreach":
		switch p.r.Intn(4) {
		case 0:
			p.do(&Op{Name: "XOForEach", R: r})
		case 1:
			p.do(&Op{Name: "XOForEachValue", R: r})
		default:
			p.do(&Op{Name: "XOForEachK", R: r, Kind: k})
		}
	case "async":
		if p.r.chance(0.5) {
			p.do(&Op{Name: "XOForEachAsync", R: r})
		} else {
			p.do(&Op{Name: "XOMapAsync", R: r, Mapf: pickOf(p.r, mapfs)})
		}
	}
}

// are all floats reachable from x finite? (String/FormatString of NaN/Inf is outside every property's domain)
func allFiniteAny(x any) bool {
	v := fromAny(x)
	return v.allFinite() && v.allStringsValid()
}

// an insertion of a value of an unsupported Go type into a random live container (or a constructor call with one): it panics, and
// nothing may have changed
func (p *Prog) rejectedInsertion() {
	bad := pickOf(p.r, badValues)
	ls, os := p.listRegs(), p.objRegs()
	switch {
	case len(ls) > 0 && (len(os) == 0 || p.r.chance(0.6)):
		r := pickOf(p.r, ls)
		n := p.m.list(r).Count()
		switch p.r.Intn(3) {
		case 0:
			p.do(&Op{Name: "LAddBad", R: r, Bad: bad})
		case 1:
			p.do(&Op{Name: "LInsertBad", R: r, I: int64(p.r.Intn(n + 1)), Bad: bad})
		default:
			if n > 0 {
				p.do(&Op{Name: "LReplaceBad", R: r, I: int64(p.r.Intn(n)), Bad: bad})
			} else {
				p.do(&Op{Name: "LAddBad", R: r, Bad: bad})
			}
		}
	case len(os) > 0:
		r := pickOf(p.r, os)
		p.do(&Op{Name: "OSetBad", R: r, K: p.key(p.m.object(r)), Bad: bad})
	default:
		p.do(&Op{Name: pickOf(p.r, []string{"NewListBad", "NewObjectBad"}), Bad: bad})
	}
}

// A mutator called with a NATIVE Go slice as the value ([]any / []int / []string of scalars): parseVal turns it into a NEW list. In the
// model that is two steps - NewList of the scalars, then the mutator with the new list as operand -, and both are traced: the state
// after the first step is observed on the implementation side with a stand-in list of the same content (container identities are
// structural in the canonical form), the state after the second with the list that was really stored.
func (p *Prog) doNative(kind string, r int, i int64, key string) {
	m := p.m
	if p.broken || m.hung {
		return
	}
	k := 1 + p.r.Intn(3)
	lits := make([]*V, k)
	vals := make([]any, k)
	ops := make([]Operand, k)
	homog := p.r.chance(0.5)
	first := pickOf(p.r, []*V{vint(1), vstr("s"), vfloat(2.5), vbool(true)})
	for j := range lits {
		if homog {
			lits[j] = first
		} else {
			lits[j] = pickOf(p.r, finiteScalars)
		}
		vals[j] = lits[j].toAny()
		ops[j] = Operand{V: lits[j]}
	}
	var arg any = vals
	if homog {
		arg = typedSlice(vals)
	}
	h1 := canonEnv(append(append([]any{}, m.vars...), at.NewList(vals...)), nil)
	var stored any
	panicked := try(func() {
		switch kind {
		case "LReplace":
			l := m.list(r)
			l.Replace(int(i), arg)
			stored = l.Get(int(i))
		case "LInsert":
			l := m.list(r)
			l.Insert(int(i), arg)
			stored = l.Get(int(i))
		case "LAdd":
			l := m.list(r)
			l.Add(arg)
			stored = l.Get(l.Count() - 1)
		case "OSet":
			o := m.object(r)
			o.Set(key, arg)
			stored = o.Get(key)
		}
	})
	if panicked {
		m.fail("%s with a native slice as the value panicked", kind)
		p.broken = true
		return
	}
	if _, ok := stored.(at.List); !ok {
		m.fail("%s with a native slice as the value did not store a list (got %T)", kind, stored)
		p.broken = true
		return
	}
	m.vars = append(m.vars, stored)
	nr := len(m.vars) - 1
	var txt strings.Builder
	h2 := canonEnv(m.vars, &txt)
	o1 := &Op{Name: "NewList", Vals: ops}
	var o2 *Op
	switch kind {
	case "LReplace", "LInsert":
		o2 = &Op{Name: kind, R: r, I: i, Vals: []Operand{{IsReg: true, Reg: nr}}}
	case "LAdd":
		o2 = &Op{Name: "LAdd", R: r, Vals: []Operand{{IsReg: true, Reg: nr}}}
	default:
		o2 = &Op{Name: "OSet", R: r, Vals: []Operand{{V: vstr(key)}, {IsReg: true, Reg: nr}}}
	}
	p.ops = append(p.ops, o1, o2)
	p.trace = append(p.trace, fmt.Sprintf("((XRet (XO (OV (HL 0)))), %d)", h1), fmt.Sprintf("((XRet (XO ONone)), %d)", h2))
	p.lines = append(p.lines, fmt.Sprintf("(native slice %v becomes a new list v%d)", vals, nr), fmt.Sprintf("%s with that native slice as the value | %s", o2.String(), txt.String()))
	p.tags[kind+"Native"] = true
	m.verifyHeld(kind + " with a native slice")
}

func (p *Prog) nativeMutation() {
	ls, os := p.listRegs(), p.objRegs()
	if len(ls) > 0 && (len(os) == 0 || p.r.chance(0.7)) {
		r := pickOf(p.r, ls)
		n := p.m.list(r).Count()
		switch {
		case n > 0 && p.r.chance(0.6):
			p.doNative("LReplace", r, int64(p.r.Intn(n)), "")
		case p.r.chance(0.5):
			p.doNative("LInsert", r, int64(p.r.Intn(n+1)), "")
		default:
			p.doNative("LAdd", r, 0, "")
		}
	} else if len(os) > 0 {
		r := pickOf(p.r, os)
		p.doNative("OSet", r, 0, p.key(p.m.object(r)))
	}
}

// a valid-domain mutation of a random live container (the boundary behaviour of the mutators belongs to C05/C06)
func (p *Prog) xMutate() {
	if p.r.chance(0.05) {
		p.rejectedInsertion()
		return
	}
	if p.r.chance(0.05) {
		p.nativeMutation()
		return
	}
	ls, os := p.listRegs(), p.objRegs()
	if len(ls) > 0 && (len(os) == 0 || p.r.chance(0.6)) {
		r := pickOf(p.r, ls)
		n := p.m.list(r).Count()
		switch p.r.Intn(9) {
		case 0, 1, 2:
			k := 1 + p.r.Intn(3)
			var vs []Operand
			for i := 0; i < k; i++ {
				if i > 0 && p.r.chance(0.3) {
					vs = append(vs, vs[p.r.Intn(len(vs))]) // the same value (the same container) stored twice
				} else {
					vs = append(vs, p.value(r))
				}
			}
			p.do(&Op{Name: "LAdd", R: r, Vals: vs})
		case 3:
			p.do(&Op{Name: "LInsert", R: r, I: int64(p.r.Intn(n + 1)), Vals: []Operand{p.value(r)}})
		case 4, 5:
			if n > 0 {
				p.do(&Op{Name: "LReplace", R: r, I: int64(p.r.Intn(n)), Vals: []Operand{p.value(r)}})
			} else {
				p.do(&Op{Name: "LAdd", R: r, Vals: []Operand{p.value(r)}})
			}
		case 6:
			if n > 0 {
				p.do(&Op{Name: "LDelete", R: r, Idxs: []int64{int64(p.r.Intn(n))}})
			}
		case 7:
			if n > 0 {
				p.do(&Op{Name: "LPop", R: r})
			}
		case 8:
			if p.r.chance(0.3) {
				p.do(&Op{Name: "LClear", R: r})
			} else {
				p.do(&Op{Name: "LReverse", R: r})
			}
		}
		return
	}
	if len(os) > 0 {
		r := pickOf(p.r, os)
		ob := p.m.object(r)
		switch p.r.Intn(6) {
		case 0, 1, 2, 3:
			p.do(&Op{Name: "OSet", R: r, Vals: []Operand{{V: vstr(p.key(ob))}, p.value(r)}})
		case 4:
			p.do(&Op{Name: "OUnset", R: r, Keys: []string{p.key(ob)}})
		case 5:
			if p.r.chance(0.3) {
				p.do(&Op{Name: "OClear", R: r})
			} else {
				p.do(&Op{Name: "OSet", R: r, Vals: []Operand{{V: vstr(p.key(ob))}, p.value(r)}})
			}
		}
	}
}

var finiteScalars = []*V{vnil(), vbool(true), vbool(false), vint(0), vint(1), vint(-7), vint(42), vfloat(1.5), vfloat(0), vfloat(math.Copysign(0, -1)),
	vfloat(1), vstr(""), vstr("a"), vstr("b"), vstr("xyz"), vint(math.MaxInt64), vfloat(1e21), vfloat(-2.5e-7), vstr("q\"\\\né\U0001F600"), vstr("a,b"), vstr(", [x]: {y}"), vstr("\\/")}
var numericScalars = []*V{vint(0), vint(1), vint(-7), vint(42), vint(math.MaxInt64), vint(math.MinInt64), vint(3), vfloat(1.5), vfloat(0),
	vfloat(math.Copysign(0, -1)), vfloat(-2.25), vfloat(1e300), vfloat(-1e19), vfloat(5e-324), vint(-1), vfloat(2)}

// xProgram: a heap-level program in which the operations of one property (its `classes`) are interleaved with valid-domain
// mutations of the same containers, through all aliases; every step is compared with the model (outcome + canonical heap hash)
func xProgram(r *R, prof string) *Prog {
	p := &Prog{m: &Machine{pred: true}, r: r, prof: prof, tags: map[string]bool{}}
	// the public API may panic while the generator itself reads the containers (Keys, Count, Get ...) on a broken tree:
	// that is a failure of the program generated so far, not of the harness
	if tryLib(func() { xProgramBody(p, r, prof) }) {
		p.m.fail("the public API panicked while the containers of this program were being read back (Keys/Count/Get/Dict)")
	}
	p.nontrv = true
	return p
}

// sortProgram (C17x): homogeneous string / int / float lists (NaN-free, non-empty) on which Sort and Reverse are interleaved with
// mutations that keep them homogeneous - a Sort after an Insert in the middle, a Reverse of a sorted list, a Sort of a list that was
// sorted before; aliases (the same list stored in a holder) see every result
func sortProgram(p *Prog, r *R, nops int) {
	pools := [][]*V{
		{vint(0), vint(1), vint(-7), vint(42), vint(3), vint(3), vint(math.MaxInt64), vint(math.MinInt64), vint(-1), vint(9), vint(2), vint(4), vint(5)},
		{vstr(""), vstr("a"), vstr("b"), vstr("ab"), vstr("B"), vstr("é"), vstr("zz"), vstr("a"), vstr("~"), vstr("10"), vstr("9")},
		// (only one of the two zeros: sort.Float64s may leave 0 and -0, which compare equal, in either order - the value-level
		// stream of C17 compares sorted floats up to that; the heap hash is bit-exact)
		{vfloat(0), vfloat(1.5), vfloat(-1.5), vfloat(math.Inf(1)), vfloat(math.Inf(-1)), vfloat(2), vfloat(1.5), vfloat(5e-324), vfloat(-2.25), vfloat(-5e-324)},
	}
	var lists []int
	var poolOf = map[int][]*V{}
	newL := func() {
		pool := pickOf(r, pools)
		k := 1 + r.Intn(9)
		var vs []Operand
		for i := 0; i < k; i++ {
			vs = append(vs, Operand{V: pickOf(r, pool)})
		}
		p.do(&Op{Name: "NewList", Vals: vs})
		lists = append(lists, len(p.m.vars)-1)
		poolOf[len(p.m.vars)-1] = pool
	}
	newL()
	newL()
	p.do(&Op{Name: "NewObject", Vals: []Operand{{V: vstr("alias")}, {IsReg: true, Reg: lists[0]}}})
	for len(p.ops) < nops && !p.broken {
		l := pickOf(r, lists)
		pool := poolOf[l]
		n := p.m.list(l).Count()
		switch r.Intn(12) {
		case 0, 1, 2, 3:
			p.do(&Op{Name: "LSort", R: l})
		case 4, 5:
			p.do(&Op{Name: "LReverse", R: l})
		case 6, 7:
			p.do(&Op{Name: "LInsert", R: l, I: int64(r.Intn(n + 1)), Vals: []Operand{{V: pickOf(r, pool)}}})
		case 8:
			p.do(&Op{Name: "LReplace", R: l, I: int64(r.Intn(n)), Vals: []Operand{{V: pickOf(r, pool)}}})
		case 9:
			p.do(&Op{Name: "LAdd", R: l, Vals: []Operand{{V: pickOf(r, pool)}, {V: pickOf(r, pool)}}})
		case 10:
			if n > 1 {
				if r.chance(0.5) {
					p.do(&Op{Name: "LDelete", R: l, Idxs: []int64{int64(r.Intn(n))}})
				} else {
					p.do(&Op{Name: "LPop", R: l})
				}
			}
		default:
			if len(lists) < 4 && r.chance(0.5) {
				newL()
			} else {
				p.do(&Op{Name: "LSlice", R: l})
			}
		}
	}
}

// equalsProgram (C07x): containers and twins of them (equal, not identical), Equals in both orders again and again, with
// shape-preserving edits in between (Replace / Set of an existing key keep lengths and key sets, so comparisons fail at an
// element, not at the count) and the same edit applied to both sides to regain equality
func equalsProgram(p *Prog, r *R, nops int) {
	for len(p.m.vars) == 0 {
		p.newContainer() // (NewListOf with a negative count panics and creates nothing)
	}
	if r.chance(0.25) {
		// one container instance in several consecutive slots of one side; the other side holds it in the first of them and an
		// unequal (or equal but distinct) container in a later one
		p.do(&Op{Name: "NewList", Vals: []Operand{p.scalar(), p.scalar()}})
		c1 := len(p.m.vars) - 1
		p.rebuild(p.m.vars[c1], 0)
		c2 := len(p.m.vars) - 1
		if r.chance(0.7) {
			p.do(&Op{Name: "LAdd", R: c2, Vals: []Operand{p.scalar()}})
		}
		k := int64(2 + r.Intn(3))
		p.do(&Op{Name: "NewListOf", Vals: []Operand{{IsReg: true, Reg: c1}}, I: k})
		a := len(p.m.vars) - 1
		var vs []Operand
		for i := int64(0); i < k; i++ {
			if i == k-1 || (i > 0 && r.chance(0.3)) {
				vs = append(vs, Operand{IsReg: true, Reg: c2})
			} else {
				vs = append(vs, Operand{IsReg: true, Reg: c1})
			}
		}
		p.do(&Op{Name: "NewList", Vals: vs})
		b := len(p.m.vars) - 1
		p.do(&Op{Name: "Equals", R: a, A: b})
		p.do(&Op{Name: "Equals", R: b, A: a})
		p.do(&Op{Name: "NewObject", Vals: []Operand{{V: vstr("x")}, {IsReg: true, Reg: c1}, {V: vstr("y")}, {IsReg: true, Reg: c1}}})
		oa := len(p.m.vars) - 1
		p.do(&Op{Name: "NewObject", Vals: []Operand{{V: vstr("x")}, {IsReg: true, Reg: c1}, {V: vstr("y")}, {IsReg: true, Reg: c2}}})
		p.do(&Op{Name: "Equals", R: oa, A: len(p.m.vars) - 1})
		p.do(&Op{Name: "Equals", R: len(p.m.vars) - 1, A: oa})
	}
	p.twin()
	for len(p.ops) < nops && !p.broken {
		ls, os := p.listRegs(), p.objRegs()
		switch r.Intn(10) {
		case 0:
			if len(p.m.vars) < 7 {
				if r.chance(0.7) {
					p.twin()
				} else {
					p.newContainer()
				}
			}
		case 1, 2, 3:
			// shape-preserving edit, sometimes on two containers alike
			if len(ls) > 0 && (len(os) == 0 || r.chance(0.6)) {
				a := pickOf(r, ls)
				n := p.m.list(a).Count()
				if n > 0 {
					i := int64(r.Intn(n))
					v := p.value(a)
					p.do(&Op{Name: "LReplace", R: a, I: i, Vals: []Operand{v}})
					if r.chance(0.4) {
						b := pickOf(r, ls)
						if int(i) < p.m.list(b).Count() && p.storable(v, b) {
							p.do(&Op{Name: "LReplace", R: b, I: i, Vals: []Operand{v}})
						}
					}
				}
			} else if len(os) > 0 {
				a := pickOf(r, os)
				if p.m.object(a).Count() > 0 {
					k := p.key(p.m.object(a))
					v := p.value(a)
					p.do(&Op{Name: "OSet", R: a, Vals: []Operand{{V: vstr(k)}, v}})
					if r.chance(0.4) {
						b := pickOf(r, os)
						if p.storable(v, b) {
							p.do(&Op{Name: "OSet", R: b, Vals: []Operand{{V: vstr(k)}, v}})
						}
					}
				}
			}
		case 4:
			p.xMutate()
		default:
			var pool []int
			if len(ls) >= 2 && (len(os) < 2 || r.chance(0.6)) {
				pool = ls
			} else if len(os) >= 2 {
				pool = os
			} else if len(ls) >= 1 {
				pool = ls
			} else {
				pool = os
			}
			if len(pool) > 0 {
				a, b := pickOf(r, pool), pickOf(r, pool)
				p.do(&Op{Name: "Equals", R: a, A: b})
				if r.chance(0.6) {
					p.do(&Op{Name: "Equals", R: b, A: a})
				}
			}
		}
	}
}

func xProgramBody(p *Prog, r *R, prof string) {
	nops := 10 + r.Intn(26)
	if boosted() {
		nops *= 3
	}
	switch prof {
	case "C09x":
		p.scalars = append(append([]*V{}, heapScalars...), vstr("caf\xe9"), vstr("\xff\xfe"), vstr("a\xc0\xafb"))
	case "C02x", "C16x", "C13x", "C01x":
		p.scalars = finiteScalars
	case "C18x":
		p.scalars = numericScalars
	}
	if prof == "C07x" {
		equalsProgram(p, r, nops)
		return
	}
	if prof == "C17x" {
		sortProgram(p, r, nops)
		return
	}
	p.newContainer()
	p.newContainer()
	if prof == "C14x" && r.chance(0.3) {
		// a list all of whose elements are objects (or all lists), some of them derived structures: the All* family, the typed
		// slices and the typed iteration treat a derived structure as what it is
		wantObj := r.chance(0.5)
		var vs []Operand
		for k, nk := 0, 2+r.Intn(3); k < nk; k++ {
			if wantObj {
				p.do(&Op{Name: "NewObject", Vals: []Operand{{V: vstr("i")}, {V: vint(k)}}, Derived: r.chance(0.5)})
			} else {
				p.do(&Op{Name: "NewList", Vals: []Operand{{V: vint(k)}}, Derived: r.chance(0.5)})
			}
			vs = append(vs, Operand{IsReg: true, Reg: len(p.m.vars) - 1})
		}
		p.do(&Op{Name: "NewList", Vals: vs})
		hl := len(p.m.vars) - 1
		kd := at.TypeList
		if wantObj {
			kd = at.TypeObject
		}
		p.do(&Op{Name: "XLAll", R: hl, Kind: kd})
		p.do(&Op{Name: "XLSliceK", R: hl, Kind: kd})
		p.do(&Op{Name: "XLForEachK", R: hl, Kind: kd})
		p.do(&Op{Name: "XLFilterK", R: hl, Kind: kd, Pred: "PAll"})
		p.do(&Op{Name: "XLMapK", R: hl, Kind: kd, Mapf: "MId"})
	}
	step := func() {
		ls, os := p.listRegs(), p.objRegs()
		anyReg := func() int { return r.Intn(len(p.m.vars)) }
		switch prof {
		case "C09x":
			switch r.Intn(10) {
			case 0, 1, 2:
				if len(ls) > 0 {
					p.xListOp(pickOf(r, ls), pickOf(r, []string{"filter", "filter", "map", "map", "slice", "reduce"}))
				}
			case 3, 4:
				if len(os) > 0 {
					p.xObjOp(pickOf(r, os), "map")
				}
			case 5:
				if len(os) > 0 {
					o := pickOf(r, os)
					p.do(&Op{Name: pickOf(r, []string{"OKeys", "OValues", "ODict"}), R: o})
				} else if len(ls) > 0 {
					p.do(&Op{Name: "LSlice", R: pickOf(r, ls)})
				}
			case 6:
				x := anyReg()
				if allFiniteAny(p.m.vars[x]) {
					if r.chance(0.5) {
						p.do(&Op{Name: "XString", R: x})
					} else {
						p.do(&Op{Name: "XFormat", R: x, I: int64(r.Intn(11))})
					}
				}
			case 7:
				if len(ls) > 0 {
					p.xListOp(pickOf(r, ls), "async")
				}
			}
		case "C14x":
			if len(ls) > 0 && r.chance(0.2) {
				// a value of a kind the list does not hold yet enters through one of the storing operations (mostly not the usual one),
				// and the views of exactly that kind are taken straight away
				l := pickOf(r, ls)
				n := p.m.list(l).Count()
				have := map[at.Type]bool{}
				for i := 0; i < n; i++ {
					have[p.m.list(l).TypeOf(i)] = true
				}
				k := pickOf(r, xKinds)
				for _, c := range r.Perm(len(xKinds)) {
					if !have[xKinds[c]] {
						k = xKinds[c]
						break
					}
				}
				var v Operand
				switch k {
				case at.TypeObject:
					p.do(&Op{Name: "NewObject", Vals: []Operand{{V: vstr("k")}, {V: vint(n)}}})
					v = Operand{IsReg: true, Reg: len(p.m.vars) - 1}
				case at.TypeList:
					p.do(&Op{Name: "NewList", Vals: []Operand{{V: vint(n)}}})
					v = Operand{IsReg: true, Reg: len(p.m.vars) - 1}
				case at.TypeString:
					v = Operand{V: vstr(pickOf(r, []string{"", "s", "new kind"}))}
				case at.TypeBool:
					v = Operand{V: vbool(r.chance(0.5))}
				case at.TypeInt:
					v = Operand{V: vint(r.Intn(100) - 50)}
				default:
					v = Operand{V: vfloat(pickOf(r, []float64{0.5, -2.25, 1e10, 0}))}
				}
				switch c := r.Intn(6); {
				case n > 0 && c <= 2:
					p.do(&Op{Name: "LInsert", R: l, I: int64(r.Intn(n)), Vals: []Operand{v}})
				case n > 0 && c == 3:
					p.do(&Op{Name: "LReplace", R: l, I: int64(r.Intn(n)), Vals: []Operand{v}})
				case c == 4:
					p.do(&Op{Name: "SetTF", R: l, TF: fmt.Sprintf("#%d", r.Intn(n+1)), Vals: []Operand{v}})
				default:
					p.do(&Op{Name: "LAdd", R: l, Vals: []Operand{v}})
				}
				p.do(&Op{Name: "XLSliceK", R: l, Kind: k})
				p.do(&Op{Name: "XLForEachK", R: l, Kind: k})
				if r.chance(0.5) {
					p.do(&Op{Name: "XLAll", R: l, Kind: k})
					p.do(&Op{Name: "XLFilterK", R: l, Kind: pickOf(r, []at.Type{at.TypeObject, at.TypeList, at.TypeString, at.TypeInt, at.TypeFloat}), Pred: "PAll"})
				}
			} else if len(ls) > 0 && (len(os) == 0 || r.chance(0.65)) {
				p.xListOp(pickOf(r, ls), pickOf(r, []string{"filter", "map", "foreach", "foreach", "reduce", "slice", "all"}))
			} else if len(os) > 0 {
				p.xObjOp(pickOf(r, os), pickOf(r, []string{"map", "foreach"}))
			}
		case "C18x":
			if len(ls) > 0 {
				l := pickOf(r, ls)
				// now and then the list is sorted or reversed in between (Sort keeps the elements of the first element's kind only:
				// the aggregates are about the list as it is afterwards)
				if n := p.m.list(l).Count(); n > 0 && r.chance(0.15) {
					t0 := p.m.list(l).TypeOf(0)
					zeros, nan := 0, false
					for i := 0; i < n; i++ {
						if f, ok := p.m.list(l).Get(i).(float64); ok {
							if f == 0 && math.Signbit(f) {
								zeros |= 1
							} else if f == 0 {
								zeros |= 2
							}
							nan = nan || math.IsNaN(f)
						}
					}
					// the extremes before and after (a result remembered across the rearrangement would show)
					p.do(&Op{Name: "XLAgg", R: l, Agg: "AMin"})
					p.do(&Op{Name: "XLAgg", R: l, Agg: "AMax"})
					p.do(&Op{Name: "XLAgg", R: l, Agg: pickOf(r, []string{"AIntMin", "AIntMax", "ASum", "AIntSum"})})
					if (t0 == at.TypeInt || t0 == at.TypeFloat) && zeros != 3 && !nan && r.chance(0.6) {
						p.do(&Op{Name: "LSort", R: l})
						if r.chance(0.5) {
							// sorted, asked, then reversed (or an element deleted / popped): what was true of the sorted list no longer is
							p.do(&Op{Name: "XLAgg", R: l, Agg: "AMin"})
							p.do(&Op{Name: "XLAgg", R: l, Agg: "AMax"})
							switch n2 := p.m.list(l).Count(); {
							case n2 > 1 && r.chance(0.3):
								p.do(&Op{Name: "LDelete", R: l, Idxs: []int64{int64(pickOf(r, []int{0, n2 - 1}))}})
							case n2 > 1 && r.chance(0.2):
								p.do(&Op{Name: "LPop", R: l})
							default:
								p.do(&Op{Name: "LReverse", R: l})
							}
						}
					} else {
						p.do(&Op{Name: "LReverse", R: l})
					}
					p.do(&Op{Name: "XLAgg", R: l, Agg: "AMin"})
					p.do(&Op{Name: "XLAgg", R: l, Agg: "AMax"})
				}
				p.xListOp(l, "agg")
			}
		case "C15x":
			if len(ls) > 0 && (len(os) == 0 || r.chance(0.6)) {
				p.xListOp(pickOf(r, ls), "async")
			} else if len(os) > 0 {
				p.xObjOp(pickOf(r, os), "async")
			}
		case "C02x":
			p.do(&Op{Name: "XString", R: anyReg()})
		case "C01x":
			// serialise and parse back: the result is a live container of the program from then on (mutated, serialised and parsed
			// again like the others); at most a dozen containers so that programs stay small
			if len(p.m.vars) < 12 && r.chance(0.75) {
				p.do(&Op{Name: "ParseBack", R: anyReg()})
			} else {
				p.do(&Op{Name: "XString", R: anyReg()})
			}
		case "C16x":
			p.do(&Op{Name: "XFormat", R: anyReg(), I: pickOf(r, []int64{-1, 0, 1, 2, 3, 4, 10, 11, int64(r.Intn(11))})})
		case "C13x":
			switch r.Intn(6) {
			case 0, 1, 2:
				p.do(&Op{Name: "XNative", R: anyReg()})
			case 3:
				if len(ls) > 0 {
					p.do(&Op{Name: "LSlice", R: pickOf(r, ls)})
				}
			case 4:
				if len(os) > 0 {
					p.do(&Op{Name: "ODict", R: pickOf(r, os)})
				}
			case 5:
				p.xNewFrom(r.chance(0.5))
			}
		case "C12x":
			switch r.Intn(7) {
			case 6:
				// a live container - plain or a derived structure - is stored through one of the entry points, and the kind of exactly
				// that slot is asked for, by index / key and by path (a container is a List or an Object whatever its Go type)
				if len(p.m.vars) > 0 {
					src := r.Intn(len(p.m.vars))
					if r.chance(0.6) {
						for try := 0; try < 6; try++ {
							if c := r.Intn(len(p.m.vars)); isDerived(p.m.vars[c]) {
								src = c
								break
							}
						}
					}
					v := Operand{IsReg: true, Reg: src}
					if len(ls) > 0 && (len(os) == 0 || r.chance(0.6)) {
						l := pickOf(r, ls)
						if p.storable(v, l) {
							n := p.m.list(l).Count()
							at_ := int64(n)
							switch {
							case n > 0 && r.chance(0.4):
								at_ = int64(r.Intn(n))
								p.do(&Op{Name: "LReplace", R: l, I: at_, Vals: []Operand{v}})
							case n > 0 && r.chance(0.5):
								at_ = int64(r.Intn(n))
								p.do(&Op{Name: "LInsert", R: l, I: at_, Vals: []Operand{v}})
							default:
								p.do(&Op{Name: "LAdd", R: l, Vals: []Operand{v}})
							}
							p.do(&Op{Name: "LTypeOf", R: l, I: at_})
							p.do(&Op{Name: "TypeOfTF", R: l, TF: fmt.Sprintf("#%d", at_)})
							p.do(&Op{Name: "LGetTyped", R: l, I: at_, Kind: pickOf(r, []at.Type{at.TypeObject, at.TypeList})})
						}
					} else if len(os) > 0 {
						ob := pickOf(r, os)
						if p.storable(v, ob) {
							k := pickOf(r, []string{"c", "held", "k0"})
							p.do(&Op{Name: "OSet", R: ob, Vals: []Operand{{V: vstr(k)}, v}})
							p.do(&Op{Name: "OTypeOf", R: ob, K: k})
							p.do(&Op{Name: "TypeOfTF", R: ob, TF: "." + k})
							p.do(&Op{Name: "OGetTyped", R: ob, K: k, Kind: pickOf(r, []at.Type{at.TypeObject, at.TypeList})})
						}
					}
				}
			case 0, 1, 2:
				p.xNewFrom(r.chance(0.5))
			case 3:
				if len(ls) > 0 {
					p.xListOp(pickOf(r, ls), "map")
				}
			case 4:
				if len(os) > 0 {
					p.xObjOp(pickOf(r, os), "map")
				}
			case 5:
				if len(ls) > 0 {
					l := pickOf(r, ls)
					n := p.m.list(l).Count()
					if n > 0 {
						i := int64(r.Intn(n))
						p.do(&Op{Name: "LTypeOf", R: l, I: i})
						p.do(&Op{Name: "LGetTyped", R: l, I: i, Kind: at.Type(2 + r.Intn(6))})
					}
				}
			}
		case "C07x":
			// Equals between containers of one kind, repeatedly, in both orders, with mutations in between
			var pool []int
			if len(ls) >= 2 && (len(os) < 2 || r.chance(0.6)) {
				pool = ls
			} else if len(os) >= 2 {
				pool = os
			}
			if pool != nil {
				a, b := pickOf(r, pool), pickOf(r, pool)
				p.do(&Op{Name: "Equals", R: a, A: b})
				if r.chance(0.5) {
					p.do(&Op{Name: "Equals", R: b, A: a})
				}
			}
		}
	}
	for len(p.ops) < nops && !p.broken {
		n0 := len(p.ops)
		if len(p.m.vars) < 7 && r.chance(0.10) {
			if prof == "C07x" && len(p.m.vars) > 0 && r.chance(0.7) {
				p.twin()
			} else {
				p.newContainer()
			}
		} else if r.chance(0.42) {
			p.xMutate()
		} else if r.chance(0.1) {
			nv := len(p.m.vars)
			p.derive() // results of SubList / Concat / Merge / Pluck / Clone / Keys / Values / NewListOf take part like any other container
			if len(p.m.vars) > nv && !p.broken {
				// ... and are observed straight away in the profiles about serialisation and export (what a deriving operation
				// builds need not have gone through the paths Add / Set go through)
				last := len(p.m.vars) - 1
				switch prof {
				case "C02x":
					p.do(&Op{Name: "XString", R: last})
				case "C01x":
					p.do(&Op{Name: "ParseBack", R: last})
				case "C16x":
					p.do(&Op{Name: "XFormat", R: last, I: int64(r.Intn(11))})
				case "C13x":
					p.do(&Op{Name: "XNative", R: last})
				}
			}
		} else {
			step()
		}
		if len(p.ops) == n0 {
			p.xMutate()
		}
		if len(p.ops) == n0 {
			p.newContainer()
		}
	}
}

// storable: may operand v be stored into container register `into` without creating a cycle?
func (p *Prog) storable(v Operand, into int) bool {
	if !v.IsReg {
		return true
	}
	acc := map[any]bool{}
	reach(p.m.vars[v.Reg], acc)
	return !acc[p.m.vars[into]]
}

// derive: one deriving operation of Heap.v on random live containers (full range / valid arguments)
func (p *Prog) derive() {
	ls, os := p.listRegs(), p.objRegs()
	var plain []int
	for _, x := range ls {
		if !isDerived(p.m.vars[x]) {
			plain = append(plain, x)
		}
	}
	switch p.r.Intn(7) {
	case 6:
		// the same value n times (a string, a number, or one live container at every position)
		var v Operand
		if len(p.m.vars) > 0 && p.r.chance(0.4) {
			v = Operand{IsReg: true, Reg: p.r.Intn(len(p.m.vars))}
		} else {
			v = p.scalar()
		}
		p.do(&Op{Name: "NewListOf", Vals: []Operand{v}, I: int64(2 + p.r.Intn(3))})
	case 0, 1:
		if len(ls) > 0 {
			r := pickOf(p.r, ls)
			n := p.m.list(r).Count()
			s := 0
			if n > 0 {
				s = p.r.Intn(n + 1)
			}
			p.do(&Op{Name: "LSubList", R: r, S: int64(s), E: int64(n)})
		}
	case 2:
		if len(ls) > 0 && len(plain) > 0 {
			p.do(&Op{Name: "LConcat", R: pickOf(p.r, ls), A: pickOf(p.r, plain)})
		}
	case 3:
		if len(os) > 0 {
			p.do(&Op{Name: "OMerge", R: pickOf(p.r, os), A: pickOf(p.r, os)})
		}
	case 4:
		if len(os) > 0 {
			p.do(&Op{Name: pickOf(p.r, []string{"OKeys", "OValues"}), R: pickOf(p.r, os)})
		}
	default:
		if len(p.m.vars) > 0 && len(p.m.vars) < 12 {
			p.do(&Op{Name: "Clone", R: p.r.Intn(len(p.m.vars))})
		}
	}
}

// twin: a second container with the same top-level content as an existing one (equal, not identical)
func (p *Prog) twin() {
	if len(p.m.vars) == 0 {
		p.newContainer()
		return
	}
	x := p.r.Intn(len(p.m.vars))
	if p.r.chance(0.5) && len(p.m.vars) < 12 {
		p.rebuild(p.m.vars[x], 0) // a deep twin: equal, and no container shared at any depth
		return
	}
	switch c := p.m.vars[x].(type) {
	case at.List:
		var vs []Operand
		for i := 0; i < c.Count(); i++ {
			vs = append(vs, p.operandFor(c.Get(i)))
		}
		p.do(&Op{Name: "NewList", Vals: vs})
	case at.Object:
		var vs []Operand
		d := c.Dict()
		keys := make([]string, 0, len(d))
		for k := range d {
			keys = append(keys, k)
		}
		sort.Strings(keys)
		for _, k := range keys {
			vs = append(vs, Operand{V: vstr(k)}, p.operandFor(d[k]))
		}
		p.do(&Op{Name: "NewObject", Vals: vs})
	}
}

// rebuild: an operand denoting a value EQUAL to x in which every container, at every depth, is a new one
func (p *Prog) rebuild(x any, depth int) Operand {
	switch c := x.(type) {
	case at.List:
		if depth > 6 {
			return Operand{V: vnil()}
		}
		var vs []Operand
		for i := 0; i < c.Count(); i++ {
			vs = append(vs, p.rebuild(c.Get(i), depth+1))
		}
		p.do(&Op{Name: "NewList", Vals: vs})
		return Operand{IsReg: true, Reg: len(p.m.vars) - 1}
	case at.Object:
		if depth > 6 {
			return Operand{V: vnil()}
		}
		d := c.Dict()
		keys := make([]string, 0, len(d))
		for k := range d {
			keys = append(keys, k)
		}
		sort.Strings(keys)
		var vs []Operand
		for _, k := range keys {
			vs = append(vs, Operand{V: vstr(k)}, p.rebuild(d[k], depth+1))
		}
		p.do(&Op{Name: "NewObject", Vals: vs})
		return Operand{IsReg: true, Reg: len(p.m.vars) - 1}
	}
	return Operand{V: fromAny(x)}
}

// an operand denoting value x: a literal for scalars, the register of the container otherwise (or nil if it is not a variable)
func (p *Prog) operandFor(x any) Operand {
	switch x.(type) {
	case at.List, at.Object:
		for i, v := range p.m.vars {
			if v == x {
				return Operand{IsReg: true, Reg: i}
			}
		}
		return Operand{V: vnil()}
	}
	return Operand{V: fromAny(x)}
}

func genXHeap(prof string) genFunc {
	return func(r *R, n int, tier string, out *Out) {
		for i := 0; i < n; i++ {
			emitProg(xProgram(r, prof), out, "xheap")
		}
	}
}

// which properties get a stream of heap-level programs besides their own cases: profile, share of n, minimum
type xStream struct {
	prof     string
	div, min int
}

var xStreams = map[string]xStream{
	"C01": {"C01x", 25, 100}, "C02": {"C02x", 25, 100}, "C07": {"C07x", 20, 120}, "C09": {"C09x", 8, 150}, "C12": {"C12x", 25, 120}, "C13": {"C13x", 20, 120},
	"C14": {"C14x", 15, 150}, "C15": {"C15x", 4, 100}, "C16": {"C16x", 20, 100}, "C17": {"C17x", 20, 150}, "C18": {"C18x", 25, 120},
}

var xProfiles = []string{"C01x", "C02x", "C07x", "C09x", "C12x", "C13x", "C14x", "C15x", "C16x", "C17x", "C18x"}

func init() {
	for _, p := range xProfiles {
		generators[p] = genXHeap(p)
	}
}


// ---------- scale: structures beyond a thousand levels (implementation only; the model would need minutes) ----------
// Clone / Merge / Equals / NativeDict / String on an acyclic chain 1200 containers deep, insertion of a native value nested 10050
// slices deep: every one of them works on the unchanged library (its recursion is bounded only by the goroutine stack, see K2)
func deepScaleCase(prop string) *Case {
	f := &failer{pred: true}
	if try(func() {
		const depth = 1200
		var inner any = at.NewObject("leaf", 1)
		var innerL any = at.NewList(1)
		for i := 0; i < depth; i++ {
			if i%2 == 0 {
				inner = at.NewObject("k", inner)
			} else {
				inner = at.NewObject("k", inner, "l", at.NewList(i))
			}
			innerL = at.NewList(innerL)
		}
		root := inner.(at.Object)
		rootL := innerL.(at.List)
		switch prop {
		case "C06":
			m := root.Merge(at.NewObject("extra", 2))
			if m.Count() != root.Count()+1 || !m.KeyExists("k") || m.GetInt("extra") != 2 {
				f.fail("Merge on a receiver nested %d objects deep lost or added fields", depth)
			}
			if m.GetObject("k") == root.GetObject("k") {
				f.fail("Merge did not clone a deeply nested receiver")
			}
		case "C08":
			c := root.Clone()
			cl := rootL.Clone()
			if !c.Equals(root) || !cl.Equals(rootL) {
				f.fail("the clone of a structure nested %d containers deep does not Equal its source", depth)
			}
			// walk both sides down to the bottom: no container may be shared at any level
			var x, y any = root, c
			for i := 0; i < depth; i++ {
				xo, yo := x.(at.Object), y.(at.Object)
				if xo == yo {
					f.fail("Clone shares the object at nesting level %d with its source", i)
					break
				}
				x, y = xo.Get("k"), yo.Get("k")
			}
			var xl, yl any = rootL, cl
			for i := 0; i < depth; i++ {
				a, b := xl.(at.List), yl.(at.List)
				if a == b {
					f.fail("Clone shares the list at nesting level %d with its source", i)
					break
				}
				xl, yl = a.Get(0), b.Get(0)
			}
		case "C13":
			d := root.NativeDict()
			var x any = d
			for i := 0; i < depth; i++ {
				mm, ok := x.(map[string]any)
				if !ok {
					f.fail("NativeDict of a structure nested %d deep holds a %T at level %d instead of a plain map", depth, x, i)
					break
				}
				x = mm["k"]
			}
			sl := rootL.NativeSlice()
			var y any = sl
			for i := 0; i < depth; i++ {
				ss, ok := y.([]any)
				if !ok {
					f.fail("NativeSlice of a list nested %d deep holds a %T at level %d instead of a plain slice", depth, y, i)
					break
				}
				y = ss[0]
			}
		case "C12":
			var nat any = 7
			for i := 0; i < 10050; i++ {
				if i%2 == 0 {
					nat = []any{nat}
				} else {
					nat = map[string]any{"k": nat}
				}
			}
			l := at.NewList(nat)
			if l.TypeOf(0) != at.TypeObject && l.TypeOf(0) != at.TypeList {
				f.fail("a supported value nested 10050 native slices/maps deep was not stored as a container")
			}
			o := at.NewObject().Set("k", nat)
			if o.TypeOf("k") != l.TypeOf(0) {
				f.fail("Set and NewList disagree on a deeply nested native value")
			}
		}
	}) {
		f.fail("an operation panicked on an acyclic structure more than a thousand levels deep (%s)", prop)
	}
	return &Case{Coq: "", Desc: map[string]any{"deep_structure": prop}, Pred: f.pred, PredMsg: f.msg, Nontrivial: true, Key: "deep-scale/" + prop, Tags: []string{"deep-scale"}}
}
