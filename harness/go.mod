module verifharness

go 1.18

require github.com/DanielSvub/anytype v0.0.0

replace github.com/DanielSvub/anytype => /repo
