package main

// C19 (derived structures keep their identity) and C15 (async variants) — dynamic parts.

import (
	"fmt"
	"reflect"
	"runtime"
	"sort"
	"sync"
	"sync/atomic"
	"time"

	at "github.com/DanielSvub/anytype"
)

// ---------- derived types: one and two embedding levels ----------

// a derived list that OVERRIDES the getters (it presents its elements in reverse order): user code navigating step by step goes
// through the overrides; tree-form reads, which go through the registered value, must agree with it
type RevList struct{ at.List }

func (r *RevList) rix(i int) int             { return r.List.Count() - 1 - i }
func (r *RevList) Get(i int) any             { return r.List.Get(r.rix(i)) }
func (r *RevList) GetObject(i int) at.Object { return r.List.GetObject(r.rix(i)) }
func (r *RevList) GetList(i int) at.List     { return r.List.GetList(r.rix(i)) }
func (r *RevList) TypeOf(i int) at.Type {
	if i < 0 || i >= r.List.Count() {
		return at.TypeUndefined
	}
	return r.List.TypeOf(r.rix(i))
}

type MyList struct{ at.List }
type MyList2 struct{ *MyList }
type MyObj struct{ at.Object }
type MyObj2 struct{ *MyObj }

func newMyList(vals ...any) *MyList {
	m := &MyList{List: at.NewList(vals...)}
	m.Init(m)
	return m
}

// the natural constructor pattern: the inner level registers itself first, then the outer one registers again
func newMyList2(vals ...any) *MyList2 {
	m := &MyList2{MyList: newMyList(vals...)}
	m.Init(m)
	return m
}
func newMyObj(vals ...any) *MyObj {
	m := &MyObj{Object: at.NewObject(vals...)}
	m.Init(m)
	return m
}
func newMyObj2(vals ...any) *MyObj2 {
	m := &MyObj2{MyObj: newMyObj(vals...)}
	m.Init(m)
	return m
}

var listIface = reflect.TypeOf((*at.List)(nil)).Elem()
var objIface = reflect.TypeOf((*at.Object)(nil)).Elem()

// synthesise valid arguments for a method from its signature
func synthArgs(r *R, mt reflect.Type, name string, isObj bool, variant int) []reflect.Value {
	var args []reflect.Value
	for i := 0; i < mt.NumIn(); i++ {
		t := mt.In(i)
		variadic := mt.IsVariadic() && i == mt.NumIn()-1
		if variadic {
			k := 1 + variant%2
			for j := 0; j < k; j++ {
				switch t.Elem().Kind() {
				case reflect.Int:
					args = append(args, reflect.ValueOf(j)) // distinct valid indices 0,1
				case reflect.String:
					args = append(args, reflect.ValueOf([]string{"a", "b"}[j]))
				default: // ...any
					if isObj && name == "Set" {
						args = append(args, reflect.ValueOf(any([]string{"a", "zz"}[j])), reflect.ValueOf(any(variant)))
					} else {
						args = append(args, reflect.ValueOf(any(variant+j)))
					}
				}
			}
			continue
		}
		switch {
		case t == listIface:
			args = append(args, reflect.ValueOf(at.NewList(9)).Convert(listIface))
		case t == objIface:
			args = append(args, reflect.ValueOf(at.NewObject("q", 9)).Convert(objIface))
		case t.Kind() == reflect.Int:
			idx := variant % 2 // a valid index: 0 or 1 (lists hold 4 elements)
			if name == "Insert" && variant%3 == 2 {
				idx = 4 // Insert at the append position (index == Count)
			}
			args = append(args, reflect.ValueOf(idx))
		case t.Kind() == reflect.String:
			s := "a"
			if name == "SetTF" || name == "UnsetTF" || name == "GetTF" || name == "TypeOfTF" {
				if isObj {
					s = []string{".a", ".b"}[variant%2]
				} else {
					s = []string{"#0", "#1"}[variant%2]
				}
			}
			args = append(args, reflect.ValueOf(s))
		case t.Kind() == reflect.Func:
			ft := t
			args = append(args, reflect.MakeFunc(ft, func(in []reflect.Value) []reflect.Value {
				outs := make([]reflect.Value, ft.NumOut())
				for k := range outs {
					if ft.Out(k).Kind() == reflect.Bool {
						outs[k] = reflect.ValueOf(true)
					} else if ft.Out(k).Kind() == reflect.Interface && len(in) > 0 {
						// identity-ish callback: return the last argument when assignable, else nil
						last := in[len(in)-1]
						if last.Type().AssignableTo(ft.Out(k)) {
							outs[k] = last
						} else {
							outs[k] = reflect.Zero(ft.Out(k))
						}
					} else if len(in) > 0 && in[0].Type() == ft.Out(k) {
						outs[k] = in[0]
					} else {
						outs[k] = reflect.Zero(ft.Out(k))
					}
				}
				return outs
			}))
		case t.Kind() == reflect.Interface: // any
			args = append(args, reflect.ValueOf(any(variant)).Convert(t))
		case t.Kind() == reflect.Float64:
			args = append(args, reflect.ValueOf(1.5))
		default:
			args = append(args, reflect.Zero(t))
		}
	}
	return args
}

func manyVals(n int) []any {
	vs := make([]any, n)
	for i := range vs {
		vs[i] = (i * 7) % 1000
	}
	vs[0], vs[1], vs[2], vs[3] = 3, 1, 2, 5
	return vs
}
func manyPairs(n int) []any {
	vs := []any{"a", 1, "b", 2}
	for i := 0; i < n; i++ {
		vs = append(vs, fmt.Sprintf("k%d", i), i)
	}
	return vs
}

func genC19(r *R, n int, tier string, out *Out) {
	type target struct {
		isObj bool
		level int
		make_ func() (recv reflect.Value, outer any)
	}
	targets := []target{
		{false, 1, func() (reflect.Value, any) { m := newMyList(3, 1, 2, 5); return reflect.ValueOf(m), m }},
		{false, 2, func() (reflect.Value, any) { m := newMyList2(3, 1, 2, 5); return reflect.ValueOf(m), m }},
		{true, 1, func() (reflect.Value, any) { m := newMyObj("a", 1, "b", 2); return reflect.ValueOf(m), m }},
		{true, 2, func() (reflect.Value, any) { m := newMyObj2("a", 1, "b", 2); return reflect.ValueOf(m), m }},
		// long / wide derived containers (a method may switch strategy by size and forget the registered value on that path)
		{false, 1, func() (reflect.Value, any) { m := newMyList(manyVals(300)...); return reflect.ValueOf(m), m }},
		{false, 2, func() (reflect.Value, any) { m := newMyList2(manyVals(1030)...); return reflect.ValueOf(m), m }},
		{true, 1, func() (reflect.Value, any) { m := newMyObj(manyPairs(70)...); return reflect.ValueOf(m), m }},
	}
	emitted := 0
	variant := 0
	for emitted < n {
		for _, tg := range targets {
			iface := listIface
			if tg.isObj {
				iface = objIface
			}
			var names []string
			for i := 0; i < iface.NumMethod(); i++ {
				names = append(names, iface.Method(i).Name)
			}
			sort.Strings(names)
			for _, name := range names {
				m, _ := iface.MethodByName(name)
				if m.Type.NumOut() != 1 || m.Type.Out(0) != iface {
					continue // only methods returning the interface itself can return the receiver
				}
				if name == "Init" || name == "GetList" || name == "GetObject" {
					continue // Init registers; GetList/GetObject hand out a STORED value (covered by the retrieval checks), never the receiver
				}
				recv, outer := tg.make_()
				f := &failer{pred: true}
				// the call goes through the embedded (promoted) method set, as user code does
				meth := recv.MethodByName(name)
				args := synthArgs(r, m.Type, name, tg.isObj, variant)
				var ret any
				panicked := try(func() {
					res := meth.Call(args)
					ret = res[0].Interface()
				})
				isOuter := !panicked && ret == outer
				fluent := fluentNames(tg.isObj)[name]
				if panicked {
					f.fail("%s panicked on valid arguments", name)
				} else if fluent && !isOuter {
					f.fail("%s on a derived value (embedding level %d) returned %T, not the registered outer %T", name, tg.level, ret, outer)
				}
				// Ego and the retrieval paths of a stored derived value
				if name == "Ego" {
					storedChecks(f, outer, tg.isObj)
				}
				if !panicked && emitted < n {
					out.emit(&Case{
						Coq:        fmt.Sprintf("(%s, B%s, %s)", coqBool(tg.isObj), coqString(name), coqBool(isOuter)),
						Desc:       map[string]any{"receiver": fmt.Sprintf("%T", outer), "method": name, "returned": fmt.Sprintf("%T", ret), "returned_outer": isOuter, "variant": variant},
						Pred:       f.pred, PredMsg: f.msg,
						Nontrivial: true,
						Key:        fmt.Sprintf("%v/%d/%s/%d", tg.isObj, tg.level, name, variant%6),
						Tags:       []string{name, fmt.Sprintf("level=%d", tg.level)},
					})
					emitted++
				} else if panicked {
					out.emit(&Case{Coq: "", Desc: map[string]any{"method": name, "panicked": true}, Pred: false, PredMsg: f.msg, Nontrivial: true, Key: name + "/panic"})
					emitted++
				}
			}
		}
		variant++
	}
}

func coqString(s string) string { return "\"" + s + "\"" }

func fluentNames(isObj bool) map[string]bool {
	l := []string{"Add", "Insert", "Replace", "Delete", "Pop", "Clear", "Sort", "Reverse", "ForEach", "ForEachValue", "ForEachObject", "ForEachList",
		"ForEachString", "ForEachBool", "ForEachInt", "ForEachFloat", "ForEachAsync", "SetTF", "UnsetTF", "Ego"}
	if isObj {
		l = []string{"Set", "Unset", "Clear", "ForEach", "ForEachValue", "ForEachObject", "ForEachList", "ForEachString", "ForEachBool", "ForEachInt",
			"ForEachFloat", "ForEachAsync", "SetTF", "UnsetTF", "Ego"}
	}
	m := map[string]bool{}
	for _, n := range l {
		m[n] = true
	}
	return m
}

// a derived value stored in other containers is handed back as the identical outer value by every retrieval path
// storing an INNER embedding level of a derived value (the embedded List/Object itself, or the middle level of a two-level type)
// through any entry point must leave the registration of the outer value alone: Ego and the fluent methods still answer the outer value
func innerLevelsStored(f *failer, outer any) {
	var inners []any
	switch o := outer.(type) {
	case *MyList:
		inners = []any{o.List}
	case *MyList2:
		inners = []any{o.MyList, o.MyList.List}
	case *MyObj:
		inners = []any{o.Object}
	case *MyObj2:
		inners = []any{o.MyObj, o.MyObj.Object}
	}
	for k, in := range inners {
		switch k % 4 {
		case 0:
			at.NewList(in)
		case 1:
			at.NewObject("inner", in)
		case 2:
			at.NewList().Add(1, in)
		default:
			at.NewObject().SetTF(".x#0", in)
		}
		at.NewList([]any{in})
		at.NewObject().Set("k", in)
		switch o := outer.(type) {
		case at.List:
			if o.Ego() != outer {
				f.fail("after an inner embedding level (%T) was stored in another container, Ego() of the derived value answers %T instead of the registered outer %T", in, o.Ego(), outer)
			}
			if ret := o.Add(); ret != outer {
				f.fail("after an inner embedding level was stored elsewhere, Add() returns %T instead of the outer %T", ret, outer)
			}
		case at.Object:
			if o.Ego() != outer {
				f.fail("after an inner embedding level (%T) was stored in another container, Ego() of the derived value answers %T instead of the registered outer %T", in, o.Ego(), outer)
			}
			if ret := o.Set(); ret != outer {
				f.fail("after an inner embedding level was stored elsewhere, Set() returns %T instead of the outer %T", ret, outer)
			}
		}
	}
}

// a derived value written over a PLAIN container with the same content (by Set / Replace / tree form) replaces it: afterwards every
// retrieval hands back the derived value, not the equal plain one that was there before
func overEqualPlain(f *failer, outer any) {
	var plain any
	switch o := outer.(type) {
	case at.List:
		plain = o.Clone()
	case at.Object:
		plain = o.Clone()
	}
	type tgt struct {
		name string
		get  func() any
	}
	var tgts []tgt
	ho := at.NewObject("d", plain)
	ho.SetTF(".d", outer)
	tgts = append(tgts, tgt{"Object.SetTF over an equal plain container", func() any { return ho.Get("d") }})
	ho2 := at.NewObject("d", plain)
	ho2.Set("d", outer)
	tgts = append(tgts, tgt{"Object.Set over an equal plain container", func() any { return ho2.Get("d") }})
	hl := at.NewList(plain, 1)
	hl.SetTF("#0", outer)
	tgts = append(tgts, tgt{"List.SetTF over an equal plain container", func() any { return hl.Get(0) }})
	hl2 := at.NewList(plain, 1)
	hl2.Replace(0, outer)
	tgts = append(tgts, tgt{"List.Replace over an equal plain container", func() any { return hl2.Get(0) }})
	deep := at.NewObject("a", at.NewList(at.NewObject("b", plain)))
	deep.SetTF(".a#0.b", outer)
	tgts = append(tgts, tgt{"nested SetTF over an equal plain container", func() any { return deep.GetTF(".a#0.b") }})
	for _, t := range tgts {
		if got := t.get(); got != outer {
			f.fail("%s: retrieval hands back %T, not the derived value %T that was written", t.name, got, outer)
		}
	}
}

// fluent calls on EMPTY derived containers, and fluent calls that have nothing to do (Clear of an empty container, Unset of a missing
// key, Delete with no index, Add with no value): they still answer the registered value
func emptyFluent(f *failer) {
	ml, ml2, mo, mo2 := newMyList(), newMyList2(), newMyObj(), newMyObj2()
	type call struct {
		name string
		got  any
		want any
	}
	calls := []call{
		{"List.Clear on an empty derived list", ml.Clear(), ml}, {"List.Clear().Clear()", ml.Clear().Clear(), ml}, {"List.Add() with no value", ml.Add(), ml},
		{"List.Delete() with no index", ml.Delete(), ml}, {"List.Reverse on an empty derived list", ml.Reverse(), ml}, {"List.ForEach on an empty derived list", ml.ForEach(func(int, any) {}), ml},
		{"List.ForEachAsync on an empty derived list", ml.ForEachAsync(func(int, any) {}), ml}, {"List.Clear on an empty two-level derived list", ml2.Clear(), ml2},
		{"Object.Clear on an empty derived object", mo.Clear(), mo}, {"Object.Clear().Clear()", mo.Clear().Clear(), mo}, {"Object.Unset of a missing key", mo.Unset("nope"), mo},
		{"Object.Unset() with no key", mo.Unset(), mo}, {"Object.Set() with no pair", mo.Set(), mo}, {"Object.ForEach on an empty derived object", mo.ForEach(func(string, any) {}), mo},
		{"Object.ForEachAsync on an empty derived object", mo.ForEachAsync(func(string, any) {}), mo}, {"Object.Clear on an empty two-level derived object", mo2.Clear(), mo2},
		{"Object.Set then Unset then Clear", mo2.Set("a", 1).Unset("a").Clear(), mo2}, {"List.Add then Pop then Clear", ml2.Add(1).Pop().Clear(), ml2},
	}
	for _, c := range calls {
		if c.got != c.want {
			f.fail("%s returned %T, not the registered derived value %T", c.name, c.got, c.want)
		}
	}
}

// a derived container keeps its identity through its whole size history: grown far beyond its first capacity, drained element by
// element through every removing operation, grown again - after EVERY step the call returned the registered value and the holders
// still hand back the identical value (an implementation that rebuilds its storage at some fill ratio must not rebuild the identity)
func sizeHistoryFluent(f *failer) {
	for _, n0 := range []int{40, 70, 130} {
		ml := newMyList(manyVals(n0)...)
		var outer at.List = ml
		holder := at.NewList(ml, "x")
		hobj := at.NewObject("d", ml)
		check := func(step string, ret at.List) {
			if ret != outer {
				f.fail("derived list of %d elements, %s at count %d: the call returned %T, not the registered derived value", n0, step, ml.Count(), ret)
			}
			if holder.Get(0) != any(outer) || holder.GetList(0) != outer || hobj.GetList("d") != outer || hobj.GetTF(".d") != any(outer) {
				f.fail("derived list of %d elements, after %s at count %d the holders no longer hand back the identical derived value", n0, step, ml.Count())
			}
			if ml.Ego() != outer {
				f.fail("derived list of %d elements, after %s at count %d Ego() is no longer the registered value", n0, step, ml.Count())
			}
		}
		for k := 0; ml.Count() > 0; k++ {
			switch k % 4 {
			case 0:
				check("Pop", ml.Pop())
			case 1:
				check("Delete(0)", ml.Delete(0))
			case 2:
				check("UnsetTF(#0)", ml.UnsetTF("#0"))
			default:
				if ml.Count() >= 3 {
					check("Delete(0, 2)", ml.Delete(0, 2))
				} else {
					check("Pop", ml.Pop())
				}
			}
		}
		check("Add after the list was drained", ml.Add(1, 2, 3))
		check("Clear", ml.Clear())
		mo := newMyObj(manyPairs(n0)...)
		var oo at.Object = mo
		oh := at.NewList(mo)
		ocheck := func(step string, ret at.Object) {
			if ret != oo {
				f.fail("derived object of %d fields, %s at count %d: the call returned %T, not the registered derived value", n0, step, mo.Count(), ret)
			}
			if oh.Get(0) != any(oo) || oh.GetObject(0) != oo || mo.Ego() != oo {
				f.fail("derived object of %d fields, after %s at count %d the holder no longer hands back the identical derived value", n0, step, mo.Count())
			}
		}
		for k := 0; k < n0; k++ {
			if k%2 == 0 {
				ocheck("Unset", mo.Unset(fmt.Sprintf("k%d", k)))
			} else {
				ocheck("UnsetTF", mo.UnsetTF(fmt.Sprintf(".k%d", k)))
			}
		}
		ocheck("Set after the object was drained", mo.Set("z", 1))
		ocheck("Clear", mo.Clear())
	}
}

// a stored derived value reaches the callbacks of the async iteration as the identical value too
func asyncRetrieval(f *failer, outer any) {
	hl := at.NewList(0, outer, "x")
	ho := at.NewObject("d", outer, "s", 1)
	var mu sync.Mutex
	hl.ForEachAsync(func(i int, x any) {
		if i == 1 && x != outer {
			mu.Lock()
			f.fail("List.ForEachAsync handed the callback %T instead of the stored derived value %T", x, outer)
			mu.Unlock()
		}
	})
	ho.ForEachAsync(func(k string, x any) {
		if k == "d" && x != outer {
			mu.Lock()
			f.fail("Object.ForEachAsync handed the callback %T instead of the stored derived value %T", x, outer)
			mu.Unlock()
		}
	})
	hl.ForEachValue(func(x any) {
		switch x.(type) {
		case at.List, at.Object:
			if x != outer {
				f.fail("List.ForEachValue handed the callback %T instead of the stored derived value %T", x, outer)
			}
		}
	})
	ho.ForEachValue(func(x any) {
		switch x.(type) {
		case at.List, at.Object:
			if x != outer {
				f.fail("Object.ForEachValue handed the callback %T instead of the stored derived value %T", x, outer)
			}
		}
	})
}

func storedChecks(f *failer, outer any, isObj bool) {
	defer innerLevelsStored(f, outer)
	defer overEqualPlain(f, outer)
	defer asyncRetrieval(f, outer)
	defer emptyFluent(f)
	defer sizeHistoryFluent(f)
	// a mutator that panics (an invalid index in a multi-index Delete, Insert/Replace out of range, Set with an odd count) leaves
	// the stored derived values where they are: the identical outer value is still handed back
	func() {
		hl := at.NewList(outer, 1, 2, outer)
		ho := at.NewObject("d", outer, "x", 1)
		try(func() { hl.Delete(1, 99) })
		try(func() { hl.Insert(-1, 0) })
		try(func() { hl.Replace(77, 0) })
		try(func() { ho.Set("y") })
		if hl.Count() > 0 && hl.Get(0) != outer {
			f.fail("after a panicking mutator (recovered) List.Get(0) hands back %T instead of the stored derived value %T", hl.Get(0), outer)
		}
		if hl.Count() > 0 && hl.Get(hl.Count()-1) != outer {
			f.fail("after a panicking mutator (recovered) the last element is %T instead of the stored derived value %T", hl.Get(hl.Count()-1), outer)
		}
		if ho.Get("d") != outer {
			f.fail("after a panicking Set (recovered) Object.Get hands back %T instead of the stored derived value %T", ho.Get("d"), outer)
		}
	}()
	holderL := at.NewList(0, outer, "x")
	holderO := at.NewObject("d", outer, "s", 1)
	deep := at.NewObject("l", at.NewList(outer))
	check := func(path string, got any) {
		if got != outer {
			f.fail("%s handed back %T instead of the stored derived value %T", path, got, outer)
		}
	}
	check("List.Get", holderL.Get(1))
	check("Object.Get", holderO.Get("d"))
	check("List.GetTF", holderL.GetTF("#1"))
	check("Object.GetTF", holderO.GetTF(".d"))
	check("nested GetTF", deep.GetTF(".l#0"))
	check("List.Slice", holderL.Slice()[1])
	check("Object.Dict", holderO.Dict()["d"])
	check("Object.Values", func() any {
		vs := holderO.Values()
		for i := 0; i < vs.Count(); i++ {
			if vs.TypeOf(i) != at.TypeInt {
				return vs.Get(i)
			}
		}
		return nil
	}())
	if isObj {
		check("List.GetObject", holderL.GetObject(1))
		check("Object.GetObject", holderO.GetObject("d"))
		check("List.ObjectSlice", holderL.ObjectSlice()[0])
		holderL.ForEachObject(func(o at.Object) { check("List.ForEachObject", o) })
		holderO.ForEachObject(func(o at.Object) { check("Object.ForEachObject", o) })
		fl := holderL.FilterObjects(func(o at.Object) bool { return true })
		check("List.FilterObjects", fl.Get(0))
		if !holderL.Contains(outer) || holderL.IndexOf(outer) != 1 {
			f.fail("Contains/IndexOf do not find the stored derived value")
		}
	} else {
		check("List.GetList", holderL.GetList(1))
		check("Object.GetList", holderO.GetList("d"))
		check("List.ListSlice", holderL.ListSlice()[0])
		holderL.ForEachList(func(o at.List) { check("List.ForEachList", o) })
		holderO.ForEachList(func(o at.List) { check("Object.ForEachList", o) })
		fl := holderL.FilterLists(func(o at.List) bool { return true })
		check("List.FilterLists", fl.Get(0))
	}
	// Ego itself
	switch d := outer.(type) {
	case at.List:
		check("Ego", d.Ego())
	case at.Object:
		check("Ego", d.Ego())
	}
	// repeated storage through NewListOf: every slot hands back the identical derived value
	if try(func() {
		rep := at.NewListOf(outer, 3)
		for i := 0; i < 3; i++ {
			check(fmt.Sprintf("NewListOf(x,3).Get(%d)", i), rep.Get(i))
		}
	}) {
		f.fail("NewListOf with a derived value panicked")
	}
	// fluent returns of tree-form calls whose path descends into nested containers: still the receiver's outer value
	switch d := outer.(type) {
	case at.Object:
		if try(func() {
			d.SetTF(".zz-c19n.a.b", 1)
			check("Object.SetTF(nested path) return", d.SetTF(".zz-c19n.a.c", 2))
			check("Object.UnsetTF(nested path) return", d.UnsetTF(".zz-c19n.a.b"))
			check("Object.UnsetTF(nested path through a list) return", d.SetTF(".zz-c19n.l#0.k", 1).UnsetTF(".zz-c19n.l#0.k"))
			check("Object.UnsetTF(single segment) return", d.UnsetTF(".zz-c19n"))
		}) {
			f.fail("tree-form writes with nested paths on a derived object panicked")
		}
	case at.List:
		if try(func() {
			n := d.Count()
			check("List.SetTF(nested path) return", d.SetTF(fmt.Sprintf("#%d.a.b", n), 1))
			check("List.UnsetTF(nested path) return", d.UnsetTF(fmt.Sprintf("#%d.a.b", n)))
			check("List.UnsetTF(index) return", d.UnsetTF(fmt.Sprintf("#%d", n)))
			if d.Count() != n {
				f.fail("tree-form round trip on a derived list left %d elements instead of %d", d.Count(), n)
			}
		}) {
			f.fail("tree-form writes with nested paths on a derived list panicked")
		}
	}
	// the kind reported for the stored value, and tree-form writes THROUGH it: they must reach the derived value and leave it
	// where it is (an intermediate of the right kind is reused, C11), so every retrieval still hands back the identical value
	if try(func() {
		if isObj {
			do := outer.(at.Object)
			if holderO.TypeOf("d") != at.TypeObject || holderL.TypeOf(1) != at.TypeObject || holderO.TypeOfTF(".d") != at.TypeObject || holderL.TypeOfTF("#1") != at.TypeObject {
				f.fail("a stored derived object is not reported as TypeObject")
			}
			holderO.SetTF(".d.zz-c19", 5)
			check("Object.Get after SetTF through the stored value", holderO.Get("d"))
			if !do.KeyExists("zz-c19") {
				f.fail("SetTF through a stored derived object did not reach it")
			}
			holderL.SetTF("#1.zz-c19", 6)
			check("List.Get after SetTF through the stored value", holderL.Get(1))
			if !do.KeyExists("zz-c19") || do.Get("zz-c19") != any(6) {
				f.fail("SetTF through a derived object stored in a list did not reach it")
			}
			holderO.UnsetTF(".d.zz-c19")
			if do.KeyExists("zz-c19") {
				f.fail("UnsetTF through a stored derived object did not reach it")
			}
		} else {
			dl := outer.(at.List)
			n := dl.Count()
			if holderO.TypeOf("d") != at.TypeList || holderL.TypeOf(1) != at.TypeList || holderO.TypeOfTF(".d") != at.TypeList || holderL.TypeOfTF("#1") != at.TypeList {
				f.fail("a stored derived list is not reported as TypeList")
			}
			holderO.SetTF(fmt.Sprintf(".d#%d", n), 5)
			check("Object.Get after SetTF through the stored value", holderO.Get("d"))
			if dl.Count() != n+1 {
				f.fail("SetTF through a stored derived list did not reach it")
			}
			holderL.SetTF(fmt.Sprintf("#1#%d", n), 6)
			check("List.Get after SetTF through the stored value", holderL.Get(1))
			if dl.Count() != n+1 || dl.Get(n) != any(6) {
				f.fail("SetTF through a derived list stored in a list did not reach it")
			}
			holderO.UnsetTF(fmt.Sprintf(".d#%d", n))
			if dl.Count() != n {
				f.fail("UnsetTF through a stored derived list did not reach it")
			}
		}
	}) {
		f.fail("a tree-form access through a stored derived value panicked")
	}
}

// ---------- C15 ----------

// one async case: kind 0 list.ForEachAsync, 1 list.MapAsync, 2 object.ForEachAsync, 3 object.MapAsync
func asyncCase(r *R, kind, n, procs int, delayPattern int) *Case {
	old := runtime.GOMAXPROCS(procs)
	defer runtime.GOMAXPROCS(old)
	f := &failer{pred: true}
	vals := make([]any, n)
	for i := range vals {
		vals[i] = i * 10
	}
	// MapAsync: some elements are floats (both zeros among them) and the mapping function negates them: Map and MapAsync must agree
	// bit for bit (a result that is "equal" under == but another value - -0 for 0 - is another result)
	mapf := func(i int, x any) any {
		switch v := x.(type) {
		case float64:
			return -v
		case int:
			return v + i
		}
		return x
	}
	if kind == 1 || kind == 3 {
		for i := range vals {
			switch i % 4 {
			case 1:
				vals[i] = 0.0
			case 3:
				vals[i] = float64(i) / 2
			}
		}
	}
	key := func(i int) string { return fmt.Sprintf("k%03d", i) }
	delay := func(i int) {
		switch delayPattern {
		case 0:
		case 1:
			time.Sleep(time.Duration((i*7)%5) * 100 * time.Microsecond)
		case 2:
			time.Sleep(time.Duration((n-i)%4) * 150 * time.Microsecond)
		case 3:
			runtime.Gosched()
		default:
			if i%2 == 0 {
				time.Sleep(300 * time.Microsecond)
			}
		}
	}
	var mu sync.Mutex
	var log []int
	var finished int64
	allDone := false
	resultOK := true
	// delay pattern 5 (ForEachAsync only): the callbacks complete in REVERSE order - callback i returns only after callback i+1 has
	// returned. Every order of completion is an admissible schedule of n concurrent workers; an implementation that runs the
	// callbacks one after another (or on fewer workers than elements) cannot realise it and would wait forever: each wait is
	// bounded, and the first one that expires is reported.
	doneCh := make([]chan struct{}, n+1)
	for i := range doneCh {
		doneCh[i] = make(chan struct{})
	}
	closed := make([]int32, n+1)
	closeOnce := func(i int) { // (a callback that runs twice for one element must not crash the harness: the log shows it)
		if i >= 0 && i < n && atomic.CompareAndSwapInt32(&closed[i], 0, 1) {
			close(doneCh[i])
		}
	}
	var expired int32
	waitNext := func(i int) {
		if delayPattern != 5 || i+1 >= n || atomic.LoadInt32(&expired) != 0 {
			return
		}
		select {
		case <-doneCh[i+1]:
		case <-time.After(3 * time.Second):
			if atomic.CompareAndSwapInt32(&expired, 0, 1) {
				mu.Lock()
				f.fail("ForEachAsync: callback %d waited 3 s for callback %d to return - the callbacks do not run concurrently (GOMAXPROCS=%d, n=%d)", i, i+1, procs, n)
				mu.Unlock()
			}
		}
	}
	switch kind {
	case 0, 1:
		l := at.NewList(vals...)
		before := canon(l)
		// a second list with nested containers: the callback must receive the stored containers themselves (as ForEach does)
		if kind == 0 && n > 0 {
			nested := at.NewList()
			for i := 0; i < n; i++ {
				switch i % 3 {
				case 0:
					nested.Add(at.NewObject("i", i))
				case 1:
					nested.Add(at.NewList(i))
				default:
					nested.Add(i)
				}
			}
			var idMu sync.Mutex
			nested.ForEachAsync(func(i int, x any) {
				if x != nested.Get(i) {
					idMu.Lock()
					f.fail("ForEachAsync handed the callback a different value than Get(%d) (a copy of the stored container?)", i)
					idMu.Unlock()
				}
				if o, ok := x.(at.Object); ok {
					o.Set("seen", true)
				}
			})
			for i := 0; i < n; i += 3 {
				if !nested.GetObject(i).KeyExists("seen") {
					f.fail("a change the ForEachAsync callback made to the nested object at %d was lost", i)
					break
				}
			}
		}
		if kind == 0 {
			ret := l.ForEachAsync(func(i int, x any) {
				delay(i)
				if x != any(i*10) {
					f.fail("callback got index %d with value %v", i, x)
				}
				mu.Lock()
				log = append(log, i)
				mu.Unlock()
				delay(i + 1)
				waitNext(i)
				atomic.AddInt64(&finished, 1)
				closeOnce(i)
			})
			allDone = atomic.LoadInt64(&finished) == int64(n)
			if ret != l {
				f.fail("ForEachAsync did not return its receiver")
			}
		} else {
			res := l.MapAsync(func(i int, x any) any {
				delay(i)
				mu.Lock()
				log = append(log, i)
				mu.Unlock()
				atomic.AddInt64(&finished, 1)
				return mapf(i, x)
			})
			allDone = atomic.LoadInt64(&finished) == int64(n)
			want := l.Map(mapf)
			resultOK = canon(res) == canon(want) && res.Count() == n
			if !resultOK {
				f.fail("MapAsync result %s differs from Map result %s", res.String(), want.String())
			}
			// like Map, MapAsync returns a NEW list: not the receiver, and changing it leaves the receiver alone
			if res == at.List(l) {
				resultOK = false
				f.fail("MapAsync returned its receiver instead of a new list (n=%d)", n)
			} else {
				res.Add("sentinel")
				if canon(l) != before {
					resultOK = false
					f.fail("adding to the result of MapAsync changed the receiver (n=%d)", n)
				}
			}
		}
		if canon(l) != before {
			f.fail("the async call modified the list")
		}
	default:
		pairs := make([]any, 0, 2*n)
		for i := 0; i < n; i++ {
			pairs = append(pairs, key(i), vals[i])
		}
		o := at.NewObject(pairs...)
		before := canon(o)
		idx := func(k string) int { var i int; fmt.Sscanf(k, "k%d", &i); return i }
		if kind == 2 {
			ret := o.ForEachAsync(func(k string, x any) {
				i := idx(k)
				delay(i)
				if x != any(i*10) {
					f.fail("callback got key %q with value %v", k, x)
				}
				mu.Lock()
				log = append(log, i)
				mu.Unlock()
				delay(i + 1)
				waitNext(i)
				atomic.AddInt64(&finished, 1)
				closeOnce(i)
			})
			allDone = atomic.LoadInt64(&finished) == int64(n)
			if ret != o {
				f.fail("ForEachAsync did not return its receiver")
			}
		} else {
			res := o.MapAsync(func(k string, x any) any {
				i := idx(k)
				delay(i)
				mu.Lock()
				log = append(log, i)
				mu.Unlock()
				atomic.AddInt64(&finished, 1)
				return mapf(i, x)
			})
			allDone = atomic.LoadInt64(&finished) == int64(n)
			want := o.Map(func(k string, x any) any { return mapf(idx(k), x) })
			resultOK = canon(res) == canon(want) && res.Count() == n
			if !resultOK {
				f.fail("MapAsync result differs from Map result")
			}
			if res == at.Object(o) {
				resultOK = false
				f.fail("MapAsync returned its receiver instead of a new object (n=%d)", n)
			} else {
				res.Set("sentinel", 1)
				if canon(o) != before {
					resultOK = false
					f.fail("setting a field of the result of MapAsync changed the receiver (n=%d)", n)
				}
			}
		}
		if canon(o) != before {
			f.fail("the async call modified the object")
		}
	}
	mu.Lock()
	sorted := append([]int(nil), log...)
	mu.Unlock()
	sort.Ints(sorted)
	if !allDone {
		f.fail("the call returned before every callback had returned (%d of %d finished)", atomic.LoadInt64(&finished), n)
	}
	if len(sorted) != n {
		f.fail("the callback ran %d times for %d elements", len(sorted), n)
	} else {
		for i, x := range sorted {
			if x != i {
				f.fail("the callback did not run exactly once per element: %v", sorted)
				break
			}
		}
	}
	items := make([]string, len(sorted))
	for i, x := range sorted {
		items[i] = fmt.Sprintf("%d%%nat", x)
	}
	coqTerm := fmt.Sprintf("(%d, %d%%nat, %s, %s, %s)", kind, n, coqList(items), coqBool(allDone), coqBool(resultOK))
	if n > 300 {
		coqTerm = "" // the schedule simulation of the model is quadratic in n: beyond 300 workers the case is judged by the predicates above only
	}
	return &Case{
		Coq:        coqTerm,
		Desc:       map[string]any{"method": []string{"List.ForEachAsync", "List.MapAsync", "Object.ForEachAsync", "Object.MapAsync"}[kind], "n": n, "GOMAXPROCS": procs, "delay_pattern": delayPattern, "calls": len(sorted), "all_done_at_return": allDone},
		Pred:       f.pred, PredMsg: f.msg,
		Nontrivial: n >= 2,
		Key:        fmt.Sprintf("%d/%d/%d/%d", kind, n, procs, delayPattern),
		Tags:       []string{fmt.Sprintf("kind=%d", kind), fmt.Sprintf("n=%d", n), fmt.Sprintf("procs=%d", procs)},
	}
}

// what a JSON text denotes, members sorted (independent decoder); the text itself when it does not decode
func denoted(s string) string {
	v, ok := refDecode(s)
	if !ok {
		return "undecodable: " + s
	}
	return sortV(v).canon()
}

// concurrent read-only operations on one shared, unmodified container give the sequential results
func readersCase(r *R, goroutines int) *Case {
	f := &failer{pred: true}
	o := defaultOpts()
	o.Floats = (*R).finiteFloat
	t := r.listTree(o)
	t.L = append(t.L, vint(1), vstr("x"), vlist(vint(2)), vobj(KV{"a", vint(3)}),
		// control characters without a short escape, different ones, in values and keys: serialising them concurrently must not interfere
		vstr("\x01\x02\x1f"), vstr("\x07\x0b"), vobj(KV{"k\x03", vstr("\x04\x05\x06")}, KV{"\x0e", vlist(vstr("\x0f\x10\x11"))}), vfloat(1e21), vfloat(-0.000001))
	l := t.toList()
	holder := at.NewObject("l", l, "n", 1)
	type op struct {
		name string
		f    func() string
	}
	ops := []op{
		{"walk", func() string { return canon(l) }},
		// (the text itself varies with the map iteration order of nested objects: what it denotes, with members sorted, does not)
		{"String", func() string { return denoted(l.String()) }},
		{"holder.String", func() string { return denoted(holder.String()) }},
		{"Clone.String", func() string { return denoted(l.Clone().String()) }},
		{"FormatString(3)", func() string { return denoted(l.FormatString(3)) }},
		{"Clone", func() string { return canon(l.Clone()) }},
		{"Equals", func() string { return fmt.Sprint(l.Equals(l)) }},
		{"SubList", func() string { return canon(l.SubList(0, l.Count())) }},
		{"Concat", func() string { return canon(l.Concat(l)) }},
		{"Filter", func() string { return canon(l.Filter(func(x any) bool { return x != nil })) }},
		{"Get", func() string { return canon(at.NewList(l.Get(l.Count() - 1))) }},
		{"GetTF", func() string { return fmt.Sprint(holder.TypeOfTF(".l#0"), holder.GetTF(".n")) }},
		{"IntSum", func() string { return fmt.Sprint(l.IntSum(), l.Count(), l.Contains(1), l.IndexOf("x")) }},
		{"NativeSlice", func() string { return fromNative(l.NativeSlice()).canon() }},
		{"Keys", func() string { return fmt.Sprint(holder.Keys().Count(), holder.Count(), holder.KeyExists("l")) }},
		{"FormatString", func() string { return fmt.Sprint(len(l.FormatString(2)) > 0) }},
	}
	want := make([]string, len(ops))
	for i, o := range ops {
		want[i] = o.f()
	}
	before := canon(l)
	var wg sync.WaitGroup
	var bad atomic.Value
	for g := 0; g < goroutines; g++ {
		wg.Add(1)
		go func(g int) {
			defer wg.Done()
			for k := 0; k < 10; k++ {
				i := (g + k) % len(ops)
				defer func() {
					if rec := recover(); rec != nil {
						bad.Store(fmt.Sprintf("%s panicked concurrently: %v", ops[i].name, rec))
					}
				}()
				if got := ops[i].f(); got != want[i] {
					bad.Store(fmt.Sprintf("%s gave a different result when run concurrently", ops[i].name))
				}
			}
		}(g)
	}
	wg.Wait()
	if b := bad.Load(); b != nil {
		f.fail("%s", b.(string))
	}
	if canon(l) != before {
		f.fail("read-only operations modified the shared container")
	}
	// deriving operations with goroutine-specific arguments on the shared receiver (which has a growth history, hence possibly
	// spare capacity): every goroutine must get its own result, checked after the join
	results := make([]at.List, goroutines)
	subs := make([]at.List, goroutines)
	for g := 0; g < goroutines; g++ {
		wg.Add(1)
		go func(g int) {
			defer wg.Done()
			defer func() { recover() }()
			results[g] = l.Concat(at.NewList(g, -g))
			subs[g] = l.SubList(0, l.Count()).Add(g)
		}(g)
	}
	wg.Wait()
	for g := 0; g < goroutines; g++ {
		want := l.Clone().Add(g, -g)
		if results[g] == nil || canon(results[g]) != canon(want) {
			f.fail("concurrent Concat calls on one unmodified list interfered: goroutine %d did not get receiver ++ [%d,%d]", g, g, -g)
			break
		}
		if subs[g] == nil || canon(subs[g]) != canon(l.Clone().Add(g)) {
			f.fail("concurrent SubList results interfered (goroutine %d)", g)
			break
		}
	}
	if canon(l) != before {
		f.fail("concurrent deriving operations modified the shared container")
	}
	return &Case{Coq: "", Desc: map[string]any{"readers": goroutines, "ops": len(ops)}, Pred: f.pred, PredMsg: f.msg, Nontrivial: true,
		Key: fmt.Sprintf("readers/%d/%s", goroutines, before), Tags: []string{"concurrent-readers"}}
}

// async calls made from inside async callbacks (a list of lists mapped row by row, an object of objects): each call has its own
// workers and its own synchronisation, so the nested calls return; the result equals the nested sequential Map
func nestedAsyncCase(r *R, procs int) *Case {
	old := runtime.GOMAXPROCS(procs)
	defer runtime.GOMAXPROCS(old)
	f := &failer{pred: true}
	rows := 2 + r.Intn(4)
	outer := at.NewList()
	oo := at.NewObject()
	for i := 0; i < rows; i++ {
		row := at.NewList()
		ro := at.NewObject()
		for j := 0; j < 1+r.Intn(4); j++ {
			row.Add(i*10 + j)
			ro.Set(fmt.Sprintf("c%d", j), i*10+j)
		}
		outer.Add(row)
		oo.Set(fmt.Sprintf("r%d", i), ro)
	}
	done := make(chan string, 1)
	go func() {
		defer func() {
			if rec := recover(); rec != nil {
				done <- fmt.Sprintf("panic: %v", rec)
			}
		}()
		inc := func(_ int, y any) any { return y.(int) + 1 }
		got := outer.MapAsync(func(_ int, x any) any { return x.(at.List).MapAsync(inc) })
		want := outer.Map(func(_ int, x any) any { return x.(at.List).Map(inc) })
		if !got.Equals(want) {
			done <- "List.MapAsync nested in List.MapAsync differs from the nested Map"
			return
		}
		inco := func(_ string, y any) any { return y.(int) + 1 }
		goto_ := oo.MapAsync(func(_ string, x any) any { return x.(at.Object).MapAsync(inco) })
		wanto := oo.Map(func(_ string, x any) any { return x.(at.Object).Map(inco) })
		if !goto_.Equals(wanto) {
			done <- "Object.MapAsync nested in Object.MapAsync differs from the nested Map"
			return
		}
		var cnt int64
		outer.ForEachAsync(func(_ int, x any) {
			x.(at.List).ForEachAsync(func(int, any) { atomic.AddInt64(&cnt, 1) })
			oo.ForEachAsync(func(string, any) { atomic.AddInt64(&cnt, 1) })
		})
		mixed := outer.MapAsync(func(_ int, x any) any {
			n := 0
			var mu sync.Mutex
			x.(at.List).ForEachAsync(func(int, any) { mu.Lock(); n++; mu.Unlock() })
			return n
		})
		for i := 0; i < rows; i++ {
			if mixed.GetInt(i) != outer.GetList(i).Count() {
				done <- "ForEachAsync nested in MapAsync did not visit every element once"
				return
			}
		}
		done <- ""
	}()
	select {
	case msg := <-done:
		if msg != "" {
			f.fail("%s", msg)
		}
	case <-time.After(6 * time.Second):
		f.fail("an async call made from inside an async callback did not return within 6 s (GOMAXPROCS=%d): the nested calls block each other", procs)
		asyncStuck = true // the abandoned goroutines may hold whatever they block on: no further async call is made in this run
	}
	return &Case{Coq: "", Desc: map[string]any{"nested_async": rows, "GOMAXPROCS": procs}, Pred: f.pred, PredMsg: f.msg, Nontrivial: true,
		Key: fmt.Sprintf("nested-async/%d/%d", rows, procs), Tags: []string{"nested-async"}}
}

var asyncStuck bool

func genC15(r *R, n int, tier string, out *Out) {
	sizes := []int{0, 1, 2, 3, 7, 8, 9, 10, 13, 15, 16, 17, 23, 33, 63, 64, 65, 100, 129, 1025, 2050}
	if thorough {
		sizes = append(sizes, 257, 1000, 1025)
	}
	procs := []int{1, 2, 4, 16}
	for i := 0; i < n && !asyncStuck; i++ {
		if i%5 == 4 {
			out.emit(readersCase(r, 2+r.Intn(7)))
			continue
		}
		if i%23 == 11 {
			out.emit(nestedAsyncCase(r, pickOf(r, []int{1, 2, 16})))
			continue
		}
		if i%7 == 3 {
			// reverse-order completion (ForEachAsync of lists and objects), mostly on one processor
			out.emit(asyncCase(r, pickOf(r, []int{0, 2}), pickOf(r, []int{2, 3, 4, 12, 12, 70, 300, 1030}), pickOf(r, []int{1, 1, 2, 16}), 5)) // (also beyond any plausible worker-pool size)
			continue
		}
		out.emit(asyncCase(r, r.Intn(4), pickOf(r, sizes), pickOf(r, procs), r.Intn(5)))
	}
}

func init() {
	generators["C19"] = genC19
	generators["C15"] = genC15
}
