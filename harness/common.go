// Correspondence harness for DanielSvub/anytype: generates cases from one seeded PRNG, runs them on the
// implementation in /repo, evaluates the property's own predicate on the implementation, and emits each case as a
// Coq term (for the model) plus a JSON description (for evidence and replay).
package main

import (
	"bufio"
	"encoding/hex"
	"encoding/json"
	"fmt"
	"math"
	"math/bits"
	"math/rand"
	"os"
	"sort"
	"strings"

	at "github.com/DanielSvub/anytype"
)

// ---------- value trees ----------

type Kind int

const (
	KNil Kind = iota
	KBool
	KInt
	KFloat
	KStr
	KList
	KObj
)

type KV struct {
	K string
	V *V
}

type V struct {
	K Kind
	B bool
	I int
	F float64
	S string
	L []*V
	O []KV // distinct keys, in insertion order
}

func vnil() *V            { return &V{K: KNil} }
func vbool(b bool) *V     { return &V{K: KBool, B: b} }
func vint(i int) *V       { return &V{K: KInt, I: i} }
func vfloat(f float64) *V { return &V{K: KFloat, F: f} }
func vstr(s string) *V    { return &V{K: KStr, S: s} }
func vlist(l ...*V) *V    { return &V{K: KList, L: l} }
func vobj(o ...KV) *V     { return &V{K: KObj, O: o} }

// toAny builds the anytype value (fresh containers)
func (v *V) toAny() any {
	switch v.K {
	case KNil:
		return nil
	case KBool:
		return v.B
	case KInt:
		return v.I
	case KFloat:
		return v.F
	case KStr:
		return v.S
	case KList:
		l := at.NewList()
		for _, e := range v.L {
			l.Add(e.toStored())
		}
		return l
	case KObj:
		o := at.NewObject()
		for _, kv := range v.O {
			o.Set(kv.K, kv.V.toStored())
		}
		return o
	}
	panic("bad kind")
}

// toStored is toAny for a value that is about to be STORED in a container: a number that a narrower Go type holds exactly is
// handed over in that type every other time (decided by the value itself, so a replay repeats it). The container must hold the
// same int / float64 either way (C12), so nothing downstream may notice - a conversion that keeps a trace of the entry type does.
func (v *V) toStored() any {
	switch v.K {
	case KFloat:
		if f := float32(v.F); float64(f) == v.F && bits.OnesCount64(math.Float64bits(v.F))%2 == 1 {
			return f
		}
	case KInt:
		switch i := v.I; ((i % 5) + 5) % 5 {
		case 1:
			if int(int32(i)) == i {
				return int32(i)
			}
		case 2:
			if i >= 0 && i < 65536 {
				return uint16(i)
			}
		case 3:
			return int64(i)
		case 4:
			if i >= 0 {
				return uint(i)
			}
		}
	}
	return v.toAny()
}

func (v *V) toList() at.List     { return v.toAny().(at.List) }
func (v *V) toObject() at.Object { return v.toAny().(at.Object) }

// fromAny reads an anytype value back into a tree (object members sorted by key: order is never an observable)
func fromAny(x any) *V {
	switch t := x.(type) {
	case nil:
		return vnil()
	case bool:
		return vbool(t)
	case int:
		return vint(t)
	case float64:
		return vfloat(t)
	case string:
		return vstr(t)
	case at.List:
		r := &V{K: KList}
		for i := 0; i < t.Count(); i++ {
			r.L = append(r.L, fromAny(t.Get(i)))
		}
		return r
	case at.Object:
		r := &V{K: KObj}
		d := t.Dict()
		keys := make([]string, 0, len(d))
		for k := range d {
			keys = append(keys, k)
		}
		sort.Strings(keys)
		for _, k := range keys {
			r.O = append(r.O, KV{k, fromAny(d[k])})
		}
		return r
	}
	panic(fmt.Sprintf("fromAny: unexpected %T", x))
}

func fbits(f float64) uint64 { return math.Float64bits(f) }

// ---------- Coq term emitters ----------

func coqBytes(s string) string {
	if len(s) == 0 {
		return "[]"
	}
	var b strings.Builder
	b.WriteByte('[')
	for i := 0; i < len(s); i++ {
		if i > 0 {
			b.WriteByte(';')
		}
		fmt.Fprintf(&b, "x%02x", s[i])
	}
	b.WriteByte(']')
	return b.String()
}

func coqZ(i int64) string {
	if i < 0 {
		return fmt.Sprintf("(%d)", i)
	}
	return fmt.Sprintf("%d", i)
}
func coqU(u uint64) string { return fmt.Sprintf("%d", u) }
func coqBool(b bool) string {
	if b {
		return "true"
	}
	return "false"
}
func coqNat(n int) string { return fmt.Sprintf("%d%%nat", n) }

func coqList(items []string) string { return "[" + strings.Join(items, ";") + "]" }

func (v *V) coq() string {
	switch v.K {
	case KNil:
		return "VNil"
	case KBool:
		return "(VBool " + coqBool(v.B) + ")"
	case KInt:
		return "(VInt " + coqZ(int64(v.I)) + ")"
	case KFloat:
		return "(VFloat " + coqU(fbits(v.F)) + ")"
	case KStr:
		return "(VStr " + coqBytes(v.S) + ")"
	case KList:
		items := make([]string, len(v.L))
		for i, e := range v.L {
			items[i] = e.coq()
		}
		return "(VList " + coqList(items) + ")"
	case KObj:
		items := make([]string, len(v.O))
		for i, kv := range v.O {
			items[i] = "(" + coqBytes(kv.K) + "," + kv.V.coq() + ")"
		}
		return "(VObj " + coqList(items) + ")"
	}
	panic("bad kind")
}

// JSON-ish description for evidence samples
func (v *V) desc() any {
	switch v.K {
	case KNil:
		return nil
	case KBool:
		return v.B
	case KInt:
		return map[string]any{"int": fmt.Sprint(v.I)}
	case KFloat:
		return map[string]any{"float": fmt.Sprintf("%v", v.F), "bits": fmt.Sprintf("%016x", fbits(v.F))}
	case KStr:
		return map[string]any{"str_hex": hex.EncodeToString([]byte(v.S))}
	case KList:
		items := make([]any, len(v.L))
		for i, e := range v.L {
			items[i] = e.desc()
		}
		return items
	case KObj:
		items := []any{}
		for _, kv := range v.O {
			items = append(items, []any{hex.EncodeToString([]byte(kv.K)), kv.V.desc()})
		}
		return map[string]any{"obj": items}
	}
	return nil
}

// ---------- case records ----------

type Case struct {
	ID         int            `json:"id"`
	Coq        string         `json:"coq"`                // Coq term: the case for the model (inputs + implementation observables)
	Desc       any            `json:"desc"`               // readable description
	Pred       bool           `json:"pred"`               // verdict of the property predicate on the implementation
	PredMsg    string         `json:"pred_msg,omitempty"` // what failed
	Nontrivial bool           `json:"nontrivial"`         // by the property's stated rule
	Key        string         `json:"key"`                // canonical form for distinctness
	Tags       []string       `json:"tags,omitempty"`     // histogram keys
	Extra      map[string]any `json:"extra,omitempty"`
	Chk        string         `json:"chk,omitempty"` // alternative runner for this case ("xheap": a heap-level program inside another engine's stream)
}

type Out struct {
	w *bufio.Writer
	f *os.File
	n int
}

func newOut(path string) *Out {
	f, err := os.Create(path)
	if err != nil {
		panic(err)
	}
	return &Out{w: bufio.NewWriterSize(f, 1<<20), f: f}
}
func (o *Out) emit(c *Case) {
	c.ID = o.n
	o.n++
	b, err := json.Marshal(c)
	if err != nil {
		panic(err)
	}
	o.w.Write(b)
	o.w.WriteByte('\n')
	o.w.Flush() // every finished case is on disk: if the process dies inside the library, the driver knows which case was running
}
func (o *Out) close() { o.w.Flush(); o.f.Close() }

// run f, reporting whether it panicked
func try(f func()) (panicked bool) {
	defer func() {
		if r := recover(); r != nil {
			panicked = true
		}
	}()
	f()
	return false
}

func tryVal[T any](f func() T) (v T, panicked bool) {
	defer func() {
		if r := recover(); r != nil {
			panicked = true
		}
	}()
	v = f()
	return v, false
}

// ---------- random helpers ----------

type R struct{ *rand.Rand }

func newR(seed int64) *R { return &R{rand.New(rand.NewSource(seed))} }

// the thorough tier does not only run ten times the cases: about one case in seven is built LARGER (deeper trees, longer
// strings, programs, lists and documents). Its own PRNG keeps the quick tier's case stream untouched.
var thorough bool
var boostR = newR(1)

func boosted() bool { return thorough && boostR.Intn(100) < 15 }

func (r *R) pick(n int) int {
	if n <= 0 {
		return 0
	}
	return r.Intn(n)
}
func (r *R) chance(p float64) bool { return r.Float64() < p }

func pickOf[T any](r *R, xs []T) T { return xs[r.Intn(len(xs))] }

var interestingInts = []int{0, 1, -1, 2, -2, 3, 7, 10, -10, 100, 255, 256, 65535, 1 << 31, -(1 << 31), 1<<31 - 1, 1 << 32,
	999999, 1000000, 1 << 53, 1<<53 + 1, -(1<<53 + 1), math.MaxInt64, math.MinInt64, math.MaxInt64 - 1, math.MinInt64 + 1,
	math.MaxInt64 / 2, math.MinInt64 / 2, 3037000500, -3037000500, 4611686018427387904}

func (r *R) intVal() int {
	switch r.Intn(4) {
	case 0:
		return pickOf(r, interestingInts)
	case 1:
		return r.Intn(21) - 10
	case 2:
		return int(r.Int63()) * (1 - 2*r.Intn(2))
	default:
		return r.Intn(2001) - 1000
	}
}

var interestingFloats = []float64{0, math.Copysign(0, -1), 1, -1, 1.5, -1.5, 0.1, 0.5, 2, 3, 100, 123456, 999999, 1e6, 1e-6, 1.0000001e-6, 999999.9999999999,
	1e21, 1e-7, 5e-324, -5e-324, 2.2250738585072014e-308, 2.225073858507201e-308, math.MaxFloat64, -math.MaxFloat64, 1e300, 1e-300, -1e300,
	0.30000000000000004, 1.7976931348623157e308, 9007199254740993, 4503599627370496.5, 1e15, 123456789012345680, 0.000001, 0.0000011,
	float64(math.MaxInt64), float64(math.MinInt64), 3.141592653589793, 2.718281828459045, 1e5, 1e7, -1e6, -999999.5, 33.0, -7.0}

func (r *R) finiteFloat() float64 {
	switch r.Intn(6) {
	case 5:
		// values that came through a narrower type: float64(float32(x)) (24-bit mantissa, float32 exponent range), the float32
		// boundaries, and float64(int32/int64 boundary +- 1): exactly representable in the narrow type, seldom hit by chance
		switch r.Intn(4) {
		case 0:
			return float64(float32((r.Float64() - 0.5) * math.Pow(10, float64(r.Intn(60)-30))))
		case 1:
			return pickOf(r, []float64{float64(float32(0.1)), float64(float32(1) / 3), math.MaxFloat32, -math.MaxFloat32, math.SmallestNonzeroFloat32,
				float64(float32(16777217)), float64(float32(3.4e38)), float64(float32(1e-40)), float64(float32(0.7)), float64(float32(123456.789))})
		case 2:
			for { // a random finite float32 pattern
				f := math.Float32frombits(uint32(r.Uint64()))
				if f == f && !math.IsInf(float64(f), 0) {
					return float64(f)
				}
			}
		default:
			return pickOf(r, []float64{2147483647, 2147483648, -2147483648, -2147483649, 4294967295, 4294967296, 9007199254740991, 9007199254740992, 16777216, 16777217, 65535, 65536})
		}
	case 0:
		return pickOf(r, interestingFloats)
	case 1:
		return float64(r.Intn(2001) - 1000) // whole-valued
	case 2:
		for {
			f := math.Float64frombits(r.Uint64())
			if !math.IsNaN(f) && !math.IsInf(f, 0) {
				return f
			}
		}
	case 3:
		return (r.Float64() - 0.5) * math.Pow(10, float64(r.Intn(40)-20))
	default:
		return float64(r.Intn(2000001)-1000000) / 1000.0
	}
}

func (r *R) anyFloat() float64 {
	if r.chance(0.1) {
		return pickOf(r, []float64{math.Inf(1), math.Inf(-1), math.NaN()})
	}
	return r.finiteFloat()
}

// code-point classes for strings
var cpClasses = [][]rune{
	{0x00, 0x01, 0x07, 0x08, 0x09, 0x0a, 0x0b, 0x0c, 0x0d, 0x1b, 0x1f}, // C0
	{0x7f}, // DEL
	{'"'}, {'\\'}, {'/'},
	{0x80, 0x85, 0x9f, 0xa0, 0xad}, // C1 and friends
	{0x2028, 0x2029},
	{0xfffd},
	{0xd7ff, 0xe000, 0xfffe, 0xffff},      // surrogate-adjacent, noncharacters
	{0x10000, 0x1f600, 0x10ffff, 0xe0001}, // astral
	{0x10a, 0x20a, 0x200a, 0x4e0a, 0x10d, 0x122, 0x15c, 0x12c, 0x13a, 0x15b, 0x15d, 0x17b, 0x17d, 0x120, 0x109, 0x2022, 0x205c, 0x1005c, 0x1000a}, // low byte (or low 16 bits) is a structural ASCII character
	{0x0b, 0x0c, 0x85, 0xa0, 0x1680, 0x2000, 0x2003, 0x2028, 0x2029, 0x202f, 0x205f, 0x3000, 0xfeff, 0x200b},                                      // unicode.IsSpace beyond JSON's four (and two look-alikes that are not)
	{0x378, 0x30000, 0xeffff}, // unassigned
	{0xad, 0x600, 0x61c, 0x200b, 0x200e, 0x202a, 0x202e, 0x2060, 0x2066, 0xfeff, 0xfff9, 0x110bd, 0x1bca0, 0x1d173, 0xe0020, 0xe007f, 0x13430}, // format characters (Cf), BMP and astral
	{0x301, 0x20dd, 0x1d165, 0xe0100, 0xf0000, 0x10fffd, 0xe000, 0x1f1ec, 0x1f3f4},                                                        // combining marks, variation selectors, private use, flag bases
	{'a', 'b', 'z', 'A', '0', '9', ' ', '.', '#', ':', ',', '[', ']', '{', '}', 'é', 'ß', '中', 'u', 'n', 't', '%', 's', 'd', 'v', '<', '>', '&', '\'', '`'},
}

func (r *R) rune_() rune {
	if r.chance(0.45) {
		return pickOf(r, cpClasses[len(cpClasses)-1])
	}
	if r.chance(0.08) {
		for {
			c := rune(r.Intn(0x110000))
			if c < 0xd800 || c > 0xdfff {
				return c
			}
		}
	}
	return pickOf(r, cpClasses[r.Intn(len(cpClasses))])
}

// strings that look like something else: the spellings of non-string values and of placeholders an implementation might use internally
var sentinelStrings = []string{"NaN", "+Inf", "-Inf", "Inf", "Infinity", "null", "nil", "<nil>", "true", "false", "undefined", "0", "-0", "1e5", "[]", "{}", "[NaN]", ",NaN", "\"\"", "\\u0000", "\x00", "%s", "%!s(MISSING)", ",}", ",]", "\",\"", "}", "]", "{\"a\":1}", "[1,2]", ":", "\":", ",", "\\\"", "\"}", "\\/", "a\\/b", "\\\\/", "/\\", "\\u002f", "\\\\u0041", "\\n", "\\\\"}

func (r *R) str() string {
	if r.chance(0.04) {
		return pickOf(r, sentinelStrings)
	}
	n := 0
	switch r.Intn(6) {
	case 0:
		n = 0
	case 1:
		n = 1
	default:
		n = r.Intn(8)
	}
	if thorough && boostR.Intn(100) < 3 {
		n = 8 + boostR.Intn(60)
	}
	var b strings.Builder
	for i := 0; i < n; i++ {
		b.WriteRune(r.rune_())
	}
	return b.String()
}

var keyPool = []string{"", "a", "b", "c", "a.b", "#0", ".x", "\"q\"", "é", "k1", "k2", "x y", "#", ".", "0", "1", "a#1", "\\", "\n", "100%", "%s", "%%d", "%!v", "a\tb", "\r"}

func (r *R) key() string {
	if r.chance(0.7) {
		return pickOf(r, keyPool)
	}
	return r.str()
}

// random tree. depth = remaining depth; width = max children
type TreeOpts struct {
	Depth, Width int
	Floats       func(*R) float64
	Str          func(*R) string
	Key          func(*R) string
	Stress       bool // now and then a shape of stressTree instead of a random tree
	LightBig     bool // bigTrees: fewer and smaller shapes
}

func (r *R) scalar(o *TreeOpts) *V {
	switch r.Intn(6) {
	case 0:
		return vnil()
	case 1:
		return vbool(r.Intn(2) == 0)
	case 2:
		return vint(r.intVal())
	case 3:
		return vfloat(o.Floats(r))
	default:
		return vstr(o.Str(r))
	}
}

func (r *R) tree(o *TreeOpts, depth int) *V {
	if depth <= 0 || r.chance(0.55) {
		return r.scalar(o)
	}
	n := r.Intn(o.Width + 1)
	if r.chance(0.5) {
		l := &V{K: KList}
		for i := 0; i < n; i++ {
			l.L = append(l.L, r.tree(o, depth-1))
		}
		return l
	}
	ob := &V{K: KObj}
	seen := map[string]bool{}
	for i := 0; i < n; i++ {
		k := o.Key(r)
		if seen[k] {
			continue
		}
		seen[k] = true
		ob.O = append(ob.O, KV{k, r.tree(o, depth-1)})
	}
	return ob
}

// in the thorough tier some trees are built deeper and wider
func (o *TreeOpts) sized() *TreeOpts {
	if boosted() {
		c := *o
		c.Depth += 2
		c.Width += 3
		return &c
	}
	return o
}

// shapes at the sizes where implementations typically switch strategy (8, 16, 32, 64, 128, 256, 1024): deep chains,
// long lists with containers in the tail, wide objects, long strings
var stressSizes = []int{9, 15, 16, 17, 31, 33, 64, 65, 127, 128, 129, 130, 131, 255, 257}

// the next tier (1024, 4096): used sparingly, the model evaluates these in tens of milliseconds, not microseconds
var bigSizes = []int{1023, 1025, 1030, 1500, 4097, 4101, 4102}

func (r *R) stressSize() int {
	if r.chance(0.12) {
		return pickOf(r, bigSizes)
	}
	return pickOf(r, stressSizes)
}

func (r *R) stressTree(o *TreeOpts, wantObj bool) *V {
	var v *V
	switch r.Intn(4) {
	case 0: // deep chain, list and object levels mixed, a few siblings on the way
		d := pickOf(r, []int{17, 33, 34, 40, 65, 100, 129})
		v = r.scalar(o)
		for i := 0; i < d; i++ {
			if r.chance(0.5) {
				l := vlist(v)
				if r.chance(0.2) {
					l.L = append(l.L, r.scalar(o))
				}
				v = l
			} else {
				ob := vobj(KV{pickOf(r, []string{"a", "k", "", "x y"}), v})
				if r.chance(0.2) {
					ob.O = append(ob.O, KV{"sib", r.scalar(o)})
				}
				v = ob
			}
		}
	case 1: // long list, containers sprinkled in, always some in the last three positions
		n := r.stressSize()
		l := &V{K: KList}
		sprinkle := 0.06
		if n > 300 {
			sprinkle = 0.004
		}
		for i := 0; i < n; i++ {
			if r.chance(sprinkle) || (i >= n-3 && r.chance(0.6)) {
				l.L = append(l.L, r.tree(o, 2))
			} else {
				l.L = append(l.L, r.scalar(o))
			}
		}
		v = l
	case 2: // wide object
		n := pickOf(r, stressSizes)
		ob := &V{K: KObj}
		for i := 0; i < n; i++ {
			if i >= n-2 && r.chance(0.5) {
				ob.O = append(ob.O, KV{fmt.Sprintf("k%d", i), r.tree(o, 2)})
			} else {
				ob.O = append(ob.O, KV{fmt.Sprintf("k%d", i), r.scalar(o)})
			}
		}
		v = ob
	default: // long strings as value and key
		n := pickOf(r, []int{17, 33, 64, 65, 129, 257, 1025})
		var b strings.Builder
		for i := 0; i < n; i++ {
			if r.chance(0.9) {
				b.WriteByte(byte('a' + i%26))
			} else {
				b.WriteString(o.Str(r))
			}
		}
		s := b.String()
		v = vlist(vstr(s), vobj(KV{s, vstr(s)}))
	}
	if wantObj && v.K != KObj {
		return vobj(KV{"root", v})
	}
	if !wantObj && v.K != KList {
		return vlist(v)
	}
	return v
}

// bigTrees: a fixed handful of large shapes that every run of a tree-based property starts with (lists of 1025/1030/1500 elements
// with containers in the tail, objects of 257/1025 members, a chain 129 deep, a 4101-element list of small scalars)
func (r *R) bigTrees(o *TreeOpts) []*V {
	var res []*V
	sizes := []int{1025, 1030, 1500, 4101}
	if o.LightBig { // the JSON engine's model costs milliseconds per element: two sizes are enough there
		sizes = []int{1025, 1500}
	}
	for _, n := range sizes {
		l := &V{K: KList}
		for i := 0; i < n; i++ {
			switch {
			case i >= n-3 && i%2 == 0:
				l.L = append(l.L, vlist(vint(i), vstr("t")))
			case i == n-2:
				l.L = append(l.L, vobj(KV{"k", vint(i)}))
			case n > 4000:
				l.L = append(l.L, vint(i%97))
			default:
				l.L = append(l.L, r.scalar(o))
			}
		}
		res = append(res, l)
	}
	for _, n := range []int{257, 1025} {
		ob := &V{K: KObj}
		for i := 0; i < n; i++ {
			if i >= n-2 {
				ob.O = append(ob.O, KV{fmt.Sprintf("k%04d", i), vlist(vint(i))})
			} else {
				ob.O = append(ob.O, KV{fmt.Sprintf("k%04d", i), r.scalar(o)})
			}
		}
		res = append(res, ob)
	}
	v := r.scalar(o)
	for i := 0; i < 129; i++ {
		if i%2 == 0 {
			v = vlist(v)
		} else {
			v = vobj(KV{"a", v})
		}
	}
	res = append(res, v, vobj(KV{"root", v}))
	return res
}

// stressShare: how often a generated container is one of the stress shapes
var stressShare = 0.025

func (r *R) listTree(o *TreeOpts) *V {
	if o.Stress && r.chance(stressShare) {
		return r.stressTree(o, false)
	}
	o = o.sized()
	n := r.Intn(o.Width + 1)
	l := &V{K: KList}
	for i := 0; i < n; i++ {
		l.L = append(l.L, r.tree(o, o.Depth-1))
	}
	return l
}

// pairs of keys of which one is the JSON-escaped (or otherwise "encoded") spelling of the other: distinct keys that a comparison on
// the wrong side of a decoding step would confuse
var keyTwins = [][2]string{{"\\n", "\n"}, {"a\\\"b", "a\"b"}, {"\\\\", "\\"}, {"\\u0041", "A"}, {"\\/", "/"}, {"\\t", "\t"}, {"%41", "A"}, {"a\\", "a"}, {"k ", "k"}}

func (r *R) objTree(o *TreeOpts) *V {
	if o.Stress && r.chance(stressShare) {
		return r.stressTree(o, true)
	}
	o = o.sized()
	n := r.Intn(o.Width + 1)
	ob := &V{K: KObj}
	seen := map[string]bool{}
	for i := 0; i < n; i++ {
		k := o.Key(r)
		if seen[k] {
			continue
		}
		seen[k] = true
		ob.O = append(ob.O, KV{k, r.tree(o, o.Depth-1)})
	}
	if r.chance(0.05) {
		tw := pickOf(r, keyTwins)
		for _, k := range tw {
			if !seen[k] {
				seen[k] = true
				ob.O = append(ob.O, KV{k, r.scalar(o)})
			}
		}
	}
	return ob
}

func defaultOpts() *TreeOpts {
	return &TreeOpts{Depth: 4, Width: 5, Floats: (*R).finiteFloat, Str: (*R).str, Key: (*R).key}
}

func keyOf(x any) string {
	b, _ := json.Marshal(x)
	return string(b)
}

// canonical rendering of a tree (object members sorted by key, floats by bit pattern): used for before/after comparisons
func (v *V) canon() string {
	var b strings.Builder
	v.canonTo(&b)
	return b.String()
}
func (v *V) canonTo(b *strings.Builder) {
	switch v.K {
	case KNil:
		b.WriteString("n")
	case KBool:
		if v.B {
			b.WriteString("T")
		} else {
			b.WriteString("F")
		}
	case KInt:
		fmt.Fprintf(b, "i%d", v.I)
	case KFloat:
		fmt.Fprintf(b, "f%016x", fbits(v.F))
	case KStr:
		fmt.Fprintf(b, "s%q", v.S)
	case KList:
		b.WriteString("[")
		for _, e := range v.L {
			e.canonTo(b)
			b.WriteString(",")
		}
		b.WriteString("]")
	case KObj:
		kvs := append([]KV(nil), v.O...)
		sort.Slice(kvs, func(i, j int) bool { return kvs[i].K < kvs[j].K })
		b.WriteString("{")
		for _, kv := range kvs {
			fmt.Fprintf(b, "%q:", kv.K)
			kv.V.canonTo(b)
			b.WriteString(",")
		}
		b.WriteString("}")
	}
}
func canon(x any) string { return fromAny(x).canon() }
