package main

// Heap engine: random programs over several live containers, executed on the implementation; after every step the
// outcome and a canonical hash of everything reachable from the variables are recorded. The same program is run by the
// Coq model (Heap.v: step / canon_env).

import (
	"time"
	"fmt"
	"math"
	"math/bits"
	"sort"
	"strings"

	at "github.com/DanielSvub/anytype"
)

// ---------- canonical hash (mirrors Heap.v: hmix / canon_val / canon_env) ----------

const hmod = uint64(2305843009213693951) // 2^61-1
const hmul = uint64(1099511628211)

func hmixU(h, z uint64) uint64 {
	hi, lo := bits.Mul64(h, hmul)
	add := z%hmod + 1
	lo2, c := bits.Add64(lo, add, 0)
	hi += c
	_, rem := bits.Div64(hi, lo2, hmod)
	return rem
}
func hmixI(h uint64, z int64) uint64 {
	m := z % int64(hmod)
	if m < 0 {
		m += int64(hmod)
	}
	return hmixU(h, uint64(m))
}
func hmixBytes(h uint64, s string) uint64 {
	h = hmixU(h, uint64(len(s)))
	for i := 0; i < len(s); i++ {
		h = hmixU(h, uint64(s[i]))
	}
	return h
}

type canonState struct {
	h    uint64
	seen []any
	txt  *strings.Builder // readable rendering for replays (optional)
}

func (c *canonState) pos(x any) int {
	for i, s := range c.seen {
		if s == x {
			return i
		}
	}
	return -1
}

func (c *canonState) val(x any) {
	w := func(f string, a ...any) {
		if c.txt != nil {
			fmt.Fprintf(c.txt, f, a...)
		}
	}
	switch t := x.(type) {
	case nil:
		c.h = hmixU(c.h, 1)
		w("nil")
	case bool:
		c.h = hmixU(c.h, 2)
		if t {
			c.h = hmixU(c.h, 1)
		} else {
			c.h = hmixU(c.h, 0)
		}
		w("%v", t)
	case int:
		c.h = hmixU(c.h, 3)
		c.h = hmixI(c.h, int64(t))
		w("%d", t)
	case float64:
		c.h = hmixU(c.h, 4)
		if math.IsNaN(t) {
			c.h = hmixU(c.h, 1)
		} else {
			c.h = hmixU(c.h, math.Float64bits(t))
		}
		w("%vf", t)
	case string:
		c.h = hmixU(c.h, 5)
		c.h = hmixBytes(c.h, t)
		w("%q", t)
	case at.List:
		if p := c.pos(t); p >= 0 {
			c.h = hmixU(hmixU(c.h, 8), uint64(p))
			w("^%d", p)
			return
		}
		n := t.Count()
		c.h = hmixU(hmixU(hmixU(c.h, 6), uint64(len(c.seen))), uint64(n))
		w("L%d[", len(c.seen))
		c.seen = append(c.seen, t)
		for i := 0; i < n; i++ {
			if i > 0 {
				w(",")
			}
			c.val(t.Get(i))
		}
		w("]")
	case at.Object:
		if p := c.pos(t); p >= 0 {
			c.h = hmixU(hmixU(c.h, 8), uint64(p))
			w("^%d", p)
			return
		}
		d := t.Dict()
		keys := make([]string, 0, len(d))
		for k := range d {
			keys = append(keys, k)
		}
		sort.Strings(keys)
		c.h = hmixU(hmixU(hmixU(c.h, 7), uint64(len(c.seen))), uint64(len(keys)))
		w("O%d{", len(c.seen))
		c.seen = append(c.seen, t)
		for i, k := range keys {
			if i > 0 {
				w(",")
			}
			c.h = hmixBytes(c.h, k)
			w("%q:", k)
			c.val(d[k])
		}
		w("}")
	default:
		panic(fmt.Sprintf("canon: unexpected %T", x))
	}
}

func canonEnv(vars []any, txt *strings.Builder) uint64 {
	c := &canonState{h: hmixU(0, uint64(len(vars))), txt: txt}
	for i, v := range vars {
		if txt != nil {
			if i > 0 {
				txt.WriteString(" ; ")
			}
			fmt.Fprintf(txt, "v%d=", i)
		}
		c.val(v)
	}
	return c.h
}

// containers reachable from x (including x)
func reach(x any, acc map[any]bool) {
	switch t := x.(type) {
	case at.List:
		if acc[t] {
			return
		}
		acc[t] = true
		for i := 0; i < t.Count(); i++ {
			reach(t.Get(i), acc)
		}
	case at.Object:
		if acc[t] {
			return
		}
		acc[t] = true
		for _, v := range t.Dict() {
			reach(v, acc)
		}
	}
}

// ---------- operands and ops ----------

type Operand struct {
	IsReg bool
	Reg   int
	V     *V // scalar literal
}

func (o Operand) coq() string {
	if o.IsReg {
		return fmt.Sprintf("(Reg %d)", o.Reg)
	}
	return "(Lit " + hvalCoq(o.V) + ")"
}
func (o Operand) String() string {
	if o.IsReg {
		return fmt.Sprintf("v%d", o.Reg)
	}
	return o.V.canon()
}

func hvalCoq(v *V) string {
	switch v.K {
	case KNil:
		return "HNil"
	case KBool:
		return "(HBool " + coqBool(v.B) + ")"
	case KInt:
		return "(HInt " + coqZ(int64(v.I)) + ")"
	case KFloat:
		return "(HFloat " + coqU(fbits(v.F)) + ")"
	case KStr:
		return "(HStr " + coqBytes(v.S) + ")"
	}
	panic("hvalCoq: container literal")
}

func kindCoq(k at.Type) string {
	return [...]string{"KUndefined", "KNil", "KObject", "KList", "KString", "KBool", "KInt", "KFloat"}[k]
}

type Op struct {
	Name   string
	R, A   int
	I, S   int64
	E      int64
	Idxs   []int64
	Vals   []Operand
	Keys   []string
	K      string
	Kind   at.Type
	TF     string
	Order  []string
	Answer *string
	// extended operations (heapext.go)
	Pred  string
	PKind at.Type
	Mapf  string
	Agg   string
	Src   []*NSrc
	SrcKV []NKV
	Typed bool
	Bad   any // the unsupported value of a ...Bad operation
	Derived bool // NewList / NewObject: the container is a derived structure (a user type embedding List / Object, registered with Init); the model does not distinguish
}

func coqZs(zs []int64) string {
	s := make([]string, len(zs))
	for i, z := range zs {
		s[i] = coqZ(z)
	}
	return coqList(s)
}
func coqOperands(os []Operand) string {
	s := make([]string, len(os))
	for i, o := range os {
		s[i] = o.coq()
	}
	return coqList(s)
}
func coqKeys(ks []string) string {
	s := make([]string, len(ks))
	for i, k := range ks {
		s[i] = coqBytes(k)
	}
	return coqList(s)
}

// A value of an unsupported Go type is not expressible as an operand of the model. An insertion that is REJECTED (parseVal panics
// before anything is stored) has, in the model, the effect of an operation that panics without touching the state; that is what is
// emitted for the "...Bad" operations (the readable program line shows the real call).
var badValues = []any{struct{}{}, struct{ X int }{1}, make(chan int), [2]int{1, 2}, []int8{1}, map[int]any{1: 2}, complex(1, 2), new(int), func() {}, uintptr(3)}

func (o *Op) coq() string {
	switch o.Name {
	case "LAddBad", "LInsertBad", "LReplaceBad":
		return fmt.Sprintf("(Base (LGet %d (-1)))", o.R)
	case "OSetBad":
		return fmt.Sprintf("(Base (OGet %d %s))", o.R, coqBytes("\x00\x00no-such-key"))
	case "NewListBad", "NewObjectBad":
		return "(Base (NewListOf (Lit HNil) (-1)))"
	case "LCallbackPanics":
		// a view whose callback panics part-way (the caller recovers): nothing was stored anywhere, the call "panics without effect"
		return fmt.Sprintf("(Base (LGet %d (-1)))", o.R)
	}
	if isXOp(o.Name) {
		return o.xcoq()
	}
	return "(Base " + o.coqBase() + ")"
}

func (o *Op) coqBase() string {
	switch o.Name {
	case "NewList":
		return "(NewList " + coqOperands(o.Vals) + ")"
	case "NewListOf":
		return fmt.Sprintf("(NewListOf %s %s)", o.Vals[0].coq(), coqZ(o.I))
	case "NewObject":
		return "(NewObject " + coqOperands(o.Vals) + ")"
	case "LAdd":
		return fmt.Sprintf("(LAdd %d %s)", o.R, coqOperands(o.Vals))
	case "LInsert":
		return fmt.Sprintf("(LInsert %d %s %s)", o.R, coqZ(o.I), o.Vals[0].coq())
	case "LReplace":
		return fmt.Sprintf("(LReplace %d %s %s)", o.R, coqZ(o.I), o.Vals[0].coq())
	case "LDelete":
		return fmt.Sprintf("(LDelete %d %s)", o.R, coqZs(o.Idxs))
	case "LPop", "LClear", "LReverse", "LSort", "LCount", "LEmpty", "LSlice", "OClear", "OCount", "OEmpty", "ODict", "Clone":
		return fmt.Sprintf("(%s %d)", o.Name, o.R)
	case "ParseBack":
		// ParseList(l.String()) / ParseObject(o.String()): by the round-trip theorem (C01) the result reads as the same tree, and a
		// parser allocates everything it returns - in the model that is exactly what Clone builds
		return fmt.Sprintf("(Clone %d)", o.R)
	case "LSubList":
		return fmt.Sprintf("(LSubList %d %s %s)", o.R, coqZ(o.S), coqZ(o.E))
	case "LConcat", "OMerge", "Equals":
		return fmt.Sprintf("(%s %d %d)", o.Name, o.R, o.A)
	case "LGet", "LTypeOf":
		return fmt.Sprintf("(%s %d %s)", o.Name, o.R, coqZ(o.I))
	case "LGetTyped":
		return fmt.Sprintf("(LGetTyped %s %d %s)", kindCoq(o.Kind), o.R, coqZ(o.I))
	case "LContains", "LIndexOf", "OContains":
		return fmt.Sprintf("(%s %d %s)", o.Name, o.R, o.Vals[0].coq())
	case "OSet":
		return fmt.Sprintf("(OSet %d %s)", o.R, coqOperands(o.Vals))
	case "OUnset", "OPluck":
		return fmt.Sprintf("(%s %d %s)", o.Name, o.R, coqKeys(o.Keys))
	case "OGet", "OTypeOf", "OKeyExists":
		return fmt.Sprintf("(%s %d %s)", o.Name, o.R, coqBytes(o.K))
	case "OGetTyped":
		return fmt.Sprintf("(OGetTyped %s %d %s)", kindCoq(o.Kind), o.R, coqBytes(o.K))
	case "OKeys", "OValues":
		return fmt.Sprintf("(%s %d %s)", o.Name, o.R, coqKeys(o.Order))
	case "OKeyOf":
		ans := "None"
		if o.Answer != nil {
			ans = "(Some " + coqBytes(*o.Answer) + ")"
		}
		return fmt.Sprintf("(OKeyOf %d %s %s)", o.R, o.Vals[0].coq(), ans)
	case "GetTF", "UnsetTF", "TypeOfTF":
		return fmt.Sprintf("(%s %d %s)", o.Name, o.R, coqBytes(o.TF))
	case "SetTF":
		return fmt.Sprintf("(SetTF %d %s %s)", o.R, coqBytes(o.TF), o.Vals[0].coq())
	}
	panic("coq: unknown op " + o.Name)
}

func (o *Op) String() string {
	switch o.Name {
	case "LAddBad":
		return fmt.Sprintf("Add v%d (a value of type %T)", o.R, o.Bad)
	case "LInsertBad", "LReplaceBad":
		return fmt.Sprintf("%s v%d [%d] (a value of type %T)", strings.TrimSuffix(o.Name[1:], "Bad"), o.R, o.I, o.Bad)
	case "OSetBad":
		return fmt.Sprintf("Set v%d %q (a value of type %T)", o.R, o.K, o.Bad)
	case "NewListBad", "NewObjectBad":
		return fmt.Sprintf("%s(a value of type %T)", strings.TrimSuffix(o.Name, "Bad"), o.Bad)
	case "LCallbackPanics":
		return fmt.Sprintf("%s v%d with a callback that panics at its call #%d (recovered)", []string{"ForEach", "ForEachValue", "Map", "MapValues", "Filter", "Reduce"}[o.S], o.R, o.I)
	}
	if isXOp(o.Name) {
		return o.xString()
	}
	var b strings.Builder
	fmt.Fprintf(&b, "%s", o.Name)
	switch o.Name {
	case "NewList", "NewObject":
		fmt.Fprintf(&b, "(%v)", o.Vals)
		if o.Derived {
			b.WriteString(" as a derived structure")
		}
	case "NewListOf":
		fmt.Fprintf(&b, "(%v,%d)", o.Vals[0], o.I)
	case "LAdd", "OSet":
		fmt.Fprintf(&b, " v%d %v", o.R, o.Vals)
	case "LInsert", "LReplace":
		fmt.Fprintf(&b, " v%d [%d] %v", o.R, o.I, o.Vals[0])
	case "LDelete":
		fmt.Fprintf(&b, " v%d %v", o.R, o.Idxs)
	case "LSubList":
		fmt.Fprintf(&b, " v%d %d %d", o.R, o.S, o.E)
	case "LConcat", "OMerge", "Equals":
		fmt.Fprintf(&b, " v%d v%d", o.R, o.A)
	case "LGet", "LTypeOf":
		fmt.Fprintf(&b, " v%d [%d]", o.R, o.I)
	case "LGetTyped":
		fmt.Fprintf(&b, "<%s> v%d [%d]", kindCoq(o.Kind), o.R, o.I)
	case "LContains", "LIndexOf", "OContains":
		fmt.Fprintf(&b, " v%d %v", o.R, o.Vals[0])
	case "OUnset", "OPluck":
		fmt.Fprintf(&b, " v%d %q", o.R, o.Keys)
	case "OGet", "OTypeOf", "OKeyExists":
		fmt.Fprintf(&b, " v%d %q", o.R, o.K)
	case "OGetTyped":
		fmt.Fprintf(&b, "<%s> v%d %q", kindCoq(o.Kind), o.R, o.K)
	case "OKeys", "OValues":
		fmt.Fprintf(&b, " v%d order=%q", o.R, o.Order)
	case "OKeyOf":
		fmt.Fprintf(&b, " v%d %v", o.R, o.Vals[0])
	case "GetTF", "UnsetTF", "TypeOfTF":
		fmt.Fprintf(&b, " v%d %q", o.R, o.TF)
	case "SetTF":
		fmt.Fprintf(&b, " v%d %q %v", o.R, o.TF, o.Vals[0])
	default:
		fmt.Fprintf(&b, " v%d", o.R)
	}
	return b.String()
}

// ---------- machine ----------

type Machine struct {
	vars    []any
	pred    bool
	predMsg string
	held    []heldResult // Go values handed out earlier (slices, maps, strings): they must stay what they were
	hung    bool // an operation did not return: the abandoned goroutine may still touch the containers, nothing further is executed
}

func (m *Machine) fail(f string, a ...any) {
	if m.pred {
		m.pred = false
		m.predMsg = fmt.Sprintf(f, a...)
	}
}

func (m *Machine) operand(o Operand) any {
	if o.IsReg {
		return m.vars[o.Reg]
	}
	return o.V.toAny()
}
func (m *Machine) operands(os []Operand) []any {
	r := make([]any, len(os))
	for i, o := range os {
		r[i] = m.operand(o)
	}
	return r
}

// operands that are about to be stored: literals go through toStored (narrower numeric Go types every other time)
func (m *Machine) stored(o Operand) any {
	if o.IsReg {
		return m.vars[o.Reg]
	}
	return o.V.toStored()
}
func (m *Machine) storeds(os []Operand) []any {
	r := make([]any, len(os))
	for i, o := range os {
		r[i] = m.stored(o)
	}
	return r
}
func (m *Machine) list(r int) at.List     { return m.vars[r].(at.List) }
func (m *Machine) object(r int) at.Object { return m.vars[r].(at.Object) }

func outHval(x any) string {
	switch t := x.(type) {
	case at.List:
		return "(OV (HL 0))"
	case at.Object:
		return "(OV (HO 0))"
	default:
		_ = t
		return "(OV " + hvalCoq(fromAny(x)) + ")"
	}
}
func hvalAnyCoq(x any) string {
	switch x.(type) {
	case at.List:
		return "(HL 0)"
	case at.Object:
		return "(HO 0)"
	}
	return hvalCoq(fromAny(x))
}

// exec runs one op on the implementation. Returns the outcome as a Coq term ("Pan" or "(Ret ...)").
// Containers returned become new variables.
// exec runs one op under a watchdog: an operation that does not return within the limit is reported as a failure (the
// goroutine is abandoned and the program stops there)
func (m *Machine) exec(o *Op) (outcome string) {
	if m.hung {
		return "(Ret ONone)"
	}
	ch := make(chan string, 1)
	go func() { ch <- m.execNow(o) }()
	select {
	case oc := <-ch:
		return oc
	case <-time.After(opLimit):
		m.hung = true
		m.fail("%s did not return within %v", o.String(), opLimit)
		return "(Ret ONone)"
	}
}

var opLimit = 8 * time.Second

func (m *Machine) execNow(o *Op) (outcome string) {
	var result any
	hasResult := false
	out := "ONone"
	xout := ""
	panicked := try(func() {
		fluentL := func(l at.List, ret at.List) {
			if ret != l {
				m.fail("%s did not return its receiver", o.Name)
			}
		}
		fluentO := func(ob at.Object, ret at.Object) {
			if ret != ob {
				m.fail("%s did not return its receiver", o.Name)
			}
		}
		switch o.Name {
		case "NewList":
			if o.Derived {
				result, hasResult = newMyList(m.storeds(o.Vals)...), true
			} else {
				result, hasResult = at.NewList(m.storeds(o.Vals)...), true
			}
		case "NewListOf":
			result, hasResult = at.NewListOf(m.stored(o.Vals[0]), int(o.I)), true
		case "NewObject":
			if o.Derived {
				result, hasResult = newMyObj(m.storeds(o.Vals)...), true
			} else {
				result, hasResult = at.NewObject(m.storeds(o.Vals)...), true
			}
		case "LAdd":
			l := m.list(o.R)
			fluentL(l, l.Add(m.storeds(o.Vals)...))
		case "LInsert":
			l := m.list(o.R)
			fluentL(l, l.Insert(int(o.I), m.stored(o.Vals[0])))
		case "LReplace":
			l := m.list(o.R)
			fluentL(l, l.Replace(int(o.I), m.stored(o.Vals[0])))
		case "LDelete":
			l := m.list(o.R)
			idx := make([]int, len(o.Idxs))
			for i, z := range o.Idxs {
				idx[i] = int(z)
			}
			fluentL(l, l.Delete(idx...))
		case "LPop":
			l := m.list(o.R)
			fluentL(l, l.Pop())
		case "LClear":
			l := m.list(o.R)
			fluentL(l, l.Clear())
		case "LReverse":
			l := m.list(o.R)
			fluentL(l, l.Reverse())
		case "LSort":
			l := m.list(o.R)
			fluentL(l, l.Sort())
		case "LSubList":
			result, hasResult = m.list(o.R).SubList(int(o.S), int(o.E)), true
		case "LConcat":
			result, hasResult = m.list(o.R).Concat(m.list(o.A)), true
		case "LCount":
			out = "(OZ " + coqZ(int64(m.list(o.R).Count())) + ")"
		case "LEmpty":
			out = "(OB " + coqBool(m.list(o.R).Empty()) + ")"
		case "LGet":
			result, hasResult = m.list(o.R).Get(int(o.I)), true
		case "LGetTyped":
			l := m.list(o.R)
			switch o.Kind {
			case at.TypeObject:
				result = l.GetObject(int(o.I))
			case at.TypeList:
				result = l.GetList(int(o.I))
			case at.TypeString:
				result = l.GetString(int(o.I))
			case at.TypeBool:
				result = l.GetBool(int(o.I))
			case at.TypeInt:
				result = l.GetInt(int(o.I))
			case at.TypeFloat:
				result = l.GetFloat(int(o.I))
			}
			hasResult = true
		case "LTypeOf":
			out = "(OKind " + kindCoq(m.list(o.R).TypeOf(int(o.I))) + ")"
		case "LSlice":
			l := m.list(o.R)
			sl := l.Slice()
			m.hold("Slice", sl)
			items := make([]string, len(sl))
			for i, x := range sl {
				items[i] = hvalAnyCoq(x)
				if c, ok := x.(at.List); ok && c != l.Get(i) {
					m.fail("Slice()[%d] is not the stored container", i)
				}
				if c, ok := x.(at.Object); ok && c != l.Get(i) {
					m.fail("Slice()[%d] is not the stored container", i)
				}
			}
			out = "(OVs " + coqList(items) + ")"
		case "LContains":
			out = "(OB " + coqBool(m.list(o.R).Contains(m.operand(o.Vals[0]))) + ")"
		case "LIndexOf":
			out = "(OZ " + coqZ(int64(m.list(o.R).IndexOf(m.operand(o.Vals[0])))) + ")"
		case "OSet":
			ob := m.object(o.R)
			fluentO(ob, ob.Set(m.storeds(o.Vals)...))
		case "OUnset":
			ob := m.object(o.R)
			fluentO(ob, ob.Unset(o.Keys...))
		case "OClear":
			ob := m.object(o.R)
			fluentO(ob, ob.Clear())
		case "OMerge":
			result, hasResult = m.object(o.R).Merge(m.object(o.A)), true
		case "OPluck":
			ks := append([]string(nil), o.Keys...)
			result, hasResult = m.object(o.R).Pluck(ks...), true
			if fmt.Sprint(ks) != fmt.Sprint(o.Keys) {
				m.fail("Pluck modified the key slice passed by its caller: %q became %q", o.Keys, ks)
			}
		case "OGet":
			result, hasResult = m.object(o.R).Get(o.K), true
		case "OGetTyped":
			ob := m.object(o.R)
			switch o.Kind {
			case at.TypeObject:
				result = ob.GetObject(o.K)
			case at.TypeList:
				result = ob.GetList(o.K)
			case at.TypeString:
				result = ob.GetString(o.K)
			case at.TypeBool:
				result = ob.GetBool(o.K)
			case at.TypeInt:
				result = ob.GetInt(o.K)
			case at.TypeFloat:
				result = ob.GetFloat(o.K)
			}
			hasResult = true
		case "OTypeOf":
			out = "(OKind " + kindCoq(m.object(o.R).TypeOf(o.K)) + ")"
		case "OKeyExists":
			out = "(OB " + coqBool(m.object(o.R).KeyExists(o.K)) + ")"
		case "OCount":
			out = "(OZ " + coqZ(int64(m.object(o.R).Count())) + ")"
		case "OEmpty":
			out = "(OB " + coqBool(m.object(o.R).Empty()) + ")"
		case "OKeys":
			ks := m.object(o.R).Keys()
			o.Order = nil
			for i := 0; i < ks.Count(); i++ {
				o.Order = append(o.Order, ks.GetString(i))
			}
			result, hasResult = ks, true
		case "OValues":
			// the enumeration order is recovered from the values by identity/equality against Dict()
			ob := m.object(o.R)
			vs := ob.Values()
			d := ob.Dict()
			used := map[string]bool{}
			o.Order = nil
			for i := 0; i < vs.Count(); i++ {
				x := vs.Get(i)
				keys := make([]string, 0, len(d))
				for k := range d {
					keys = append(keys, k)
				}
				sort.Strings(keys)
				for _, k := range keys {
					if !used[k] && sameAny(d[k], x) {
						used[k] = true
						o.Order = append(o.Order, k)
						break
					}
				}
			}
			result, hasResult = vs, true
		case "ODict":
			d := m.object(o.R).Dict()
			m.hold("Dict", d)
			keys := make([]string, 0, len(d))
			for k := range d {
				keys = append(keys, k)
			}
			sort.Strings(keys)
			items := make([]string, len(keys))
			for i, k := range keys {
				items[i] = "(" + coqBytes(k) + "," + hvalAnyCoq(d[k]) + ")"
			}
			out = "(OKVs " + coqList(items) + ")"
		case "OContains":
			out = "(OB " + coqBool(m.object(o.R).Contains(m.operand(o.Vals[0]))) + ")"
		case "OKeyOf":
			o.Answer = nil
			k := m.object(o.R).KeyOf(m.operand(o.Vals[0]))
			o.Answer = &k
			result, hasResult = k, true
		case "Clone":
			switch c := m.vars[o.R].(type) {
			case at.List:
				result = c.Clone()
			case at.Object:
				result = c.Clone()
			}
			hasResult = true
		case "ParseBack":
			switch c := m.vars[o.R].(type) {
			case at.List:
				txt := c.String()
				pl, err := at.ParseList(txt)
				if err != nil || pl == nil {
					m.fail("ParseList(l.String()) failed on %q: %v", txt, err)
					result = c.Clone()
					break
				}
				if !pl.Equals(c) || !c.Equals(pl) {
					m.fail("ParseList(l.String()) does not equal the list (text %q)", txt)
				}
				if p2, err2 := at.ParseList(pl.String()); err2 != nil || !p2.Equals(pl) {
					m.fail("serialising the re-parsed list and parsing again does not yield an equal list (text %q)", txt)
				}
				result = pl
			case at.Object:
				txt := c.String()
				po, err := at.ParseObject(txt)
				if err != nil || po == nil {
					m.fail("ParseObject(o.String()) failed on %q: %v", txt, err)
					result = c.Clone()
					break
				}
				if !po.Equals(c) || !c.Equals(po) {
					m.fail("ParseObject(o.String()) does not equal the object (text %q)", txt)
				}
				if p2, err2 := at.ParseObject(po.String()); err2 != nil || !p2.Equals(po) {
					m.fail("serialising the re-parsed object and parsing again does not yield an equal object (text %q)", txt)
				}
				result = po
			}
			hasResult = true
		case "Equals":
			switch c := m.vars[o.R].(type) {
			case at.List:
				out = "(OB " + coqBool(c.Equals(m.list(o.A))) + ")"
			case at.Object:
				out = "(OB " + coqBool(c.Equals(m.object(o.A))) + ")"
			}
		case "GetTF":
			switch c := m.vars[o.R].(type) {
			case at.List:
				result = c.GetTF(o.TF)
			case at.Object:
				result = c.GetTF(o.TF)
			}
			hasResult = true
		case "SetTF":
			switch c := m.vars[o.R].(type) {
			case at.List:
				fluentL(c, c.SetTF(o.TF, m.stored(o.Vals[0])))
			case at.Object:
				fluentO(c, c.SetTF(o.TF, m.stored(o.Vals[0])))
			}
		case "UnsetTF":
			switch c := m.vars[o.R].(type) {
			case at.List:
				fluentL(c, c.UnsetTF(o.TF))
			case at.Object:
				fluentO(c, c.UnsetTF(o.TF))
			}
		case "TypeOfTF":
			switch c := m.vars[o.R].(type) {
			case at.List:
				out = "(OKind " + kindCoq(c.TypeOfTF(o.TF)) + ")"
			case at.Object:
				out = "(OKind " + kindCoq(c.TypeOfTF(o.TF)) + ")"
			}
		case "LAddBad":
			m.list(o.R).Add(o.Bad)
		case "LInsertBad":
			m.list(o.R).Insert(int(o.I), o.Bad)
		case "LReplaceBad":
			m.list(o.R).Replace(int(o.I), o.Bad)
		case "OSetBad":
			m.object(o.R).Set(o.K, o.Bad)
		case "NewListBad":
			at.NewList(o.Bad)
		case "NewObjectBad":
			at.NewObject("k", o.Bad)
		case "LCallbackPanics":
			l := m.list(o.R)
			k := int(o.I)
			cnt := 0
			hit := func() {
				if cnt == k {
					panic("the callback panics")
				}
				cnt++
			}
			switch o.S {
			case 0:
				l.ForEach(func(int, any) { hit() })
			case 1:
				l.ForEachValue(func(any) { hit() })
			case 2:
				l.Map(func(_ int, x any) any { hit(); return x })
			case 3:
				l.MapValues(func(x any) any { hit(); return x })
			case 4:
				l.Filter(func(any) bool { hit(); return true })
			default:
				l.Reduce(0, func(a any, _ any) any { hit(); return a })
			}
		default:
			xout, result, hasResult = m.execX(o)
		}
	})
	if panicked {
		return "Pan"
	}
	if xout != "" {
		return "(XRet " + xout + ")"
	}
	if hasResult {
		out = outHval(result)
		switch result.(type) {
		case at.List, at.Object:
			m.vars = append(m.vars, result)
		}
	}
	return "(Ret " + out + ")"
}

func sameAny(a, b any) bool {
	fa, oka := a.(float64)
	fb, okb := b.(float64)
	if oka && okb {
		return math.Float64bits(fa) == math.Float64bits(fb) || (math.IsNaN(fa) && math.IsNaN(fb))
	}
	if oka != okb {
		return false
	}
	return a == b
}

// ---------- program generation ----------

type Prog struct {
	m      *Machine
	r      *R
	ops    []*Op
	trace  []string // Coq terms (outcome, hash)
	lines  []string // readable
	prof    string
	tags    map[string]bool
	nontrv  bool
	finding string
	broken  bool
	scalars []*V // nil: heapScalars
}

func (p *Prog) listRegs() []int {
	var rs []int
	for i, v := range p.m.vars {
		if _, ok := v.(at.List); ok {
			rs = append(rs, i)
		}
	}
	return rs
}
func (p *Prog) objRegs() []int {
	var rs []int
	for i, v := range p.m.vars {
		if _, ok := v.(at.Object); ok {
			rs = append(rs, i)
		}
	}
	return rs
}

// do executes an op, recording the trace; extra per-property predicates are evaluated around it
func (p *Prog) do(o *Op) string {
	m := p.m
	if p.broken || m.hung {
		p.broken = true
		return "(Ret ONone)" // the heap became unreadable (or an operation hung) earlier in this program: stop executing
	}
	before := canonEnv(m.vars, nil)
	nvars := len(m.vars)
	oc := m.exec(o)
	var txt strings.Builder
	var h uint64
	if try(func() { h = canonEnv(m.vars, &txt) }) {
		// the public API itself panics while the heap is being read back (e.g. a nil field inside a container)
		m.fail("after %s the containers can no longer be read through Get/Count/Dict (panic while observing the heap)", o.String())
		p.broken = true
		h = 0
	}
	// serialising is an observation: in the profiles about deriving operations and serialisation every live container is serialised
	// after every step (results discarded); nothing may change by it
	if (p.prof == "C09x" || p.prof == "C02x" || p.prof == "C16x" || p.prof == "C01x") && !p.broken && !m.hung {
		if try(func() {
			for _, v := range m.vars {
				switch c := v.(type) {
				case at.List:
					_ = c.String()
					_ = c.FormatString(1)
				case at.Object:
					_ = c.String()
					_ = c.FormatString(1)
				}
			}
		}) {
			m.fail("String()/FormatString(1) of a live container panicked after %s", o.String())
		} else if h2 := canonEnv(m.vars, nil); h2 != h {
			m.fail("String()/FormatString(1) changed a container (canonical form of the heap differs before and after serialising, step %s)", o.String())
		}
	}
	p.ops = append(p.ops, o)
	p.trace = append(p.trace, fmt.Sprintf("(%s, %d)", xOutcome(oc), h))
	p.lines = append(p.lines, fmt.Sprintf("%s => %s | %s", o.String(), oc, txt.String()))
	p.tags[o.Name] = true
	// generic predicates on the implementation
	if !p.broken && !m.hung {
		m.verifyHeld(o.String())
	}
	if oc == "Pan" && singleIndexOp(o) && h != before {
		m.fail("panicking %s modified the heap", o.Name)
	}
	if pureOp(o) && !p.broken {
		h0 := canonEnv(m.vars[:nvars], nil)
		if h0 != before {
			m.fail("%s (a pure operation) modified its receiver or argument", o.Name)
		}
	}
	return oc
}

// the trace is emitted in the outcome type of HeapExt.v
func xOutcome(oc string) string {
	if oc == "Pan" {
		return "XPan"
	}
	if strings.HasPrefix(oc, "(Ret ") {
		return "(XRet (XO " + oc[5:len(oc)-1] + "))"
	}
	return oc
}

func singleIndexOp(o *Op) bool {
	switch o.Name {
	case "LInsert", "LReplace", "LPop", "LGet", "LGetTyped", "LSubList", "OGet", "OGetTyped", "OPluck", "LSort",
		"LAddBad", "LInsertBad", "LReplaceBad", "OSetBad", "NewListBad", "NewObjectBad", "LCallbackPanics":
		return true
	case "LDelete":
		return len(o.Idxs) == 1
	}
	return false
}

func pureOp(o *Op) bool {
	if isXOp(o.Name) {
		return true
	}
	switch o.Name {
	case "LSubList", "LConcat", "LCount", "LEmpty", "LGet", "LGetTyped", "LTypeOf", "LSlice", "LContains", "LIndexOf",
		"OMerge", "OPluck", "OGet", "OGetTyped", "OTypeOf", "OKeyExists", "OCount", "OEmpty", "OKeys", "OValues", "ODict", "OContains", "OKeyOf",
		"Clone", "ParseBack", "Equals", "GetTF", "TypeOfTF":
		return true
	}
	return false
}

var heapScalars = []*V{vnil(), vbool(true), vbool(false), vint(0), vint(1), vint(-7), vint(42), vfloat(1.5), vfloat(0), vfloat(math.Copysign(0, -1)), vfloat(1), vstr(""), vstr("a"), vstr("b"), vstr("xyz"), vint(math.MaxInt64), vfloat(math.NaN()), vint(math.MinInt64), vstr("NaN"), vstr("null")}

func (p *Prog) scalar() Operand {
	if p.scalars != nil {
		return Operand{V: pickOf(p.r, p.scalars)}
	}
	return Operand{V: pickOf(p.r, heapScalars)}
}

// probeFor: the value looked for by Contains / IndexOf - half of the time something the list really holds (of every kind, nil
// included; a nested container when it is a live variable), otherwise any value
func (p *Prog) probeFor(r int) Operand {
	l := p.m.list(r)
	if n := l.Count(); n > 0 && p.r.chance(0.5) {
		switch x := l.Get(p.r.Intn(n)).(type) {
		case nil:
			return Operand{V: vnil()}
		case bool:
			return Operand{V: vbool(x)}
		case int:
			return Operand{V: vint(x)}
		case float64:
			return Operand{V: vfloat(x)}
		case string:
			return Operand{V: vstr(x)}
		default:
			for i, v := range p.m.vars {
				if v == x {
					return Operand{IsReg: true, Reg: i}
				}
			}
		}
	}
	return p.value(-1)
}

// value operand that may be stored into container `into` without creating a cycle
func (p *Prog) value(into int) Operand {
	if p.r.chance(0.35) && len(p.m.vars) > 0 {
		for try := 0; try < 4; try++ {
			c := p.r.Intn(len(p.m.vars))
			if into >= 0 {
				acc := map[any]bool{}
				reach(p.m.vars[c], acc)
				if acc[p.m.vars[into]] {
					continue
				}
			}
			return Operand{IsReg: true, Reg: c}
		}
	}
	return p.scalar()
}

// value operand sharing no container with what is reachable from `root` (a tree-form write stores it somewhere below root)
func (p *Prog) valueDisjoint(root int) Operand {
	if p.r.chance(0.35) {
		under := map[any]bool{}
		reach(p.m.vars[root], under)
		for try := 0; try < 4; try++ {
			c := p.r.Intn(len(p.m.vars))
			acc := map[any]bool{}
			reach(p.m.vars[c], acc)
			ok := true
			for x := range acc {
				if under[x] {
					ok = false
				}
			}
			if ok {
				return Operand{IsReg: true, Reg: c}
			}
		}
	}
	return p.scalar()
}

func (p *Prog) boundaryIndex(n int) int64 {
	cands := []int64{int64(-n - 1), int64(-n), -1, 0, 1, int64(n - 1), int64(n), int64(n + 1), int64(n / 2)}
	if p.r.chance(0.6) && n > 0 {
		return int64(p.r.Intn(n))
	}
	if p.r.chance(0.06) {
		// far outside: index arithmetic must not wrap around (int32 and int64 boundaries)
		return pickOf(p.r, []int64{math.MaxInt64, math.MinInt64, math.MaxInt64 - int64(n), math.MinInt64 + int64(n), 1 << 31, -(1 << 31) - 1, 1 << 32, 1<<32 + int64(n) - 1})
	}
	return pickOf(p.r, cands)
}

var heapKeys = []string{"", "a", "b", "c", "a.b", "#0", ".x", "\"q\"", "é", "k", "a ", " a", "k\n", "A", "K", "e\u0301", "\u00c9", "dir\\", "x\\\\"}

// keys that are not well-formed UTF-8 (Go strings are byte strings; a map key is compared bytewise): only in the profiles that
// never serialise (String() replaces ill-formed bytes, which the data comparison of the x-streams would report)
var illFormedKeys = []string{"a\xffb", "a\xfeb", "\xfe", "k\xc0\x80"}

func (p *Prog) freshKey() string {
	switch p.prof {
	case "C05", "C06", "C08", "C10", "C11":
		if p.r.chance(0.08) {
			return pickOf(p.r, illFormedKeys)
		}
	}
	return pickOf(p.r, heapKeys)
}

func (p *Prog) key(ob at.Object) string {
	if ob != nil && ob.Count() > 0 && p.r.chance(0.6) {
		ks := ob.Keys()
		var all []string
		for i := 0; i < ks.Count(); i++ {
			all = append(all, ks.GetString(i))
		}
		sort.Strings(all)
		if len(all) > 0 { // (Count() > 0 with an empty Keys() is an inconsistency of the implementation; the step predicates report it)
			return pickOf(p.r, all)
		}
	}
	return p.freshKey()
}

func (p *Prog) newContainer() {
	// NewListFrom / NewObjectFrom (C05 and C06 name them among the constructors): nested []any / map[string]any sources whose
	// leaves are scalars or live containers, and the typed flavours
	if (p.prof == "C05" || p.prof == "C06" || p.prof == "C09") && p.r.chance(0.12) {
		p.xNewFrom(p.prof == "C05" || (p.prof == "C09" && p.r.chance(0.5)))
		return
	}
	if p.r.chance(0.15) {
		// NewListOf: one value repeated (the same scalar wrapper / the same container in every slot); count -1 panics
		cnt := int64(p.r.Intn(5))
		if p.r.chance(0.05) {
			cnt = -1
		}
		p.do(&Op{Name: "NewListOf", Vals: []Operand{p.value(-1)}, I: cnt})
		return
	}
	// derived structures (user types embedding List / Object, registered with Init) take the place of plain containers now and
	// then in the profiles whose operations must treat them as what they are: lists and objects (the model does not distinguish)
	derived := false
	switch p.prof {
	case "C10", "C11", "C12x", "C13x", "C14x", "C16x", "C02x":
		derived = p.r.chance(0.15)
	}
	if p.r.chance(0.5) {
		n := p.r.Intn(5)
		var vs []Operand
		for i := 0; i < n; i++ {
			vs = append(vs, p.value(-1))
		}
		p.do(&Op{Name: "NewList", Vals: vs, Derived: derived})
	} else {
		n := p.r.Intn(4)
		var vs []Operand
		seen := map[string]bool{}
		for i := 0; i < n; i++ {
			k := p.freshKey()
			if seen[k] && p.r.chance(0.7) {
				continue
			}
			seen[k] = true
			vs = append(vs, Operand{V: vstr(k)}, p.value(-1))
		}
		p.do(&Op{Name: "NewObject", Vals: vs, Derived: derived})
	}
}

func isDerived(x any) bool {
	switch x.(type) {
	case *MyList, *MyList2, *MyObj, *MyObj2:
		return true
	}
	return false
}

// one random list op on register r (in the domain the properties pin down)
func (p *Prog) listOp(r int) {
	if p.broken {
		return
	}
	l := p.m.list(r)
	n := l.Count()
	switch p.r.Intn(24) {
	case 0, 1, 2:
		k := 1 + p.r.Intn(3)
		if p.r.chance(0.15) {
			k = 0
		}
		var vs []Operand
		for i := 0; i < k; i++ {
			vs = append(vs, p.value(r))
		}
		p.do(&Op{Name: "LAdd", R: r, Vals: vs})
	case 3, 4:
		p.do(&Op{Name: "LInsert", R: r, I: p.boundaryIndex(n), Vals: []Operand{p.value(r)}})
	case 5, 6:
		p.do(&Op{Name: "LReplace", R: r, I: p.boundaryIndex(n), Vals: []Operand{p.value(r)}})
	case 7, 8:
		// distinct indices; a multi-index call only with all indices valid (partial effects of a bad multi-index call are unspecified)
		if n >= 2 && p.r.chance(0.4) {
			k := 2 + p.r.Intn(2)
			perm := p.r.Perm(n)
			if k > n {
				k = n
			}
			var idx []int64
			for _, x := range perm[:k] {
				idx = append(idx, int64(x))
			}
			p.do(&Op{Name: "LDelete", R: r, Idxs: idx})
		} else {
			p.do(&Op{Name: "LDelete", R: r, Idxs: []int64{p.boundaryIndex(n)}})
		}
	case 9:
		p.do(&Op{Name: "LPop", R: r})
	case 10:
		if p.r.chance(0.3) {
			p.do(&Op{Name: "LClear", R: r})
		} else {
			p.do(&Op{Name: "LReverse", R: r})
		}
	case 11:
		p.do(&Op{Name: "LReverse", R: r})
	case 12:
		// Sort only inside C17's domain (homogeneous string/int/float, non-empty, NaN-free) or with a first element of another kind
		if n > 0 {
			t0 := l.TypeOf(0)
			homog := true
			posZero, negZero := false, false
			for i := 0; i < n; i++ {
				if l.TypeOf(i) != t0 {
					homog = false
				}
				if f, ok := l.Get(i).(float64); ok && math.IsNaN(f) {
					homog = false
				}
				if f, ok := l.Get(i).(float64); ok && f == 0 {
					// 0 and -0 compare equal: sort.Float64s may leave them in either order, the canonical hash is bit-exact
					if math.Signbit(f) {
						negZero = true
					} else {
						posZero = true
					}
				}
			}
			sortable := t0 == at.TypeString || t0 == at.TypeInt || t0 == at.TypeFloat
			if (homog && sortable && !(posZero && negZero)) || !sortable {
				p.do(&Op{Name: "LSort", R: r})
				return
			}
		}
		p.do(&Op{Name: "LCount", R: r})
	case 13, 14:
		s, e := p.boundaryIndex(n), p.boundaryIndex(n)
		if p.r.chance(0.5) && n > 0 {
			s = int64(p.r.Intn(n + 1))
			e = s + int64(p.r.Intn(n-int(s)+1))
			if p.r.chance(0.3) {
				e = e - int64(n) // the end <= 0 rule
			}
		}
		p.do(&Op{Name: "LSubList", R: r, S: s, E: e})
	case 15, 16:
		ls := p.listRegs()
		// (Concat with a derived structure as ARGUMENT type-asserts the implementation type: outside every property)
		var plain []int
		for _, x := range ls {
			if !isDerived(p.m.vars[x]) {
				plain = append(plain, x)
			}
		}
		if len(plain) > 0 {
			p.do(&Op{Name: "LConcat", R: r, A: pickOf(p.r, plain)})
		} else {
			p.do(&Op{Name: "LCount", R: r})
		}
	case 17:
		p.do(&Op{Name: "LGet", R: r, I: p.boundaryIndex(n)})
	case 18:
		p.do(&Op{Name: "LGetTyped", R: r, I: p.boundaryIndex(n), Kind: at.Type(2 + p.r.Intn(6))})
	case 19:
		p.do(&Op{Name: "LTypeOf", R: r, I: p.boundaryIndex(n)})
	case 20:
		p.do(&Op{Name: "LSlice", R: r})
	case 21:
		p.do(&Op{Name: "LContains", R: r, Vals: []Operand{p.probeFor(r)}})
	case 22:
		p.do(&Op{Name: "LIndexOf", R: r, Vals: []Operand{p.probeFor(r)}})
	default:
		if p.r.chance(0.5) {
			p.do(&Op{Name: "LCount", R: r})
		} else {
			p.do(&Op{Name: "LEmpty", R: r})
		}
	}
}

func (p *Prog) objOp(r int) {
	if p.broken {
		return
	}
	ob := p.m.object(r)
	switch c := p.r.Intn(22); c {
	case 0, 1, 2, 3:
		k := 1 + p.r.Intn(3)
		var vs []Operand
		for i := 0; i < k; i++ {
			key := p.key(ob)
			if p.r.chance(0.15) && i > 0 { // duplicate key inside one Set call: the last pair wins
				key = vs[0].V.S
			}
			vs = append(vs, Operand{V: vstr(key)}, p.value(r))
		}
		if p.r.chance(0.06) { // odd argument count: panics before any effect
			vs = vs[:len(vs)-1]
		} else if p.r.chance(0.05) { // non-string FIRST key: panics before any effect
			vs[0] = Operand{V: vint(3)}
		}
		p.do(&Op{Name: "OSet", R: r, Vals: vs})
	case 4, 5:
		k := 1 + p.r.Intn(2)
		var ks []string
		for i := 0; i < k; i++ {
			ks = append(ks, p.key(ob))
		}
		p.do(&Op{Name: "OUnset", R: r, Keys: ks})
	case 6:
		if p.r.chance(0.3) {
			p.do(&Op{Name: "OClear", R: r})
		} else {
			p.do(&Op{Name: "OCount", R: r})
		}
	case 7, 8:
		os := p.objRegs()
		p.do(&Op{Name: "OMerge", R: r, A: pickOf(p.r, os)})
	case 9, 10:
		k := p.r.Intn(3)
		var ks []string
		for i := 0; i < k; i++ {
			ks = append(ks, p.key(ob))
		}
		p.do(&Op{Name: "OPluck", R: r, Keys: ks})
	case 11:
		p.do(&Op{Name: "OGet", R: r, K: p.key(ob)})
	case 12:
		p.do(&Op{Name: "OGetTyped", R: r, K: p.key(ob), Kind: at.Type(2 + p.r.Intn(6))})
	case 13:
		p.do(&Op{Name: "OTypeOf", R: r, K: p.key(ob)})
	case 14:
		p.do(&Op{Name: "OKeyExists", R: r, K: p.key(ob)})
	case 15:
		if p.r.chance(0.5) {
			p.do(&Op{Name: "OCount", R: r})
		} else {
			p.do(&Op{Name: "OEmpty", R: r})
		}
	case 16:
		p.do(&Op{Name: "OKeys", R: r})
	case 17:
		p.do(&Op{Name: "OValues", R: r})
	case 18:
		p.do(&Op{Name: "ODict", R: r})
	case 19, 20:
		// mostly a value the object really holds (of every kind; a nested container when it is a live variable)
		var v Operand
		if ob.Count() > 0 && p.r.chance(0.7) {
			d := ob.Dict()
			k := p.key(ob)
			if x, ok := d[k]; ok {
				switch x.(type) {
				case at.List, at.Object:
					v = p.value(-1)
					for i, w := range p.m.vars {
						if w == x {
							v = Operand{IsReg: true, Reg: i}
						}
					}
				default:
					v = Operand{V: fromAny(x)}
				}
			} else {
				v = p.value(-1)
			}
		} else {
			v = p.value(-1)
		}
		if c == 19 {
			p.do(&Op{Name: "OContains", R: r, Vals: []Operand{v}})
		} else {
			p.do(&Op{Name: "OKeyOf", R: r, Vals: []Operand{v}})
		}
	default:
		p.do(&Op{Name: "OGet", R: r, K: p.key(ob)})
	}
}

func (p *Prog) anyOp(listBias float64) {
	if p.broken {
		p.ops = append(p.ops, nil)
		p.ops = p.ops[:len(p.ops)-1]
		return
	}
	ls, os := p.listRegs(), p.objRegs()
	if len(p.m.vars) < 2 || (len(p.m.vars) < 7 && p.r.chance(0.12)) {
		p.newContainer()
		return
	}
	if p.r.chance(0.025) {
		p.rejectedInsertion()
		return
	}
	if p.r.chance(0.025) {
		p.nativeMutation()
		return
	}
	if len(ls) > 0 && (len(os) == 0 || p.r.chance(listBias)) {
		p.listOp(pickOf(p.r, ls))
	} else if len(os) > 0 {
		p.objOp(pickOf(p.r, os))
	} else {
		p.newContainer()
	}
}

// growth history: Add-bursts followed by Delete/Pop, leaving spare capacity in the backing array
func (p *Prog) growthHistory(r int) {
	k := 1 + p.r.Intn(7)
	var vs []Operand
	for i := 0; i < k; i++ {
		vs = append(vs, p.scalar())
	}
	p.do(&Op{Name: "LAdd", R: r, Vals: vs})
	for i := p.r.Intn(4); i > 0; i-- {
		if p.m.list(r).Count() == 0 {
			break
		}
		if p.r.chance(0.5) {
			p.do(&Op{Name: "LPop", R: r})
		} else {
			p.do(&Op{Name: "LDelete", R: r, Idxs: []int64{int64(p.r.Intn(p.m.list(r).Count()))}})
		}
	}
}

// ---------- tree-form path material ----------

type pathInfo struct {
	path string
	val  any
}

// every resolvable path of a container (rendered with canonical decimal indices)
func allPaths(x any, prefix string, acc *[]pathInfo, depth int) {
	if depth > 6 {
		return
	}
	switch t := x.(type) {
	case at.List:
		for i := 0; i < t.Count(); i++ {
			p := fmt.Sprintf("%s#%d", prefix, i)
			v := t.Get(i)
			*acc = append(*acc, pathInfo{p, v})
			allPaths(v, p, acc, depth+1)
		}
	case at.Object:
		d := t.Dict()
		keys := make([]string, 0, len(d))
		for k := range d {
			keys = append(keys, k)
		}
		sort.Strings(keys)
		for _, k := range keys {
			if k == "" || strings.ContainsAny(k, ".#") {
				continue
			}
			p := prefix + "." + k
			*acc = append(*acc, pathInfo{p, d[k]})
			allPaths(d[k], p, acc, depth+1)
		}
	}
}

var tfAlphabet = []byte{'.', '#', 'a', 'b', '0', '1', '-', 'x'}

func (p *Prog) corruptPath(s string) string {
	if s == "" {
		return "#"
	}
	b := []byte(s)
	switch p.r.Intn(13) {
	case 0: // drop a segment
		idx := strings.LastIndexAny(s, ".#")
		if idx > 0 {
			return s[:idx]
		}
		return s[1:]
	case 1: // swap a sigil
		for try := 0; try < 5; try++ {
			i := p.r.Intn(len(b))
			if b[i] == '.' {
				b[i] = '#'
				return string(b)
			} else if b[i] == '#' {
				b[i] = '.'
				return string(b)
			}
		}
		return string(b)
	case 2: // index shifted far
		return s + "#9"
	case 3: // misspell
		i := p.r.Intn(len(b))
		b[i] = 'q'
		return string(b)
	case 4: // trailing sigil
		return s + pickOf(p.r, []string{".", "#"})
	case 5: // doubled sigil
		i := p.r.Intn(len(b))
		if b[i] == '.' || b[i] == '#' {
			return s[:i] + string(b[i]) + s[i:]
		}
		return "." + s
	case 6: // alternative index spellings ParseInt(base 0) accepts or rejects
		return strings.Replace(s, "#1", pickOf(p.r, []string{"#01", "#0x1", "#+1", "#1_", "#0b1", "#1e0", "#-1", "#00"}), 1)
	case 7:
		return strings.Replace(s, "#0", pickOf(p.r, []string{"#-0", "#00", "#0x0", "#+0", "#", "#0_0", "#99999999999999999999"}), 1)
	case 10: // an index segment that is one character which is no digit, or a digit of another script, or a number with blanks
		bad := pickOf(p.r, []string{":", ";", "A", "F", "a", "z", "/", "~", " ", "\u0663", "\u0967", "\uff11", " 1", "1 ", "\t0", "0\n", "1.0", "1e1", "١"})
		if i := strings.LastIndexByte(s, '#'); i >= 0 {
			j := i + 1
			for j < len(s) && s[j] != '.' && s[j] != '#' {
				j++
			}
			return s[:i+1] + bad + s[j:]
		}
		return "#" + bad
	case 11: // blanks around the whole path or around a segment
		switch p.r.Intn(5) {
		case 0:
			return s + pickOf(p.r, []string{" ", "\t", "\n", "\u00a0"})
		case 1:
			return pickOf(p.r, []string{" ", "\t", "\n"}) + s
		case 2:
			return strings.TrimRight(s, " \t\n")
		case 3:
			i := p.r.Intn(len(b))
			return s[:i] + " " + s[i:]
		default:
			return strings.Replace(s, " ", "", 1)
		}
	case 8: // random string over the path alphabet
		n := 1 + p.r.Intn(6)
		r := make([]byte, n)
		for i := range r {
			r[i] = pickOf(p.r, tfAlphabet)
		}
		return string(r)
	default:
		return s + pickOf(p.r, []string{".a", "#0", ".zz", "#1.a"})
	}
}

var tfKeys = []string{"a", "b", "c", "k", "é", "zz", "a ", " b", "k\t", "0", "12", "dir\\", "-1", "0x1"}

// a well-formed path (non-empty keys free of '.' and '#', canonical non-negative decimal indices) starting at container x:
// follows existing structure for a while, then may branch into new territory
func (p *Prog) wellFormedPath(x any, maxSeg int) string {
	var b strings.Builder
	cur := x
	isList := false
	if _, ok := x.(at.List); ok {
		isList = true
	}
	nseg := 1 + p.r.Intn(maxSeg)
	for s := 0; s < nseg; s++ {
		if isList {
			n := 0
			if l, ok := cur.(at.List); ok {
				n = l.Count()
			}
			idx := 0
			switch p.r.Intn(5) {
			case 0:
				idx = n // = n
			case 1:
				idx = n + 1 + p.r.Intn(3) // > n
				if p.r.chance(0.03) {
					idx = pickOf(p.r, []int{127, 128, 255, 256, 511, 512, 513, 600, 1023, 1024}) // far beyond the end: padded with nil up to there
				}
			default:
				if n > 0 {
					idx = p.r.Intn(n)
				}
			}
			fmt.Fprintf(&b, "#%d", idx)
			if l, ok := cur.(at.List); ok && idx < n {
				cur = l.Get(idx)
			} else {
				cur = nil
			}
		} else {
			k := pickOf(p.r, tfKeys)
			if ob, ok := cur.(at.Object); ok && ob.Count() > 0 && p.r.chance(0.7) {
				d := ob.Dict()
				var ks []string
				for kk := range d {
					if kk != "" && !strings.ContainsAny(kk, ".#") {
						ks = append(ks, kk)
					}
				}
				sort.Strings(ks)
				if len(ks) > 0 {
					k = pickOf(p.r, ks)
				}
			}
			b.WriteString("." + k)
			if ob, ok := cur.(at.Object); ok && ob.KeyExists(k) {
				cur = ob.Get(k)
			} else {
				cur = nil
			}
		}
		// the next segment's sigil decides what kind of container this step must hold
		if s+1 < nseg {
			switch c := cur.(type) {
			case at.List:
				isList = !p.r.chance(0.15) // sometimes the other container kind in the way
				_ = c
			case at.Object:
				isList = p.r.chance(0.15)
			default:
				isList = p.r.chance(0.5)
			}
		}
	}
	return b.String()
}

// ---------- profiles ----------

func heapProgram(r *R, prof string) *Prog {
	p := &Prog{m: &Machine{pred: true}, r: r, prof: prof, tags: map[string]bool{}}
	switch prof {
	case "C05", "C06", "C08", "C10", "C11":
		// (Go strings are byte strings: values that are not UTF-8 are stored, copied, compared and handed back byte for byte)
		p.scalars = append(append([]*V{}, heapScalars...), vstr("caf\xe9"), vstr("\xff"), vstr("a\xc0\xafb"))
	}
	// the public API may panic while the generator itself reads the containers (Keys, Count, Get ...) on a broken tree:
	// that is a failure of the program generated so far, not of the harness
	if tryLib(func() { heapProgramBody(p, r, prof) }) {
		p.m.fail("the public API panicked while the containers of this program were being read back (Keys/Count/Get/Dict)")
	}
	return p
}

func heapProgramBody(p *Prog, r *R, prof string) {

	switch prof {
	case "C05":
		nops := 8 + r.Intn(28)
		if boosted() {
			nops *= 3
		}
		p.newContainer()
		p.do(&Op{Name: "NewList", Vals: nil})
		if r.chance(0.04) {
			// a long list: the sizes at which an implementation may switch strategy
			p.do(&Op{Name: "NewListOf", Vals: []Operand{p.scalar()}, I: int64(pickOf(r, stressSizes))})
			long := len(p.m.vars) - 1
			p.do(&Op{Name: "LAdd", R: long, Vals: []Operand{p.value(long), p.scalar()}})
		} else if r.chance(0.08) {
			// homogeneous int / string lists with extreme values, sorted in place (Sort belongs to this property on C17's domain)
			pool := pickOf(r, [][]*V{{vint(math.MinInt64), vint(math.MaxInt64), vint(1), vint(-1), vint(0), vint(5), vint(math.MinInt64 + 1)}, {vstr(""), vstr("a"), vstr("B"), vstr("é"), vstr("ab")}})
			var vs []Operand
			for k, nk := 0, 2+r.Intn(5); k < nk; k++ {
				vs = append(vs, Operand{V: pickOf(r, pool)})
			}
			p.do(&Op{Name: "NewList", Vals: vs})
			sl := len(p.m.vars) - 1
			p.do(&Op{Name: "LSort", R: sl})
			// ... and sorted again after steps that keep it sortable (an implementation that remembers "already sorted" must forget
			// it in every operation that changes the order, not in most of them)
			for k, nk := 0, 2+r.Intn(6); k < nk && !p.broken; k++ {
				n := p.m.list(sl).Count()
				switch r.Intn(8) {
				case 0, 1:
					p.do(&Op{Name: "LReverse", R: sl})
				case 2:
					if n > 0 {
						p.do(&Op{Name: "LInsert", R: sl, I: int64(r.Intn(n)), Vals: []Operand{{V: pickOf(r, pool)}}})
					}
				case 3:
					if n > 0 {
						p.do(&Op{Name: "LReplace", R: sl, I: int64(r.Intn(n)), Vals: []Operand{{V: pickOf(r, pool)}}})
					}
				case 4:
					if n > 2 {
						p.do(&Op{Name: "LDelete", R: sl, Idxs: []int64{int64(r.Intn(n))}})
					}
				case 5:
					p.do(&Op{Name: "LAdd", R: sl, Vals: []Operand{{V: pickOf(r, pool)}}})
				default:
					if n > 0 {
						p.do(&Op{Name: "LSort", R: sl})
					}
				}
			}
			if p.m.list(sl).Count() > 0 {
				p.do(&Op{Name: "LSort", R: sl})
			}
		} else if r.chance(0.03) {
			// a large list shrunk step by step with multi-index deletes, pops and single deletes (an implementation that gives memory
			// back does so at some ratio of length to capacity; the call that crosses it is the interesting one)
			n0 := pickOf(r, []int{256, 300, 512})
			p.do(&Op{Name: "NewListOf", Vals: []Operand{p.scalar()}, I: int64(n0)})
			long := len(p.m.vars) - 1
			p.do(&Op{Name: "LReplace", R: long, I: int64(n0 - 1), Vals: []Operand{{V: vstr("last")}}})
			for !p.broken {
				n := p.m.list(long).Count()
				if n < n0/9 {
					break
				}
				switch r.Intn(5) {
				case 0:
					p.do(&Op{Name: "LPop", R: long})
				case 1:
					p.do(&Op{Name: "LDelete", R: long, Idxs: []int64{int64(r.Intn(n))}})
				default:
					k := 2 + r.Intn(4)
					if r.chance(0.2) {
						k = 20 + r.Intn(30)
					}
					if k > n {
						k = n
					}
					var idx []int64
					for _, x := range r.Perm(n)[:k] {
						idx = append(idx, int64(x))
					}
					p.do(&Op{Name: "LDelete", R: long, Idxs: idx})
				}
			}
			nops += len(p.ops)
		}
		for len(p.ops) < nops && !p.broken {
			if r.chance(0.08) {
				ls := p.listRegs()
				p.growthHistory(pickOf(r, ls))
				continue
			}
			p.anyOp(0.8)
		}
	case "C06":
		nops := 8 + r.Intn(28)
		if boosted() {
			nops *= 3
		}
		p.do(&Op{Name: "NewObject", Vals: nil})
		p.newContainer()
		if r.chance(0.07) {
			// a wide object (Go maps change their layout beyond 8 entries; an implementation may switch strategy by size) holding live
			// containers among its values, then - half of the time - shrunk to a few fields key by key (an implementation that gives
			// memory back or rebuilds its table does so at some ratio; what survives must be the identical containers)
			var vs []Operand
			nk := pickOf(r, []int{9, 17, 22, 33, 65})
			for k := 0; k < nk; k++ {
				v := p.scalar()
				if k%7 == 3 {
					v = Operand{IsReg: true, Reg: r.Intn(len(p.m.vars))}
				}
				vs = append(vs, Operand{V: vstr(fmt.Sprintf("w%d", k))}, v)
			}
			p.do(&Op{Name: "NewObject", Vals: vs})
			wide := len(p.m.vars) - 1
			if r.chance(0.5) {
				keep := 1 + r.Intn(3)
				for _, k := range r.Perm(nk) {
					if p.broken || p.m.object(wide).Count() <= keep {
						break
					}
					if k%7 == 3 && r.chance(0.8) {
						continue // the containers mostly stay
					}
					p.do(&Op{Name: "OUnset", R: wide, Keys: []string{fmt.Sprintf("w%d", k)}})
				}
				nops += len(p.ops)
			}
		}
		for len(p.ops) < nops && !p.broken {
			p.anyOp(0.2)
		}
	case "C09":
		// receiver with a growth history -> derive once or twice -> mutate any participant -> observe all
		p.do(&Op{Name: "NewList", Vals: nil})
		p.growthHistory(0)
		if r.chance(0.06) {
			// a long receiver (a derivation may change strategy with the size: sharing until the first write, chunked copies)
			var vs []Operand
			for k, nk := 0, pickOf(r, []int{60, 64, 65, 100, 130, 257}); k < nk; k++ {
				vs = append(vs, p.scalar())
			}
			p.do(&Op{Name: "LAdd", R: 0, Vals: vs})
			if r.chance(0.7) {
				// a long derivation, then ONE mutator as the first write on the receiver or on the result (a derivation that shares
				// storage until the first write must un-share in every mutator, not in most of them)
				n := p.m.list(0).Count()
				p.do(&Op{Name: "LSubList", R: 0, S: int64(r.Intn(3)), E: int64(n - r.Intn(3))})
				res := len(p.m.vars) - 1
				if r.chance(0.3) {
					p.do(&Op{Name: "LSubList", R: 0, S: 0, E: int64(n)})
				}
				tgt := pickOf(r, []int{0, res, len(p.m.vars) - 1})
				tn := p.m.list(tgt).Count()
				switch r.Intn(9) {
				case 0, 1, 2:
					p.do(&Op{Name: "LReverse", R: tgt})
				case 3:
					p.do(&Op{Name: "LReplace", R: tgt, I: int64(r.Intn(tn)), Vals: []Operand{p.scalar()}})
				case 4:
					p.do(&Op{Name: "LInsert", R: tgt, I: int64(r.Intn(tn + 1)), Vals: []Operand{p.scalar()}})
				case 5:
					p.do(&Op{Name: "LDelete", R: tgt, Idxs: []int64{int64(r.Intn(tn))}})
				case 6:
					p.do(&Op{Name: "LPop", R: tgt})
				case 7:
					p.do(&Op{Name: "SetTF", R: tgt, TF: fmt.Sprintf("#%d", r.Intn(tn)), Vals: []Operand{p.scalar()}})
				default:
					p.do(&Op{Name: "UnsetTF", R: tgt, TF: fmt.Sprintf("#%d", r.Intn(tn))})
				}
			}
		}
		p.newContainer()
		if r.chance(0.5) {
			p.newContainer()
		}
		nder := 1 + r.Intn(2)
		for i := 0; i < nder; i++ {
			ls, os := p.listRegs(), p.objRegs()
			switch r.Intn(8) {
			case 0, 1, 2:
				p.do(&Op{Name: "LConcat", R: 0, A: pickOf(r, ls)})
			case 3, 4:
				n := p.m.list(0).Count()
				s := int64(0)
				if n > 0 {
					s = int64(r.Intn(n + 1))
				}
				p.do(&Op{Name: "LSubList", R: 0, S: s, E: int64(n) - int64(r.Intn(n-int(s)+1))})
			case 5:
				if len(os) > 0 {
					p.do(&Op{Name: "OMerge", R: pickOf(r, os), A: pickOf(r, os)})
				} else {
					p.do(&Op{Name: "LConcat", R: 0, A: 0})
				}
			case 6:
				if len(os) > 0 {
					o := pickOf(r, os)
					if r.chance(0.5) {
						p.do(&Op{Name: "OKeys", R: o})
					} else {
						p.do(&Op{Name: "OValues", R: o})
					}
				} else {
					p.do(&Op{Name: "LConcat", R: pickOf(r, ls), A: 0})
				}
			default:
				p.do(&Op{Name: "LConcat", R: pickOf(r, ls), A: 0})
			}
		}
		nm := 2 + r.Intn(8)
		for i := 0; i < nm; i++ {
			if p.broken {
				break
			}
			ls, os := p.listRegs(), p.objRegs()
			if len(os) == 0 || r.chance(0.75) {
				rr := pickOf(r, ls)
				n := p.m.list(rr).Count()
				switch r.Intn(8) {
				case 0, 1:
					p.do(&Op{Name: "LAdd", R: rr, Vals: []Operand{p.scalar()}})
				case 2:
					p.do(&Op{Name: "LInsert", R: rr, I: p.boundaryIndex(n), Vals: []Operand{p.scalar()}})
				case 3:
					p.do(&Op{Name: "LReplace", R: rr, I: p.boundaryIndex(n), Vals: []Operand{p.scalar()}})
				case 4:
					p.do(&Op{Name: "LDelete", R: rr, Idxs: []int64{p.boundaryIndex(n)}})
				case 5:
					p.do(&Op{Name: "LPop", R: rr})
				case 6:
					p.do(&Op{Name: "LReverse", R: rr})
				default:
					if n > 0 && r.chance(0.5) {
						p.doNative("LReplace", rr, int64(r.Intn(n)), "")
					} else {
						p.do(&Op{Name: "LClear", R: rr})
					}
				}
			} else {
				p.objOp(pickOf(r, os))
			}
		}
	case "C08":
		// DAG-shaped source (shared sub-containers), Clone, then mutations anywhere in either side
		nb := 3 + r.Intn(6)
		for len(p.ops) < nb && !p.broken {
			p.anyOp(0.5)
		}
		src := r.Intn(len(p.m.vars))
		hasDerived := false
		switch r.Intn(7) {
		case 0:
			// a long list (copy strategies may change with the length) with containers in its last positions, also nested one level down
			n := pickOf(r, []int{17, 33, 65, 128, 129, 130, 131, 200, 257})
			p.do(&Op{Name: "NewListOf", Vals: []Operand{p.scalar()}, I: int64(n)})
			long := len(p.m.vars) - 1
			var tail []Operand
			for k := 1 + r.Intn(3); k > 0; k-- {
				tail = append(tail, p.value(long))
			}
			p.do(&Op{Name: "NewList", Vals: []Operand{p.scalar()}})
			tail = append(tail, Operand{IsReg: true, Reg: len(p.m.vars) - 1})
			if r.chance(0.5) {
				tail = append(tail, p.scalar())
			}
			p.do(&Op{Name: "LAdd", R: long, Vals: tail})
			src = long
			if r.chance(0.4) {
				p.do(&Op{Name: "NewObject", Vals: []Operand{{V: vstr("long")}, {IsReg: true, Reg: long}}})
				src = len(p.m.vars) - 1
			}
		case 2:
			// a deep chain (copy strategies may change with the depth): 130-150 levels, lists and objects mixed; the innermost
			// container stays a variable, so that the mutations below can reach the bottom of either side (one program in a hundred:
			// the canonical hash after each of the ~150 steps is quadratic in the depth on the model side)
			if r.chance(0.07) {
				p.do(&Op{Name: "NewList", Vals: []Operand{p.scalar()}})
				cur := len(p.m.vars) - 1
				for k, d := 0, 130+r.Intn(21); k < d; k++ {
					if r.chance(0.5) {
						p.do(&Op{Name: "NewList", Vals: []Operand{{IsReg: true, Reg: cur}}})
					} else {
						p.do(&Op{Name: "NewObject", Vals: []Operand{{V: vstr("k")}, {IsReg: true, Reg: cur}}})
					}
					cur = len(p.m.vars) - 1
				}
				src = cur
			}
		case 1:
			// derived structures (user types embedding List / Object) stored as a direct field, as a list element, and nested
			p.do(&Op{Name: "NewObject", Derived: true, Vals: []Operand{{V: vstr("d")}, p.scalar()}})
			dobj := len(p.m.vars) - 1
			p.do(&Op{Name: "NewList", Derived: true, Vals: []Operand{p.scalar(), p.scalar()}})
			dlist := len(p.m.vars) - 1
			p.do(&Op{Name: "NewObject", Vals: []Operand{{V: vstr("o")}, {IsReg: true, Reg: dobj}, {V: vstr("l")}, {IsReg: true, Reg: dlist}, {V: vstr("x")}, p.scalar()}})
			holder := len(p.m.vars) - 1
			p.do(&Op{Name: "NewList", Vals: []Operand{{IsReg: true, Reg: dobj}, {IsReg: true, Reg: holder}, {IsReg: true, Reg: dlist}}})
			src = pickOf(r, []int{holder, len(p.m.vars) - 1})
			hasDerived = true
		}
		p.do(&Op{Name: "Clone", R: src})
		clone := len(p.m.vars) - 1
		if !hasDerived { // (Equals on derived structures is outside every property: it compares implementation types)
			p.do(&Op{Name: "Equals", R: src, A: clone})
		}
		// C08 predicates on the implementation: equal, and no container shared
		a, b := map[any]bool{}, map[any]bool{}
		reach(p.m.vars[src], a)
		reach(p.m.vars[clone], b)
		for c := range a {
			if b[c] {
				p.m.fail("Clone shares a container with its source")
			}
		}
		if eq, _ := equalsAny(p.m.vars[src], p.m.vars[clone]); !eq && !hasDerived && fromAny(p.m.vars[src]).nanFree() {
			p.m.fail("Clone does not Equal its source")
		}
		// register nested containers of both sides as variables (Get), then mutate
		for i := 0; i < 3; i++ {
			side := pickOf(r, []int{src, clone})
			switch c := p.m.vars[side].(type) {
			case at.List:
				if c.Count() > 0 {
					p.do(&Op{Name: "LGet", R: side, I: int64(r.Intn(c.Count()))})
				}
			case at.Object:
				if c.Count() > 0 {
					p.do(&Op{Name: "OGet", R: side, K: p.key(c)})
				}
			}
		}
		srcCanon := func(x any) string { return canon(x) }
		nm := 2 + r.Intn(10)
		for i := 0; i < nm; i++ {
			if p.broken {
				break
			}
			// pick a container reachable from one side only, mutate it, and check the other side is unchanged
			side, other := src, clone
			if r.chance(0.5) {
				side, other = clone, src
			}
			acc := map[any]bool{}
			reach(p.m.vars[side], acc)
			var cands []int
			for j, v := range p.m.vars {
				if acc[v] {
					cands = append(cands, j)
				}
			}
			if len(cands) == 0 {
				continue
			}
			rr := pickOf(r, cands)
			otherBefore := srcCanon(p.m.vars[other])
			switch c := p.m.vars[rr].(type) {
			case at.List:
				n := c.Count()
				switch r.Intn(6) {
				case 0:
					p.do(&Op{Name: "LAdd", R: rr, Vals: []Operand{p.scalar()}})
				case 1:
					p.do(&Op{Name: "LReplace", R: rr, I: p.boundaryIndex(n), Vals: []Operand{p.scalar()}})
				case 2:
					p.do(&Op{Name: "LDelete", R: rr, Idxs: []int64{p.boundaryIndex(n)}})
				case 3:
					p.do(&Op{Name: "LReverse", R: rr})
				case 4:
					p.do(&Op{Name: "SetTF", R: rr, TF: p.wellFormedPath(c, 3), Vals: []Operand{p.scalar()}})
				default:
					p.do(&Op{Name: "UnsetTF", R: rr, TF: p.wellFormedPath(c, 2)})
				}
			case at.Object:
				switch r.Intn(5) {
				case 0, 1:
					p.do(&Op{Name: "OSet", R: rr, Vals: []Operand{{V: vstr(p.key(c))}, p.scalar()}})
				case 2:
					p.do(&Op{Name: "OUnset", R: rr, Keys: []string{p.key(c)}})
				case 3:
					p.do(&Op{Name: "SetTF", R: rr, TF: p.wellFormedPath(c, 3), Vals: []Operand{p.scalar()}})
				default:
					p.do(&Op{Name: "UnsetTF", R: rr, TF: p.wellFormedPath(c, 2)})
				}
			}
			if srcCanon(p.m.vars[other]) != otherBefore {
				p.m.fail("a mutation inside one of (source, clone) changed the other")
			}
		}
	case "C10", "C11":
		nb := 4 + r.Intn(8)
		if r.chance(0.2) {
			// a long list (index segments with two digits resolve; a one-character segment such as ':' or 'A' or 'a' misread as a
			// number would land inside it), stored in an object as well
			n := pickOf(r, []int{11, 12, 18, 20, 50, 60, 101})
			p.do(&Op{Name: "NewListOf", Vals: []Operand{p.scalar()}, I: int64(n)})
			long := len(p.m.vars) - 1
			for k := 0; k < 3; k++ {
				p.do(&Op{Name: "LReplace", R: long, I: int64(r.Intn(n)), Vals: []Operand{p.scalar()}})
			}
			p.do(&Op{Name: "NewObject", Vals: []Operand{{V: vstr("items")}, {IsReg: true, Reg: long}, {V: vstr("a ")}, p.scalar()}})
			nb += 5
		}
		for len(p.ops) < nb && !p.broken {
			p.anyOp(0.5)
		}
		// nest: make sure some depth exists
		nq := 6 + r.Intn(10)
		for i := 0; i < nq; i++ {
			if p.broken {
				break
			}
			rr := r.Intn(len(p.m.vars))
			root := p.m.vars[rr]
			var paths []pathInfo
			allPaths(root, "", &paths, 0)
			if prof == "C10" {
				var tf string
				resolvable := false
				if len(paths) > 0 && r.chance(0.5) {
					pi := pickOf(r, paths)
					tf = pi.path
					resolvable = true
					// C10 predicate: GetTF = step-by-step navigation (identity for containers), TypeOfTF = its kind
					got, pan := tryVal(func() any { return getTFAny(root, tf) })
					if pan || !sameAny(got, pi.val) {
						p.m.fail("GetTF(%q) differs from step-by-step navigation", tf)
					}
				} else if len(paths) > 0 && r.chance(0.25) {
					// index shifted to exactly n on an INNER segment, or a bare trailing sigil on a container (hits the empty key / index n)
					pi := pickOf(r, paths)
					switch c := pi.val.(type) {
					case at.List:
						tf = fmt.Sprintf("%s#%d%s", pi.path, c.Count(), pickOf(r, []string{".a", "#0", ".k.a", "", "#0#0"}))
					case at.Object:
						tf = pi.path + pickOf(r, []string{".", ".#0", "..a", "."})
					default:
						tf = pi.path + pickOf(r, []string{".", "#"})
					}
				} else if r.chance(0.08) {
					switch c := root.(type) {
					case at.List:
						tf = fmt.Sprintf("#%d%s", c.Count(), pickOf(r, []string{".a", "#0", ""}))
					default:
						tf = "."
					}
					if r.chance(0.35) {
						tf = pickOf(r, []string{"", "#", ".", "a", "0"}) // the empty string and other paths shorter than one segment
					}
				} else if len(paths) > 0 && r.chance(0.7) {
					tf = p.corruptPath(pickOf(r, paths).path)
				} else {
					tf = p.corruptPath("")
				}
				_ = resolvable
				oc1 := p.do(&Op{Name: "TypeOfTF", R: rr, TF: tf})
				oc2 := p.do(&Op{Name: "GetTF", R: rr, TF: tf})
				if oc1 == "Pan" {
					p.m.fail("TypeOfTF(%q) panicked", tf)
				}
				if (oc1 == "(Ret (OKind KUndefined))") != (oc2 == "Pan") {
					p.m.fail("TypeOfTF(%q)=%s but GetTF gives %s", tf, oc1, oc2)
				}
				// the same path again after a list ON the path was reordered in place (reversed, shifted by an insertion or a deletion
				// at the front): the index segments now name other elements
				if r.chance(0.3) && !p.broken {
					var onPath []pathInfo
					if _, isList := root.(at.List); isList {
						onPath = append(onPath, pathInfo{path: "", val: root})
					}
					for _, pi := range paths {
						if _, isList := pi.val.(at.List); isList && len(pi.path) < len(tf) && strings.HasPrefix(tf, pi.path) && (tf[len(pi.path)] == '#' || tf[len(pi.path)] == '.') {
							onPath = append(onPath, pi)
						}
					}
					if len(onPath) > 0 {
						pi := pickOf(r, onPath)
						reg := rr
						if pi.path != "" {
							if p.do(&Op{Name: "GetTF", R: rr, TF: pi.path}) != "Pan" {
								reg = len(p.m.vars) - 1
							} else {
								reg = -1
							}
						}
						if reg >= 0 && !p.broken {
							if l, ok := p.m.vars[reg].(at.List); ok && l == pi.val {
								switch n := l.Count(); {
								case n >= 2 && r.chance(0.6):
									p.do(&Op{Name: "LReverse", R: reg})
								case n >= 2 && r.chance(0.5):
									p.do(&Op{Name: "LDelete", R: reg, Idxs: []int64{0}})
								default:
									p.do(&Op{Name: "LInsert", R: reg, I: 0, Vals: []Operand{p.scalar()}})
								}
								p.do(&Op{Name: "GetTF", R: rr, TF: tf})
								p.do(&Op{Name: "TypeOfTF", R: rr, TF: tf})
							}
						}
					}
				}
				// the same path again after some live container (often one on the path) was modified: a read has no memory
				if r.chance(0.3) && !p.broken {
					for k := 1 + r.Intn(2); k > 0; k-- {
						p.xMutate()
					}
					p.do(&Op{Name: "GetTF", R: rr, TF: tf})
					p.do(&Op{Name: "TypeOfTF", R: rr, TF: tf})
				}
				// a path with an empty segment (or shorter than one segment) must be Undefined
				if hasEmptySegment(tf) && oc1 != "(Ret (OKind KUndefined))" {
					if hasSigilKey(root) {
						p.finding = "K1" // known finding: a key starting with a sigil is reachable through an empty segment
						p.m.fail("TypeOfTF(%q)=%s on a path with an empty segment (object key starting with a sigil)", tf, oc1)
					} else {
						p.m.fail("TypeOfTF(%q)=%s on a path with an empty segment", tf, oc1)
					}
				}
			} else {
				tf := p.wellFormedPath(root, 4)
				if r.chance(0.12) {
					tf = p.corruptPath(tf)
				}
				if r.chance(0.7) {
					v := p.valueDisjoint(rr)
					oc := p.do(&Op{Name: "SetTF", R: rr, TF: tf, Vals: []Operand{v}})
					if oc != "Pan" {
						got, pan := tryVal(func() any { return getTFAny(root, tf) })
						if pan || !sameAny(got, p.m.operand(v)) {
							if !(v.IsReg == false && v.V.K == KFloat && math.IsNaN(v.V.F)) {
								p.m.fail("after SetTF(%q, v), GetTF does not yield v", tf)
							}
						}
					} else if isWellFormedTF(root, tf) {
						p.m.fail("SetTF(%q) panicked on a well-formed path", tf)
					}
				} else {
					p.do(&Op{Name: "UnsetTF", R: rr, TF: tf})
				}
			}
		}
	}
	distinctOps := len(p.tags)
	p.nontrv = len(p.ops) >= 5 && distinctOps >= 3

}

func getTFAny(root any, tf string) any {
	switch c := root.(type) {
	case at.List:
		return c.GetTF(tf)
	case at.Object:
		return c.GetTF(tf)
	}
	panic("not a container")
}

func hasEmptySegment(tf string) bool {
	if len(tf) < 2 {
		return true
	}
	last := tf[len(tf)-1]
	return strings.Contains(tf, "..") || strings.Contains(tf, ".#") || strings.Contains(tf, "#.") || strings.Contains(tf, "##") || last == '.' || last == '#'
}

// K1: some object reachable from root has a key starting with a sigil (reachable through an empty segment: "..x" on {".x":1})
func hasSigilKey(root any) bool {
	acc := map[any]bool{}
	reach(root, acc)
	for c := range acc {
		if ob, ok := c.(at.Object); ok {
			for k := range ob.Dict() {
				if len(k) > 0 && (k[0] == '.' || k[0] == '#') {
					return true
				}
			}
		}
	}
	return false
}

func isWellFormedTF(root any, tf string) bool {
	if len(tf) < 2 {
		return false
	}
	want := byte('.')
	if _, ok := root.(at.List); ok {
		want = '#'
	}
	if tf[0] != want {
		return false
	}
	segs := splitSegs(tf)
	for _, s := range segs {
		if len(s) < 2 {
			return false
		}
		if s[0] == '#' {
			for _, c := range s[1:] {
				if c < '0' || c > '9' {
					return false
				}
			}
			if len(s) > 2 && s[1] == '0' {
				return false
			}
			if len(s) > 6 {
				return false
			}
		}
	}
	return true
}

func splitSegs(tf string) []string {
	var segs []string
	start := 0
	for i := 1; i < len(tf); i++ {
		if tf[i] == '.' || tf[i] == '#' {
			segs = append(segs, tf[start:i])
			start = i
		}
	}
	return append(segs, tf[start:])
}

// C09 also names Filter*/Map*/Keys/Values/Slice: at the end of a program (the live containers then have whatever growth history
// the program gave them) every such result is derived from every live container and mutated through all the routes a result
// offers - directly, through the value a fluent call returns, through Pop and tree-form writes, which go through the result's
// own identity; no live container may change, and the result itself must change
func (p *Prog) viewsOwnStorage() {
	m := p.m
	if try(func() {
		before := canonEnv(m.vars, nil)
		for _, r := range p.listRegs() {
			l := m.list(r)
			n := l.Count()
			results := map[string]at.List{
				"Filter":     l.Filter(func(any) bool { return true }),
				"Map":        l.Map(func(_ int, x any) any { return x }),
				"MapValues":  l.MapValues(func(x any) any { return x }),
				"SubList":    l.SubList(0, n),
				"Concat":     l.Concat(at.NewList()),
				"FilterInts": l.FilterInts(func(int) bool { return true }),
			}
			for name, res := range results {
				if res == l {
					m.fail("%s returned its receiver", name)
					return
				}
				c0 := res.Count()
				res.Add("s1").Add("s2")
				res.Pop()
				res.SetTF(fmt.Sprintf("#%d", res.Count()), "s3")
				res.Insert(0, "s0").Reverse()
				if res.Count() != c0+3 {
					m.fail("mutations of the result of %s did not (all) reach that result: %d elements instead of %d", name, res.Count(), c0+3)
					return
				}
				if canonEnv(m.vars, nil) != before {
					m.fail("mutating the result of %s changed a live container", name)
					return
				}
			}
			sl := l.Slice()
			for i := range sl {
				sl[i] = "overwritten"
			}
			if canonEnv(m.vars, nil) != before {
				m.fail("writing into the slice returned by Slice changed a live container")
				return
			}
		}
		for _, r := range p.objRegs() {
			o := m.object(r)
			lists := map[string]at.List{"Keys": o.Keys(), "Values": o.Values()}
			for name, res := range lists {
				c0 := res.Count()
				res.Add("s1").Add("s2")
				res.Pop()
				if res.Count() != c0+1 || canonEnv(m.vars, nil) != before {
					m.fail("mutating the result of %s changed a live container or missed the result", name)
					return
				}
			}
			objs := map[string]at.Object{
				"Map":       o.Map(func(_ string, x any) any { return x }),
				"MapValues": o.MapValues(func(x any) any { return x }),
				"Merge":     o.Merge(at.NewObject()),
				"Pluck":     o.Pluck(),
			}
			for name, res := range objs {
				if res == o {
					m.fail("Object.%s returned its receiver", name)
					return
				}
				c0 := res.Count()
				res.Set("\x00s1", 1).Set("\x00s2", 2)
				res.SetTF(".\x00s3", 3)
				res.Unset("\x00s1")
				if res.Count() != c0+2 || canonEnv(m.vars, nil) != before {
					m.fail("mutating the result of Object.%s changed a live container or missed the result", name)
					return
				}
			}
			d := o.Dict()
			for k := range d {
				d[k] = "overwritten"
			}
			d["\x00new"] = 1
			if canonEnv(m.vars, nil) != before {
				m.fail("writing into the map returned by Dict changed a live container")
				return
			}
		}
	}) {
		m.fail("deriving a view from a live container and mutating the view panicked")
	}
}

func emitProg(p *Prog, out *Out, chk string) {
	ops := make([]string, len(p.ops))
	for j, o := range p.ops {
		ops[j] = o.coq()
	}
	var tags []string
	for t := range p.tags {
		tags = append(tags, t)
	}
	sort.Strings(tags)
	c := &Case{
		Coq:        fmt.Sprintf("(%s, %s)", coqList(ops), coqList(p.trace)),
		Desc:       map[string]any{"program": p.lines},
		Pred:       p.m.pred, PredMsg: p.m.predMsg,
		Nontrivial: p.nontrv,
		Key:        strings.Join(p.lines, "\n"),
		Tags:       append(tags, fmt.Sprintf("len=%d", len(p.ops)/5*5)),
		Chk:        chk,
	}
	if p.finding != "" {
		c.Extra = map[string]any{"finding": p.finding}
	}
	out.emit(c)
}

// C10 with a derived list that overrides its getters somewhere in the tree (implementation only: the model knows no overrides):
// for every path that step-by-step navigation through the interface methods resolves, GetTF hands back the same value and TypeOfTF its
// kind; one step further (an index equal to Count) is Undefined / a panic
func overridingDerivedCase(r *R) *Case {
	f := &failer{pred: true}
	if try(func() {
		inner := &RevList{List: at.NewList(1, "two", at.NewList(30, 31), at.NewObject("k", 4, "l", at.NewList(5, 6)))}
		inner.Init(inner)
		mid := &RevList{List: at.NewList("x", inner, at.NewObject("deep", inner))}
		mid.Init(mid)
		roots := []any{at.NewObject("r", inner, "m", mid, "plain", at.NewList(0, inner)), at.NewList(mid, 7, inner), inner, mid}
		kindOf := func(x any) at.Type { return at.Type(kindCodeOf(x)) }
		for _, root := range roots {
			var paths []pathInfo
			allPaths(root, "", &paths, 0)
			for _, pi := range paths {
				got, pan := tryVal(func() any { return getTFAny(root, pi.path) })
				if pan || !sameAny(got, pi.val) {
					f.fail("with a derived list that overrides Get/GetList/GetObject/TypeOf in the tree, GetTF(%q) differs from step-by-step navigation through the same methods", pi.path)
					return
				}
				var k at.Type
				switch c := root.(type) {
				case at.List:
					k = c.TypeOfTF(pi.path)
				case at.Object:
					k = c.TypeOfTF(pi.path)
				}
				if k != kindOf(pi.val) {
					f.fail("with an overriding derived list in the tree, TypeOfTF(%q) = %d but the value step-by-step navigation finds has kind %d", pi.path, k, kindOf(pi.val))
					return
				}
			}
		}
	}) {
		f.fail("tree-form reads panicked on a tree holding a derived list that overrides its getters")
	}
	return &Case{Coq: "", Desc: map[string]any{"overriding_derived_list": true}, Pred: f.pred, PredMsg: f.msg, Nontrivial: true, Key: "overriding-derived", Tags: []string{"overriding-derived"}}
}

func genHeap(prof string) genFunc {
	return func(r *R, n int, tier string, out *Out) {
		for i := 0; i < n; i++ {
			p := heapProgram(r, prof)
			if prof == "C10" && i == 0 {
				p = k1Witness(r)
			}
			if prof == "C10" && i == 1 {
				out.emit(overridingDerivedCase(r))
			}
			if prof == "C09" && !p.broken {
				p.viewsOwnStorage()
			}
			emitProg(p, out, "")
		}
	}
}

func init() {
	for _, p := range []string{"C06", "C08", "C10", "C11"} {
		generators[p] = genHeap(p)
	}
}

// the K1 witness, run first on every C10 check: Object(".x", 1).TypeOfTF("..x")
func k1Witness(r *R) *Prog {
	p := &Prog{m: &Machine{pred: true}, r: r, prof: "C10", tags: map[string]bool{}}
	p.do(&Op{Name: "NewObject", Vals: []Operand{{V: vstr(".x")}, {V: vint(1)}}})
	oc := p.do(&Op{Name: "TypeOfTF", R: 0, TF: "..x"})
	p.do(&Op{Name: "GetTF", R: 0, TF: "..x"})
	if oc != "(Ret (OKind KUndefined))" {
		p.finding = "K1"
		p.m.fail("TypeOfTF(\"..x\")=%s on a path with an empty segment (object key starting with a sigil)", oc)
	}
	p.nontrv = false
	return p
}
