package main

// astx: a small translator. It regenerates, from /repo's current source, three fragments of the Coq model where differential
// runs are blind: (a) the synchronisation skeletons of the four async methods, (b) the return-expression classes of every
// List/Object method, (c) the case table of parseVal's type switch. Each is emitted as a Coq file; the development contains
// `generated = modelled` obligations for them.

import (
	"bytes"
	"fmt"
	"go/ast"
	"go/parser"
	"go/printer"
	"go/token"
	"os"
	"path/filepath"
	"sort"
	"strings"
)

func init() {
	commands["astx"] = func(args []string, seed int64, n int, tier, out, replay string) int {
		repo := "/repo"
		if v := os.Getenv("VERIF_REPO"); v != "" {
			repo = v
		}
		if err := runAstx(repo, out); err != nil {
			fmt.Fprintln(os.Stderr, "astx:", err)
			return 1
		}
		return 0
	}
}

func exprString(fset *token.FileSet, e ast.Node) string {
	var b bytes.Buffer
	printer.Fprint(&b, fset, e)
	return b.String()
}

func coqStr(s string) string { return "\"" + strings.ReplaceAll(s, "\"", "\"\"") + "\"" }

type methodInfo struct {
	recv, name, result string
	returns            []string // classes
}

func classifyReturn(fset *token.FileSet, e ast.Expr) string {
	s := exprString(fset, e)
	switch s {
	case "ego.Ego()", "ego.ptr":
		return "REgo"
	case "ego":
		return "RRaw"
	}
	// exactly ego.Ego().M(args)
	if call, ok := e.(*ast.CallExpr); ok {
		if sel, ok := call.Fun.(*ast.SelectorExpr); ok && exprString(fset, sel.X) == "ego.Ego()" {
			return "(RChain (B" + coqStr(sel.Sel.Name) + "))"
		}
	}
	return "ROther"
}

func runAstx(repo, outDir string) error {
	fset := token.NewFileSet()
	pkgs, err := parser.ParseDir(fset, repo, func(fi os.FileInfo) bool { return !strings.HasSuffix(fi.Name(), "_test.go") }, 0)
	if err != nil {
		return err
	}
	pkg := pkgs["anytype"]
	if pkg == nil {
		return fmt.Errorf("package anytype not found in %s", repo)
	}
	var methods []methodInfo
	asyncSkels := map[string]string{}
	var parseValCases []string
	ifaceMethods := map[string][]string{} // interface -> "name:result"
	var fileNames []string
	for fn := range pkg.Files {
		fileNames = append(fileNames, fn)
	}
	sort.Strings(fileNames)
	for _, fn := range fileNames {
		f := pkg.Files[fn]
		for _, d := range f.Decls {
			switch decl := d.(type) {
			case *ast.GenDecl:
				for _, sp := range decl.Specs {
					ts, ok := sp.(*ast.TypeSpec)
					if !ok {
						continue
					}
					it, ok := ts.Type.(*ast.InterfaceType)
					if !ok || (ts.Name.Name != "List" && ts.Name.Name != "Object") {
						continue
					}
					for _, m := range it.Methods.List {
						ft, ok := m.Type.(*ast.FuncType)
						if !ok || len(m.Names) == 0 {
							continue
						}
						res := ""
						if ft.Results != nil && len(ft.Results.List) == 1 {
							res = exprString(fset, ft.Results.List[0].Type)
						}
						ifaceMethods[ts.Name.Name] = append(ifaceMethods[ts.Name.Name], m.Names[0].Name+":"+res)
					}
				}
			case *ast.FuncDecl:
				if decl.Recv == nil {
					if decl.Name.Name == "parseVal" {
						ast.Inspect(decl.Body, func(n ast.Node) bool {
							ts, ok := n.(*ast.TypeSwitchStmt)
							if !ok {
								return true
							}
							for _, c := range ts.Body.List {
								cc := c.(*ast.CaseClause)
								body := ""
								for _, st := range cc.Body {
									body += exprString(fset, st)
								}
								if cc.List == nil {
									parseValCases = append(parseValCases, "(B\"default\", B"+coqStr(body)+")")
								}
								for _, t := range cc.List {
									parseValCases = append(parseValCases, "(B"+coqStr(exprString(fset, t))+", B"+coqStr(body)+")")
								}
							}
							return false
						})
					}
					continue
				}
				recv := exprString(fset, decl.Recv.List[0].Type)
				if recv != "*list" && recv != "*object" {
					continue
				}
				res := ""
				if decl.Type.Results != nil && len(decl.Type.Results.List) == 1 {
					res = exprString(fset, decl.Type.Results.List[0].Type)
				}
				mi := methodInfo{recv: recv, name: decl.Name.Name, result: res}
				if decl.Body != nil {
					// returns of the method itself (not of nested function literals)
					var walk func(n ast.Node) bool
					walk = func(n ast.Node) bool {
						switch x := n.(type) {
						case *ast.FuncLit:
							return false
						case *ast.ReturnStmt:
							if len(x.Results) == 1 {
								mi.returns = append(mi.returns, classifyReturn(fset, x.Results[0]))
							} else if len(x.Results) == 0 {
								mi.returns = append(mi.returns, "ROther")
							}
						}
						return true
					}
					ast.Inspect(decl.Body, walk)
				}
				methods = append(methods, mi)
				if decl.Name.Name == "ForEachAsync" || decl.Name.Name == "MapAsync" {
					asyncSkels[strings.TrimPrefix(recv, "*")+"_"+decl.Name.Name] = asyncSkeleton(fset, decl)
				}
			}
		}
	}
	sort.Slice(methods, func(i, j int) bool {
		if methods[i].recv != methods[j].recv {
			return methods[i].recv < methods[j].recv
		}
		return methods[i].name < methods[j].name
	})
	os.MkdirAll(outDir, 0o755)
	// (b) method table
	var b strings.Builder
	b.WriteString("(* GENERATED by `harness astx` from /repo on every run. Do not edit. *)\nFrom Anytype Require Import Base Derived.\n\n")
	for _, recv := range []string{"*list", "*object"} {
		name := map[string]string{"*list": "gen_list_methods", "*object": "gen_object_methods"}[recv]
		iface := map[string]string{"*list": "List", "*object": "Object"}[recv]
		fmt.Fprintf(&b, "Definition %s : list (bytes * bytes * list ret_class) := [\n", name)
		first := true
		for _, m := range methods {
			if m.recv != recv {
				continue
			}
			if !first {
				b.WriteString(";\n")
			}
			first = false
			fmt.Fprintf(&b, "  (B%s, B%s, [%s])", coqStr(m.name), coqStr(m.result), strings.Join(m.returns, "; "))
		}
		b.WriteString("\n].\n\n")
		ims := ifaceMethods[iface]
		sort.Strings(ims)
		items := make([]string, len(ims))
		for i, im := range ims {
			p := strings.SplitN(im, ":", 2)
			items[i] = "(B" + coqStr(p[0]) + ", B" + coqStr(p[1]) + ")"
		}
		fmt.Fprintf(&b, "Definition gen_%s_interface : list (bytes * bytes) := [\n  %s\n].\n\n", strings.ToLower(iface), strings.Join(items, ";\n  "))
	}
	if err := os.WriteFile(filepath.Join(outDir, "GenFluent.v"), []byte(b.String()), 0o644); err != nil {
		return err
	}
	// (a) async skeletons
	b.Reset()
	b.WriteString("(* GENERATED by `harness astx` from /repo on every run. Do not edit. *)\nFrom Anytype Require Import Base Async.\n\n")
	var keys []string
	for k := range asyncSkels {
		keys = append(keys, k)
	}
	sort.Strings(keys)
	for _, k := range keys {
		fmt.Fprintf(&b, "Definition gen_%s : skel := %s.\n", k, asyncSkels[k])
	}
	if err := os.WriteFile(filepath.Join(outDir, "GenAsync.v"), []byte(b.String()), 0o644); err != nil {
		return err
	}
	// (c) parseVal case table
	b.Reset()
	b.WriteString("(* GENERATED by `harness astx` from /repo on every run. Do not edit. *)\nFrom Anytype Require Import Base.\n\n")
	fmt.Fprintf(&b, "Definition gen_parseval_cases : list (bytes * bytes) := [\n  %s\n].\n", strings.Join(parseValCases, ";\n  "))
	return os.WriteFile(filepath.Join(outDir, "GenParseVal.v"), []byte(b.String()), 0o644)
}

// the ordered synchronisation-relevant statements of an async method and of its worker closure
func asyncSkeleton(fset *token.FileSet, decl *ast.FuncDecl) string {
	var mainI, workI []string
	var stepLit *ast.FuncLit
	stepParams := map[string]bool{}
	// find `step := func(...) {...}`
	ast.Inspect(decl.Body, func(n ast.Node) bool {
		as, ok := n.(*ast.AssignStmt)
		if !ok || len(as.Lhs) != 1 || len(as.Rhs) != 1 {
			return true
		}
		if id, ok := as.Lhs[0].(*ast.Ident); ok && id.Name == "step" {
			if fl, ok := as.Rhs[0].(*ast.FuncLit); ok {
				stepLit = fl
				for _, p := range fl.Type.Params.List {
					for _, nm := range p.Names {
						stepParams[nm.Name] = true
					}
				}
			}
		}
		return true
	})
	callName := func(e ast.Expr) string {
		if c, ok := e.(*ast.CallExpr); ok {
			return exprString(fset, c.Fun)
		}
		return ""
	}
	var walkMain func(stmts []ast.Stmt)
	walkMain = func(stmts []ast.Stmt) {
		for _, st := range stmts {
			switch x := st.(type) {
			case *ast.ExprStmt:
				switch fn := callName(x.X); {
				case strings.HasSuffix(fn, ".Add") && strings.HasPrefix(fn, "wg"):
					arg := exprString(fset, x.X.(*ast.CallExpr).Args[0])
					if strings.Contains(arg, "Count()") {
						mainI = append(mainI, "MAdd")
					} else {
						mainI = append(mainI, "(MOther (B"+coqStr("wg.Add("+arg+")")+"))")
					}
				case fn == "wg.Wait":
					mainI = append(mainI, "MWait")
				}
			case *ast.AssignStmt:
				if len(x.Lhs) == 1 {
					if id, ok := x.Lhs[0].(*ast.Ident); ok && id.Name == "result" {
						mainI = append(mainI, "MMakeResult")
					}
				}
			case *ast.RangeStmt:
				// the spawn loop: `go step(&wg, i, item.getVal())`
				for _, bs := range x.Body.List {
					switch g := bs.(type) {
					case *ast.GoStmt:
						byValue := true
						if id, ok := g.Call.Fun.(*ast.Ident); !ok || id.Name != "step" {
							byValue = false // a closure literal started directly: captures the loop variables
						}
						if len(g.Call.Args) != 3 {
							byValue = false
						}
						if byValue {
							mainI = append(mainI, "(MSpawn true)")
						} else {
							mainI = append(mainI, "(MSpawn false)")
						}
					case *ast.ExprStmt:
						if fn := callName(g.X); strings.HasSuffix(fn, ".Add") && strings.HasPrefix(fn, "wg") {
							mainI = append(mainI, "(MOther (B"+coqStr("wg.Add inside the loop")+"))")
						} else if fn != "" {
							mainI = append(mainI, "(MOther (B"+coqStr(fn+" in the spawn loop without go")+"))")
						}
					}
				}
			case *ast.ReturnStmt:
				mainI = append(mainI, "MRet")
			}
		}
	}
	walkMain(decl.Body.List)
	if stepLit != nil {
		for _, st := range stepLit.Body.List {
			es, ok := st.(*ast.ExprStmt)
			if !ok {
				workI = append(workI, "(WOther (B"+coqStr(exprString(fset, st))+"))")
				continue
			}
			fn := callName(es.X)
			src := exprString(fset, es.X)
			switch {
			case fn == "mutex.Lock":
				workI = append(workI, "WLock")
			case fn == "mutex.Unlock":
				workI = append(workI, "WUnlock")
			case fn == "group.Done":
				workI = append(workI, "WDone")
			case fn == "function":
				workI = append(workI, "WCall")
			case (fn == "result.Replace" || fn == "result.Set") && strings.Contains(src, "function("):
				workI = append(workI, "WCallStore")
			default:
				workI = append(workI, "(WOther (B"+coqStr(src)+"))")
			}
		}
	}
	return fmt.Sprintf("mkSkel [%s] [%s]", strings.Join(mainI, "; "), strings.Join(workI, "; "))
}
