package main

// astx: a small translator. It regenerates, from /repo's current source, three fragments of the Coq model where differential
// runs are blind: (a) the synchronisation skeletons of the four async methods, (b) the return-expression classes of every
// List/Object method, (c) the case table of parseVal's type switch. Each is emitted as a Coq file; the development contains
// `generated = modelled` obligations for them.

import (
	"bytes"
	"fmt"
	"go/ast"
	"go/parser"
	"go/printer"
	"go/token"
	"os"
	"path/filepath"
	"sort"
	"strconv"
	"strings"
)

func init() {
	commands["astx"] = func(args []string, seed int64, n int, tier, out, replay string) int {
		repo := "/repo"
		if v := os.Getenv("VERIF_REPO"); v != "" {
			repo = v
		}
		if err := runAstx(repo, out); err != nil {
			fmt.Fprintln(os.Stderr, "astx:", err)
			return 1
		}
		return 0
	}
}

func exprString(fset *token.FileSet, e ast.Node) string {
	var b bytes.Buffer
	printer.Fprint(&b, fset, e)
	return b.String()
}

func coqStr(s string) string { return "\"" + strings.ReplaceAll(s, "\"", "\"\"") + "\"" }

type methodInfo struct {
	recv, name, result string
	returns            []string // classes
}

func classifyReturn(fset *token.FileSet, e ast.Expr) string {
	s := exprString(fset, e)
	switch s {
	case "ego.Ego()", "ego.ptr":
		return "REgo"
	case "ego":
		return "RRaw"
	}
	// exactly ego.Ego().M(args)
	if call, ok := e.(*ast.CallExpr); ok {
		if sel, ok := call.Fun.(*ast.SelectorExpr); ok && exprString(fset, sel.X) == "ego.Ego()" {
			return "(RChain (B" + coqStr(sel.Sel.Name) + "))"
		}
		// ego.helper(args): a method of the same receiver type; inside it `ego` is the same innermost value, so what it returns is
		// decided by ITS return statements (the method table contains the unexported methods too)
		if sel, ok := call.Fun.(*ast.SelectorExpr); ok && exprString(fset, sel.X) == "ego" {
			return "(RChain (B" + coqStr(sel.Sel.Name) + "))"
		}
		// a constructor call or a conversion of a fresh copy: a new container
		fn := exprString(fset, call.Fun)
		switch fn {
		case "NewList", "NewObject", "NewListOf", "NewListFrom", "NewObjectFrom":
			return "ROther"
		}
		return "RUnknown" // some other call: the translator cannot tell what it returns
	}
	switch x := e.(type) {
	case *ast.Ident: // a local (result, obj, list ...), nil
		_ = x
		return "ROther"
	case *ast.BasicLit, *ast.CompositeLit, *ast.UnaryExpr, *ast.BinaryExpr, *ast.TypeAssertExpr, *ast.IndexExpr, *ast.SelectorExpr:
		return "ROther"
	}
	return "RUnknown"
}

func runAstx(repo, outDir string) error {
	fset := token.NewFileSet()
	pkgs, err := parser.ParseDir(fset, repo, func(fi os.FileInfo) bool { return !strings.HasSuffix(fi.Name(), "_test.go") }, 0)
	if err != nil {
		return err
	}
	pkg := pkgs["anytype"]
	if pkg == nil {
		return fmt.Errorf("package anytype not found in %s", repo)
	}
	var methods []methodInfo
	asyncSkels := map[string]string{}
	var parseValCases []string
	quoteTable := "None"
	var typeConsts []string
	var formatGuards []string
	ifaceMethods := map[string][]string{} // interface -> "name:result"
	var fileNames []string
	for fn := range pkg.Files {
		fileNames = append(fileNames, fn)
	}
	sort.Strings(fileNames)
	for _, fn := range fileNames { // pre-pass: package-level integer constants with a literal value
		for _, d := range pkg.Files[fn].Decls {
			gd, ok := d.(*ast.GenDecl)
			if !ok || gd.Tok != token.CONST {
				continue
			}
			for _, sp := range gd.Specs {
				vs, ok := sp.(*ast.ValueSpec)
				if !ok || len(vs.Names) != len(vs.Values) {
					continue
				}
				for i, nm := range vs.Names {
					if bl, ok := vs.Values[i].(*ast.BasicLit); ok && bl.Kind == token.INT {
						if x, err := strconv.ParseInt(bl.Value, 0, 64); err == nil {
							pkgIntConsts[nm.Name] = x
						}
					}
				}
			}
		}
	}
	for _, fn := range fileNames {
		f := pkg.Files[fn]
		for _, d := range f.Decls {
			switch decl := d.(type) {
			case *ast.GenDecl:
				if decl.Tok == token.CONST {
					typeConsts = append(typeConsts, typeConstTable(decl)...)
				}
				for _, sp := range decl.Specs {
					ts, ok := sp.(*ast.TypeSpec)
					if !ok {
						continue
					}
					it, ok := ts.Type.(*ast.InterfaceType)
					if !ok || (ts.Name.Name != "List" && ts.Name.Name != "Object") {
						continue
					}
					for _, m := range it.Methods.List {
						ft, ok := m.Type.(*ast.FuncType)
						if !ok || len(m.Names) == 0 {
							continue
						}
						res := ""
						if ft.Results != nil && len(ft.Results.List) == 1 {
							res = exprString(fset, ft.Results.List[0].Type)
						}
						ifaceMethods[ts.Name.Name] = append(ifaceMethods[ts.Name.Name], m.Names[0].Name+":"+res)
					}
				}
			case *ast.FuncDecl:
				if decl.Recv == nil {
					if decl.Name.Name == "quote" {
						quoteTable = quoteCases(fset, decl)
					}
					if decl.Name.Name == "parseVal" {
						// the type switch, plus what happens when no case matches (a default clause, or the statement after the switch);
						// the wording of the panic is not part of the contract
						normalise := func(body string) string {
							if strings.HasPrefix(body, "panic(") {
								return "panic"
							}
							return body
						}
						hasDefault := false
						for idx, st := range decl.Body.List {
							ts, ok := st.(*ast.TypeSwitchStmt)
							if !ok {
								continue
							}
							for _, c := range ts.Body.List {
								cc := c.(*ast.CaseClause)
								body := ""
								for _, st := range cc.Body {
									body += exprString(fset, st)
								}
								if cc.List == nil {
									hasDefault = true
									parseValCases = append(parseValCases, "(B\"default\", B"+coqStr(normalise(body))+")")
								}
								for _, t := range cc.List {
									parseValCases = append(parseValCases, "(B"+coqStr(exprString(fset, t))+", B"+coqStr(normalise(body))+")")
								}
							}
							if !hasDefault && idx+1 < len(decl.Body.List) {
								parseValCases = append(parseValCases, "(B\"default\", B"+coqStr(normalise(exprString(fset, decl.Body.List[idx+1])))+")")
							}
						}
					}
					continue
				}
				recv := exprString(fset, decl.Recv.List[0].Type)
				if recv != "*list" && recv != "*object" {
					continue
				}
				res := ""
				if decl.Type.Results != nil && len(decl.Type.Results.List) == 1 {
					res = exprString(fset, decl.Type.Results.List[0].Type)
				}
				mi := methodInfo{recv: recv, name: decl.Name.Name, result: res}
				if decl.Body != nil {
					// returns of the method itself (not of nested function literals)
					var walk func(n ast.Node) bool
					walk = func(n ast.Node) bool {
						switch x := n.(type) {
						case *ast.FuncLit:
							return false
						case *ast.ReturnStmt:
							if len(x.Results) == 1 {
								mi.returns = append(mi.returns, classifyReturn(fset, x.Results[0]))
							} else if len(x.Results) == 0 {
								mi.returns = append(mi.returns, "ROther")
							}
						}
						return true
					}
					ast.Inspect(decl.Body, walk)
				}
				methods = append(methods, mi)
				if decl.Name.Name == "FormatString" && decl.Body != nil {
					formatGuards = append(formatGuards, "(B"+coqStr(strings.TrimPrefix(recv, "*"))+", "+formatGuard(fset, decl)+")")
				}
				if decl.Name.Name == "ForEachAsync" || decl.Name.Name == "MapAsync" {
					asyncSkels[strings.TrimPrefix(recv, "*")+"_"+decl.Name.Name] = asyncSkeleton(fset, decl)
				}
			}
		}
	}
	sort.Slice(methods, func(i, j int) bool {
		if methods[i].recv != methods[j].recv {
			return methods[i].recv < methods[j].recv
		}
		return methods[i].name < methods[j].name
	})
	os.MkdirAll(outDir, 0o755)
	// (b) method table
	var b strings.Builder
	b.WriteString("(* GENERATED by `harness astx` from /repo on every run. Do not edit. *)\nFrom Anytype Require Import Base Derived.\n\n")
	for _, recv := range []string{"*list", "*object"} {
		name := map[string]string{"*list": "gen_list_methods", "*object": "gen_object_methods"}[recv]
		iface := map[string]string{"*list": "List", "*object": "Object"}[recv]
		fmt.Fprintf(&b, "Definition %s : list (bytes * bytes * list ret_class) := [\n", name)
		first := true
		for _, m := range methods {
			if m.recv != recv {
				continue
			}
			if !first {
				b.WriteString(";\n")
			}
			first = false
			fmt.Fprintf(&b, "  (B%s, B%s, [%s])", coqStr(m.name), coqStr(m.result), strings.Join(m.returns, "; "))
		}
		b.WriteString("\n].\n\n")
		ims := ifaceMethods[iface]
		sort.Strings(ims)
		items := make([]string, len(ims))
		for i, im := range ims {
			p := strings.SplitN(im, ":", 2)
			items[i] = "(B" + coqStr(p[0]) + ", B" + coqStr(p[1]) + ")"
		}
		fmt.Fprintf(&b, "Definition gen_%s_interface : list (bytes * bytes) := [\n  %s\n].\n\n", strings.ToLower(iface), strings.Join(items, ";\n  "))
	}
	if err := os.WriteFile(filepath.Join(outDir, "GenFluent.v"), []byte(b.String()), 0o644); err != nil {
		return err
	}
	// (a) async skeletons
	b.Reset()
	b.WriteString("(* GENERATED by `harness astx` from /repo on every run. Do not edit. *)\nFrom Anytype Require Import Base Async.\n\n")
	var keys []string
	for k := range asyncSkels {
		keys = append(keys, k)
	}
	sort.Strings(keys)
	for _, k := range keys {
		fmt.Fprintf(&b, "Definition gen_%s : option skel := %s.\n", k, asyncSkels[k])
	}
	if err := os.WriteFile(filepath.Join(outDir, "GenAsync.v"), []byte(b.String()), 0o644); err != nil {
		return err
	}
	// (c) parseVal case table
	b.Reset()
	b.WriteString("(* GENERATED by `harness astx` from /repo on every run. Do not edit. *)\nFrom Anytype Require Import Base.\n\n")
	// every case body must be one of the actions the model knows (the stored value as it is, one of the two conversions, one of the
	// scalar wrappers with or without a numeric conversion, newNil, panic); a switch that delegates to helpers or is spread over
	// several functions is not read: None (the type-switch theorem then does not speak about this tree, the differential runs do)
	recognised := len(parseValCases) > 0
	for _, c := range parseValCases {
		ok := false
		for _, a := range []string{"return v\")", "return NewObjectFrom(v)\")", "return NewListFrom(v)\")", "return newString(v)\")", "return newBool(v)\")", "return newInt(v)\")",
			"return newInt(int(v))\")", "return newFloat(v)\")", "return newFloat(float64(v))\")", "return newNil()\")", "B\"panic\")"} {
			if strings.HasSuffix(c, a) {
				ok = true
			}
		}
		if !ok {
			recognised = false
		}
	}
	if recognised {
		fmt.Fprintf(&b, "Definition gen_parseval_cases : option (list (bytes * bytes)) := Some [\n  %s\n].\n", strings.Join(parseValCases, ";\n  "))
	} else {
		b.WriteString("Definition gen_parseval_cases : option (list (bytes * bytes)) := None.\n")
	}
	if err := os.WriteFile(filepath.Join(outDir, "GenParseVal.v"), []byte(b.String()), 0o644); err != nil {
		return err
	}
	// (d) quote()'s escape table, the Type constants, the FormatString range guards
	b.Reset()
	b.WriteString("(* GENERATED by `harness astx` from /repo on every run. Do not edit. *)\nFrom Anytype Require Import Base SourceTables.\nLocal Open Scope Z_scope.\n\n")
	fmt.Fprintf(&b, "Definition gen_quote_table : option (bytes * bytes * list qcase) := %s.\n\n", quoteTable)
	fmt.Fprintf(&b, "Definition gen_type_consts : list (bytes * Z) := [\n  %s\n].\n\n", strings.Join(typeConsts, ";\n  "))
	sort.Strings(formatGuards)
	fmt.Fprintf(&b, "Definition gen_format_guards : list (bytes * guard) := [\n  %s\n].\n", strings.Join(formatGuards, ";\n  "))
	return os.WriteFile(filepath.Join(outDir, "GenTables.v"), []byte(b.String()), 0o644)
}

// the constants of type Type: an iota block (or explicit values)
func typeConstTable(decl *ast.GenDecl) []string {
	var out []string
	isType := false
	for i, sp := range decl.Specs {
		vs, ok := sp.(*ast.ValueSpec)
		if !ok {
			continue
		}
		if vs.Type != nil {
			id, ok := vs.Type.(*ast.Ident)
			isType = ok && id.Name == "Type"
		} else if len(vs.Values) > 0 {
			isType = false
		}
		if !isType {
			continue
		}
		for _, n := range vs.Names {
			val := int64(i) // implicit repetition of iota
			if len(vs.Values) == 1 {
				switch v := vs.Values[0].(type) {
				case *ast.Ident:
					if v.Name != "iota" {
						val = -1
					}
				case *ast.BasicLit:
					if x, err := strconv.ParseInt(v.Value, 0, 64); err == nil {
						val = x
					} else {
						val = -1
					}
				default:
					val = -1
				}
			}
			out = append(out, fmt.Sprintf("(B%s, %d)", coqStr(n.Name), val))
		}
	}
	return out
}

// package-level untyped integer constants (`const maxIndent = 10`), filled by runAstx before the tables are read
var pkgIntConsts = map[string]int64{}

func runeOfLit(e ast.Expr) (int64, bool) {
	if id, ok := e.(*ast.Ident); ok {
		v, ok := pkgIntConsts[id.Name]
		return v, ok
	}
	bl, ok := e.(*ast.BasicLit)
	if !ok {
		return 0, false
	}
	switch bl.Kind {
	case token.CHAR:
		s, err := strconv.Unquote(bl.Value)
		if err != nil {
			return 0, false
		}
		r := []rune(s)
		if len(r) != 1 {
			return 0, false
		}
		return int64(r[0]), true
	case token.INT:
		x, err := strconv.ParseInt(bl.Value, 0, 64)
		return x, err == nil
	}
	return 0, false
}

func strOfLit(e ast.Expr) (string, bool) {
	bl, ok := e.(*ast.BasicLit)
	if !ok || bl.Kind != token.STRING {
		return "", false
	}
	s, err := strconv.Unquote(bl.Value)
	return s, err == nil
}

func coqByteList(s string) string {
	items := make([]string, len(s))
	for i := 0; i < len(s); i++ {
		items[i] = fmt.Sprintf("x%02x", s[i])
	}
	return "[" + strings.Join(items, "; ") + "]"
}

// quote(): for _, char := range str { switch { case char == C: WriteString(lit) ... case char < 0x20: \u00 + two hex digits; default: WriteRune } }
// rendered as a table; tolerant of a tagged switch, an if/else chain, several values per case and WriteByte/WriteString spellings.
// Whatever is not recognised becomes QOther with the source text, which no table check accepts.
func quoteCases(fset *token.FileSet, decl *ast.FuncDecl) string {
	if decl.Body == nil {
		return "None"
	}
	var rng *ast.RangeStmt
	ast.Inspect(decl.Body, func(n ast.Node) bool {
		if r, ok := n.(*ast.RangeStmt); ok && rng == nil {
			rng = r
			return false
		}
		return true
	})
	if rng == nil || rng.Value == nil {
		return "None"
	}
	cv, ok := rng.Value.(*ast.Ident)
	if !ok {
		return "None"
	}
	hexConst := ""
	ast.Inspect(decl.Body, func(n ast.Node) bool {
		if vs, ok := n.(*ast.ValueSpec); ok && len(vs.Names) == 1 && len(vs.Values) == 1 {
			if s, ok := strOfLit(vs.Values[0]); ok {
				hexConst = vs.Names[0].Name + "=" + s
			}
		}
		return true
	})
	isVar := func(e ast.Expr) bool { id, ok := e.(*ast.Ident); return ok && id.Name == cv.Name }
	// the bytes a body writes: concatenation of literal writes, or the special forms
	writes := func(body []ast.Stmt) string {
		lit := ""
		hexDigits := 0
		rune_ := false
		for _, st := range body {
			es, ok := st.(*ast.ExprStmt)
			if !ok {
				return "QOther B" + coqStr(exprString(fset, st))
			}
			call, ok := es.X.(*ast.CallExpr)
			if !ok || len(call.Args) != 1 {
				return "QOther B" + coqStr(exprString(fset, st))
			}
			sel, ok := call.Fun.(*ast.SelectorExpr)
			if !ok {
				return "QOther B" + coqStr(exprString(fset, st))
			}
			arg := call.Args[0]
			switch sel.Sel.Name {
			case "WriteString":
				s, ok := strOfLit(arg)
				if !ok || hexDigits > 0 || rune_ {
					return "QOther B" + coqStr(exprString(fset, st))
				}
				lit += s
			case "WriteByte":
				if c, ok := runeOfLit(arg); ok && c < 128 && hexDigits == 0 && !rune_ {
					lit += string(rune(c))
					continue
				}
				// hex[char>>4] then hex[char&0xf]
				src := strings.ReplaceAll(exprString(fset, arg), " ", "")
				hi := fmt.Sprintf("hex[%s>>4]", cv.Name)
				lo1 := fmt.Sprintf("hex[%s&0xf]", cv.Name)
				lo2 := fmt.Sprintf("hex[%s&15]", cv.Name)
				lo3 := fmt.Sprintf("hex[%s&0xF]", cv.Name)
				if hexConst == "hex=0123456789abcdef" && hexDigits == 0 && src == hi {
					hexDigits = 1
				} else if hexDigits == 1 && (src == lo1 || src == lo2 || src == lo3) {
					hexDigits = 2
				} else {
					return "QOther B" + coqStr(exprString(fset, st))
				}
			case "WriteRune":
				if !isVar(arg) || lit != "" || hexDigits > 0 {
					return "QOther B" + coqStr(exprString(fset, st))
				}
				rune_ = true
			default:
				return "QOther B" + coqStr(exprString(fset, st))
			}
		}
		switch {
		case rune_:
			return "WRune"
		case hexDigits == 2:
			return "WHex " + coqByteList(lit)
		case hexDigits == 0:
			return "WLit " + coqByteList(lit)
		}
		return "QOther B\"incomplete hex\""
	}
	var cases []string
	emit := func(cond ast.Expr, tagged bool, body []ast.Stmt) {
		w := writes(body)
		if strings.HasPrefix(w, "QOther") {
			cases = append(cases, w)
			return
		}
		if cond == nil {
			cases = append(cases, "QDefault ("+w+")")
			return
		}
		if tagged {
			if c, ok := runeOfLit(cond); ok {
				cases = append(cases, fmt.Sprintf("QEq %d (%s)", c, w))
				return
			}
		} else if be, ok := cond.(*ast.BinaryExpr); ok && isVar(be.X) {
			if c, ok := runeOfLit(be.Y); ok {
				switch be.Op {
				case token.EQL:
					cases = append(cases, fmt.Sprintf("QEq %d (%s)", c, w))
					return
				case token.LSS:
					cases = append(cases, fmt.Sprintf("QLt %d (%s)", c, w))
					return
				case token.LEQ:
					cases = append(cases, fmt.Sprintf("QLt %d (%s)", c+1, w))
					return
				}
			}
		}
		cases = append(cases, "QOther B"+coqStr(exprString(fset, cond)))
	}
	if len(rng.Body.List) != 1 {
		return "None"
	}
	switch st := rng.Body.List[0].(type) {
	case *ast.SwitchStmt:
		tagged := false
		if st.Tag != nil {
			if !isVar(st.Tag) {
				return "None"
			}
			tagged = true
		}
		var def []ast.Stmt
		hasDef := false
		for _, c := range st.Body.List {
			cc := c.(*ast.CaseClause)
			if cc.List == nil {
				def, hasDef = cc.Body, true
				continue
			}
			for _, cond := range cc.List {
				emit(cond, tagged, cc.Body)
			}
		}
		if hasDef { // Go's default applies when no case matches, wherever it is written
			emit(nil, tagged, def)
		}
	case *ast.IfStmt:
		var cur ast.Stmt = st
		for cur != nil {
			switch x := cur.(type) {
			case *ast.IfStmt:
				if x.Init != nil {
					return "None"
				}
				emit(x.Cond, false, x.Body.List)
				cur = x.Else
			case *ast.BlockStmt:
				emit(nil, false, x.List)
				cur = nil
			default:
				return "None"
			}
		}
	default:
		return "None"
	}
	// the frame: what is written before and after the loop
	frame := func(stmts []ast.Stmt) string {
		lit := ""
		for _, st := range stmts {
			es, ok := st.(*ast.ExprStmt)
			if !ok {
				continue
			}
			call, ok := es.X.(*ast.CallExpr)
			if !ok || len(call.Args) != 1 {
				continue
			}
			sel, ok := call.Fun.(*ast.SelectorExpr)
			if !ok {
				continue
			}
			if sel.Sel.Name == "WriteByte" {
				if c, ok := runeOfLit(call.Args[0]); ok && c < 128 {
					lit += string(rune(c))
				}
			} else if sel.Sel.Name == "WriteString" {
				if s, ok := strOfLit(call.Args[0]); ok {
					lit += s
				}
			}
		}
		return coqByteList(lit)
	}
	idx := -1
	for i, st := range decl.Body.List {
		if st == ast.Stmt(rng) {
			idx = i
		}
	}
	if idx < 0 {
		return "None"
	}
	for _, c := range cases {
		if strings.HasPrefix(c, "QOther") {
			// part of the switch is written in a way this translator does not read: no table, the tie for quote() is then the
			// correspondence check alone (a table is only emitted when EVERY case was understood)
			return "None (* not recognised: " + strings.ReplaceAll(strings.ReplaceAll(c, "*)", "* )"), "\"", "'") + " *)"
		}
	}
	return fmt.Sprintf("Some (%s, %s, [\n  %s])", frame(decl.Body.List[:idx]), frame(decl.Body.List[idx+1:]), strings.Join(cases, ";\n  "))
}

// FormatString's range guard: the first `if <cond> { panic(...) }` of the method, as a disjunction/conjunction of comparisons of
// the parameter with integer literals
func formatGuard(fset *token.FileSet, decl *ast.FuncDecl) string {
	param := ""
	if decl.Type.Params != nil && len(decl.Type.Params.List) == 1 && len(decl.Type.Params.List[0].Names) == 1 {
		param = decl.Type.Params.List[0].Names[0].Name
	}
	// comparison of the parameter with a literal, in either order, possibly negated (negation is pushed to the leaves)
	var conv func(e ast.Expr, neg bool) string
	atom := func(op token.Token, c int64, neg bool) string {
		// normalise to  param < c  /  param > c  over the integers
		if neg {
			switch op {
			case token.LSS:
				op = token.GEQ
			case token.LEQ:
				op = token.GTR
			case token.GTR:
				op = token.LEQ
			case token.GEQ:
				op = token.LSS
			}
		}
		switch op {
		case token.LSS:
			return fmt.Sprintf("(GLt %d)", c)
		case token.LEQ:
			return fmt.Sprintf("(GLt %d)", c+1)
		case token.GTR:
			return fmt.Sprintf("(GGt %d)", c)
		case token.GEQ:
			return fmt.Sprintf("(GGt %d)", c-1)
		}
		return ""
	}
	flip := map[token.Token]token.Token{token.LSS: token.GTR, token.GTR: token.LSS, token.LEQ: token.GEQ, token.GEQ: token.LEQ}
	conv = func(e ast.Expr, neg bool) string {
		switch x := e.(type) {
		case *ast.ParenExpr:
			return conv(x.X, neg)
		case *ast.UnaryExpr:
			if x.Op == token.NOT {
				return conv(x.X, !neg)
			}
		case *ast.BinaryExpr:
			switch x.Op {
			case token.LOR, token.LAND:
				or := (x.Op == token.LOR) != neg // De Morgan
				if or {
					return "(GOr " + conv(x.X, neg) + " " + conv(x.Y, neg) + ")"
				}
				return "(GAnd " + conv(x.X, neg) + " " + conv(x.Y, neg) + ")"
			case token.LSS, token.GTR, token.LEQ, token.GEQ:
				if id, ok := x.X.(*ast.Ident); ok && id.Name == param {
					if c, ok := runeOfLit(x.Y); ok {
						return atom(x.Op, c, neg)
					}
				}
				if id, ok := x.Y.(*ast.Ident); ok && id.Name == param {
					if c, ok := runeOfLit(x.X); ok {
						return atom(flip[x.Op], c, neg)
					}
				}
			}
		}
		return "(GOther B" + coqStr(exprString(fset, e)) + ")"
	}
	isPanicIf := func(st ast.Stmt) (ast.Expr, bool) {
		is, ok := st.(*ast.IfStmt)
		if !ok || is.Init != nil || is.Else != nil || len(is.Body.List) == 0 {
			return nil, false
		}
		if es, ok := is.Body.List[0].(*ast.ExprStmt); ok {
			if call, ok := es.X.(*ast.CallExpr); ok {
				if id, ok := call.Fun.(*ast.Ident); ok && id.Name == "panic" {
					return is.Cond, true
				}
			}
		}
		return nil, false
	}
	// the guard = disjunction of the conditions of the panic-ifs that open the method (before anything else happens)
	g := ""
	for _, st := range decl.Body.List {
		cond, ok := isPanicIf(st)
		if !ok {
			break
		}
		c := conv(cond, false)
		if g == "" {
			g = c
		} else {
			g = "(GOr " + g + " " + c + ")"
		}
	}
	if g == "" {
		return "GNone"
	}
	return g
}

// the ordered synchronisation-relevant statements of an async method and of its worker (a `step` closure started with
// `go step(&wg, i, x)`, or a function literal started directly with `go func(i, x){...}(i, x)`)
func asyncSkeleton(fset *token.FileSet, decl *ast.FuncDecl) string {
	var mainI, workI []string
	var workerBody *ast.BlockStmt
	// names, read from the declaration itself rather than assumed: the callback parameter, the WaitGroup variables (locals and
	// *sync.WaitGroup parameters of closures), the closures assigned to locals, the variable that is returned, simple locals
	callback := "function"
	if decl.Type.Params != nil && len(decl.Type.Params.List) >= 1 && len(decl.Type.Params.List[0].Names) >= 1 {
		callback = decl.Type.Params.List[0].Names[0].Name
	}
	isWGType := func(e ast.Expr) bool {
		t := strings.TrimPrefix(exprString(fset, e), "*")
		return t == "sync.WaitGroup"
	}
	wgNames := map[string]bool{}
	closures := map[string]*ast.FuncLit{}
	locals := map[string]string{}
	resultName := ""
	ast.Inspect(decl.Body, func(n ast.Node) bool {
		switch x := n.(type) {
		case *ast.ValueSpec:
			if x.Type != nil && isWGType(x.Type) {
				for _, nm := range x.Names {
					wgNames[nm.Name] = true
				}
			}
		case *ast.AssignStmt:
			if len(x.Lhs) == 1 && len(x.Rhs) == 1 {
				if id, ok := x.Lhs[0].(*ast.Ident); ok {
					rhs := exprString(fset, x.Rhs[0])
					if fl, ok := x.Rhs[0].(*ast.FuncLit); ok {
						closures[id.Name] = fl
					} else if rhs == "sync.WaitGroup{}" || rhs == "&sync.WaitGroup{}" || rhs == "new(sync.WaitGroup)" {
						wgNames[id.Name] = true
					} else if x.Tok == token.DEFINE {
						locals[id.Name] = rhs
					}
				}
			}
		case *ast.FuncLit:
			for _, p := range x.Type.Params.List {
				if isWGType(p.Type) {
					for _, nm := range p.Names {
						wgNames[nm.Name] = true
					}
				}
			}
		case *ast.ReturnStmt:
			if len(x.Results) == 1 {
				if id, ok := x.Results[0].(*ast.Ident); ok {
					resultName = id.Name
				}
			}
		}
		return true
	})
	// `pending.Add`, `group.Done` ... -> the method name when the receiver is one of the WaitGroup variables
	wgCall := func(fn string) string {
		i := strings.LastIndex(fn, ".")
		if i < 0 {
			return ""
		}
		recv := strings.TrimPrefix(strings.TrimPrefix(fn[:i], "(*"), "&")
		recv = strings.TrimSuffix(recv, ")")
		if wgNames[recv] {
			return fn[i+1:]
		}
		return ""
	}
	callName := func(e ast.Expr) string {
		if c, ok := e.(*ast.CallExpr); ok {
			return exprString(fset, c.Fun)
		}
		return ""
	}
	usesIdent := func(n ast.Node, names map[string]bool) bool {
		found := false
		ast.Inspect(n, func(x ast.Node) bool {
			if id, ok := x.(*ast.Ident); ok && names[id.Name] {
				found = true
			}
			return true
		})
		return found
	}
	spawnLoop := func(loopBody *ast.BlockStmt, loopVars map[string]bool, loopDefines bool) {
		for _, bs := range loopBody.List {
			switch g := bs.(type) {
			case *ast.GoStmt:
				byValue := false
				switch fun := g.Call.Fun.(type) {
				case *ast.Ident: // go step(&wg, i, item.getVal()): a closure defined before the loop gets its arguments by value
					if fl, ok := closures[fun.Name]; ok {
						workerBody = fl.Body
						nonWG := 0
						for _, p := range fl.Type.Params.List {
							if !isWGType(p.Type) {
								nonWG += len(p.Names)
							}
						}
						// a closure defined before a `for k, v := range` loop cannot see the loop's variables at all; with
						// `=` (outer variables) it could, unless its own parameters shadow them
						captured := map[string]bool{}
						if !loopDefines {
							for v := range loopVars {
								captured[v] = true
							}
							for _, p := range fl.Type.Params.List {
								for _, nm := range p.Names {
									delete(captured, nm.Name)
								}
							}
						}
						byValue = nonWG >= 2 && len(g.Call.Args) >= 2 && !usesIdent(fl.Body, captured)
					}
				case *ast.FuncLit: // go func(i, x) {...}(i, item.getVal())
					workerBody = fun.Body
					// by value iff the literal's body does not mention the loop variables (they only appear in the call's arguments),
					// unless a parameter of the same name shadows them
					shadow := map[string]bool{}
					for _, p := range fun.Type.Params.List {
						for _, nm := range p.Names {
							shadow[nm.Name] = true
						}
					}
					captured := map[string]bool{}
					for v := range loopVars {
						if !shadow[v] {
							captured[v] = true
						}
					}
					byValue = len(g.Call.Args) >= 2 && !usesIdent(fun.Body, captured)
				}
				if byValue {
					mainI = append(mainI, "(MSpawn true)")
				} else {
					mainI = append(mainI, "(MSpawn false)")
				}
			case *ast.ExprStmt:
				if fn := callName(g.X); wgCall(fn) == "Add" {
					mainI = append(mainI, "(MOther (B"+coqStr("wg.Add inside the loop")+"))")
				} else if fn != "" {
					mainI = append(mainI, "(MOther (B"+coqStr(fn+" in the spawn loop without go")+"))")
				}
			}
		}
	}
	var walkMain func(stmts []ast.Stmt)
	walkMain = func(stmts []ast.Stmt) {
		for _, st := range stmts {
			switch x := st.(type) {
			case *ast.ExprStmt:
				switch fn := callName(x.X); {
				case wgCall(fn) == "Add":
					arg := exprString(fset, x.X.(*ast.CallExpr).Args[0])
					if def, ok := locals[arg]; ok { // n := ego.Count(); wg.Add(n)
						arg = def
					}
					if strings.Contains(arg, "Count()") || strings.Contains(arg, "len(ego.val)") {
						mainI = append(mainI, "MAdd")
					} else {
						mainI = append(mainI, "(MOther (B"+coqStr("wg.Add("+arg+")")+"))")
					}
				case wgCall(fn) == "Wait":
					mainI = append(mainI, "MWait")
				}
			case *ast.AssignStmt:
				if len(x.Lhs) == 1 {
					if id, ok := x.Lhs[0].(*ast.Ident); ok && resultName != "" && id.Name == resultName {
						mainI = append(mainI, "MMakeResult")
					}
				}
			case *ast.RangeStmt:
				loopVars := map[string]bool{}
				for _, e := range []ast.Expr{x.Key, x.Value} {
					if id, ok := e.(*ast.Ident); ok && id.Name != "_" {
						loopVars[id.Name] = true
					}
				}
				spawnLoop(x.Body, loopVars, x.Tok == token.DEFINE)
			case *ast.ForStmt: // for i := 0; i < n; i++ { go ... }
				loopVars := map[string]bool{}
				defines := false
				if as, ok := x.Init.(*ast.AssignStmt); ok {
					defines = as.Tok == token.DEFINE
					for _, e := range as.Lhs {
						if id, ok := e.(*ast.Ident); ok && id.Name != "_" {
							loopVars[id.Name] = true
						}
					}
				}
				spawnLoop(x.Body, loopVars, defines)
			case *ast.ReturnStmt:
				mainI = append(mainI, "MRet")
			}
		}
	}
	walkMain(decl.Body.List)
	callsFunction := func(n ast.Node) bool {
		found := false
		ast.Inspect(n, func(x ast.Node) bool {
			if c, ok := x.(*ast.CallExpr); ok {
				if id, ok := c.Fun.(*ast.Ident); ok && id.Name == callback {
					found = true
				}
			}
			return true
		})
		return found
	}
	if workerBody != nil {
		for _, st := range workerBody.List {
			switch x := st.(type) {
			case *ast.ExprStmt:
				fn := callName(x.X)
				src := exprString(fset, x.X)
				switch {
				case strings.HasSuffix(fn, ".Lock"):
					workI = append(workI, "WLock")
				case strings.HasSuffix(fn, ".Unlock"):
					workI = append(workI, "WUnlock")
				case wgCall(fn) == "Done":
					workI = append(workI, "WDone")
				case fn == callback:
					workI = append(workI, "WCall")
				case resultName != "" && (fn == resultName+".Replace" || fn == resultName+".Set"):
					if callsFunction(x.X) {
						workI = append(workI, "WCallStore")
					} else {
						workI = append(workI, "WStore")
					}
				default:
					workI = append(workI, "(WOther (B"+coqStr(src)+"))")
				}
			case *ast.AssignStmt:
				if callsFunction(x) {
					workI = append(workI, "WCall")
				} else {
					workI = append(workI, "(WOther (B"+coqStr(exprString(fset, x))+"))")
				}
			case *ast.DeferStmt:
				workI = append(workI, "(WOther (B"+coqStr("defer "+exprString(fset, x.Call))+"))")
			default:
				workI = append(workI, "(WOther (B"+coqStr(exprString(fset, st))+"))")
			}
		}
	}
	// `v := function(i, x); result.Replace(i, v)` is the same step as `result.Replace(i, function(i, x))`
	var merged []string
	for i := 0; i < len(workI); i++ {
		if workI[i] == "WCall" && i+1 < len(workI) && workI[i+1] == "WStore" {
			merged = append(merged, "WCallStore")
			i++
			continue
		}
		if workI[i] == "WStore" {
			merged = append(merged, "(WOther (B"+coqStr("store without call")+"))")
			continue
		}
		merged = append(merged, workI[i])
	}
	if len(wgNames) == 0 {
		// no sync.WaitGroup anywhere in the method: the synchronisation has another shape (channels, futures, a helper type) that
		// this translator does not read; the skeleton theorems then do not speak about this method, the dynamic runs still do
		return "None"
	}
	return fmt.Sprintf("(Some (mkSkel [%s] [%s]))", strings.Join(mainI, "; "), strings.Join(merged, "; "))
}
