package main

// JSON engine: serialise / parse / format on the implementation; the same strings go to the Coq model
// (Json.v parser + serializer, JsonDoc.v reference decoder and layout) together with float-conversion tables.

import (
	"bytes"
	"encoding/json"
	"fmt"
	"math"
	"os"
	"path/filepath"
	"regexp"
	"sort"
	"strconv"
	"strings"
	"sync"
	"sync/atomic"
	"time"
	"unicode"
	"unicode/utf8"

	at "github.com/DanielSvub/anytype"
)

// ---------- float conversion tables ----------

type tables struct {
	fmt map[uint64][2]string
	pf  map[string]*uint64
}

func newTables() *tables {
	t := &tables{fmt: map[uint64][2]string{}, pf: map[string]*uint64{}}
	t.addTok("true")
	t.addTok("false")
	return t
}
func (t *tables) addFloat(f float64) {
	b := math.Float64bits(f)
	e := strconv.FormatFloat(f, 'e', -1, 64)
	ff := strconv.FormatFloat(f, 'f', -1, 64)
	t.fmt[b] = [2]string{e, ff}
	t.addTok(e)
	t.addTok(ff)
	t.addTok(ff + ".0")
}
func (t *tables) addTok(tok string) {
	if _, ok := t.pf[tok]; ok {
		return
	}
	f, err := strconv.ParseFloat(tok, 64)
	if err != nil {
		t.pf[tok] = nil
		return
	}
	b := math.Float64bits(f)
	t.pf[tok] = &b
}
func (t *tables) addTree(v *V) {
	if v.K == KFloat {
		t.addFloat(v.F)
	}
	for _, e := range v.L {
		t.addTree(e)
	}
	for _, kv := range v.O {
		t.addTree(kv.V)
	}
}

func isTokChar(c rune) bool {
	return c < 128 && (c == '+' || c == '-' || c == '.' || c == '_' || (c >= '0' && c <= '9') || (c >= 'a' && c <= 'z') || (c >= 'A' && c <= 'Z'))
}

// every token that can reach parseField and could parse as a number: maximal runs of token characters of the
// whitespace-stripped input (an over-approximation)
func (t *tables) addText(s string) {
	var cur strings.Builder
	flush := func() {
		if cur.Len() > 0 && cur.Len() <= 400 {
			t.addTok(cur.String())
		}
		cur.Reset()
	}
	for _, c := range s {
		if unicode.IsSpace(c) {
			continue
		}
		if isTokChar(c) {
			cur.WriteRune(c)
		} else {
			flush()
		}
	}
	flush()
}
func (t *tables) coq() string {
	var fk []uint64
	for b := range t.fmt {
		fk = append(fk, b)
	}
	sort.Slice(fk, func(i, j int) bool { return fk[i] < fk[j] })
	fs := make([]string, len(fk))
	for i, b := range fk {
		fs[i] = fmt.Sprintf("(%d,(%s,%s))", b, coqBytes(t.fmt[b][0]), coqBytes(t.fmt[b][1]))
	}
	var pk []string
	for k := range t.pf {
		pk = append(pk, k)
	}
	sort.Strings(pk)
	ps := make([]string, len(pk))
	for i, k := range pk {
		if t.pf[k] == nil {
			ps[i] = fmt.Sprintf("(%s,None)", coqBytes(k))
		} else {
			ps[i] = fmt.Sprintf("(%s,Some %d)", coqBytes(k), *t.pf[k])
		}
	}
	return fmt.Sprintf("(mkT %s %s)", coqList(fs), coqList(ps))
}

// ---------- parse outcome ----------

type parseOut struct {
	ok       bool
	tree     *V
	class    string // utf8 | end | missing | char | value | other
	line     int
	cited    string
	panicked bool
	hung     bool
	errText  string
}

var reLine = regexp.MustCompile(`(?s)^(.*) on line (\d+)$`)

func classify(err error) parseOut {
	msg := err.Error()
	po := parseOut{errText: msg}
	switch {
	case strings.Contains(msg, "not an UTF-8 encoding"):
		po.class = "utf8"
	case strings.Contains(msg, "unexpected end of input"):
		po.class = "end"
	case strings.Contains(msg, "missing '['") || strings.Contains(msg, "missing '{'"):
		po.class = "missing"
	case strings.Contains(msg, "expecting"):
		po.class = "char"
		if m := reLine.FindStringSubmatch(msg); m != nil {
			po.line, _ = strconv.Atoi(m[2])
			head := m[1]
			if i := strings.Index(head, "got '"); i >= 0 && strings.HasSuffix(head, "'") {
				po.cited = head[i+5 : len(head)-1]
			}
		}
	case strings.Contains(msg, "invalid value '"):
		po.class = "value"
		if m := reLine.FindStringSubmatch(msg); m != nil {
			po.line, _ = strconv.Atoi(m[2])
			head := m[1]
			if i := strings.Index(head, "invalid value '"); i >= 0 && strings.HasSuffix(head, "'") {
				po.cited = head[i+15 : len(head)-1]
			}
		}
	default:
		po.class = "other"
	}
	return po
}

// doParse runs the parser under a watchdog: a call that does not come back within the limit is reported as a failure of
// totality (the goroutine is abandoned; after three such inputs no further input is parsed, so that the run itself terminates)
var parseHangs int32

// Parsing has no memory: now and then a parse is preceded by a parse of a malformed input whose outcome is ignored (an error path
// that leaves something behind - a pooled buffer, a counter, a flag - would change what the next parse returns)
var poisonInputs = []string{"[\"abc\xff\"]", "[\"ab", "{\"k\xc0\x80\":1}", "[tru]", "{\"a\":[1,{\"b\":\"x\xf5y\"}", "[\n\n\n1,\n\"q\\", "{\"k\":\n\n\n nul}",
	"[\"long long long long long long long long long long long long long long \xe2\x82\"]", "[[[[[[[[", "{\"a\":{\"b\":{\"c\":[1,2,", "[1 2 3] ]", "[9223372036854775808,\n\n1,x]"}
var poisonState uint32

func doParse(isObj bool, s string) parseOut {
	poisonState = poisonState*1664525 + 1013904223
	if poisonState>>24 < 20 { // about 8 % of the parses
		p := poisonInputs[int(poisonState>>8)%len(poisonInputs)]
		watchParse(func() parseOut { return doParseNow(p[0] == '{', p) })
	}
	return watchParse(func() parseOut { return doParseNow(isObj, s) })
}

func watchParse(f func() parseOut) parseOut {
	if atomic.LoadInt32(&parseHangs) >= 3 {
		return parseOut{panicked: true, class: "other", errText: "not parsed: three earlier inputs made the parser hang"}
	}
	ch := make(chan parseOut, 1)
	go func() { ch <- f() }()
	select {
	case po := <-ch:
		return po
	case <-time.After(parseLimit):
		atomic.AddInt32(&parseHangs, 1)
		return parseOut{panicked: true, hung: true, class: "other", errText: fmt.Sprintf("the parser did not return within %v", parseLimit)}
	}
}

var parseLimit = 4 * time.Second

func doParseNow(isObj bool, s string) (po parseOut) {
	defer func() {
		if r := recover(); r != nil {
			po = parseOut{panicked: true, class: "other", errText: fmt.Sprint(r)}
		}
	}()
	if isObj {
		o, err := at.ParseObject(s)
		if (o != nil) == (err != nil) {
			return parseOut{class: "other", errText: "not exclusive: container and error both nil or both non-nil", panicked: true}
		}
		if err != nil {
			return classify(err)
		}
		if len(s) < 1<<16 {
			// what a parse returns belongs to the caller: the result is scribbled over and the same text parsed once more - the
			// second result is the one that counts (a parser that remembers texts or hands out shared trees shows the scribbles)
			scribble(o)
			o2, err2 := at.ParseObject(s)
			if err2 != nil || o2 == nil {
				return parseOut{class: "other", errText: "the second parse of the same text failed: " + fmt.Sprint(err2), panicked: true}
			}
			if o2 == o {
				return parseOut{class: "other", errText: "two parses of one text returned the identical container", panicked: true}
			}
			o = o2
		}
		return parseOut{ok: true, tree: fromAny(o)}
	}
	l, err := at.ParseList(s)
	if (l != nil) == (err != nil) {
		return parseOut{class: "other", errText: "not exclusive", panicked: true}
	}
	if err != nil {
		return classify(err)
	}
	if len(s) < 1<<16 {
		scribble(l)
		l2, err2 := at.ParseList(s)
		if err2 != nil || l2 == nil {
			return parseOut{class: "other", errText: "the second parse of the same text failed: " + fmt.Sprint(err2), panicked: true}
		}
		if l2 == l {
			return parseOut{class: "other", errText: "two parses of one text returned the identical container", panicked: true}
		}
		l = l2
	}
	return parseOut{ok: true, tree: fromAny(l)}
}

// scribble changes every container of a tree in place: an extra element / member, the first element replaced, nested ones first
func scribble(x any) {
	switch c := x.(type) {
	case at.List:
		for i := 0; i < c.Count(); i++ {
			scribble(c.Get(i))
		}
		if c.Count() > 0 {
			c.Replace(0, "scribbled")
		}
		c.Add("scribble", 1)
	case at.Object:
		c.ForEachValue(func(v any) { scribble(v) })
		c.Set("scribble", true)
	}
}

func (po parseOut) coq() string {
	if po.ok {
		return "(JOk " + po.tree.coq() + ")"
	}
	switch po.class {
	case "utf8":
		return "JErrUtf8"
	case "end":
		return "JErrEnd"
	case "missing":
		return "JErrMissing"
	case "char":
		r, _ := utf8.DecodeRuneInString(po.cited)
		return fmt.Sprintf("(JErrChar %d %d)", r, po.line)
	case "value":
		return fmt.Sprintf("(JErrValue %s %d)", coqBytes(po.cited), po.line)
	}
	return "JErrOther"
}
func (po parseOut) desc() any {
	if po.ok {
		return map[string]any{"ok": po.tree.desc()}
	}
	return map[string]any{"error": po.errText, "class": po.class, "line": po.line, "cited": po.cited, "panicked": po.panicked}
}
func (a parseOut) same(b parseOut) bool {
	if a.ok != b.ok {
		return false
	}
	if a.ok {
		return a.tree.canon() == b.tree.canon()
	}
	return a.errText == b.errText
}

// ---------- independent decoding with encoding/json ----------

// decode a JSON text and apply the library's number rule; ok=false if encoding/json rejects it or a number is out of float64 range
func refDecode(s string) (*V, bool) {
	dec := json.NewDecoder(strings.NewReader(s))
	dec.UseNumber()
	var x any
	if err := dec.Decode(&x); err != nil {
		return nil, false
	}
	if dec.More() {
		return nil, false
	}
	return refConv(x)
}
func refConv(x any) (*V, bool) {
	switch t := x.(type) {
	case nil:
		return vnil(), true
	case bool:
		return vbool(t), true
	case string:
		return vstr(t), true
	case json.Number:
		txt := string(t)
		if !strings.ContainsAny(txt, ".eE") {
			if i, err := strconv.ParseInt(txt, 10, 64); err == nil {
				return vint(int(i)), true
			}
		}
		f, err := strconv.ParseFloat(txt, 64)
		if err != nil {
			return nil, false
		}
		return vfloat(f), true
	case []any:
		r := &V{K: KList}
		for _, e := range t {
			v, ok := refConv(e)
			if !ok {
				return nil, false
			}
			r.L = append(r.L, v)
		}
		return r, true
	case map[string]any:
		r := &V{K: KObj}
		keys := make([]string, 0, len(t))
		for k := range t {
			keys = append(keys, k)
		}
		sort.Strings(keys)
		for _, k := range keys {
			v, ok := refConv(t[k])
			if !ok {
				return nil, false
			}
			r.O = append(r.O, KV{k, v})
		}
		return r, true
	}
	return nil, false
}

func (v *V) allFinite() bool {
	if v.K == KFloat && (math.IsNaN(v.F) || math.IsInf(v.F, 0)) {
		return false
	}
	for _, e := range v.L {
		if !e.allFinite() {
			return false
		}
	}
	for _, kv := range v.O {
		if !kv.V.allFinite() {
			return false
		}
	}
	return true
}

func validTreeOpts() *TreeOpts {
	return &TreeOpts{Depth: 4, Width: 5, Floats: (*R).finiteFloat, Str: (*R).str, Key: (*R).key}
}

// ---------- tree cases (C01, C02, C16) ----------

func coqResBytes(s string, panicked bool) string {
	if panicked {
		return "Panic"
	}
	return "(Ok " + coqBytes(s) + ")"
}

type failer struct {
	pred bool
	msg  string
}

func (f *failer) fail(format string, a ...any) {
	if f.pred {
		f.pred = false
		f.msg = fmt.Sprintf(format, a...)
	}
}

func stringOf(x any) string {
	switch c := x.(type) {
	case at.List:
		return c.String()
	case at.Object:
		return c.String()
	}
	panic("not a container")
}
func formatOf(x any, n int) (s string, panicked bool) {
	defer func() {
		if r := recover(); r != nil {
			panicked = true
		}
	}()
	switch c := x.(type) {
	case at.List:
		return c.FormatString(n), false
	case at.Object:
		return c.FormatString(n), false
	}
	panic("not a container")
}

func treeCase(prop string, v *V, indents []int, extraTags []string) *Case {
	isObj := v.K == KObj
	v.sortKeys()
	t := newTables()
	t.addTree(v)
	c := v.toAny()
	before := canon(c)
	s := stringOf(c)
	t.addText(s)
	po := doParse(isObj, s)
	f := &failer{pred: true}
	finite := v.allFinite()
	validStrings := v.allStringsValid()
	inDomain := finite && validStrings
	// C01: round trip
	if prop == "C01" && inDomain {
		if !po.ok {
			f.fail("parsing String() failed: %s", po.errText)
		} else {
			if po.tree.canon() != v.canon() {
				f.fail("round trip changed the value or a kind: %s", firstDiff(v.canon(), po.tree.canon()))
			}
			eq, pan := equalsAny(c, po.tree.toAny())
			if pan || (!eq && v.nanFree()) {
				f.fail("the parsed container does not Equal the original")
			}
			s2 := stringOf(po.tree.toAny())
			po2 := doParse(isObj, s2)
			if !po2.ok || po2.tree.canon() != v.canon() {
				f.fail("serialising the re-parsed container and parsing again differs")
			}
		}
	}
	// C02: standard JSON, read as the same data by encoding/json
	if (prop == "C02" || prop == "C01") && inDomain {
		if !json.Valid([]byte(s)) {
			f.fail("String() is not valid JSON: %q", clip(s))
		} else if rv, ok := refDecode(s); !ok {
			f.fail("encoding/json cannot decode String()")
		} else if rv.canon() != v.canon() {
			f.fail("encoding/json reads different data: %s", firstDiff(v.canon(), rv.canon()))
		}
	}
	// C16
	var fmts []string
	fdesc := map[string]any{}
	for _, n := range indents {
		fs, pan := formatOf(c, n)
		fmts = append(fmts, fmt.Sprintf("(%d, %s)", n, coqResBytes(fs, pan)))
		fdesc[fmt.Sprint(n)] = map[string]any{"panicked": pan, "text": clip(fs)}
		t.addText(fs)
		if prop == "C16" {
			if n < 0 || n > 10 {
				if !pan {
					f.fail("FormatString(%d) did not panic", n)
				}
				continue
			}
			if pan {
				f.fail("FormatString(%d) panicked", n)
				continue
			}
			if inDomain {
				if fs == "" {
					f.fail("FormatString(%d) is empty", n)
				} else if !json.Valid([]byte(fs)) {
					f.fail("FormatString(%d) is not valid JSON", n)
				} else {
					if rv, ok := refDecode(fs); !ok || rv.canon() != v.canon() {
						f.fail("FormatString(%d) denotes different data than the container", n)
					}
					var buf bytes.Buffer
					if err := json.Indent(&buf, []byte(fs), "", strings.Repeat(" ", n)); err != nil || buf.String() != fs {
						f.fail("re-indenting FormatString(%d) does not reproduce it", n)
					}
					if !layoutOK(fs, n) {
						f.fail("FormatString(%d) is not laid out one element per line with %d spaces per level", n, n)
					}
				}
			}
		}
	}
	if canon(c) != before {
		f.fail("String/FormatString modified the container")
	}
	tags := append([]string{map[bool]string{true: "root-object", false: "root-list"}[isObj]}, extraTags...)
	tags = append(tags, v.classTags()...)
	return &Case{
		Coq:        fmt.Sprintf("(%s, JTree %s %s %s %s %s)", t.coq(), coqBool(isObj), v.coq(), coqBytes(s), po.coq(), coqList(fmts)),
		Desc:       map[string]any{"tree": v.desc(), "string": clip(s), "parse_of_string": po.desc(), "format": fdesc},
		Pred:       f.pred, PredMsg: f.msg,
		Nontrivial: v.size() >= 4,
		Key:        v.canon(),
		Tags:       tags,
	}
}

// a crude layout check independent of json.Indent: every line's leading blanks are a multiple of n (n > 0) and consist of spaces only
func layoutOK(fs string, n int) bool {
	if n == 0 {
		return true
	}
	for _, line := range strings.Split(fs, "\n") {
		k := 0
		for k < len(line) && line[k] == ' ' {
			k++
		}
		if k%n != 0 {
			return false
		}
		if k < len(line) && line[k] == '\t' {
			return false
		}
	}
	return true
}

func clip(s string) string {
	if len(s) > 600 {
		return s[:600] + "..."
	}
	return s
}
func firstDiff(a, b string) string {
	i := 0
	for i < len(a) && i < len(b) && a[i] == b[i] {
		i++
	}
	lo := i - 20
	if lo < 0 {
		lo = 0
	}
	ha, hb := i+30, i+30
	if ha > len(a) {
		ha = len(a)
	}
	if hb > len(b) {
		hb = len(b)
	}
	return fmt.Sprintf("want ...%s... got ...%s...", a[lo:ha], b[lo:hb])
}

func (v *V) size() int {
	n := 1
	for _, e := range v.L {
		n += e.size()
	}
	for _, kv := range v.O {
		n += kv.V.size()
	}
	return n
}
func (v *V) allStringsValid() bool {
	if v.K == KStr && !utf8.ValidString(v.S) {
		return false
	}
	for _, e := range v.L {
		if !e.allStringsValid() {
			return false
		}
	}
	for _, kv := range v.O {
		if !utf8.ValidString(kv.K) || !kv.V.allStringsValid() {
			return false
		}
	}
	return true
}

// histogram tags: which thin slices the tree contains
func (v *V) classTags() []string {
	set := map[string]bool{}
	var walk func(x *V)
	str := func(s string) {
		for _, c := range s {
			switch {
			case c < 0x20:
				set["str:C0"] = true
			case c == 0x7f:
				set["str:DEL"] = true
			case c == '"' || c == '\\':
				set["str:quote-backslash"] = true
			case c == 0xfffd:
				set["str:U+FFFD"] = true
			case c >= 0x10000:
				set["str:astral"] = true
			case c >= 0x80:
				set["str:non-ascii"] = true
			}
		}
		if s == "" {
			set["str:empty"] = true
		}
	}
	walk = func(x *V) {
		switch x.K {
		case KFloat:
			a := math.Abs(x.F)
			switch {
			case x.F == 0:
				set["float:zero"] = true
			case a == math.Trunc(a) && a < 1e6:
				set["float:whole<1e6"] = true
			case a >= 1e6 || a <= 1e-6:
				set["float:e-form"] = true
			default:
				set["float:f-form"] = true
			}
		case KInt:
			if x.I == math.MaxInt64 || x.I == math.MinInt64 {
				set["int:extreme"] = true
			}
		case KStr:
			str(x.S)
		}
		for _, e := range x.L {
			walk(e)
		}
		for _, kv := range x.O {
			str(kv.K)
			walk(kv.V)
		}
	}
	walk(v)
	var r []string
	for k := range set {
		r = append(r, k)
	}
	sort.Strings(r)
	return r
}

// shapes beyond ten thousand: container SIBLINGS (a counter that is meant to limit depth but counts siblings, or a limit of 10000 /
// 65536 on anything else, shows here), a wide object of containers, a list of short strings
func hugeTrees() []*V {
	a := &V{K: KList}
	b := &V{K: KList}
	c := &V{K: KObj}
	d := &V{K: KList}
	for i := 0; i < 10050; i++ {
		a.L = append(a.L, vlist())
		if i%2 == 0 {
			b.L = append(b.L, vobj())
		} else {
			b.L = append(b.L, vlist(vint(i)))
		}
		c.O = append(c.O, KV{fmt.Sprintf("m%05d", i), vlist()})
	}
	for i := 0; i < 66000; i++ {
		d.L = append(d.L, vint(i&7))
	}
	return []*V{a, b, c, d}
}

func genTreeProp(prop string) genFunc {
	return func(r *R, n int, tier string, out *Out) {
		o := validTreeOpts()
		o.Stress = true
		big := append(r.bigTrees(o), hugeTrees()...)
		for i := 0; i < n; i++ {
			var v *V
			switch {
			case i < len(big):
				v = big[i]
			case i%11 == 3:
				// single code point strings as value and key
				c := r.rune_()
				v = vlist(vstr(string(c)), vobj(KV{string(c), vstr(string(c))}))
			case i%11 == 7 && prop != "C01":
				// outside the domain, inside the model: non-finite floats
				oo := *o
				oo.Floats = (*R).anyFloat
				v = r.listTree(&oo)
			case r.chance(0.5):
				v = r.listTree(o)
			default:
				v = r.objTree(o)
			}
			var indents []int
			if prop == "C16" {
				indents = []int{pickOf(r, []int{-1, 11, -5, 100, 12, 255, 256, 261, 266, 512, 65536, 65541, -256, -250, -65536}), 0, pickOf(r, []int{1, 2, 3, 4}), pickOf(r, []int{5, 7, 10, 10})}
			}
			c := treeCase(prop, v, indents, nil)
			if i < len(big) {
				// the large shapes are judged by the property's predicates on the implementation only (round trip, encoding/json,
				// re-indentation): evaluating the serialiser/parser/layout models on them costs tens of seconds per run
				c.Coq = ""
				c.Tags = append(c.Tags, "large-shape-predicates-only")
			}
			out.emit(c)
		}
	}
}

// ---------- text cases ----------

func textCase(prop string, isObj bool, s string, f *failer, tags []string, extra map[string]any) *Case {
	t := newTables()
	t.addText(s)
	po := doParse(isObj, s)
	po2 := doParse(isObj, s)
	if po.panicked {
		f.fail("the parser panicked or broke exclusivity: %s", po.errText)
	}
	if !po.same(po2) {
		f.fail("parsing the same input twice gave different outcomes")
	}
	valid := json.Valid([]byte(s))
	checkValid := utf8.ValidString(s)
	desc := map[string]any{"text": clip(s), "text_hex": fmt.Sprintf("%x", clip(s)), "is_object_parser": isObj, "outcome": po.desc(), "json.Valid": valid}
	for k, x := range extra {
		desc[k] = x
	}
	return &Case{
		Coq: fmt.Sprintf("(%s, JText %s %s %s %s %s)", t.coq(), coqBool(isObj), coqBytes(s), po.coq(), coqBool(valid), coqBool(checkValid)),
		Desc: desc, Pred: f.pred, PredMsg: f.msg,
		Nontrivial: len(s) >= 4,
		Key:        fmt.Sprintf("%v|%s", isObj, s),
		Tags:       append(tags, "outcome:"+map[bool]string{true: "ok", false: po.class}[po.ok]),
	}
}

// ---------- exhaustive small scope: every string over the structural alphabet up to a length, behind four prefixes that put the
// machines into their main states (list value position, object key position, object value position, inside a string) ----------

var exhaustAlphabet = []string{"[", "]", "{", "}", "\"", ":", ",", "1", " ", "\n", "a", "\\"}

func genExhaustiveParser(maxLen int, out *Out) {
	type pre struct {
		isObj  bool
		prefix string
	}
	pres := []pre{{false, "["}, {true, "{"}, {true, "{\"k\":"}, {false, "[\""}}
	var rec func(cur string, depth int)
	emit := func(body string) {
		for _, p := range pres {
			c := textCase("C04", p.isObj, p.prefix+body, &failer{pred: true}, []string{"exhaustive-small-scope"}, nil)
			c.Nontrivial = false
			out.emit(c)
		}
	}
	rec = func(cur string, depth int) {
		emit(cur)
		if depth == maxLen {
			return
		}
		for _, a := range exhaustAlphabet {
			rec(cur+a, depth+1)
		}
	}
	rec("", 0)
}

var wsChars = []string{" ", "\t", "\n", "\r", "  ", " \n ", "\r\n"}

func (r *R) wsSlot() string {
	if r.chance(0.55) {
		return ""
	}
	return pickOf(r, wsChars)
}

var numSpellings = []string{"0", "-0", "1", "-1", "10", "123", "9223372036854775807", "-9223372036854775808", "9223372036854775808", "-9223372036854775809",
	"123456789012345678901234567890", "0.5", "-0.25", "1.0", "0.10", "1e2", "1E2", "1e+2", "1E-2", "-1.5e10", "1.7976931348623157e308", "5e-324", "2.2250738585072014e-308",
	"1" + strings.Repeat("0", 70), "0." + strings.Repeat("0", 70) + "1", strings.Repeat("123456789", 9) + ".5", "-" + strings.Repeat("9", 80), "1" + strings.Repeat("0", 70) + "e-70",
	"0." + strings.Repeat("0", 90) + "25e+80", "1." + strings.Repeat("0", 63), "1." + strings.Repeat("0", 64), "3." + strings.Repeat("3", 130),
	"0e0", "0.0", "-0.0", "1e-400", "123.456e-7", "4.9e-324", "100000000000000000000", "0E+0", "3.0e0", "2147483648", "-2147483649", "4294967296", "1e300", "1e-300", "0.1e1"}

// the characters that have a short escape, spelled with \u instead (upper- and lower-case hex)
// an escaped solidus directly followed by characters that start a comment in JSON-with-comments dialects; other look-alikes of syntax
var solidusSeqs = []string{`\//`, `\/*`, `*\/`, `\/\/`, `/*`, `*/`, `//`, `\/*x*\/`, `<!--`, `#`, `\\/`, `\\//`}

var uSpellings = []string{`\u0022`, `\u005c`, `\u005C`, `\u002f`, `\u002F`, `\u0008`, `\u000c`, `\u000C`, `\u000a`, `\u000A`, `\u000d`, `\u000D`, `\u0009`, `\u0000`, `\u001f`, `\u007f`, `\u0020`}

func (r *R) jsonStringLiteral() string {
	var b strings.Builder
	b.WriteByte('"')
	n := r.Intn(7)
	if r.chance(0.12) {
		for k := 1 + r.Intn(3); k > 0; k-- {
			if r.chance(0.3) {
				b.WriteByte(byte('a' + r.Intn(26)))
			}
			b.WriteString(pickOf(r, uSpellings))
		}
	}
	if r.chance(0.06) {
		b.WriteString(pickOf(r, solidusSeqs))
		if r.chance(0.5) {
			b.WriteByte(byte('a' + r.Intn(26)))
		}
	}
	if r.chance(0.1) {
		n = 0
	}
	hex := func(v int) string {
		if r.chance(0.5) {
			return fmt.Sprintf("%04x", v)
		}
		return fmt.Sprintf("%04X", v)
	}
	for i := 0; i < n; i++ {
		switch r.Intn(9) {
		case 0:
			b.WriteString(pickOf(r, []string{`\"`, `\\`, `\/`, `\b`, `\f`, `\n`, `\r`, `\t`}))
		case 1:
			c := pickOf(r, []int{0, 1, 0x1f, 0x20, 0x22, 0x5c, 0x2f, 0x41, 0x7f, 0x80, 0xe9, 0x2028, 0xfffd, 0xd7ff, 0xe000, 0xffff})
			b.WriteString(`\u` + hex(c))
		case 2:
			c := 0x10000 + r.Intn(0x100000)
			if r.chance(0.5) {
				c = pickOf(r, []int{0x10000, 0x1f600, 0x10ffff})
			}
			c -= 0x10000
			b.WriteString(`\u` + hex(0xd800+(c>>10)) + `\u` + hex(0xdc00+(c&0x3ff)))
		default:
			for {
				c := r.rune_()
				if c >= 0x20 && c != '"' && c != '\\' {
					b.WriteRune(c)
					break
				}
			}
		}
	}
	b.WriteByte('"')
	return b.String()
}

// a random VALID JSON text with layout; depth-limited
func (r *R) jsonValue(depth int) string {
	if depth <= 0 || r.chance(0.45) {
		switch r.Intn(7) {
		case 0:
			return "null"
		case 1:
			return pickOf(r, []string{"true", "false"})
		case 2, 3:
			return pickOf(r, numSpellings)
		default:
			return r.jsonStringLiteral()
		}
	}
	if r.chance(0.5) {
		return r.jsonArray(depth)
	}
	return r.jsonObject(depth)
}
func (r *R) jsonArray(depth int) string {
	n := r.Intn(5)
	var b strings.Builder
	b.WriteString("[")
	if n == 0 {
		b.WriteString(r.wsSlot())
	}
	for i := 0; i < n; i++ {
		if i > 0 {
			b.WriteString(",")
		}
		b.WriteString(r.wsSlot() + r.jsonValue(depth-1) + r.wsSlot())
	}
	b.WriteString("]")
	return b.String()
}
func (r *R) jsonObject(depth int) string {
	n := r.Intn(5)
	var b strings.Builder
	b.WriteString("{")
	if n == 0 {
		b.WriteString(r.wsSlot())
	}
	var firstKey string
	for i := 0; i < n; i++ {
		if i > 0 {
			b.WriteString(",")
		}
		k := r.jsonStringLiteral()
		if i == 0 {
			firstKey = k
		} else if r.chance(0.12) {
			k = firstKey // duplicate key: the last one wins
		}
		b.WriteString(r.wsSlot() + k + r.wsSlot() + ":" + r.wsSlot() + r.jsonValue(depth-1) + r.wsSlot())
	}
	b.WriteString("}")
	return b.String()
}

// large documents (not evaluated by the model: compared with the reference decoder on the Go side only): many records, each ending
// in a nested container; wide and long rather than deep. A limit or a counter that is only reached after thousands of tokens,
// records or levels opened-and-closed would show here.
func bigDocCases(r *R, out *Out) {
	for variant := 0; variant < 4; variant++ {
		isObj := variant%2 == 1
		minified := variant >= 2 // the whole document on ONE line (several hundred kilobytes without a line break)
		var b strings.Builder
		nrec := 10500 + r.Intn(3000)
		if isObj {
			b.WriteString("{")
		} else {
			b.WriteString("[")
		}
		for k := 0; k < nrec; k++ {
			if k > 0 {
				b.WriteString(",")
			}
			if isObj {
				fmt.Fprintf(&b, "\"r%d\":", k)
			}
			switch k % 3 {
			case 0:
				fmt.Fprintf(&b, "{\"id\":%d,\"tags\":[\"a\",%d]}", k, k%7)
			case 1:
				fmt.Fprintf(&b, "{\"n\":%d.5,\"o\":{\"k\":[]}}", k)
			default:
				fmt.Fprintf(&b, "[%d,[true,null],{\"z\":{}}]", k)
			}
			if k%500 == 0 && !minified {
				b.WriteString("\n")
			}
		}
		if isObj {
			b.WriteString("}")
		} else {
			b.WriteString("]")
		}
		s := b.String()
		f := &failer{pred: true}
		ref, ok := refDecode(s)
		po := doParse(isObj, s)
		if !ok {
			f.fail("harness bug: the reference decoder rejects the large document")
		} else if !po.ok {
			f.fail("a valid JSON document of %d records (%d bytes) was rejected: %s", nrec, len(s), po.errText)
		} else if po.tree.canon() != ref.canon() {
			f.fail("a large document parsed differently from the reference decoder")
		}
		if isObj && ok { // and the same bytes read from a file
			if tmp, err := os.MkdirTemp("", "anytype-big-"); err == nil {
				path := tmp + "/big.json"
				if os.WriteFile(path, []byte(s), 0o600) == nil {
					pf := watchParse(func() parseOut { return parseFileNow(path) })
					if !pf.ok {
						f.fail("ParseFile rejected a valid document of %d bytes (longest line %d bytes) that ParseObject accepts: %s", len(s), longestLine(s), pf.errText)
					} else if pf.tree.canon() != ref.canon() {
						f.fail("ParseFile read a large document differently from the reference decoder")
					}
				}
				os.RemoveAll(tmp)
			}
		}
		out.emit(&Case{Coq: "", Desc: map[string]any{"large_document": map[string]any{"records": nrec, "bytes": len(s), "object_root": isObj, "one_line": minified}}, Pred: f.pred, PredMsg: f.msg,
			Nontrivial: true, Key: fmt.Sprintf("bigdoc/%v/%v/%d", isObj, minified, nrec), Tags: []string{"large-document"}})
	}
}

func longestLine(s string) int {
	best := 0
	for _, l := range strings.Split(s, "\n") {
		if len(l) > best {
			best = len(l)
		}
	}
	return best
}

func genC03(r *R, n int, tier string, out *Out) {
	bigDocCases(r, out)
	for i := 0; i < n; i++ {
		isObj := r.chance(0.5)
		var s string
		if isObj {
			s = r.jsonObject(4)
		} else {
			s = r.jsonArray(4)
		}
		s = r.wsSlot() + s + r.wsSlot()
		f := &failer{pred: true}
		ref, ok := refDecode(s)
		tags := []string{"valid-doc"}
		if !json.Valid([]byte(s)) {
			f.fail("harness bug: generated text is not valid JSON")
		}
		if ok {
			po := doParse(isObj, s)
			if !po.ok {
				f.fail("valid JSON rejected: %s", po.errText)
			} else if po.tree.canon() != ref.canon() {
				f.fail("parsed tree differs from the reference decoder: %s", firstDiff(ref.canon(), po.tree.canon()))
			}
		} else {
			tags = append(tags, "number-out-of-float64-range")
		}
		out.emit(textCase("C03", isObj, s, f, tags, nil))
	}
}

// ill-formed UTF-8 sequences of every kind
var illFormed = []string{"\x80", "\xbf", "\xc0\x80", "\xc1\xbf", "\xe0\x80\x80", "\xe0\x9f\xbf", "\xed\xa0\x80", "\xed\xbf\xbf", "\xf0\x80\x80\x80", "\xf4\x90\x80\x80",
	"\xf5\x80\x80\x80", "\xff", "\xfe", "\xe2\x82", "\xc3", "\xf0\x9f\x98", "\xe2"}

var garbageAlphabet = []string{"[", "]", "{", "}", "\"", "\\", ",", ":", "0", "1", "9", "-", ".", "e", "t", "r", "u", "f", "a", "l", "s", "n", " ", "\n", "\t", "x", "\xc3\xa9", "\x80", "/", "_", "+", "E", "\f", "\v", "\u0085", "\u00a0", "\u2028", "\u3000", "\r"}

func genC04(r *R, n int, tier string, out *Out) {
	o := validTreeOpts()
	o.Depth = 3
	tmp, _ := os.MkdirTemp("", "anytype-c04-")
	defer os.RemoveAll(tmp)
	i := 0
	for i < n {
		var v *V
		isObj := r.chance(0.5)
		if isObj {
			v = r.objTree(o)
		} else {
			v = r.listTree(o)
		}
		s := stringOf(v.toAny())
		switch r.Intn(7) {
		case 0: // every kind of cut: proper prefixes of a serialised document (several cut points per document)
			for k := 0; k < 6 && i < n; k++ {
				if len(s) < 2 {
					break
				}
				cut := r.Intn(len(s)-1) + 1
				if k == 0 {
					cut = len(s) - 1
				}
				p := s[:cut]
				f := &failer{pred: true}
				po := doParse(isObj, p)
				if po.ok {
					f.fail("a proper prefix of String() was accepted: %q", clip(p))
				}
				out.emit(textCase("C04", isObj, p, f, []string{"prefix"}, nil))
				i++
			}
		case 1: // ill-formed UTF-8 placed between the root brackets
			if r.chance(0.3) {
				// inside LONG string literals (64 ... 1100 bytes, no escapes) as list element, object value and key
				ln := pickOf(r, []int{63, 64, 65, 100, 128, 129, 300, 1100})
				body := []byte(strings.Repeat("abcdefghijklmnopqrstuvwxyz0123456789 ", ln/37+1)[:ln])
				pos := r.Intn(len(body) + 1)
				bad := pickOf(r, illFormed)
				lit := "\"" + string(body[:pos]) + bad + string(body[pos:]) + "\""
				var p string
				switch r.Intn(4) {
				case 0:
					p, isObj = "["+lit+"]", false
				case 1:
					p, isObj = "[1,[\"x\","+lit+"],2]", false
				case 2:
					p, isObj = "{\"k\":"+lit+"}", true
				default:
					p, isObj = "{"+lit+":1}", true
				}
				f := &failer{pred: true}
				if po := doParse(isObj, p); po.ok {
					f.fail("a document with ill-formed UTF-8 inside a long string literal was accepted")
				}
				out.emit(textCase("C04", isObj, p, f, []string{"ill-formed-utf8", "long-literal"}, nil))
				i++
				continue
			}
			for k := 0; k < 4 && i < n; k++ {
				bad := pickOf(r, illFormed)
				pos := 1 + r.Intn(len(s)-1)
				for !utf8.RuneStart(s[pos]) && pos < len(s)-1 {
					pos++
				}
				if k < 2 {
					// the first two of a document: directly behind the backslash of an escape, in a key or in a value (a parser that
					// copies "the escaped character" without looking at it never decodes that byte)
					var bs []int
					for j := 1; j+1 < len(s); j++ {
						if s[j] == '\\' {
							bs = append(bs, j+1)
							j++
						}
					}
					if len(bs) > 0 {
						pos = pickOf(r, bs)
					}
				}
				p := s[:pos] + bad + s[pos:]
				f := &failer{pred: true}
				po := doParse(isObj, p)
				if po.ok && !utf8.ValidString(p) {
					f.fail("a document with ill-formed UTF-8 between its root brackets was accepted")
				}
				out.emit(textCase("C04", isObj, p, f, []string{"ill-formed-utf8"}, nil))
				i++
			}
		case 2: // garbage over a weighted alphabet
			var b strings.Builder
			ln := r.Intn(40)
			if r.chance(0.3) {
				if isObj {
					b.WriteString("{")
				} else {
					b.WriteString("[")
				}
			}
			for k := 0; k < ln; k++ {
				b.WriteString(pickOf(r, garbageAlphabet))
			}
			out.emit(textCase("C04", r.chance(0.5), b.String(), &failer{pred: true}, []string{"garbage"}, nil))
			i++
		case 3: // mutation of a valid document: flip / delete / insert / duplicate
			bs := []byte(s)
			for m := 0; m < 1+r.Intn(3) && len(bs) > 0; m++ {
				pos := r.Intn(len(bs))
				switch r.Intn(4) {
				case 0:
					bs[pos] = pickOf(r, garbageAlphabet)[0]
				case 1:
					bs = append(bs[:pos], bs[pos+1:]...)
				case 2:
					ins := pickOf(r, garbageAlphabet)
					bs = append(bs[:pos], append([]byte(ins), bs[pos:]...)...)
				default:
					end := pos + 1 + r.Intn(4)
					if end > len(bs) {
						end = len(bs)
					}
					bs = append(bs[:end], append(append([]byte{}, bs[pos:end]...), bs[end:]...)...)
				}
			}
			out.emit(textCase("C04", isObj, string(bs), &failer{pred: true}, []string{"mutated"}, nil))
			i++
		case 4: // valid documents rich in escapes, damaged around an escape: hex digits dropped, the pair cut, the quote eaten
			var doc string
			if isObj {
				doc = r.jsonObject(3)
			} else {
				doc = r.jsonArray(3)
			}
			for k := 0; k < 5 && i < n; k++ {
				bs := []byte(doc)
				var esc []int
				for j := 0; j+1 < len(bs); j++ {
					if bs[j] == '\\' {
						esc = append(esc, j)
						j++
					}
				}
				if len(esc) == 0 {
					break
				}
				at0 := pickOf(r, esc)
				lo := at0 + r.Intn(7)
				hi := lo + 1 + r.Intn(4)
				if r.chance(0.4) { // eat up to and including the closing quote region: a body ending in a cut escape
					q := strings.IndexByte(doc[at0:], '"')
					if q > 0 {
						hi = at0 + q
						lo = hi - 1 - r.Intn(4)
					}
				}
				if lo < 0 {
					lo = 0
				}
				if hi > len(bs) {
					hi = len(bs)
				}
				if lo >= hi {
					continue
				}
				dam := string(bs[:lo]) + string(bs[hi:])
				out.emit(textCase("C04", isObj, dam, &failer{pred: true}, []string{"escape-damaged"}, nil))
				i++
			}
		case 5: // a blank of any kind (JSON's four, the other unicode.IsSpace characters, look-alikes that are no blanks) at structural positions
			var doc string
			if isObj {
				doc = r.jsonObject(3)
			} else {
				doc = r.jsonArray(3)
			}
			var pos []int
			inStr, esc := false, false
			for j := 0; j < len(doc); j++ {
				c := doc[j]
				if inStr {
					if esc {
						esc = false
					} else if c == '\\' {
						esc = true
					} else if c == '"' {
						inStr = false
						pos = append(pos, j+1)
					}
					continue
				}
				switch c {
				case '"':
					inStr = true
					pos = append(pos, j)
				case '{', '[', ',', ':':
					pos = append(pos, j+1)
				case '}', ']':
					pos = append(pos, j, j+1)
				}
			}
			for k := 0; k < 4 && i < n && len(pos) > 0; k++ {
				at0 := pickOf(r, pos)
				blank := pickOf(r, []string{"\f", "\v", "\u0085", "\u00a0", "\u1680", "\u2003", "\u2028", "\u2029", "\u202f", "\u3000", "\ufeff", "\u200b", " ", "\t", "\r", "\n", "\f\f", "\u00a0 "})
				out.emit(textCase("C04", isObj, doc[:at0]+blank+doc[at0:], &failer{pred: true}, []string{"blank-inserted"}, nil))
				i++
			}
		default: // ParseFile: same as ParseObject on the bytes; unreadable paths give an error
			f := &failer{pred: true}
			content := s
			if r.chance(0.3) {
				content = r.wsSlot() + r.jsonObject(3)
			}
			if r.chance(0.15) {
				// raw carriage returns / CRLF / tabs inside string literals and keys and between tokens: the bytes of the file are parsed as they are
				content = pickOf(r, []string{"{\"text\":\"one\rtwo\"}", "{\"a\rb\":1,\r\n\"c\":\"x\r\ny\"}", "{\r\"k\"\r:\r\"v\r\"\r}", "{\"t\":\"a\tb\",\"u\":\"\r\"}"})
			}
			if r.chance(0.2) {
				content = content[:r.Intn(len(content)+1)]
			}
			// (file names with characters that mean something to a shell or to an expanding helper: the path is used as it is)
			path := filepath.Join(tmp, fmt.Sprintf(pickOf(r, []string{"f%d.json", "f%d.json", "price$tag%d.json", "a${x}b%d.json", "$HOME%d.json", "~%d.json", "sp ace%d.json", "pct%%41%d.json", "star*%d.json", "q?%d.json", "${}%d.json"}), i))
			os.WriteFile(path, []byte(content), 0o600)
			pf := parseFileOut(path)
			pobj := doParse(true, content)
			if !pf.same(pobj) {
				f.fail("ParseFile differs from ParseObject on the file's bytes")
			}
			// the same path again, after the first result was modified, and after the file was rewritten in place with other
			// content of the same length: every call reads the file as it is now and builds a new container
			if o1, err := at.ParseFile(path); err == nil && o1 != nil {
				o1.Set("zz-modified-by-caller", 1)
				o2, err2 := at.ParseFile(path)
				if err2 != nil || o2 == nil {
					f.fail("the second ParseFile of the same unchanged file failed")
				} else {
					if o2 == o1 {
						f.fail("two ParseFile calls on one path returned the identical container")
					}
					if pobj.ok && canon(o2) != pobj.tree.canon() {
						f.fail("ParseFile of an unchanged file, after the caller modified the first result, differs from ParseObject on the file's bytes")
					}
				}
				if i1 := strings.IndexAny(content, "0123456789"); i1 >= 0 {
					alt := []byte(content)
					alt[i1] = byte('0' + (alt[i1]-'0'+1)%10)
					if st, e := os.Stat(path); e == nil {
						os.WriteFile(path, alt, 0o600)
						os.Chtimes(path, st.ModTime(), st.ModTime())
						pf3 := parseFileOut(path)
						pobj3 := doParse(true, string(alt))
						if !pf3.same(pobj3) {
							f.fail("after the file was rewritten (same length, same modification time) ParseFile no longer agrees with ParseObject on its bytes")
						}
						os.WriteFile(path, []byte(content), 0o600)
					}
				}
			}
			for _, badPath := range []string{filepath.Join(tmp, "missing.json"), tmp} {
				pm := parseFileOut(badPath)
				if pm.ok || pm.panicked {
					f.fail("ParseFile(%q) did not return an error", badPath)
				}
			}
			out.emit(textCase("C04", true, content, f, []string{"file"}, nil))
			i++
		}
	}
}

func parseFileOut(path string) parseOut {
	return watchParse(func() parseOut { return parseFileNow(path) })
}

func parseFileNow(path string) (po parseOut) {
	defer func() {
		if r := recover(); r != nil {
			po = parseOut{panicked: true, class: "other", errText: fmt.Sprint(r)}
		}
	}()
	o, err := at.ParseFile(path)
	if (o != nil) == (err != nil) {
		return parseOut{class: "other", errText: "not exclusive", panicked: true}
	}
	if err != nil {
		if _, statErr := os.ReadFile(path); statErr != nil {
			return parseOut{class: "other", errText: "unreadable"}
		}
		return classify(err)
	}
	return parseOut{ok: true, tree: fromAny(o)}
}

// ---------- C20: one injected syntax error at a known position ----------

// a document whose error sits beyond line 65536 (and beyond 2^16 + a bit): judged on the implementation only
func manyLinesCase(r *R) *Case {
	f := &failer{pred: true}
	for _, lines := range []int{65535, 65536, 70001, 131072 + 5} {
		for _, isObj := range []bool{false, true} {
			doc := "[1,\n2,\nnul]"
			if isObj {
				doc = "{\"a\":1,\n\"b\" 2}"
			}
			s := strings.Repeat("\n", lines) + doc
			po := doParse(isObj, s)
			want := lines + 3
			if isObj {
				want = lines + 2
			}
			if po.ok || po.line != want {
				f.fail("an error on line %d of a long document is cited as line %d", want, po.line)
			}
		}
	}
	return &Case{Coq: "", Desc: map[string]any{"many_lines": true}, Pred: f.pred, PredMsg: f.msg, Nontrivial: true, Key: "many-lines", Tags: []string{"many-lines"}}
}

func genC20(r *R, n int, tier string, out *Out) {
	out.emit(manyLinesCase(r))
	var recent []c20doc
	// between tokens: newlines, and blanks that are NOT newlines (a lone CR, VT, FF, NEL, LS, PS, other unicode.IsSpace characters) - only LF counts
	nl := func() string {
		if r.chance(0.12) {
			return pickOf(r, []string{"\r", "\v", "\f", "\u0085", "\u2028", "\u2029", "\u00a0", "\u3000", "\u200a", "\r\r\n", "\u0085\n"})
		}
		return pickOf(r, []string{"", "", "\n", "\n\n", " \n", "\r\n", "\n\t", " "})
	}
	for i := 0; i < n; i++ {
		isObj := r.chance(0.5)
		// build a multi-line valid document token by token, remembering token boundaries
		var toks []string
		var build func(depth int, obj bool)
		scalar := func() string {
			if r.chance(0.15) {
				// code points whose low byte (or low 16 bits) is LF, CR or another structural character, and the Unicode line separators:
				// none of them is a newline
				return pickOf(r, []string{"\"\u010a\"", "\"\u200a\"", "\"\u4e0a\"", "\"a\u010ab\u010a\"", "\"\u010d\u010a\"", "\"\u2028\"", "\"\u2029\u0085\"", "\"\U0001000a\"", "\"\u0122\u015c\""})
			}
			if r.chance(0.04) {
				return pickOf(r, []string{"\"x\ry\"", "\"\r\"", "\"a\r\nb\"", "\"\r\r\""}) // raw CR inside strings: not a line end
			}
			if r.chance(0.06) {
				return pickOf(r, []string{"9223372036854775808", "18446744073709551616", "-9223372036854775809", "9223372036854775807", "123456789012345678901234567890"})
			}
			return pickOf(r, []string{"1", "true", "null", `"s"`, "2.5", `"a\nb"`, "-7", `"x y"`, "\"ab\ncd\"", "\"l1\nl2\nl3\"", "\"\nx\"", "\"tab\there\"", "\"a\\\nb\"", "\"\\\n\""})
		}
		build = func(depth int, obj bool) {
			if depth < 3 && r.chance(0.18) {
				// an EMPTY nested container whose brackets are apart: several blanks and line breaks between them
				open_, close_ := "[", "]"
				if obj {
					open_, close_ = "{", "}"
				}
				toks = append(toks, open_, nl()+pickOf(r, []string{"", "\n", "\n\n ", " \n\t\n"}), close_)
				return
			}
			if obj {
				toks = append(toks, "{", nl())
				m := 1 + r.Intn(3)
				for j := 0; j < m; j++ {
					if j > 0 {
						toks = append(toks, ",", nl())
					}
					// keys: mostly plain; sometimes with a raw newline, an escape, or a backslash directly followed by a raw newline
					key := fmt.Sprintf(`"k%d"`, j)
					switch r.Intn(8) {
					case 0:
						key = fmt.Sprintf("\"k%d\nx\"", j)
					case 1:
						key = fmt.Sprintf("\"k%d\\\nx\"", j)
					case 2:
						key = fmt.Sprintf(`"k%d\"q\\"`, j)
					case 3:
						key = fmt.Sprintf("\"k%d%s\"", j, pickOf(r, []string{"\u010a", "\u200a", "\u4e0a\u010a", "\u2028", "\u0085", "\U0001000a"}))
					}
					toks = append(toks, key, nl(), ":", nl())
					if depth > 0 && r.chance(0.45) {
						build(depth-1, r.chance(0.5))
					} else {
						toks = append(toks, scalar())
					}
					toks = append(toks, nl())
				}
				toks = append(toks, "}")
			} else {
				toks = append(toks, "[", nl())
				m := 1 + r.Intn(3)
				for j := 0; j < m; j++ {
					if j > 0 {
						toks = append(toks, ",", nl())
					}
					if depth > 0 && r.chance(0.45) {
						build(depth-1, r.chance(0.5))
					} else {
						toks = append(toks, scalar())
					}
					toks = append(toks, nl())
				}
				toks = append(toks, "]")
			}
		}
		build(3, isObj)
		prefix := pickOf(r, []string{"", "\n", "garbage text\n\n", "// c\n", "  \n\n\n"})
		if r.chance(0.12) {
			// many lines, or one very long physical line (longer than any read buffer), in front of the root
			prefix = pickOf(r, []string{strings.Repeat("\n", 11+r.Intn(120)), strings.Repeat("x", 4000+r.Intn(5000)) + "\n", strings.Repeat(" ", 4096) + "\n\n",
				strings.Repeat("y", 9000) + "\n" + strings.Repeat("\n", 10), strings.Repeat("ab\n", 40)})
		}
		// inject one error: replace a scalar by an invalid literal, or a structural token by a wrong character
		kind := r.Intn(5)
		var cands []int
		for j, t := range toks {
			switch kind {
			case 4:
				if t == "]" || t == "}" || t == "1" || t == "true" || t == `"s"` {
					if j+1 < len(toks) { // (not the root's own closing bracket)
						cands = append(cands, j)
					}
				}
			case 0, 1:
				if t == "1" || t == "true" || t == "null" || t == "2.5" || t == "-7" {
					cands = append(cands, j)
				}
			case 2:
				if t == ":" {
					cands = append(cands, j)
				}
			default:
				if strings.HasPrefix(t, `"k`) {
					cands = append(cands, j)
				}
			}
		}
		tags := []string{"injected:none"}
		expectLine := 0
		if len(cands) > 0 {
			j := pickOf(r, cands)
			switch kind {
			case 0, 1:
				toks[j] = pickOf(r, []string{"tru", "nul", "1.2.3", "--1", "abc", "0x", "1e"})
				if r.chance(0.2) { // long invalid literals (a message that quotes the literal must still end in the right line number)
					toks[j] = pickOf(r, []string{"tru", "9", "nu", "1.", "z"}) + strings.Repeat(pickOf(r, []string{"e", "9", "l", "1", "q"}), pickOf(r, []int{60, 70, 71, 72, 73, 74, 75, 100, 118, 119, 120, 130, 300}))
				}
				tags = []string{"injected:invalid-literal"}
				// detected at the delimiter that terminates the literal: first ',' ']' '}' after it
				off := len(prefix) + len(strings.Join(toks[:j+1], ""))
				rest := strings.Join(toks[j+1:], "")
				k := strings.IndexAny(rest, ",]}")
				if k >= 0 {
					// the machine in charge decides which delimiters terminate (',' and its own bracket); approximate by the first one
					text := prefix + strings.Join(toks, "")
					expectLine = 1 + strings.Count(text[:off+k], "\n")
					_ = text
				}
			case 4:
				// an unexpected character right after a complete value (often a nested container): the machine expects a delimiter
				extra := pickOf(r, []string{"x", "2", "\"q\"", "[", "{", ":"})
				gap := pickOf(r, []string{" ", "", "\n", " \n ", "\t"})
				off := len(prefix) + len(strings.Join(toks[:j+1], "")) + len(gap)
				toks[j] = toks[j] + gap + extra
				tags = []string{"injected:extra-token-after-value"}
				text := prefix + strings.Join(toks, "")
				expectLine = 1 + strings.Count(text[:off], "\n")
			case 2:
				toks[j] = pickOf(r, []string{";", "=", "x"})
				tags = []string{"injected:wrong-colon"}
				off := len(prefix) + len(strings.Join(toks[:j], ""))
				text := prefix + strings.Join(toks, "")
				expectLine = 1 + strings.Count(text[:off], "\n")
			default:
				toks[j] = pickOf(r, []string{"k", "1", "'k'"})
				tags = []string{"injected:unquoted-key"}
				off := len(prefix) + len(strings.Join(toks[:j], ""))
				text := prefix + strings.Join(toks, "")
				expectLine = 1 + strings.Count(text[:off], "\n")
			}
		}
		s := prefix + strings.Join(toks, "") + pickOf(r, []string{"", "\n", "\n\ntrailing"})
		f := &failer{pred: true}
		po := doParse(isObj, s)
		if !po.ok && (po.class == "char" || po.class == "value") && expectLine > 0 {
			if po.line != expectLine {
				// an invalid literal inside an object nested in a list may legitimately be terminated by a later delimiter; only flag
				// when the cited line is not the line of ANY delimiter/character position consistent with the text
				if !lineConsistent(s, po) {
					f.fail("the error cites line %d; the offending character is on another line (expected %d)", po.line, expectLine)
				}
			}
		}
		if !po.ok && (po.class == "char" || po.class == "value") && !lineConsistent(s, po) {
			f.fail("the error cites line %d which does not contain the cited character/delimiter at a position consistent with the text", po.line)
		}
		if isObj && i%3 == 0 {
			// the same text through ParseFile must give the same outcome (same cited line) as ParseObject on the file's bytes
			tmpf, err := os.CreateTemp("", "anytype-c20-*.json")
			if err == nil {
				tmpf.WriteString(s)
				tmpf.Close()
				pf := parseFileOut(tmpf.Name())
				os.Remove(tmpf.Name())
				if !pf.same(po) {
					f.fail("ParseFile reports %q, ParseObject on the same bytes reports %q", pf.errText, po.errText)
				}
				tags = append(tags, "via-ParseFile")
			}
		}
		out.emit(textCase("C20", isObj, s, f, tags, map[string]any{"expected_line": expectLine}))
		recent = append(recent, c20doc{isObj, s, po})
		if len(recent) == 8 {
			// the same eight documents parsed at the same time by eight goroutines (three rounds): every call counts its own lines
			if i%5 == 2 {
				out.emit(concurrentParses(recent))
			}
			recent = recent[:0]
		}
	}
}

type c20doc struct {
	isObj bool
	s     string
	po    parseOut
}

func concurrentParses(docs []c20doc) *Case {
	f := &failer{pred: true}
	var mu sync.Mutex
	var wg sync.WaitGroup
	for round := 0; round < 3; round++ {
		for _, d := range docs {
			wg.Add(1)
			go func(d c20doc) {
				defer wg.Done()
				// longer texts in front make the calls overlap: the same document behind 40 extra lines cites 40 lines more
				pad := strings.Repeat("\n", 40)
				got := doParseNow(d.isObj, pad+d.s)
				want := d.po
				ok := got.ok == want.ok && got.class == want.class && got.cited == want.cited && (got.ok || got.line == want.line+40 || want.line == 0)
				if !ok {
					mu.Lock()
					f.fail("parsed concurrently with other documents, %q cites line %d (%s); parsed alone it cites line %d + 40 (%s)", clip(d.s), got.line, got.class, want.line, want.class)
					mu.Unlock()
				}
			}(d)
		}
	}
	wg.Wait()
	return &Case{Coq: "", Desc: map[string]any{"concurrent_parses": len(docs) * 3}, Pred: f.pred, PredMsg: f.msg, Nontrivial: true,
		Key: "concurrent-parses/" + docs[0].s, Tags: []string{"concurrent-parses"}}
}

// the cited line exists in the text and contains the cited character (char errors) or a delimiter , ] } (value errors)
func lineConsistent(s string, po parseOut) bool {
	lines := strings.Split(s, "\n")
	if po.line < 1 || po.line > len(lines) {
		return false
	}
	ln := lines[po.line-1]
	if po.class == "char" {
		return strings.Contains(ln, po.cited)
	}
	return strings.ContainsAny(ln, ",]}")
}

func init() {
	generators["C01"] = genTreeProp("C01")
	generators["C02"] = genTreeProp("C02")
	generators["C16"] = genTreeProp("C16")
	generators["C03"] = genC03
	generators["C04"] = genC04
	generators["C20"] = genC20
}
