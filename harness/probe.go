package main

import (
	"fmt"
	"strings"

	at "github.com/DanielSvub/anytype"
)

// k2probe: ParseList on a very deeply nested input, in its own process (a Go stack overflow is fatal, not a recoverable panic)
func init() {
	commands["k2probe"] = func(args []string, seed int64, n int, tier, out, replay string) int {
		depth := n
		l, err := at.ParseList(strings.Repeat("[", depth))
		fmt.Printf("survived depth=%d list=%v err=%v\n", depth, l != nil, err)
		return 0
	}
}
