package main

// Slice-level programs: list-only operations on several lists of scalars, with growth histories that leave spare capacity.
// After every step the outcome and the visible contents of ALL lists are recorded; the Coq side runs the backing-array model
// (Slice.v) with two growth policies and both must reproduce them.

import (
	"fmt"
	"strings"

	at "github.com/DanielSvub/anytype"
)

type sliceProg struct {
	lists []at.List
	ops   []string // Coq terms
	trace []string
	lines []string
	pred  bool
	msg   string
	unreadable bool
}

func (p *sliceProg) snapshot() (string, string) {
	items := make([]string, len(p.lists))
	var txt strings.Builder
	for i, l := range p.lists {
		elems := make([]string, l.Count())
		for j := 0; j < l.Count(); j++ {
			elems[j] = hvalAnyCoq(l.Get(j))
		}
		items[i] = coqList(elems)
		fmt.Fprintf(&txt, "l%d=%s ", i, l.String())
	}
	return coqList(items), txt.String()
}

func (p *sliceProg) step(coq string, readable string, f func() string) {
	out := "ONone"
	panicked := try(func() {
		if o := f(); o != "" {
			out = o
		}
	})
	oc := "(Ret " + out + ")"
	if panicked {
		oc = "Pan"
	}
	var snap, txt string
	if p.unreadable {
		snap, txt = "[]", "(lists unreadable since an earlier step)"
	} else if try(func() { snap, txt = p.snapshot() }) {
		// the public API itself panics while the lists are read back (e.g. a nil slot became visible)
		if p.pred {
			p.pred = false
			p.msg = fmt.Sprintf("after %s the lists can no longer be read through Count/Get/String (panic while observing)", readable)
		}
		p.unreadable = true
		snap, txt = "[]", "(panic while reading the lists)"
	}
	p.ops = append(p.ops, coq)
	p.trace = append(p.trace, fmt.Sprintf("(%s, %s)", oc, snap))
	p.lines = append(p.lines, fmt.Sprintf("%s => %s | %s", readable, oc, txt))
}

func genSliceProgram(r *R) *sliceProg {
	p := &sliceProg{pred: true}
	ctr := 0
	fresh := func() (any, string) {
		ctr++
		return ctr, fmt.Sprintf("(HInt %d)", ctr)
	}
	newList := func(n int) {
		var vals []any
		var cv []string
		for i := 0; i < n; i++ {
			v, c := fresh()
			vals = append(vals, v)
			cv = append(cv, c)
		}
		p.step(fmt.Sprintf("(CNew %s 0%%nat)", coqList(cv)), fmt.Sprintf("NewList(%v)", vals), func() string {
			p.lists = append(p.lists, at.NewList(vals...))
			return ""
		})
	}
	newList(r.Intn(4))
	nops := 6 + r.Intn(24)
	for len(p.ops) < nops {
		if len(p.lists) < 2 || (len(p.lists) < 6 && r.chance(0.08)) {
			newList(r.Intn(4))
			continue
		}
		id := r.Intn(len(p.lists))
		l := p.lists[id]
		n := l.Count()
		bi := func() int64 {
			if n > 0 && r.chance(0.65) {
				return int64(r.Intn(n))
			}
			return pickOf(r, []int64{-1, 0, int64(n), int64(n + 1), int64(n - 1), int64(-n)})
		}
		switch r.Intn(16) {
		case 0, 1, 2:
			k := 1 + r.Intn(4)
			var vals []any
			var cv []string
			for i := 0; i < k; i++ {
				v, c := fresh()
				vals = append(vals, v)
				cv = append(cv, c)
			}
			p.step(fmt.Sprintf("(CAdd %d%%nat %s)", id, coqList(cv)), fmt.Sprintf("l%d.Add(%v)", id, vals), func() string { l.Add(vals...); return "" })
		case 3, 4:
			i := bi()
			v, c := fresh()
			p.step(fmt.Sprintf("(CInsert %d%%nat %s %s)", id, coqZ(i), c), fmt.Sprintf("l%d.Insert(%d,%v)", id, i, v), func() string { l.Insert(int(i), v); return "" })
		case 5:
			i := bi()
			v, c := fresh()
			p.step(fmt.Sprintf("(CReplace %d%%nat %s %s)", id, coqZ(i), c), fmt.Sprintf("l%d.Replace(%d,%v)", id, i, v), func() string { l.Replace(int(i), v); return "" })
		case 6, 7:
			if n >= 2 && r.chance(0.4) {
				perm := r.Perm(n)
				k := 2
				if n > 2 && r.chance(0.5) {
					k = 3
				}
				idx := make([]int, k)
				zs := make([]int64, k)
				for j := 0; j < k; j++ {
					idx[j] = perm[j]
					zs[j] = int64(perm[j])
				}
				p.step(fmt.Sprintf("(CDelete %d%%nat %s)", id, coqZs(zs)), fmt.Sprintf("l%d.Delete(%v)", id, idx), func() string { l.Delete(idx...); return "" })
			} else {
				i := bi()
				p.step(fmt.Sprintf("(CDelete %d%%nat [%s])", id, coqZ(i)), fmt.Sprintf("l%d.Delete(%d)", id, i), func() string { l.Delete(int(i)); return "" })
			}
		case 8, 9:
			p.step(fmt.Sprintf("(CPop %d%%nat)", id), fmt.Sprintf("l%d.Pop()", id), func() string { l.Pop(); return "" })
		case 10:
			if r.chance(0.4) {
				p.step(fmt.Sprintf("(CClear %d%%nat)", id), fmt.Sprintf("l%d.Clear()", id), func() string { l.Clear(); return "" })
			} else {
				p.step(fmt.Sprintf("(CReverse %d%%nat)", id), fmt.Sprintf("l%d.Reverse()", id), func() string { l.Reverse(); return "" })
			}
		case 11:
			if n > 0 {
				p.step(fmt.Sprintf("(CSort %d%%nat)", id), fmt.Sprintf("l%d.Sort()", id), func() string { l.Sort(); return "" })
			}
		case 12:
			s := int64(0)
			if n > 0 {
				s = int64(r.Intn(n + 1))
			}
			e := s + int64(r.Intn(n-int(s)+1))
			if r.chance(0.3) {
				e -= int64(n)
			}
			if r.chance(0.15) {
				e = bi()
			}
			p.step(fmt.Sprintf("(CSubList %d%%nat %s %s)", id, coqZ(s), coqZ(e)), fmt.Sprintf("l%d.SubList(%d,%d)", id, s, e), func() string {
				p.lists = append(p.lists, l.SubList(int(s), int(e)))
				return ""
			})
		case 13, 14:
			id2 := r.Intn(len(p.lists))
			p.step(fmt.Sprintf("(CConcat %d%%nat %d%%nat)", id, id2), fmt.Sprintf("l%d.Concat(l%d)", id, id2), func() string {
				p.lists = append(p.lists, l.Concat(p.lists[id2]))
				return ""
			})
		default:
			i := bi()
			p.step(fmt.Sprintf("(CGet %d%%nat %s)", id, coqZ(i)), fmt.Sprintf("l%d.Get(%d)", id, i), func() string { return "(OV " + hvalAnyCoq(l.Get(int(i))) + ")" })
		}
	}
	return p
}

// C05 and C09 emit both heap-level programs (inl) and slice-level programs (inr)
func genHeapAndSlice(prof string) genFunc {
	return func(r *R, n int, tier string, out *Out) {
		for i := 0; i < n; i++ {
			if i%3 == 2 {
				p := genSliceProgram(r)
				out.emit(&Case{
					Coq:        fmt.Sprintf("(inr (%s, %s))", coqList(p.ops), coqList(p.trace)),
					Desc:       map[string]any{"slice_program": p.lines},
					Pred:       p.pred, PredMsg: p.msg,
					Nontrivial: len(p.ops) >= 5,
					Key:        strings.Join(p.lines, "\n"),
					Tags:       []string{"slice-level", fmt.Sprintf("len=%d", len(p.ops)/5*5)},
				})
				continue
			}
			p := heapProgram(r, prof)
			if prof == "C09" && !p.broken {
				p.viewsOwnStorage()
			}
			ops := make([]string, len(p.ops))
			for j, o := range p.ops {
				ops[j] = o.coq()
			}
			var tags []string
			for t := range p.tags {
				tags = append(tags, t)
			}
			out.emit(&Case{
				Coq:        fmt.Sprintf("(inl (%s, %s))", coqList(ops), coqList(p.trace)),
				Desc:       map[string]any{"program": p.lines},
				Pred:       p.m.pred, PredMsg: p.m.predMsg,
				Nontrivial: p.nontrv,
				Key:        strings.Join(p.lines, "\n"),
				Tags:       append(tags, "heap-level", fmt.Sprintf("len=%d", len(p.ops)/5*5)),
			})
		}
	}
}

func init() {
	generators["C05"] = genHeapAndSlice("C05")
	generators["C09"] = genHeapAndSlice("C09")
}
