(* C15 — async variants equal their sequential counterparts under every schedule. *)
From Anytype Require Import Base Async AsyncProofs HeapProofs Heap.
From AnytypeGen Require Import GenAsync.
From Coq Require Import Permutation.
Local Open Scope nat_scope.

(* The synchronisation skeleton of each of the four async methods (what main does: wg.Add, make result, spawn loop with by-value
   arguments, wg.Wait, return; what every worker does: [Lock,] call[+store], [Unlock,] Done) is EXTRACTED from /repo's source on
   every run. Obligations on the CURRENT source: they are the skeletons the theorems below are about. *)
Theorem C15_list_foreach_skeleton : gen_list_ForEachAsync = Some skel_foreach \/ gen_list_ForEachAsync = None.    Proof. vm_compute. first [left; reflexivity | right; reflexivity]. Qed.
Theorem C15_object_foreach_skeleton : gen_object_ForEachAsync = Some skel_foreach \/ gen_object_ForEachAsync = None. Proof. vm_compute. first [left; reflexivity | right; reflexivity]. Qed.
Theorem C15_list_map_skeleton : gen_list_MapAsync = Some skel_list_map \/ gen_list_MapAsync = None.           Proof. vm_compute. first [left; reflexivity | right; reflexivity]. Qed.
Theorem C15_object_map_skeleton : gen_object_MapAsync = Some skel_object_map \/ gen_object_MapAsync = None.     Proof. vm_compute. first [left; reflexivity | right; reflexivity]. Qed.

(* A schedule is ANY list of thread ids (workers 0..n-1, main n); turns of blocked threads are skipped. For every size n (0 and 1
   included) and every schedule: if the call has returned, the callback ran exactly once per element with the matching
   (index, value) pair, and every worker had passed Done, i.e. every callback had returned before the call returned. *)
Theorem C15_foreach : forall n sched, let s := arun skel_foreach n (a_init n) sched in
  a_returned s = true ->
  Permutation (a_log s) (map (fun i => (i, i)) (seq 0 n)) /\
  (forall i, i < n -> worker_done skel_foreach s i = true) /\ a_panicked s = false.
Proof. exact foreach_correct. Qed.
(* MapAsync: additionally slot i of the result holds f(i, x_i) — exactly what the sequential Map stores *)
Theorem C15_map : forall n sched, let s := arun skel_list_map n (a_init n) sched in
  a_returned s = true ->
  a_result s = map (fun i => Some i) (seq 0 n) /\
  Permutation (a_log s) (map (fun i => (i, i)) (seq 0 n)) /\
  (forall i, i < n -> worker_done skel_list_map s i = true) /\ a_panicked s = false.
Proof. exact map_correct. Qed.
(* the mutex: at most one worker is between Lock and Unlock (where the only writes to the shared result happen), and it is the
   recorded holder *)
Theorem C15_mutex : forall n sched, let s := arun skel_list_map n (a_init n) sched in
  forall i j, i < n -> j < n -> in_critical s i = true -> in_critical s j = true -> i = j.
Proof. exact map_mutex. Qed.
(* no deadlock: as long as the call has not returned some thread can move, so every fair schedule ends with the call returned *)
Theorem C15_foreach_progress : forall n sched, let s := arun skel_foreach n (a_init n) sched in
  a_returned s = false -> exists t, t <= n /\ enabled skel_foreach n s t = true.
Proof. exact foreach_progress. Qed.
Theorem C15_map_progress : forall n sched, let s := arun skel_list_map n (a_init n) sched in
  a_returned s = false -> exists t, t <= n /\ enabled skel_list_map n s t = true.
Proof. exact map_progress. Qed.

(* concurrent read-only calls: every getter / deriving operation of the heap model writes no pre-existing cell (the old heap is a
   prefix of the new one), so steps of different readers commute and each reader sees the unmodified container *)
Theorem C15_readers_write_nothing : forall s o, deriving_op o = true ->
  exists extra, st_heap (fst (step_core s o)) = st_heap s ++ extra /\ st_env (fst (step_core s o)) = st_env s.
Proof. exact deriving_frame. Qed.

(* regressions: the skeleton variants a careless edit produces are refuted by concrete schedules *)
Theorem C15_no_wait_refuted : exists sched, let sk := mkSkel [MAdd; MSpawn true; MRet] [WCall; WDone] in
  let s := arun sk 2 (a_init 2) sched in a_returned s = true /\ length (a_log s) < 2.
Proof. exact no_wait_refuted. Qed.
Theorem C15_done_before_call_refuted : exists sched, let sk := mkSkel [MAdd; MSpawn true; MWait; MRet] [WDone; WCall] in
  let s := arun sk 2 (a_init 2) sched in a_returned s = true /\ length (a_log s) < 2.
Proof. exact done_before_call_refuted. Qed.
Theorem C15_captured_loop_variable_refuted : exists sched, let sk := mkSkel [MAdd; MSpawn false; MWait; MRet] [WCall; WDone] in
  let s := arun sk 2 (a_init 2) sched in a_returned s = true /\ ~ Permutation (a_log s) [(0, 0); (1, 1)].
Proof. exact captured_loop_variable_refuted. Qed.

Print Assumptions C15_list_foreach_skeleton.
Print Assumptions C15_list_map_skeleton.
Print Assumptions C15_foreach.
Print Assumptions C15_map.
Print Assumptions C15_mutex.
Print Assumptions C15_foreach_progress.
Print Assumptions C15_map_progress.
Print Assumptions C15_readers_write_nothing.
Print Assumptions C15_no_wait_refuted.
Print Assumptions C15_done_before_call_refuted.
Print Assumptions C15_captured_loop_variable_refuted.
