(* C08 — Clone is a deep copy that shares no mutable container with its source. *)
From Anytype Require Import Base FloatBits Value Equality Heap HeapProofs CloneProofs CloneHistory.
From Anytype Require Import Acyclic.
From Anytype Require Import HeapExt HeapExtProofs CloneHistory Reachable.
Local Open Scope nat_scope.

(* [clone_val] transcribes the two copy() methods; [reify] reads a heap value as a pure tree (None = cyclic / dangling);
   [Reach h v r]: container r is reachable from v. *)

(* Clone succeeds on every acyclic value ... *)
Theorem C08_total : forall f h v t, reify f h v = Some t -> exists h' v', clone_val f h v = Some (h', v').
Proof. exact clone_total. Qed.
(* ... the clone reads as exactly the same tree (hence Equals on NaN-free data, by C07) ... *)
Theorem C08_equal : forall f h v h' v' t, clone_val f h v = Some (h', v') -> reify f h v = Some t -> reify f h' v' = Some t.
Proof. exact clone_equal. Qed.
Corollary C08_equals : forall f h v h' v' t, clone_val f h v = Some (h', v') -> reify f h v = Some t ->
  wfb t = true -> nan_free t = true ->
  exists t', reify f h' v' = Some t' /\ veq t t' = true.
Proof. intros f h v h' v' t C R W N. exists t. split; [exact (clone_equal _ _ _ _ _ _ C R) | apply veq_refl; assumption]. Qed.
(* ... the old heap is untouched (a prefix of the new one) ... *)
Theorem C08_frame : forall fuel h v h' v', clone_val fuel h v = Some (h', v') -> exists extra, h' = h ++ extra.
Proof. exact clone_val_extends. Qed.
(* ... EVERY container reachable from the clone, itself included, at any depth, was allocated by the call ... *)
Theorem C08_fresh : forall f h v h' v' r, clone_val f h v = Some (h', v') -> Reach h' v' r -> length h <= r.
Proof. exact clone_fresh. Qed.
(* ... so no container is reachable from both *)
Theorem C08_disjoint : forall f h v h' v' r, heap_wf h -> ref_ok h v -> clone_val f h v = Some (h', v') ->
  Reach h' v r -> Reach h' v' r -> False.
Proof. exact clone_disjoint. Qed.

(* consequently: a value's tree depends only on the cells reachable from it, *)
Theorem C08_reify_frame : forall f h h' v, (forall r, Reach h v r -> nth_error h' r = nth_error h r) -> reify f h' v = reify f h v.
Proof. exact reify_frame. Qed.
(* and ANY write to a cell reachable from one of (source, clone) — top level or nested, by a method or a tree-form path:
   every mutator of the model is such a cell write — leaves the other observably unchanged *)
Theorem C08_independent : forall f h v h' v' id c f2, heap_wf h -> ref_ok h v -> clone_val f h v = Some (h', v') ->
  (Reach h' v' id -> reify f2 (upd h' id c) v = reify f2 h' v) /\
  (Reach h' v id -> reify f2 (upd h' id c) v' = reify f2 h' v').
Proof. exact clone_independent_step. Qed.
(* the history clause: ANY later sequence of cell writes and allocations confined to one side (every mutator of the model is such a
   sequence: it writes cells reachable from its receiver and allocates new ones) leaves the other side's tree unchanged, and
   keeps its set of reachable containers, so the statement applies again to any further history *)
Theorem C08_history : forall f h v h' v' steps f2, heap_wf h -> ref_ok h v -> clone_val f h v = Some (h', v') ->
  (run_local (fun i => length h <= i) h' steps ->
     reify f2 (run_steps h' steps) v = reify f2 h' v /\ (forall r, Reach (run_steps h' steps) v r <-> Reach h' v r)) /\
  (run_local (fun i => i < length h) h' steps ->
     reify f2 (run_steps h' steps) v' = reify f2 h' v' /\ (forall r, Reach (run_steps h' steps) v' r <-> Reach h' v' r)).
Proof. exact clone_history_independent_full. Qed.
Theorem C08_wf_preserved : forall f h v h' v', heap_wf h -> ref_ok h v -> clone_val f h v = Some (h', v') -> heap_wf h' /\ ref_ok h' v'.
Proof. exact clone_wf. Qed.

Example C08_nonvacuous :
  (* a list holding the same object twice and a nested list: the clone is equal and entirely new *)
  let h := [CObj [(B"k", HInt 1)]; CList [HStr (B"x")]; CList [HO 0; HO 0; HL 1]] in
  match clone_val 5 h (HL 2) with
  | Some (h', HL id') => reify 5 h' (HL id') = reify 5 h (HL 2) /\ 3 <= id' /\ reify 5 h (HL 2) <> None
  | _ => False
  end.
Proof. vm_compute. repeat split; try lia; discriminate. Qed.
(* regression: a shallow copy below the top level (storing the element instead of its copy) shares a container *)
Example C08_shallow_copy_refuted :
  let h := [CList [HInt 1]; CList [HL 0]] in
  let h' := h ++ [CList [HL 0]] in   (* "clone" of list 1 that reuses element list 0 *)
  Reach h' (HL 1) 0 /\ Reach h' (HL 2) 0.
Proof. split; [eapply (reach_l_elem _ 1 [HL 0] (HL 0)) | eapply (reach_l_elem _ 2 [HL 0] (HL 0))];
  try reflexivity; try (left; reflexivity); apply reach_l_self. Qed.


(* The theorems above assume a well-formed heap (every stored container value points at an existing cell of its kind) and a
   source that is such a value. These are not assumptions about the library: EVERY state that ANY extended program (every method
   of both interfaces, HeapExt.v) reaches from the empty state is well-formed, provided the program text itself mentions
   containers only through variables (literal operands are scalars: [xop_ok], a decidable syntactic condition the correspondence
   runner checks on every program it executes). Hence, in every reachable state, for every variable: *)
Theorem C08_every_reachable_state_is_well_formed : forall (fadd fmul fdiv : Z -> Z -> Z) (of_int : Z -> Z) prog, Forall xop_ok prog ->
  state_wf (xexec fadd fmul fdiv of_int init_state prog).
Proof. exact reachable_wf. Qed.
Theorem C08_reachable_clone_shares_nothing : forall (fadd fmul fdiv : Z -> Z -> Z) (of_int : Z -> Z) prog, Forall xop_ok prog ->
  let s := xexec fadd fmul fdiv of_int init_state prog in
  forall v f h' v' r, In v (st_env s) -> clone_val f (st_heap s) v = Some (h', v') -> CloneProofs.Reach h' v r -> CloneProofs.Reach h' v' r -> False.
Proof. intros fadd fmul fdiv of_int prog OK. exact (reachable_clone_disjoint fadd fmul fdiv of_int prog OK). Qed.
Theorem C08_reachable_clone_history_independent : forall (fadd fmul fdiv : Z -> Z -> Z) (of_int : Z -> Z) prog, Forall xop_ok prog ->
  let s := xexec fadd fmul fdiv of_int init_state prog in
  forall v f h' v' steps f2, In v (st_env s) -> clone_val f (st_heap s) v = Some (h', v') ->
    (run_local (fun i => length (st_heap s) <= i)%nat h' steps ->
       reify f2 (run_steps h' steps) v = reify f2 h' v /\ (forall r, CloneProofs.Reach (run_steps h' steps) v r <-> CloneProofs.Reach h' v r)) /\
    (run_local (fun i => i < length (st_heap s))%nat h' steps ->
       reify f2 (run_steps h' steps) v' = reify f2 h' v' /\ (forall r, CloneProofs.Reach (run_steps h' steps) v' r <-> CloneProofs.Reach h' v' r)).
Proof. intros fadd fmul fdiv of_int prog OK. exact (reachable_clone_independent_full fadd fmul fdiv of_int prog OK). Qed.
(* the syntactic condition is needed: a literal container id in the program text would be stored as it is *)
Theorem C08_literal_container_ids_excluded : ~ state_wf (fst (step_core init_state (NewList [Lit (HL 7%nat)]))).
Proof. exact lit_injection_breaks_wf. Qed.


(* "acyclic" is not an assumption about the library either: a program keeps every container acyclic as long as no step stores a
   container into something reachable from it ([stores_okb], decidable, evaluated by the correspondence runner on every step of
   every program it executes, together with [xop_okb]: [run_okb]). In every state such a program reaches, the heap is well-formed,
   no container reaches itself, and every variable reads as a finite tree with fuel |heap|+1 *)
Theorem C08_every_reachable_state_is_acyclic : forall (fadd fmul fdiv : Z -> Z -> Z) (of_int : Z -> Z) prog,
  run_okb fadd fmul fdiv of_int init_state prog = true ->
  let s := xexec fadd fmul fdiv of_int init_state prog in
  state_wf s /\ heap_acyclic (st_heap s) /\ forall v, In v (st_env s) -> reify (S (length (st_heap s))) (st_heap s) v <> None.
Proof. exact reachable_acyclic. Qed.
(* the discipline is needed: storing a list into itself is rejected by it, and the resulting heap is cyclic *)
Theorem C08_storing_discipline_needed : run_okb (fun _ _ => 0%Z) (fun _ _ => 0%Z) (fun _ _ => 0%Z) (fun _ => 0%Z) init_state [Base (NewList []); Base (LAdd 0 [Reg 0])] = false.
Proof. vm_compute. reflexivity. Qed.

Print Assumptions C08_total.
Print Assumptions C08_equal.
Print Assumptions C08_equals.
Print Assumptions C08_frame.
Print Assumptions C08_fresh.
Print Assumptions C08_disjoint.
Print Assumptions C08_reify_frame.
Print Assumptions C08_independent.
Print Assumptions C08_history.
Print Assumptions C08_wf_preserved.
Print Assumptions C08_every_reachable_state_is_well_formed.
Print Assumptions C08_reachable_clone_shares_nothing.
Print Assumptions C08_reachable_clone_history_independent.
Print Assumptions C08_literal_container_ids_excluded.
Print Assumptions C08_every_reachable_state_is_acyclic.
Print Assumptions C08_storing_discipline_needed.
