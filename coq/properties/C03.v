(* C03 — the parser reads every valid JSON document exactly as a reference decoder does. *)
From Anytype Require Import Base FloatBits Value GoInt Utf8 Json JsonDoc JsonRefProofs ParserBasics ParserCorrect.
Local Open Scope Z_scope.

Section C03.
  Variable pfloat : bytes -> option Z.                       (* strconv.ParseFloat(s, 64) as an oracle *)
  Hypothesis F3 : pfloat (B"true") = None /\ pfloat (B"false") = None.   (* the only fact assumed about it; validated per run *)

  (* A document is a derivation [d] of the RFC 8259 grammar WITH its layout: every whitespace slot (any mix of space, tab, CR, LF),
     every escape spelling (the eight short escapes incl. the escaped solidus, \uXXXX in either hex case, surrogate pairs), every
     number spelling are constructors of [doc]; [render] writes the text; [denote pfloat d] is its meaning under the library's number
     rule (an integer literal without fraction/exponent that fits int64 is an int of that value; every other number is the float64 the
     text parses to; duplicate keys: the last one wins; a lone surrogate escape has no meaning and makes [denote] undefined).
     For EVERY such document with an array root, whatever blanks surround it: *)
  Theorem C03_list : forall a w elems b v, doc_ok (DArr w elems) = true -> denote pfloat (DArr w elems) = Some v ->
    exists line', parse_list_top pfloat (render_ws a ++ render (DArr w elems) ++ render_ws b) = POk v (render_ws b) line'.
  Proof. exact (parse_list_correct pfloat F3). Qed.
  (* and with an object root *)
  Theorem C03_object : forall a w members b v, doc_ok (DObj w members) = true -> denote pfloat (DObj w members) = Some v ->
    exists line', parse_object_top pfloat (render_ws a ++ render (DObj w members) ++ render_ws b) = POk v (render_ws b) line'.
  Proof. exact (parse_object_correct pfloat F3). Qed.
End C03.

(* "RFC 8259-valid text" is not an artefact of the grammar's presentation: the reference decoder decides it *)
Theorem C03_grammar_decided : forall s, json_valid s = true <-> exists a d b, doc_ok d = true /\ s = render_text (a, d, b).
Proof. exact json_valid_iff. Qed.

Example C03_nonvacuous :
  (* [ "a\/b" , "😀" ,1E2, 9223372036854775808 ,{"k" : -0}]  with blanks, parsed by the model with a toy float oracle *)
  let pf := fun s : bytes => if bytes_eqb s (B"1E2") then Some 4636737291354636288 else if bytes_eqb s (B"9223372036854775808") then Some 4890909195324358656 else None in
  match parse_list_top pf (B" [ ""a\/b"" , ""😀"" ,1E2, 9223372036854775808 ,{""k"" : -0}] ") with
  | POk (VList [VStr s1; VStr s2; VFloat f1; VFloat f2; VObj [(k, VInt 0)]]) _ _ =>
      s1 = B"a/b" /\ s2 = [xf0; x9f; x98; x80] /\ f1 = 4636737291354636288 /\ f2 = 4890909195324358656 /\ k = B"k"
  | _ => False
  end.
Proof. vm_compute. repeat split; reflexivity. Qed.

Print Assumptions C03_list.
Print Assumptions C03_object.
Print Assumptions C03_grammar_decided.
