(* C20 — parse errors cite the line on which the error was detected. *)
From Anytype Require Import Base FloatBits Value GoInt Utf8 Json ParserBasics.
Local Open Scope Z_scope.

Section C20.
  Variable pfloat : bytes -> option Z.     (* arbitrary: no assumption *)

  (* For EVERY input: when ParseList rejects it with an error that cites a line, the input splits as [used ++ at_rest] where at_rest
     starts at the offending character, and the cited number is 1 + the number of newline characters in [used] — counted from the
     start of the whole input: text before the root bracket, the bracket, nested containers and everything else consumed. *)
  Theorem C20_line_list : forall s e at_rest, parse_list_top pfloat s = PErr e at_rest -> e <> EMissing ->
    exists used, s = used ++ at_rest /\ match e with EChar _ _ l | EValue _ l => l = 1 + count_nl used | _ => True end.
  Proof. exact (top_error_line pfloat). Qed.
  Theorem C20_line_object : forall s e at_rest, parse_object_top pfloat s = PErr e at_rest -> e <> EMissing ->
    exists used, s = used ++ at_rest /\ match e with EChar _ _ l | EValue _ l => l = 1 + count_nl used | _ => True end.
  Proof. exact (top_error_line_obj pfloat). Qed.

  (* Inside both state machines, at any nesting depth, from any state and any starting value of the shared counter:
     the cited line is the counter plus the newlines consumed, the offending character is the unexpected character itself
     (never a newline or a blank) or the delimiter , ] } that terminates an invalid literal. *)
  Theorem C20_machines : forall fuel,
    (forall st acc buf inval s line e at_rest, plist pfloat fuel st acc buf inval s line = PErr e at_rest ->
        exists used, s = used ++ at_rest /\
          match e with
          | EChar _ got l => l = line + count_nl used /\ exists n, decode_rune at_rest = (got, n) /\ got <> 10 /\ is_space got = false
          | EValue _ l => l = line + count_nl used /\ exists c t, at_rest = c :: t /\ (c = x2c \/ c = x5d \/ c = x7d)
          | _ => True end) /\
    (forall st acc key buf inval s line e at_rest, pobj pfloat fuel st acc key buf inval s line = PErr e at_rest ->
        exists used, s = used ++ at_rest /\
          match e with
          | EChar _ got l => l = line + count_nl used /\ exists n, decode_rune at_rest = (got, n) /\ got <> 10 /\ is_space got = false
          | EValue _ l => l = line + count_nl used /\ exists c t, at_rest = c :: t /\ (c = x2c \/ c = x5d \/ c = x7d)
          | _ => True end).
  Proof. exact (parse_error_line pfloat). Qed.

  (* an accepted container advances the counter by exactly the newlines it consumed (so the caller keeps counting correctly) *)
  Theorem C20_counter_threaded : forall fuel,
    (forall st acc buf inval s line v rest line', plist pfloat fuel st acc buf inval s line = POk v rest line' ->
        exists used, s = used ++ rest /\ used <> [] /\ line' = line + count_nl used /\ utf8_valid used = true) /\
    (forall st acc key buf inval s line v rest line', pobj pfloat fuel st acc key buf inval s line = POk v rest line' ->
        exists used, s = used ++ rest /\ used <> [] /\ line' = line + count_nl used /\ utf8_valid used = true).
  Proof. exact (parse_consumes pfloat). Qed.
End C20.

Example C20_nonvacuous :
  (* text before the root, a nested object, the error (':' replaced by ';') on line 5 *)
  match parse_list_top (fun _ => None) (B"x
[1,
 {""a""
  :2,""b""
  ;3}]") with
  | PErr (EChar ExpColon 59 5) _ => True
  | _ => False
  end.
Proof. vm_compute. exact I. Qed.

Print Assumptions C20_line_list.
Print Assumptions C20_line_object.
Print Assumptions C20_machines.
Print Assumptions C20_counter_threaded.
