(* C04 — parsing is total and exclusive, and truncated documents are always rejected. *)
From Anytype Require Import Base FloatBits Value GoInt Utf8 Json JsonDoc SerializeProofs ParserBasics ParserCorrect RoundTrip.
From Anytype Require Import FloatText.
Local Open Scope Z_scope.

Section C04.
  Variable pfloat : bytes -> option Z.

  (* the result type of the model is [POk container rest line | PErr error at | PFuel]: "a non-nil container with a nil error or a nil
     container with a non-nil error" and "the same input gives the same outcome" hold by construction (it is a function);
     totality = the fuel (length of the input) always suffices: no input makes either machine run forever *)
  Theorem C04_total_list : forall s, parse_list_top pfloat s <> PFuel.
  Proof. exact (parse_list_top_total pfloat). Qed.
  Theorem C04_total_object : forall s, parse_object_top pfloat s <> PFuel.
  Proof. exact (parse_object_top_total pfloat). Qed.
  Theorem C04_total_file : forall c, parse_file pfloat c <> PFuel.
  Proof. exact (parse_file_total pfloat). Qed.
  (* ParseFile(path) = ParseObject(bytes of the file), an error when the file cannot be read *)
  Theorem C04_file : parse_file pfloat None = PErr EFile [] /\ forall b, parse_file pfloat (Some b) = parse_object_top pfloat b.
  Proof. split; reflexivity. Qed.

  (* every accepted document is well-formed UTF-8 between its root bracket and the bracket that closes it:
     a document containing ANY ill-formed sequence there (stray continuation byte, truncated sequence, overlong form, encoded
     surrogate, byte above F4 ...) is rejected *)
  Theorem C04_utf8_list : forall s v rest line, parse_list_top pfloat s = POk v rest line ->
    exists pre used, s = pre ++ x5b :: used ++ rest /\ utf8_valid used = true /\ ~ In x5b pre /\ used <> [] /\
                     line = 1 + count_nl pre + count_nl used.
  Proof. exact (accepted_utf8 pfloat). Qed.
  Theorem C04_utf8_object : forall s v rest line, parse_object_top pfloat s = POk v rest line ->
    exists pre used, s = pre ++ x7b :: used ++ rest /\ utf8_valid used = true /\ ~ In x7b pre /\ used <> [] /\
                     line = 1 + count_nl pre + count_nl used.
  Proof. exact (accepted_utf8_obj pfloat). Qed.
  Theorem C04_illformed_rejected : forall pre used rest v line, ~ In x5b pre -> utf8_valid used = false ->
    parse_list_top pfloat (pre ++ x5b :: used ++ rest) <> POk v rest line.
  Proof. exact (illformed_rejected pfloat). Qed.
End C04.

Section C04_prefix.
  Variable fmt_e fmt_f : Z -> bytes.
  Variable pfloat : bytes -> option Z.
  Hypothesis F2 : forall b, is_finite b = true -> fbits_ok b = true -> exists n, parse_num_text (ser_float fmt_e fmt_f b) = Some n.
  Hypothesis F1 : forall b, is_finite b = true -> fbits_ok b = true -> pfloat (ser_float fmt_e fmt_f b) = Some b.
  (* F5: the 'e' format contains an 'e' or a '.'; that a float's text is never an integer literal follows (FloatText.ser_float_not_int) *)
  Hypothesis F5 : forall b, is_finite b = true -> fbits_ok b = true -> In x65 (fmt_e b) \/ In x2e (fmt_e b).
  Let F4 : forall b, is_finite b = true -> fbits_ok b = true -> pint0 (ser_float fmt_e fmt_f b) = None := ser_float_not_int fmt_e fmt_f F2 F5.
  Hypothesis F3 : pfloat (B"true") = None /\ pfloat (B"false") = None.
  Notation ser := (ser fmt_e fmt_f).

  (* EVERY proper prefix of a text produced by String() — every cut point, inside multi-byte characters and escapes too — is
     rejected with an error *)
  Theorem C04_prefix_list : forall l p t, val_ok (VList l) = true -> ser (VList l) = p ++ t -> t <> [] ->
    exists e at_rest, parse_list_top pfloat p = PErr e at_rest.
  Proof. exact (prefix_error_list fmt_e fmt_f pfloat F2 F1 F4 F3). Qed.
  Theorem C04_prefix_object : forall kvs p t, val_ok (VObj kvs) = true -> ser (VObj kvs) = p ++ t -> t <> [] ->
    exists e at_rest, parse_object_top pfloat p = PErr e at_rest.
  Proof. exact (prefix_error_object fmt_e fmt_f pfloat F2 F1 F4 F3). Qed.
End C04_prefix.

Example C04_nonvacuous :
  (match parse_list_top (fun _ => None) (B"[1,[2") with PErr EEnd _ => True | _ => False end) /\
  (match parse_list_top (fun _ => None) [x5b; x22; xc0; x80; x22; x5d] with PErr EUtf8 _ => True | _ => False end) /\
  (match parse_object_top (fun _ => None) (B"no brace") with PErr EMissing _ => True | _ => False end).
Proof. vm_compute. repeat split; exact I. Qed.

Print Assumptions C04_total_list.
Print Assumptions C04_total_object.
Print Assumptions C04_total_file.
Print Assumptions C04_file.
Print Assumptions C04_utf8_list.
Print Assumptions C04_utf8_object.
Print Assumptions C04_illformed_rejected.
Print Assumptions C04_prefix_list.
Print Assumptions C04_prefix_object.
