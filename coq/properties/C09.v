(* C09 — deriving operations are pure: inputs unchanged, results own their storage. *)
From Anytype Require Import Base FloatBits Value Sorting Heap Slice HeapProofs.
From Anytype Require Import Footprint DerivedIndependence HeapExt HeapExtProofs.
Local Open Scope Z_scope.

(* (1) heap level: a deriving/observing operation (Concat, SubList, Merge, Pluck, Keys, Values, Slice, Dict, Clone, Equals,
   Contains, IndexOf, getters, tree-form reads ...) writes no pre-existing cell: the old heap is a prefix of the new one, and the
   variables are unchanged. Filter*/Map*/Reduce*/typed slices are pure functions of the element sequence (Views.v, C14). *)
Theorem C09_no_write : forall s o, deriving_op o = true ->
  exists extra, st_heap (fst (step_core s o)) = st_heap s ++ extra /\ st_env (fst (step_core s o)) = st_env s.
Proof. exact deriving_frame. Qed.

(* (2) slot level: with the real slice semantics (backing arrays, spare capacity, any growth policy) the result of
   SubList / Concat is a new cell with its own array, and ownership (distinct lists own distinct arrays) is an invariant of
   every program; hence later Add/Insert/Replace/Delete/Pop/Clear/Sort/Reverse on the receiver, the argument, the result or a
   second result change only that list: the whole program behaves like the sequence model, where each operation updates one id. *)
Theorem C09_results_own_storage : forall (grow : nat -> nat -> nat) prog c, Own c ->
  fst (crun grow c prog) = fst (arun (abs c) prog) /\
  abs (snd (crun grow c prog)) = snd (arun (abs c) prog) /\
  Own (snd (crun grow c prog)).
Proof. exact program_refines. Qed.

Theorem C09_step : forall (grow : nat -> nat -> nat) c o, Own c ->
  Own (fst (cstep grow c o)) /\ snd (cstep grow c o) = snd (astep (abs c) o) /\ abs (fst (cstep grow c o)) = fst (astep (abs c) o).
Proof. exact step_refines. Qed.

(* in the sequence model a mutation changes only its own list (what "independent" means) *)
Theorem C09_sequence_model_independent : forall s id l j, j <> id -> nth j (upd s id l) [] = nth j s ([] : list hval).
Proof. intros s id l j H. apply nth_upd_neq. congruence. Qed.

(* (3) the model can express the defect: the pre-fix Concat (append onto the receiver's slice) breaks ownership and is
   observable through a later Add on the receiver *)
Theorem C09_prefix_concat_refuted :
  let c0 := fst (cstep doubling empty_c (CNew [] 0)) in
  let c1 := fst (cstep doubling c0 (CAdd 0 [HInt 1; HInt 2; HInt 3; HInt 4])) in
  let c2 := fst (cstep doubling c1 (CPop 0)) in
  let c3 := fst (cstep doubling c2 (CNew [HInt 9] 0)) in
  let c4 := old_concat doubling c3 0 1 in
  let c5 := fst (cstep doubling c4 (CAdd 0 [HInt 7])) in
  vis c4 2 = [HInt 1; HInt 2; HInt 3; HInt 9] /\ vis c5 2 = [HInt 1; HInt 2; HInt 3; HInt 7] /\ ~ Own c4.
Proof. exact old_concat_refuted. Qed.


(* (4) in the heap model, for every operation that hands out a NEW container (SubList, Concat, Merge, Pluck, Keys, Values, Clone):
   the container is a cell that did not exist before; whatever sequence of Add/Insert/Replace/Delete/Pop/Clear/Reverse/Sort/Set/
   Unset is later applied to the result leaves every earlier cell - the receiver's and the argument's top-level slots included -
   unchanged; and whatever is applied to earlier containers leaves the result's top-level slots unchanged. *)
Theorem C09_created_is_fresh : forall s o out, creating_op o = true -> snd (step_core s o) = Ret (OV out) ->
  forall id', (out = HL id' \/ out = HO id') -> (length (st_heap s) <= id' < length (st_heap (fst (step_core s o))))%nat.
Proof. exact created_is_fresh. Qed.
Theorem C09_mutating_the_result_leaves_old_cells : forall s o out r ops,
  creating_op o = true -> snd (step_core s o) = Ret (OV out) -> (exists id', out = HL id' \/ out = HO id') ->
  r = length (st_env s) -> Forall (fun m => basic_mutator m = Some r) ops ->
  forall id, (id < length (st_heap s))%nat ->
    nth_error (st_heap (exec (fst (step s o)) ops)) id = nth_error (st_heap s) id.
Proof. exact mutating_the_result_leaves_old_cells. Qed.
Theorem C09_mutating_old_containers_leaves_the_result : forall s o out ops,
  creating_op o = true -> snd (step_core s o) = Ret (OV out) ->
  (forall r v id, nth_error (st_env s) r = Some v -> (v = HL id \/ v = HO id) -> (id < length (st_heap s))%nat) ->
  Forall (fun m => exists r0, basic_mutator m = Some r0 /\ (r0 < length (st_env s))%nat) ops ->
  forall id', (out = HL id' \/ out = HO id') ->
    nth_error (st_heap (exec (fst (step s o)) ops)) id' = nth_error (st_heap (fst (step s o))) id'.
Proof. exact mutating_old_containers_leaves_the_result. Qed.


(* (5) EVERY deriving operation the property names, as operations of heap-level programs (HeapExt.v: Filter and its typed variants,
   Map / MapValues / the typed Map variants / MapAsync of lists and objects, the typed slices, the Reduce family, String,
   FormatString, the All family, the aggregates, NativeSlice / NativeDict, NewListFrom / NewObjectFrom, every ForEach variant):
   none of them writes a cell that existed before (the old heap is a prefix of the new one, the variables are unchanged); what
   they hand out is a cell that did not exist; mutating it never changes an older cell, and mutating older containers never
   changes its top-level slots. The float oracles of the aggregates are arbitrary. *)
Theorem C09_no_write_any_operation : forall (fadd fmul fdiv : Z -> Z -> Z) (of_int : Z -> Z) s o, xderiving o = true ->
  exists extra, st_heap (fst (xstep_core fadd fmul fdiv of_int s o)) = st_heap s ++ extra /\
                st_env (fst (xstep_core fadd fmul fdiv of_int s o)) = st_env s.
Proof. exact xderiving_frame. Qed.
Theorem C09_any_created_container_is_fresh : forall (fadd fmul fdiv : Z -> Z -> Z) (of_int : Z -> Z) s o out, xcreating o = true ->
  snd (xstep_core fadd fmul fdiv of_int s o) = XRet (XO (OV out)) ->
  forall id', (out = HL id' \/ out = HO id') ->
  (length (st_heap s) <= id' < length (st_heap (fst (xstep_core fadd fmul fdiv of_int s o))))%nat.
Proof. exact xcreated_is_fresh. Qed.
Theorem C09_mutating_any_result_leaves_old_cells : forall (fadd fmul fdiv : Z -> Z -> Z) (of_int : Z -> Z) s o out r ops,
  xcreating o = true -> snd (xstep_core fadd fmul fdiv of_int s o) = XRet (XO (OV out)) -> (exists id', out = HL id' \/ out = HO id') ->
  r = length (st_env s) -> Forall (fun m => xbasic m r) ops ->
  forall id, (id < length (st_heap s))%nat ->
    nth_error (st_heap (xexec fadd fmul fdiv of_int (fst (xstep fadd fmul fdiv of_int s o)) ops)) id = nth_error (st_heap s) id.
Proof. exact x_mutating_the_result_leaves_old_cells. Qed.
Theorem C09_mutating_old_containers_leaves_any_result : forall (fadd fmul fdiv : Z -> Z -> Z) (of_int : Z -> Z) s o out ops,
  xcreating o = true -> snd (xstep_core fadd fmul fdiv of_int s o) = XRet (XO (OV out)) ->
  (forall r v id, nth_error (st_env s) r = Some v -> (v = HL id \/ v = HO id) -> (id < length (st_heap s))%nat) ->
  Forall (fun m => exists r0, xbasic m r0 /\ (r0 < length (st_env s))%nat) ops ->
  forall id', (out = HL id' \/ out = HO id') ->
    nth_error (st_heap (xexec fadd fmul fdiv of_int (fst (xstep fadd fmul fdiv of_int s o)) ops)) id' =
    nth_error (st_heap (fst (xstep fadd fmul fdiv of_int s o))) id'.
Proof. exact x_mutating_old_containers_leaves_the_result. Qed.
(* what Filter hands out: one new cell holding exactly the selected elements, in order (containers by reference) *)
Theorem C09_filter_result : forall (fadd fmul fdiv : Z -> Z -> Z) (of_int : Z -> Z) s r p id l, reg_list s r = Some (id, l) -> exists id',
  xstep_core fadd fmul fdiv of_int s (XLFilter r p) =
    (with_heap s (st_heap s ++ [CList (filter (apply_pred p (st_heap s)) l)]), XRet (XO (OV (HL id')))) /\ id' = length (st_heap s).
Proof. exact xfilter_content. Qed.
(* the operations of Heap.v behave inside extended programs exactly as they do there *)
Theorem C09_extended_programs_conservative : forall (fadd fmul fdiv : Z -> Z -> Z) (of_int : Z -> Z) prog s,
  xrun fadd fmul fdiv of_int s (map Base prog) = map (fun p => (lift (fst p), snd p)) (run s prog).
Proof. exact xrun_base. Qed.

Print Assumptions C09_no_write.
Print Assumptions C09_results_own_storage.
Print Assumptions C09_step.
Print Assumptions C09_sequence_model_independent.
Print Assumptions C09_prefix_concat_refuted.
Print Assumptions C09_created_is_fresh.
Print Assumptions C09_mutating_the_result_leaves_old_cells.
Print Assumptions C09_mutating_old_containers_leaves_the_result.
Print Assumptions C09_no_write_any_operation.
Print Assumptions C09_any_created_container_is_fresh.
Print Assumptions C09_mutating_any_result_leaves_old_cells.
Print Assumptions C09_mutating_old_containers_leaves_any_result.
Print Assumptions C09_filter_result.
Print Assumptions C09_extended_programs_conservative.
