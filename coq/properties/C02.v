(* C02 — String() is standard JSON that an independent decoder reads as the same data. *)
From Anytype Require Import Base FloatBits Value GoInt Utf8 Json JsonDoc JsonRefProofs SerializeProofs FormatProofs FloatText.
From Anytype Require Import Equality Heap HeapExt HeapExtProofs CanonEq.
From Anytype Require Import SourceTables SourceTablesProofs. From AnytypeGen Require Import GenTables.
Local Open Scope Z_scope.
Local Open Scope Z_scope.

Section C02.
  (* strconv.FormatFloat / ParseFloat are oracles; the contract below is re-validated against Go on every float of every run *)
  Variable fmt_e fmt_f : Z -> bytes.
  Variable pfloat : bytes -> option Z.
  Hypothesis F2 : forall b, is_finite b = true -> fbits_ok b = true -> exists n, parse_num_text (ser_float fmt_e fmt_f b) = Some n.
  Hypothesis F1 : forall b, is_finite b = true -> fbits_ok b = true -> pfloat (ser_float fmt_e fmt_f b) = Some b.
  (* F5: the 'e' format contains an 'e' or a '.'; that a float's text is never an integer literal follows (FloatText.ser_float_not_int) *)
  Hypothesis F5 : forall b, is_finite b = true -> fbits_ok b = true -> In x65 (fmt_e b) \/ In x2e (fmt_e b).
  Let F4 : forall b, is_finite b = true -> fbits_ok b = true -> pint0 (ser_float fmt_e fmt_f b) = None := ser_float_not_int fmt_e fmt_f F2 F5.
  Notation ser := (ser fmt_e fmt_f).

  (* [val_ok]: ints in range, floats finite, strings and keys valid UTF-8 (ANY code points), keys distinct; any depth and width.
     "RFC 8259 text" = render of a well-formed derivation of the grammar of JsonDoc.v. *)

  (* String() is the rendering of a well-formed JSON derivation whose meaning is exactly the container's content:
     same nesting, order, key set, byte-identical strings, ints exactly, floats to the identical float64 *)
  Theorem C02_valid_and_same_data : forall v, val_ok v = true ->
    exists d, doc_ok d = true /\ ser v = render d /\ denote pfloat d = Some v.
  Proof. exact (C02_statement fmt_e fmt_f pfloat F2 F1 F4). Qed.

  (* the independent reference decoder (plain recursive descent, shares no code with the library's parser) accepts it and returns
     that derivation *)
  Theorem C02_reference_decoder : forall v, val_ok v = true ->
    ref_parse (ser v) = Some ([], doc_of ser v, []) /\ denote pfloat (doc_of ser v) = Some v.
  Proof. intros v H. split; [exact (ref_parse_ser fmt_e fmt_f F2 v H) | exact (denote_doc_of fmt_e fmt_f pfloat F2 F1 F4 v H)]. Qed.
End C02.

(* the reference decoder decides the grammar (so "valid" is not an artefact of the decoder) *)
Theorem C02_decoder_decides_grammar : forall s, json_valid s = true <-> exists a d b, doc_ok d = true /\ s = render_text (a, d, b).
Proof. exact json_valid_iff. Qed.
Theorem C02_decoder_complete : forall a d b, doc_ok d = true -> doc_canon d = true -> ref_parse (render_text (a, d, b)) = Some (a, d, b).
Proof. exact ref_parse_complete. Qed.
Theorem C02_decoder_sound : forall s t, ref_parse s = Some t -> render_text t = s.
Proof. exact ref_parse_sound. Qed.
(* strings and keys: every byte string is quoted as a string literal of the grammar; a valid UTF-8 string denotes itself *)
Theorem C02_quote : forall s, quote s = render_string (sitems_of (length s) s).
Proof. exact quote_render. Qed.
Theorem C02_quote_denotes : forall s, utf8_valid s = true ->
  sitems_ok (sitems_of (length s) s) = true /\ denote_string (sitems_of (length s) s) = Some s.
Proof. exact sitems_of_ok. Qed.

Example C02_nonvacuous :
  (* control characters, DEL, quote, backslash, U+FFFD, an astral code point, the empty key *)
  quote [x01; x7f; x22; x5c; xef; xbf; xbd; xf0; x9f; x98; x80] =
    [x22; x5c; x75; x30; x30; x30; x31; x7f; x5c; x22; x5c; x5c; xef; xbf; xbd; xf0; x9f; x98; x80; x22] /\
  json_valid (B"{"""":[1.0,-0.0,null,true]}") = true.
Proof. vm_compute. split; reflexivity. Qed.


(* ---- second tie for quote(): the escape switch as the translator reads it from the source on every run (Generated/GenTables.v).
   A table is emitted only when every case of the switch was understood; it then has to pass the checker, and the checker is
   sound for ALL code points: the table interpreted as Go's switch writes exactly what the model's quote_rune writes. ---- *)
Theorem C02_quote_table_checker_sound : forall cs, qtable_ok cs = true -> forall r, 0 <= r -> qinterp cs r = Some (quote_rune r).
Proof. exact qtable_sound. Qed.
Theorem C02_quote_table_generated :
  match gen_quote_table with
  | None => True                      (* shape not recognised: quote() is tied by the correspondence check alone *)
  | Some (opening, closing, cs) => opening = [x22] /\ closing = [x22] /\ qtable_ok cs = true
  end.
Proof. vm_compute. first [ exact I | repeat split; reflexivity ]. Qed.


(* heap-level programs (HeapExt.v) compare what String()/FormatString()/NativeSlice()/NativeDict() return as the DATA they denote: the
   container's value tree with the members of every object sorted by key ([vcanon (reify h r)], against the independent decoder's
   result on the Go side). That canonical tree is well-formed, Equals the container's value in both directions, has sorted keys
   everywhere and is a fixed point of canonicalisation *)
Theorem C02_canonical_data_equals_the_container : forall v, wfb v = true -> nan_free v = true ->
  veq (vcanon v) v = true /\ veq v (vcanon v) = true.
Proof. exact vcanon_veq. Qed.
Theorem C02_canonical_data_wf : forall v, wfb v = true -> wfb (vcanon v) = true.
Proof. exact vcanon_wf. Qed.
Theorem C02_canonical_data_sorted : forall v, keys_sorted (vcanon v).
Proof. exact vcanon_sorted. Qed.
Theorem C02_canonical_idempotent : forall v, vcanon (vcanon v) = vcanon v.
Proof. exact vcanon_idem. Qed.


Theorem C02_heap_string_and_native : forall (fadd fmul fdiv : Z -> Z -> Z) (of_int : Z -> Z) s r v t, nth_error (st_env s) r = Some v ->
  reify (fuel_of (st_heap s)) (st_heap s) v = Some t ->
  xstep_core fadd fmul fdiv of_int s (XString r) = (s, XRet (XTree (vcanon t))) /\
  xstep_core fadd fmul fdiv of_int s (XNative r) = (s, XRet (XTree (vcanon t))).
Proof. exact xstring_step. Qed.

Print Assumptions C02_valid_and_same_data.
Print Assumptions C02_reference_decoder.
Print Assumptions C02_decoder_decides_grammar.
Print Assumptions C02_decoder_complete.
Print Assumptions C02_decoder_sound.
Print Assumptions C02_quote.
Print Assumptions C02_quote_denotes.
Print Assumptions C02_quote_table_checker_sound.
Print Assumptions C02_quote_table_generated.
Print Assumptions C02_canonical_data_equals_the_container.
Print Assumptions C02_canonical_data_wf.
Print Assumptions C02_canonical_data_sorted.
Print Assumptions C02_canonical_idempotent.
Print Assumptions C02_heap_string_and_native.
