(* C12 — every stored value is normalised to one of seven kinds, consistently reported. *)
From Anytype Require Import Base FloatBits Value Native NativeProofs Heap ObjectProofs.
From AnytypeGen Require Import GenParseVal.
Local Open Scope Z_scope.

(* [gov]: the Go dynamic values that can reach the library (one constructor per supported type, [GOther] for any other);
   [norm g]: what parseVal stores — every insertion entry point funnels into it (checked on the code for 13 entry points per run). *)

(* the stored kind per Go type: exactly one of seven *)
Theorem C12_kind : forall g v, norm g = Ok v ->
  kind_of v = match g with
              | GNil => KNil | GBool _ => KBool | GStr _ => KString | GIntW _ _ => KInt | GF64 _ | GF32 _ => KFloat
              | GObjC _ | GMapAny _ | GMapObj _ | GMapList _ | GMapStr _ | GMapBool _ | GMapInt _ | GMapF64 _ => KObject
              | GListC _ | GSliceAny _ | GSliceObj _ | GSliceList _ | GSliceStr _ | GSliceBool _ | GSliceInt _ | GSliceF64 _ => KList
              | GOther => KUndefined end.
Proof. exact norm_kind. Qed.
(* all signed and unsigned widths become int with the same numeric value when representable *)
Theorem C12_int_value : forall w z, intw_ok w z = true -> in_int64 z = true -> norm (GIntW w z) = Ok (VInt z).
Proof. exact norm_int_value. Qed.
Theorem C12_uint_beyond_maxint_wraps : forall z, norm (GIntW WUint64 z) = Ok (VInt (wrap64 z)) /\ norm (GIntW WUint z) = Ok (VInt (wrap64 z)).
Proof. exact norm_uint_wraps. Qed.
(* float32 becomes the exactly equal float64 (as rationals m * 2^e), subnormals included *)
Theorem C12_float32_exact : forall b, 0 <= b < 4294967296 -> (b / 8388608) mod 256 <> 255 ->
  let '(m32, e32) := dy32 b in let '(m64, e64) := dy64 (f32_to_f64 b) in
  m32 * 2 ^ (e32 + 1074) = m64 * 2 ^ (e64 + 1074) /\ 0 <= f32_to_f64 b < two64 /\ is_finite (f32_to_f64 b) = true.
Proof. exact f32_to_f64_exact. Qed.
(* []any / map[string]any become Lists / Objects with recursively normalised content (same order, same keys) *)
Theorem C12_slice_any : forall l vs, norm (GSliceAny l) = Ok (VList vs) <-> Forall2 (fun g v => norm g = Ok v) l vs.
Proof. exact norm_slice_any. Qed.
Theorem C12_map_any : forall kvs m, norm (GMapAny kvs) = Ok (VObj m) <-> Forall2 (fun p q => fst p = fst q /\ norm (snd p) = Ok (snd q)) kvs m.
Proof. exact norm_map_any. Qed.
(* any other Go type is rejected with a panic, also when it hides inside a supported slice or map *)
Theorem C12_reject : norm GOther = Panic.
Proof. exact norm_rejects_other. Qed.
Theorem C12_reject_nested_slice : forall l, norm (GSliceAny l) = Panic <-> exists g, In g l /\ norm g = Panic.
Proof. exact norm_slice_any_panics. Qed.
Theorem C12_reject_nested_map : forall kvs, norm (GMapAny kvs) = Panic <-> exists k g, In (k, g) kvs /\ norm g = Panic.
Proof. exact norm_map_any_panics. Qed.
(* NewListFrom / NewObjectFrom accept exactly the slice / map flavours *)
Theorem C12_new_list_from : forall g, (exists v, new_list_from g = Ok v) ->
  match g with GSliceAny _ | GSliceObj _ | GSliceList _ | GSliceStr _ | GSliceBool _ | GSliceInt _ | GSliceF64 _ => True | _ => False end.
Proof. exact new_from_flavours. Qed.
(* exactly the matching typed getter succeeds (none for nil): a typed getter panics iff Get panics or the kind differs *)
Theorem C12_typed_getters : forall kd r, typed kd r = Pan <-> (r = Panic \/ exists v, r = Ok v /\ hkind v <> kd).
Proof. exact typed_panic_iff. Qed.

(* obligation on the CURRENT source: the case table of parseVal's type switch, extracted from /repo on every run, is the one the
   model [norm] transcribes (same set of (type, action) pairs) *)
(* (None = parseVal is no longer one type switch whose case bodies are the actions the model knows - e.g. it delegates to helpers -:
   the translator does not read that shape, this theorem is then silent and the differential runs alone tie the switch) *)
Theorem C12_switch_table : match gen_parseval_cases with Some t => tables_equiv t parseval_cases_modelled = true | None => True end.
Proof. vm_compute. first [reflexivity | exact I]. Qed.
(* on the unchanged tree the table IS read *)

Example C12_nonvacuous :
  norm (GSliceAny [GIntW WUint8 200; GF32 1036831949; GMapStr [(B"k", B"v")]; GNil]) =
    Ok (VList [VInt 200; VFloat 4591870180174331904; VObj [(B"k", VStr (B"v"))]; VNil]) /\
  norm (GSliceAny [GIntW WInt 1; GOther]) = Panic /\ norm (GIntW WUint64 18446744073709551615) = Ok (VInt (-1)).
Proof. vm_compute. repeat split; reflexivity. Qed.
(* regression: uint8 converted through int8 would store 200 as -56 *)
Example C12_uint8_via_int8_refuted : norm (GIntW WUint8 200) <> Ok (VInt (-56)).
Proof. vm_compute. congruence. Qed.

Print Assumptions C12_kind.
Print Assumptions C12_int_value.
Print Assumptions C12_uint_beyond_maxint_wraps.
Print Assumptions C12_float32_exact.
Print Assumptions C12_slice_any.
Print Assumptions C12_map_any.
Print Assumptions C12_reject.
Print Assumptions C12_reject_nested_slice.
Print Assumptions C12_reject_nested_map.
Print Assumptions C12_new_list_from.
Print Assumptions C12_typed_getters.
Print Assumptions C12_switch_table.
