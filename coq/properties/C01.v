(* C01 — serialise-then-parse round trip preserves every value and its type. *)
From Anytype Require Import Base FloatBits Value Equality GoInt Utf8 Json JsonDoc SerializeProofs ParserBasics ParserCorrect RoundTrip FloatText.
From Anytype Require Heap CloneProofs.
Local Open Scope Z_scope.

Section C01.
  (* strconv.FormatFloat / ParseFloat are oracles with the contract below (re-validated against Go on every float of every run):
     F2 the text of a finite float has the shape of a JSON number, F1 it parses back to the same float64, F3 true/false are not
     floats, F5 the 'e' format (used for magnitudes >= 1e6 or <= 1e-6) contains the letter 'e' or a '.'.
     That the text of a float is never an integer literal (what the ".0" repair is for) is no longer assumed: it is the theorem
     FloatText.ser_float_not_int, derived from F2, F5 and the model of atFloat.serialize itself *)
  Variable fmt_e fmt_f : Z -> bytes.
  Variable pfloat : bytes -> option Z.
  Hypothesis F2 : forall b, is_finite b = true -> fbits_ok b = true -> exists n, parse_num_text (ser_float fmt_e fmt_f b) = Some n.
  Hypothesis F1 : forall b, is_finite b = true -> fbits_ok b = true -> pfloat (ser_float fmt_e fmt_f b) = Some b.
  Hypothesis F5 : forall b, is_finite b = true -> fbits_ok b = true -> In x65 (fmt_e b) \/ In x2e (fmt_e b).
  Let F4 : forall b, is_finite b = true -> fbits_ok b = true -> pint0 (ser_float fmt_e fmt_f b) = None := ser_float_not_int fmt_e fmt_f F2 F5.
  Hypothesis F3 : pfloat (B"true") = None /\ pfloat (B"false") = None.
  Notation ser := (ser fmt_e fmt_f).

  (* [val_ok]: nil, bool, every int64, every finite float64, every valid-UTF-8 string as value or key (any code points, the empty
     string), nested to any depth and width, keys distinct.
     ParseList(l.String()) succeeds, consumes the whole text and returns the ORIGINAL tree — Leibniz equality: same nesting, order and
     keys, every int still an int, every float still a float with the identical bit pattern (whole-valued ones and negative zero
     included), every string byte-identical *)
  Theorem C01_list : forall l, val_ok (VList l) = true -> exists line, parse_list_top pfloat (ser (VList l)) = POk (VList l) [] line.
  Proof. exact (roundtrip_list fmt_e fmt_f pfloat F2 F1 F4 F3). Qed.
  Theorem C01_object : forall kvs, val_ok (VObj kvs) = true -> exists line, parse_object_top pfloat (ser (VObj kvs)) = POk (VObj kvs) [] line.
  Proof. exact (roundtrip_object fmt_e fmt_f pfloat F2 F1 F4 F3). Qed.
  (* hence the parsed container Equals the original (both ways) *)
  Theorem C01_equals_list : forall l, val_ok (VList l) = true ->
    exists v' line, parse_list_top pfloat (ser (VList l)) = POk v' [] line /\ veq v' (VList l) = true /\ veq (VList l) v' = true.
  Proof. exact (roundtrip_equals_list fmt_e fmt_f pfloat F2 F1 F4 F3). Qed.
  Theorem C01_equals_object : forall kvs, val_ok (VObj kvs) = true ->
    exists v' line, parse_object_top pfloat (ser (VObj kvs)) = POk v' [] line /\ veq v' (VObj kvs) = true /\ veq (VObj kvs) v' = true.
  Proof. exact (roundtrip_equals_object fmt_e fmt_f pfloat F2 F1 F4 F3). Qed.
  (* and serialising the re-parsed container and parsing again yields it again *)
  Theorem C01_reparse_list : forall l, val_ok (VList l) = true ->
    exists v' line line2, parse_list_top pfloat (ser (VList l)) = POk v' [] line /\ parse_list_top pfloat (ser v') = POk v' [] line2.
  Proof. exact (reparse_list fmt_e fmt_f pfloat F2 F1 F4 F3). Qed.
  Theorem C01_reparse_object : forall kvs, val_ok (VObj kvs) = true ->
    exists v' line line2, parse_object_top pfloat (ser (VObj kvs)) = POk v' [] line /\ parse_object_top pfloat (ser v') = POk v' [] line2.
  Proof. exact (reparse_object fmt_e fmt_f pfloat F2 F1 F4 F3). Qed.
  Theorem C01_float_text_is_not_an_integer_literal : forall b, is_finite b = true -> fbits_ok b = true -> pint0 (ser_float fmt_e fmt_f b) = None.
  Proof. exact F4. Qed.

  (* the heap-level reading used by the programs of the check (stream C01x): for a list (object) living in a heap whose tree is in the
     domain, the text of String() parses to exactly the tree that the model's Clone step rebuilds in cells allocated by that step -
     which is why "Parse(x.String())" is executed on the model as Clone *)
  Theorem C01_heap_parse_back_list : forall f h id l, Heap.reify f h (Heap.HL id) = Some (VList l) -> val_ok (VList l) = true ->
    (exists line, parse_list_top pfloat (ser (VList l)) = POk (VList l) [] line) /\
    (exists h' v', Heap.clone_val f h (Heap.HL id) = Some (h', v') /\ Heap.reify f h' v' = Some (VList l) /\
                   forall r, CloneProofs.Reach h' v' r -> (length h <= r)%nat).
  Proof.
    intros f h id l R V. split; [exact (roundtrip_list fmt_e fmt_f pfloat F2 F1 F4 F3 l V)|].
    destruct (CloneProofs.clone_total _ _ _ _ R) as (h' & v' & C). exists h', v'. split; [exact C|]. split.
    - exact (CloneProofs.clone_equal _ _ _ _ _ _ C R).
    - intros r Hr. exact (CloneProofs.clone_fresh _ _ _ _ _ _ C Hr).
  Qed.
  Theorem C01_heap_parse_back_object : forall f h id kvs, Heap.reify f h (Heap.HO id) = Some (VObj kvs) -> val_ok (VObj kvs) = true ->
    (exists line, parse_object_top pfloat (ser (VObj kvs)) = POk (VObj kvs) [] line) /\
    (exists h' v', Heap.clone_val f h (Heap.HO id) = Some (h', v') /\ Heap.reify f h' v' = Some (VObj kvs) /\
                   forall r, CloneProofs.Reach h' v' r -> (length h <= r)%nat).
  Proof.
    intros f h id kvs R V. split; [exact (roundtrip_object fmt_e fmt_f pfloat F2 F1 F4 F3 kvs V)|].
    destruct (CloneProofs.clone_total _ _ _ _ R) as (h' & v' & C). exists h', v'. split; [exact C|]. split.
    - exact (CloneProofs.clone_equal _ _ _ _ _ _ C R).
    - intros r Hr. exact (CloneProofs.clone_fresh _ _ _ _ _ _ C Hr).
  Qed.
End C01.

Example C01_nonvacuous :
  (* the hypotheses are satisfiable on a tree with a whole float, -0.0, U+FFFD, a control character, a quote, a backslash, an astral
     code point, the empty key, nesting depth 3 *)
  val_ok (VList [VFloat fone; VFloat nzero; VStr [xef; xbf; xbd; x01; x22; x5c; xf0; x9f; x98; x80];
                 VObj [([], VList [VObj [(B"k", VInt (-9223372036854775808))]])]; VNil; VBool true]) = true.
Proof. vm_compute. reflexivity. Qed.
(* regression (D1): without the ".0" a whole float's text is an integer literal *)
Example C01_without_fraction_refuted : pint0 (B"1") = Some 1 /\ pint0 (B"-0") = Some 0 /\ pint0 (B"1.0") = None /\ pint0 (B"-0.0") = None.
Proof. vm_compute. repeat split; reflexivity. Qed.

Print Assumptions C01_list.
Print Assumptions C01_object.
Print Assumptions C01_equals_list.
Print Assumptions C01_equals_object.
Print Assumptions C01_reparse_list.
Print Assumptions C01_reparse_object.
Print Assumptions C01_float_text_is_not_an_integer_literal.
Print Assumptions C01_heap_parse_back_list.
Print Assumptions C01_heap_parse_back_object.
