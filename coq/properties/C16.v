(* C16 — FormatString is a lossless, canonically indented re-layout of String. *)
From Anytype Require Import Base FloatBits Value GoInt Utf8 Json JsonDoc JsonRefProofs SerializeProofs FormatProofs FormatModel.
From Anytype Require Import Heap HeapExt HeapExtProofs.
From Anytype Require Import FloatText.
From Anytype Require Import SourceTables SourceTablesProofs. From AnytypeGen Require Import GenTables.
Local Open Scope Z_scope.

Section C16.
  Variable fmt_e fmt_f : Z -> bytes.
  Variable pfloat : bytes -> option Z.
  Hypothesis F2 : forall b, is_finite b = true -> fbits_ok b = true -> exists n, parse_num_text (ser_float fmt_e fmt_f b) = Some n.
  Hypothesis F1 : forall b, is_finite b = true -> fbits_ok b = true -> pfloat (ser_float fmt_e fmt_f b) = Some b.
  (* F5: the 'e' format contains an 'e' or a '.'; that a float's text is never an integer literal follows (FloatText.ser_float_not_int) *)
  Hypothesis F5 : forall b, is_finite b = true -> fbits_ok b = true -> In x65 (fmt_e b) \/ In x2e (fmt_e b).
  Let F4 : forall b, is_finite b = true -> fbits_ok b = true -> pint0 (ser_float fmt_e fmt_f b) = None := ser_float_not_int fmt_e fmt_f F2 F5.
  Notation ser := (ser fmt_e fmt_f).
  (* FormatString(n), 0 <= n <= 10, is json.Indent(String(), "", n spaces); json.Indent is modelled at specification level:
     decode with the reference decoder, re-lay out canonically ([relayout]), empty output when the text is not JSON *)
  Notation format := (format_model fmt_e fmt_f).

  Theorem C16_canonical : forall v n, val_ok v = true -> format v n = render (relayout n 0 (doc_of ser v)).
  Proof. exact (format_canonical fmt_e fmt_f F2). Qed.
  Theorem C16_nonempty : forall v n, val_ok v = true -> match v with VList _ | VObj _ => True | _ => False end -> format v n <> [].
  Proof. exact (format_nonempty fmt_e fmt_f F2). Qed.
  Theorem C16_valid : forall v n, val_ok v = true -> json_valid (format v n) = true.
  Proof. exact (format_valid fmt_e fmt_f F2). Qed.
  (* it denotes exactly the container's data (which is what String() denotes, by C02) *)
  Theorem C16_same_data : forall v n, val_ok v = true ->
    exists d, ref_parse (format v n) = Some ([], d, []) /\ denote pfloat d = Some v.
  Proof. exact (format_same_data fmt_e fmt_f pfloat F2 F1 F4). Qed.
  (* re-indenting it canonically reproduces it byte for byte *)
  Theorem C16_idempotent : forall v n, val_ok v = true -> indent_text n (format v n) = format v n.
  Proof. exact (format_idempotent fmt_e fmt_f F2). Qed.
End C16.

(* every indent outside 0..10 panics; inside the range FormatString is json.Indent over String() (what the theorems above describe) *)
Theorem C16_range : forall fmt_e fmt_f v indent, format_string fmt_e fmt_f v indent = Panic <-> (indent < 0 \/ 10 < indent).
Proof. exact format_string_range. Qed.
Theorem C16_in_range : forall fmt_e fmt_f v indent, 0 <= indent <= 10 ->
  format_string fmt_e fmt_f v indent = Ok (format_model fmt_e fmt_f v (Z.to_nat indent)).
Proof. exact format_string_in_range. Qed.

(* the layout: one element per line, n spaces per nesting level, empty containers on one line *)
Theorem C16_list_layout : forall n depth w elems, elems <> [] ->
  exists body, render (relayout n depth (DArr w elems)) = x5b :: nl_bytes n (S depth) ++ body ++ nl_bytes n depth ++ [x5d].
Proof. exact relayout_list_shape. Qed.
Theorem C16_list_lines : forall n depth w elems,
  render (relayout n depth (DArr w elems)) =
  match elems with [] => B"[]" | _ => x5b :: join_comma (map (elem_line n depth) elems) ++ nl_bytes n depth ++ [x5d] end.
Proof. exact relayout_arr_render. Qed.
Theorem C16_object_lines : forall n depth w members,
  render (relayout n depth (DObj w members)) =
  match members with [] => B"{}" | _ => x7b :: join_comma (map (member_line n depth) members) ++ nl_bytes n depth ++ [x7d] end.
Proof. exact relayout_obj_render. Qed.
Theorem C16_layout_keeps_meaning : forall pfloat n depth d, denote pfloat (relayout n depth d) = denote pfloat d.
Proof. exact relayout_denote. Qed.

Example C16_nonvacuous :
  indent_text 2 (B"[1,{""a"":[],""b"":{""c"":null}},""x""]") =
  B"[
  1,
  {
    ""a"": [],
    ""b"": {
      ""c"": null
    }
  },
  ""x""
]".
Proof. vm_compute. reflexivity. Qed.


(* ---- second tie for the range guard: the condition of the `if ... { panic }` that opens each FormatString method, as the
   translator reads it from the source on every run; when it is a combination of comparisons of the parameter with integer
   literals it must be true exactly where the model panics - for every integer, by the checker's soundness theorem ---- *)
Theorem C16_guard_checker_sound : forall g fmt_e fmt_f v n, guard_ok g = true ->
  (geval g n = Some true <-> format_string fmt_e fmt_f v n = Panic).
Proof. exact guard_sound_format. Qed.
Fixpoint guard_recognised (g : guard) : bool :=
  match g with GLt _ | GGt _ => true | GOr a b | GAnd a b => guard_recognised a && guard_recognised b | GOther _ | GNone => false end.
Theorem C16_guards_generated :
  forallb (fun ng => implb (guard_recognised (snd ng)) (guard_ok (snd ng))) gen_format_guards = true.
Proof. vm_compute. reflexivity. Qed.


(* heap level (HeapExt.v): FormatString(n) on a container that lives in a heap, at any point of any program: panics exactly
   outside 0..10, otherwise denotes the data String() denotes; the state is untouched either way *)
Theorem C16_heap_format : forall (fadd fmul fdiv : Z -> Z -> Z) (of_int : Z -> Z) s r n v t, nth_error (st_env s) r = Some v ->
  reify (fuel_of (st_heap s)) (st_heap s) v = Some t ->
  xstep_core fadd fmul fdiv of_int s (XFormat r n) = (s, if ((n <? 0) || (10 <? n))%Z then XPan else XRet (XTree (vcanon t))).
Proof. exact xformat_step. Qed.
Theorem C16_heap_format_panics_iff : forall (fadd fmul fdiv : Z -> Z -> Z) (of_int : Z -> Z) s r n v t, nth_error (st_env s) r = Some v ->
  reify (fuel_of (st_heap s)) (st_heap s) v = Some t ->
  (snd (xstep_core fadd fmul fdiv of_int s (XFormat r n)) = XPan <-> (n < 0 \/ 10 < n)%Z).
Proof. exact xformat_panics_iff. Qed.

Print Assumptions C16_canonical.
Print Assumptions C16_nonempty.
Print Assumptions C16_valid.
Print Assumptions C16_same_data.
Print Assumptions C16_idempotent.
Print Assumptions C16_range.
Print Assumptions C16_in_range.
Print Assumptions C16_list_layout.
Print Assumptions C16_list_lines.
Print Assumptions C16_object_lines.
Print Assumptions C16_layout_keeps_meaning.
Print Assumptions C16_guard_checker_sound.
Print Assumptions C16_guards_generated.
Print Assumptions C16_heap_format.
Print Assumptions C16_heap_format_panics_iff.
