(* C06 — Object behaves as a string-keyed map with reference semantics under any program. *)
From Anytype Require Import Base FloatBits Value Heap ObjectProofs.
From Anytype Require Reachable Acyclic HeapExtSpecs.
From Anytype Require Import HeapExt HeapExtProofs.
From Anytype Require CloneProofs. From Anytype Require Import Footprint.
From Coq Require Import Permutation.
Local Open Scope Z_scope.

(* The object operations of the heap model (run against the implementation program by program) are characterised through
   [alookup] only, i.e. as a finite map from arbitrary byte strings (the empty string, sigils, quotes, non-ASCII included). *)

(* Set: well-formed arguments never panic; the LAST pair for a key wins; every other key keeps its value *)
Theorem C06_set : forall kvs args ps, pairs_of args = Some ps -> o_set kvs args = (set_all kvs ps, false).
Proof. exact o_set_ok. Qed.
Theorem C06_set_lookup : forall (ps kvs : list (bytes * hval)) k,
  alookup k (set_all kvs ps) = match alookup k (rev ps) with Some v => Some v | None => alookup k kvs end.
Proof. exact alookup_set_all. Qed.
Theorem C06_set_odd_panics : forall kvs args, Nat.odd (length args) = true -> o_set kvs args = (kvs, true).
Proof. exact o_set_odd. Qed.
Theorem C06_set_nonstring_key_panics : forall args kvs, Nat.odd (length args) = false -> pairs_of args = None -> snd (o_set kvs args) = true.
Proof. exact o_set_bad_key. Qed.
(* Unset: removed keys are gone, the others untouched; a missing key is a no-op *)
Theorem C06_unset_lookup : forall keys (kvs : list (bytes * hval)) k,
  alookup k (o_unset kvs keys) = if existsb (bytes_eqb k) keys then None else alookup k kvs.
Proof. exact alookup_o_unset. Qed.
Theorem C06_unset_missing_noop : forall kvs k, alookup k kvs = None -> o_unset kvs [k] = kvs.
Proof. exact o_unset_missing. Qed.
(* Merge prefers the argument's value on a shared key *)
Theorem C06_merge_lookup : forall (kvs1 kvs2 : list (bytes * hval)) k, NoDup (akeys kvs2) ->
  alookup k (fold_left (fun acc kv => aset (fst kv) (snd kv) acc) kvs2 kvs1) =
  match alookup k kvs2 with Some v => Some v | None => alookup k kvs1 end.
Proof. exact alookup_merge. Qed.
(* Pluck keeps exactly the requested keys and panics exactly when one of them is missing *)
Theorem C06_pluck : forall kvs keys res0,
  match pluck_fold kvs keys (Some res0) with
  | Some res => forallb (fun k => match alookup k kvs with Some _ => true | None => false end) keys = true /\
                forall k, alookup k res = if existsb (bytes_eqb k) keys then alookup k kvs else alookup k res0
  | None => exists k, In k keys /\ alookup k kvs = None
  end.
Proof. exact pluck_spec. Qed.
(* Keys / Values / Dict / Count describe the same field set for every enumeration order the runtime may choose *)
Theorem C06_enumeration : forall kvs order okvs, NoDup (akeys kvs) -> in_order kvs order = Some okvs ->
  map fst okvs = order /\ Permutation okvs kvs.
Proof. exact in_order_spec. Qed.
Theorem C06_count : forall kvs : list (bytes * hval), length kvs = length (akeys kvs).
Proof. exact count_is_number_of_keys. Qed.
(* key sets stay duplicate-free under every mutator (so the association list IS a map) *)
Theorem C06_keys_distinct : forall (ps kvs : list (bytes * hval)) keys,
  NoDup (akeys kvs) -> NoDup (akeys (set_all kvs ps)) /\ NoDup (akeys (o_unset kvs keys)).
Proof. intros ps kvs keys ND. split; [apply nodup_set_all | apply nodup_o_unset]; exact ND. Qed.
(* panic domains *)
Theorem C06_get_domain : forall kvs k, o_get kvs k = Panic <-> alookup k kvs = None.
Proof. exact o_get_panic_iff. Qed.
Theorem C06_typed_getter_domain : forall kd r, typed kd r = Pan <-> (r = Panic \/ exists v, r = Ok v /\ hkind v <> kd).
Proof. exact typed_panic_iff. Qed.
Theorem C06_typeof_undefined : forall kvs k, o_typeof kvs k = KUndefined <-> alookup k kvs = None.
Proof. exact o_typeof_undefined_iff. Qed.
Theorem C06_contains : forall kvs x, o_contains kvs x = true <-> exists k v, In (k, v) kvs /\ hval_go_eq v x = true.
Proof. exact o_contains_iff. Qed.

Example C06_nonvacuous :
  (* Set("a",1,"",2,"a",3) then Unset("zz") : last pair wins, empty key allowed, missing key ignored *)
  let '(kvs, p) := o_set [] [HStr (B"a"); HInt 1; HStr []; HInt 2; HStr (B"a"); HInt 3] in
  p = false /\ alookup (B"a") kvs = Some (HInt 3) /\ alookup [] kvs = Some (HInt 2) /\ o_unset kvs [B"zz"] = kvs.
Proof. vm_compute. repeat split; reflexivity. Qed.


(* footprint: Set / Unset / Clear (and every list mutator) writes at most ONE heap cell, the receiver's own container, and leaves the environment alone;
   hence every value from which the receiver is not reachable reads the same before and after (aliases of the receiver do see it) *)
Theorem C06_mutator_footprint : forall s o r, basic_mutator o = Some r ->
  st_env (fst (step_core s o)) = st_env s /\
  (st_heap (fst (step_core s o)) = st_heap s \/
   exists id c, (nth_error (st_env s) r = Some (HL id) \/ nth_error (st_env s) r = Some (HO id)) /\ (id < length (st_heap s))%nat /\
                st_heap (fst (step_core s o)) = upd (st_heap s) id c).
Proof. exact basic_mutator_footprint. Qed.
Theorem C06_mutator_independent : forall s o r vr w f, basic_mutator o = Some r -> nth_error (st_env s) r = Some vr ->
  (forall id, CloneProofs.Reach (st_heap s) w id -> vr <> HL id /\ vr <> HO id) ->
  reify f (st_heap (fst (step_core s o))) w = reify f (st_heap s) w.
Proof. exact basic_mutator_independent. Qed.


(* NewListFrom / NewObjectFrom (HeapExt.v): a []any / map[string]any tree whose leaves are scalars or live containers becomes NEW
   cells only (the old heap is a prefix of the new one), the result reads back as the value the source denotes, and a leaf that is
   a live container is stored by reference (store_src on a leaf returns the operand itself) *)
Theorem C06_new_from_appends : forall env n h h' v, store_src env h n = Some (h', v) -> exists extra, h' = h ++ extra.
Proof. exact store_src_extends. Qed.
Theorem C06_new_from_content : forall env h n h' v f0, leaves_readable env h f0 n -> store_src env h n = Some (h', v) ->
  exists f1 t, forall f, (f1 <= f)%nat -> src_val f h env n = Some t /\ reify f h' v = src_val f h env n.
Proof. exact store_src_reify_enough. Qed.
Theorem C06_new_from_leaf_by_reference : forall env h o, store_src env h (NOp o) = match eval_operand env o with Some v => Some (h, v) | None => None end.
Proof. reflexivity. Qed.


(* The model answers "ill-typed program" (OBad) when an operation is applied to a register of the wrong kind or to a register that
   does not exist. Programs that pass the decidable step-wise type check [wt_run] (and the storing discipline [run_okb]) never take
   that escape, from any well-formed acyclic state - in particular from the empty one: what the theorems say about outcomes is never
   about a placeholder *)
Theorem C06_typed_programs_never_ill_typed : forall (fadd fmul fdiv : Z -> Z -> Z) (of_int : Z -> Z) prog,
  run_okb fadd fmul fdiv of_int init_state prog = true -> HeapExtSpecs.wt_run fadd fmul fdiv of_int init_state prog = true ->
  Forall (fun r => fst r <> XRet (XO OBad)) (xrun fadd fmul fdiv of_int init_state prog).
Proof. intros fadd fmul fdiv of_int prog. exact (HeapExtSpecs.no_obad_run fadd fmul fdiv of_int prog init_state Reachable.init_wf Acyclic.init_acyclic). Qed.

(* KeyOf / KeyExists / Empty on any state: observers leave the state alone; KeyOf panics EXACTLY when no field holds a Go-equal
   value; a key the runtime hands back is accepted exactly when that key holds such a value (any enumeration order), and every
   other answer of the runtime is rejected by the model (OBad), never silently accepted *)
Theorem C06_keyof_step : forall s r v answer id kvs x, reg_obj s r = Some (id, kvs) -> eval_operand (st_env s) v = Some x ->
  fst (step_core s (OKeyOf r v answer)) = s /\
  (snd (step_core s (OKeyOf r v answer)) = Pan <-> answer = None /\ o_contains kvs x = false) /\
  (forall k, snd (step_core s (OKeyOf r v answer)) = Ret (OV (HStr k)) <->
     answer = Some k /\ exists y, alookup k kvs = Some y /\ hval_go_eq y x = true) /\
  (snd (step_core s (OKeyOf r v answer)) = Ret OBad <->
     match answer with Some k => forall y, alookup k kvs = Some y -> hval_go_eq y x = false | None => o_contains kvs x = true end).
Proof. exact keyof_step. Qed.
Theorem C06_keyexists_empty_step : forall s r id kvs k, reg_obj s r = Some (id, kvs) ->
  step_core s (OKeyExists r k) = (s, Ret (OB (match alookup k kvs with Some _ => true | None => false end))) /\
  step_core s (OEmpty r) = (s, Ret (OB (Nat.eqb (length kvs) 0))).
Proof. exact keyexists_empty_count_step. Qed.

(* Clear never panics; afterwards EVERY register that aliases the receiver reads the empty object; every other cell, the heap size and
   the environment are untouched *)
Theorem C06_clear_step : forall s r id kvs, reg_obj s r = Some (id, kvs) ->
  let s' := fst (step_core s (OClear r)) in
  snd (step_core s (OClear r)) = Ret ONone /\ st_env s' = st_env s /\
  (forall r', nth_error (st_env s) r' = Some (HO id) -> reg_obj s' r' = Some (id, [])) /\
  (forall j, j <> id -> nth_error (st_heap s') j = nth_error (st_heap s) j) /\ length (st_heap s') = length (st_heap s).
Proof. exact oclear_step. Qed.

Print Assumptions C06_set.
Print Assumptions C06_set_lookup.
Print Assumptions C06_set_odd_panics.
Print Assumptions C06_set_nonstring_key_panics.
Print Assumptions C06_unset_lookup.
Print Assumptions C06_unset_missing_noop.
Print Assumptions C06_merge_lookup.
Print Assumptions C06_pluck.
Print Assumptions C06_enumeration.
Print Assumptions C06_count.
Print Assumptions C06_keys_distinct.
Print Assumptions C06_get_domain.
Print Assumptions C06_typed_getter_domain.
Print Assumptions C06_typeof_undefined.
Print Assumptions C06_contains.
Print Assumptions C06_mutator_footprint.
Print Assumptions C06_mutator_independent.
Print Assumptions C06_new_from_appends.
Print Assumptions C06_new_from_content.
Print Assumptions C06_new_from_leaf_by_reference.
Print Assumptions C06_typed_programs_never_ill_typed.
Print Assumptions C06_keyof_step.
Print Assumptions C06_keyexists_empty_step.
Print Assumptions C06_clear_step.
