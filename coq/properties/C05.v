(* C05 — List behaves as an ordered sequence with reference semantics under any program. *)
From Anytype Require Import Base FloatBits Value Sorting Heap Slice HeapProofs.
From Anytype Require Reachable Acyclic HeapExtSpecs.
From Anytype Require Import HeapExt HeapExtProofs.
From Anytype Require CloneProofs. From Anytype Require Import Footprint.
Local Open Scope Z_scope.

(* (1) The library's slice surgery (append / copy / make on backing arrays with spare capacity, any growth policy) behaves,
   for EVERY program of list operations over any number of live lists, exactly like the sequence model: same outcomes (values,
   panics) at every step and the same visible contents of every list afterwards; the ownership invariant (distinct lists own
   distinct arrays) holds in every reachable state. *)
Theorem C05_program_refines : forall (grow : nat -> nat -> nat) prog c, Own c ->
  fst (crun grow c prog) = fst (arun (abs c) prog) /\
  abs (snd (crun grow c prog)) = snd (arun (abs c) prog) /\
  Own (snd (crun grow c prog)).
Proof. exact program_refines. Qed.

Theorem C05_growth_policy_unobservable : forall g1 g2 prog,
  fst (crun g1 empty_c prog) = fst (crun g2 empty_c prog) /\ abs (snd (crun g1 empty_c prog)) = abs (snd (crun g2 empty_c prog)).
Proof. exact growth_irrelevant. Qed.

(* (2) panic domains of the sequence model: exactly the documented ones *)
Theorem C05_insert_domain : forall l i v, l_insert l i v = Panic <-> (i < 0 \/ Z.of_nat (length l) < i).
Proof. exact l_insert_panic_iff. Qed.
Theorem C05_replace_domain : forall l i v, l_replace l i v = Panic <-> (i < 0 \/ Z.of_nat (length l) <= i).
Proof. exact l_replace_panic_iff. Qed.
Theorem C05_get_domain : forall l i, l_get l i = Panic <-> (i < 0 \/ Z.of_nat (length l) <= i).
Proof. exact l_get_panic_iff. Qed.
Theorem C05_delete_domain : forall l i, snd (l_delete l [i]) = true <-> (i < 0 \/ Z.of_nat (length l) <= i).
Proof. exact l_delete1_panic_iff. Qed.
Theorem C05_pop_domain : forall l, snd (l_pop l) = true <-> l = [].
Proof. exact l_pop_panic_iff. Qed.
Theorem C05_sublist_domain : forall l s e,
  let n := Z.of_nat (length l) in
  l_sublist l s e = Panic <-> (n < e \/ e < - n \/ (if e <=? 0 then n + e else e) < s \/ s < 0).
Proof. exact l_sublist_panic_iff. Qed.

(* (3) what the operations do, as textbook sequence operations *)
Theorem C05_insert_spec : forall l i v l', l_insert l i v = Ok l' ->
  length l' = S (length l) /\ nth_error l' (Z.to_nat i) = Some v /\
  (forall j, (j < Z.to_nat i)%nat -> nth_error l' j = nth_error l j) /\
  (forall j, (Z.to_nat i <= j)%nat -> nth_error l' (S j) = nth_error l j).
Proof. exact l_insert_spec. Qed.
Theorem C05_delete_spec : forall l i, snd (l_delete l [i]) = false ->
  let l' := fst (l_delete l [i]) in
  S (length l') = length l /\
  (forall j, (j < Z.to_nat i)%nat -> nth_error l' j = nth_error l j) /\
  (forall j, (Z.to_nat i <= j)%nat -> nth_error l' j = nth_error l (S j)).
Proof. exact l_delete1_spec. Qed.
Theorem C05_sublist_spec : forall l s e l', l_sublist l s e = Ok l' ->
  let e' := if e <=? 0 then Z.of_nat (length l) + e else e in
  length l' = Z.to_nat (e' - s) /\ forall j, (j < length l')%nat -> nth_error l' j = nth_error l (Z.to_nat s + j).
Proof. exact l_sublist_spec. Qed.
Theorem C05_get_returns_stored : forall l i v, l_get l i = Ok v -> nth_error l (Z.to_nat i) = Some v.
Proof. exact l_get_spec. Qed.

(* (4) a panicking single-index operation leaves the whole heap unchanged; Get hands back the stored value itself
   (for a container: the identical id, so every alias sees every later change) *)
Theorem C05_panic_frame : forall s o, single_index_op o = true -> snd (step_core s o) = Pan -> fst (step_core s o) = s.
Proof. exact panic_frame. Qed.

Example C05_alias_visible :
  (* l := [] ; o := {} ; l.Add(o) ; x := l.Get(0) ; x.Set("a", 1)  => l[0] shows {"a":1} and o, x are the same container *)
  let tr := run init_state [NewList []; NewObject []; LAdd 0 [Reg 1]; LGet 0 0; OSet 2 [Lit (HStr (B"a")); Lit (HInt 1)]; OGet 1 (B"a")] in
  map fst tr = [Ret (OV (HL 0%nat)); Ret (OV (HO 1%nat)); Ret ONone; Ret (OV (HO 1%nat)); Ret ONone; Ret (OV (HInt 1))].
Proof. vm_compute. reflexivity. Qed.


(* footprint: a method-style mutator writes at most ONE heap cell, the receiver's own container, and leaves the environment alone;
   hence every value from which the receiver is not reachable reads the same before and after (aliases of the receiver do see it) *)
Theorem C05_mutator_footprint : forall s o r, basic_mutator o = Some r ->
  st_env (fst (step_core s o)) = st_env s /\
  (st_heap (fst (step_core s o)) = st_heap s \/
   exists id c, (nth_error (st_env s) r = Some (HL id) \/ nth_error (st_env s) r = Some (HO id)) /\ (id < length (st_heap s))%nat /\
                st_heap (fst (step_core s o)) = upd (st_heap s) id c).
Proof. exact basic_mutator_footprint. Qed.
Theorem C05_mutator_independent : forall s o r vr w f, basic_mutator o = Some r -> nth_error (st_env s) r = Some vr ->
  (forall id, CloneProofs.Reach (st_heap s) w id -> vr <> HL id /\ vr <> HO id) ->
  reify f (st_heap (fst (step_core s o))) w = reify f (st_heap s) w.
Proof. exact basic_mutator_independent. Qed.


(* NewListFrom / NewObjectFrom (HeapExt.v): a []any / map[string]any tree whose leaves are scalars or live containers becomes NEW
   cells only (the old heap is a prefix of the new one), the result reads back as the value the source denotes, and a leaf that is
   a live container is stored by reference (store_src on a leaf returns the operand itself) *)
Theorem C05_new_from_appends : forall env n h h' v, store_src env h n = Some (h', v) -> exists extra, h' = h ++ extra.
Proof. exact store_src_extends. Qed.
Theorem C05_new_from_content : forall env h n h' v f0, leaves_readable env h f0 n -> store_src env h n = Some (h', v) ->
  exists f1 t, forall f, (f1 <= f)%nat -> src_val f h env n = Some t /\ reify f h' v = src_val f h env n.
Proof. exact store_src_reify_enough. Qed.
Theorem C05_new_from_leaf_by_reference : forall env h o, store_src env h (NOp o) = match eval_operand env o with Some v => Some (h, v) | None => None end.
Proof. reflexivity. Qed.


(* The model answers "ill-typed program" (OBad) when an operation is applied to a register of the wrong kind or to a register that
   does not exist. Programs that pass the decidable step-wise type check [wt_run] (and the storing discipline [run_okb]) never take
   that escape, from any well-formed acyclic state - in particular from the empty one: what the theorems say about outcomes is never
   about a placeholder *)
Theorem C05_typed_programs_never_ill_typed : forall (fadd fmul fdiv : Z -> Z -> Z) (of_int : Z -> Z) prog,
  run_okb fadd fmul fdiv of_int init_state prog = true -> HeapExtSpecs.wt_run fadd fmul fdiv of_int init_state prog = true ->
  Forall (fun r => fst r <> XRet (XO OBad)) (xrun fadd fmul fdiv of_int init_state prog).
Proof. intros fadd fmul fdiv of_int prog. exact (HeapExtSpecs.no_obad_run fadd fmul fdiv of_int prog init_state Reachable.init_wf Acyclic.init_acyclic). Qed.

(* IndexOf / Contains / Count / Empty: observers leave the state alone. IndexOf answers the position of the FIRST element that is
   Go-equal to the value (every earlier element is not), and -1 exactly when Contains is false, i.e. when no element is *)
Theorem C05_observers_step : forall s r v id l x, reg_list s r = Some (id, l) -> eval_operand (st_env s) v = Some x ->
  step_core s (LIndexOf r v) = (s, Ret (OZ (l_index_of l x 0))) /\ step_core s (LContains r v) = (s, Ret (OB (l_contains l x))) /\
  step_core s (LCount r) = (s, Ret (OZ (Z.of_nat (length l)))) /\ step_core s (LEmpty r) = (s, Ret (OB (Nat.eqb (length l) 0))).
Proof. exact index_contains_step. Qed.
Theorem C05_indexof_first : forall l v i, (exists x, In x l /\ hval_go_eq x v = true) ->
  exists n x, l_index_of l v i = i + Z.of_nat n /\ nth_error l n = Some x /\ hval_go_eq x v = true /\
              forall m y, (m < n)%nat -> nth_error l m = Some y -> hval_go_eq y v = false.
Proof. exact l_index_of_first. Qed.
Theorem C05_indexof_absent_iff : forall l v i, 0 <= i -> (l_index_of l v i = -1 <-> l_contains l v = false).
Proof. exact l_index_of_minus1_iff. Qed.
Theorem C05_contains : forall l v, l_contains l v = true <-> exists x, In x l /\ hval_go_eq x v = true.
Proof. exact l_contains_iff. Qed.
Example C05_indexof_nonvacuous :
  l_index_of [HInt 7; HStr (B"a"); HInt 7] (HInt 7) 0 = 0 /\ l_index_of [HInt 7; HStr (B"a"); HInt 7] (HStr (B"a")) 0 = 1 /\
  l_index_of [HInt 7] (HFloat 7) 0 = -1 /\ l_contains [HInt 7] (HInt 7) = true.
Proof. vm_compute. repeat split; reflexivity. Qed.

(* Clear never panics; afterwards EVERY register that aliases the receiver reads the empty list; every other cell, the heap size and the
   environment are untouched *)
Theorem C05_clear_step : forall s r id l, reg_list s r = Some (id, l) ->
  let s' := fst (step_core s (LClear r)) in
  snd (step_core s (LClear r)) = Ret ONone /\ st_env s' = st_env s /\
  (forall r', nth_error (st_env s) r' = Some (HL id) -> reg_list s' r' = Some (id, [])) /\
  (forall j, j <> id -> nth_error (st_heap s') j = nth_error (st_heap s) j) /\ length (st_heap s') = length (st_heap s).
Proof. exact clear_step. Qed.

Print Assumptions C05_program_refines.
Print Assumptions C05_growth_policy_unobservable.
Print Assumptions C05_insert_domain.
Print Assumptions C05_replace_domain.
Print Assumptions C05_get_domain.
Print Assumptions C05_delete_domain.
Print Assumptions C05_pop_domain.
Print Assumptions C05_sublist_domain.
Print Assumptions C05_insert_spec.
Print Assumptions C05_delete_spec.
Print Assumptions C05_sublist_spec.
Print Assumptions C05_get_returns_stored.
Print Assumptions C05_panic_frame.
Print Assumptions C05_mutator_footprint.
Print Assumptions C05_mutator_independent.
Print Assumptions C05_new_from_appends.
Print Assumptions C05_new_from_content.
Print Assumptions C05_new_from_leaf_by_reference.
Print Assumptions C05_typed_programs_never_ill_typed.
Print Assumptions C05_observers_step.
Print Assumptions C05_indexof_first.
Print Assumptions C05_indexof_absent_iff.
Print Assumptions C05_contains.
Print Assumptions C05_clear_step.
