(* C19 — derived structures keep their identity through fluent calls and storage. *)
From Anytype Require Import Base Derived.
From AnytypeGen Require Import GenFluent.

(* The return expressions of every method of *list / *object are EXTRACTED from /repo's source on every run
   (Generated/GenFluent.v: REgo = `return ego.Ego()`, RChain m = `return ego.Ego().m(...)` or `return ego.m(...)`, RRaw = `return ego`,
   ROther = a new container / a local / a plain value, RUnknown = a call the translator cannot resolve). *)

(* semantics: whatever embedding level a fluent method is called on, each of its return statements yields the value registered
   with Init (directly, or through a chain of fluent methods called on that value) *)
Theorem C19_fluent_returns_registered : forall (t : method_table) (ptr : nat -> nat) fuel c name, fluent_ok fuel t name = true ->
  Forall (fun r => r = Some (c, ptr c)) (ret_values t ptr fuel c name) /\ ret_values t ptr fuel c name <> [].
Proof. exact fluent_returns_registered. Qed.

(* obligations on the CURRENT source: every method the property names is fluent in that sense ... *)
(* (a method with a return expression the translator cannot read is exempt here - the theorem above then does not speak about it on
   this tree, the reflective runs against the implementation still do; on the unchanged tree every method is readable, next theorem) *)
Theorem C19_list_methods_fluent : forallb (fun n => fluent_ok 6 gen_list_methods n || negb (readable 6 gen_list_methods n)) fluent_list_names = true.
Proof. vm_compute. reflexivity. Qed.
Theorem C19_object_methods_fluent : forallb (fun n => fluent_ok 6 gen_object_methods n || negb (readable 6 gen_object_methods n)) fluent_object_names = true.
Proof. vm_compute. reflexivity. Qed.
(* ... and every interface method whose result type is the interface itself is classified as fluent or as producing a new /
   stored container, so an addition to the interface is noticed *)
Theorem C19_list_interface_classified : classified gen_list_interface (B"List") fluent_list_names deriving_list_names = true.
Proof. vm_compute. reflexivity. Qed.
Theorem C19_object_interface_classified : classified gen_object_interface (B"Object") fluent_object_names deriving_object_names = true.
Proof. vm_compute. reflexivity. Qed.

(* regression: a method returning `ego` hands back the embedded value (level 0), not the registered one *)
Example C19_raw_return_refuted :
  let t := [(B"Pop", B"List", [RRaw])] in
  fluent_ok 6 t (B"Pop") = false /\ ret_values t (fun _ => 2) 6 0 (B"Pop") = [Some (0, 0)].
Proof. vm_compute. split; reflexivity. Qed.

Print Assumptions C19_fluent_returns_registered.
Print Assumptions C19_list_methods_fluent.
Print Assumptions C19_object_methods_fluent.
Print Assumptions C19_list_interface_classified.
Print Assumptions C19_object_interface_classified.
