(* C17 — Sort orders in place without losing elements; Reverse is an exact involution. *)
From Anytype Require Import Base FloatBits Value Sorting.
From Coq Require Import Permutation Sorted.
Local Open Scope Z_scope.

(* on a non-empty list of all strings / all ints / all floats, Sort succeeds, the result is a permutation of the
   original elements (bit-exact values) and non-decreasing (ints by <=, strings bytewise, floats by Go's order on non-NaN values) *)
Theorem C17_sort : forall k l, (k = KString \/ k = KInt \/ k = KFloat) -> l <> [] -> homog k l = true ->
  exists l', sort_model l = Ok l' /\ Permutation l l' /\ StronglySorted (fun a b => val_leb a b = true) l'.
Proof. exact sort_perm. Qed.
Theorem C17_sort_idempotent : forall k l l', (k = KString \/ k = KInt \/ k = KFloat) -> l <> [] -> homog k l = true ->
  sort_model l = Ok l' -> sort_model l' = Ok l'.
Proof. exact sort_idem. Qed.
Theorem C17_sort_reject : forall l,
  match l with VStr _ :: _ | VInt _ :: _ | VFloat _ :: _ => False | _ => True end -> sort_model l = Panic.
Proof. exact sort_reject. Qed.
(* whatever algorithm sort.Ints/Strings/Float64s use: a sorted permutation is unique (floats: up to the sign of zeros) *)
Theorem C17_unique_ints : forall l s, Permutation l s -> StronglySorted (fun a b => (a <=? b) = true) s -> s = isort Z.leb l.
Proof. exact sort_unique_ints. Qed.
Theorem C17_unique_strings : forall l s, Permutation l s -> StronglySorted (fun a b => bytes_leb a b = true) s -> s = isort bytes_leb l.
Proof. exact sort_unique_strings. Qed.
Theorem C17_unique_floats : forall l s, Permutation l s -> StronglySorted (fun a b => fkey_leb a b = true) s ->
  map fkey s = map fkey (isort fkey_leb l).
Proof. exact sort_unique_floats. Qed.

(* the swap loop of Reverse is list reversal: position i goes to n-1-i, twice restores the original *)
Theorem C17_reverse : forall (l : list val), reverse_model l = rev l.
Proof. exact (@reverse_model_rev val). Qed.
Theorem C17_reverse_position : forall (l : list val) i, (i < length l)%nat ->
  nth_error (reverse_model l) (length l - 1 - i) = nth_error l i.
Proof. exact (@reverse_position val). Qed.
Theorem C17_reverse_involutive : forall (l : list val), reverse_model (reverse_model l) = l.
Proof. exact (@reverse_involutive val). Qed.

Example C17_nonvacuous :
  sort_model [VInt 3; VInt (-1); VInt 3; VInt 0] = Ok [VInt (-1); VInt 0; VInt 3; VInt 3] /\
  reverse_model [VInt 1; VNil; VStr (B"x"); VInt 4] = [VInt 4; VStr (B"x"); VNil; VInt 1] /\
  reverse_model [VInt 1; VNil; VStr (B"x")] = [VStr (B"x"); VNil; VInt 1].
Proof. vm_compute. repeat split; reflexivity. Qed.
(* regression: the loop bound (n-1)/2-1 misses the middle pair of an even-length list *)
Example C17_bad_bound_refuted :
  rev_loop 4 ((4 - 1) / 2) [VInt 1; VInt 2; VInt 3; VInt 4] <> rev [VInt 1; VInt 2; VInt 3; VInt 4].
Proof. vm_compute. congruence. Qed.

Print Assumptions C17_sort.
Print Assumptions C17_sort_idempotent.
Print Assumptions C17_sort_reject.
Print Assumptions C17_unique_ints.
Print Assumptions C17_unique_strings.
Print Assumptions C17_unique_floats.
Print Assumptions C17_reverse.
Print Assumptions C17_reverse_position.
Print Assumptions C17_reverse_involutive.
