(* C17 — Sort orders in place without losing elements; Reverse is an exact involution. *)
From Anytype Require Import Base FloatBits Value Sorting.
From Anytype Require Heap Footprint.
From Coq Require Import Permutation Sorted.
Local Open Scope Z_scope.

(* on a non-empty list of all strings / all ints / all floats, Sort succeeds, the result is a permutation of the
   original elements (bit-exact values) and non-decreasing (ints by <=, strings bytewise, floats by Go's order on non-NaN values) *)
Theorem C17_sort : forall k l, (k = KString \/ k = KInt \/ k = KFloat) -> l <> [] -> homog k l = true ->
  exists l', sort_model l = Ok l' /\ Permutation l l' /\ StronglySorted (fun a b => val_leb a b = true) l'.
Proof. exact sort_perm. Qed.
Theorem C17_sort_idempotent : forall k l l', (k = KString \/ k = KInt \/ k = KFloat) -> l <> [] -> homog k l = true ->
  sort_model l = Ok l' -> sort_model l' = Ok l'.
Proof. exact sort_idem. Qed.
Theorem C17_sort_reject : forall l,
  match l with VStr _ :: _ | VInt _ :: _ | VFloat _ :: _ => False | _ => True end -> sort_model l = Panic.
Proof. exact sort_reject. Qed.
(* whatever algorithm sort.Ints/Strings/Float64s use: a sorted permutation is unique (floats: up to the sign of zeros) *)
Theorem C17_unique_ints : forall l s, Permutation l s -> StronglySorted (fun a b => (a <=? b) = true) s -> s = isort Z.leb l.
Proof. exact sort_unique_ints. Qed.
Theorem C17_unique_strings : forall l s, Permutation l s -> StronglySorted (fun a b => bytes_leb a b = true) s -> s = isort bytes_leb l.
Proof. exact sort_unique_strings. Qed.
Theorem C17_unique_floats : forall l s, Permutation l s -> StronglySorted (fun a b => fkey_leb a b = true) s ->
  map fkey s = map fkey (isort fkey_leb l).
Proof. exact sort_unique_floats. Qed.

(* the swap loop of Reverse is list reversal: position i goes to n-1-i, twice restores the original *)
Theorem C17_reverse : forall (l : list val), reverse_model l = rev l.
Proof. exact (@reverse_model_rev val). Qed.
Theorem C17_reverse_position : forall (l : list val) i, (i < length l)%nat ->
  nth_error (reverse_model l) (length l - 1 - i) = nth_error l i.
Proof. exact (@reverse_position val). Qed.
Theorem C17_reverse_involutive : forall (l : list val), reverse_model (reverse_model l) = l.
Proof. exact (@reverse_involutive val). Qed.

Example C17_nonvacuous :
  sort_model [VInt 3; VInt (-1); VInt 3; VInt 0] = Ok [VInt (-1); VInt 0; VInt 3; VInt 3] /\
  reverse_model [VInt 1; VNil; VStr (B"x"); VInt 4] = [VInt 4; VStr (B"x"); VNil; VInt 1] /\
  reverse_model [VInt 1; VNil; VStr (B"x")] = [VStr (B"x"); VNil; VInt 1].
Proof. vm_compute. repeat split; reflexivity. Qed.
(* regression: the loop bound (n-1)/2-1 misses the middle pair of an even-length list *)
Example C17_bad_bound_refuted :
  rev_loop 4 ((4 - 1) / 2) [VInt 1; VInt 2; VInt 3; VInt 4] <> rev [VInt 1; VInt 2; VInt 3; VInt 4].
Proof. vm_compute. congruence. Qed.

(* ---- in place, on the heap (Heap.v: the list a register names is a cell; every alias names the same cell) ----
   Reverse and Sort write exactly the receiver's own cell and nothing else: the same cell afterwards holds the reversed / sorted
   sequence (so every alias sees it and the identity of the list is unchanged), every other cell and every register is as before,
   the heap has the same size (nothing is allocated); a Sort that panics changes nothing at all. *)
Theorem C17_heap_reverse_in_place : forall s r id l, Heap.reg_list s r = Some (id, l) ->
  let s' := fst (Heap.step_core s (Heap.LReverse r)) in
  snd (Heap.step_core s (Heap.LReverse r)) = Heap.Ret Heap.ONone /\
  Heap.st_env s' = Heap.st_env s /\ length (Heap.st_heap s') = length (Heap.st_heap s) /\
  nth_error (Heap.st_heap s') id = Some (Heap.CList (rev l)) /\
  forall j, j <> id -> nth_error (Heap.st_heap s') j = nth_error (Heap.st_heap s) j.
Proof.
  intros s r id l H. cbn [Heap.step_core]. rewrite H. cbn [fst snd Heap.with_heap Heap.st_env Heap.st_heap].
  unfold Heap.set_list. rewrite upd_length, reverse_model_rev.
  assert (Hid : (id < length (Heap.st_heap s))%nat) by exact (proj2 (Footprint.reg_list_inv _ _ _ _ H)).
  repeat split; auto.
  - apply nth_error_upd_eq; exact Hid.
  - intros j Hj. apply nth_error_upd_neq. congruence.
Qed.
Theorem C17_heap_sort_in_place : forall s r id l, Heap.reg_list s r = Some (id, l) ->
  let s' := fst (Heap.step_core s (Heap.LSort r)) in
  match Heap.l_sort l with
  | Ok l' => snd (Heap.step_core s (Heap.LSort r)) = Heap.Ret Heap.ONone /\
             Heap.st_env s' = Heap.st_env s /\ length (Heap.st_heap s') = length (Heap.st_heap s) /\
             nth_error (Heap.st_heap s') id = Some (Heap.CList l') /\
             forall j, j <> id -> nth_error (Heap.st_heap s') j = nth_error (Heap.st_heap s) j
  | Panic => Heap.step_core s (Heap.LSort r) = (s, Heap.Pan)
  end.
Proof.
  intros s r id l H. cbn [Heap.step_core]. rewrite H. destruct (Heap.l_sort l) as [l'|]; [|reflexivity].
  cbn [fst snd Heap.with_heap Heap.st_env Heap.st_heap]. unfold Heap.set_list. rewrite upd_length.
  assert (Hid : (id < length (Heap.st_heap s))%nat) by exact (proj2 (Footprint.reg_list_inv _ _ _ _ H)).
  repeat split; auto.
  - apply nth_error_upd_eq; exact Hid.
  - intros j Hj. apply nth_error_upd_neq. congruence.
Qed.
(* what the sorted cell holds is the pure Sort of the element sequence (the scalars read as values and written back) *)
Theorem C17_heap_sort_is_sort_model : forall l, Heap.l_sort l =
  match sort_model (map Heap.val_of_hscalar l) with Ok s => Ok (map Heap.hscalar_of_val s) | Panic => Panic end.
Proof. reflexivity. Qed.
Example C17_heap_nonvacuous :
  let s := fst (Heap.step Heap.init_state (Heap.NewList [Heap.Lit (Heap.HInt 3); Heap.Lit (Heap.HInt (-1)); Heap.Lit (Heap.HInt 2)])) in
  Heap.reg_list s 0 = Some (0%nat, [Heap.HInt 3; Heap.HInt (-1); Heap.HInt 2]) /\
  Heap.l_sort [Heap.HInt 3; Heap.HInt (-1); Heap.HInt 2] = Ok [Heap.HInt (-1); Heap.HInt 2; Heap.HInt 3].
Proof. vm_compute. split; reflexivity. Qed.

Print Assumptions C17_sort.
Print Assumptions C17_heap_reverse_in_place.
Print Assumptions C17_heap_sort_in_place.
Print Assumptions C17_sort_idempotent.
Print Assumptions C17_sort_reject.
Print Assumptions C17_unique_ints.
Print Assumptions C17_unique_strings.
Print Assumptions C17_unique_floats.
Print Assumptions C17_reverse.
Print Assumptions C17_reverse_position.
Print Assumptions C17_reverse_involutive.
