(* C07 — Equals is exactly typed structural equality, hence an equivalence relation (on NaN-free data). *)
From Anytype Require Import Base FloatBits Value Equality.
Local Open Scope Z_scope.

(* [veq] transcribes the three isEqual methods; [seqP] is typed structural equality defined independently
   (lists position by position; objects: same key set and related values per key, whatever the member order;
   int 1 vs float 1.0, nil vs anything else, different kinds: unrelated). *)
Theorem C07_spec : forall a b, wfb a = true -> wfb b = true -> (veq a b = true <-> seqP a b).
Proof. exact veq_spec. Qed.

Theorem C07_refl : forall a, wfb a = true -> nan_free a = true -> veq a a = true.
Proof. exact veq_refl. Qed.
Theorem C07_sym : forall a b, wfb a = true -> wfb b = true -> veq a b = veq b a.
Proof. exact veq_sym. Qed.
Theorem C07_trans : forall a b c, wfb a = true -> wfb b = true -> wfb c = true ->
  veq a b = true -> veq b c = true -> veq a c = true.
Proof. exact veq_trans. Qed.

(* false rather than a panic: veq is a total function to bool; the clauses the property names *)
Theorem C07_kinds : forall a b, veq a b = true -> kind_of a = kind_of b.
Proof. exact veq_kind. Qed.
Theorem C07_length : forall xs ys, veq (VList xs) (VList ys) = true -> length xs = length ys.
Proof. exact veq_list_length. Qed.
Theorem C07_missing_key : forall xs ys k v, In (k, v) xs -> alookup k ys = None -> veq (VObj xs) (VObj ys) = false.
Proof. exact veq_obj_missing. Qed.

(* non-vacuity and boundaries *)
Example C07_order_irrelevant :
  veq (VObj [(B"a", VInt 1); (B"b", VList [VNil])]) (VObj [(B"b", VList [VNil]); (B"a", VInt 1)]) = true.
Proof. vm_compute. reflexivity. Qed.
Example C07_int_vs_float : veq (VList [VInt 1]) (VList [VFloat fone]) = false.
Proof. vm_compute. reflexivity. Qed.
Example C07_signed_zeros_equal : veq (VList [VFloat pzero]) (VList [VFloat nzero]) = true.
Proof. vm_compute. reflexivity. Qed.
Example C07_nan_boundary : veq (VList [VFloat 9221120237041090561]) (VList [VFloat 9221120237041090561]) = false.
Proof. vm_compute. reflexivity. Qed.
(* regression: an object isEqual without the count test is refuted (left has fewer keys) *)
Example C07_no_count_test_refuted :
  obj_relb veq [(B"a", VInt 1); (B"b", VInt 2)] [(B"a", VInt 1)] = true /\
  veq (VObj [(B"a", VInt 1)]) (VObj [(B"a", VInt 1); (B"b", VInt 2)]) = false.
Proof. vm_compute. split; reflexivity. Qed.

Print Assumptions C07_spec.
Print Assumptions C07_refl.
Print Assumptions C07_sym.
Print Assumptions C07_trans.
Print Assumptions C07_kinds.
Print Assumptions C07_length.
Print Assumptions C07_missing_key.
