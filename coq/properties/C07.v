(* C07 — Equals is exactly typed structural equality, hence an equivalence relation (on NaN-free data). *)
From Anytype Require Import Base FloatBits Value Equality.
From Anytype Require Heap.
Local Open Scope Z_scope.

(* [veq] transcribes the three isEqual methods; [seqP] is typed structural equality defined independently
   (lists position by position; objects: same key set and related values per key, whatever the member order;
   int 1 vs float 1.0, nil vs anything else, different kinds: unrelated). *)
Theorem C07_spec : forall a b, wfb a = true -> wfb b = true -> (veq a b = true <-> seqP a b).
Proof. exact veq_spec. Qed.

Theorem C07_refl : forall a, wfb a = true -> nan_free a = true -> veq a a = true.
Proof. exact veq_refl. Qed.
Theorem C07_sym : forall a b, wfb a = true -> wfb b = true -> veq a b = veq b a.
Proof. exact veq_sym. Qed.
Theorem C07_trans : forall a b c, wfb a = true -> wfb b = true -> wfb c = true ->
  veq a b = true -> veq b c = true -> veq a c = true.
Proof. exact veq_trans. Qed.

(* false rather than a panic: veq is a total function to bool; the clauses the property names *)
Theorem C07_kinds : forall a b, veq a b = true -> kind_of a = kind_of b.
Proof. exact veq_kind. Qed.
Theorem C07_length : forall xs ys, veq (VList xs) (VList ys) = true -> length xs = length ys.
Proof. exact veq_list_length. Qed.
Theorem C07_missing_key : forall xs ys k v, In (k, v) xs -> alookup k ys = None -> veq (VObj xs) (VObj ys) = false.
Proof. exact veq_obj_missing. Qed.

(* non-vacuity and boundaries *)
Example C07_order_irrelevant :
  veq (VObj [(B"a", VInt 1); (B"b", VList [VNil])]) (VObj [(B"b", VList [VNil]); (B"a", VInt 1)]) = true.
Proof. vm_compute. reflexivity. Qed.
Example C07_int_vs_float : veq (VList [VInt 1]) (VList [VFloat fone]) = false.
Proof. vm_compute. reflexivity. Qed.
Example C07_signed_zeros_equal : veq (VList [VFloat pzero]) (VList [VFloat nzero]) = true.
Proof. vm_compute. reflexivity. Qed.
Example C07_nan_boundary : veq (VList [VFloat 9221120237041090561]) (VList [VFloat 9221120237041090561]) = false.
Proof. vm_compute. reflexivity. Qed.
(* regression: an object isEqual without the count test is refuted (left has fewer keys) *)
Example C07_no_count_test_refuted :
  obj_relb veq [(B"a", VInt 1); (B"b", VInt 2)] [(B"a", VInt 1)] = true /\
  veq (VObj [(B"a", VInt 1)]) (VObj [(B"a", VInt 1); (B"b", VInt 2)]) = false.
Proof. vm_compute. split; reflexivity. Qed.

(* ---- on the heap (Heap.v): Equals is an observer and nothing else. Whatever the two registers hold, the step leaves the whole
   state - every cell, every register - exactly as it was (it "never modifies either operand", nor anything else), it never
   panics, and when both operands read as trees its answer is veq of the two trees: a function of what the operands denote, not of
   their identity, their history or earlier calls *)
Theorem C07_heap_equals_is_an_observer : forall s r a,
  fst (Heap.step_core s (Heap.Equals r a)) = s /\ snd (Heap.step_core s (Heap.Equals r a)) <> Heap.Pan.
Proof.
  intros s r a. cbn [Heap.step_core].
  destruct (nth_error (Heap.st_env s) r) as [x|]; [|split; [reflexivity | discriminate]].
  destruct (nth_error (Heap.st_env s) a) as [y|]; [|split; [reflexivity | discriminate]].
  destruct (Heap.reify _ _ x) as [vx|]; [|split; [reflexivity | discriminate]].
  destruct (Heap.reify _ _ y) as [vy|]; split; try reflexivity; discriminate.
Qed.
Theorem C07_heap_equals_answer : forall s r a x y vx vy,
  nth_error (Heap.st_env s) r = Some x -> nth_error (Heap.st_env s) a = Some y ->
  Heap.reify (Heap.fuel_of (Heap.st_heap s)) (Heap.st_heap s) x = Some vx ->
  Heap.reify (Heap.fuel_of (Heap.st_heap s)) (Heap.st_heap s) y = Some vy ->
  Heap.step_core s (Heap.Equals r a) = (s, Heap.Ret (Heap.OB (veq vx vy))).
Proof. intros s r a x y vx vy Hx Hy Rx Ry. cbn [Heap.step_core]. rewrite Hx, Hy, Rx, Ry. reflexivity. Qed.

Print Assumptions C07_heap_equals_is_an_observer.
Print Assumptions C07_heap_equals_answer.
Print Assumptions C07_spec.
Print Assumptions C07_refl.
Print Assumptions C07_sym.
Print Assumptions C07_trans.
Print Assumptions C07_kinds.
Print Assumptions C07_length.
Print Assumptions C07_missing_key.
