(* C14 — typed views select exactly the elements of their kind, in order, each once. *)
From Anytype Require Import Base FloatBits Value Views.
From Anytype Require Import HeapExtSpecs.
From Anytype Require Import Heap HeapExt HeapExtProofs.
From Coq Require Import Permutation.
Local Open Scope Z_scope.

(* lists: every typed variant is the corresponding operation on [filter (has_kind k) l] — order and multiplicity in one statement;
   callbacks are arbitrary functions *)
Theorem C14_slice : forall k l, slice_k k l = filter (has_kind k) l.
Proof. exact slice_k_spec. Qed.
Theorem C14_foreach_log : forall k l, foreach_k_log k l = filter (has_kind k) l.
Proof. exact foreach_k_spec. Qed.
Theorem C14_positions : forall k l,
  slice_k k l = map snd (filter (fun p => has_kind k (snd p)) (combine (seq 0 (length l)) l)).
Proof. exact slice_k_positions. Qed.
Theorem C14_map : forall k f l, map_k k f l = map f (filter (has_kind k) l).
Proof. exact map_k_spec. Qed.
Theorem C14_filter : forall k p l, filter_k k p l = filter p (filter (has_kind k) l).
Proof. exact filter_k_spec. Qed.
Theorem C14_reduce : forall (A : Type) k (g : A -> val -> A) init l,
  reduce_k k g init l = fold_left g (filter (has_kind k) l) init.
Proof. exact @reduce_k_spec. Qed.
Theorem C14_all : forall k l, all_k k l = forallb (has_kind k) l.
Proof. exact all_k_spec. Qed.
Theorem C14_all_numeric : forall l, all_numeric l = forallb (fun v => has_kind KInt v || has_kind KFloat v) l.
Proof. exact all_numeric_spec. Qed.
(* untyped: every element once, in order, with its index *)
Theorem C14_foreach : forall l, foreach_log l = combine (seq 0 (length l)) l.
Proof. exact foreach_log_spec. Qed.
Theorem C14_foreach_value : forall l, foreach_value_log l = l.
Proof. exact foreach_value_log_spec. Qed.
Theorem C14_map_idx : forall f l, map_idx f l = map (fun p => f (fst p) (snd p)) (combine (seq 0 (length l)) l).
Proof. exact map_idx_spec. Qed.
Theorem C14_map_values : forall f l, map_values f l = map f l.
Proof. exact map_values_spec. Qed.
Theorem C14_filter_any : forall p l, filter_any p l = filter p l.
Proof. exact filter_any_spec. Qed.
(* objects, for every enumeration order [kvs] the runtime may choose *)
Theorem C14_obj_foreach : forall kvs, oforeach_log kvs = kvs.
Proof. exact oforeach_log_spec. Qed.
Theorem C14_obj_foreach_k : forall k kvs, oforeach_k_log k kvs = map snd (filter (fun kv => has_kind k (snd kv)) kvs).
Proof. exact oforeach_k_log_spec. Qed.
Theorem C14_obj_order_irrelevant : forall k kvs kvs', Permutation kvs kvs' ->
  Permutation (oforeach_k_log k kvs) (oforeach_k_log k kvs').
Proof. exact oforeach_k_log_perm. Qed.
Theorem C14_obj_map : forall f kvs key, NoDup (akeys kvs) ->
  alookup key (omap f kvs) = match alookup key kvs with Some v => Some (f key v) | None => None end.
Proof. exact omap_spec. Qed.
Theorem C14_obj_map_k : forall k f kvs key, NoDup (akeys kvs) ->
  alookup key (omap_k k f kvs) = match alookup key kvs with Some v => if has_kind k v then Some (f v) else None | None => None end.
Proof. exact omap_k_spec. Qed.

Example C14_nonvacuous :
  slice_k KInt [VInt 1; VStr (B"x"); VInt 2; VNil; VInt 1] = [VInt 1; VInt 2; VInt 1] /\ all_k KInt [] = true.
Proof. vm_compute. split; reflexivity. Qed.


(* heap level (HeapExt.v): the typed slices, the typed ForEach call logs, the All family of a list that lives in a heap of
   containers with identity are the pure views above applied to its element sequence; Filter hands out exactly the selected
   elements in order; Map with the identity callback hands out the selected elements themselves (containers by reference) *)
Theorem C14_heap_typed_slice : forall k l, map val_of_hscalar (filter_loop (sel_kind k) l) = slice_k k (map val_of_hscalar l).
Proof. exact slicek_bridge. Qed.
Theorem C14_heap_kind : forall x, kind_of (val_of_hscalar x) = hkind x.
Proof. exact hkind_kind_of. Qed.
Theorem C14_heap_all : forall k l, forallb (sel_kind k) l = all_k k (map val_of_hscalar l).
Proof. exact allk_bridge. Qed.
Theorem C14_heap_all_numeric : forall l, forallb (fun x => sel_kind KInt x || sel_kind KFloat x) l = all_numeric (map val_of_hscalar l).
Proof. exact allnumeric_bridge. Qed.
Theorem C14_heap_filter : forall sel l, filter_loop sel l = filter sel l.
Proof. exact filter_loop_spec. Qed.
Theorem C14_heap_map_identity : forall sel tagf l h i acc, map_loop sel MId tagf h l i acc = (h, acc ++ filter sel l).
Proof. exact map_loop_MId. Qed.
Theorem C14_heap_map_once_each : forall sel f tagf l h i acc h' res,
  map_loop sel f tagf h l i acc = (h', res) -> length res = (length acc + length (filter sel l))%nat.
Proof. exact map_loop_length. Qed.


Theorem C14_heap_typed_views : forall (fadd fmul fdiv : Z -> Z -> Z) (of_int : Z -> Z) s k r id l, reg_list s r = Some (id, l) ->
  xstep_core fadd fmul fdiv of_int s (XLSliceK k r) = (s, XRet (XO (OVs (filter (sel_kind k) l)))) /\
  xstep_core fadd fmul fdiv of_int s (XLForEachK k r) = (s, XRet (XO (OVs (filter (sel_kind k) l)))) /\
  xstep_core fadd fmul fdiv of_int s (XLAll k r) = (s, XRet (XO (OB (forallb (sel_kind k) l)))).
Proof. exact xslicek_step. Qed.


(* heap level, objects: the Map variants store the result of every selected field - and only of those - under the SAME key, the result
   has pairwise distinct keys, and with the identity callback it holds the selected fields themselves and allocates nothing *)
Theorem C14_heap_object_map_keys : forall sel f tagf kvs h h' res, NoDup (akeys kvs) -> omap_loop sel f tagf h kvs [] = (h', res) ->
  forall k, match alookup k kvs with
            | Some x => if sel x then exists v, alookup k res = Some v else alookup k res = None
            | None => alookup k res = None
            end.
Proof. exact omap_loop_lookup. Qed.
Theorem C14_heap_object_map_identity : forall sel tagf kvs h, NoDup (akeys kvs) ->
  exists res, omap_loop sel MId tagf h kvs [] = (h, res) /\
    forall k, alookup k res = match alookup k kvs with Some x => if sel x then Some x else None | None => None end.
Proof. exact omap_loop_MId. Qed.
Theorem C14_heap_object_map_distinct_keys : forall sel f tagf kvs h h' res, omap_loop sel f tagf h kvs [] = (h', res) -> NoDup (akeys res).
Proof. exact omap_loop_nodup. Qed.
(* heap level, lists: with a callback that returns a fresh pair [tag; x], Map builds one new two-element list per selected element, in
   order, holding the tag the callback was given (the index for Map) and the element itself; ForEach sees every element once, in
   order, with its index *)
Theorem C14_heap_list_map_pairs : forall sel tagf l h i,
  let '(h', res) := map_loop sel MPair tagf h l i [] in
  length res = length (selected sel i l) /\
  forall j p, nth_error (selected sel i l) j = Some p ->
    nth_error res j = Some (HL (length h + j)) /\
    nth_error h' (length h + j) = Some (CList [tagf (fst p) (snd p); snd p]).
Proof. exact map_loop_MPair_content. Qed.
Theorem C14_heap_foreach_log : forall l i,
  map snd (index_log l i) = l /\ map fst (index_log l i) = map (fun k => (i + Z.of_nat k)%Z) (seq 0 (length l)).
Proof. exact index_log_spec. Qed.

Print Assumptions C14_slice.
Print Assumptions C14_foreach_log.
Print Assumptions C14_positions.
Print Assumptions C14_map.
Print Assumptions C14_filter.
Print Assumptions C14_reduce.
Print Assumptions C14_all.
Print Assumptions C14_all_numeric.
Print Assumptions C14_foreach.
Print Assumptions C14_foreach_value.
Print Assumptions C14_map_idx.
Print Assumptions C14_map_values.
Print Assumptions C14_filter_any.
Print Assumptions C14_obj_foreach.
Print Assumptions C14_obj_foreach_k.
Print Assumptions C14_obj_order_irrelevant.
Print Assumptions C14_obj_map.
Print Assumptions C14_obj_map_k.
Print Assumptions C14_heap_typed_slice.
Print Assumptions C14_heap_kind.
Print Assumptions C14_heap_all.
Print Assumptions C14_heap_all_numeric.
Print Assumptions C14_heap_filter.
Print Assumptions C14_heap_map_identity.
Print Assumptions C14_heap_map_once_each.
Print Assumptions C14_heap_typed_views.
Print Assumptions C14_heap_object_map_keys.
Print Assumptions C14_heap_object_map_identity.
Print Assumptions C14_heap_object_map_distinct_keys.
Print Assumptions C14_heap_list_map_pairs.
Print Assumptions C14_heap_foreach_log.
