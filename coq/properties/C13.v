(* C13 — native conversions are faithful, recursive and never aliased with the container. *)
From Anytype Require Import Base FloatBits Value Native NativeProofs.
Local Open Scope Z_scope.

(* [native v]: NativeSlice / NativeDict of a container with content v; [norm]: NewListFrom / NewObjectFrom / parseVal. *)

(* the export is plain Go data: no anytype container at any depth *)
Theorem C13_native_is_plain : forall v, is_native (native v) = true.
Proof. exact native_is_native. Qed.
(* it is faithful: importing it again yields exactly the same content *)
Theorem C13_export_faithful : forall v, norm (native v) = Ok v.
Proof. exact norm_native_all. Qed.
(* NewObjectFrom(m).NativeDict() / NewListFrom(s).NativeSlice() reproduce m / s for every tree of map[string]any, []any and
   canonical scalars (nil, bool, string, int, float64), at any depth *)
Theorem C13_roundtrip : forall g v, canonical_native g = true -> norm g = Ok v -> native v = g.
Proof. exact native_norm. Qed.
Theorem C13_export_canonical : forall v, wfb v = true -> canonical_native (native v) = true.
Proof. exact native_canonical. Qed.
(* Slice() and Dict() are one-level snapshots holding exactly what Get returns per index / key *)
Theorem C13_slice_snapshot : forall l,
  map (fun g => match g with GObjC c => VObj c | GListC c => VList c | _ => match norm g with Ok v => v | Panic => VNil end end) (slice_snapshot l) = l.
Proof. exact snapshot_shallow. Qed.
Theorem C13_dict_snapshot : forall kvs, map (fun kg => (fst kg, reimport (snd kg))) (dict_snapshot kvs) = kvs.
Proof. exact dict_snapshot_shallow. Qed.
Theorem C13_dict_keys : forall kvs, map fst (dict_snapshot kvs) = map fst kvs.
Proof. exact dict_snapshot_keys. Qed.
(* Non-aliasing: exports and imports are VALUES of the model (trees), they cannot share storage with a container by construction.
   That a Go []any / map[string]any cannot share storage with the library's []field / map[string]field is enforced by Go's type
   system (different element types); the check additionally mutates export, snapshot, source value and container on every case. *)

Example C13_nonvacuous :
  native (VObj [(B"a", VList [VInt 1; VObj []]); (B"", VFloat fone)]) =
    GMapAny [(B"a", GSliceAny [GIntW WInt 1; GMapAny []]); (B"", GF64 fone)].
Proof. vm_compute. reflexivity. Qed.

Print Assumptions C13_native_is_plain.
Print Assumptions C13_export_faithful.
Print Assumptions C13_roundtrip.
Print Assumptions C13_export_canonical.
Print Assumptions C13_slice_snapshot.
Print Assumptions C13_dict_snapshot.
Print Assumptions C13_dict_keys.
