(* C18 — numeric aggregates equal the reference folds over the numeric elements.
   This file contains only the property theorems (closed by [exact]) and a non-vacuity example. *)
From Anytype Require Import Base FloatBits Value Aggregates.
From Anytype Require Import Heap HeapExt HeapExtProofs.
Local Open Scope Z_scope.

Section C18.
  (* float arithmetic and float64(int) are arbitrary functions: the statements hold for IEEE or any other arithmetic *)
  Variable fadd fmul fdiv : Z -> Z -> Z.
  Variable of_int : Z -> Z.
  Notation to_f := (to_f of_int).

  Theorem C18_sum : forall l, forallb is_numeric l = true ->
    Sum fadd of_int l = fold_left fadd (map to_f l) pzero.
  Proof. exact (Sum_spec fadd of_int). Qed.

  Theorem C18_prod : forall l, forallb is_numeric l = true ->
    Prod fmul of_int l = fold_left fmul (map to_f l) fone.
  Proof. exact (Prod_spec fmul of_int). Qed.

  Theorem C18_avg : forall l, forallb is_numeric l = true ->
    Avg fadd fdiv of_int l = fdiv (fold_left fadd (map to_f l) pzero) (of_int (Zlen l)).
  Proof. exact (Avg_spec fadd fdiv of_int). Qed.

  (* Min/Max of a non-empty list of ints and finite floats is a minimum/maximum of the elements taken as float64 *)
  Theorem C18_min : forall l, l <> [] -> forallb is_numeric l = true -> forallb (fin_ok of_int) l = true ->
    exists m, Min of_int l = Ok m /\ (forall x, In x l -> flt (to_f x) m = false) /\ (exists x, In x l /\ feq (to_f x) m = true).
  Proof. exact (Min_spec of_int). Qed.

  Theorem C18_max : forall l, l <> [] -> forallb is_numeric l = true -> forallb (fin_ok of_int) l = true ->
    exists m, Max of_int l = Ok m /\ (forall x, In x l -> flt m (to_f x) = false) /\ (exists x, In x l /\ feq (to_f x) m = true).
  Proof. exact (Max_spec of_int). Qed.

  (* Int family: on ANY list, the folds over exactly the int elements (Go int arithmetic wraps at 64 bits) *)
  Theorem C18_intsum : forall l, IntSum l = wrap64 (zsum (ints_of l)).
  Proof. exact IntSum_spec. Qed.
  Theorem C18_intprod : forall l, IntProd l = wrap64 (zprod (ints_of l)).
  Proof. exact IntProd_spec. Qed.
  Theorem C18_intmin : forall l, Forall (fun z => in_int64 z = true) (ints_of l) ->
    match ints_of l with
    | [] => IntMin l = 0
    | _ => In (IntMin l) (ints_of l) /\ forall z, In z (ints_of l) -> IntMin l <= z
    end.
  Proof. exact IntMin_spec. Qed.
  Theorem C18_intmax : forall l, Forall (fun z => in_int64 z = true) (ints_of l) ->
    match ints_of l with
    | [] => IntMax l = 0
    | _ => In (IntMax l) (ints_of l) /\ forall z, In z (ints_of l) -> z <= IntMax l
    end.
  Proof. exact IntMax_spec. Qed.

  Theorem C18_empty : Sum fadd of_int [] = 0 /\ Prod fmul of_int [] = fone /\ Min of_int [] = Ok 0 /\ Max of_int [] = Ok 0 /\
                      IntSum [] = 0 /\ IntProd [] = 1 /\ IntMin [] = 0 /\ IntMax [] = 0.
  Proof. exact (empty_cases fadd fmul of_int). Qed.
End C18.

(* non-vacuity: an all-negative mixed list meets the hypotheses of C18_min/C18_max (with a toy float64(int)) *)
Example C18_nonvacuous :
  let of_int := fun z : Z => if z =? -3 then 13837309855095848960 (* -3.0 *) else 0 in
  let l := [VInt (-3); VFloat 13832806255468478464 (* -1.5 *)] in
  l <> [] /\ forallb is_numeric l = true /\ forallb (fin_ok of_int) l = true /\
  Max of_int l = Ok 13832806255468478464 /\ Min of_int l = Ok 13837309855095848960.
Proof. vm_compute. repeat split; congruence. Qed.

(* regression: seeding Max with 0 instead of -MaxFloat64 is refuted by this list *)
Example C18_max_seed0_refuted :
  let of_int := fun z : Z => if z =? -3 then 13837309855095848960 else 0 in
  fold_left (max_step of_int) [VInt (-3); VFloat 13832806255468478464] (Ok 0) <> Ok 13832806255468478464.
Proof. vm_compute. congruence. Qed.


(* heap level (HeapExt.v): an aggregate called on a list that lives in a heap of containers with identity - at any point of any
   program - returns the model above applied to the list's current element sequence and leaves the whole state untouched *)
Theorem C18_heap_aggregate : forall (fadd fmul fdiv : Z -> Z -> Z) (of_int : Z -> Z) s a r id l, reg_list s r = Some (id, l) ->
  xstep_core fadd fmul fdiv of_int s (XLAgg a r) = (s, agg_model fadd fmul fdiv of_int a (map val_of_hscalar l)).
Proof. exact xagg_step. Qed.

Print Assumptions C18_sum.
Print Assumptions C18_prod.
Print Assumptions C18_avg.
Print Assumptions C18_min.
Print Assumptions C18_max.
Print Assumptions C18_intsum.
Print Assumptions C18_intprod.
Print Assumptions C18_intmin.
Print Assumptions C18_intmax.
Print Assumptions C18_empty.
Print Assumptions C18_heap_aggregate.
