(* C10 — tree-form reads equal step-by-step navigation; unresolved paths are Undefined. *)
From Anytype Require Import Base FloatBits Value GoInt Heap TreeFormProofs TreeFormFacts.
Local Open Scope Z_scope.

(* [get_tf]/[typeof_tf] transcribe GetTF/TypeOfTF of both containers (string surgery included);
   [render_path] writes a path of '.key' / '#index' segments (non-empty keys free of '.' and '#', canonical decimal indices);
   [nav] is step-by-step navigation with Get. *)

(* GetTF on a well-formed path is exactly step-by-step navigation: the identical nested container or the equal scalar,
   and a panic exactly when some step cannot be taken (missing key, index out of range, scalar or the other container kind
   in the way, wrong leading sigil) *)
Theorem C10_get : forall p h v, p <> [] -> forallb ok_seg p = true ->
  get_tf (S (length (render_path p))) h v (render_path p) = nav h v p.
Proof. exact tf_get_nav. Qed.
(* TypeOfTF returns that value's kind, TypeUndefined when the navigation fails *)
Theorem C10_typeof : forall p h v, p <> [] -> forallb ok_seg p = true ->
  typeof_tf (S (length (render_path p))) h v (render_path p) = match nav h v p with Ok x => hkind x | Panic => KUndefined end.
Proof. exact tf_typeof_nav. Qed.
(* for EVERY string (malformed ones included) and every heap: TypeOfTF never panics (it is a total function to kinds), and it
   answers Undefined exactly when GetTF panics, the value's kind otherwise; neither returns a heap, so neither can modify the tree *)
Theorem C10_agree : forall fuel h v s,
  typeof_tf fuel h v s = match get_tf fuel h v s with Ok x => hkind x | Panic => KUndefined end.
Proof. exact tf_agree. Qed.

Example C10_nonvacuous :
  (* {"a": [10, {"b": "x"}]} : ".a#1.b" resolves to "x", ".a#2" and ".a.b" and "#0" do not *)
  let h := [CObj [(B"b", HStr (B"x"))]; CList [HInt 10; HO 0]; CObj [(B"a", HL 1)]] in
  get_tf 20 h (HO 2) (B".a#1.b") = Ok (HStr (B"x")) /\ typeof_tf 20 h (HO 2) (B".a#1.b") = KString /\
  typeof_tf 20 h (HO 2) (B".a#2") = KUndefined /\ get_tf 20 h (HO 2) (B".a.b") = Panic /\ typeof_tf 20 h (HO 2) (B"#0") = KUndefined /\
  render_path [Key (B"a"); Idx 1; Key (B"b")] = B".a#1.b".
Proof. vm_compute. repeat split; reflexivity. Qed.

(* known finding K1: a key that starts with a sigil is reachable through an empty segment, so a path the property calls
   malformed ("empty segment") resolves *)
Example C10_sigil_key_resolves :
  let h := [CObj [(B".x", HInt 1)]] in typeof_tf 10 h (HO 0) (B"..x") = KInt /\ get_tf 10 h (HO 0) (B"..x") = Ok (HInt 1).
Proof. vm_compute. split; reflexivity. Qed.

Print Assumptions C10_get.
Print Assumptions C10_typeof.
Print Assumptions C10_agree.
