(* C10 — tree-form reads equal step-by-step navigation; unresolved paths are Undefined. *)
From Anytype Require Import Base FloatBits Value GoInt Heap TreeFormProofs TreeFormFacts TreeFormMalformed.
From Anytype Require Import SourceTables. From AnytypeGen Require Import GenTables.
Local Open Scope Z_scope.

(* [get_tf]/[typeof_tf] transcribe GetTF/TypeOfTF of both containers (string surgery included);
   [render_path] writes a path of '.key' / '#index' segments (non-empty keys free of '.' and '#', canonical decimal indices);
   [nav] is step-by-step navigation with Get. *)

(* GetTF on a well-formed path is exactly step-by-step navigation: the identical nested container or the equal scalar,
   and a panic exactly when some step cannot be taken (missing key, index out of range, scalar or the other container kind
   in the way, wrong leading sigil) *)
Theorem C10_get : forall p h v, p <> [] -> forallb ok_seg p = true ->
  get_tf (S (length (render_path p))) h v (render_path p) = nav h v p.
Proof. exact tf_get_nav. Qed.
(* TypeOfTF returns that value's kind, TypeUndefined when the navigation fails *)
Theorem C10_typeof : forall p h v, p <> [] -> forallb ok_seg p = true ->
  typeof_tf (S (length (render_path p))) h v (render_path p) = match nav h v p with Ok x => hkind x | Panic => KUndefined end.
Proof. exact tf_typeof_nav. Qed.
(* for EVERY string (malformed ones included) and every heap: TypeOfTF never panics (it is a total function to kinds), and it
   answers Undefined exactly when GetTF panics, the value's kind otherwise; neither returns a heap, so neither can modify the tree *)
Theorem C10_agree : forall fuel h v s,
  typeof_tf fuel h v s = match get_tf fuel h v s with Ok x => hkind x | Panic => KUndefined end.
Proof. exact tf_agree. Qed.

(* malformed strings are Undefined / panic, for every heap whose object keys are non-empty and do not start with a sigil:
   an EMPTY segment (string shorter than one segment, two adjacent sigils, a trailing sigil) ... *)
Theorem C10_empty_segment : forall fuel h v s, heap_keys_plain h -> has_empty_segment s = true ->
  typeof_tf fuel h v s = KUndefined /\ get_tf fuel h v s = Panic.
Proof. exact empty_segment_undefined. Qed.
(* ... a wrong leading sigil (lists start with '#', objects with '.'), a scalar receiver ... *)
Theorem C10_wrong_sigil_list : forall fuel h id s, (forall c t, s = c :: t -> byte_eqb c x23 = false) ->
  typeof_tf fuel h (HL id) s = KUndefined /\ get_tf fuel h (HL id) s = Panic.
Proof. exact wrong_leading_sigil_undefined. Qed.
Theorem C10_wrong_sigil_object : forall fuel h id s, (forall c t, s = c :: t -> byte_eqb c x2e = false) ->
  typeof_tf fuel h (HO id) s = KUndefined /\ get_tf fuel h (HO id) s = Panic.
Proof. exact wrong_leading_sigil_undefined_obj. Qed.
(* ... and an index segment that strconv.ParseInt(base 0) does not accept *)
Theorem C10_non_numeric_index : forall fuel h id l s rest, get_list h id = Some l -> s = x23 :: rest ->
  (forall seg, (split_tf rest = SegLeaf -> seg = rest) -> (forall d, (split_tf rest = SegDot d \/ split_tf rest = SegHash d) -> seg = firstn d rest) -> pint0 seg = None) ->
  typeof_tf fuel h (HL id) s = KUndefined /\ get_tf fuel h (HL id) s = Panic.
Proof. exact non_numeric_index_undefined. Qed.

Example C10_nonvacuous :
  (* {"a": [10, {"b": "x"}]} : ".a#1.b" resolves to "x", ".a#2" and ".a.b" and "#0" do not *)
  let h := [CObj [(B"b", HStr (B"x"))]; CList [HInt 10; HO 0]; CObj [(B"a", HL 1)]] in
  get_tf 20 h (HO 2) (B".a#1.b") = Ok (HStr (B"x")) /\ typeof_tf 20 h (HO 2) (B".a#1.b") = KString /\
  typeof_tf 20 h (HO 2) (B".a#2") = KUndefined /\ get_tf 20 h (HO 2) (B".a.b") = Panic /\ typeof_tf 20 h (HO 2) (B"#0") = KUndefined /\
  render_path [Key (B"a"); Idx 1; Key (B"b")] = B".a#1.b".
Proof. vm_compute. repeat split; reflexivity. Qed.

(* known finding K1: a key that starts with a sigil is reachable through an empty segment, so a path the property calls
   malformed ("empty segment") resolves *)
Example C10_sigil_key_resolves :
  let h := [CObj [(B".x", HInt 1)]] in typeof_tf 10 h (HO 0) (B"..x") = KInt /\ get_tf 10 h (HO 0) (B"..x") = Ok (HInt 1).
Proof. vm_compute. split; reflexivity. Qed.


(* ---- the numbering of the Type constants (what TypeOf / TypeOfTF return), as read from the source on every run ---- *)
Theorem C10_type_constants_generated : gen_type_consts = model_type_consts.
Proof. vm_compute. reflexivity. Qed.

Print Assumptions C10_get.
Print Assumptions C10_typeof.
Print Assumptions C10_agree.
Print Assumptions C10_empty_segment.
Print Assumptions C10_wrong_sigil_list.
Print Assumptions C10_wrong_sigil_object.
Print Assumptions C10_non_numeric_index.
Print Assumptions C10_type_constants_generated.
