(* C11 — tree-form writes hit exactly the addressed slot and nothing else. *)
From Anytype Require Import Base FloatBits Value GoInt Heap TreeFormProofs TreeFormFacts.
From Anytype Require CloneProofs. From Anytype Require Import Footprint.
Local Open Scope Z_scope.

(* [set_tf]/[unset_tf] transcribe SetTF/UnsetTF of both containers branch by branch (pad with nil, reuse an intermediate of the
   right kind by reference, replace it otherwise); [visited h v p] are the containers the navigation along p passes through. *)

(* on an acyclic heap, SetTF on every well-formed path succeeds whatever is in the way, and GetTF of the same path then yields
   the stored value (the identical container when the value is one) *)
Theorem C11_set_read_back : forall p h v x, acyclic h -> heap_wf h -> ref_ok h v -> ref_ok h x -> p <> [] ->
  forallb ok_seg p = true -> starts_ok v p ->
  let '(h', panicked) := set_tf (S (length (render_path p))) h v (render_path p) x in
  panicked = false /\ heap_wf h' /\ get_tf (S (length (render_path p))) h' v (render_path p) = Ok x.
Proof. exact tf_set_ok_acyclic. Qed.
(* precisely: it suffices that the navigation does not pass twice through the same container *)
Theorem C11_set_read_back_no_revisit : forall p h v x, heap_wf h -> ref_ok h v -> ref_ok h x -> p <> [] ->
  forallb ok_seg p = true -> starts_ok v p -> NoDup (visited h v p) ->
  let '(h', panicked) := set_tf (S (length (render_path p))) h v (render_path p) x in
  panicked = false /\ heap_wf h' /\ get_tf (S (length (render_path p))) h' v (render_path p) = Ok x.
Proof. exact tf_set_ok. Qed.
(* SetTF never panics on a well-formed path and keeps every existing reference valid *)
Theorem C11_set_never_panics : forall p h v x, heap_wf h -> ref_ok h v -> ref_ok h x -> p <> [] -> forallb ok_seg p = true -> starts_ok v p ->
  let '(h', panicked) := set_tf (S (length (render_path p))) h v (render_path p) x in
  panicked = false /\ heap_wf h' /\ (length h <= length h')%nat /\ forall y, ref_ok h y -> ref_ok h' y.
Proof. exact tf_set_safe. Qed.
(* frame: SetTF only appends new containers and rewrites containers the navigation visits; every other container is unchanged,
   and every container keeps its kind (existing intermediates of the right kind are reused, not copied) *)
Theorem C11_set_frame : forall p h v x, heap_wf h -> ref_ok h v -> ref_ok h x -> p <> [] -> forallb ok_seg p = true -> starts_ok v p ->
  let h' := fst (set_tf (S (length (render_path p))) h v (render_path p) x) in
  (length h <= length h')%nat /\ same_kinds h h' /\
  forall id, (id < length h)%nat -> ~ In id (visited h v p) -> nth_error h' id = nth_error h id.
Proof. exact tf_set_frame. Qed.

(* inside the containers the navigation visits only the addressed slot changes (lists: padding adds nil beyond the old length) *)
Theorem C11_set_slot_frame : forall p h v x,
  heap_wf h -> ref_ok h v -> ref_ok h x -> p <> [] -> forallb ok_seg p = true -> starts_ok v p -> NoDup (visited h v p) ->
  let h' := fst (set_tf (S (length (render_path p))) h v (render_path p) x) in
  forall q s t c, p = q ++ s :: t -> nav h v q = Ok c ->
    match c, s with
    | HO id, Key k => forall kvs, get_obj h id = Some kvs ->
        exists kvs', get_obj h' id = Some kvs' /\ forall k', k' <> k -> alookup k' kvs' = alookup k' kvs
    | HL id, Idx n => forall l, get_list h id = Some l ->
        exists l', get_list h' id = Some l' /\
          (forall j, j <> n -> (j < length l)%nat -> nth_error l' j = nth_error l j) /\
          (forall j, (length l <= j)%nat -> j <> n -> (j < length l')%nat -> nth_error l' j = Some HNil)
    | _, _ => True
    end.
Proof. exact tf_set_slot_frame. Qed.
(* every other path whose navigation never reads an addressed slot still resolves to the same value *)
Theorem C11_set_other_paths : forall p h v x,
  heap_wf h -> ref_ok h v -> ref_ok h x -> p <> [] -> forallb ok_seg p = true -> starts_ok v p -> NoDup (visited h v p) ->
  let h' := fst (set_tf (S (length (render_path p))) h v (render_path p) x) in
  forall p2 v2 y, nav h v2 p2 = Ok y ->
    (forall id s s2, In (id, s) (slots h v p) -> In (id, s2) (slots h v2 p2) -> s2 <> s) ->
    nav h' v2 p2 = Ok y.
Proof. exact tf_set_other_paths. Qed.

(* UnsetTF on a resolvable path removes exactly the addressed field / element (later elements shift down) ... *)
Theorem C11_unset : forall q s h v y, forallb ok_seg (q ++ [s]) = true -> nav h v (q ++ [s]) = Ok y ->
  exists c, nav h v q = Ok c /\
    match s, c with
    | Key k, HO id => exists kvs, get_obj h id = Some kvs /\ alookup k kvs = Some y /\
         unset_tf (S (length (render_path (q ++ [s])))) h v (render_path (q ++ [s])) = (set_obj h id (aremove k kvs), false)
    | Idx n, HL id => exists l, get_list h id = Some l /\ nth_error l n = Some y /\
         unset_tf (S (length (render_path (q ++ [s])))) h v (render_path (q ++ [s])) = (set_list h id (remove_nth n l), false)
    | _, _ => False
    end.
Proof. exact tf_unset_ok. Qed.
(* ... and changes no other container; when the navigation fails it changes nothing at all *)
Theorem C11_unset_frame : forall q s h v, forallb ok_seg (q ++ [s]) = true ->
  forall j, (forall c, nav h v q = Ok c -> j <> cid c) ->
  nth_error (fst (unset_tf (S (length (render_path (q ++ [s])))) h v (render_path (q ++ [s])))) j = nth_error h j.
Proof. exact tf_unset_frame. Qed.
Theorem C11_unset_absent_key : forall q k h v id kvs, forallb ok_seg (q ++ [Key k]) = true ->
  nav h v q = Ok (HO id) -> get_obj h id = Some kvs -> alookup k kvs = None ->
  unset_tf (S (length (render_path (q ++ [Key k])))) h v (render_path (q ++ [Key k])) = (h, false).
Proof. exact tf_unset_absent. Qed.
Theorem C11_unset_index_out_of_range : forall q n h v id l, forallb ok_seg (q ++ [Idx n]) = true ->
  nav h v q = Ok (HL id) -> get_list h id = Some l -> (length l <= n)%nat ->
  unset_tf (S (length (render_path (q ++ [Idx n])))) h v (render_path (q ++ [Idx n])) = (h, true).
Proof. exact tf_unset_oob. Qed.

Example C11_nonvacuous :
  (* {"a": 1}.SetTF(".a#2.b", true): the int is replaced by a list padded with nil, holding a new object *)
  let h := [CObj [(B"a", HInt 1)]] in
  let '(h', p) := set_tf 20 h (HO 0) (B".a#2.b") (HBool true) in
  p = false /\ get_tf 20 h' (HO 0) (B".a#2.b") = Ok (HBool true) /\ get_tf 20 h' (HO 0) (B".a#0") = Ok HNil /\
  typeof_tf 20 h' (HO 0) (B".a#1") = KNil /\ typeof_tf 20 h' (HO 0) (B".a#3") = KUndefined.
Proof. vm_compute. repeat split; reflexivity. Qed.
(* regression: the pre-fix '#' branch of Object.SetTF (KeyExists then GetList) panics where the model replaces *)
Example C11_prefix_would_panic :
  let h := [CObj [(B"a", HInt 1)]] in
  match alookup (B"a") [(B"a", HInt 1)] with Some (HL _) => False | Some _ => snd (set_tf 20 h (HO 0) (B".a#0") (HInt 5)) = false | None => False end.
Proof. vm_compute. reflexivity. Qed.


(* footprint, for ARBITRARY path strings (well-formed or not), any fuel and whether or not the call panics half-way:
   SetTF only appends cells and rewrites cells reachable from the receiver; UnsetTF allocates nothing and likewise *)
Theorem C11_set_footprint : forall fuel h v tf x h' p, set_tf fuel h v tf x = (h', p) ->
  (length h <= length h')%nat /\
  forall id, (id < length h)%nat -> ~ CloneProofs.Reach h v id -> nth_error h' id = nth_error h id.
Proof. exact set_tf_footprint. Qed.
Theorem C11_unset_footprint : forall fuel h v tf h' p, unset_tf fuel h v tf = (h', p) ->
  length h' = length h /\ forall id, ~ CloneProofs.Reach h v id -> nth_error h' id = nth_error h id.
Proof. exact unset_tf_footprint. Qed.
(* hence a tree that shares no container with the receiver reads the same after any SetTF / UnsetTF step of a program *)
Theorem C11_tf_mutator_independent : forall s o r vr w f, tf_mutator o = Some r -> nth_error (st_env s) r = Some vr ->
  (forall id, CloneProofs.Reach (st_heap s) w id -> ~ CloneProofs.Reach (st_heap s) vr id) ->
  (forall id, CloneProofs.Reach (st_heap s) w id -> (id < length (st_heap s))%nat) ->
  reify f (st_heap (fst (step_core s o))) w = reify f (st_heap s) w.
Proof. exact tf_mutator_independent. Qed.

Print Assumptions C11_set_read_back.
Print Assumptions C11_set_read_back_no_revisit.
Print Assumptions C11_set_never_panics.
Print Assumptions C11_set_frame.
Print Assumptions C11_set_slot_frame.
Print Assumptions C11_set_other_paths.
Print Assumptions C11_unset.
Print Assumptions C11_unset_frame.
Print Assumptions C11_unset_absent_key.
Print Assumptions C11_unset_index_out_of_range.
Print Assumptions C11_set_footprint.
Print Assumptions C11_unset_footprint.
Print Assumptions C11_tf_mutator_independent.
