(* Reachable.v — the well-formedness invariant of the reference heap holds in EVERY state a program can reach.
   Several theorems (CloneProofs.source_old / clone_disjoint, CloneHistory.clone_history_independent, the SetTF theorems of
   TreeFormProofs.v) take [heap_wf h] and [ref_ok h v] as hypotheses.  Here: [state_wf] (the heap is well formed and every
   variable points at an existing cell of the right kind) holds initially and is preserved by every operation of Heap.v
   and of HeapExt.v, hence holds after every program; the hypotheses of those theorems are discharged for reachable states.

   [ref_ok] / [heap_wf] below are CloneProofs.ref_ok / CloneProofs.heap_wf.  TreeFormProofs.v has its own copies with
   literally the same bodies; [ref_ok_same] / [heap_wf_same] state that they coincide (by conversion), so the lemmas of
   both families are used.

   One caveat, which makes the unconditional statement FALSE: an operand [Lit v] evaluates to v whatever v is
   ([eval_operand env (Lit v) = Some v]), so a program text may contain the literal [HL 7] without cell 7 existing
   ([lit_injection_breaks_wf] below).  The theorems therefore ask that every literal operand of the operation is a scalar
   ([op_ok] / [xop_ok], decidable: [op_okb] / [xop_okb]); internally the weaker, state-dependent condition "every literal
   container points at an existing cell of its kind" ([op_okh]) is what is used. *)
From Anytype Require Import Base FloatBits Value GoInt Sorting Equality Heap Aggregates HeapExt HeapProofs TreeFormProofs
  CloneProofs CloneHistory Footprint HeapExtProofs.
Local Open Scope nat_scope.
Arguments clone_val : simpl never.  Arguments reify : simpl never.
Arguments get_tf : simpl never.  Arguments typeof_tf : simpl never.
Arguments set_tf : simpl never.  Arguments unset_tf : simpl never.

Notation ref_ok := CloneProofs.ref_ok.
Notation heap_wf := CloneProofs.heap_wf.

Lemma ref_ok_same : CloneProofs.ref_ok = TreeFormProofs.ref_ok.
Proof. reflexivity. Qed.
Lemma heap_wf_same h : CloneProofs.heap_wf h <-> TreeFormProofs.heap_wf h.
Proof. split; intros H; exact H. Qed.

(* ================= the invariant ================= *)
Definition state_wf (s : state) : Prop := heap_wf (st_heap s) /\ Forall (ref_ok (st_heap s)) (st_env s).

Lemma init_wf : state_wf init_state.
Proof. split; cbn [init_state st_heap st_env]; [|constructor]. intros id. destruct id; exact I. Qed.

(* ================= heaps that grow: cells are appended or overwritten by a cell of the same kind ================= *)
Definition all_ok (h : heap) (l : list hval) : Prop := forall z, In z l -> ref_ok h z.

Lemma rok_mono h h' v : same_kinds h h' -> ref_ok h v -> ref_ok h' v.
Proof. exact (TreeFormProofs.ref_ok_mono h h' v). Qed.
Lemma all_ok_mono h h' l : same_kinds h h' -> all_ok h l -> all_ok h' l.
Proof. intros S A z Hz. exact (rok_mono _ _ _ S (A z Hz)). Qed.
Lemma all_ok_nil h : all_ok h [].
Proof. intros z []. Qed.
Lemma all_ok_app h l1 l2 : all_ok h l1 -> all_ok h l2 -> all_ok h (l1 ++ l2).
Proof. intros A B z Hz. apply in_app_or in Hz as [Hz|Hz]; [exact (A z Hz) | exact (B z Hz)]. Qed.
Lemma all_ok_sub h l l' : (forall z, In z l' -> In z l) -> all_ok h l -> all_ok h l'.
Proof. intros S A z Hz. exact (A z (S z Hz)). Qed.
Lemma all_ok_Forall h l : Forall (ref_ok h) l <-> all_ok h l.
Proof. apply Forall_forall. Qed.

Lemma wf_members h id c : heap_wf h -> nth_error h id = Some c -> all_ok h (members c).
Proof. intros W E z Hz. exact (TreeFormProofs.wf_member h id c z W E Hz). Qed.
Lemma wf_list h id l : heap_wf h -> get_list h id = Some l -> all_ok h l.
Proof. intros W G. apply get_list_nth in G. exact (wf_members h id _ W G). Qed.
Lemma wf_obj h id kvs : heap_wf h -> get_obj h id = Some kvs -> all_ok h (map snd kvs).
Proof. intros W G. apply get_obj_nth in G. exact (wf_members h id _ W G). Qed.

Lemma same_kinds_ext h e : same_kinds h (h ++ e).
Proof. intros id c E. exists c. split; [|apply same_kind_refl]. rewrite nth_error_app1; [exact E|].
  apply nth_error_Some. congruence. Qed.

Definition grows (h h' : heap) : Prop := heap_wf h' /\ same_kinds h h'.

Lemma grows_refl h : heap_wf h -> grows h h.
Proof. intros W. split; [exact W | apply same_kinds_refl]. Qed.
Lemma grows_trans a b c : grows a b -> grows b c -> grows a c.
Proof. intros [_ S1] [W2 S2]. split; [exact W2 | exact (same_kinds_trans _ _ _ S1 S2)]. Qed.
Lemma grows_alloc h c : heap_wf h -> all_ok h (members c) -> grows h (h ++ [c]).
Proof. intros W M. split; [exact (TreeFormProofs.heap_wf_app h c W M) | apply same_kinds_app]. Qed.
Lemma grows_upd h id c c' : heap_wf h -> nth_error h id = Some c -> same_kind c c' -> all_ok h (members c') -> grows h (upd h id c').
Proof. intros W E K M. split; [exact (TreeFormProofs.heap_wf_upd h id c c' W E K M) | exact (same_kinds_upd h id c c' E K)]. Qed.
Lemma grows_set_list h id l l' : heap_wf h -> get_list h id = Some l -> all_ok h l' -> grows h (upd h id (CList l')).
Proof. intros W G M. apply get_list_nth in G. exact (grows_upd h id (CList l) (CList l') W G I M). Qed.
Lemma grows_set_obj h id kvs kvs' : heap_wf h -> get_obj h id = Some kvs -> all_ok h (map snd kvs') -> grows h (upd h id (CObj kvs')).
Proof. intros W G M. apply get_obj_nth in G. exact (grows_upd h id (CObj kvs) (CObj kvs') W G I M). Qed.

(* continue after a growth step with a value that was fine before it *)
Lemma grows_then h mid h' x : grows h mid -> ref_ok h x -> (heap_wf mid -> ref_ok mid x -> grows mid h') -> grows h h'.
Proof. intros [W1 S1] OX K. apply (grows_trans h mid h'); [split; assumption|].
  apply K; [exact W1 | exact (rok_mono _ _ _ S1 OX)]. Qed.

Lemma new_list_ok h l : ref_ok (h ++ [CList l]) (HL (length h)).
Proof. exists l. apply get_list_new. Qed.
Lemma new_obj_ok h kvs : ref_ok (h ++ [CObj kvs]) (HO (length h)).
Proof. exists kvs. apply get_obj_new. Qed.

(* SetTF's "allocate an empty container c0, link it (as y) into the current container, go on inside it" *)
Lemma link_list h id l l' c0 y : heap_wf h -> get_list h id = Some l -> members c0 = [] -> ref_ok (h ++ [c0]) y ->
  (forall z, In z l' -> In z l \/ z = HNil \/ z = y) -> grows h (upd (h ++ [c0]) id (CList l')).
Proof. intros W G M0 OY S.
  assert (G1: grows h (h ++ [c0])) by (apply grows_alloc; [exact W | rewrite M0; apply all_ok_nil]).
  apply (grows_trans h (h ++ [c0])); [exact G1|]. destruct G1 as [W1 S1].
  apply (grows_set_list (h ++ [c0]) id l); [exact W1 | apply get_list_app; exact G|].
  intros z Hz. destruct (S z Hz) as [H | [-> | ->]]; [|exact I | exact OY].
  apply CloneProofs.ref_ok_app. exact (wf_list h id l W G z H). Qed.
Lemma link_obj h id kvs kvs' c0 y : heap_wf h -> get_obj h id = Some kvs -> members c0 = [] -> ref_ok (h ++ [c0]) y ->
  (forall z, In z (map snd kvs') -> In z (map snd kvs) \/ z = y) -> grows h (upd (h ++ [c0]) id (CObj kvs')).
Proof. intros W G M0 OY S.
  assert (G1: grows h (h ++ [c0])) by (apply grows_alloc; [exact W | rewrite M0; apply all_ok_nil]).
  apply (grows_trans h (h ++ [c0])); [exact G1|]. destruct G1 as [W1 S1].
  apply (grows_set_obj (h ++ [c0]) id kvs); [exact W1 | apply get_obj_app; exact G|].
  intros z Hz. destruct (S z Hz) as [H | ->]; [|exact OY].
  apply CloneProofs.ref_ok_app. exact (wf_obj h id kvs W G z H). Qed.

(* ================= what the sequence-level operations can put into a cell ================= *)
Lemma In_firstn {A} (l : list A) n z : In z (firstn n l) -> In z l.
Proof. intros H. rewrite <- (firstn_skipn n l). apply in_or_app. left. exact H. Qed.
Lemma In_skipn {A} (l : list A) n z : In z (skipn n l) -> In z l.
Proof. intros H. rewrite <- (firstn_skipn n l). apply in_or_app. right. exact H. Qed.

Lemma l_insert_In l i x l' z : l_insert l i x = Ok l' -> In z l' -> In z l \/ z = x.
Proof. unfold l_insert. destruct (_ || _); [discriminate|]. intros E. injection E as <-. intros H.
  apply in_app_or in H as [H|[H|H]]; [left; exact (In_firstn _ _ _ H) | right; congruence | left; exact (In_skipn _ _ _ H)]. Qed.
Lemma l_replace_In l i x l' z : l_replace l i x = Ok l' -> In z l' -> In z l \/ z = x.
Proof. unfold l_replace. destruct (in_range i (length l)); [|discriminate]. intros E. injection E as <-. apply In_upd. Qed.
Lemma remove_nth_In {A} (l : list A) n z : In z (remove_nth n l) -> In z l.
Proof. unfold remove_nth. intros H. apply in_app_or in H as [H|H]; [exact (In_firstn _ _ _ H) | exact (In_skipn _ _ _ H)]. Qed.
Lemma delete_desc_In z : forall idxs l, In z (fst (delete_desc l idxs)) -> In z l.
Proof. induction idxs as [|i t IH]; intros l H; cbn [delete_desc] in H; [exact H|].
  destruct (in_range i (length l)); [exact (remove_nth_In _ _ _ (IH _ H)) | exact H]. Qed.
Lemma l_delete_In l idxs z : In z (fst (l_delete l idxs)) -> In z l.
Proof. unfold l_delete. apply delete_desc_In. Qed.
Lemma l_sublist_In l s e l' z : l_sublist l s e = Ok l' -> In z l' -> In z l.
Proof. unfold l_sublist. cbv zeta.
  repeat match goal with |- (if ?c then Panic else _) = _ -> _ => destruct c; [discriminate|] end.
  intros E. injection E as <-. intros H. exact (In_skipn _ _ _ (In_firstn _ _ _ H)). Qed.
Lemma swap_In {A} (l : list A) i j z : In z (swap l i j) -> In z l.
Proof. unfold swap. destruct (nth_error l i) as [a|] eqn:Ea; [|auto]. destruct (nth_error l j) as [b|] eqn:Eb; [|auto].
  intros H. apply In_upd in H as [H | ->]; [|exact (nth_error_In _ _ Ea)].
  apply In_upd in H as [H | ->]; [exact H | exact (nth_error_In _ _ Eb)]. Qed.
Lemma rev_loop_In {A} n z : forall k (l : list A), In z (rev_loop n k l) -> In z l.
Proof. induction k as [|k IH]; intros l H; cbn [rev_loop] in H; [exact H | exact (swap_In _ _ _ _ (IH _ H))]. Qed.
Lemma reverse_model_In {A} (l : list A) z : In z (reverse_model l) -> In z l.
Proof. unfold reverse_model. apply rev_loop_In. Qed.
Lemma l_sort_ok h l l' : l_sort l = Ok l' -> all_ok h l'.
Proof. unfold l_sort. destruct (sort_model (map val_of_hscalar l)) as [s|]; [|discriminate]. intros E. injection E as <-.
  intros z Hz. apply in_map_iff in Hz as [v [<- _]]. destruct v; exact I. Qed.

Lemma aremove_In_snd k (kvs : list (bytes * hval)) z : In z (map snd (aremove k kvs)) -> In z (map snd kvs).
Proof. induction kvs as [|[k' v'] t IH]; cbn [aremove map In snd]; [auto|].
  destruct (bytes_eqb k k'); cbn [map In snd]; [intros H; right; exact (IH H)|].
  intros [E|H]; [left; exact E | right; exact (IH H)]. Qed.
Lemma o_unset_In z : forall keys kvs, In z (map snd (o_unset kvs keys)) -> In z (map snd kvs).
Proof. unfold o_unset. induction keys as [|k t IH]; intros kvs H; cbn [fold_left] in H; [exact H|].
  exact (aremove_In_snd _ _ _ (IH _ H)). Qed.
Lemma aset_ok h k y kvs : all_ok h (map snd kvs) -> ref_ok h y -> all_ok h (map snd (aset k y kvs)).
Proof. intros A OY z Hz. apply In_aset_snd in Hz as [Hz | ->]; [exact (A z Hz) | exact OY]. Qed.
Lemma o_set_pairs_ok h : forall n args, length args <= n -> forall kvs, all_ok h args -> all_ok h (map snd kvs) ->
  all_ok h (map snd (fst (o_set_pairs kvs args))).
Proof. induction n as [|n IH]; intros args L kvs A K.
  - destruct args; [exact K | cbn [length] in L; lia].
  - destruct args as [|a [|v t]]; [exact K | destruct a; exact K |].
    destruct a; try exact K. cbn [o_set_pairs]. apply IH.
    + cbn [length] in L. lia.
    + intros z Hz. apply A. right. right. exact Hz.
    + apply aset_ok; [exact K | apply A; right; left; reflexivity]. Qed.
Lemma o_set_ok h kvs args : all_ok h args -> all_ok h (map snd kvs) -> all_ok h (map snd (fst (o_set kvs args))).
Proof. intros A K. unfold o_set. destruct (Nat.odd (length args)); [exact K|]. exact (o_set_pairs_ok h _ args (le_n _) kvs A K). Qed.
Lemma merge_ok h : forall (kvs2 kvs1 : list (bytes * hval)), all_ok h (map snd kvs2) -> all_ok h (map snd kvs1) ->
  all_ok h (map snd (fold_left (fun acc kv => aset (fst kv) (snd kv) acc) kvs2 kvs1)).
Proof. induction kvs2 as [|[k x] t IH]; intros kvs1 A K; cbn [fold_left]; [exact K|]. apply IH.
  - intros z Hz. apply A. right. exact Hz.
  - cbn [fst snd]. apply aset_ok; [exact K | apply A; left; reflexivity]. Qed.
Lemma pluck_ok h (kvs : list (bytes * hval)) : all_ok h (map snd kvs) -> forall keys acc res,
  (forall r0, acc = Some r0 -> all_ok h (map snd r0)) ->
  fold_left (fun acc k => match acc with
                          | None => None
                          | Some res => match alookup k kvs with Some v => Some (aset k v res) | None => None end
                          end) keys acc = Some res -> all_ok h (map snd res).
Proof. intros K. induction keys as [|k t IH]; intros acc res HA E; cbn [fold_left] in E; [exact (HA _ E)|].
  refine (IH _ _ _ E). intros r0 E0. destruct acc as [r1|]; [|discriminate].
  destruct (alookup k kvs) as [v|] eqn:AL; [|discriminate]. injection E0 as <-.
  apply aset_ok; [exact (HA _ eq_refl)|]. apply K. apply in_map_iff. exists (k, v). split; [reflexivity | exact (alookup_In _ _ _ AL)]. Qed.
Lemma in_order_In (kvs : list (bytes * hval)) order okvs z : in_order kvs order = Some okvs -> In z (map snd okvs) -> In z (map snd kvs).
Proof. unfold in_order. destruct (is_key_perm order (akeys kvs)); [|discriminate]. intros E. injection E as <-. intros H.
  apply in_map_iff in H as [[k' z'] [E1 H]]. cbn [snd] in E1. subst z'. apply in_flat_map in H as [k [_ H]].
  destruct (alookup k kvs) as [v|] eqn:AL; [|destruct H]. destruct H as [E|[]]. injection E as <- <-.
  apply in_map_iff. exists (k, v). split; [reflexivity | exact (alookup_In _ _ _ AL)]. Qed.

(* ================= the tree-form operations, for ARBITRARY path strings ================= *)
Lemma get_tf_ok : forall fuel h v tf x, heap_wf h -> get_tf fuel h v tf = Ok x -> ref_ok h x.
Proof. induction fuel as [|f IH]; intros h v tf x W E.
  { assert (Z0: get_tf 0 h v tf = Panic) by reflexivity. rewrite Z0 in E. discriminate. }
  rewrite get_tf_S in E. destruct v as [| | | | |id|id]; try discriminate.
  - destruct (get_list h id) as [l|] eqn:G; [|discriminate]. pose proof (wf_list _ _ _ W G) as OL.
    destruct (valid_head x23 tf) as [rest|]; [|discriminate].
    destruct (split_tf rest) as [d|d|].
    + destruct (pint0 (firstn d rest)) as [i|]; [|discriminate].
      destruct (l_get l i) as [[| | | | |o|o]|]; try discriminate. exact (IH _ _ _ _ W E).
    + destruct (pint0 (firstn d rest)) as [i|]; [|discriminate].
      destruct (l_get l i) as [[| | | | |o|o]|]; try discriminate. exact (IH _ _ _ _ W E).
    + destruct (pint0 rest) as [i|]; [|discriminate]. exact (OL _ (l_get_In _ _ _ E)).
  - destruct (get_obj h id) as [kvs|] eqn:G; [|discriminate]. pose proof (wf_obj _ _ _ W G) as OL.
    destruct (valid_head x2e tf) as [rest|]; [|discriminate].
    destruct (split_tf rest) as [d|d|].
    + destruct (o_get kvs (firstn d rest)) as [[| | | | |o|o]|]; try discriminate. exact (IH _ _ _ _ W E).
    + destruct (o_get kvs (firstn d rest)) as [[| | | | |o|o]|]; try discriminate. exact (IH _ _ _ _ W E).
    + exact (OL _ (o_get_In _ _ _ E)). Qed.

Ltac tf_same E W := injection E as <- <-; apply grows_refl; exact W.
(* E : set_tf f mid cv rest x = (h', p) *)
Ltac tf_rec IH E OX :=
  match type of E with
  | set_tf _ ?mid _ _ _ = _ =>
      apply (fun G K => grows_then _ mid _ _ G OX K); [| let W1 := fresh "W1" in let O1 := fresh "O1" in
                                                         intros W1 O1; exact (IH _ _ _ _ _ _ W1 O1 E)]
  end.

(* the preservation lemma asked for: [grows h h'] is [heap_wf h' /\ same_kinds h h'], and [same_kinds] keeps every ref_ok *)
Lemma set_tf_grows : forall fuel h v tf x h' p, heap_wf h -> ref_ok h x -> set_tf fuel h v tf x = (h', p) -> grows h h'.
Proof. induction fuel as [|f IH]; intros h v tf x h' p W OX E; [rewrite set_tf_0 in E; tf_same E W|].
  rewrite set_tf_S in E. unfold alloc, set_list, set_obj in E. cbv beta iota zeta in E.
  destruct v as [| | | | |id|id]; try (tf_same E W).
  - destruct (get_list h id) as [l|] eqn:G; [|tf_same E W]. pose proof (wf_list _ _ _ W G) as OL.
    destruct (valid_head x23 tf) as [rest|]; [|tf_same E W].
    destruct (split_tf rest) as [d|d|].
    + destruct (pint0 (firstn d rest)) as [i|]; [|tf_same E W].
      destruct (Z.of_nat (length l) <=? i)%Z.
      { tf_rec IH E OX. apply (link_list h id l _ (CObj []) (HO (length h)) W G eq_refl (new_obj_ok h [])).
        intros z Hz. exact (In_pad_add _ _ _ _ Hz). }
      destruct (l_typeof l i); destruct (l_get l i) as [[| | | | |o|o]|] eqn:LG;
        try (match type of E with context [l_replace ?a ?b ?c] => destruct (l_replace a b c) as [l'|] eqn:LR end;
             [ tf_rec IH E OX; apply (link_list h id l _ (CObj []) (HO (length h)) W G eq_refl (new_obj_ok h []));
               intros w0 Hw0; destruct (l_replace_In _ _ _ _ _ LR Hw0) as [Hz1|Hz1]; [left; exact Hz1 | right; right; exact Hz1]
             | injection E as <- <-; apply grows_alloc; [exact W | apply all_ok_nil] ]).
      exact (IH _ _ _ _ _ _ W OX E).
    + destruct (pint0 (firstn d rest)) as [i|]; [|tf_same E W].
      destruct (Z.of_nat (length l) <=? i)%Z.
      { tf_rec IH E OX. apply (link_list h id l _ (CList []) (HL (length h)) W G eq_refl (new_list_ok h [])).
        intros z Hz. exact (In_pad_add _ _ _ _ Hz). }
      destruct (l_typeof l i); destruct (l_get l i) as [[| | | | |o|o]|] eqn:LG;
        try (match type of E with context [l_replace ?a ?b ?c] => destruct (l_replace a b c) as [l'|] eqn:LR end;
             [ tf_rec IH E OX; apply (link_list h id l _ (CList []) (HL (length h)) W G eq_refl (new_list_ok h []));
               intros w0 Hw0; destruct (l_replace_In _ _ _ _ _ LR Hw0) as [Hz1|Hz1]; [left; exact Hz1 | right; right; exact Hz1]
             | injection E as <- <-; apply grows_alloc; [exact W | apply all_ok_nil] ]).
      exact (IH _ _ _ _ _ _ W OX E).
    + destruct (pint0 rest) as [i|]; [|tf_same E W].
      destruct (Z.of_nat (length l) <=? i)%Z.
      { injection E as <- <-. apply (grows_set_list h id l _ W G). intros z Hz.
        destruct (In_pad_add _ _ _ _ Hz) as [H | [-> | ->]]; [exact (OL z H) | exact I | exact OX]. }
      destruct (l_replace l i x) as [l'|] eqn:LR; [|tf_same E W].
      injection E as <- <-. apply (grows_set_list h id l _ W G). intros z Hz.
      destruct (l_replace_In _ _ _ _ _ LR Hz) as [H | ->]; [exact (OL z H) | exact OX].
  - destruct (get_obj h id) as [kvs|] eqn:G; [|tf_same E W]. pose proof (wf_obj _ _ _ W G) as OL.
    destruct (valid_head x2e tf) as [rest|]; [|tf_same E W].
    destruct (split_tf rest) as [d|d|].
    + destruct (alookup (firstn d rest) kvs) as [[| | | | |o|o]|] eqn:AL;
        try (tf_rec IH E OX; apply (link_obj h id kvs _ (CObj []) (HO (length h)) W G eq_refl (new_obj_ok h []));
             intros w0 Hw0; exact (In_aset_snd _ _ _ _ Hw0)).
      exact (IH _ _ _ _ _ _ W OX E).
    + destruct (alookup (firstn d rest) kvs) as [[| | | | |o|o]|] eqn:AL;
        try (tf_rec IH E OX; apply (link_obj h id kvs _ (CList []) (HL (length h)) W G eq_refl (new_list_ok h []));
             intros w0 Hw0; exact (In_aset_snd _ _ _ _ Hw0)).
      exact (IH _ _ _ _ _ _ W OX E).
    + injection E as <- <-. apply (grows_set_obj h id kvs _ W G). apply aset_ok; [exact OL | exact OX]. Qed.

Lemma set_tf_wf : forall fuel h v tf x h' p, heap_wf h -> ref_ok h v -> ref_ok h x -> set_tf fuel h v tf x = (h', p) ->
  heap_wf h' /\ (forall w, ref_ok h w -> ref_ok h' w).
Proof. intros fuel h v tf x h' p W _ OX E. destruct (set_tf_grows _ _ _ _ _ _ _ W OX E) as [W' S].
  split; [exact W' | intros w; exact (rok_mono _ _ _ S)]. Qed.

Lemma unset_tf_grows : forall fuel h v tf h' p, heap_wf h -> unset_tf fuel h v tf = (h', p) -> grows h h'.
Proof. induction fuel as [|f IH]; intros h v tf h' p W E; [rewrite unset_tf_0 in E; tf_same E W|].
  rewrite unset_tf_S in E. unfold set_list, set_obj in E.
  destruct v as [| | | | |id|id]; try (tf_same E W).
  - destruct (get_list h id) as [l|] eqn:G; [|tf_same E W]. pose proof (wf_list _ _ _ W G) as OL.
    destruct (valid_head x23 tf) as [rest|]; [|tf_same E W].
    destruct (split_tf rest) as [d|d|].
    + destruct (pint0 (firstn d rest)) as [i|]; [|tf_same E W].
      destruct (l_get l i) as [[| | | | |o|o]|]; try (tf_same E W). exact (IH _ _ _ _ _ W E).
    + destruct (pint0 (firstn d rest)) as [i|]; [|tf_same E W].
      destruct (l_get l i) as [[| | | | |o|o]|]; try (tf_same E W). exact (IH _ _ _ _ _ W E).
    + destruct (pint0 rest) as [i|]; [|tf_same E W].
      destruct (l_delete l [i]) as [l' p'] eqn:LD. injection E as <- <-. apply (grows_set_list h id l _ W G).
      intros z Hz. apply OL. apply (l_delete_In l [i]). rewrite LD. exact Hz.
  - destruct (get_obj h id) as [kvs|] eqn:G; [|tf_same E W]. pose proof (wf_obj _ _ _ W G) as OL.
    destruct (valid_head x2e tf) as [rest|]; [|tf_same E W].
    destruct (split_tf rest) as [d|d|].
    + destruct (o_get kvs (firstn d rest)) as [[| | | | |o|o]|]; try (tf_same E W). exact (IH _ _ _ _ _ W E).
    + destruct (o_get kvs (firstn d rest)) as [[| | | | |o|o]|]; try (tf_same E W). exact (IH _ _ _ _ _ W E).
    + injection E as <- <-. apply (grows_set_obj h id kvs _ W G). intros z Hz. exact (OL z (aremove_In_snd _ _ _ Hz)). Qed.

Lemma unset_tf_wf : forall fuel h v tf h' p, heap_wf h -> unset_tf fuel h v tf = (h', p) ->
  heap_wf h' /\ (forall w, ref_ok h w -> ref_ok h' w).
Proof. intros fuel h v tf h' p W E. destruct (unset_tf_grows _ _ _ _ _ _ W E) as [W' S].
  split; [exact W' | intros w; exact (rok_mono _ _ _ S)]. Qed.

Lemma clone_grows f h v h' v' : heap_wf h -> ref_ok h v -> clone_val f h v = Some (h', v') -> grows h h' /\ ref_ok h' v'.
Proof. intros W OK C. destruct (clone_wf _ _ _ _ _ W OK C) as [W1 O1]. destruct (clone_val_extends _ _ _ _ _ C) as [e ->].
  split; [split; [exact W1 | apply same_kinds_ext] | exact O1]. Qed.

(* which literals an operation may mention: [scalar], [operand_ok(b)], [op_operands], [xop_operands], [op_ok(b)], [xop_ok(b)] are defined in
   HeapExt.v (the model), so that the correspondence runner can evaluate [xop_okb] without depending on this proof file *)

Lemma scalarb_spec v : scalarb v = true <-> scalar v.
Proof. destruct v; cbn [scalarb scalar]; split; intros H; try exact I; try reflexivity; try discriminate; destruct H. Qed.
Lemma operand_okb_spec o : operand_okb o = true <-> operand_ok o.
Proof. destruct o as [v|n]; cbn [operand_okb operand_ok]; [apply scalarb_spec | split; intros _; [exact I | reflexivity]]. Qed.
Lemma forallb_operands l : forallb operand_okb l = true <-> Forall operand_ok l.
Proof. rewrite forallb_forall, Forall_forall. split; intros H x Hx; apply operand_okb_spec; exact (H x Hx). Qed.
Lemma op_okb_spec o : op_okb o = true <-> op_ok o.
Proof. apply forallb_operands. Qed.
Lemma xop_okb_spec o : xop_okb o = true <-> xop_ok o.
Proof. apply forallb_operands. Qed.
Lemma ops_okb_spec prog : forallb op_okb prog = true <-> Forall op_ok prog.
Proof. rewrite forallb_forall, Forall_forall. split; intros H x Hx; apply op_okb_spec; exact (H x Hx). Qed.
Lemma xops_okb_spec prog : forallb xop_okb prog = true <-> Forall xop_ok prog.
Proof. rewrite forallb_forall, Forall_forall. split; intros H x Hx; apply xop_okb_spec; exact (H x Hx). Qed.
Lemma xop_ok_base b : xop_ok (Base b) <-> op_ok b.
Proof. reflexivity. Qed.

(* the weaker condition the proofs use: a literal container must point at an existing cell of its kind in the current heap *)
Definition operand_okh (h : heap) (o : operand) : Prop := match o with Lit v => ref_ok h v | Reg _ => True end.
Definition op_okh (h : heap) (o : op) : Prop := Forall (operand_okh h) (op_operands o).
Definition xop_okh (h : heap) (o : xop) : Prop := Forall (operand_okh h) (xop_operands o).

Lemma scalar_ref_ok h v : scalar v -> ref_ok h v.
Proof. destruct v; cbn [scalar]; intros H; try exact I; destruct H. Qed.
Lemma operand_ok_okh h o : operand_ok o -> operand_okh h o.
Proof. destruct o as [v|n]; cbn [operand_ok operand_okh]; [apply scalar_ref_ok | auto]. Qed.
Lemma op_ok_okh h o : op_ok o -> op_okh h o.
Proof. unfold op_ok, op_okh. apply Forall_impl. intros a. apply operand_ok_okh. Qed.
Lemma xop_ok_okh h o : xop_ok o -> xop_okh h o.
Proof. unfold xop_ok, xop_okh. apply Forall_impl. intros a. apply operand_ok_okh. Qed.
Lemma operand_okh_mono h h' o : same_kinds h h' -> operand_okh h o -> operand_okh h' o.
Proof. destruct o as [v|n]; cbn [operand_okh]; [apply rok_mono | auto]. Qed.

Lemma env_ok h env r v : Forall (ref_ok h) env -> nth_error env r = Some v -> ref_ok h v.
Proof. intros EV E. rewrite Forall_forall in EV. exact (EV _ (nth_error_In _ _ E)). Qed.
Lemma eval_operand_ok h env o v : operand_okh h o -> Forall (ref_ok h) env -> eval_operand env o = Some v -> ref_ok h v.
Proof. destruct o as [x|n]; cbn [operand_okh eval_operand]; intros OK EV E; [injection E as <-; exact OK | exact (env_ok _ _ _ _ EV E)]. Qed.
Lemma eval_operands_ok h env : forall os vs, Forall (operand_okh h) os -> Forall (ref_ok h) env -> eval_operands env os = Some vs -> all_ok h vs.
Proof. induction os as [|o t IH]; intros vs OK EV E; cbn [eval_operands] in E.
  - injection E as <-. apply all_ok_nil.
  - destruct (eval_operand env o) as [v|] eqn:Eo; [|discriminate]. destruct (eval_operands env t) as [vs'|] eqn:Et; [|discriminate].
    injection E as <-. intros z [<- | Hz].
    + exact (eval_operand_ok _ _ _ _ (Forall_inv OK) EV Eo).
    + exact (IH _ (Forall_inv_tail OK) EV eq_refl z Hz). Qed.

Lemma reg_obj_get s r id kvs : reg_obj s r = Some (id, kvs) -> get_obj (st_heap s) id = Some kvs.
Proof. unfold reg_obj. destruct (nth_error (st_env s) r) as [[]|]; try discriminate.
  destruct (get_obj (st_heap s) id0) eqn:E; [|discriminate]. intros H. injection H as <- <-. exact E. Qed.
Lemma reg_list_ok s r id l : heap_wf (st_heap s) -> reg_list s r = Some (id, l) -> all_ok (st_heap s) l.
Proof. intros W E. exact (wf_list _ _ _ W (reg_list_get _ _ _ _ E)). Qed.
Lemma reg_obj_ok s r id kvs : heap_wf (st_heap s) -> reg_obj s r = Some (id, kvs) -> all_ok (st_heap s) (map snd kvs).
Proof. intros W E. exact (wf_obj _ _ _ W (reg_obj_get _ _ _ _ E)). Qed.

(* ================= one operation of Heap.v ================= *)
Definition out_ok (h : heap) (oc : outcome) : Prop := match oc with Ret (OV v) => ref_ok h v | _ => True end.
(* the registers are untouched, the heap grows, and a returned value points into the new heap *)
Definition good (s : state) (r : state * outcome) : Prop :=
  st_env (fst r) = st_env s /\ grows (st_heap s) (st_heap (fst r)) /\ out_ok (st_heap (fst r)) (snd r).

Lemma good_same s oc : state_wf s -> out_ok (st_heap s) oc -> good s (s, oc).
Proof. intros [W _] O. split; [reflexivity|]. split; [apply grows_refl; exact W | exact O]. Qed.
Lemma good_bad s : state_wf s -> good s (bad s).
Proof. intros SW. apply good_same; [exact SW | exact I]. Qed.
Lemma good_heap s h' oc : grows (st_heap s) h' -> out_ok h' oc -> good s (with_heap s h', oc).
Proof. intros G O. split; [reflexivity|]. split; [exact G | exact O]. Qed.
Lemma good_new_list s l : heap_wf (st_heap s) -> all_ok (st_heap s) l ->
  good s (with_heap s (st_heap s ++ [CList l]), Ret (OV (HL (length (st_heap s))))).
Proof. intros W A. apply good_heap; [apply grows_alloc; [exact W | exact A] | apply new_list_ok]. Qed.
Lemma good_new_obj s kvs : heap_wf (st_heap s) -> all_ok (st_heap s) (map snd kvs) ->
  good s (with_heap s (st_heap s ++ [CObj kvs]), Ret (OV (HO (length (st_heap s))))).
Proof. intros W A. apply good_heap; [apply grows_alloc; [exact W | exact A] | apply new_obj_ok]. Qed.
Lemma good_set_list s id l l' oc : heap_wf (st_heap s) -> get_list (st_heap s) id = Some l -> all_ok (st_heap s) l' ->
  (forall h, out_ok h oc) -> good s (with_heap s (set_list (st_heap s) id l'), oc).
Proof. intros W G A O. apply good_heap; [exact (grows_set_list _ _ _ _ W G A) | apply O]. Qed.
Lemma good_set_obj s id kvs kvs' oc : heap_wf (st_heap s) -> get_obj (st_heap s) id = Some kvs -> all_ok (st_heap s) (map snd kvs') ->
  (forall h, out_ok h oc) -> good s (with_heap s (set_obj (st_heap s) id kvs'), oc).
Proof. intros W G A O. apply good_heap; [exact (grows_set_obj _ _ _ _ W G A) | apply O]. Qed.

Lemma out_ok_flag h (p : bool) : out_ok h (if p then Pan else Ret ONone).
Proof. destruct p; exact I. Qed.
Lemma untyped_ok h r : (forall v, r = Ok v -> ref_ok h v) -> out_ok h (untyped r).
Proof. intros H. destruct r as [v|]; cbn [untyped]; [apply H; reflexivity | exact I]. Qed.
Lemma typed_ok h k r : (forall v, r = Ok v -> ref_ok h v) -> out_ok h (typed k r).
Proof. intros H. destruct r as [v|]; cbn [typed]; [|exact I]. destruct (kind_eqb (hkind v) k); [apply H; reflexivity | exact I]. Qed.

Lemma good_state_wf s s1 oc : state_wf s -> good s (s1, oc) -> state_wf s1.
Proof. intros [W EV] [E [[W1 S1] _]]. cbn [fst] in *. split; [exact W1|]. rewrite E.
  eapply Forall_impl; [|exact EV]. intros a. exact (rok_mono _ _ _ S1). Qed.

(* the operations that leave the state alone and return no container *)
Ltac obs SW :=
  solve [ repeat first
    [ apply good_bad; exact SW
    | apply good_same; [exact SW | exact I]
    | match goal with
      | |- good _ (match ?x with _ => _ end) =>
          lazymatch x with
          | reg_list _ _ => destruct x as [[? ?]|]
          | reg_obj _ _ => destruct x as [[? ?]|]
          | _ => destruct x
          end
      end ] ].
Ltac red_alloc := unfold alloc; cbv beta iota zeta.

Lemma step_core_good s o : op_okh (st_heap s) o -> state_wf s -> good s (step_core s o).
Proof. intros OK SW. pose proof SW as [W EV].
  destruct o; unfold op_okh in OK; cbn [op_operands] in OK; cbn [step_core]; try (obs SW).
  - (* NewList *)
    destruct (eval_operands (st_env s) vs) as [l|] eqn:EO; [|apply good_bad; exact SW].
    red_alloc. apply good_new_list; [exact W | exact (eval_operands_ok _ _ _ _ OK EV EO)].
  - (* NewListOf *)
    destruct (eval_operand (st_env s) v) as [x|] eqn:EO; [|apply good_bad; exact SW].
    destruct (count <? 0)%Z; [apply good_same; [exact SW | exact I]|].
    red_alloc. apply good_new_list; [exact W|]. intros z Hz. apply In_repeat_list in Hz. subst z.
    exact (eval_operand_ok _ _ _ _ (Forall_inv OK) EV EO).
  - (* NewObject *)
    destruct (eval_operands (st_env s) args) as [a|] eqn:EO; [|apply good_bad; exact SW].
    destruct (o_set [] a) as [kvs p] eqn:OS. destruct p; [apply good_same; [exact SW | exact I]|].
    red_alloc. apply good_new_obj; [exact W|].
    pose proof (o_set_ok (st_heap s) [] a (eval_operands_ok _ _ _ _ OK EV EO) (all_ok_nil _)) as K. rewrite OS in K. exact K.
  - (* LAdd *)
    destruct (reg_list s r) as [[id l]|] eqn:RL; [|apply good_bad; exact SW].
    destruct (eval_operands (st_env s) vs) as [xs|] eqn:EO; [|apply good_bad; exact SW].
    apply (good_set_list s id l); [exact W | exact (reg_list_get _ _ _ _ RL) | | intros; exact I].
    apply all_ok_app; [exact (reg_list_ok _ _ _ _ W RL) | exact (eval_operands_ok _ _ _ _ OK EV EO)].
  - (* LInsert *)
    destruct (reg_list s r) as [[id l]|] eqn:RL; [|apply good_bad; exact SW].
    destruct (eval_operand (st_env s) v) as [x|] eqn:EO; [|apply good_bad; exact SW].
    destruct (l_insert l i x) as [l'|] eqn:LI; [|apply good_same; [exact SW | exact I]].
    apply (good_set_list s id l); [exact W | exact (reg_list_get _ _ _ _ RL) | | intros; exact I].
    intros z Hz. destruct (l_insert_In _ _ _ _ _ LI Hz) as [H | ->];
      [exact (reg_list_ok _ _ _ _ W RL z H) | exact (eval_operand_ok _ _ _ _ (Forall_inv OK) EV EO)].
  - (* LReplace *)
    destruct (reg_list s r) as [[id l]|] eqn:RL; [|apply good_bad; exact SW].
    destruct (eval_operand (st_env s) v) as [x|] eqn:EO; [|apply good_bad; exact SW].
    destruct (l_replace l i x) as [l'|] eqn:LI; [|apply good_same; [exact SW | exact I]].
    apply (good_set_list s id l); [exact W | exact (reg_list_get _ _ _ _ RL) | | intros; exact I].
    intros z Hz. destruct (l_replace_In _ _ _ _ _ LI Hz) as [H | ->];
      [exact (reg_list_ok _ _ _ _ W RL z H) | exact (eval_operand_ok _ _ _ _ (Forall_inv OK) EV EO)].
  - (* LDelete *)
    destruct (reg_list s r) as [[id l]|] eqn:RL; [|apply good_bad; exact SW].
    destruct (l_delete l idxs) as [l' p] eqn:LD.
    apply (good_set_list s id l); [exact W | exact (reg_list_get _ _ _ _ RL) | | intros; apply out_ok_flag].
    intros z Hz. apply (reg_list_ok _ _ _ _ W RL). apply (l_delete_In l idxs). rewrite LD. exact Hz.
  - (* LPop *)
    destruct (reg_list s r) as [[id l]|] eqn:RL; [|apply good_bad; exact SW].
    destruct (l_pop l) as [l' p] eqn:LD.
    apply (good_set_list s id l); [exact W | exact (reg_list_get _ _ _ _ RL) | | intros; apply out_ok_flag].
    intros z Hz. apply (reg_list_ok _ _ _ _ W RL). unfold l_pop in LD. apply (l_delete_In l [(Z.of_nat (length l) - 1)%Z]). rewrite LD. exact Hz.
  - (* LClear *)
    destruct (reg_list s r) as [[id l]|] eqn:RL; [|apply good_bad; exact SW].
    apply (good_set_list s id l); [exact W | exact (reg_list_get _ _ _ _ RL) | apply all_ok_nil | intros; exact I].
  - (* LReverse *)
    destruct (reg_list s r) as [[id l]|] eqn:RL; [|apply good_bad; exact SW].
    apply (good_set_list s id l); [exact W | exact (reg_list_get _ _ _ _ RL) | | intros; exact I].
    intros z Hz. exact (reg_list_ok _ _ _ _ W RL z (reverse_model_In _ _ Hz)).
  - (* LSort *)
    destruct (reg_list s r) as [[id l]|] eqn:RL; [|apply good_bad; exact SW].
    destruct (l_sort l) as [l'|] eqn:LS; [|apply good_same; [exact SW | exact I]].
    apply (good_set_list s id l); [exact W | exact (reg_list_get _ _ _ _ RL) | exact (l_sort_ok _ _ _ LS) | intros; exact I].
  - (* LSubList *)
    destruct (reg_list s r) as [[id l]|] eqn:RL; [|apply good_bad; exact SW].
    destruct (l_sublist l s0 e) as [l'|] eqn:LS; [|apply good_same; [exact SW | exact I]].
    red_alloc. apply good_new_list; [exact W|].
    intros z Hz. exact (reg_list_ok _ _ _ _ W RL z (l_sublist_In _ _ _ _ _ LS Hz)).
  - (* LConcat *)
    destruct (reg_list s r) as [[id l]|] eqn:RL; [|apply good_bad; exact SW].
    destruct (reg_list s a) as [[id2 l2]|] eqn:RL2; [|apply good_bad; exact SW].
    red_alloc. apply good_new_list; [exact W|].
    apply all_ok_app; [exact (reg_list_ok _ _ _ _ W RL) | exact (reg_list_ok _ _ _ _ W RL2)].
  - (* LGet *)
    destruct (reg_list s r) as [[id l]|] eqn:RL; [|apply good_bad; exact SW].
    apply good_same; [exact SW|]. apply untyped_ok. intros v E. exact (reg_list_ok _ _ _ _ W RL v (l_get_In _ _ _ E)).
  - (* LGetTyped *)
    destruct (reg_list s r) as [[id l]|] eqn:RL; [|apply good_bad; exact SW].
    apply good_same; [exact SW|]. apply typed_ok. intros v E. exact (reg_list_ok _ _ _ _ W RL v (l_get_In _ _ _ E)).
  - (* OSet *)
    destruct (reg_obj s r) as [[id kvs]|] eqn:RO; [|apply good_bad; exact SW].
    destruct (eval_operands (st_env s) args) as [a|] eqn:EO; [|apply good_bad; exact SW].
    destruct (o_set kvs a) as [kvs' p] eqn:OS.
    apply (good_set_obj s id kvs); [exact W | exact (reg_obj_get _ _ _ _ RO) | | intros; apply out_ok_flag].
    pose proof (o_set_ok (st_heap s) kvs a (eval_operands_ok _ _ _ _ OK EV EO) (reg_obj_ok _ _ _ _ W RO)) as K.
    rewrite OS in K. exact K.
  - (* OUnset *)
    destruct (reg_obj s r) as [[id kvs]|] eqn:RO; [|apply good_bad; exact SW].
    apply (good_set_obj s id kvs); [exact W | exact (reg_obj_get _ _ _ _ RO) | | intros; exact I].
    intros z Hz. exact (reg_obj_ok _ _ _ _ W RO z (o_unset_In _ _ _ Hz)).
  - (* OClear *)
    destruct (reg_obj s r) as [[id kvs]|] eqn:RO; [|apply good_bad; exact SW].
    apply (good_set_obj s id kvs); [exact W | exact (reg_obj_get _ _ _ _ RO) | apply all_ok_nil | intros; exact I].
  - (* OMerge *)
    destruct (reg_obj s r) as [[id kvs]|] eqn:RO; [|apply good_bad; exact SW].
    destruct (reg_obj s a) as [[id2 kvs2]|] eqn:RO2; [|apply good_bad; exact SW].
    destruct (nth_error (st_env s) r) as [recv|] eqn:NE; [|apply good_bad; exact SW].
    destruct (clone_val (fuel_of (st_heap s)) (st_heap s) recv) as [[h1 v']|] eqn:C; [|apply good_bad; exact SW].
    destruct v' as [| | | | |id'|id']; try (apply good_bad; exact SW).
    destruct (get_obj h1 id') as [kvs1|] eqn:G1; [|apply good_bad; exact SW].
    destruct (clone_grows _ _ _ _ _ W (env_ok _ _ _ _ EV NE) C) as [[W1 S1] O1].
    assert (G2: grows h1 (set_obj h1 id' (fold_left (fun acc kv => aset (fst kv) (snd kv) acc) kvs2 kvs1))).
    { apply (grows_set_obj h1 id' kvs1 _ W1 G1). apply merge_ok; [|exact (wf_obj _ _ _ W1 G1)].
      exact (all_ok_mono _ _ _ S1 (reg_obj_ok _ _ _ _ W RO2)). }
    apply good_heap; [exact (grows_trans _ _ _ (conj W1 S1) G2) | exact (rok_mono _ _ _ (proj2 G2) O1)].
  - (* OPluck *)
    destruct (reg_obj s r) as [[id kvs]|] eqn:RO; [|apply good_bad; exact SW].
    match goal with |- good _ (match ?x with _ => _ end) => destruct x as [res|] eqn:FL end; [|apply good_same; [exact SW | exact I]].
    red_alloc. apply good_new_obj; [exact W|].
    refine (pluck_ok _ kvs (reg_obj_ok _ _ _ _ W RO) keys (Some []) res _ FL). intros r0 E0. injection E0 as <-. apply all_ok_nil.
  - (* OGet *)
    destruct (reg_obj s r) as [[id kvs]|] eqn:RO; [|apply good_bad; exact SW].
    apply good_same; [exact SW|]. apply untyped_ok. intros v E. exact (reg_obj_ok _ _ _ _ W RO v (o_get_In _ _ _ E)).
  - (* OGetTyped *)
    destruct (reg_obj s r) as [[id kvs]|] eqn:RO; [|apply good_bad; exact SW].
    apply good_same; [exact SW|]. apply typed_ok. intros v E. exact (reg_obj_ok _ _ _ _ W RO v (o_get_In _ _ _ E)).
  - (* OKeys *)
    destruct (reg_obj s r) as [[id kvs]|] eqn:RO; [|apply good_bad; exact SW].
    destruct (in_order kvs order) as [okvs|] eqn:IO; [|apply good_bad; exact SW].
    red_alloc. apply good_new_list; [exact W|]. intros z Hz. apply in_map_iff in Hz as [kv [<- _]]. exact I.
  - (* OValues *)
    destruct (reg_obj s r) as [[id kvs]|] eqn:RO; [|apply good_bad; exact SW].
    destruct (in_order kvs order) as [okvs|] eqn:IO; [|apply good_bad; exact SW].
    red_alloc. apply good_new_list; [exact W|]. intros z Hz. exact (reg_obj_ok _ _ _ _ W RO z (in_order_In _ _ _ _ IO Hz)).
  - (* Clone *)
    destruct (nth_error (st_env s) r) as [v|] eqn:NE; [|apply good_bad; exact SW].
    destruct (clone_val (fuel_of (st_heap s)) (st_heap s) v) as [[h1 v']|] eqn:C; [|apply good_bad; exact SW].
    destruct (clone_grows _ _ _ _ _ W (env_ok _ _ _ _ EV NE) C) as [G1 O1]. apply good_heap; [exact G1 | exact O1].
  - (* GetTF *)
    destruct (nth_error (st_env s) r) as [v|] eqn:NE; [|apply good_bad; exact SW].
    apply good_same; [exact SW|]. apply untyped_ok. intros x E. exact (get_tf_ok _ _ _ _ _ W E).
  - (* SetTF *)
    destruct (nth_error (st_env s) r) as [rv|] eqn:NE; [|apply good_bad; exact SW].
    destruct (eval_operand (st_env s) v) as [xv|] eqn:EO; [|apply good_bad; exact SW].
    destruct (set_tf (S (length tf)) (st_heap s) rv tf xv) as [h1 p] eqn:ST.
    apply good_heap; [|apply out_ok_flag].
    exact (set_tf_grows _ _ _ _ _ _ _ W (eval_operand_ok _ _ _ _ (Forall_inv OK) EV EO) ST).
  - (* UnsetTF *)
    destruct (nth_error (st_env s) r) as [rv|] eqn:NE; [|apply good_bad; exact SW].
    destruct (unset_tf (S (length tf)) (st_heap s) rv tf) as [h1 p] eqn:ST.
    apply good_heap; [|apply out_ok_flag]. exact (unset_tf_grows _ _ _ _ _ _ W ST).
Qed.

Theorem step_core_wf_h : forall s o, op_okh (st_heap s) o -> state_wf s -> state_wf (fst (step_core s o)).
Proof. intros s o OK SW. pose proof (step_core_good s o OK SW) as G. destruct (step_core s o) as [s1 oc].
  exact (good_state_wf _ _ _ SW G). Qed.
Theorem step_core_wf : forall s o, op_ok o -> state_wf s -> state_wf (fst (step_core s o)).
Proof. intros s o OK. apply step_core_wf_h. apply op_ok_okh. exact OK. Qed.

Lemma good_push s s1 oc v : state_wf s -> good s (s1, oc) -> out_ok (st_heap s1) oc -> oc = Ret (OV v) ->
  state_wf (mkState (st_heap s1) (st_env s1 ++ [v])).
Proof. intros SW G O ->. destruct (good_state_wf _ _ _ SW G) as [W1 EV1]. split; cbn [st_heap st_env]; [exact W1|].
  apply Forall_app. split; [exact EV1 | constructor; [exact O | constructor]]. Qed.

Theorem step_wf_h : forall s o, op_okh (st_heap s) o -> state_wf s -> state_wf (fst (step s o)).
Proof. intros s o OK SW. pose proof (step_core_good s o OK SW) as G. unfold step. destruct (step_core s o) as [s1 oc].
  pose proof (proj2 (proj2 G)) as O. cbn [fst snd] in O.
  destruct oc as [[| [| | | | |i|i] | | | | | |]|]; cbn [fst]; try exact (good_state_wf _ _ _ SW G).
  - exact (good_push _ _ _ _ SW G O eq_refl).
  - exact (good_push _ _ _ _ SW G O eq_refl). Qed.
Theorem step_wf : forall s o, op_ok o -> state_wf s -> state_wf (fst (step s o)).
Proof. intros s o OK. apply step_wf_h. apply op_ok_okh. exact OK. Qed.

(* ================= the operations of HeapExt.v ================= *)
Lemma filter_loop_In sel l z : In z (filter_loop sel l) -> In z l.
Proof. rewrite filter_loop_spec. intros H. apply filter_In in H. exact (proj1 H). Qed.

(* parseVal on a callback result: the tag is a scalar, x is the element the callback was called with *)
Lemma store_ok h f tag x h1 v : heap_wf h -> (forall h0, ref_ok h0 tag) -> ref_ok h x ->
  store h (apply_mapf f tag x) = (h1, v) -> grows h h1 /\ ref_ok h1 v.
Proof. intros W T OX E. destruct f; cbn [apply_mapf store] in E; unfold alloc in E; injection E as <- <-.
  - split; [apply grows_refl; exact W | exact OX].
  - split; [|apply new_list_ok]. apply grows_alloc; [exact W|]. cbn [members].
    intros z [<- | [<- | []]]; [apply T | exact OX].
  - split; [|apply new_obj_ok]. apply grows_alloc; [exact W|]. cbn [members map snd].
    intros z [<- | [<- | []]]; [apply T | exact OX].
  - split; [apply grows_refl; exact W | exact I]. Qed.

Lemma map_loop_ok sel f tagf : (forall i x h0, ref_ok h0 (tagf i x)) -> forall l h i acc h' res,
  heap_wf h -> all_ok h l -> all_ok h acc -> map_loop sel f tagf h l i acc = (h', res) -> grows h h' /\ all_ok h' res.
Proof. intros T. induction l as [|x t IH]; intros h i acc h' res W AL AA E; cbn [map_loop] in E.
  - injection E as <- <-. split; [apply grows_refl; exact W | exact AA].
  - assert (AT: all_ok h t) by (intros z Hz; apply AL; right; exact Hz).
    destruct (sel x); [|exact (IH _ _ _ _ _ W AT AA E)].
    destruct (store h (apply_mapf f (tagf i x) x)) as [h1 v] eqn:S.
    destruct (store_ok _ _ _ _ _ _ W (T i x) (AL x (or_introl eq_refl)) S) as [[W1 S1] O1].
    assert (AA1: all_ok h1 (acc ++ [v])).
    { apply all_ok_app; [exact (all_ok_mono _ _ _ S1 AA) | intros z [<- | []]; exact O1]. }
    destruct (IH _ _ _ _ _ W1 (all_ok_mono _ _ _ S1 AT) AA1 E) as [G2 A2].
    split; [exact (grows_trans _ _ _ (conj W1 S1) G2) | exact A2]. Qed.

Lemma omap_loop_ok sel f tagf : (forall k x h0, ref_ok h0 (tagf k x)) -> forall kvs h acc h' res,
  heap_wf h -> all_ok h (map snd kvs) -> all_ok h (map snd acc) -> omap_loop sel f tagf h kvs acc = (h', res) ->
  grows h h' /\ all_ok h' (map snd res).
Proof. intros T. induction kvs as [|[k x] t IH]; intros h acc h' res W AL AA E; cbn [omap_loop] in E.
  - injection E as <- <-. split; [apply grows_refl; exact W | exact AA].
  - assert (AT: all_ok h (map snd t)) by (intros z Hz; apply AL; right; exact Hz).
    destruct (sel x); [|exact (IH _ _ _ _ W AT AA E)].
    destruct (store h (apply_mapf f (tagf k x) x)) as [h1 v] eqn:S.
    destruct (store_ok _ _ _ _ _ _ W (T k x) (AL x (or_introl eq_refl)) S) as [[W1 S1] O1].
    assert (AA1: all_ok h1 (map snd (aset k v acc))).
    { apply aset_ok; [exact (all_ok_mono _ _ _ S1 AA) | exact O1]. }
    destruct (IH _ _ _ _ W1 (all_ok_mono _ _ _ S1 AT) AA1 E) as [G2 A2].
    split; [exact (grows_trans _ _ _ (conj W1 S1) G2) | exact A2]. Qed.

(* NewListFrom / NewObjectFrom *)
Lemma nsrc_operands_slice l : nsrc_operands (NSlice l) = flat_map nsrc_operands l.
Proof. reflexivity. Qed.
Lemma nsrc_operands_map kvs : nsrc_operands (NMap kvs) = flat_map (fun kv => nsrc_operands (snd kv)) kvs.
Proof. reflexivity. Qed.

Definition src_ok (env : list hval) (n : nsrc) : Prop :=
  forall h h' v, Forall (operand_okh h) (nsrc_operands n) -> heap_wf h -> Forall (ref_ok h) env ->
    store_src env h n = Some (h', v) -> grows h h' /\ ref_ok h' v.

Lemma Forall_okh_mono h h' l : same_kinds h h' -> Forall (operand_okh h) l -> Forall (operand_okh h') l.
Proof. intros S. apply Forall_impl. intros a. exact (operand_okh_mono _ _ _ S). Qed.
Lemma Forall_rok_mono h h' l : same_kinds h h' -> Forall (ref_ok h) l -> Forall (ref_ok h') l.
Proof. intros S. apply Forall_impl. intros a. exact (rok_mono _ _ _ S). Qed.

Lemma store_srcs_ok env l : Forall (src_ok env) l -> forall h h' vs,
  Forall (operand_okh h) (flat_map nsrc_operands l) -> heap_wf h -> Forall (ref_ok h) env ->
  store_srcs env h l = Some (h', vs) -> grows h h' /\ all_ok h' vs.
Proof. induction 1 as [|x t Hx _ IH]; intros h h' vs OK W EV E; cbn [store_srcs] in E.
  - injection E as <- <-. split; [apply grows_refl; exact W | apply all_ok_nil].
  - cbn [flat_map] in OK. apply Forall_app in OK as [OKx OKt].
    destruct (store_src env h x) as [[h1 v]|] eqn:Ex; [|discriminate].
    destruct (store_srcs env h1 t) as [[h2 vs']|] eqn:Et; [|discriminate]. injection E as <- <-.
    destruct (Hx _ _ _ OKx W EV Ex) as [[W1 S1] O1].
    destruct (IH _ _ _ (Forall_okh_mono _ _ _ S1 OKt) W1 (Forall_rok_mono _ _ _ S1 EV) Et) as [[W2 S2] A2].
    split; [exact (grows_trans _ _ _ (conj W1 S1) (conj W2 S2))|].
    intros z [<- | Hz]; [exact (rok_mono _ _ _ S2 O1) | exact (A2 z Hz)]. Qed.
Lemma store_kvs_ok env l : Forall (fun kv => src_ok env (snd kv)) l -> forall h h' vs,
  Forall (operand_okh h) (flat_map (fun kv => nsrc_operands (snd kv)) l) -> heap_wf h -> Forall (ref_ok h) env ->
  store_kvs env h l = Some (h', vs) -> grows h h' /\ all_ok h' (map snd vs).
Proof. induction 1 as [|[k x] t Hx _ IH]; intros h h' vs OK W EV E; cbn [store_kvs] in E.
  - injection E as <- <-. split; [apply grows_refl; exact W | apply all_ok_nil].
  - cbn [flat_map snd] in OK, Hx. apply Forall_app in OK as [OKx OKt].
    destruct (store_src env h x) as [[h1 v]|] eqn:Ex; [|discriminate].
    destruct (store_kvs env h1 t) as [[h2 vs']|] eqn:Et; [|discriminate]. injection E as <- <-.
    destruct (Hx _ _ _ OKx W EV Ex) as [[W1 S1] O1].
    destruct (IH _ _ _ (Forall_okh_mono _ _ _ S1 OKt) W1 (Forall_rok_mono _ _ _ S1 EV) Et) as [[W2 S2] A2].
    split; [exact (grows_trans _ _ _ (conj W1 S1) (conj W2 S2))|].
    apply aset_ok; [exact A2 | exact (rok_mono _ _ _ S2 O1)]. Qed.

Lemma store_src_ok env : forall n, src_ok env n.
Proof. induction n as [o|l IH|kvs IH] using nsrc_ind'; intros h h' v OK W EV E.
  - rewrite store_src_op in E. destruct (eval_operand env o) as [x|] eqn:Eo; [|discriminate]. injection E as <- <-.
    split; [apply grows_refl; exact W | exact (eval_operand_ok _ _ _ _ (Forall_inv OK) EV Eo)].
  - rewrite store_src_slice in E. rewrite nsrc_operands_slice in OK.
    destruct (store_srcs env h l) as [[h1 vs]|] eqn:El; [|discriminate]. injection E as <- <-.
    destruct (store_srcs_ok _ _ IH _ _ _ OK W EV El) as [[W1 S1] A1].
    split; [|apply new_list_ok]. exact (grows_trans _ _ _ (conj W1 S1) (grows_alloc _ (CList vs) W1 A1)).
  - rewrite store_src_map in E. rewrite nsrc_operands_map in OK.
    destruct (store_kvs env h kvs) as [[h1 vs]|] eqn:El; [|discriminate]. injection E as <- <-.
    destruct (store_kvs_ok _ _ IH _ _ _ OK W EV El) as [[W1 S1] A1].
    split; [|apply new_obj_ok]. exact (grows_trans _ _ _ (conj W1 S1) (grows_alloc _ (CObj vs) W1 A1)). Qed.

Definition xout_ok (h : heap) (oc : xoutcome) : Prop := match oc with XRet (XO (OV v)) => ref_ok h v | _ => True end.
Definition xgood (s : state) (r : state * xoutcome) : Prop :=
  st_env (fst r) = st_env s /\ grows (st_heap s) (st_heap (fst r)) /\ xout_ok (st_heap (fst r)) (snd r).

Lemma xgood_lift s s1 oc : good s (s1, oc) -> xgood s (s1, lift oc).
Proof. intros [E [G O]]. split; [exact E|]. split; [exact G|]. cbn [fst snd] in *.
  destruct oc as [[]|]; exact O. Qed.
Lemma xgood_same s oc : state_wf s -> xout_ok (st_heap s) oc -> xgood s (s, oc).
Proof. intros [W _] O. split; [reflexivity|]. split; [apply grows_refl; exact W | exact O]. Qed.
Lemma xgood_bad s : state_wf s -> xgood s (xbad s).
Proof. intros SW. apply xgood_same; [exact SW | exact I]. Qed.
Lemma xgood_heap s h' oc : grows (st_heap s) h' -> xout_ok h' oc -> xgood s (with_heap s h', oc).
Proof. intros G O. split; [reflexivity|]. split; [exact G | exact O]. Qed.
Lemma xgood_new_list s h1 l : grows (st_heap s) h1 -> all_ok h1 l -> xgood s (new_list s h1 l).
Proof. intros G A. unfold new_list, alloc. apply xgood_heap; [|apply new_list_ok].
  exact (grows_trans _ _ _ G (grows_alloc _ (CList l) (proj1 G) A)). Qed.
Lemma xgood_new_obj s h1 kvs : grows (st_heap s) h1 -> all_ok h1 (map snd kvs) -> xgood s (new_obj s h1 kvs).
Proof. intros G A. unfold new_obj, alloc. apply xgood_heap; [|apply new_obj_ok].
  exact (grows_trans _ _ _ G (grows_alloc _ (CObj kvs) (proj1 G) A)). Qed.
Lemma xgood_state_wf s s1 oc : state_wf s -> xgood s (s1, oc) -> state_wf s1.
Proof. intros [W EV] [E [[W1 S1] _]]. cbn [fst] in *. split; [exact W1|]. rewrite E. exact (Forall_rok_mono _ _ _ S1 EV). Qed.

Lemma agg_out_ok fadd fmul fdiv of_int h a l : xout_ok h (agg_model fadd fmul fdiv of_int a l).
Proof. unfold agg_model. destruct a; try exact I.
  - destruct (Min of_int l); exact I.
  - destruct (Max of_int l); exact I. Qed.

Ltac xobs SW :=
  solve [ repeat first
    [ apply xgood_bad; exact SW
    | apply xgood_same; [exact SW | first [exact I | apply agg_out_ok]]
    | match goal with
      | |- xgood _ (match ?x with _ => _ end) =>
          lazymatch x with
          | reg_list _ _ => destruct x as [[? ?]|]
          | reg_obj _ _ => destruct x as [[? ?]|]
          | _ => destruct x
          end
      end ] ].

Lemma xstep_core_good fadd fmul fdiv of_int s o : xop_okh (st_heap s) o -> state_wf s ->
  xgood s (xstep_core fadd fmul fdiv of_int s o).
Proof. intros OK SW. pose proof SW as [W EV].
  assert (GR: grows (st_heap s) (st_heap s)) by (apply grows_refl; exact W).
  destruct o; unfold xop_okh in OK; cbn [xop_operands] in OK; cbn [xstep_core]; try (xobs SW).
  - (* Base *)
    pose proof (step_core_good s o OK SW) as G. destruct (step_core s o) as [s1 oc]. exact (xgood_lift _ _ _ G).
  - (* NewListFrom *)
    destruct (store_src (st_env s) (st_heap s) (NSlice src)) as [[h1 v]|] eqn:E; [|apply xgood_bad; exact SW].
    destruct (store_src_ok _ _ _ _ _ OK W EV E) as [G O]. apply xgood_heap; assumption.
  - (* NewObjectFrom *)
    destruct (store_src (st_env s) (st_heap s) (NMap src)) as [[h1 v]|] eqn:E; [|apply xgood_bad; exact SW].
    destruct (store_src_ok _ _ _ _ _ OK W EV E) as [G O]. apply xgood_heap; assumption.
  - (* LFilter *)
    destruct (reg_list s r) as [[id l]|] eqn:RL; [|apply xgood_bad; exact SW].
    apply xgood_new_list; [exact GR|]. intros z Hz. exact (reg_list_ok _ _ _ _ W RL z (filter_loop_In _ _ _ Hz)).
  - (* LFilterK *)
    destruct (reg_list s r) as [[id l]|] eqn:RL; [|apply xgood_bad; exact SW].
    apply xgood_new_list; [exact GR|]. intros z Hz. exact (reg_list_ok _ _ _ _ W RL z (filter_loop_In _ _ _ Hz)).
  - (* LMap *)
    destruct (reg_list s r) as [[id l]|] eqn:RL; [|apply xgood_bad; exact SW].
    match goal with |- xgood _ (let '(_, _) := ?x in _) => destruct x as [h1 res] eqn:ML end.
    eapply map_loop_ok in ML; [destruct ML as [G A]; apply xgood_new_list; assumption | ..];
      first [intros; exact I | exact W | exact (reg_list_ok _ _ _ _ W RL) | apply all_ok_nil].
  - (* LMapValues *)
    destruct (reg_list s r) as [[id l]|] eqn:RL; [|apply xgood_bad; exact SW].
    match goal with |- xgood _ (let '(_, _) := ?x in _) => destruct x as [h1 res] eqn:ML end.
    eapply map_loop_ok in ML; [destruct ML as [G A]; apply xgood_new_list; assumption | ..];
      first [intros; exact I | exact W | exact (reg_list_ok _ _ _ _ W RL) | apply all_ok_nil].
  - (* LMapK *)
    destruct (reg_list s r) as [[id l]|] eqn:RL; [|apply xgood_bad; exact SW].
    match goal with |- xgood _ (let '(_, _) := ?x in _) => destruct x as [h1 res] eqn:ML end.
    eapply map_loop_ok in ML; [destruct ML as [G A]; apply xgood_new_list; assumption | ..];
      first [intros; exact I | exact W | exact (reg_list_ok _ _ _ _ W RL) | apply all_ok_nil].
  - (* LMapAsync *)
    destruct (reg_list s r) as [[id l]|] eqn:RL; [|apply xgood_bad; exact SW].
    match goal with |- xgood _ (let '(_, _) := ?x in _) => destruct x as [h1 res] eqn:ML end.
    eapply map_loop_ok in ML; [destruct ML as [G A]; apply xgood_new_list; assumption | ..];
      first [intros; exact I | exact W | exact (reg_list_ok _ _ _ _ W RL) | apply all_ok_nil].
  - (* OMap *)
    destruct (reg_obj s r) as [[id kvs]|] eqn:RO; [|apply xgood_bad; exact SW].
    match goal with |- xgood _ (let '(_, _) := ?x in _) => destruct x as [h1 res] eqn:ML end.
    eapply omap_loop_ok in ML; [destruct ML as [G A]; apply xgood_new_obj; assumption | ..];
      first [intros; exact I | exact W | exact (reg_obj_ok _ _ _ _ W RO) | apply all_ok_nil].
  - (* OMapValues *)
    destruct (reg_obj s r) as [[id kvs]|] eqn:RO; [|apply xgood_bad; exact SW].
    match goal with |- xgood _ (let '(_, _) := ?x in _) => destruct x as [h1 res] eqn:ML end.
    eapply omap_loop_ok in ML; [destruct ML as [G A]; apply xgood_new_obj; assumption | ..];
      first [intros; exact I | exact W | exact (reg_obj_ok _ _ _ _ W RO) | apply all_ok_nil].
  - (* OMapK *)
    destruct (reg_obj s r) as [[id kvs]|] eqn:RO; [|apply xgood_bad; exact SW].
    match goal with |- xgood _ (let '(_, _) := ?x in _) => destruct x as [h1 res] eqn:ML end.
    eapply omap_loop_ok in ML; [destruct ML as [G A]; apply xgood_new_obj; assumption | ..];
      first [intros; exact I | exact W | exact (reg_obj_ok _ _ _ _ W RO) | apply all_ok_nil].
  - (* OMapAsync *)
    destruct (reg_obj s r) as [[id kvs]|] eqn:RO; [|apply xgood_bad; exact SW].
    match goal with |- xgood _ (let '(_, _) := ?x in _) => destruct x as [h1 res] eqn:ML end.
    eapply omap_loop_ok in ML; [destruct ML as [G A]; apply xgood_new_obj; assumption | ..];
      first [intros; exact I | exact W | exact (reg_obj_ok _ _ _ _ W RO) | apply all_ok_nil].
Qed.

Theorem xstep_core_wf_h : forall fadd fmul fdiv of_int s o, xop_okh (st_heap s) o -> state_wf s ->
  state_wf (fst (xstep_core fadd fmul fdiv of_int s o)).
Proof. intros fadd fmul fdiv of_int s o OK SW. pose proof (xstep_core_good fadd fmul fdiv of_int s o OK SW) as G.
  destruct (xstep_core fadd fmul fdiv of_int s o) as [s1 oc]. exact (xgood_state_wf _ _ _ SW G). Qed.
Theorem xstep_core_wf : forall fadd fmul fdiv of_int s o, xop_ok o -> state_wf s ->
  state_wf (fst (xstep_core fadd fmul fdiv of_int s o)).
Proof. intros fadd fmul fdiv of_int s o OK. apply xstep_core_wf_h. apply xop_ok_okh. exact OK. Qed.

Lemma xgood_push s s1 oc v : state_wf s -> xgood s (s1, oc) -> xout_ok (st_heap s1) oc -> oc = XRet (XO (OV v)) ->
  state_wf (mkState (st_heap s1) (st_env s1 ++ [v])).
Proof. intros SW G O ->. destruct (xgood_state_wf _ _ _ SW G) as [W1 EV1]. split; cbn [st_heap st_env]; [exact W1|].
  apply Forall_app. split; [exact EV1 | constructor; [exact O | constructor]]. Qed.

Theorem xstep_wf_h : forall fadd fmul fdiv of_int s o, xop_okh (st_heap s) o -> state_wf s ->
  state_wf (fst (xstep fadd fmul fdiv of_int s o)).
Proof. intros fadd fmul fdiv of_int s o OK SW. pose proof (xstep_core_good fadd fmul fdiv of_int s o OK SW) as G.
  unfold xstep. destruct (xstep_core fadd fmul fdiv of_int s o) as [s1 oc].
  pose proof (proj2 (proj2 G)) as O. cbn [fst snd] in O.
  destruct oc as [[[| [| | | | |i|i] | | | | | |] | | |]|]; cbn [fst]; try exact (xgood_state_wf _ _ _ SW G).
  - exact (xgood_push _ _ _ _ SW G O eq_refl).
  - exact (xgood_push _ _ _ _ SW G O eq_refl). Qed.
Theorem xstep_wf : forall fadd fmul fdiv of_int s o, xop_ok o -> state_wf s ->
  state_wf (fst (xstep fadd fmul fdiv of_int s o)).
Proof. intros fadd fmul fdiv of_int s o OK. apply xstep_wf_h. apply xop_ok_okh. exact OK. Qed.

(* ================= every reachable state ================= *)
Lemma xexec_wf fadd fmul fdiv of_int : forall prog s, Forall xop_ok prog -> state_wf s ->
  state_wf (xexec fadd fmul fdiv of_int s prog).
Proof. unfold xexec. induction prog as [|o t IH]; intros s OK SW; cbn [fold_left]; [exact SW|].
  apply IH; [exact (Forall_inv_tail OK) | exact (xstep_wf _ _ _ _ _ _ (Forall_inv OK) SW)]. Qed.

Theorem reachable_wf : forall fadd fmul fdiv of_int prog, Forall xop_ok prog ->
  state_wf (xexec fadd fmul fdiv of_int init_state prog).
Proof. intros fadd fmul fdiv of_int prog OK. exact (xexec_wf _ _ _ _ prog init_state OK init_wf). Qed.

Lemma exec_wf : forall prog s, Forall op_ok prog -> state_wf s -> state_wf (fold_left (fun s o => fst (step s o)) prog s).
Proof. induction prog as [|o t IH]; intros s OK SW; cbn [fold_left]; [exact SW|].
  apply IH; [exact (Forall_inv_tail OK) | exact (step_wf _ _ (Forall_inv OK) SW)]. Qed.

Theorem reachable_wf_base : forall prog, Forall op_ok prog -> state_wf (fold_left (fun s o => fst (step s o)) prog init_state).
Proof. intros prog OK. exact (exec_wf prog init_state OK init_wf). Qed.

(* the unconditional statements are false: a literal container id is stored as it is *)
Example lit_injection_breaks_wf : ~ state_wf (fst (step_core init_state (NewList [Lit (HL 7)]))).
Proof. intros [W _]. specialize (W 0). cbn in W. destruct (W (HL 7) (or_introl eq_refl)) as [l G]. discriminate G. Qed.
Example lit_injection_breaks_env : ~ state_wf (fst (step init_state (NewListOf (Lit (HO 3)) 1))).
Proof. intros [W _]. specialize (W 0). cbn in W. destruct (W (HO 3) (or_introl eq_refl)) as [l G]. discriminate G. Qed.

(* ================= the hypotheses of the Clone theorems hold in every reachable state ================= *)
(* in any well-formed state, for any variable *)
Lemma wf_var_ok s v : state_wf s -> In v (st_env s) -> ref_ok (st_heap s) v.
Proof. intros [_ EV] H. rewrite Forall_forall in EV. exact (EV v H). Qed.

Corollary wf_clone_independent_full : forall s v f h' v' steps f2, state_wf s -> In v (st_env s) ->
  clone_val f (st_heap s) v = Some (h', v') ->
  (run_local (fun i => length (st_heap s) <= i) h' steps ->
     reify f2 (run_steps h' steps) v = reify f2 h' v /\ (forall r, Reach (run_steps h' steps) v r <-> Reach h' v r)) /\
  (run_local (fun i => i < length (st_heap s)) h' steps ->
     reify f2 (run_steps h' steps) v' = reify f2 h' v' /\ (forall r, Reach (run_steps h' steps) v' r <-> Reach h' v' r)).
Proof. intros s v f h' v' steps f2 SW H C.
  exact (clone_history_independent_full f (st_heap s) v h' v' steps f2 (proj1 SW) (wf_var_ok _ _ SW H) C). Qed.

Corollary wf_clone_disjoint : forall s v f h' v' r, state_wf s -> In v (st_env s) ->
  clone_val f (st_heap s) v = Some (h', v') -> Reach h' v r -> Reach h' v' r -> False.
Proof. intros s v f h' v' r SW H C. exact (clone_disjoint f (st_heap s) v h' v' r (proj1 SW) (wf_var_ok _ _ SW H) C). Qed.

Section Reachable.
  Variable fadd fmul fdiv : Z -> Z -> Z.
  Variable of_int : Z -> Z.
  Variable prog : list xop.
  Hypothesis prog_ok : Forall xop_ok prog.
  Let s := xexec fadd fmul fdiv of_int init_state prog.

  (* CloneHistory.clone_history_independent: a whole history of writes / allocations inside one side of a clone leaves
     the other side reading the same *)
  Corollary reachable_clone_independent : forall v f h' v' steps f2, In v (st_env s) ->
    clone_val f (st_heap s) v = Some (h', v') ->
    (run_local (fun i => length (st_heap s) <= i) h' steps -> reify f2 (run_steps h' steps) v = reify f2 h' v) /\
    (run_local (fun i => i < length (st_heap s)) h' steps -> reify f2 (run_steps h' steps) v' = reify f2 h' v').
  Proof. intros v f h' v' steps f2 H C. pose proof (reachable_wf fadd fmul fdiv of_int prog prog_ok) as SW.
    exact (clone_history_independent f (st_heap s) v h' v' steps f2 (proj1 SW) (wf_var_ok _ _ SW H) C). Qed.

  (* ... and the set of cells reachable from the untouched side stays the same too *)
  Corollary reachable_clone_independent_full : forall v f h' v' steps f2, In v (st_env s) ->
    clone_val f (st_heap s) v = Some (h', v') ->
    (run_local (fun i => length (st_heap s) <= i) h' steps ->
       reify f2 (run_steps h' steps) v = reify f2 h' v /\ (forall r, Reach (run_steps h' steps) v r <-> Reach h' v r)) /\
    (run_local (fun i => i < length (st_heap s)) h' steps ->
       reify f2 (run_steps h' steps) v' = reify f2 h' v' /\ (forall r, Reach (run_steps h' steps) v' r <-> Reach h' v' r)).
  Proof. intros v f h' v' steps f2 H C.
    exact (wf_clone_independent_full s v f h' v' steps f2 (reachable_wf fadd fmul fdiv of_int prog prog_ok) H C). Qed.

  (* CloneProofs.clone_disjoint: no cell is reachable from both a variable and its clone *)
  Corollary reachable_clone_disjoint : forall v f h' v' r, In v (st_env s) ->
    clone_val f (st_heap s) v = Some (h', v') -> Reach h' v r -> Reach h' v' r -> False.
  Proof. intros v f h' v' r H C.
    exact (wf_clone_disjoint s v f h' v' r (reachable_wf fadd fmul fdiv of_int prog prog_ok) H C). Qed.

  (* CloneProofs.source_old: whatever is appended later, a variable only reaches cells that exist now *)
  Corollary reachable_source_old : forall v e r, In v (st_env s) -> Reach (st_heap s ++ e) v r -> r < length (st_heap s).
  Proof. intros v e r H. pose proof (reachable_wf fadd fmul fdiv of_int prog prog_ok) as SW.
    exact (source_old (st_heap s) e v r (proj1 SW) (wf_var_ok _ _ SW H)). Qed.

  (* the same through the interpreter: the operation [Clone r] executed in a reachable state *)
  Corollary reachable_clone_op_disjoint : forall r v s' v' id, nth_error (st_env s) r = Some v ->
    step_core s (Clone r) = (s', Ret (OV v')) -> Reach (st_heap s') v id -> Reach (st_heap s') v' id -> False.
  Proof. intros r v s' v' id NE ST. cbn [step_core] in ST. rewrite NE in ST.
    destruct (clone_val (fuel_of (st_heap s)) (st_heap s) v) as [[h1 w]|] eqn:C; [|discriminate ST].
    injection ST as <- <-. cbn [with_heap st_heap].
    exact (reachable_clone_disjoint v _ h1 w id (nth_error_In _ _ NE) C). Qed.
End Reachable.

(* ================= non-vacuity: a concrete extended program ================= *)
Definition zero2 (a b : Z) : Z := 0%Z.
Definition zero1 (a : Z) : Z := 0%Z.
Definition demo_prog : list xop :=
  [ Base (NewList [Lit (HInt 1); Lit (HStr (B"a"))]);                          (* r0 : a list *)
    Base (NewObject [Lit (HStr (B"k")); Reg 0]);                              (* r1 : an object holding r0 *)
    XNewListFrom [NOp (Reg 1); NSlice [NOp (Lit (HInt 2)); NOp (Reg 0)]];    (* r2 : [r1, [2, r0]] *)
    Base (SetTF 1 (B".p#2.q") (Reg 0));                                       (* r1.p = [nil, nil, {q: r0}] : three new cells *)
    Base (Clone 1);                                                            (* r3 : deep copy of r1 *)
    XLMap 2 MPair;                                                             (* r4 : [[0, r1], [1, [2, r0]]] *)
    Base (LAdd 0 [Reg 3; Lit HNil]);                                          (* r0 now holds the clone: a cycle-free alias web *)
    Base (UnsetTF 1 (B".k"));
    XOMapValues 3 MDict ].                                                     (* r5 *)
Definition demo_state : state := xexec zero2 zero2 zero2 zero1 init_state demo_prog.

Example demo_prog_ok : Forall xop_ok demo_prog.
Proof. apply xops_okb_spec. vm_compute. reflexivity. Qed.

(* it really runs: no step is ill-typed or panics, 17 cells and 6 variables at the end *)
Example demo_runs :
  forallb (fun r => match fst r with XRet (XO OBad) | XPan => false | _ => true end) (xrun zero2 zero2 zero2 zero1 init_state demo_prog) = true /\
  length (st_heap demo_state) = 17 /\ st_env demo_state = [HL 0; HO 1; HL 3; HO 10; HL 13; HO 16].
Proof. vm_compute. repeat split. Qed.

Example demo_state_wf : state_wf demo_state.
Proof. exact (reachable_wf zero2 zero2 zero2 zero1 demo_prog demo_prog_ok). Qed.

(* the Clone corollary instantiated: r1 and a fresh clone of it share no cell *)
Example demo_clone_disjoint : forall h' v' r, clone_val 20 (st_heap demo_state) (HO 1) = Some (h', v') ->
  Reach h' (HO 1) r -> Reach h' v' r -> False.
Proof. intros h' v' r. apply (reachable_clone_disjoint zero2 zero2 zero2 zero1 demo_prog demo_prog_ok (HO 1) 20 h' v' r).
  vm_compute. tauto. Qed.
Example demo_clone_defined : exists h' v', clone_val 20 (st_heap demo_state) (HO 1) = Some (h', v').
Proof. vm_compute. eexists. eexists. reflexivity. Qed.

Print Assumptions init_wf.
Print Assumptions set_tf_wf.
Print Assumptions unset_tf_wf.
Print Assumptions step_core_wf.
Print Assumptions step_wf.
Print Assumptions xstep_core_wf.
Print Assumptions xstep_wf.
Print Assumptions step_core_wf_h.
Print Assumptions xstep_wf_h.
Print Assumptions reachable_wf.
Print Assumptions reachable_wf_base.
Print Assumptions reachable_clone_independent.
Print Assumptions reachable_clone_independent_full.
Print Assumptions reachable_clone_disjoint.
Print Assumptions reachable_source_old.
Print Assumptions reachable_clone_op_disjoint.
Print Assumptions op_okb_spec.
Print Assumptions xops_okb_spec.
Print Assumptions lit_injection_breaks_wf.
Print Assumptions demo_state_wf.
Print Assumptions demo_clone_disjoint.
