(* HeapExtProofs.v — facts about the extended heap-level programs of HeapExt.v:
   [Base] operations behave exactly as in Heap.v; every added operation only appends cells and keeps the registers;
   the containers handed out by the added creators are fresh; independence of results (C09) lifted to extended programs;
   bridges from the heap-level views to the pure models of Views.v (C14); canonical trees are canonical (vcanon idempotent);
   what NewListFrom / NewObjectFrom store reads back as the tree the source denotes. *)
From Anytype Require Import Base FloatBits Value GoInt Sorting Equality Heap Aggregates HeapExt HeapProofs CloneProofs
  Footprint DerivedIndependence Views.
Local Open Scope nat_scope.
Arguments clone_val : simpl never.  Arguments reify : simpl never.
Arguments get_tf : simpl never.  Arguments typeof_tf : simpl never.
Arguments set_tf : simpl never.  Arguments unset_tf : simpl never.

(* ================= nested induction principle for native sources ================= *)
Section NsrcInd.
  Variable P : nsrc -> Prop.
  Hypothesis Hop : forall o, P (NOp o).
  Hypothesis Hslice : forall l, Forall P l -> P (NSlice l).
  Hypothesis Hmap : forall kvs, Forall (fun kv => P (snd kv)) kvs -> P (NMap kvs).
  Fixpoint nsrc_ind' (n : nsrc) : P n :=
    match n with
    | NOp o => Hop o
    | NSlice l => Hslice l ((fix go (l : list nsrc) : Forall P l :=
                               match l with [] => Forall_nil _ | x :: t => Forall_cons _ (nsrc_ind' x) (go t) end) l)
    | NMap kvs => Hmap kvs ((fix go (l : list (bytes * nsrc)) : Forall (fun kv => P (snd kv)) l :=
                               match l with [] => Forall_nil _ | x :: t => Forall_cons _ (nsrc_ind' (snd x)) (go t) end) kvs)
    end.
End NsrcInd.

(* the two inner loops of [store_src], named *)
Fixpoint store_srcs (env : list hval) (h : heap) (l : list nsrc) : option (heap * list hval) :=
  match l with
  | [] => Some (h, [])
  | x :: t => match store_src env h x with
              | None => None
              | Some (h1, v) => match store_srcs env h1 t with Some (h2, vs) => Some (h2, v :: vs) | None => None end
              end
  end.
Fixpoint store_kvs (env : list hval) (h : heap) (l : list (bytes * nsrc)) : option (heap * list (bytes * hval)) :=
  match l with
  | [] => Some (h, [])
  | (k, x) :: t => match store_src env h x with
                   | None => None
                   | Some (h1, v) => match store_kvs env h1 t with Some (h2, vs) => Some (h2, aset k v vs) | None => None end
                   end
  end.

Lemma store_src_slice env h l : store_src env h (NSlice l) =
  match store_srcs env h l with Some (h1, vs) => Some (h1 ++ [CList vs], HL (length h1)) | None => None end.
Proof. cbn [store_src].
  match goal with |- match ?g h l with _ => _ end = _ => set (go := g) end.
  assert (G: forall l h0, go h0 l = store_srcs env h0 l).
  { induction l0 as [|x t IHt]; intros h0; cbn [store_srcs]; simpl; [reflexivity|].
    destruct (store_src env h0 x) as [[h1 v]|]; [|reflexivity]. rewrite IHt. reflexivity. }
  rewrite G. destruct (store_srcs env h l) as [[h1 vs]|]; reflexivity. Qed.
Lemma store_src_map env h kvs : store_src env h (NMap kvs) =
  match store_kvs env h kvs with Some (h1, vs) => Some (h1 ++ [CObj vs], HO (length h1)) | None => None end.
Proof. cbn [store_src].
  match goal with |- match ?g h kvs with _ => _ end = _ => set (go := g) end.
  assert (G: forall l h0, go h0 l = store_kvs env h0 l).
  { induction l as [|[k x] t IHt]; intros h0; cbn [store_kvs]; simpl; [reflexivity|].
    destruct (store_src env h0 x) as [[h1 v]|]; [|reflexivity]. rewrite IHt. reflexivity. }
  rewrite G. destruct (store_kvs env h kvs) as [[h1 vs]|]; reflexivity. Qed.
Lemma store_src_op env h o : store_src env h (NOp o) = match eval_operand env o with Some v => Some (h, v) | None => None end.
Proof. reflexivity. Qed.
Arguments store_src : simpl never.

(* ================= the added operations only append cells ================= *)
Lemma extends_refl (h : heap) : exists e, h = h ++ e.
Proof. exists []. rewrite app_nil_r. reflexivity. Qed.
Lemma extends_trans (h : heap) e1 h2 : (exists e2, h2 = (h ++ e1) ++ e2) -> exists e, h2 = h ++ e.
Proof. intros [e2 ->]. exists (e1 ++ e2). rewrite app_assoc. reflexivity. Qed.

Lemma store_extends h c h1 v : store h c = (h1, v) -> exists e, h1 = h ++ e.
Proof. destruct c as [x|l|kvs]; cbn [store]; unfold alloc; intros E; injection E as <- <-;
  [apply extends_refl | eexists; reflexivity | eexists; reflexivity]. Qed.

Lemma map_loop_extends sel f tagf : forall l h i acc h' res,
  map_loop sel f tagf h l i acc = (h', res) -> exists extra, h' = h ++ extra.
Proof. induction l as [|x t IH]; intros h i acc h' res E; cbn [map_loop] in E.
  - injection E as <- <-. apply extends_refl.
  - destruct (sel x).
    + destruct (store h (apply_mapf f (tagf i x) x)) as [h1 v] eqn:S.
      destruct (store_extends _ _ _ _ S) as [e1 ->]. eapply extends_trans. eapply IH. exact E.
    + eapply IH. exact E. Qed.

Lemma omap_loop_extends sel f tagf : forall kvs h acc h' res,
  omap_loop sel f tagf h kvs acc = (h', res) -> exists extra, h' = h ++ extra.
Proof. induction kvs as [|[k x] t IH]; intros h acc h' res E; cbn [omap_loop] in E.
  - injection E as <- <-. apply extends_refl.
  - destruct (sel x).
    + destruct (store h (apply_mapf f (tagf k x) x)) as [h1 v] eqn:S.
      destruct (store_extends _ _ _ _ S) as [e1 ->]. eapply extends_trans. eapply IH. exact E.
    + eapply IH. exact E. Qed.

Definition src_extends (env : list hval) (n : nsrc) : Prop :=
  forall h h' v, store_src env h n = Some (h', v) -> exists extra, h' = h ++ extra.

Lemma store_srcs_extends env l : Forall (src_extends env) l ->
  forall h h' vs, store_srcs env h l = Some (h', vs) -> exists extra, h' = h ++ extra.
Proof. induction 1 as [|x t Hx _ IH]; intros h h' vs E; cbn [store_srcs] in E.
  - injection E as <- <-. apply extends_refl.
  - destruct (store_src env h x) as [[h1 v]|] eqn:Ex; [|discriminate].
    destruct (store_srcs env h1 t) as [[h2 vs']|] eqn:Et; [|discriminate]. injection E as <- <-.
    destruct (Hx _ _ _ Ex) as [e1 ->]. eapply extends_trans. eapply IH. exact Et. Qed.
Lemma store_kvs_extends env l : Forall (fun kv => src_extends env (snd kv)) l ->
  forall h h' vs, store_kvs env h l = Some (h', vs) -> exists extra, h' = h ++ extra.
Proof. induction 1 as [|[k x] t Hx _ IH]; intros h h' vs E; cbn [store_kvs] in E.
  - injection E as <- <-. apply extends_refl.
  - cbn [snd] in Hx. destruct (store_src env h x) as [[h1 v]|] eqn:Ex; [|discriminate].
    destruct (store_kvs env h1 t) as [[h2 vs']|] eqn:Et; [|discriminate]. injection E as <- <-.
    destruct (Hx _ _ _ Ex) as [e1 ->]. eapply extends_trans. eapply IH. exact Et. Qed.

Lemma store_src_extends env : forall n h h' v, store_src env h n = Some (h', v) -> exists extra, h' = h ++ extra.
Proof. intros n. change (src_extends env n). induction n as [o|l IH|kvs IH] using nsrc_ind'; intros h h' v E.
  - rewrite store_src_op in E. destruct (eval_operand env o); [|discriminate]. injection E as <- <-. apply extends_refl.
  - rewrite store_src_slice in E. destruct (store_srcs env h l) as [[h1 vs]|] eqn:El; [|discriminate]. injection E as <- <-.
    destruct (store_srcs_extends _ _ IH _ _ _ El) as [e ->]. eexists. rewrite <- app_assoc. reflexivity.
  - rewrite store_src_map in E. destruct (store_kvs env h kvs) as [[h1 vs]|] eqn:El; [|discriminate]. injection E as <- <-.
    destruct (store_kvs_extends _ _ IH _ _ _ El) as [e ->]. eexists. rewrite <- app_assoc. reflexivity. Qed.

Lemma store_srcs_extends' env l h h' vs : store_srcs env h l = Some (h', vs) -> exists extra, h' = h ++ extra.
Proof. apply store_srcs_extends. apply Forall_forall. intros n _. exact (store_src_extends env n). Qed.
Lemma store_kvs_extends' env l h h' vs : store_kvs env h l = Some (h', vs) -> exists extra, h' = h ++ extra.
Proof. apply store_kvs_extends. apply Forall_forall. intros n _. exact (store_src_extends env (snd n)). Qed.

(* ================= loops as filters ================= *)
Lemma filter_loop_acc (sel : hval -> bool) l : forall acc : list hval,
  fold_left (fun (acc : list hval) (x : hval) => if sel x then acc ++ [x] else acc) l acc = acc ++ filter sel l.
Proof. induction l as [|x t IH]; intros acc; cbn [fold_left filter]; [rewrite app_nil_r; reflexivity|].
  rewrite IH. destruct (sel x); [rewrite <- app_assoc; reflexivity | reflexivity]. Qed.
Theorem filter_loop_spec : forall sel l, filter_loop sel l = filter sel l.
Proof. intros sel l. unfold filter_loop. rewrite filter_loop_acc. reflexivity. Qed.

Theorem map_loop_MId : forall sel tagf l h i acc, map_loop sel MId tagf h l i acc = (h, acc ++ filter sel l).
Proof. intros sel tagf. induction l as [|x t IH]; intros h i acc; cbn [map_loop filter]; [rewrite app_nil_r; reflexivity|].
  destruct (sel x); cbn [apply_mapf store]; rewrite IH; [rewrite <- app_assoc; reflexivity | reflexivity]. Qed.

Theorem map_loop_length : forall sel f tagf l h i acc h' res,
  map_loop sel f tagf h l i acc = (h', res) -> length res = length acc + length (filter sel l).
Proof. intros sel f tagf. induction l as [|x t IH]; intros h i acc h' res E; cbn [map_loop filter] in *.
  - injection E as <- <-. cbn [length]. lia.
  - destruct (sel x).
    + destruct (store h (apply_mapf f (tagf i x) x)) as [h1 v]. rewrite (IH _ _ _ _ _ E). rewrite app_length. cbn [length]. lia.
    + exact (IH _ _ _ _ _ E). Qed.

(* ================= bridges to the pure views of Views.v ================= *)
Theorem hkind_kind_of : forall x, kind_of (val_of_hscalar x) = hkind x.
Proof. destruct x; reflexivity. Qed.
Lemma sel_kind_has_kind k x : sel_kind k x = has_kind k (val_of_hscalar x).
Proof. unfold sel_kind, has_kind. rewrite hkind_kind_of. reflexivity. Qed.

Theorem slicek_bridge : forall k l, map val_of_hscalar (filter_loop (sel_kind k) l) = slice_k k (map val_of_hscalar l).
Proof. intros k l. rewrite filter_loop_spec, slice_k_spec. induction l as [|x t IH]; cbn [filter map]; [reflexivity|].
  rewrite <- sel_kind_has_kind. destruct (sel_kind k x); cbn [map]; rewrite IH; reflexivity. Qed.
Theorem allk_bridge : forall k l, forallb (sel_kind k) l = all_k k (map val_of_hscalar l).
Proof. intros k l. rewrite all_k_spec. induction l as [|x t IH]; cbn [forallb map]; [reflexivity|].
  rewrite <- sel_kind_has_kind, IH. reflexivity. Qed.
Theorem allnumeric_bridge : forall l,
  forallb (fun x => sel_kind KInt x || sel_kind KFloat x) l = all_numeric (map val_of_hscalar l).
Proof. intros l. rewrite all_numeric_spec. induction l as [|x t IH]; cbn [forallb map]; [reflexivity|].
  rewrite <- !sel_kind_has_kind, IH. reflexivity. Qed.

(* ================= classification ================= *)
Lemma xderiving_base b : xderiving (Base b) = deriving_op b.
Proof. destruct b; reflexivity. Qed.
Lemma xcreating_base b : xcreating (Base b) = creating_op b.
Proof. destruct b; reflexivity. Qed.
Lemma xcreating_is_xderiving o : xcreating o = true -> xderiving o = true.
Proof. destruct o as [b| | | | | | | | | | | | | | | | | | | | | | | | | | | | | | |]; try reflexivity.
  rewrite xderiving_base, xcreating_base. apply creating_is_deriving. Qed.

Definition xbasic (m : xop) (r : nat) : Prop := exists b, m = Base b /\ basic_mutator b = Some r.

Lemma all_base (P : op -> Prop) : forall ops, Forall (fun m => exists b, m = Base b /\ P b) ops ->
  exists ops', ops = map Base ops' /\ Forall P ops'.
Proof. induction 1 as [|m t [b [-> Pb]] _ [ops' [-> F]]].
  - exists []. split; [reflexivity | constructor].
  - exists (b :: ops'). split; [reflexivity | constructor; assumption]. Qed.

Section XProofs.
  Variable fadd fmul fdiv : Z -> Z -> Z.
  Variable of_int : Z -> Z.
  Local Notation xsc := (xstep_core fadd fmul fdiv of_int).
  Local Notation xst := (xstep fadd fmul fdiv of_int).
  Local Notation xex := (xexec fadd fmul fdiv of_int).
  Local Notation xrn := (xrun fadd fmul fdiv of_int).

  (* ================= [Base] is Heap.v ================= *)
  Theorem xstep_core_base : forall s o, xsc s (Base o) = (fst (step_core s o), lift (snd (step_core s o))).
  Proof. intros s o. cbn [xstep_core]. destruct (step_core s o) as [s1 oc]. reflexivity. Qed.

  Theorem xstep_base : forall s o, xst s (Base o) = (fst (step s o), lift (snd (step s o))).
  Proof. intros s o. unfold xstep. rewrite xstep_core_base. unfold step.
    destruct (step_core s o) as [s1 [[| [| | | | |i|i] | | | | | |]|]]; reflexivity. Qed.

  Theorem xrun_base : forall prog s, xrn s (map Base prog) = map (fun p => (lift (fst p), snd p)) (run s prog).
  Proof. induction prog as [|o t IH]; intros s; cbn [map xrun run]; [reflexivity|].
    rewrite xstep_base. destruct (step s o) as [s1 oc]. cbn [fst snd map]. rewrite IH. reflexivity. Qed.

  Lemma xexec_nil s : xex s [] = s. Proof. reflexivity. Qed.
  Lemma xexec_cons s o ops : xex s (o :: ops) = xex (fst (xst s o)) ops. Proof. reflexivity. Qed.
  Theorem xexec_base : forall ops s, xex s (map Base ops) = exec s ops.
  Proof. induction ops as [|o t IH]; intros s; [reflexivity|]. cbn [map]. rewrite xexec_cons, exec_cons, xstep_base. cbn [fst]. apply IH. Qed.

  (* ================= frame ================= *)
  Lemma new_list_frame s e l : exists extra,
    st_heap (fst (new_list s (st_heap s ++ e) l)) = st_heap s ++ extra /\ st_env (fst (new_list s (st_heap s ++ e) l)) = st_env s.
  Proof. unfold new_list, alloc. cbn [fst with_heap st_heap st_env]. exists (e ++ [CList l]). rewrite app_assoc. split; reflexivity. Qed.
  Lemma new_obj_frame s e l : exists extra,
    st_heap (fst (new_obj s (st_heap s ++ e) l)) = st_heap s ++ extra /\ st_env (fst (new_obj s (st_heap s ++ e) l)) = st_env s.
  Proof. unfold new_obj, alloc. cbn [fst with_heap st_heap st_env]. exists (e ++ [CObj l]). rewrite app_assoc. split; reflexivity. Qed.
  Lemma new_list_frame0 s l : exists extra,
    st_heap (fst (new_list s (st_heap s) l)) = st_heap s ++ extra /\ st_env (fst (new_list s (st_heap s) l)) = st_env s.
  Proof. unfold new_list, alloc. cbn [fst with_heap st_heap st_env]. eexists. split; reflexivity. Qed.
  Lemma same_frame (s : state) : exists extra, st_heap s = st_heap s ++ extra /\ st_env s = st_env s.
  Proof. exists []. rewrite app_nil_r. split; reflexivity. Qed.

  Ltac frame_map_loop :=
    match goal with
    | |- context [map_loop ?sel ?f ?tagf ?h ?l ?i ?acc] =>
        let h1 := fresh "h1" in let res := fresh "res" in let E := fresh "E" in let e := fresh "e" in
        destruct (map_loop sel f tagf h l i acc) as [h1 res] eqn:E;
        destruct (map_loop_extends _ _ _ _ _ _ _ _ _ E) as [e ->]; apply new_list_frame
    end.
  Ltac frame_omap_loop :=
    match goal with
    | |- context [omap_loop ?sel ?f ?tagf ?h ?l ?acc] =>
        let h1 := fresh "h1" in let res := fresh "res" in let E := fresh "E" in let e := fresh "e" in
        destruct (omap_loop sel f tagf h l acc) as [h1 res] eqn:E;
        destruct (omap_loop_extends _ _ _ _ _ _ _ _ E) as [e ->]; apply new_obj_frame
    end.

  Theorem xderiving_frame : forall s o, xderiving o = true ->
    exists extra, st_heap (fst (xsc s o)) = st_heap s ++ extra /\ st_env (fst (xsc s o)) = st_env s.
  Proof. intros s o D. destruct o as [b|src|src|r p|k r p|r f|r f|k r f|r f|r|r|k r|r|r|r|r|r|k r|k r|r|a r|r|r|k r|r|r f|r f|k r f|r f|r|r n|r].
    - rewrite xstep_core_base. cbn [fst]. rewrite xderiving_base in D. exact (deriving_frame s b D).
    - cbn [xstep_core]. destruct (store_src (st_env s) (st_heap s) (NSlice src)) as [[h1 v]|] eqn:E; [|apply same_frame].
      destruct (store_src_extends _ _ _ _ _ E) as [e ->]. cbn [fst with_heap st_heap st_env]. eexists. split; reflexivity.
    - cbn [xstep_core]. destruct (store_src (st_env s) (st_heap s) (NMap src)) as [[h1 v]|] eqn:E; [|apply same_frame].
      destruct (store_src_extends _ _ _ _ _ E) as [e ->]. cbn [fst with_heap st_heap st_env]. eexists. split; reflexivity.
    - cbn [xstep_core]. destruct (reg_list s r) as [[id l]|]; [apply new_list_frame0 | apply same_frame].
    - cbn [xstep_core]. destruct (reg_list s r) as [[id l]|]; [apply new_list_frame0 | apply same_frame].
    - cbn [xstep_core]. destruct (reg_list s r) as [[id l]|]; [frame_map_loop | apply same_frame].
    - cbn [xstep_core]. destruct (reg_list s r) as [[id l]|]; [frame_map_loop | apply same_frame].
    - cbn [xstep_core]. destruct (reg_list s r) as [[id l]|]; [frame_map_loop | apply same_frame].
    - cbn [xstep_core]. destruct (reg_list s r) as [[id l]|]; [frame_map_loop | apply same_frame].
    - cbn [xstep_core]. destruct (reg_list s r) as [[id l]|]; apply same_frame.
    - cbn [xstep_core]. destruct (reg_list s r) as [[id l]|]; apply same_frame.
    - cbn [xstep_core]. destruct (reg_list s r) as [[id l]|]; apply same_frame.
    - cbn [xstep_core]. destruct (reg_list s r) as [[id l]|]; apply same_frame.
    - cbn [xstep_core]. destruct (reg_list s r) as [[id l]|]; apply same_frame.
    - cbn [xstep_core]. destruct (reg_list s r) as [[id l]|]; apply same_frame.
    - cbn [xstep_core]. destruct (reg_list s r) as [[id l]|]; apply same_frame.
    - cbn [xstep_core]. destruct (reg_list s r) as [[id l]|]; apply same_frame.
    - cbn [xstep_core]. destruct (reg_list s r) as [[id l]|]; apply same_frame.
    - cbn [xstep_core]. destruct (reg_list s r) as [[id l]|]; apply same_frame.
    - cbn [xstep_core]. destruct (reg_list s r) as [[id l]|]; apply same_frame.
    - cbn [xstep_core]. destruct (reg_list s r) as [[id l]|]; apply same_frame.
    - cbn [xstep_core]. destruct (reg_obj s r) as [[id l]|]; apply same_frame.
    - cbn [xstep_core]. destruct (reg_obj s r) as [[id l]|]; apply same_frame.
    - cbn [xstep_core]. destruct (reg_obj s r) as [[id l]|]; apply same_frame.
    - cbn [xstep_core]. destruct (reg_obj s r) as [[id l]|]; apply same_frame.
    - cbn [xstep_core]. destruct (reg_obj s r) as [[id l]|]; [frame_omap_loop | apply same_frame].
    - cbn [xstep_core]. destruct (reg_obj s r) as [[id l]|]; [frame_omap_loop | apply same_frame].
    - cbn [xstep_core]. destruct (reg_obj s r) as [[id l]|]; [frame_omap_loop | apply same_frame].
    - cbn [xstep_core]. destruct (reg_obj s r) as [[id l]|]; [frame_omap_loop | apply same_frame].
    - cbn [xstep_core]. destruct (nth_error (st_env s) r) as [v|]; [|apply same_frame].
      destruct (reify (fuel_of (st_heap s)) (st_heap s) v); apply same_frame.
    - cbn [xstep_core]. destruct (nth_error (st_env s) r) as [v|]; [|apply same_frame].
      destruct ((n <? 0)%Z || (10 <? n)%Z); [apply same_frame|].
      destruct (reify (fuel_of (st_heap s)) (st_heap s) v); apply same_frame.
    - cbn [xstep_core]. destruct (nth_error (st_env s) r) as [v|]; [|apply same_frame].
      destruct (reify (fuel_of (st_heap s)) (st_heap s) v); apply same_frame.
  Qed.

  (* ================= content of the Filter views ================= *)
  Theorem xfilter_content : forall s r p id l, reg_list s r = Some (id, l) -> exists id',
    xsc s (XLFilter r p) =
      (with_heap s (st_heap s ++ [CList (filter (apply_pred p (st_heap s)) l)]), XRet (XO (OV (HL id')))) /\
    id' = length (st_heap s).
  Proof. intros s r p id l E. exists (length (st_heap s)). split; [|reflexivity].
    cbn [xstep_core]. rewrite E. unfold new_list, alloc. rewrite filter_loop_spec. reflexivity. Qed.

  Theorem xfilterk_content : forall s k r p id l, reg_list s r = Some (id, l) -> exists id',
    xsc s (XLFilterK k r p) =
      (with_heap s (st_heap s ++ [CList (filter (fun x => sel_kind k x && apply_pred p (st_heap s) x) l)]),
       XRet (XO (OV (HL id')))) /\
    id' = length (st_heap s).
  Proof. intros s k r p id l E. exists (length (st_heap s)). split; [|reflexivity].
    cbn [xstep_core]. rewrite E. unfold new_list, alloc. rewrite filter_loop_spec. reflexivity. Qed.

  (* ================= the containers handed out are fresh ================= *)
  Lemma new_list_fresh s h l out id' : length (st_heap s) <= length h ->
    snd (new_list s h l) = XRet (XO (OV out)) -> (out = HL id' \/ out = HO id') ->
    length (st_heap s) <= id' < length (st_heap (fst (new_list s h l))).
  Proof. unfold new_list, alloc. cbn [fst snd with_heap st_heap]. intros L H E. injection H as <-.
    destruct E as [E | E]; [|discriminate E]. injection E as <-. rewrite app_length. cbn [length]. lia. Qed.
  Lemma new_obj_fresh s h l out id' : length (st_heap s) <= length h ->
    snd (new_obj s h l) = XRet (XO (OV out)) -> (out = HL id' \/ out = HO id') ->
    length (st_heap s) <= id' < length (st_heap (fst (new_obj s h l))).
  Proof. unfold new_obj, alloc. cbn [fst snd with_heap st_heap]. intros L H E. injection H as <-.
    destruct E as [E | E]; [discriminate E|]. injection E as <-. rewrite app_length. cbn [length]. lia. Qed.

  Ltac fresh_map_loop :=
    match goal with
    | |- context [map_loop ?sel ?f ?tagf ?h ?l ?i ?acc] =>
        let h1 := fresh "h1" in let res := fresh "res" in let E := fresh "E" in let e := fresh "e" in
        destruct (map_loop sel f tagf h l i acc) as [h1 res] eqn:E;
        destruct (map_loop_extends _ _ _ _ _ _ _ _ _ E) as [e ->];
        intros H id' K; eapply new_list_fresh; [rewrite app_length; lia | exact H | exact K]
    end.
  Ltac fresh_omap_loop :=
    match goal with
    | |- context [omap_loop ?sel ?f ?tagf ?h ?l ?acc] =>
        let h1 := fresh "h1" in let res := fresh "res" in let E := fresh "E" in let e := fresh "e" in
        destruct (omap_loop sel f tagf h l acc) as [h1 res] eqn:E;
        destruct (omap_loop_extends _ _ _ _ _ _ _ _ E) as [e ->];
        intros H id' K; eapply new_obj_fresh; [rewrite app_length; lia | exact H | exact K]
    end.

  Theorem xcreated_is_fresh : forall s o out, xcreating o = true -> snd (xsc s o) = XRet (XO (OV out)) ->
    forall id', (out = HL id' \/ out = HO id') -> length (st_heap s) <= id' < length (st_heap (fst (xsc s o))).
  Proof. intros s o out C.
    destruct o as [b|src|src|r p|k r p|r f|r f|k r f|r f|r|r|k r|r|r|r|r|r|k r|k r|r|a r|r|r|k r|r|r f|r f|k r f|r f|r|r n|r];
      cbn [xcreating] in C; try discriminate C.
    - (* Base *) rewrite xstep_core_base. cbn [fst snd]. intros H id' K.
      change (creating_op b = true) in C.
      destruct (snd (step_core s b)) as [o|] eqn:R; cbn [lift] in H; [|discriminate H]. injection H as ->.
      exact (created_is_fresh s b out C R id' K).
    - (* NewListFrom *) cbn [xstep_core]. rewrite store_src_slice.
      destruct (store_srcs (st_env s) (st_heap s) src) as [[h1 vs]|] eqn:E; [|unfold xbad; cbn [snd]; discriminate].
      destruct (store_srcs_extends' _ _ _ _ _ E) as [e ->]. cbn [fst snd with_heap st_heap]. intros H id' K. injection H as <-.
      destruct K as [K | K]; [|discriminate K]. injection K as <-. rewrite !app_length. cbn [length]. lia.
    - (* NewObjectFrom *) cbn [xstep_core]. rewrite store_src_map.
      destruct (store_kvs (st_env s) (st_heap s) src) as [[h1 vs]|] eqn:E; [|unfold xbad; cbn [snd]; discriminate].
      destruct (store_kvs_extends' _ _ _ _ _ E) as [e ->]. cbn [fst snd with_heap st_heap]. intros H id' K. injection H as <-.
      destruct K as [K | K]; [discriminate K|]. injection K as <-. rewrite !app_length. cbn [length]. lia.
    - cbn [xstep_core]. destruct (reg_list s r) as [[id l]|]; [|unfold xbad; cbn [snd]; discriminate].
      intros H id' K. eapply new_list_fresh; [lia | exact H | exact K].
    - cbn [xstep_core]. destruct (reg_list s r) as [[id l]|]; [|unfold xbad; cbn [snd]; discriminate].
      intros H id' K. eapply new_list_fresh; [lia | exact H | exact K].
    - cbn [xstep_core]. destruct (reg_list s r) as [[id l]|]; [|unfold xbad; cbn [snd]; discriminate]. fresh_map_loop.
    - cbn [xstep_core]. destruct (reg_list s r) as [[id l]|]; [|unfold xbad; cbn [snd]; discriminate]. fresh_map_loop.
    - cbn [xstep_core]. destruct (reg_list s r) as [[id l]|]; [|unfold xbad; cbn [snd]; discriminate]. fresh_map_loop.
    - cbn [xstep_core]. destruct (reg_list s r) as [[id l]|]; [|unfold xbad; cbn [snd]; discriminate]. fresh_map_loop.
    - cbn [xstep_core]. destruct (reg_obj s r) as [[id l]|]; [|unfold xbad; cbn [snd]; discriminate]. fresh_omap_loop.
    - cbn [xstep_core]. destruct (reg_obj s r) as [[id l]|]; [|unfold xbad; cbn [snd]; discriminate]. fresh_omap_loop.
    - cbn [xstep_core]. destruct (reg_obj s r) as [[id l]|]; [|unfold xbad; cbn [snd]; discriminate]. fresh_omap_loop.
    - cbn [xstep_core]. destruct (reg_obj s r) as [[id l]|]; [|unfold xbad; cbn [snd]; discriminate]. fresh_omap_loop.
  Qed.

  (* ================= the state right after an extended creating step ================= *)
  Lemma xstep_heap s o : st_heap (fst (xst s o)) = st_heap (fst (xsc s o)).
  Proof. unfold xstep. destruct (xsc s o) as [s1 [[[| [| | | | |i|i] | | | | | |] | | |]|]]; reflexivity. Qed.

  Lemma xcreating_step_shape : forall s o out id', xcreating o = true -> snd (xsc s o) = XRet (XO (OV out)) ->
    (out = HL id' \/ out = HO id') ->
    st_env (fst (xst s o)) = st_env s ++ [out] /\
    (exists extra, st_heap (fst (xst s o)) = st_heap s ++ extra) /\
    length (st_heap s) <= id' < length (st_heap (fst (xst s o))).
  Proof. intros s o out id' C R E.
    pose proof (xcreated_is_fresh s o out C R id' E) as FR.
    destruct (xderiving_frame s o (xcreating_is_xderiving o C)) as [extra [HH HE]].
    rewrite xstep_heap. split; [|split; [exists extra; exact HH | exact FR]].
    unfold xstep. destruct (xsc s o) as [s1 oc]. cbn [fst snd] in *. subst oc.
    destruct E as [-> | ->]; cbn [fst st_env]; rewrite HE; reflexivity. Qed.

  (* ================= independence of results, for extended programs ================= *)
  Theorem x_mutating_the_result_leaves_old_cells : forall s o out r ops,
    xcreating o = true -> snd (xsc s o) = XRet (XO (OV out)) -> (exists id', out = HL id' \/ out = HO id') ->
    r = length (st_env s) ->
    Forall (fun m => xbasic m r) ops ->
    forall id, id < length (st_heap s) ->
      nth_error (st_heap (xex (fst (xst s o)) ops)) id = nth_error (st_heap s) id.
  Proof. intros s o out r ops C R [id' E] -> F id L.
    destruct (xcreating_step_shape s o out id' C R E) as [EN [[extra HH] FR]].
    destruct (all_base (fun b => basic_mutator b = Some (length (st_env s))) ops F) as [ops' [-> F']].
    rewrite xexec_base.
    assert (T: Forall (targets (st_env (fst (xst s o))) (fun j => length (st_heap s) <= j)) ops').
    { eapply Forall_impl; [|exact F']. intros m B. exists (length (st_env s)). split; [exact B|].
      intros id0 K. rewrite EN in K. rewrite nth_error_app2 in K by lia. rewrite Nat.sub_diag in K. cbn [nth_error] in K.
      assert (K': out = HL id0 \/ out = HO id0) by (destruct K as [K | K]; injection K as ->; auto).
      exact (proj1 (xcreated_is_fresh s o out C R id0 K')). }
    destruct (exec_basic_frame _ _ _ T) as [_ [_ N]].
    rewrite (N id) by lia. rewrite HH. apply nth_error_app1. exact L. Qed.

  Theorem x_mutating_old_containers_leaves_the_result : forall s o out ops,
    xcreating o = true -> snd (xsc s o) = XRet (XO (OV out)) ->
    (forall r v id, nth_error (st_env s) r = Some v -> (v = HL id \/ v = HO id) -> id < length (st_heap s)) ->
    Forall (fun m => exists r0, xbasic m r0 /\ r0 < length (st_env s)) ops ->
    forall id', (out = HL id' \/ out = HO id') ->
      nth_error (st_heap (xex (fst (xst s o)) ops)) id' = nth_error (st_heap (fst (xst s o))) id'.
  Proof. intros s o out ops C R WF F id' E.
    destruct (xcreating_step_shape s o out id' C R E) as [EN [_ FR]].
    assert (F1: Forall (fun m => exists b, m = Base b /\
                          (exists r0, basic_mutator b = Some r0 /\ r0 < length (st_env s))) ops).
    { eapply Forall_impl; [|exact F]. intros m [r0 [[b [-> B]] L0]]. exists b. split; [reflexivity|]. exists r0. split; assumption. }
    destruct (all_base _ ops F1) as [ops' [-> F']].
    rewrite xexec_base.
    assert (T: Forall (targets (st_env (fst (xst s o))) (fun j => j < length (st_heap s))) ops').
    { eapply Forall_impl; [|exact F']. intros m [r0 [B L0]]. exists r0. split; [exact B|].
      intros id0 K. rewrite EN in K. rewrite nth_error_app1 in K by exact L0.
      destruct K as [K | K]; [exact (WF r0 _ id0 K (or_introl eq_refl)) | exact (WF r0 _ id0 K (or_intror eq_refl))]. }
    destruct (exec_basic_frame _ _ _ T) as [_ [_ N]].
    apply N. lia. Qed.

End XProofs.

(* ================= (S1) canonical trees are canonical ================= *)
Definition kleb (a b : bytes * val) : bool := bytes_leb (fst a) (fst b).
Definition vcanon_kvs (l : list (bytes * val)) : list (bytes * val) := map (fun kv => (fst kv, vcanon (snd kv))) l.

Lemma vcanon_obj kvs : vcanon (VObj kvs) = VObj (isort kleb (vcanon_kvs kvs)).
Proof. reflexivity. Qed.
Lemma vcanon_list l : vcanon (VList l) = VList (map vcanon l).
Proof. reflexivity. Qed.

Lemma kleb_total a b : kleb a b = true \/ kleb b a = true.
Proof. unfold kleb. apply bytes_leb_total. Qed.
Lemma kleb_trans a b c : kleb a b = true -> kleb b c = true -> kleb a c = true.
Proof. unfold kleb. apply bytes_leb_trans. Qed.

Lemma insert_map_key (f : bytes * val -> bytes * val) (Hf : forall kv, fst (f kv) = fst kv) x l :
  map f (insert kleb x l) = insert kleb (f x) (map f l).
Proof. induction l as [|y t IH]; cbn [insert map]; [reflexivity|].
  unfold kleb at 1 3. rewrite !Hf. destruct (bytes_leb (fst x) (fst y)); cbn [map]; [reflexivity|]. rewrite IH. reflexivity. Qed.
Lemma isort_map_key (f : bytes * val -> bytes * val) (Hf : forall kv, fst (f kv) = fst kv) l :
  map f (isort kleb l) = isort kleb (map f l).
Proof. induction l as [|x t IH]; cbn [isort map]; [reflexivity|]. rewrite insert_map_key by exact Hf. rewrite IH. reflexivity. Qed.

Theorem vcanon_idem : forall v, vcanon (vcanon v) = vcanon v.
Proof. induction v as [| b | z | b | s | l IH | kvs IH] using val_ind'; try reflexivity.
  - rewrite !vcanon_list. f_equal. rewrite map_map. apply map_ext_in. intros x Hx.
    rewrite Forall_forall in IH. exact (IH x Hx).
  - rewrite !vcanon_obj. f_equal. unfold vcanon_kvs at 1.
    rewrite (isort_map_key (fun kv => (fst kv, vcanon (snd kv))) (fun kv => eq_refl)).
    change (map (fun kv : bytes * val => (fst kv, vcanon (snd kv))) (vcanon_kvs kvs)) with (vcanon_kvs (vcanon_kvs kvs)).
    assert (E: vcanon_kvs (vcanon_kvs kvs) = vcanon_kvs kvs).
    { unfold vcanon_kvs. rewrite map_map. apply map_ext_in. intros kv Hkv. cbn [fst snd].
      rewrite Forall_forall in IH. rewrite (IH kv Hkv). reflexivity. }
    rewrite E. apply isort_idem; [apply kleb_total | apply kleb_trans]. Qed.

(* ================= (S2) what NewListFrom / NewObjectFrom store reads back as the tree the source denotes ================= *)
(* the tree a source denotes: leaves are read in h; one unit of fuel per nesting level, exactly as [reify] spends it *)
Fixpoint src_val (fuel : nat) (h : heap) (env : list hval) (n : nsrc) {struct n} : option val :=
  match n with
  | NOp o => match eval_operand env o with Some v => reify fuel h v | None => None end
  | NSlice l =>
      match fuel with
      | O => None
      | S f =>
          match (fix go (l : list nsrc) : option (list val) :=
                   match l with
                   | [] => Some []
                   | x :: t => match src_val f h env x, go t with Some x', Some t' => Some (x' :: t') | _, _ => None end
                   end) l with
          | Some l' => Some (VList l') | None => None
          end
      end
  | NMap kvs =>
      match fuel with
      | O => None
      | S f =>
          match (fix go (l : list (bytes * nsrc)) : option (list (bytes * val)) :=
                   match l with
                   | [] => Some []
                   | (k, x) :: t => match src_val f h env x, go t with Some x', Some t' => Some (aset k x' t') | _, _ => None end
                   end) kvs with
          | Some l' => Some (VObj l') | None => None
          end
      end
  end.
Fixpoint src_vals (f : nat) (h : heap) (env : list hval) (l : list nsrc) : option (list val) :=
  match l with
  | [] => Some []
  | x :: t => match src_val f h env x, src_vals f h env t with Some x', Some t' => Some (x' :: t') | _, _ => None end
  end.
Fixpoint src_kvs (f : nat) (h : heap) (env : list hval) (l : list (bytes * nsrc)) : option (list (bytes * val)) :=
  match l with
  | [] => Some []
  | (k, x) :: t => match src_val f h env x, src_kvs f h env t with Some x', Some t' => Some (aset k x' t') | _, _ => None end
  end.

Lemma src_val_op f h env o : src_val f h env (NOp o) = match eval_operand env o with Some v => reify f h v | None => None end.
Proof. reflexivity. Qed.
Lemma src_val_slice f h env l : src_val (S f) h env (NSlice l) =
  match src_vals f h env l with Some l' => Some (VList l') | None => None end.
Proof. cbn [src_val].
  match goal with |- match ?g l with _ => _ end = _ => set (go := g) end.
  assert (G: forall l, go l = src_vals f h env l).
  { induction l0 as [|x t IHt]; cbn [src_vals]; simpl; [reflexivity|]. rewrite IHt. reflexivity. }
  rewrite G. reflexivity. Qed.
Lemma src_val_map f h env kvs : src_val (S f) h env (NMap kvs) =
  match src_kvs f h env kvs with Some l' => Some (VObj l') | None => None end.
Proof. cbn [src_val].
  match goal with |- match ?g kvs with _ => _ end = _ => set (go := g) end.
  assert (G: forall l, go l = src_kvs f h env l).
  { induction l as [|[k x] t IHt]; cbn [src_kvs]; simpl; [reflexivity|]. rewrite IHt. reflexivity. }
  rewrite G. reflexivity. Qed.
Lemma src_val_slice0 h env l : src_val 0 h env (NSlice l) = None. Proof. reflexivity. Qed.
Lemma src_val_map0 h env kvs : src_val 0 h env (NMap kvs) = None. Proof. reflexivity. Qed.
Arguments src_val : simpl never.

(* a denotation that is defined stays the same when cells are appended *)
Definition src_val_ext (env : list hval) (n : nsrc) : Prop :=
  forall f h e t, src_val f h env n = Some t -> src_val f (h ++ e) env n = Some t.
Lemma src_val_extends env : forall n, src_val_ext env n.
Proof. induction n as [o|l IH|kvs IH] using nsrc_ind'; intros f h e t E.
  - rewrite src_val_op in *. destruct (eval_operand env o) as [v|]; [|discriminate]. apply reify_extends. exact E.
  - destruct f as [|f]; [rewrite src_val_slice0 in E; discriminate|]. rewrite src_val_slice in *.
    destruct (src_vals f h env l) as [ts|] eqn:El; [|discriminate].
    assert (A: src_vals f (h ++ e) env l = Some ts).
    { clear E. revert ts El. induction IH as [|x r Hx _ IHr]; intros ts El; cbn [src_vals] in *; [exact El|].
      destruct (src_val f h env x) as [x'|] eqn:Ex; [|discriminate].
      destruct (src_vals f h env r) as [r'|] eqn:Er; [|discriminate].
      rewrite (Hx _ _ e _ Ex), (IHr _ eq_refl). exact El. }
    rewrite A. exact E.
  - destruct f as [|f]; [rewrite src_val_map0 in E; discriminate|]. rewrite src_val_map in *.
    destruct (src_kvs f h env kvs) as [ts|] eqn:El; [|discriminate].
    assert (A: src_kvs f (h ++ e) env kvs = Some ts).
    { clear E. revert ts El. induction IH as [|[k x] r Hx _ IHr]; intros ts El; cbn [src_kvs] in *; [exact El|].
      cbn [snd] in Hx. destruct (src_val f h env x) as [x'|] eqn:Ex; [|discriminate].
      destruct (src_kvs f h env r) as [r'|] eqn:Er; [|discriminate].
      rewrite (Hx _ _ e _ Ex), (IHr _ eq_refl). exact El. }
    rewrite A. exact E. Qed.
Lemma src_vals_extends env f h e : forall l ts, src_vals f h env l = Some ts -> src_vals f (h ++ e) env l = Some ts.
Proof. induction l as [|x r IHr]; intros ts El; cbn [src_vals] in *; [exact El|].
  destruct (src_val f h env x) as [x'|] eqn:Ex; [|discriminate].
  destruct (src_vals f h env r) as [r'|] eqn:Er; [|discriminate].
  rewrite (src_val_extends env x _ _ e _ Ex), (IHr _ eq_refl). exact El. Qed.
Lemma src_kvs_extends env f h e : forall l ts, src_kvs f h env l = Some ts -> src_kvs f (h ++ e) env l = Some ts.
Proof. induction l as [|[k x] r IHr]; intros ts El; cbn [src_kvs] in *; [exact El|].
  destruct (src_val f h env x) as [x'|] eqn:Ex; [|discriminate].
  destruct (src_kvs f h env r) as [r'|] eqn:Er; [|discriminate].
  rewrite (src_val_extends env x _ _ e _ Ex), (IHr _ eq_refl). exact El. Qed.

(* Set on the stored members is Set on the trees *)
Lemma reify_kvs_aset f h k v tv : reify f h v = Some tv -> forall vs ts, reify_kvs f h vs = Some ts ->
  reify_kvs f h (aset k v vs) = Some (aset k tv ts).
Proof. intros Ev. induction vs as [|[k' y] r IHr]; intros ts E; cbn [reify_kvs aset] in *.
  - injection E as <-. rewrite Ev. reflexivity.
  - destruct (reify f h y) as [ty|] eqn:Ey; [|discriminate].
    destruct (reify_kvs f h r) as [tr|] eqn:Er; [|discriminate]. injection E as <-. cbn [aset].
    destruct (bytes_eqb k k'); cbn [reify_kvs].
    + rewrite Ev, Er. reflexivity.
    + rewrite Ey, (IHr _ eq_refl). reflexivity. Qed.

Definition src_reifies (env : list hval) (n : nsrc) : Prop :=
  forall f h h' v t, store_src env h n = Some (h', v) -> src_val f h env n = Some t -> reify f h' v = Some t.

Lemma store_srcs_reify env f l : Forall (src_reifies env) l -> forall h h1 vs ts,
  store_srcs env h l = Some (h1, vs) -> src_vals f h env l = Some ts -> reify_list f h1 vs = Some ts.
Proof. induction 1 as [|x r Hx _ IHr]; intros h h1 vs ts E V; cbn [store_srcs src_vals] in *.
  - injection E as <- <-. injection V as <-. reflexivity.
  - destruct (store_src env h x) as [[ha v]|] eqn:Ex; [|discriminate].
    destruct (store_srcs env ha r) as [[hb vs']|] eqn:Er; [|discriminate]. injection E as <- <-.
    destruct (src_val f h env x) as [tx|] eqn:Vx; [|discriminate].
    destruct (src_vals f h env r) as [tr|] eqn:Vr; [|discriminate]. injection V as <-.
    destruct (store_src_extends _ _ _ _ _ Ex) as [e1 ->]. destruct (store_srcs_extends' _ _ _ _ _ Er) as [e2 ->].
    cbn [reify_list]. rewrite (reify_extends _ _ e2 _ _ (Hx _ _ _ _ _ Ex Vx)).
    rewrite (IHr _ _ _ _ Er (src_vals_extends env f h e1 _ _ Vr)). reflexivity. Qed.
Lemma store_kvs_reify env f l : Forall (fun kv => src_reifies env (snd kv)) l -> forall h h1 vs ts,
  store_kvs env h l = Some (h1, vs) -> src_kvs f h env l = Some ts -> reify_kvs f h1 vs = Some ts.
Proof. induction 1 as [|[k x] r Hx _ IHr]; intros h h1 vs ts E V; cbn [store_kvs src_kvs] in *.
  - injection E as <- <-. injection V as <-. reflexivity.
  - cbn [snd] in Hx. destruct (store_src env h x) as [[ha v]|] eqn:Ex; [|discriminate].
    destruct (store_kvs env ha r) as [[hb vs']|] eqn:Er; [|discriminate]. injection E as <- <-.
    destruct (src_val f h env x) as [tx|] eqn:Vx; [|discriminate].
    destruct (src_kvs f h env r) as [tr|] eqn:Vr; [|discriminate]. injection V as <-.
    destruct (store_src_extends _ _ _ _ _ Ex) as [e1 ->]. destruct (store_kvs_extends' _ _ _ _ _ Er) as [e2 ->].
    apply reify_kvs_aset.
    + exact (reify_extends _ _ e2 _ _ (Hx _ _ _ _ _ Ex Vx)).
    + exact (IHr _ _ _ _ Er (src_kvs_extends env f h e1 _ _ Vr)). Qed.

Theorem store_src_reify : forall env n f h h' v t,
  store_src env h n = Some (h', v) -> src_val f h env n = Some t -> reify f h' v = Some t.
Proof. intros env n. change (src_reifies env n). induction n as [o|l IH|kvs IH] using nsrc_ind'; intros f h h' v t E V.
  - rewrite store_src_op in E. rewrite src_val_op in V. destruct (eval_operand env o) as [x|]; [|discriminate].
    injection E as <- <-. exact V.
  - destruct f as [|f]; [rewrite src_val_slice0 in V; discriminate|]. rewrite src_val_slice in V. rewrite store_src_slice in E.
    destruct (store_srcs env h l) as [[h1 vs]|] eqn:El; [|discriminate]. injection E as <- <-.
    destruct (src_vals f h env l) as [ts|] eqn:Vl; [|discriminate]. injection V as <-.
    rewrite reify_S, get_list_new.
    rewrite (reify_list_extends _ _ [CList vs] _ _ (store_srcs_reify env f l IH _ _ _ _ El Vl)). reflexivity.
  - destruct f as [|f]; [rewrite src_val_map0 in V; discriminate|]. rewrite src_val_map in V. rewrite store_src_map in E.
    destruct (store_kvs env h kvs) as [[h1 vs]|] eqn:El; [|discriminate]. injection E as <- <-.
    destruct (src_kvs f h env kvs) as [ts|] eqn:Vl; [|discriminate]. injection V as <-.
    rewrite reify_S, get_obj_new.
    rewrite (reify_kvs_extends _ _ [CObj vs] _ _ (store_kvs_reify env f kvs IH _ _ _ _ El Vl)). reflexivity. Qed.

(* "for enough fuel": when every leaf of the source can be read in h, the denotation is defined from some fuel on,
   it no longer depends on the fuel, and it is what the stored value reads back as *)
Inductive occurs (o : operand) : nsrc -> Prop :=
| occ_op : occurs o (NOp o)
| occ_slice l x : In x l -> occurs o x -> occurs o (NSlice l)
| occ_map kvs k x : In (k, x) kvs -> occurs o x -> occurs o (NMap kvs).

Definition src_mono (env : list hval) (n : nsrc) : Prop :=
  forall f f' h t, f <= f' -> src_val f h env n = Some t -> src_val f' h env n = Some t.
Lemma src_val_fuel_mono env : forall n, src_mono env n.
Proof. induction n as [o|l IH|kvs IH] using nsrc_ind'; intros f f' h t L E.
  - rewrite src_val_op in *. destruct (eval_operand env o) as [v|]; [|discriminate]. exact (reify_fuel_mono _ _ _ _ _ L E).
  - destruct f as [|f]; [rewrite src_val_slice0 in E; discriminate|]. destruct f' as [|f']; [lia|]. assert (L': f <= f') by lia.
    rewrite src_val_slice in *. destruct (src_vals f h env l) as [ts|] eqn:El; [|discriminate].
    assert (A: src_vals f' h env l = Some ts).
    { clear E. revert ts El. induction IH as [|x r Hx _ IHr]; intros ts El; cbn [src_vals] in *; [exact El|].
      destruct (src_val f h env x) as [x'|] eqn:Ex; [|discriminate].
      destruct (src_vals f h env r) as [r'|] eqn:Er; [|discriminate].
      rewrite (Hx _ _ _ _ L' Ex), (IHr _ eq_refl). exact El. }
    rewrite A. exact E.
  - destruct f as [|f]; [rewrite src_val_map0 in E; discriminate|]. destruct f' as [|f']; [lia|]. assert (L': f <= f') by lia.
    rewrite src_val_map in *. destruct (src_kvs f h env kvs) as [ts|] eqn:El; [|discriminate].
    assert (A: src_kvs f' h env kvs = Some ts).
    { clear E. revert ts El. induction IH as [|[k x] r Hx _ IHr]; intros ts El; cbn [src_kvs] in *; [exact El|].
      cbn [snd] in Hx. destruct (src_val f h env x) as [x'|] eqn:Ex; [|discriminate].
      destruct (src_kvs f h env r) as [r'|] eqn:Er; [|discriminate].
      rewrite (Hx _ _ _ _ L' Ex), (IHr _ eq_refl). exact El. }
    rewrite A. exact E. Qed.

Lemma src_vals_fuel_mono env h : forall l f f' ts, f <= f' -> src_vals f h env l = Some ts -> src_vals f' h env l = Some ts.
Proof. induction l as [|y q IHq]; intros f f' ts L E; cbn [src_vals] in *; [exact E|].
  destruct (src_val f h env y) as [y'|] eqn:Ey; [|discriminate].
  destruct (src_vals f h env q) as [q'|] eqn:Eq; [|discriminate].
  rewrite (src_val_fuel_mono env y _ _ _ _ L Ey), (IHq _ _ _ L Eq). exact E. Qed.
Lemma src_kvs_fuel_mono env h : forall l f f' ts, f <= f' -> src_kvs f h env l = Some ts -> src_kvs f' h env l = Some ts.
Proof. induction l as [|[k y] q IHq]; intros f f' ts L E; cbn [src_kvs] in *; [exact E|].
  destruct (src_val f h env y) as [y'|] eqn:Ey; [|discriminate].
  destruct (src_kvs f h env q) as [q'|] eqn:Eq; [|discriminate].
  rewrite (src_val_fuel_mono env y _ _ _ _ L Ey), (IHq _ _ _ L Eq). exact E. Qed.

Definition leaves_readable (env : list hval) (h : heap) (f0 : nat) (n : nsrc) : Prop :=
  forall o, occurs o n -> exists x t, eval_operand env o = Some x /\ reify f0 h x = Some t.

Lemma src_val_defined env h f0 : forall n, leaves_readable env h f0 n -> exists f t, src_val f h env n = Some t.
Proof. induction n as [o|l IH|kvs IH] using nsrc_ind'; intros R.
  - destruct (R o (occ_op o)) as [x [t [E1 E2]]]. exists f0, t. rewrite src_val_op, E1. exact E2.
  - assert (A: exists f ts, src_vals f h env l = Some ts).
    { assert (R': forall x, In x l -> leaves_readable env h f0 x)
        by (intros x I o O; exact (R o (occ_slice o l x I O))).
      clear R. induction IH as [|x r Hx _ IHr]; [exists 0, []; reflexivity|].
      destruct (Hx (R' x (or_introl eq_refl))) as [f1 [tx Ex]].
      destruct (IHr (fun y I => R' y (or_intror I))) as [f2 [tr Er]].
      exists (Nat.max f1 f2), (tx :: tr). cbn [src_vals].
      rewrite (src_val_fuel_mono env x f1 (Nat.max f1 f2) h tx (Nat.le_max_l _ _) Ex).
      rewrite (src_vals_fuel_mono env h r f2 (Nat.max f1 f2) tr (Nat.le_max_r _ _) Er). reflexivity. }
    destruct A as [f [ts E]]. exists (S f), (VList ts). rewrite src_val_slice, E. reflexivity.
  - assert (A: exists f ts, src_kvs f h env kvs = Some ts).
    { assert (R': forall k x, In (k, x) kvs -> leaves_readable env h f0 x)
        by (intros k x I o O; exact (R o (occ_map o kvs k x I O))).
      clear R. induction IH as [|[k x] r Hx _ IHr]; [exists 0, []; reflexivity|].
      cbn [snd] in Hx. destruct (Hx (R' k x (or_introl eq_refl))) as [f1 [tx Ex]].
      destruct (IHr (fun k' y I => R' k' y (or_intror I))) as [f2 [tr Er]].
      exists (Nat.max f1 f2), (aset k tx tr). cbn [src_kvs].
      rewrite (src_val_fuel_mono env x f1 (Nat.max f1 f2) h tx (Nat.le_max_l _ _) Ex).
      rewrite (src_kvs_fuel_mono env h r f2 (Nat.max f1 f2) tr (Nat.le_max_r _ _) Er). reflexivity. }
    destruct A as [f [ts E]]. exists (S f), (VObj ts). rewrite src_val_map, E. reflexivity. Qed.

Theorem store_src_reify_enough : forall env h n h' v f0, leaves_readable env h f0 n -> store_src env h n = Some (h', v) ->
  exists f1 t, forall f, f1 <= f -> src_val f h env n = Some t /\ reify f h' v = src_val f h env n.
Proof. intros env h n h' v f0 R E. destruct (src_val_defined env h f0 n R) as [f1 [t V]]. exists f1, t. intros f L.
  pose proof (src_val_fuel_mono env n f1 f h t L V) as V'. split; [exact V'|]. rewrite V'.
  exact (store_src_reify env n f h h' v t E V'). Qed.

(* the statement is not vacuous: a nested source with a shared existing container and a repeated key *)
Example store_src_reify_instance :
  let h := [CList [HInt 1%Z; HStr []]] in
  let env := [HL 0] in
  let n := NSlice [NOp (Reg 0); NMap [(B"a", NOp (Lit (HInt 2%Z))); (B"a", NSlice [NOp (Reg 0)]); (B"b", NOp (Lit HNil))]] in
  exists h' v t, store_src env h n = Some (h', v) /\ src_val 5 h env n = Some t /\ reify 5 h' v = Some t /\
    t = VList [VList [VInt 1%Z; VStr []]; VObj [(B"b", VNil); (B"a", VInt 2%Z)]].
Proof. vm_compute. do 3 eexists. repeat split; reflexivity. Qed.

Print Assumptions xstep_core_base.
Print Assumptions xstep_base.
Print Assumptions xrun_base.
Print Assumptions xderiving_base.
Print Assumptions map_loop_extends.
Print Assumptions omap_loop_extends.
Print Assumptions store_src_extends.
Print Assumptions xderiving_frame.
Print Assumptions xcreated_is_fresh.
Print Assumptions filter_loop_spec.
Print Assumptions xfilter_content.
Print Assumptions xfilterk_content.
Print Assumptions map_loop_MId.
Print Assumptions map_loop_length.
Print Assumptions xexec_base.
Print Assumptions x_mutating_the_result_leaves_old_cells.
Print Assumptions x_mutating_old_containers_leaves_the_result.
Print Assumptions hkind_kind_of.
Print Assumptions slicek_bridge.
Print Assumptions allk_bridge.
Print Assumptions allnumeric_bridge.
Print Assumptions vcanon_idem.
Print Assumptions store_src_reify.
Print Assumptions store_src_reify_enough.

(* ================= the observers of HeapExt.v are the pure models applied to what the heap holds ================= *)
Section XObservers.
  Variable fadd fmul fdiv : Z -> Z -> Z.
  Variable of_int : Z -> Z.
  Notation xsc := (xstep_core fadd fmul fdiv of_int).

  (* aggregates: the model of Aggregates.v on the element sequence; the state is untouched *)
  Theorem xagg_step : forall s a r id l, reg_list s r = Some (id, l) ->
    xsc s (XLAgg a r) = (s, agg_model fadd fmul fdiv of_int a (map val_of_hscalar l)).
  Proof. intros s a r id l H. cbn [xstep_core]. rewrite H. reflexivity. Qed.

  (* String / NativeSlice / NativeDict denote the value tree of the container (members sorted), and change nothing *)
  Theorem xstring_step : forall s r v t, nth_error (st_env s) r = Some v -> reify (fuel_of (st_heap s)) (st_heap s) v = Some t ->
    xsc s (XString r) = (s, XRet (XTree (vcanon t))) /\ xsc s (XNative r) = (s, XRet (XTree (vcanon t))).
  Proof. intros s r v t H R. cbn [xstep_core]. rewrite H, R. split; reflexivity. Qed.

  (* FormatString: panics exactly outside 0..10, otherwise denotes the same data as String; never changes the state *)
  Theorem xformat_step : forall s r n v t, nth_error (st_env s) r = Some v -> reify (fuel_of (st_heap s)) (st_heap s) v = Some t ->
    xsc s (XFormat r n) = (s, if ((n <? 0) || (10 <? n))%Z then XPan else XRet (XTree (vcanon t))).
  Proof. intros s r n v t H R. cbn [xstep_core]. rewrite H. destruct ((n <? 0) || (10 <? n))%Z; [reflexivity | rewrite R; reflexivity]. Qed.
  Theorem xformat_panics_iff : forall s r n v t, nth_error (st_env s) r = Some v -> reify (fuel_of (st_heap s)) (st_heap s) v = Some t ->
    (snd (xsc s (XFormat r n)) = XPan <-> (n < 0 \/ 10 < n)%Z).
  Proof. intros s r n v t H R. rewrite (xformat_step s r n v t H R). cbn [snd].
    destruct (n <? 0)%Z eqn:A; destruct (10 <? n)%Z eqn:B; cbn [orb]; split; intros X; try reflexivity; try discriminate X; try lia. Qed.

  (* typed slices, typed ForEach logs, the All family: read off the element sequence, state untouched *)
  Theorem xslicek_step : forall s k r id l, reg_list s r = Some (id, l) ->
    xsc s (XLSliceK k r) = (s, XRet (XO (OVs (filter (sel_kind k) l)))) /\
    xsc s (XLForEachK k r) = (s, XRet (XO (OVs (filter (sel_kind k) l)))) /\
    xsc s (XLAll k r) = (s, XRet (XO (OB (forallb (sel_kind k) l)))).
  Proof. intros s k r id l H. cbn [xstep_core]. rewrite H, filter_loop_spec. repeat split; reflexivity. Qed.
End XObservers.

Print Assumptions xagg_step.
Print Assumptions xstring_step.
Print Assumptions xformat_step.
Print Assumptions xformat_panics_iff.
Print Assumptions xslicek_step.
