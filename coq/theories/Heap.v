(* Heap.v — the reference-semantics model: containers have identity, scalars are values.
   A heap is a list of cells; a container id is a position in it; allocation appends.
   Lists are plain sequences here (the slice-level model with backing arrays is Slice.v, proved to refine this one). *)
From Anytype Require Import Base FloatBits Value GoInt Sorting Equality.
Local Open Scope Z_scope.

Inductive hval : Type :=
| HNil | HBool (b : bool) | HInt (z : Z) | HFloat (bits : Z) | HStr (s : bytes)
| HL (id : nat)      (* a List *)
| HO (id : nat).     (* an Object *)

Inductive cell : Type :=
| CList (l : list hval)
| CObj (kvs : list (bytes * hval)).

Definition heap := list cell.

Definition hkind (v : hval) : kind :=
  match v with
  | HNil => KNil | HBool _ => KBool | HInt _ => KInt | HFloat _ => KFloat | HStr _ => KString
  | HL _ => KList | HO _ => KObject
  end.

(* Go's == on the `any` values the library compares (Contains, IndexOf, KeyOf): scalars by dynamic type and value,
   containers by identity *)
Definition hval_go_eq (a b : hval) : bool :=
  match a, b with
  | HNil, HNil => true
  | HBool x, HBool y => Bool.eqb x y
  | HInt x, HInt y => x =? y
  | HFloat x, HFloat y => feq x y
  | HStr x, HStr y => bytes_eqb x y
  | HL i, HL j => Nat.eqb i j
  | HO i, HO j => Nat.eqb i j
  | _, _ => false
  end.

(* exact equality (bit patterns, ids) *)
Definition hval_eqb (a b : hval) : bool :=
  match a, b with
  | HNil, HNil => true
  | HBool x, HBool y => Bool.eqb x y
  | HInt x, HInt y => x =? y
  | HFloat x, HFloat y => x =? y
  | HStr x, HStr y => bytes_eqb x y
  | HL i, HL j => Nat.eqb i j
  | HO i, HO j => Nat.eqb i j
  | _, _ => false
  end.

Definition get_list (h : heap) (id : nat) : option (list hval) :=
  match nth_error h id with Some (CList l) => Some l | _ => None end.
Definition get_obj (h : heap) (id : nat) : option (list (bytes * hval)) :=
  match nth_error h id with Some (CObj kvs) => Some kvs | _ => None end.
Definition alloc (h : heap) (c : cell) : heap * nat := (h ++ [c], length h).

(* ================= sequence-level list operations (list_impl.go) ================= *)

Definition in_range (i : Z) (n : nat) : bool := (0 <=? i) && (i <? Z.of_nat n).

Definition l_get (l : list hval) (i : Z) : res hval :=
  if in_range i (length l) then match nth_error l (Z.to_nat i) with Some v => Ok v | None => Panic end else Panic.

Definition l_typeof (l : list hval) (i : Z) : kind :=
  if in_range i (length l) then match nth_error l (Z.to_nat i) with Some v => hkind v | None => KUndefined end else KUndefined.

Definition l_insert (l : list hval) (i : Z) (v : hval) : res (list hval) :=
  if (i <? 0) || (Z.of_nat (length l) <? i) then Panic
  else Ok (firstn (Z.to_nat i) l ++ v :: skipn (Z.to_nat i) l).

Definition l_replace (l : list hval) (i : Z) (v : hval) : res (list hval) :=
  if in_range i (length l) then Ok (upd l (Z.to_nat i) v) else Panic.

Definition remove_nth {A} (n : nat) (l : list A) : list A := firstn n l ++ skipn (S n) l.

(* Delete: sort.Ints(indexes) when more than one, then from the highest down; a bad index panics AFTER the earlier removals *)
Fixpoint delete_desc (l : list hval) (idxs : list Z) : list hval * bool :=
  match idxs with
  | [] => (l, false)
  | i :: t => if in_range i (length l) then delete_desc (remove_nth (Z.to_nat i) l) t else (l, true)
  end.
Definition l_delete (l : list hval) (idxs : list Z) : list hval * bool :=
  delete_desc l (rev (isort Z.leb idxs)).

Definition l_pop (l : list hval) : list hval * bool := l_delete l [Z.of_nat (length l) - 1].

Definition l_sublist (l : list hval) (s e : Z) : res (list hval) :=
  let n := Z.of_nat (length l) in
  if (n <? e) || (e <? - n) then Panic
  else let e' := if e <=? 0 then n + e else e in
       if e' <? s then Panic
       else if s <? 0 then Panic
       else Ok (firstn (Z.to_nat (e' - s)) (skipn (Z.to_nat s) l)).

Fixpoint l_index_of (l : list hval) (v : hval) (i : Z) : Z :=
  match l with [] => -1 | x :: t => if hval_go_eq x v then i else l_index_of t v (i + 1) end.
Definition l_contains (l : list hval) (v : hval) : bool := existsb (fun x => hval_go_eq x v) l.

(* Sort works on the scalar elements of the first element's kind (Sorting.v, on values) *)
Definition val_of_hscalar (v : hval) : val :=
  match v with
  | HNil => VNil | HBool b => VBool b | HInt z => VInt z | HFloat b => VFloat b | HStr s => VStr s
  | HL _ => VList [] | HO _ => VObj []
  end.
Definition hscalar_of_val (v : val) : hval :=
  match v with
  | VNil => HNil | VBool b => HBool b | VInt z => HInt z | VFloat b => HFloat b | VStr s => HStr s
  | _ => HNil
  end.
Definition l_sort (l : list hval) : res (list hval) :=
  match sort_model (map val_of_hscalar l) with Ok s => Ok (map hscalar_of_val s) | Panic => Panic end.

(* ================= operations on the heap ================= *)

Inductive out : Type :=
| ONone
| OV (v : hval)
| OZ (z : Z)
| OB (b : bool)
| OKind (k : kind)
| OVs (l : list hval)
| OKVs (kvs : list (bytes * hval))
| OBad.                                   (* ill-typed program or an inconsistent oracle choice: never produced by a sound run *)
Inductive outcome : Type := Ret (o : out) | Pan.

Definition set_list (h : heap) (id : nat) (l : list hval) : heap := upd h id (CList l).
Definition set_obj (h : heap) (id : nat) (kvs : list (bytes * hval)) : heap := upd h id (CObj kvs).

(* typed getter on top of an untyped Get result *)
Definition typed (k : kind) (r : res hval) : outcome :=
  match r with
  | Panic => Pan
  | Ok v => if kind_eqb (hkind v) k then Ret (OV v) else Pan
  end.
Definition untyped (r : res hval) : outcome := match r with Ok v => Ret (OV v) | Panic => Pan end.

Definition o_get (kvs : list (bytes * hval)) (k : bytes) : res hval :=
  match alookup k kvs with Some v => Ok v | None => Panic end.
Definition o_typeof (kvs : list (bytes * hval)) (k : bytes) : kind :=
  match alookup k kvs with Some v => hkind v | None => KUndefined end.

(* Set(values...): odd count panics before any effect; a non-string key panics after the earlier pairs were stored *)
Fixpoint o_set_pairs (kvs : list (bytes * hval)) (args : list hval) : list (bytes * hval) * bool :=
  match args with
  | HStr k :: v :: t => o_set_pairs (aset k v kvs) t
  | [] => (kvs, false)
  | _ => (kvs, true)
  end.
Definition o_set (kvs : list (bytes * hval)) (args : list hval) : list (bytes * hval) * bool :=
  if Nat.odd (length args) then (kvs, true) else o_set_pairs kvs args.

Definition o_unset (kvs : list (bytes * hval)) (keys : list bytes) : list (bytes * hval) :=
  fold_left (fun acc k => aremove k acc) keys kvs.

Definition o_contains (kvs : list (bytes * hval)) (v : hval) : bool := existsb (fun kv => hval_go_eq (snd kv) v) kvs.

(* is [order] an enumeration of exactly the keys of kvs? (the runtime's map iteration order, reported by the harness) *)
Fixpoint remove_key (k : bytes) (l : list bytes) : option (list bytes) :=
  match l with
  | [] => None
  | x :: t => if bytes_eqb k x then Some t else match remove_key k t with Some t' => Some (x :: t') | None => None end
  end.
Fixpoint is_key_perm (order keys : list bytes) : bool :=
  match order with
  | [] => match keys with [] => true | _ => false end
  | k :: t => match remove_key k keys with Some keys' => is_key_perm t keys' | None => false end
  end.
Definition in_order (kvs : list (bytes * hval)) (order : list bytes) : option (list (bytes * hval)) :=
  if is_key_perm order (akeys kvs)
  then Some (flat_map (fun k => match alookup k kvs with Some v => [(k, v)] | None => [] end) order)
  else None.

(* ---------- deep copy (Clone): fuel bounds the nesting depth; None = fuel exhausted (cyclic or too deep) ---------- *)
Fixpoint clone_val (fuel : nat) (h : heap) (v : hval) : option (heap * hval) :=
  match fuel with
  | O => None
  | S f =>
      match v with
      | HL id =>
          match get_list h id with
          | None => None
          | Some l =>
              match (fix go (h : heap) (l : list hval) : option (heap * list hval) :=
                       match l with
                       | [] => Some (h, [])
                       | x :: t => match clone_val f h x with
                                   | None => None
                                   | Some (h1, x') => match go h1 t with Some (h2, t') => Some (h2, x' :: t') | None => None end
                                   end
                       end) h l with
              | None => None
              | Some (h1, l') => let '(h2, id') := alloc h1 (CList l') in Some (h2, HL id')
              end
          end
      | HO id =>
          match get_obj h id with
          | None => None
          | Some kvs =>
              match (fix go (h : heap) (l : list (bytes * hval)) : option (heap * list (bytes * hval)) :=
                       match l with
                       | [] => Some (h, [])
                       | (k, x) :: t => match clone_val f h x with
                                        | None => None
                                        | Some (h1, x') => match go h1 t with Some (h2, t') => Some (h2, (k, x') :: t') | None => None end
                                        end
                       end) h kvs with
              | None => None
              | Some (h1, kvs') => let '(h2, id') := alloc h1 (CObj kvs') in Some (h2, HO id')
              end
          end
      | _ => Some (h, v)
      end
  end.

(* ---------- reading a heap value as a pure tree ---------- *)
Fixpoint reify (fuel : nat) (h : heap) (v : hval) : option val :=
  match fuel with
  | O => None
  | S f =>
      match v with
      | HNil => Some VNil | HBool b => Some (VBool b) | HInt z => Some (VInt z) | HFloat b => Some (VFloat b) | HStr s => Some (VStr s)
      | HL id =>
          match get_list h id with
          | None => None
          | Some l =>
              match (fix go (l : list hval) : option (list val) :=
                       match l with
                       | [] => Some []
                       | x :: t => match reify f h x, go t with Some x', Some t' => Some (x' :: t') | _, _ => None end
                       end) l with
              | Some l' => Some (VList l') | None => None
              end
          end
      | HO id =>
          match get_obj h id with
          | None => None
          | Some kvs =>
              match (fix go (l : list (bytes * hval)) : option (list (bytes * val)) :=
                       match l with
                       | [] => Some []
                       | (k, x) :: t => match reify f h x, go t with Some x', Some t' => Some ((k, x') :: t') | _, _ => None end
                       end) kvs with
              | Some kvs' => Some (VObj kvs') | None => None
              end
          end
      end
  end.

(* ================= tree form (GetTF / SetTF / UnsetTF / TypeOfTF) ================= *)

Fixpoint index_byte (c : byte) (s : bytes) : option nat :=
  match s with [] => None | x :: t => if byte_eqb x c then Some O else option_map S (index_byte c t) end.

(* the three-way split both containers perform on tf[1:]:
   dot > 0 && (hash < 0 || dot < hash)  -> SegDot dot
   hash > 0 && (dot < 0 || hash < dot)  -> SegHash hash
   otherwise                            -> SegLeaf *)
Inductive seg_split := SegDot (n : nat) | SegHash (n : nat) | SegLeaf.
Definition split_tf (tf : bytes) : seg_split :=
  let dot := index_byte x2e tf in
  let hash := index_byte x23 tf in
  match dot, hash with
  | Some (S d), None => SegDot (S d)
  | Some (S d), Some hh => if Nat.ltb (S d) hh then SegDot (S d)
                           else match hh with S h' => (* hash > 0 and hash < dot (they cannot be equal) *) SegHash hh | O => SegLeaf end
  | Some O, Some (S h') => SegLeaf   (* dot = 0: first test fails; second: hash > 0 but not (dot < 0 || hash < dot) *)
  | None, Some (S h') => SegHash (S h')
  | _, _ => SegLeaf
  end.

Definition valid_head (sigil : byte) (tf : bytes) : option bytes :=
  match tf with
  | c :: ((_ :: _) as rest) => if byte_eqb c sigil then Some rest else None
  | _ => None
  end.

(* GetTF: read-only; Panic on any step that cannot be taken *)
Fixpoint get_tf (fuel : nat) (h : heap) (v : hval) (tf : bytes) : res hval :=
  match fuel with
  | O => Panic
  | S f =>
      match v with
      | HL id =>
          match get_list h id, valid_head x23 tf with
          | Some l, Some rest =>
              match split_tf rest with
              | SegDot d =>
                  match pint0 (firstn d rest) with
                  | None => Panic
                  | Some i => match l_get l i with
                              | Ok (HO o) => get_tf f h (HO o) (skipn d rest)
                              | _ => Panic
                              end
                  end
              | SegHash d =>
                  match pint0 (firstn d rest) with
                  | None => Panic
                  | Some i => match l_get l i with
                              | Ok (HL o) => get_tf f h (HL o) (skipn d rest)
                              | _ => Panic
                              end
                  end
              | SegLeaf => match pint0 rest with None => Panic | Some i => l_get l i end
              end
          | _, _ => Panic
          end
      | HO id =>
          match get_obj h id, valid_head x2e tf with
          | Some kvs, Some rest =>
              match split_tf rest with
              | SegDot d => match o_get kvs (firstn d rest) with
                            | Ok (HO o) => get_tf f h (HO o) (skipn d rest)
                            | _ => Panic
                            end
              | SegHash d => match o_get kvs (firstn d rest) with
                             | Ok (HL o) => get_tf f h (HL o) (skipn d rest)
                             | _ => Panic
                             end
              | SegLeaf => o_get kvs rest
              end
          | _, _ => Panic
          end
      | _ => Panic
      end
  end.

(* TypeOfTF: never panics *)
Fixpoint typeof_tf (fuel : nat) (h : heap) (v : hval) (tf : bytes) : kind :=
  match fuel with
  | O => KUndefined
  | S f =>
      match v with
      | HL id =>
          match get_list h id, valid_head x23 tf with
          | Some l, Some rest =>
              match split_tf rest with
              | SegDot d =>
                  match pint0 (firstn d rest) with
                  | None => KUndefined
                  | Some i => match l_get l i with
                              | Ok (HO o) => typeof_tf f h (HO o) (skipn d rest)
                              | _ => KUndefined
                              end
                  end
              | SegHash d =>
                  match pint0 (firstn d rest) with
                  | None => KUndefined
                  | Some i => match l_get l i with
                              | Ok (HL o) => typeof_tf f h (HL o) (skipn d rest)
                              | _ => KUndefined
                              end
                  end
              | SegLeaf => match pint0 rest with None => KUndefined | Some i => l_typeof l i end
              end
          | _, _ => KUndefined
          end
      | HO id =>
          match get_obj h id, valid_head x2e tf with
          | Some kvs, Some rest =>
              match split_tf rest with
              | SegDot d => match alookup (firstn d rest) kvs with
                            | Some (HO o) => typeof_tf f h (HO o) (skipn d rest)
                            | _ => KUndefined
                            end
              | SegHash d => match alookup (firstn d rest) kvs with
                             | Some (HL o) => typeof_tf f h (HL o) (skipn d rest)
                             | _ => KUndefined
                             end
              | SegLeaf => o_typeof kvs rest
              end
          | _, _ => KUndefined
          end
      | _ => KUndefined
      end
  end.

(* pad a list with nil up to [index] and append x (index >= count), as the three list branches of SetTF do *)
Definition pad_add (l : list hval) (index : Z) (x : hval) : list hval :=
  l ++ repeat_list HNil (Z.to_nat (index - Z.of_nat (length l))) ++ [x].

(* SetTF: effects happen in program order, so a panic deep in the path leaves the earlier writes in place *)
Fixpoint set_tf (fuel : nat) (h : heap) (v : hval) (tf : bytes) (x : hval) : heap * bool (* panicked *) :=
  match fuel with
  | O => (h, true)
  | S f =>
      match v with
      | HL id =>
          match get_list h id, valid_head x23 tf with
          | Some l, Some rest =>
              let count := Z.of_nat (length l) in
              match split_tf rest with
              | SegDot d =>
                  match pint0 (firstn d rest) with
                  | None => (h, true)
                  | Some i =>
                      if count <=? i then
                        let '(h1, o) := alloc h (CObj []) in
                        set_tf f (set_list h1 id (pad_add l i (HO o))) (HO o) (skipn d rest) x
                      else match l_typeof l i, l_get l i with
                           | KObject, Ok (HO o) => set_tf f h (HO o) (skipn d rest) x
                           | _, _ =>
                               let '(h1, o) := alloc h (CObj []) in
                               match l_replace l i (HO o) with
                               | Panic => (h1, true)
                               | Ok l' => set_tf f (set_list h1 id l') (HO o) (skipn d rest) x
                               end
                           end
                  end
              | SegHash d =>
                  match pint0 (firstn d rest) with
                  | None => (h, true)
                  | Some i =>
                      if count <=? i then
                        let '(h1, o) := alloc h (CList []) in
                        set_tf f (set_list h1 id (pad_add l i (HL o))) (HL o) (skipn d rest) x
                      else match l_typeof l i, l_get l i with
                           | KList, Ok (HL o) => set_tf f h (HL o) (skipn d rest) x
                           | _, _ =>
                               let '(h1, o) := alloc h (CList []) in
                               match l_replace l i (HL o) with
                               | Panic => (h1, true)
                               | Ok l' => set_tf f (set_list h1 id l') (HL o) (skipn d rest) x
                               end
                           end
                  end
              | SegLeaf =>
                  match pint0 rest with
                  | None => (h, true)
                  | Some i =>
                      if count <=? i then (set_list h id (pad_add l i x), false)
                      else match l_replace l i x with
                           | Panic => (h, true)
                           | Ok l' => (set_list h id l', false)
                           end
                  end
              end
          | _, _ => (h, true)
          end
      | HO id =>
          match get_obj h id, valid_head x2e tf with
          | Some kvs, Some rest =>
              match split_tf rest with
              | SegDot d =>
                  let key := firstn d rest in
                  match alookup key kvs with
                  | Some (HO o) => set_tf f h (HO o) (skipn d rest) x
                  | _ => let '(h1, o) := alloc h (CObj []) in
                         set_tf f (set_obj h1 id (aset key (HO o) kvs)) (HO o) (skipn d rest) x
                  end
              | SegHash d =>
                  let key := firstn d rest in
                  match alookup key kvs with
                  | Some (HL o) => set_tf f h (HL o) (skipn d rest) x
                  | _ => let '(h1, o) := alloc h (CList []) in
                         set_tf f (set_obj h1 id (aset key (HL o) kvs)) (HL o) (skipn d rest) x
                  end
              | SegLeaf => (set_obj h id (aset rest x kvs), false)
              end
          | _, _ => (h, true)
          end
      | _ => (h, true)
      end
  end.

Fixpoint unset_tf (fuel : nat) (h : heap) (v : hval) (tf : bytes) : heap * bool :=
  match fuel with
  | O => (h, true)
  | S f =>
      match v with
      | HL id =>
          match get_list h id, valid_head x23 tf with
          | Some l, Some rest =>
              match split_tf rest with
              | SegDot d =>
                  match pint0 (firstn d rest) with
                  | None => (h, true)
                  | Some i => match l_get l i with Ok (HO o) => unset_tf f h (HO o) (skipn d rest) | _ => (h, true) end
                  end
              | SegHash d =>
                  match pint0 (firstn d rest) with
                  | None => (h, true)
                  | Some i => match l_get l i with Ok (HL o) => unset_tf f h (HL o) (skipn d rest) | _ => (h, true) end
                  end
              | SegLeaf =>
                  match pint0 rest with
                  | None => (h, true)
                  | Some i => let '(l', p) := l_delete l [i] in (set_list h id l', p)
                  end
              end
          | _, _ => (h, true)
          end
      | HO id =>
          match get_obj h id, valid_head x2e tf with
          | Some kvs, Some rest =>
              match split_tf rest with
              | SegDot d => match o_get kvs (firstn d rest) with Ok (HO o) => unset_tf f h (HO o) (skipn d rest) | _ => (h, true) end
              | SegHash d => match o_get kvs (firstn d rest) with Ok (HL o) => unset_tf f h (HL o) (skipn d rest) | _ => (h, true) end
              | SegLeaf => (set_obj h id (aremove rest kvs), false)
              end
          | _, _ => (h, true)
          end
      | _ => (h, true)
      end
  end.

(* ================= canonical form of the reachable heap (what the correspondence compares) ================= *)
(* DFS from the variables in order; containers are numbered in order of first visit; object members by sorted key.
   The traversal emits a token stream that is hashed (polynomial hash modulo the Mersenne prime 2^61-1); the Go harness
   computes the same stream from the implementation through the public API. *)
Definition hmod : Z := 2305843009213693951.
Definition hmix (h z : Z) : Z := (h * 1099511628211 + (z mod hmod) + 1) mod hmod.
Definition hmix_bytes (h : Z) (s : bytes) : Z := fold_left (fun h b => hmix h (bZ b)) s (hmix h (Z.of_nat (length s))).

Fixpoint pos_in (ids : list nat) (id : nat) (i : Z) : option Z :=
  match ids with [] => None | x :: t => if Nat.eqb x id then Some i else pos_in t id (i + 1) end.

Definition sorted_kvs (kvs : list (bytes * hval)) : list (bytes * hval) :=
  isort (fun a b => bytes_leb (fst a) (fst b)) kvs.

(* state: (hash, visited ids in order of first visit) *)
Fixpoint canon_val (fuel : nat) (h : heap) (st : Z * list nat) (v : hval) : Z * list nat :=
  let '(hs, seen) := st in
  match v with
  | HNil => (hmix hs 1, seen)
  | HBool b => (hmix (hmix hs 2) (if b then 1 else 0), seen)
  | HInt z => (hmix (hmix hs 3) z, seen)
  | HFloat b => (hmix (hmix hs 4) (if is_nan b then 1 else b), seen)
  | HStr s => (hmix_bytes (hmix hs 5) s, seen)
  | HL id =>
      match pos_in seen id 0 with
      | Some n => (hmix (hmix hs 8) n, seen)
      | None =>
          match fuel, get_list h id with
          | S f, Some l =>
              let st1 := (hmix (hmix (hmix hs 6) (Z.of_nat (length seen))) (Z.of_nat (length l)), seen ++ [id]) in
              fold_left (canon_val f h) l st1
          | _, _ => (hmix hs 99, seen)
          end
      end
  | HO id =>
      match pos_in seen id 0 with
      | Some n => (hmix (hmix hs 8) n, seen)
      | None =>
          match fuel, get_obj h id with
          | S f, Some kvs =>
              let st1 := (hmix (hmix (hmix hs 7) (Z.of_nat (length seen))) (Z.of_nat (length kvs)), seen ++ [id]) in
              fold_left (fun st kv => canon_val f h (hmix_bytes (fst st) (fst kv), snd st) (snd kv)) (sorted_kvs kvs) st1
          | _, _ => (hmix hs 99, seen)
          end
      end
  end.

Definition canon_env (h : heap) (env : list hval) : Z :=
  fst (fold_left (canon_val (S (length h)) h) env (hmix 0 (Z.of_nat (length env)), [])).

(* ================= programs ================= *)
Inductive operand := Lit (v : hval) | Reg (n : nat).

Inductive op : Type :=
(* constructors *)
| NewList (vs : list operand)
| NewListOf (v : operand) (count : Z)
| NewObject (args : list operand)
(* list mutators *)
| LAdd (r : nat) (vs : list operand)
| LInsert (r : nat) (i : Z) (v : operand)
| LReplace (r : nat) (i : Z) (v : operand)
| LDelete (r : nat) (idxs : list Z)
| LPop (r : nat)
| LClear (r : nat)
| LReverse (r : nat)
| LSort (r : nat)
(* list derivers / observers *)
| LSubList (r : nat) (s e : Z)
| LConcat (r a : nat)
| LCount (r : nat)
| LEmpty (r : nat)
| LGet (r : nat) (i : Z)
| LGetTyped (k : kind) (r : nat) (i : Z)
| LTypeOf (r : nat) (i : Z)
| LSlice (r : nat)
| LContains (r : nat) (v : operand)
| LIndexOf (r : nat) (v : operand)
(* object mutators *)
| OSet (r : nat) (args : list operand)
| OUnset (r : nat) (keys : list bytes)
| OClear (r : nat)
(* object derivers / observers *)
| OMerge (r a : nat)
| OPluck (r : nat) (keys : list bytes)
| OGet (r : nat) (k : bytes)
| OGetTyped (kd : kind) (r : nat) (k : bytes)
| OTypeOf (r : nat) (k : bytes)
| OKeyExists (r : nat) (k : bytes)
| OCount (r : nat)
| OEmpty (r : nat)
| OKeys (r : nat) (order : list bytes)         (* order: the enumeration order the runtime used (read off the result) *)
| OValues (r : nat) (order : list bytes)
| ODict (r : nat)
| OContains (r : nat) (v : operand)
| OKeyOf (r : nat) (v : operand) (answer : option bytes)   (* answer: the key the runtime returned *)
(* both *)
| Clone (r : nat)
| Equals (r a : nat)
| GetTF (r : nat) (tf : bytes)
| SetTF (r : nat) (tf : bytes) (v : operand)
| UnsetTF (r : nat) (tf : bytes)
| TypeOfTF (r : nat) (tf : bytes).

Record state := mkState { st_heap : heap; st_env : list hval }.

Definition eval_operand (env : list hval) (o : operand) : option hval :=
  match o with Lit v => Some v | Reg n => nth_error env n end.
Fixpoint eval_operands (env : list hval) (os : list operand) : option (list hval) :=
  match os with
  | [] => Some []
  | o :: t => match eval_operand env o, eval_operands env t with Some v, Some vs => Some (v :: vs) | _, _ => None end
  end.

Definition bad (s : state) : state * outcome := (s, Ret OBad).
Definition with_heap (s : state) (h : heap) : state := mkState h (st_env s).
Definition fuel_of (h : heap) : nat := S (length h).

Definition reg_list (s : state) (r : nat) : option (nat * list hval) :=
  match nth_error (st_env s) r with
  | Some (HL id) => match get_list (st_heap s) id with Some l => Some (id, l) | None => None end
  | _ => None
  end.
Definition reg_obj (s : state) (r : nat) : option (nat * list (bytes * hval)) :=
  match nth_error (st_env s) r with
  | Some (HO id) => match get_obj (st_heap s) id with Some kvs => Some (id, kvs) | None => None end
  | _ => None
  end.

(* a mutator returns its receiver (the fluent result); it is not pushed again *)
Definition step_core (s : state) (o : op) : state * outcome :=
  let h := st_heap s in
  let env := st_env s in
  match o with
  | NewList vs =>
      match eval_operands env vs with
      | Some l => let '(h1, id) := alloc h (CList l) in (with_heap s h1, Ret (OV (HL id)))
      | None => bad s
      end
  | NewListOf v count =>
      match eval_operand env v with
      | Some x => if count <? 0 then (s, Pan)
                  else let '(h1, id) := alloc h (CList (repeat_list x (Z.to_nat count))) in (with_heap s h1, Ret (OV (HL id)))
      | None => bad s
      end
  | NewObject args =>
      match eval_operands env args with
      | Some a => let '(kvs, p) := o_set [] a in
                  if p then (s, Pan) else let '(h1, id) := alloc h (CObj kvs) in (with_heap s h1, Ret (OV (HO id)))
      | None => bad s
      end
  | LAdd r vs =>
      match reg_list s r, eval_operands env vs with
      | Some (id, l), Some xs => (with_heap s (set_list h id (l ++ xs)), Ret ONone)
      | _, _ => bad s
      end
  | LInsert r i v =>
      match reg_list s r, eval_operand env v with
      | Some (id, l), Some x => match l_insert l i x with
                                | Ok l' => (with_heap s (set_list h id l'), Ret ONone)
                                | Panic => (s, Pan)
                                end
      | _, _ => bad s
      end
  | LReplace r i v =>
      match reg_list s r, eval_operand env v with
      | Some (id, l), Some x => match l_replace l i x with
                                | Ok l' => (with_heap s (set_list h id l'), Ret ONone)
                                | Panic => (s, Pan)
                                end
      | _, _ => bad s
      end
  | LDelete r idxs =>
      match reg_list s r with
      | Some (id, l) => let '(l', p) := l_delete l idxs in (with_heap s (set_list h id l'), if p then Pan else Ret ONone)
      | None => bad s
      end
  | LPop r =>
      match reg_list s r with
      | Some (id, l) => let '(l', p) := l_pop l in (with_heap s (set_list h id l'), if p then Pan else Ret ONone)
      | None => bad s
      end
  | LClear r =>
      match reg_list s r with
      | Some (id, l) => (with_heap s (set_list h id []), Ret ONone)
      | None => bad s
      end
  | LReverse r =>
      match reg_list s r with
      | Some (id, l) => (with_heap s (set_list h id (reverse_model l)), Ret ONone)
      | None => bad s
      end
  | LSort r =>
      match reg_list s r with
      | Some (id, l) => match l_sort l with
                        | Ok l' => (with_heap s (set_list h id l'), Ret ONone)
                        | Panic => (s, Pan)
                        end
      | None => bad s
      end
  | LSubList r st e =>
      match reg_list s r with
      | Some (id, l) => match l_sublist l st e with
                        | Ok l' => let '(h1, id') := alloc h (CList l') in (with_heap s h1, Ret (OV (HL id')))
                        | Panic => (s, Pan)
                        end
      | None => bad s
      end
  | LConcat r a =>
      match reg_list s r, reg_list s a with
      | Some (_, l), Some (_, l2) => let '(h1, id') := alloc h (CList (l ++ l2)) in (with_heap s h1, Ret (OV (HL id')))
      | _, _ => bad s
      end
  | LCount r => match reg_list s r with Some (_, l) => (s, Ret (OZ (Z.of_nat (length l)))) | None => bad s end
  | LEmpty r => match reg_list s r with Some (_, l) => (s, Ret (OB (match l with [] => true | _ => false end))) | None => bad s end
  | LGet r i => match reg_list s r with Some (_, l) => (s, untyped (l_get l i)) | None => bad s end
  | LGetTyped k r i => match reg_list s r with Some (_, l) => (s, typed k (l_get l i)) | None => bad s end
  | LTypeOf r i => match reg_list s r with Some (_, l) => (s, Ret (OKind (l_typeof l i))) | None => bad s end
  | LSlice r => match reg_list s r with Some (_, l) => (s, Ret (OVs l)) | None => bad s end
  | LContains r v =>
      match reg_list s r, eval_operand env v with
      | Some (_, l), Some x => (s, Ret (OB (l_contains l x)))
      | _, _ => bad s
      end
  | LIndexOf r v =>
      match reg_list s r, eval_operand env v with
      | Some (_, l), Some x => (s, Ret (OZ (l_index_of l x 0)))
      | _, _ => bad s
      end
  | OSet r args =>
      match reg_obj s r, eval_operands env args with
      | Some (id, kvs), Some a => let '(kvs', p) := o_set kvs a in (with_heap s (set_obj h id kvs'), if p then Pan else Ret ONone)
      | _, _ => bad s
      end
  | OUnset r keys =>
      match reg_obj s r with
      | Some (id, kvs) => (with_heap s (set_obj h id (o_unset kvs keys)), Ret ONone)
      | None => bad s
      end
  | OClear r =>
      match reg_obj s r with
      | Some (id, kvs) => (with_heap s (set_obj h id []), Ret ONone)
      | None => bad s
      end
  | OMerge r a =>
      (* result := receiver.Clone(); another.ForEach(result.Set(key, val)) *)
      match reg_obj s r, reg_obj s a, nth_error env r with
      | Some _, Some (_, kvs2), Some recv =>
          match clone_val (fuel_of h) h recv with
          | Some (h1, HO id') =>
              match get_obj h1 id' with
              | Some kvs1 => (with_heap s (set_obj h1 id' (fold_left (fun acc kv => aset (fst kv) (snd kv) acc) kvs2 kvs1)), Ret (OV (HO id')))
              | None => bad s
              end
          | _ => bad s
          end
      | _, _, _ => bad s
      end
  | OPluck r keys =>
      match reg_obj s r with
      | Some (_, kvs) =>
          match fold_left (fun acc k => match acc with
                                        | None => None
                                        | Some res => match alookup k kvs with Some v => Some (aset k v res) | None => None end
                                        end) keys (Some []) with
          | Some res => let '(h1, id') := alloc h (CObj res) in (with_heap s h1, Ret (OV (HO id')))
          | None => (s, Pan)
          end
      | None => bad s
      end
  | OGet r k => match reg_obj s r with Some (_, kvs) => (s, untyped (o_get kvs k)) | None => bad s end
  | OGetTyped kd r k => match reg_obj s r with Some (_, kvs) => (s, typed kd (o_get kvs k)) | None => bad s end
  | OTypeOf r k => match reg_obj s r with Some (_, kvs) => (s, Ret (OKind (o_typeof kvs k))) | None => bad s end
  | OKeyExists r k => match reg_obj s r with Some (_, kvs) => (s, Ret (OB (match alookup k kvs with Some _ => true | None => false end))) | None => bad s end
  | OCount r => match reg_obj s r with Some (_, kvs) => (s, Ret (OZ (Z.of_nat (length kvs)))) | None => bad s end
  | OEmpty r => match reg_obj s r with Some (_, kvs) => (s, Ret (OB (match kvs with [] => true | _ => false end))) | None => bad s end
  | OKeys r order =>
      match reg_obj s r with
      | Some (_, kvs) => match in_order kvs order with
                         | Some okvs => let '(h1, id') := alloc h (CList (map (fun kv => HStr (fst kv)) okvs)) in (with_heap s h1, Ret (OV (HL id')))
                         | None => bad s
                         end
      | None => bad s
      end
  | OValues r order =>
      match reg_obj s r with
      | Some (_, kvs) => match in_order kvs order with
                         | Some okvs => let '(h1, id') := alloc h (CList (map snd okvs)) in (with_heap s h1, Ret (OV (HL id')))
                         | None => bad s
                         end
      | None => bad s
      end
  | ODict r => match reg_obj s r with Some (_, kvs) => (s, Ret (OKVs (sorted_kvs kvs))) | None => bad s end
  | OContains r v =>
      match reg_obj s r, eval_operand env v with
      | Some (_, kvs), Some x => (s, Ret (OB (o_contains kvs x)))
      | _, _ => bad s
      end
  | OKeyOf r v answer =>
      (* KeyOf returns SOME key holding the value (map iteration order); panics iff none does *)
      match reg_obj s r, eval_operand env v with
      | Some (_, kvs), Some x =>
          match answer with
          | Some k => match alookup k kvs with
                      | Some y => if hval_go_eq y x then (s, Ret (OV (HStr k))) else bad s
                      | None => bad s
                      end
          | None => if o_contains kvs x then bad s else (s, Pan)
          end
      | _, _ => bad s
      end
  | Clone r =>
      match nth_error env r with
      | Some v => match clone_val (fuel_of h) h v with
                  | Some (h1, v') => (with_heap s h1, Ret (OV v'))
                  | None => bad s
                  end
      | None => bad s
      end
  | Equals r a =>
      match nth_error env r, nth_error env a with
      | Some x, Some y => match reify (fuel_of h) h x, reify (fuel_of h) h y with
                          | Some vx, Some vy => (s, Ret (OB (veq vx vy)))
                          | _, _ => bad s
                          end
      | _, _ => bad s
      end
  | GetTF r tf =>
      match nth_error env r with
      | Some v => (s, untyped (get_tf (S (length tf)) h v tf))
      | None => bad s
      end
  | SetTF r tf x =>
      match nth_error env r, eval_operand env x with
      | Some v, Some xv => let '(h1, p) := set_tf (S (length tf)) h v tf xv in (with_heap s h1, if p then Pan else Ret ONone)
      | _, _ => bad s
      end
  | UnsetTF r tf =>
      match nth_error env r with
      | Some v => let '(h1, p) := unset_tf (S (length tf)) h v tf in (with_heap s h1, if p then Pan else Ret ONone)
      | None => bad s
      end
  | TypeOfTF r tf =>
      match nth_error env r with
      | Some v => (s, Ret (OKind (typeof_tf (S (length tf)) h v tf)))
      | None => bad s
      end
  end.

(* a returned container becomes a new variable (so that identity is observable later) *)
Definition step (s : state) (o : op) : state * outcome :=
  let '(s1, oc) := step_core s o in
  match oc with
  | Ret (OV (HL id)) => (mkState (st_heap s1) (st_env s1 ++ [HL id]), oc)
  | Ret (OV (HO id)) => (mkState (st_heap s1) (st_env s1 ++ [HO id]), oc)
  | _ => (s1, oc)
  end.

Definition init_state : state := mkState [] [].

(* trace: after every step, the outcome and the canonical hash of everything reachable from the variables *)
Fixpoint run (s : state) (prog : list op) : list (outcome * Z) :=
  match prog with
  | [] => []
  | o :: t => let '(s1, oc) := step s o in (oc, canon_env (st_heap s1) (st_env s1)) :: run s1 t
  end.
