(* DerivedIndependence.v — a container handed out by a deriving operation (SubList, Concat, Merge, Pluck, Keys, Values,
   Clone) is a NEW cell; mutating it through the method-style mutators never changes a cell that existed before the
   derivation, and mutating the old containers never changes the top-level slots of the result. *)
From Anytype Require Import Base FloatBits Value GoInt Heap HeapProofs Footprint.
Local Open Scope nat_scope.
Arguments clone_val : simpl never.  Arguments reify : simpl never.
Arguments get_tf : simpl never.  Arguments typeof_tf : simpl never.
Arguments set_tf : simpl never.  Arguments unset_tf : simpl never.

Definition creating_op (o : op) : bool :=   (* the deriving operations that hand out a NEW container *)
  match o with
  | LSubList _ _ _ | LConcat _ _ | OMerge _ _ | OPluck _ _ | OKeys _ _ | OValues _ _ | Clone _ => true
  | _ => false
  end.

Definition exec (s : state) (ops : list op) : state := fold_left (fun s o => fst (step s o)) ops s.

Lemma exec_nil s : exec s [] = s. Proof. reflexivity. Qed.
Lemma exec_cons s o ops : exec s (o :: ops) = exec (fst (step s o)) ops. Proof. reflexivity. Qed.

Lemma creating_is_deriving o : creating_op o = true -> deriving_op o = true.
Proof. destruct o; cbn [creating_op deriving_op]; intros H; first [reflexivity | discriminate H]. Qed.

(* ================= (D1) the container handed out did not exist before the call ================= *)
Lemma fresh_alloc (h : heap) (c : cell) (v : hval) id' :
  (HL (length h) = v \/ HO (length h) = v) -> (v = HL id' \/ v = HO id') -> length h <= id' < length (h ++ [c]).
Proof. intros [<- | <-] [E | E]; try discriminate; injection E as <-; rewrite app_length; cbn [length]; lia. Qed.

Theorem created_is_fresh : forall s o out, creating_op o = true -> snd (step_core s o) = Ret (OV out) ->
  forall id', (out = HL id' \/ out = HO id') -> length (st_heap s) <= id' < length (st_heap (fst (step_core s o))).
Proof. intros s o out C. destruct o; cbn [creating_op] in C; try discriminate C; clear C; cbn [step_core]; unfold bad, alloc.
  - (* LSubList *) destruct (reg_list s r) as [[id l]|]; [|cbn [snd]; discriminate].
    destruct (l_sublist l s0 e) as [l'|]; [|cbn [snd]; discriminate].
    cbn [fst snd with_heap st_heap]. intros H id' E. injection H as H. eapply fresh_alloc; [left; exact H | exact E].
  - (* LConcat *) destruct (reg_list s r) as [[id l]|]; [|cbn [snd]; discriminate].
    destruct (reg_list s a) as [[id2 l2]|]; [|cbn [snd]; discriminate].
    cbn [fst snd with_heap st_heap]. intros H id' E. injection H as H. eapply fresh_alloc; [left; exact H | exact E].
  - (* OMerge *) destruct (reg_obj s r) as [[id kvs]|]; [|cbn [snd]; discriminate].
    destruct (reg_obj s a) as [[id2 kvs2]|]; [|cbn [snd]; discriminate].
    destruct (nth_error (st_env s) r) as [recv|]; [|cbn [snd]; discriminate].
    destruct (clone_val (fuel_of (st_heap s)) (st_heap s) recv) as [[h1 v1]|] eqn:CL; [|cbn [snd]; discriminate].
    destruct v1 as [| | | | |i1|i1]; try (cbn [snd]; discriminate).
    destruct (get_obj h1 i1) as [kvs1|] eqn:G1; [|cbn [snd]; discriminate].
    cbn [fst snd with_heap st_heap]. intros H id' E. injection H as <-.
    destruct E as [E | E]; [discriminate|]. injection E as <-.
    unfold set_obj. rewrite upd_length.
    pose proof (clone_val_root_fresh _ _ _ _ _ CL) as RF.
    destruct recv as [| | | | |ir|ir]; try (destruct RF as [RF _]; discriminate RF);
      destruct RF as [j [E1 [L1 L2]]]; try discriminate E1.
    injection E1 as ->. lia.
  - (* OPluck *) destruct (reg_obj s r) as [[id kvs]|]; [|cbn [snd]; discriminate].
    match goal with |- context [fold_left ?f keys (Some [])] => destruct (fold_left f keys (Some [])) as [res|] end;
      [|cbn [snd]; discriminate].
    cbn [fst snd with_heap st_heap]. intros H id' E. injection H as H. eapply fresh_alloc; [right; exact H | exact E].
  - (* OKeys *) destruct (reg_obj s r) as [[id kvs]|]; [|cbn [snd]; discriminate].
    destruct (in_order kvs order) as [okvs|]; [|cbn [snd]; discriminate].
    cbn [fst snd with_heap st_heap]. intros H id' E. injection H as H. eapply fresh_alloc; [left; exact H | exact E].
  - (* OValues *) destruct (reg_obj s r) as [[id kvs]|]; [|cbn [snd]; discriminate].
    destruct (in_order kvs order) as [okvs|]; [|cbn [snd]; discriminate].
    cbn [fst snd with_heap st_heap]. intros H id' E. injection H as H. eapply fresh_alloc; [left; exact H | exact E].
  - (* Clone *) destruct (nth_error (st_env s) r) as [v|]; [|cbn [snd]; discriminate].
    destruct (clone_val (fuel_of (st_heap s)) (st_heap s) v) as [[h1 v1]|] eqn:CL; [|cbn [snd]; discriminate].
    cbn [fst snd with_heap st_heap]. intros H id' E. injection H as <-.
    pose proof (clone_val_root_fresh _ _ _ _ _ CL) as RF.
    destruct v as [| | | | |ir|ir];
      try (destruct RF as [-> _]; destruct E as [E | E]; discriminate E);
      destruct RF as [j [-> [L1 L2]]]; destruct E as [E | E]; try discriminate E; injection E as <-; lia.
Qed.

(* ================= a method-style mutator returns no container, so `step` creates no register ================= *)
Lemma basic_mutator_outcome : forall s o r, basic_mutator o = Some r ->
  snd (step_core s o) = Pan \/ snd (step_core s o) = Ret ONone \/ snd (step_core s o) = Ret OBad.
Proof. intros s o r B. destruct o; cbn [basic_mutator] in B; try discriminate B; clear B; cbn [step_core]; unfold bad.
  - destruct (reg_list s r0) as [[id l]|]; [|auto]. destruct (eval_operands (st_env s) vs); auto.
  - destruct (reg_list s r0) as [[id l]|]; [|auto]. destruct (eval_operand (st_env s) v) as [x|]; [|auto].
    destruct (l_insert l i x); auto.
  - destruct (reg_list s r0) as [[id l]|]; [|auto]. destruct (eval_operand (st_env s) v) as [x|]; [|auto].
    destruct (l_replace l i x); auto.
  - destruct (reg_list s r0) as [[id l]|]; [|auto]. destruct (l_delete l idxs) as [l' [|]]; auto.
  - destruct (reg_list s r0) as [[id l]|]; [|auto]. destruct (l_pop l) as [l' [|]]; auto.
  - destruct (reg_list s r0) as [[id l]|]; auto.
  - destruct (reg_list s r0) as [[id l]|]; auto.
  - destruct (reg_list s r0) as [[id l]|]; [|auto]. destruct (l_sort l); auto.
  - destruct (reg_obj s r0) as [[id kvs]|]; [|auto]. destruct (eval_operands (st_env s) args) as [a|]; [|auto].
    destruct (o_set kvs a) as [kvs' [|]]; auto.
  - destruct (reg_obj s r0) as [[id kvs]|]; auto.
  - destruct (reg_obj s r0) as [[id kvs]|]; auto.
Qed.

Lemma step_basic_mutator : forall s o r, basic_mutator o = Some r -> step s o = step_core s o.
Proof. intros s o r B. pose proof (basic_mutator_outcome s o r B) as H. unfold step.
  destruct (step_core s o) as [s1 oc]. cbn [snd] in H. destruct H as [-> | [-> | ->]]; reflexivity. Qed.

Corollary step_basic_mutator_env : forall s o r, basic_mutator o = Some r -> st_env (fst (step s o)) = st_env s.
Proof. intros s o r B. rewrite (step_basic_mutator s o r B). exact (proj1 (basic_mutator_footprint s o r B)). Qed.

(* ================= a sequence of method-style mutators whose receivers all lie in a set Q of cells ================= *)
Definition targets (env : list hval) (Q : nat -> Prop) (m : op) : Prop :=
  exists r, basic_mutator m = Some r /\
            forall id, nth_error env r = Some (HL id) \/ nth_error env r = Some (HO id) -> Q id.

Lemma exec_basic_frame : forall (Q : nat -> Prop) ops s, Forall (targets (st_env s) Q) ops ->
  st_env (exec s ops) = st_env s /\
  length (st_heap (exec s ops)) = length (st_heap s) /\
  forall j, ~ Q j -> nth_error (st_heap (exec s ops)) j = nth_error (st_heap s) j.
Proof. intros Q ops. induction ops as [|m ops IH]; intros s F.
  - rewrite exec_nil. split; [reflexivity | split; [reflexivity | intros j _; reflexivity]].
  - rewrite exec_cons. inversion F as [|m0 ops0 [r [B T]] F']; subst m0 ops0.
    rewrite (step_basic_mutator s m r B).
    destruct (basic_mutator_footprint s m r B) as [EN HP].
    rewrite <- EN in F'. destruct (IH _ F') as [E1 [L1 N1]].
    split; [rewrite E1; exact EN|].
    destruct HP as [HE | [id [c [K [L HE]]]]]; rewrite HE in L1, N1.
    + split; [exact L1 | exact N1].
    + rewrite upd_length in L1. split; [exact L1|]. intros j NQ. rewrite (N1 j NQ).
      apply nth_error_upd_neq. intros ->. exact (NQ (T _ K)). Qed.

(* ================= the state right after the derivation ================= *)
Lemma step_heap s o : st_heap (fst (step s o)) = st_heap (fst (step_core s o)).
Proof. unfold step. destruct (step_core s o) as [s1 [[| [| | | | |i|i] | | | | | |]|]]; reflexivity. Qed.

Lemma creating_step_shape : forall s o out id', creating_op o = true -> snd (step_core s o) = Ret (OV out) ->
  (out = HL id' \/ out = HO id') ->
  st_env (fst (step s o)) = st_env s ++ [out] /\
  (exists extra, st_heap (fst (step s o)) = st_heap s ++ extra) /\
  length (st_heap s) <= id' < length (st_heap (fst (step s o))).
Proof. intros s o out id' C R E.
  pose proof (created_is_fresh s o out C R id' E) as FR.
  destruct (deriving_frame s o (creating_is_deriving o C)) as [extra [HH HE]].
  rewrite step_heap. split; [|split; [exists extra; exact HH | exact FR]].
  unfold step. destruct (step_core s o) as [s1 oc]. cbn [fst snd] in *. subst oc.
  destruct E as [-> | ->]; cbn [fst st_env]; rewrite HE; reflexivity. Qed.

(* ================= (D2) mutating the result leaves every old cell alone ================= *)
Theorem mutating_the_result_leaves_old_cells : forall s o out r ops,
  creating_op o = true -> snd (step_core s o) = Ret (OV out) -> (exists id', out = HL id' \/ out = HO id') ->
  r = length (st_env s) ->
  Forall (fun m => basic_mutator m = Some r) ops ->
  forall id, id < length (st_heap s) ->
    nth_error (st_heap (exec (fst (step s o)) ops)) id = nth_error (st_heap s) id.
Proof. intros s o out r ops C R [id' E] -> F id L.
  destruct (creating_step_shape s o out id' C R E) as [EN [[extra HH] FR]].
  assert (T: Forall (targets (st_env (fst (step s o))) (fun j => length (st_heap s) <= j)) ops).
  { eapply Forall_impl; [|exact F]. intros m B. exists (length (st_env s)). split; [exact B|].
    intros id0 K. rewrite EN in K. rewrite nth_error_app2 in K by lia. rewrite Nat.sub_diag in K. cbn [nth_error] in K.
    assert (K': out = HL id0 \/ out = HO id0) by (destruct K as [K | K]; injection K as ->; auto).
    exact (proj1 (created_is_fresh s o out C R id0 K')). }
  destruct (exec_basic_frame _ _ _ T) as [_ [_ N]].
  rewrite (N id) by lia. rewrite HH. apply nth_error_app1. exact L. Qed.

(* ================= (D3) mutating the old containers leaves the result's own cell alone ================= *)
Theorem mutating_old_containers_leaves_the_result : forall s o out ops,
  creating_op o = true -> snd (step_core s o) = Ret (OV out) ->
  (forall r v id, nth_error (st_env s) r = Some v -> (v = HL id \/ v = HO id) -> id < length (st_heap s)) ->
  Forall (fun m => exists r0, basic_mutator m = Some r0 /\ r0 < length (st_env s)) ops ->
  forall id', (out = HL id' \/ out = HO id') ->
    nth_error (st_heap (exec (fst (step s o)) ops)) id' = nth_error (st_heap (fst (step s o))) id'.
Proof. intros s o out ops C R WF F id' E.
  destruct (creating_step_shape s o out id' C R E) as [EN [_ FR]].
  assert (T: Forall (targets (st_env (fst (step s o))) (fun j => j < length (st_heap s))) ops).
  { eapply Forall_impl; [|exact F]. intros m [r0 [B L0]]. exists r0. split; [exact B|].
    intros id0 K. rewrite EN in K. rewrite nth_error_app1 in K by exact L0.
    destruct K as [K | K]; [exact (WF r0 _ id0 K (or_introl eq_refl)) | exact (WF r0 _ id0 K (or_intror eq_refl))]. }
  destruct (exec_basic_frame _ _ _ T) as [_ [_ N]].
  apply N. lia. Qed.

(* the register file is exactly the old one plus the result, and no cell is created or lost by the mutations *)
Corollary mutations_keep_registers : forall s ops (Q : nat -> Prop), Forall (targets (st_env s) Q) ops ->
  st_env (exec s ops) = st_env s /\ length (st_heap (exec s ops)) = length (st_heap s).
Proof. intros s ops Q F. destruct (exec_basic_frame Q ops s F) as [E [L _]]. split; assumption. Qed.

(* ================= (D4) the statements are not vacuous ================= *)
Definition ex_s0 : state := exec init_state [NewList [Lit (HInt 1%Z); Lit (HInt 2%Z); Lit (HInt 3%Z)]].   (* register 0 *)
Definition ex_o : op := LSubList 0 0%Z 2%Z.                                                              (* register 1 *)
Definition ex_s1 : state := fst (step ex_s0 ex_o).

(* the two lists evolve independently *)
Example independent_evolution :
  st_heap ex_s0 = [CList [HInt 1%Z; HInt 2%Z; HInt 3%Z]] /\ st_env ex_s0 = [HL 0] /\
  creating_op ex_o = true /\ snd (step_core ex_s0 ex_o) = Ret (OV (HL 1)) /\
  st_heap ex_s1 = [CList [HInt 1%Z; HInt 2%Z; HInt 3%Z]; CList [HInt 1%Z; HInt 2%Z]] /\ st_env ex_s1 = [HL 0; HL 1] /\
  let s2 := exec ex_s1 [LAdd 1 [Lit (HInt 9%Z)]; LReplace 0 0%Z (Lit (HInt 7%Z))] in
  st_heap s2 = [CList [HInt 7%Z; HInt 2%Z; HInt 3%Z]; CList [HInt 1%Z; HInt 2%Z; HInt 9%Z]] /\ st_env s2 = [HL 0; HL 1].
Proof. vm_compute. repeat split; reflexivity. Qed.

(* D2 instantiated: its hypotheses hold for a mutation sequence that really changes the result (cell 1) *)
Example d2_instance :
  let ops := [LAdd 1 [Lit (HInt 9%Z)]; LReverse 1; LPop 1; LInsert 1 0%Z (Lit (HStr []))] in
  nth_error (st_heap (exec ex_s1 ops)) 0 = Some (CList [HInt 1%Z; HInt 2%Z; HInt 3%Z]) /\
  nth_error (st_heap (exec ex_s1 ops)) 1 = Some (CList [HStr []; HInt 9%Z; HInt 2%Z]).
Proof. intros ops. split.
  - unfold ex_s1. rewrite (mutating_the_result_leaves_old_cells ex_s0 ex_o (HL 1) 1 ops).
    + reflexivity.
    + reflexivity.
    + reflexivity.
    + exists 1. left. reflexivity.
    + reflexivity.
    + repeat constructor.
    + vm_compute. lia.
  - vm_compute. reflexivity. Qed.

(* D3 instantiated: its hypotheses hold for a mutation sequence that really changes the receiver (cell 0) *)
Example d3_instance :
  let ops := [LReplace 0 0%Z (Lit (HInt 7%Z)); LPop 0; LAdd 0 [Reg 1]] in
  nth_error (st_heap (exec ex_s1 ops)) 1 = Some (CList [HInt 1%Z; HInt 2%Z]) /\
  nth_error (st_heap (exec ex_s1 ops)) 0 = Some (CList [HInt 7%Z; HInt 2%Z; HL 1]).
Proof. intros ops. split.
  - unfold ex_s1. rewrite (mutating_old_containers_leaves_the_result ex_s0 ex_o (HL 1) ops).
    + reflexivity.
    + reflexivity.
    + reflexivity.
    + intros r v id N E. change (st_env ex_s0) with [HL 0] in N. change (length (st_heap ex_s0)) with 1.
      destruct r as [|[|r]]; cbn [nth_error] in N; try discriminate N. injection N as <-.
      destruct E as [E | E]; [injection E as <-; lia | discriminate E].
    + change (length (st_env ex_s0)) with 1. repeat constructor; eexists; (split; [reflexivity | lia]).
    + left. reflexivity.
  - vm_compute. reflexivity. Qed.

Print Assumptions created_is_fresh.
Print Assumptions mutating_the_result_leaves_old_cells.
Print Assumptions mutating_old_containers_leaves_the_result.
