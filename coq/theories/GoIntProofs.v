(* GoIntProofs.v — properties of the strconv.Itoa / strconv.ParseInt(s,0,64) transcriptions. *)
From Anytype Require Import Base FloatBits GoInt.
From Coq Require Import ZifyBool.
Local Open Scope Z_scope.
Ltac Zify.zify_post_hook ::= Z.div_mod_to_equations.

Definition is_digit (b : byte) : bool := (48 <=? bZ b) && (bZ b <=? 57).

(* ---------- digit bytes ---------- *)
Lemma bZ_digit_byte d : 0 <= d < 10 -> bZ (digit_byte d) = 48 + d.
Proof. intros H. unfold digit_byte. apply bZ_byte_of_Z. lia. Qed.

Lemma is_digit_digit_byte n : is_digit (digit_byte (n mod 10)) = true.
Proof. unfold is_digit. rewrite bZ_digit_byte by lia. lia. Qed.

Lemma digit_val_digit c : is_digit c = true -> digit_val c = Some (bZ c - 48).
Proof. unfold is_digit, digit_val. intros H. cbv zeta. rewrite H. reflexivity. Qed.

Lemma is_digit_not_us c : is_digit c = true -> byte_eqb c x5f = false.
Proof. intros H. apply byte_eqb_neq. intros ->. vm_compute in H. discriminate. Qed.

(* ---------- digits_fuel: shape ---------- *)
Lemma digits_fuel_all_digits : forall fuel n acc,
  forallb is_digit acc = true -> forallb is_digit (digits_fuel fuel n acc) = true.
Proof.
  induction fuel as [|f IH]; intros n acc Hacc.
  - exact Hacc.
  - cbn [digits_fuel].
    assert (H1 : forallb is_digit (digit_byte (n mod 10) :: acc) = true).
    { cbn [forallb]. rewrite is_digit_digit_byte, Hacc. reflexivity. }
    destruct (n / 10 =? 0) eqn:E.
    + exact H1.
    + apply IH. exact H1.
Qed.

(* 1 *)
Lemma digits_all_digits : forall n, 0 <= n -> forallb is_digit (digits n) = true.
Proof. intros n _. unfold digits. apply digits_fuel_all_digits. reflexivity. Qed.

Lemma digits_fuel_nonempty : forall fuel n acc, acc <> [] -> digits_fuel fuel n acc <> [].
Proof.
  induction fuel as [|f IH]; intros n acc Hacc.
  - exact Hacc.
  - cbn [digits_fuel]. destruct (n / 10 =? 0) eqn:E.
    + discriminate.
    + apply IH. discriminate.
Qed.

(* 2 *)
Lemma digits_nonempty : forall n, 0 <= n -> digits n <> [].
Proof.
  intros n _. unfold digits. cbn [digits_fuel]. destruct (n / 10 =? 0) eqn:E.
  - discriminate.
  - apply digits_fuel_nonempty. discriminate.
Qed.

Lemma digits_zero : digits 0 = [x30].
Proof. vm_compute. reflexivity. Qed.

(* 7 *)
Lemma itoa_shape : forall z, in_int64 z = true ->
  (0 <= z -> itoa z = digits z) /\ (z < 0 -> itoa z = x2d :: digits (- z)).
Proof.
  intros z _. unfold itoa. destruct (z <? 0) eqn:E; split; intros H; try reflexivity; lia.
Qed.

(* ---------- bad characters make the parsers fail ---------- *)
Lemma puint_loop_bad : forall s base n us c,
  In c s -> digit_val c = None -> c <> x5f ->
  exists e us', puint_loop base s n us = (inr e, us').
Proof.
  induction s as [|c0 t IH]; intros base n us c Hin Hdv Hus.
  - destruct Hin.
  - cbn [puint_loop]. destruct (byte_eqb c0 x5f) eqn:E0.
    + apply byte_eqb_eq in E0. subst c0.
      destruct Hin as [Heq | Hin]; [congruence|].
      eapply IH; eassumption.
    + destruct (digit_val c0) as [d|] eqn:Ed.
      * destruct (base <=? d) eqn:E1; [eauto|].
        destruct (max_u64 / base + 1 <=? n) eqn:E2; [eauto|].
        destruct (max_u64 <? n * base + d) eqn:E3; [eauto|].
        destruct Hin as [Heq | Hin]; [congruence|].
        eapply IH; eassumption.
      * eauto.
Qed.

Lemma lower_letter_digit_val c : 97 <= lower c <= 122 -> digit_val c <> None.
Proof.
  intros H. unfold digit_val. cbv zeta.
  destruct ((48 <=? bZ c) && (bZ c <=? 57)) eqn:E1; [discriminate|].
  destruct ((97 <=? lower c) && (lower c <=? 122)) eqn:E2; [discriminate|]. lia.
Qed.

Lemma parse_uint0_bad : forall s c,
  In c s -> digit_val c = None -> c <> x5f -> exists e, parse_uint0 s = inr e.
Proof.
  intros s c Hin Hdv Hus.
  assert (K : forall base body, In c body ->
     exists e, match puint_loop base body 0 false with
               | (inr e, _) => inr e
               | (inl n, us) => if us && negb (underscore_ok s) then inr ESyntax else @inl Z perr n
               end = inr e).
  { intros base body Hb. destruct (puint_loop_bad body base 0 false c Hb Hdv Hus) as (e & us' & He).
    rewrite He. eauto. }
  destruct s as [|c0 rest]; [destruct Hin|].
  unfold parse_uint0.
  destruct (byte_eqb c0 x30) eqn:E0.
  - apply byte_eqb_eq in E0. subst c0.
    destruct Hin as [Heq | Hin]; [subst c; vm_compute in Hdv; discriminate|].
    destruct rest as [|c1 [|c2 t]].
    + destruct Hin.
    + cbv beta iota. apply K. exact Hin.
    + assert (Hin2 : 97 <= lower c1 <= 122 -> In c (c2 :: t)).
      { intros Hl. destruct Hin as [Heq | Hin]; [|exact Hin].
        subst c1. apply lower_letter_digit_val in Hl. contradiction. }
      destruct (lower c1 =? 98) eqn:E1; [cbv beta iota; apply K; apply Hin2; lia|].
      destruct (lower c1 =? 111) eqn:E2; [cbv beta iota; apply K; apply Hin2; lia|].
      destruct (lower c1 =? 120) eqn:E3; [cbv beta iota; apply K; apply Hin2; lia|].
      cbv beta iota. apply K. exact Hin.
  - cbv beta iota. apply K. exact Hin.
Qed.

Lemma pint0_of_parse_err : forall neg body e,
  parse_uint0 body = inr e ->
  match parse_uint0 body with
  | inr _ => None
  | inl un =>
      if negb neg && (two63 <=? un) then None
      else if neg && (two63 <? un) then None
      else Some (if neg then - un else un)
  end = None.
Proof. intros neg body e H. rewrite H. reflexivity. Qed.

Lemma pint0_bad_tail : forall c0 t c,
  In c t -> digit_val c = None -> c <> x5f -> pint0 (c0 :: t) = None.
Proof.
  intros c0 t c Hin Hdv Hus. unfold pint0.
  destruct (parse_uint0_bad t c Hin Hdv Hus) as (e1 & He1).
  destruct (parse_uint0_bad (c0 :: t) c (or_intror Hin) Hdv Hus) as (e2 & He2).
  destruct (byte_eqb c0 x2b) eqn:E1; [cbv beta iota; eapply pint0_of_parse_err; eassumption|].
  destruct (byte_eqb c0 x2d) eqn:E2; cbv beta iota; eapply pint0_of_parse_err; eassumption.
Qed.

Lemma pint0_bad_head : forall c t,
  digit_val c = None -> c <> x5f -> c <> x2b -> c <> x2d -> pint0 (c :: t) = None.
Proof.
  intros c t Hdv Hus Hp Hm. unfold pint0.
  apply byte_eqb_neq in Hp. apply byte_eqb_neq in Hm. rewrite Hp, Hm. cbv beta iota.
  destruct (parse_uint0_bad (c :: t) c (or_introl eq_refl) Hdv Hus) as (e & He).
  eapply pint0_of_parse_err; eassumption.
Qed.

(* 5 *)
Lemma pint0_dot_none : forall s, In x2e s -> pint0 s = None.
Proof.
  intros [|c t] Hin; [destruct Hin|].
  destruct Hin as [Heq | Hin].
  - subst c. apply pint0_bad_head; [vm_compute; reflexivity|discriminate|discriminate|discriminate].
  - apply (pint0_bad_tail c t x2e Hin); [vm_compute; reflexivity|discriminate].
Qed.

(* 6 *)
Lemma pint0_inner_sign_none : forall c t, (In x2b t \/ In x2d t) -> pint0 (c :: t) = None.
Proof.
  intros c t [Hin | Hin].
  - apply (pint0_bad_tail c t x2b Hin); [vm_compute; reflexivity|discriminate].
  - apply (pint0_bad_tail c t x2d Hin); [vm_compute; reflexivity|discriminate].
Qed.

(* ---------- the fuel of [digits] suffices ---------- *)
Lemma pow2_succ_nat f : 2 ^ Z.of_nat (S f) = 2 * 2 ^ Z.of_nat f.
Proof. rewrite Nat2Z.inj_succ. apply Z.pow_succ_r. lia. Qed.

Lemma digits_fuel_ok n : 0 <= n -> n < 2 ^ Z.of_nat (S (Z.to_nat (Z.log2 (Z.max n 1)))).
Proof.
  intros Hn. rewrite Nat2Z.inj_succ.
  rewrite Z2Nat.id by apply Z.log2_nonneg.
  assert (Hm : 0 < Z.max n 1) by lia.
  pose proof (Z.log2_spec (Z.max n 1) Hm) as [_ H2]. lia.
Qed.

Lemma digits_fuel_head_nonzero : forall fuel n acc,
  0 < n -> n < 2 ^ Z.of_nat fuel ->
  exists c t, digits_fuel fuel n acc = c :: t /\ bZ c <> 48.
Proof.
  induction fuel as [|f IH]; intros n acc Hn Hlt.
  - change (2 ^ Z.of_nat 0) with 1 in Hlt. lia.
  - rewrite pow2_succ_nat in Hlt. cbn [digits_fuel]. destruct (n / 10 =? 0) eqn:E.
    + exists (digit_byte (n mod 10)), acc. split; [reflexivity|].
      rewrite bZ_digit_byte by lia. lia.
    + apply IH; lia.
Qed.

(* 3 *)
Lemma digits_no_leading_zero : forall n, 0 < n -> exists c t, digits n = c :: t /\ bZ c <> 48.
Proof.
  intros n Hn. unfold digits. apply digits_fuel_head_nonzero; [exact Hn|].
  apply digits_fuel_ok. lia.
Qed.

(* ---------- the digit loop on the output of [digits] ---------- *)
Lemma puint_loop_digit c t n :
  is_digit c = true -> 0 <= n -> n * 10 + (bZ c - 48) <= max_u64 ->
  puint_loop 10 (c :: t) n false = puint_loop 10 t (n * 10 + (bZ c - 48)) false.
Proof.
  intros Hc Hn Hle. cbn [puint_loop].
  rewrite (is_digit_not_us _ Hc), (digit_val_digit _ Hc).
  assert (H1 : (10 <=? bZ c - 48) = false) by (unfold is_digit in Hc; lia).
  rewrite H1.
  assert (H2 : (max_u64 / 10 + 1 <=? n) = false).
  { unfold is_digit in Hc. unfold max_u64, two64 in *. lia. }
  rewrite H2.
  assert (H3 : (max_u64 <? n * 10 + (bZ c - 48)) = false) by lia.
  rewrite H3. reflexivity.
Qed.

Lemma loop_digits_fuel : forall fuel n acc,
  0 <= n <= max_u64 -> n < 2 ^ Z.of_nat fuel ->
  puint_loop 10 (digits_fuel fuel n acc) 0 false = puint_loop 10 acc n false.
Proof.
  induction fuel as [|f IH]; intros n acc Hn Hlt.
  - change (2 ^ Z.of_nat 0) with 1 in Hlt. assert (n = 0) by lia. subst n. reflexivity.
  - rewrite pow2_succ_nat in Hlt. cbn [digits_fuel].
    assert (Hd : bZ (digit_byte (n mod 10)) - 48 = n mod 10) by (rewrite bZ_digit_byte; lia).
    destruct (n / 10 =? 0) eqn:E.
    + rewrite puint_loop_digit; [|apply is_digit_digit_byte|lia|rewrite Hd; lia].
      rewrite Hd. f_equal. lia.
    + rewrite IH; [|lia|lia].
      rewrite puint_loop_digit; [|apply is_digit_digit_byte|lia|rewrite Hd; lia].
      rewrite Hd. f_equal. lia.
Qed.

Lemma puint_loop_digits n : 0 <= n <= max_u64 ->
  puint_loop 10 (digits n) 0 false = (inl n, false).
Proof.
  intros Hn. unfold digits. rewrite loop_digits_fuel; [reflexivity|exact Hn|].
  apply digits_fuel_ok. lia.
Qed.

Lemma parse_uint0_digits n : 0 <= n <= max_u64 -> parse_uint0 (digits n) = inl n.
Proof.
  intros Hn. assert (Hc : n = 0 \/ 0 < n) by lia. destruct Hc as [-> | Hpos].
  - vm_compute. reflexivity.
  - pose proof (puint_loop_digits n Hn) as Hl.
    destruct (digits_no_leading_zero n Hpos) as (c & t & Hd & Hc).
    rewrite Hd in *. unfold parse_uint0.
    assert (E0 : byte_eqb c x30 = false).
    { apply byte_eqb_neq. intros ->. apply Hc. reflexivity. }
    rewrite E0. cbv beta iota. rewrite Hl. reflexivity.
Qed.

Lemma digits_head_digit n c t : 0 <= n -> digits n = c :: t -> is_digit c = true.
Proof.
  intros Hn Hd. pose proof (digits_all_digits n Hn) as H. rewrite Hd in H.
  cbn [forallb] in H. apply andb_true_iff in H. tauto.
Qed.

Lemma pint0_digits n : 0 <= n < two63 -> pint0 (digits n) = Some n.
Proof.
  intros Hn.
  assert (Hu : parse_uint0 (digits n) = inl n).
  { apply parse_uint0_digits. unfold max_u64, two64, two63 in *. lia. }
  destruct (digits n) as [|c t] eqn:Hd.
  - exfalso. revert Hd. apply digits_nonempty. lia.
  - assert (Hc : is_digit c = true) by (apply (digits_head_digit n c t); [lia|exact Hd]).
    unfold pint0.
    assert (E1 : byte_eqb c x2b = false).
    { apply byte_eqb_neq. intros ->. vm_compute in Hc. discriminate. }
    assert (E2 : byte_eqb c x2d = false).
    { apply byte_eqb_neq. intros ->. vm_compute in Hc. discriminate. }
    rewrite E1, E2. cbv beta iota. rewrite Hu. cbv beta iota.
    assert (E3 : (two63 <=? n) = false) by lia.
    rewrite E3. reflexivity.
Qed.

Lemma pint0_neg_digits n : 0 <= n <= two63 -> pint0 (x2d :: digits n) = Some (- n).
Proof.
  intros Hn.
  assert (Hu : parse_uint0 (digits n) = inl n).
  { apply parse_uint0_digits. unfold max_u64, two64, two63 in *. lia. }
  unfold pint0.
  change (byte_eqb x2d x2b) with false. change (byte_eqb x2d x2d) with true.
  cbv beta iota. rewrite Hu. cbv beta iota.
  assert (E3 : (two63 <? n) = false) by lia.
  rewrite E3. reflexivity.
Qed.

(* 4 *)
Lemma pint0_itoa : forall z, in_int64 z = true -> pint0 (itoa z) = Some z.
Proof.
  intros z Hz. unfold in_int64, min_int, max_int in Hz. unfold itoa.
  destruct (z <? 0) eqn:E.
  - rewrite pint0_neg_digits by lia. f_equal. lia.
  - apply pint0_digits. lia.
Qed.
