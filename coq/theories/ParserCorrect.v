(* ParserCorrect.v — the parser (Json.v: plist / pobj) reads every valid JSON document (JsonDoc.v: render of a
   well-formed derivation, any layout, any escape spelling, any number spelling) exactly as the reference meaning
   [denote] says. *)
From Anytype Require Import Base FloatBits Value GoInt GoIntProofs Utf8 Utf8Proofs GoUnquote UnquoteProofs Json JsonDoc ParserBasics.
From Coq Require Import ZifyBool.
Local Open Scope Z_scope.
Ltac Zify.zify_post_hook ::= Z.div_mod_to_equations.
Arguments plist : simpl never.  Arguments pobj : simpl never.

Section PC.
  Variable pfloat : bytes -> option Z.
  Hypothesis F3 : pfloat (B"true") = None /\ pfloat (B"false") = None.

  (* ================= fuel: any result other than PFuel is stable under more fuel ================= *)

  Lemma mrun_stable : forall f m s line, mrun pfloat f m s line <> PFuel ->
    forall f', (f <= f')%nat -> mrun pfloat f' m s line = mrun pfloat f m s line.
  Proof.
    induction f as [|f IH]; intros m s line H f' L.
    { rewrite mrun_O in H. congruence. }
    destruct f' as [|f']; [lia|].
    rewrite mrun_S in H. rewrite !mrun_S.
    destruct s as [|b t]; [reflexivity|].
    destruct (decode_rune (b :: t)) as [r n].
    destruct (Nat.eqb n 0 || ((r =? rune_error) && Nat.eqb n 1)); [reflexivity|].
    destruct (next pfloat m r (nl r line)) as [m' | m' k | v | e]; cbn [crun] in *.
    - apply IH; [exact H|lia].
    - destruct (mrun pfloat f m' (skipn n (b :: t)) (nl r line)) as [o r1 l1 | e a |] eqn:N.
      + assert (N' : mrun pfloat f' m' (skipn n (b :: t)) (nl r line) = POk o r1 l1).
        { rewrite <- N. apply IH; [rewrite N; discriminate|lia]. }
        rewrite N'. apply IH; [exact H|lia].
      + assert (N' : mrun pfloat f' m' (skipn n (b :: t)) (nl r line) = PErr e a).
        { rewrite <- N. apply IH; [rewrite N; discriminate|lia]. }
        rewrite N'. reflexivity.
      + congruence.
    - reflexivity.
    - reflexivity.
  Qed.

  (* the fuel the top-level entry points give is enough for every accepting run *)
  Lemma mrun_top_fuel : forall f m s line v rest line',
    mrun pfloat f m s line = POk v rest line' -> mrun pfloat (S (length s)) m s line = POk v rest line'.
  Proof. intros f m s line v rest line' H.
    destruct (le_lt_dec f (S (length s))) as [L | L].
    - exact (mrun_fuel_mono pfloat _ _ _ _ _ _ _ _ H L).
    - rewrite <- H. symmetry. apply mrun_stable; [|lia]. apply mrun_total. lia. Qed.

  (* ================= accepting runs, line-agnostic ================= *)

  Definition accepts (m : mach) (s : bytes) (v : val) (rest : bytes) : Prop :=
    forall line, exists f line', mrun pfloat f m s line = POk v rest line'.
  Definition leads (m : mach) (s : bytes) (m' : mach) (s' : bytes) : Prop :=
    forall v r, accepts m' s' v r -> accepts m s v r.

  Lemma leads_refl : forall m s, leads m s m s.
  Proof. intros m s v r H. exact H. Qed.
  Lemma leads_trans : forall m1 s1 m2 s2 m3 s3, leads m1 s1 m2 s2 -> leads m2 s2 m3 s3 -> leads m1 s1 m3 s3.
  Proof. intros m1 s1 m2 s2 m3 s3 H1 H2 v r H. apply H1. apply H2. exact H. Qed.

  Lemma step_go : forall m r m' rest, valid_rune r = true -> (forall l, next pfloat m r l = CGo m') ->
    leads m (encode_rune r ++ rest) m' rest.
  Proof. intros m r m' rest V N v r0 H line.
    destruct (H (nl r line)) as [f [line' E]]. exists (S f), line'.
    rewrite mrun_rune by exact V. rewrite N. exact E. Qed.

  Lemma step_ret : forall m r v rest, valid_rune r = true -> (forall l, next pfloat m r l = CRet v) ->
    accepts m (encode_rune r ++ rest) v rest.
  Proof. intros m r v rest V N line. exists 1%nat, (nl r line).
    rewrite mrun_rune by exact V. rewrite N. reflexivity. Qed.

  Lemma step_nest : forall m r m1 k rest o rest', valid_rune r = true ->
    (forall l, next pfloat m r l = CNest m1 k) -> accepts m1 rest o rest' ->
    leads m (encode_rune r ++ rest) (k o) rest'.
  Proof. intros m r m1 k rest o rest' V N H1 v r0 H line.
    destruct (H1 (nl r line)) as [f1 [l1 E1]]. destruct (H l1) as [f2 [l2 E2]].
    exists (S (f1 + f2)), l2. rewrite mrun_rune by exact V. rewrite N. cbn [crun].
    rewrite (mrun_fuel_mono pfloat _ (f1 + f2) _ _ _ _ _ _ E1) by lia.
    apply (mrun_fuel_mono pfloat _ (f1 + f2) _ _ _ _ _ _ E2). lia. Qed.

  (* ASCII bytes *)
  Lemma ascii_byte : forall c, bZ c < 128 -> valid_rune (bZ c) = true /\ encode_rune (bZ c) = [c].
  Proof. intros c H. pose proof (bZ_range c) as R. split; [apply valid_rune_intro; lia|].
    rewrite encode_rune_1 by lia. rewrite byte_of_Z_bZ. reflexivity. Qed.

  Lemma bstep_go : forall m c m' rest, bZ c < 128 -> (forall l, next pfloat m (bZ c) l = CGo m') ->
    leads m (c :: rest) m' rest.
  Proof. intros m c m' rest A N. destruct (ascii_byte c A) as [V E].
    change (c :: rest) with ([c] ++ rest). rewrite <- E. apply step_go; assumption. Qed.

  Lemma bstep_ret : forall m c v rest, bZ c < 128 -> (forall l, next pfloat m (bZ c) l = CRet v) ->
    accepts m (c :: rest) v rest.
  Proof. intros m c v rest A N. destruct (ascii_byte c A) as [V E].
    change (c :: rest) with ([c] ++ rest). rewrite <- E. apply step_ret; assumption. Qed.

  Lemma bstep_nest : forall m c m1 k rest o rest', bZ c < 128 ->
    (forall l, next pfloat m (bZ c) l = CNest m1 k) -> accepts m1 rest o rest' ->
    leads m (c :: rest) (k o) rest'.
  Proof. intros m c m1 k rest o rest' A N H. destruct (ascii_byte c A) as [V E].
    change (c :: rest) with ([c] ++ rest). rewrite <- E. apply (step_nest m (bZ c) m1 k); assumption. Qed.

  (* ================= whitespace ================= *)

  Lemma wsc_ascii : forall c, bZ (wsc_byte c) < 128.
  Proof. intros []; reflexivity. Qed.

  Lemma ws_skip : forall m, (forall (c : wsc) l, next pfloat m (bZ (wsc_byte c)) l = CGo m) ->
    forall w rest, leads m (render_ws w ++ rest) m rest.
  Proof. intros m H. induction w as [|c w IH]; intros rest; [apply leads_refl|].
    change (render_ws (c :: w) ++ rest) with (wsc_byte c :: render_ws w ++ rest).
    eapply leads_trans; [|apply IH].
    apply bstep_go; [apply wsc_ascii|apply H]. Qed.

  Lemma ws_LVal : forall acc buf inval w rest,
    leads (ML LVal acc buf inval) (render_ws w ++ rest) (ML LVal acc buf inval) rest.
  Proof. intros acc buf inval. apply ws_skip. intros [] l; reflexivity. Qed.
  Lemma ws_LAfterString : forall acc buf inval w rest,
    leads (ML LAfterString acc buf inval) (render_ws w ++ rest) (ML LAfterString acc buf inval) rest.
  Proof. intros acc buf inval. apply ws_skip. intros [] l; reflexivity. Qed.
  Lemma ws_OKeyStart : forall acc key buf inval w rest,
    leads (MO OKeyStart acc key buf inval) (render_ws w ++ rest) (MO OKeyStart acc key buf inval) rest.
  Proof. intros acc key buf inval. apply ws_skip. intros [] l; reflexivity. Qed.
  Lemma ws_OAfterKey : forall acc key buf inval w rest,
    leads (MO OAfterKey acc key buf inval) (render_ws w ++ rest) (MO OAfterKey acc key buf inval) rest.
  Proof. intros acc key buf inval. apply ws_skip. intros [] l; reflexivity. Qed.
  Lemma ws_OVal : forall acc key buf inval w rest,
    leads (MO OVal acc key buf inval) (render_ws w ++ rest) (MO OVal acc key buf inval) rest.
  Proof. intros acc key buf inval. apply ws_skip. intros [] l; reflexivity. Qed.
  Lemma ws_OAfterVal : forall acc key buf inval w rest,
    leads (MO OAfterVal acc key buf inval) (render_ws w ++ rest) (MO OAfterVal acc key buf inval) rest.
  Proof. intros acc key buf inval. apply ws_skip. intros [] l; reflexivity. Qed.
  Lemma ws_OAfterString : forall acc key buf inval w rest,
    leads (MO OAfterString acc key buf inval) (render_ws w ++ rest) (MO OAfterString acc key buf inval) rest.
  Proof. intros acc key buf inval. apply ws_skip. intros [] l; reflexivity. Qed.

  (* ================= accumulating a scalar token ================= *)

  Definition tokch (c : byte) : bool :=
    negb (is_space (bZ c)) &&
    ((bZ c <? 128) && negb (bZ c =? 34) && negb (bZ c =? 123) && negb (bZ c =? 91)
     && negb (bZ c =? 44) && negb (bZ c =? 93) && negb (bZ c =? 125)).

  Lemma tokch_ascii : forall c, tokch c = true -> bZ c < 128.
  Proof. intros c H. unfold tokch in H. apply andb_true_iff in H as [_ H]. lia. Qed.

  Lemma tok_next_L : forall c acc buf inval l, tokch c = true ->
    next pfloat (ML LVal acc buf inval) (bZ c) l = CGo (ML LVal acc (buf ++ [c]) true).
  Proof. intros c acc buf inval l H. pose proof (tokch_ascii c H) as A. destruct (ascii_byte c A) as [_ E].
    unfold tokch in H. apply andb_true_iff in H as [Hs H]. apply negb_true_iff in Hs.
    cbn [next]. rewrite Hs, E.
    replace (bZ c =? 34) with false by lia. replace (bZ c =? 123) with false by lia.
    replace (bZ c =? 91) with false by lia. replace (bZ c =? 44) with false by lia.
    replace (bZ c =? 93) with false by lia. rewrite !andb_false_r. reflexivity. Qed.

  Lemma tok_next_O : forall c acc key buf inval l, tokch c = true ->
    next pfloat (MO OVal acc key buf inval) (bZ c) l = CGo (MO OVal acc key (buf ++ [c]) true).
  Proof. intros c acc key buf inval l H. pose proof (tokch_ascii c H) as A. destruct (ascii_byte c A) as [_ E].
    unfold tokch in H. apply andb_true_iff in H as [Hs H]. apply negb_true_iff in Hs.
    cbn [next]. rewrite Hs, E.
    replace (bZ c =? 34) with false by lia. replace (bZ c =? 123) with false by lia.
    replace (bZ c =? 91) with false by lia. replace (bZ c =? 44) with false by lia.
    replace (bZ c =? 125) with false by lia. rewrite !andb_false_r. reflexivity. Qed.

  (* generic: T buf inval is the value state of either machine *)
  Lemma tok_gen : forall (T : bytes -> bool -> mach),
    (forall c buf inval l, tokch c = true -> next pfloat (T buf inval) (bZ c) l = CGo (T (buf ++ [c]) true)) ->
    forall tok buf inval rest, tok <> [] -> forallb tokch tok = true ->
    leads (T buf inval) (tok ++ rest) (T (buf ++ tok) true) rest.
  Proof. intros T HT. induction tok as [|c tok IH]; intros buf inval rest Hn H; [congruence|].
    cbn [forallb] in H. apply andb_true_iff in H as [Hc Ht]. cbn [app].
    eapply leads_trans.
    { apply bstep_go with (m' := T (buf ++ [c]) true); [apply tokch_ascii; exact Hc|].
      intros l. apply HT. exact Hc. }
    replace (buf ++ c :: tok) with ((buf ++ [c]) ++ tok) by (rewrite <- app_assoc; reflexivity).
    destruct tok as [|c' tok'].
    - rewrite app_nil_r. apply leads_refl.
    - apply IH; [discriminate|exact Ht]. Qed.

  Lemma tok_L : forall acc tok rest, tok <> [] -> forallb tokch tok = true ->
    leads (ML LVal acc [] false) (tok ++ rest) (ML LVal acc tok true) rest.
  Proof. intros acc tok rest Hn H.
    exact (tok_gen (fun b i => ML LVal acc b i) (fun c b i l Hc => tok_next_L c acc b i l Hc) tok [] false rest Hn H). Qed.

  Lemma tok_O : forall acc key tok rest, tok <> [] -> forallb tokch tok = true ->
    leads (MO OVal acc key [] false) (tok ++ rest) (MO OVal acc key tok true) rest.
  Proof. intros acc key tok rest Hn H.
    exact (tok_gen (fun b i => MO OVal acc key b i) (fun c b i l Hc => tok_next_O c acc key b i l Hc) tok [] false rest Hn H). Qed.

  (* the delimiter after a token / after nothing *)
  Lemma L_comma_tok : forall acc c t v rest, (forall l, parse_field pfloat (c :: t) l = inl v) ->
    leads (ML LVal acc (c :: t) true) (x2c :: rest) (ML LVal (acc ++ [v]) [] false) rest.
  Proof. intros acc c t v rest H. apply bstep_go; [reflexivity|]. intros l.
    cbn [next]. rewrite H. reflexivity. Qed.

  Lemma L_close_tok : forall acc c t v rest, (forall l, parse_field pfloat (c :: t) l = inl v) ->
    accepts (ML LVal acc (c :: t) true) (x5d :: rest) (VList (acc ++ [v])) rest.
  Proof. intros acc c t v rest H. apply bstep_ret; [reflexivity|]. intros l.
    cbn [next]. rewrite H. reflexivity. Qed.

  Lemma L_comma_nil : forall acc rest, leads (ML LVal acc [] false) (x2c :: rest) (ML LVal acc [] false) rest.
  Proof. intros acc rest. apply bstep_go; [reflexivity|]. intros l. reflexivity. Qed.

  Lemma L_close_nil : forall acc rest, accepts (ML LVal acc [] false) (x5d :: rest) (VList acc) rest.
  Proof. intros acc rest. apply bstep_ret; [reflexivity|]. intros l. reflexivity. Qed.

  Lemma O_comma_tok : forall acc key c t v rest, (forall l, parse_field pfloat (c :: t) l = inl v) ->
    leads (MO OVal acc key (c :: t) true) (x2c :: rest) (MO OKeyStart (aset key v acc) key (c :: t) true) rest.
  Proof. intros acc key c t v rest H. apply bstep_go; [reflexivity|]. intros l.
    cbn [next]. rewrite H. reflexivity. Qed.

  Lemma O_close_tok : forall acc key c t v rest, (forall l, parse_field pfloat (c :: t) l = inl v) ->
    accepts (MO OVal acc key (c :: t) true) (x7d :: rest) (VObj (aset key v acc)) rest.
  Proof. intros acc key c t v rest H. apply bstep_ret; [reflexivity|]. intros l.
    cbn [next]. rewrite H. reflexivity. Qed.

  (* ================= string bodies (the scanner's chunk view) ================= *)

  Lemma chunks_gen : forall (St Es : bytes -> mach),
    (forall buf r l, r <> 92 -> r <> 34 -> next pfloat (St buf) r l = CGo (St (buf ++ encode_rune r))) ->
    (forall buf l, next pfloat (St buf) 92 l = CGo (Es buf)) ->
    (forall buf r l, next pfloat (Es buf) r l = CGo (St (buf ++ x5c :: encode_rune r))) ->
    forall ks, Forall chunk_ok ks -> forall buf rest,
    leads (St buf) (flat_map render_chunk ks ++ rest) (St (buf ++ flat_map render_chunk ks)) rest.
  Proof. intros St Es HS HB HE. induction ks as [|k ks IH]; intros Hok buf rest.
    - cbn [flat_map app]. rewrite app_nil_r. apply leads_refl.
    - inversion Hok as [|k' ks' Hk Hks]; subst k' ks'. cbn [flat_map]. rewrite <- app_assoc.
      destruct k as [r | c]; cbn [render_chunk chunk_ok] in *.
      + destruct Hk as [V [Q Bs]]. eapply leads_trans.
        { apply step_go with (m' := St (buf ++ encode_rune r)); [exact V|]. intros l. apply HS; assumption. }
        rewrite app_assoc. apply IH. exact Hks.
      + destruct (ascii_byte c Hk) as [V Ec]. cbn [app]. eapply leads_trans.
        { apply bstep_go with (m' := Es buf); [reflexivity|]. intros l. apply HB. }
        eapply leads_trans.
        { apply bstep_go with (m' := St (buf ++ x5c :: encode_rune (bZ c))); [exact Hk|]. intros l. apply HE. }
        rewrite Ec.
        replace (buf ++ x5c :: c :: flat_map render_chunk ks) with ((buf ++ [x5c; c]) ++ flat_map render_chunk ks)
          by (rewrite <- app_assoc; reflexivity).
        apply IH. exact Hks. Qed.

  Lemma body_gen : forall (St Es : bytes -> mach),
    (forall buf r l, r <> 92 -> r <> 34 -> next pfloat (St buf) r l = CGo (St (buf ++ encode_rune r))) ->
    (forall buf l, next pfloat (St buf) 92 l = CGo (Es buf)) ->
    (forall buf r l, next pfloat (Es buf) r l = CGo (St (buf ++ x5c :: encode_rune r))) ->
    forall items, sitems_ok items = true -> forall rest,
    leads (St []) (flat_map render_sitem items ++ rest) (St (flat_map render_sitem items)) rest.
  Proof. intros St Es HS HB HE items Hok rest.
    destruct (render_items_chunks items Hok) as [E F]. rewrite E.
    exact (chunks_gen St Es HS HB HE _ F [] rest). Qed.

  Lemma render_string_app : forall items rest,
    render_string items ++ rest = x22 :: flat_map render_sitem items ++ x22 :: rest.
  Proof. intros items rest. unfold render_string. cbn [app]. rewrite <- app_assoc. reflexivity. Qed.

  Lemma L_string : forall items s acc rest, sitems_ok items = true -> denote_string items = Some s ->
    leads (ML LVal acc [] false) (render_string items ++ rest) (ML LAfterString (acc ++ [VStr s]) [] false) rest.
  Proof. intros items s acc rest Hok D. rewrite render_string_app.
    eapply leads_trans.
    { apply bstep_go with (m' := ML LValString acc [] false); [reflexivity|]. intros l. reflexivity. }
    eapply leads_trans.
    { apply (body_gen (fun b => ML LValString acc b false) (fun b => ML LValEscape acc b false)); [| | |exact Hok].
      - intros buf r l H1 H2. cbn [next]. replace (r =? 92) with false by lia. replace (r =? 34) with false by lia. reflexivity.
      - intros buf l. reflexivity.
      - intros buf r l. reflexivity. }
    cbv beta. apply bstep_go; [reflexivity|]. intros l.
    rewrite <- (unescape_items_denote items s Hok D). reflexivity. Qed.

  Lemma O_string : forall items s acc key rest, sitems_ok items = true -> denote_string items = Some s ->
    leads (MO OVal acc key [] false) (render_string items ++ rest)
          (MO OAfterString (aset key (VStr s) acc) key (flat_map render_sitem items) false) rest.
  Proof. intros items s acc key rest Hok D. rewrite render_string_app.
    eapply leads_trans.
    { apply bstep_go with (m' := MO OValString acc key [] false); [reflexivity|]. intros l. reflexivity. }
    eapply leads_trans.
    { apply (body_gen (fun b => MO OValString acc key b false) (fun b => MO OValEscape acc key b false)); [| | |exact Hok].
      - intros buf r l H1 H2. cbn [next]. replace (r =? 92) with false by lia. replace (r =? 34) with false by lia. reflexivity.
      - intros buf l. reflexivity.
      - intros buf r l. reflexivity. }
    cbv beta. apply bstep_go; [reflexivity|]. intros l.
    rewrite <- (unescape_items_denote items s Hok D). reflexivity. Qed.

  (* ws "key" ws : *)
  Lemma O_key : forall items kb acc key buf inval a b rest, sitems_ok items = true -> denote_string items = Some kb ->
    leads (MO OKeyStart acc key buf inval) (render_ws a ++ render_string items ++ render_ws b ++ x3a :: rest)
          (MO OVal acc kb [] false) rest.
  Proof. intros items kb acc key buf inval a b rest Hok D.
    eapply leads_trans; [apply ws_OKeyStart|]. rewrite render_string_app.
    eapply leads_trans.
    { apply bstep_go with (m' := MO OKey acc [] buf inval); [reflexivity|]. intros l. reflexivity. }
    eapply leads_trans.
    { apply (body_gen (fun k => MO OKey acc k buf inval) (fun k => MO OKeyEscape acc k buf inval)); [| | |exact Hok].
      - intros k r l H1 H2. cbn [next]. replace (r =? 92) with false by lia. replace (r =? 34) with false by lia. reflexivity.
      - intros k l. reflexivity.
      - intros k r l. reflexivity. }
    cbv beta. eapply leads_trans.
    { apply bstep_go with (m' := MO OAfterKey acc (flat_map render_sitem items) buf inval); [reflexivity|].
      intros l. reflexivity. }
    eapply leads_trans; [apply ws_OAfterKey|].
    apply bstep_go; [reflexivity|]. intros l.
    rewrite <- (unescape_items_denote items kb Hok D). reflexivity. Qed.

  (* after a string value *)
  Lemma L_after_string_comma : forall acc buf inval w rest,
    leads (ML LAfterString acc buf inval) (render_ws w ++ x2c :: rest) (ML LVal acc buf inval) rest.
  Proof. intros acc buf inval w rest. eapply leads_trans; [apply ws_LAfterString|].
    apply bstep_go; [reflexivity|]. intros l. reflexivity. Qed.
  Lemma L_after_string_close : forall acc buf inval w rest,
    accepts (ML LAfterString acc buf inval) (render_ws w ++ x5d :: rest) (VList acc) rest.
  Proof. intros acc buf inval w rest. apply (ws_LAfterString acc buf inval w).
    apply bstep_ret; [reflexivity|]. intros l. reflexivity. Qed.
  Lemma O_after_string_comma : forall acc key buf inval w rest,
    leads (MO OAfterString acc key buf inval) (render_ws w ++ x2c :: rest) (MO OKeyStart acc key buf inval) rest.
  Proof. intros acc key buf inval w rest. eapply leads_trans; [apply ws_OAfterString|].
    apply bstep_go; [reflexivity|]. intros l. reflexivity. Qed.
  Lemma O_after_string_close : forall acc key buf inval w rest,
    accepts (MO OAfterString acc key buf inval) (render_ws w ++ x7d :: rest) (VObj acc) rest.
  Proof. intros acc key buf inval w rest. apply (ws_OAfterString acc key buf inval w).
    apply bstep_ret; [reflexivity|]. intros l. reflexivity. Qed.
  (* after a nested container in an object *)
  Lemma O_after_val_comma : forall acc key buf inval w rest,
    leads (MO OAfterVal acc key buf inval) (render_ws w ++ x2c :: rest) (MO OKeyStart acc key buf inval) rest.
  Proof. intros acc key buf inval w rest. eapply leads_trans; [apply ws_OAfterVal|].
    apply bstep_go; [reflexivity|]. intros l. reflexivity. Qed.
  Lemma O_after_val_close : forall acc key buf inval w rest,
    accepts (MO OAfterVal acc key buf inval) (render_ws w ++ x7d :: rest) (VObj acc) rest.
  Proof. intros acc key buf inval w rest. apply (ws_OAfterVal acc key buf inval w).
    apply bstep_ret; [reflexivity|]. intros l. reflexivity. Qed.

  (* ================= scalar tokens: parse_field ================= *)

  Lemma field_null : forall l, parse_field pfloat (B"null") l = inl VNil.
  Proof. intros l. reflexivity. Qed.

  Lemma field_true : forall l, parse_field pfloat (B"true") l = inl (VBool true).
  Proof. intros l. destruct F3 as [Ft _]. unfold parse_field.
    replace (bytes_eqb (B"true") (B"null")) with false by reflexivity.
    replace (pint0 (B"true")) with (@None Z) by (vm_compute; reflexivity). rewrite Ft. reflexivity. Qed.

  Lemma field_false : forall l, parse_field pfloat (B"false") l = inl (VBool false).
  Proof. intros l. destruct F3 as [_ Ff]. unfold parse_field.
    replace (bytes_eqb (B"false") (B"null")) with false by reflexivity.
    replace (pint0 (B"false")) with (@None Z) by (vm_compute; reflexivity). rewrite Ff. reflexivity. Qed.

  (* ---- digit strings ---- *)
  Lemma is_digit_range : forall c, is_digit c = true -> 0 <= bZ c - 48 <= 9.
  Proof. intros c H. unfold is_digit in H. lia. Qed.

  Lemma digits_value_ge : forall d acc, forallb is_digit d = true -> 0 <= acc -> acc <= digits_value d acc.
  Proof. induction d as [|c d IH]; intros acc H Ha; cbn [digits_value]; [lia|].
    cbn [forallb] in H. apply andb_true_iff in H as [Hc Hd]. pose proof (is_digit_range c Hc) as R.
    specialize (IH (acc * 10 + (bZ c - 48)) Hd). lia. Qed.

  Lemma puint10_digits : forall d n, forallb is_digit d = true -> 0 <= n <= max_u64 ->
    puint_loop 10 d n false =
    (if digits_value d n <=? max_u64 then inl (digits_value d n) else @inr Z GoInt.perr ERange, false).
  Proof. induction d as [|c d IH]; intros n H Hn.
    - cbn [puint_loop digits_value]. replace (n <=? max_u64) with true by lia. reflexivity.
    - cbn [forallb] in H. apply andb_true_iff in H as [Hc Hd]. pose proof (is_digit_range c Hc) as R.
      cbn [puint_loop digits_value].
      rewrite (is_digit_not_us c Hc), (digit_val_digit c Hc).
      replace (10 <=? bZ c - 48) with false by lia.
      pose proof (digits_value_ge d (n * 10 + (bZ c - 48)) Hd) as G.
      destruct (max_u64 / 10 + 1 <=? n) eqn:E1.
      { replace (digits_value d (n * 10 + (bZ c - 48)) <=? max_u64) with false; [reflexivity|].
        unfold max_u64, two64 in *. lia. }
      destruct (max_u64 <? n * 10 + (bZ c - 48)) eqn:E2.
      { replace (digits_value d (n * 10 + (bZ c - 48)) <=? max_u64) with false; [reflexivity|]. lia. }
      apply IH; [exact Hd|lia]. Qed.

  Lemma digits_ok_inv : forall d, digits_ok d = true -> forallb is_digit d = true /\ d <> [].
  Proof. intros [|c d] H; [discriminate H|]. split; [exact H|discriminate]. Qed.

  Lemma int_part_ok_inv : forall d, int_part_ok d = true ->
    exists c t, d = c :: t /\ is_digit c = true /\ forallb is_digit t = true /\ (byte_eqb c x30 = true -> t = []).
  Proof. intros d H. unfold int_part_ok in H. apply andb_true_iff in H as [H1 H2].
    destruct d as [|c t]; [discriminate H1|]. cbn [digits_ok forallb] in H1. apply andb_true_iff in H1 as [Hc Ht].
    exists c, t. split; [reflexivity|]. split; [exact Hc|]. split; [exact Ht|].
    intros E. destruct t as [|c' t']; [reflexivity|]. rewrite E in H2. discriminate H2. Qed.

  Lemma parse_uint0_int : forall d, int_part_ok d = true ->
    parse_uint0 d = if digits_value d 0 <=? max_u64 then inl (digits_value d 0) else inr ERange.
  Proof. intros d H. destruct (int_part_ok_inv d H) as [c [t [-> [Hc [Ht Hz]]]]].
    unfold parse_uint0. destruct (byte_eqb c x30) eqn:E0.
    - rewrite (Hz eq_refl). apply byte_eqb_eq in E0. subst c. reflexivity.
    - cbv beta iota. rewrite puint10_digits; [|cbn [forallb]; rewrite Hc, Ht; reflexivity|unfold max_u64, two64; lia].
      destruct (digits_value (c :: t) 0 <=? max_u64); reflexivity. Qed.

  Lemma digit_not_sign : forall c, is_digit c = true -> byte_eqb c x2b = false /\ byte_eqb c x2d = false.
  Proof. intros c H. unfold is_digit in H. split; apply byte_eqb_false_bZ.
    - change (bZ x2b) with 43. lia.
    - change (bZ x2d) with 45. lia. Qed.

  Definition sign_bytes (neg : bool) : bytes := if neg then [x2d] else [].

  Lemma pint0_signed : forall neg d c t, d = c :: t -> is_digit c = true ->
    pint0 (sign_bytes neg ++ d) =
    match parse_uint0 d with
    | inr _ => None
    | inl un => if negb neg && (two63 <=? un) then None
                else if neg && (two63 <? un) then None else Some (if neg then - un else un)
    end.
  Proof. intros neg d c t -> Hc. destruct (digit_not_sign c Hc) as [E1 E2]. destruct neg; cbn [sign_bytes app].
    - unfold pint0. replace (byte_eqb x2d x2b) with false by reflexivity.
      replace (byte_eqb x2d x2d) with true by reflexivity. reflexivity.
    - unfold pint0. rewrite E1, E2. reflexivity. Qed.

  Lemma pint0_int : forall neg d, int_part_ok d = true ->
    pint0 (sign_bytes neg ++ d) =
    let z := if neg then - digits_value d 0 else digits_value d 0 in if in_int64 z then Some z else None.
  Proof. intros neg d H. destruct (int_part_ok_inv d H) as [c [t [E [Hc [Ht Hz]]]]].
    rewrite (pint0_signed neg d c t E Hc). rewrite (parse_uint0_int d H).
    assert (G : 0 <= digits_value d 0).
    { apply digits_value_ge; [|lia]. rewrite E. cbn [forallb]. rewrite Hc, Ht. reflexivity. }
    cbv zeta. unfold in_int64, min_int, max_int, max_u64, two64, two63 in *.
    destruct (digits_value d 0 <=? 18446744073709551616 - 1) eqn:E1; destruct neg; cbn [negb andb];
      repeat match goal with |- context [if ?c then _ else _] => destruct c eqn:? end;
      try reflexivity; exfalso; lia. Qed.

  (* ---- tokens with a fraction or an exponent are not integers for ParseInt ---- *)
  Lemma puint_loop_bad_base : forall base ds c rest n us, forallb is_digit ds = true -> byte_eqb c x5f = false ->
    match digit_val c with None => True | Some d => base <= d end ->
    exists e us', puint_loop base (ds ++ c :: rest) n us = (inr e, us').
  Proof. intros base. induction ds as [|c0 ds IH]; intros c rest n us H Hus Hb.
    - cbn [app puint_loop]. rewrite Hus. destruct (digit_val c) as [d|]; [|eauto].
      replace (base <=? d) with true by lia. eauto.
    - cbn [forallb] in H. apply andb_true_iff in H as [Hc Hd]. cbn [app puint_loop].
      rewrite (is_digit_not_us c0 Hc), (digit_val_digit c0 Hc).
      destruct (base <=? bZ c0 - 48); [eauto|].
      destruct (max_u64 / base + 1 <=? n); [eauto|].
      destruct (max_u64 <? n * base + (bZ c0 - 48)); [eauto|].
      apply IH; assumption. Qed.

  Definition numsep (c : byte) : Prop := c = x2e \/ c = x65 \/ c = x45.

  Lemma parse_uint0_nonint : forall d c tail, int_part_ok d = true -> numsep c ->
    exists e, parse_uint0 (d ++ c :: tail) = inr e.
  Proof. intros d c tail H Hc. destruct (int_part_ok_inv d H) as [c0 [t [-> [Hc0 [Ht Hz]]]]].
    cbn [app]. destruct (byte_eqb c0 x30) eqn:E0.
    - rewrite (Hz eq_refl). apply byte_eqb_eq in E0. subst c0. cbn [app].
      destruct tail as [|t1 tl]; destruct Hc as [-> | [-> | ->]]; exists ESyntax; reflexivity.
    - unfold parse_uint0. rewrite E0. cbv beta iota.
      destruct (puint_loop_bad_base 10 (c0 :: t) c tail 0 false) as [e [us' E]].
      + cbn [forallb]. rewrite Hc0, Ht. reflexivity.
      + destruct Hc as [-> | [-> | ->]]; reflexivity.
      + destruct Hc as [-> | [-> | ->]]; vm_compute; try exact I; discriminate.
      + change (c0 :: t ++ c :: tail) with ((c0 :: t) ++ c :: tail). rewrite E. exists e. reflexivity. Qed.

  Lemma pint0_nonint : forall neg d c tail, int_part_ok d = true -> numsep c ->
    pint0 (sign_bytes neg ++ d ++ c :: tail) = None.
  Proof. intros neg d c tail H Hc. destruct (int_part_ok_inv d H) as [c0 [t [E [Hc0 [Ht Hz]]]]].
    destruct (parse_uint0_nonint d c tail H Hc) as [e Ee].
    rewrite (pint0_signed neg (d ++ c :: tail) c0 (t ++ c :: tail)); [|rewrite E; reflexivity|exact Hc0].
    rewrite Ee. reflexivity. Qed.

  Lemma render_num_nonint : forall n, (n_frac n <> None \/ n_exp n <> None) ->
    exists c tail, render_num n = sign_bytes (n_neg n) ++ n_int n ++ c :: tail /\ numsep c.
  Proof. intros n H. unfold render_num. fold (sign_bytes (n_neg n)).
    destruct (n_frac n) as [f|].
    - exists x2e. eexists. split; [cbn [app]; reflexivity|]. left. reflexivity.
    - destruct (n_exp n) as [[[up sg] e]|].
      + cbn [app]. destruct up.
        * exists x45. eexists. split; [reflexivity|]. right. right. reflexivity.
        * exists x65. eexists. split; [reflexivity|]. right. left. reflexivity.
      + destruct H as [H | H]; congruence. Qed.

  Lemma render_num_int : forall n, n_frac n = None -> n_exp n = None ->
    render_num n = sign_bytes (n_neg n) ++ n_int n.
  Proof. intros n Hf He. unfold render_num. rewrite Hf, He. rewrite !app_nil_r. reflexivity. Qed.

  Lemma render_num_head : forall n, jnum_ok n = true ->
    exists c t, render_num n = c :: t /\ (c = x2d \/ is_digit c = true).
  Proof. intros n H. unfold jnum_ok in H. apply andb_true_iff in H as [H _]. apply andb_true_iff in H as [H _].
    destruct (int_part_ok_inv _ H) as [c0 [t [E [Hc0 _]]]]. unfold render_num. rewrite E.
    destruct (n_neg n); cbn [app]; eexists; eexists; (split; [reflexivity|]); [left; reflexivity|right; exact Hc0]. Qed.

  Lemma num_not_null : forall n, jnum_ok n = true -> bytes_eqb (render_num n) (B"null") = false.
  Proof. intros n H. destruct (render_num_head n H) as [c [t [E Hc]]]. rewrite E.
    apply bytes_eqb_neq. intros X. change (B"null") with [x6e; x75; x6c; x6c] in X. injection X as -> _.
    destruct Hc as [Hc | Hc]; [discriminate Hc|vm_compute in Hc; discriminate Hc]. Qed.

  Lemma num_field : forall n v, jnum_ok n = true -> denote_num pfloat n = Some v ->
    forall l, parse_field pfloat (render_num n) l = inl v.
  Proof. intros n v H D l. unfold parse_field. rewrite (num_not_null n H).
    pose proof H as H'. unfold jnum_ok in H'. apply andb_true_iff in H' as [H' _]. apply andb_true_iff in H' as [Hi _].
    unfold denote_num in D. cbv zeta in D.
    destruct (n_frac n) as [f|] eqn:Ef; [|destruct (n_exp n) as [ex|] eqn:Ee].
    - destruct (render_num_nonint n) as [c [tail [E Hc]]]; [left; rewrite Ef; discriminate|].
      rewrite E at 1. rewrite (pint0_nonint _ _ _ _ Hi Hc).
      destruct (pfloat (render_num n)) as [b|]; [|discriminate D]. injection D as <-. reflexivity.
    - destruct (render_num_nonint n) as [c [tail [E Hc]]]; [right; rewrite Ee; discriminate|].
      rewrite E at 1. rewrite (pint0_nonint _ _ _ _ Hi Hc).
      destruct (pfloat (render_num n)) as [b|]; [|discriminate D]. injection D as <-. reflexivity.
    - rewrite (render_num_int n Ef Ee) at 1. rewrite (pint0_int _ _ Hi). cbv zeta.
      destruct (in_int64 (if n_neg n then - digits_value (n_int n) 0 else digits_value (n_int n) 0)).
      + injection D as <-. reflexivity.
      + destruct (pfloat (render_num n)) as [b|]; [|discriminate D]. injection D as <-. reflexivity. Qed.

  (* ---- the characters of a number token are plain token characters ---- *)
  Lemma tokch_digit : forall c, is_digit c = true -> tokch c = true.
  Proof. intros c H. unfold is_digit in H. unfold tokch, is_space. lia. Qed.

  Lemma tokch_digits : forall d, forallb is_digit d = true -> forallb tokch d = true.
  Proof. induction d as [|c d IH]; intros H; [reflexivity|]. cbn [forallb] in *.
    apply andb_true_iff in H as [Hc Hd]. rewrite (tokch_digit c Hc), (IH Hd). reflexivity. Qed.

  Lemma forallb_app' : forall (f : byte -> bool) a b, forallb f a = true -> forallb f b = true -> forallb f (a ++ b) = true.
  Proof. intros f a b Ha Hb. rewrite forallb_app, Ha, Hb. reflexivity. Qed.

  Lemma num_tokch : forall n, jnum_ok n = true -> forallb tokch (render_num n) = true.
  Proof. intros n H. unfold jnum_ok in H. apply andb_true_iff in H as [H He]. apply andb_true_iff in H as [Hi Hf].
    unfold int_part_ok in Hi. apply andb_true_iff in Hi as [Hi _]. apply digits_ok_inv in Hi as [Hi _].
    unfold render_num. apply forallb_app'; [destruct (n_neg n); reflexivity|].
    apply forallb_app'; [apply tokch_digits; exact Hi|].
    apply forallb_app'.
    - destruct (n_frac n) as [f|]; [|reflexivity]. apply digits_ok_inv in Hf as [Hf _].
      cbn [forallb]. rewrite (tokch_digits f Hf). reflexivity.
    - destruct (n_exp n) as [[[up sg] e]|]; [|reflexivity]. apply digits_ok_inv in He as [He _].
      cbn [forallb]. rewrite forallb_app, (tokch_digits e He).
      destruct up; destruct sg; reflexivity. Qed.

  (* ================= named versions of the nested fixpoints of render / denote ================= *)

  Fixpoint render_elems (l : list (ws * doc * ws)) : bytes :=
    match l with
    | [] => []
    | [(a, x, b)] => render_ws a ++ render x ++ render_ws b
    | (a, x, b) :: t => render_ws a ++ render x ++ render_ws b ++ x2c :: render_elems t
    end.
  Fixpoint render_members (l : list (ws * list sitem * ws * ws * doc * ws)) : bytes :=
    match l with
    | [] => []
    | [(a, k, b, c, x, e)] => render_ws a ++ render_string k ++ render_ws b ++ x3a :: render_ws c ++ render x ++ render_ws e
    | (a, k, b, c, x, e) :: t =>
        render_ws a ++ render_string k ++ render_ws b ++ x3a :: render_ws c ++ render x ++ render_ws e ++ x2c :: render_members t
    end.
  Fixpoint denote_elems (l : list (ws * doc * ws)) : option (list val) :=
    match l with
    | [] => Some []
    | (_, x, _) :: t => match denote pfloat x, denote_elems t with Some v, Some vs => Some (v :: vs) | _, _ => None end
    end.
  Fixpoint denote_members (l : list (ws * list sitem * ws * ws * doc * ws)) (acc : list (bytes * val)) : option (list (bytes * val)) :=
    match l with
    | [] => Some acc
    | (_, k, _, _, x, _) :: t =>
        match denote_string k, denote pfloat x with Some kb, Some v => denote_members t (aset kb v acc) | _, _ => None end
    end.

  Lemma render_arr : forall w l,
    render (DArr w l) = x5b :: match l with [] => render_ws w | _ => render_elems l end ++ [x5d].
  Proof. intros w l. cbn [render].
    match goal with |- _ :: match l with [] => _ | _ :: _ => ?F l end ++ _ = _ => assert (G : forall l', F l' = render_elems l') end.
    { induction l' as [|[[a x] b] t IH]; [reflexivity|]. destruct t as [|p t']; [reflexivity|].
      change (render_elems ((a, x, b) :: p :: t')) with
        (render_ws a ++ render x ++ render_ws b ++ x2c :: render_elems (p :: t')).
      rewrite <- IH. reflexivity. }
    rewrite G. reflexivity. Qed.

  Lemma render_obj : forall w l,
    render (DObj w l) = x7b :: match l with [] => render_ws w | _ => render_members l end ++ [x7d].
  Proof. intros w l. cbn [render].
    match goal with |- _ :: match l with [] => _ | _ :: _ => ?F l end ++ _ = _ => assert (G : forall l', F l' = render_members l') end.
    { induction l' as [|[[[[[a k] b] c] x] e] t IH]; [reflexivity|]. destruct t as [|p t']; [reflexivity|].
      change (render_members ((a, k, b, c, x, e) :: p :: t')) with
        (render_ws a ++ render_string k ++ render_ws b ++ x3a :: render_ws c ++ render x ++ render_ws e ++ x2c :: render_members (p :: t')).
      rewrite <- IH. reflexivity. }
    rewrite G. reflexivity. Qed.

  Lemma denote_arr : forall w l,
    denote pfloat (DArr w l) = match denote_elems l with Some vs => Some (VList vs) | None => None end.
  Proof. intros w l. cbn [denote].
    match goal with |- match ?F l with Some _ => _ | None => _ end = _ => assert (G : forall l', F l' = denote_elems l') end.
    { induction l' as [|[[a x] b] t IH]; [reflexivity|]. cbn [denote_elems]. rewrite <- IH. reflexivity. }
    rewrite G. reflexivity. Qed.

  Lemma denote_obj : forall w l,
    denote pfloat (DObj w l) = match denote_members l [] with Some kvs => Some (VObj kvs) | None => None end.
  Proof. intros w l. cbn [denote].
    match goal with |- match ?F l [] with Some _ => _ | None => _ end = _ => assert (G : forall l' acc, F l' acc = denote_members l' acc) end.
    { induction l' as [|[[[[[a k] b] c] x] e] t IH]; intros acc; [reflexivity|]. cbn [denote_members].
      destruct (denote_string k) as [kb|]; [|reflexivity]. destruct (denote pfloat x) as [v|]; [|reflexivity]. apply IH. }
    rewrite G. reflexivity. Qed.

  (* nested induction principle for documents *)
  Section DocInd.
    Variable P : doc -> Prop.
    Hypothesis Hnull : P DNull.
    Hypothesis Htrue : P DTrue.
    Hypothesis Hfalse : P DFalse.
    Hypothesis Hnum : forall n, P (DNum n).
    Hypothesis Hstr : forall s, P (DStr s).
    Hypothesis Harr : forall w elems, Forall (fun e => P (snd (fst e))) elems -> P (DArr w elems).
    Hypothesis Hobj : forall w members, Forall (fun m => P (snd (fst m))) members -> P (DObj w members).
    Fixpoint doc_ind' (d : doc) : P d :=
      match d with
      | DNull => Hnull | DTrue => Htrue | DFalse => Hfalse | DNum n => Hnum n | DStr s => Hstr s
      | DArr w elems =>
          Harr w elems ((fix go (l : list (ws * doc * ws)) : Forall (fun e => P (snd (fst e))) l :=
                           match l with [] => Forall_nil _ | e :: t => Forall_cons _ (doc_ind' (snd (fst e))) (go t) end) elems)
      | DObj w members =>
          Hobj w members ((fix go (l : list (ws * list sitem * ws * ws * doc * ws)) : Forall (fun m => P (snd (fst m))) l :=
                             match l with [] => Forall_nil _ | m :: t => Forall_cons _ (doc_ind' (snd (fst m))) (go t) end) members)
      end.
  End DocInd.

  (* ================= one element / one member value ================= *)

  (* [t] is the text of a value, [v] its meaning: what both machines do on  ws t ws delimiter  *)
  Definition elem_ok (t : bytes) (v : val) : Prop :=
    (forall a b acc rest,
       leads (ML LVal acc [] false) (render_ws a ++ t ++ render_ws b ++ x2c :: rest) (ML LVal (acc ++ [v]) [] false) rest /\
       accepts (ML LVal acc [] false) (render_ws a ++ t ++ render_ws b ++ x5d :: rest) (VList (acc ++ [v])) rest) /\
    (forall a b acc key rest,
       (exists key' buf' inval',
          leads (MO OVal acc key [] false) (render_ws a ++ t ++ render_ws b ++ x2c :: rest)
                (MO OKeyStart (aset key v acc) key' buf' inval') rest) /\
       accepts (MO OVal acc key [] false) (render_ws a ++ t ++ render_ws b ++ x7d :: rest) (VObj (aset key v acc)) rest).

  Lemma scalar_elem_ok : forall tok v, tok <> [] -> forallb tokch tok = true ->
    (forall l, parse_field pfloat tok l = inl v) -> elem_ok tok v.
  Proof. intros tok v Hn Ht Hf. split.
    - intros a b acc rest. split.
      + eapply leads_trans; [apply ws_LVal|]. eapply leads_trans; [apply tok_L; assumption|].
        eapply leads_trans; [apply ws_LVal|]. destruct tok as [|c t]; [congruence|]. apply L_comma_tok. exact Hf.
      + apply (ws_LVal acc [] false a). apply (tok_L acc tok _ Hn Ht). apply (ws_LVal acc tok true b).
        destruct tok as [|c t]; [congruence|]. apply L_close_tok. exact Hf.
    - intros a b acc key rest. split.
      + exists key, tok, true.
        eapply leads_trans; [apply ws_OVal|]. eapply leads_trans; [apply tok_O; assumption|].
        eapply leads_trans; [apply ws_OVal|]. destruct tok as [|c t]; [congruence|]. apply O_comma_tok. exact Hf.
      + apply (ws_OVal acc key [] false a). apply (tok_O acc key tok _ Hn Ht). apply (ws_OVal acc key tok true b).
        destruct tok as [|c t]; [congruence|]. apply O_close_tok. exact Hf. Qed.

  Lemma string_elem_ok : forall items s, sitems_ok items = true -> denote_string items = Some s ->
    elem_ok (render_string items) (VStr s).
  Proof. intros items s Hok D. split.
    - intros a b acc rest. split.
      + eapply leads_trans; [apply ws_LVal|]. eapply leads_trans; [apply (L_string items s); assumption|].
        apply L_after_string_comma.
      + apply (ws_LVal acc [] false a). apply (L_string items s acc _ Hok D). apply L_after_string_close.
    - intros a b acc key rest. split.
      + exists key, (flat_map render_sitem items), false.
        eapply leads_trans; [apply ws_OVal|]. eapply leads_trans; [apply (O_string items s); assumption|].
        apply O_after_string_comma.
      + apply (ws_OVal acc key [] false a). apply (O_string items s acc key _ Hok D). apply O_after_string_close. Qed.

  (* a nested container: [open] is its opening bracket, [m0] the machine that reads it *)
  Lemma L_nest : forall c m0 text v acc rest, (c = x5b /\ m0 = ML LVal [] [] false) \/ (c = x7b /\ m0 = MO OKeyStart [] [] [] false) ->
    (forall r, accepts m0 (text ++ r) v r) ->
    leads (ML LVal acc [] false) ((c :: text) ++ rest) (ML LVal (acc ++ [v]) [] false) rest.
  Proof. intros c m0 text v acc rest Hc H. cbn [app].
    destruct Hc as [[-> ->] | [-> ->]].
    - apply (bstep_nest (ML LVal acc [] false) x5b (ML LVal [] [] false) (fun l => ML LVal (acc ++ [l]) [] false));
        [reflexivity|intros l; reflexivity|apply H].
    - apply (bstep_nest (ML LVal acc [] false) x7b (MO OKeyStart [] [] [] false) (fun l => ML LVal (acc ++ [l]) [] false));
        [reflexivity|intros l; reflexivity|apply H]. Qed.

  Lemma O_nest : forall c m0 text v acc key rest, (c = x5b /\ m0 = ML LVal [] [] false) \/ (c = x7b /\ m0 = MO OKeyStart [] [] [] false) ->
    (forall r, accepts m0 (text ++ r) v r) ->
    leads (MO OVal acc key [] false) ((c :: text) ++ rest) (MO OAfterVal (aset key v acc) key [] false) rest.
  Proof. intros c m0 text v acc key rest Hc H. cbn [app].
    destruct Hc as [[-> ->] | [-> ->]].
    - apply (bstep_nest (MO OVal acc key [] false) x5b (ML LVal [] [] false) (fun l => MO OAfterVal (aset key l acc) key [] false));
        [reflexivity|intros l; reflexivity|apply H].
    - apply (bstep_nest (MO OVal acc key [] false) x7b (MO OKeyStart [] [] [] false) (fun l => MO OAfterVal (aset key l acc) key [] false));
        [reflexivity|intros l; reflexivity|apply H]. Qed.

  Lemma nest_elem_ok : forall c m0 text v, (c = x5b /\ m0 = ML LVal [] [] false) \/ (c = x7b /\ m0 = MO OKeyStart [] [] [] false) ->
    (forall r, accepts m0 (text ++ r) v r) -> elem_ok (c :: text) v.
  Proof. intros c m0 text v Hc H. split.
    - intros a b acc rest. split.
      + eapply leads_trans; [apply ws_LVal|]. eapply leads_trans; [apply (L_nest c m0 text v); assumption|].
        eapply leads_trans; [apply ws_LVal|]. apply L_comma_nil.
      + apply (ws_LVal acc [] false a). apply (L_nest c m0 text v acc _ Hc H). apply (ws_LVal (acc ++ [v]) [] false b).
        apply L_close_nil.
    - intros a b acc key rest. split.
      + exists key, [], false.
        eapply leads_trans; [apply ws_OVal|]. eapply leads_trans; [apply (O_nest c m0 text v); assumption|].
        apply O_after_val_comma.
      + apply (ws_OVal acc key [] false a). apply (O_nest c m0 text v acc key _ Hc H). apply O_after_val_close. Qed.

  (* ================= containers ================= *)

  Definition Pdoc (d : doc) : Prop := forall v, doc_ok d = true -> denote pfloat d = Some v -> elem_ok (render d) v.

  Lemma elems_run : forall elems, elems <> [] -> Forall (fun e => Pdoc (snd (fst e))) elems ->
    forallb (fun e => doc_ok (snd (fst e))) elems = true ->
    forall vs, denote_elems elems = Some vs ->
    forall acc rest, accepts (ML LVal acc [] false) (render_elems elems ++ x5d :: rest) (VList (acc ++ vs)) rest.
  Proof. induction elems as [|[[a x] b] t IH]; intros Hn HP Hok vs D acc rest; [congruence|].
    inversion HP as [|e' t' Px Pt]; subst e' t'. cbn [fst snd] in Px.
    cbn [forallb fst snd] in Hok. apply andb_true_iff in Hok as [Okx Okt].
    cbn [denote_elems] in D. destruct (denote pfloat x) as [v|] eqn:Dx; [|discriminate D].
    destruct (denote_elems t) as [vs'|] eqn:Dt; [|discriminate D]. injection D as <-.
    destruct (Px v Okx Dx) as [HL _]. destruct (HL a b acc rest) as [_ Hclose].
    destruct t as [|p t0].
    - cbn [denote_elems] in Dt. injection Dt as <-. cbn [render_elems]. rewrite <- !app_assoc. exact Hclose.
    - change (render_elems ((a, x, b) :: p :: t0)) with
        (render_ws a ++ render x ++ render_ws b ++ x2c :: render_elems (p :: t0)).
      rewrite <- !app_assoc. rewrite <- app_comm_cons.
      destruct (HL a b acc (render_elems (p :: t0) ++ x5d :: rest)) as [Hcomma _].
      apply Hcomma. replace (acc ++ v :: vs') with ((acc ++ [v]) ++ vs') by (rewrite <- app_assoc; reflexivity).
      apply IH; [discriminate|exact Pt|exact Okt|reflexivity]. Qed.

  Lemma arr_run : forall w elems v, Forall (fun e => Pdoc (snd (fst e))) elems ->
    doc_ok (DArr w elems) = true -> denote pfloat (DArr w elems) = Some v ->
    forall rest, accepts (ML LVal [] [] false)
                   ((match elems with [] => render_ws w | _ => render_elems elems end ++ [x5d]) ++ rest) v rest.
  Proof. intros w elems v HP Hok D rest. rewrite denote_arr in D. cbn [doc_ok] in Hok.
    destruct (denote_elems elems) as [vs|] eqn:De; [|discriminate D]. injection D as <-.
    rewrite <- app_assoc. cbn [app].
    destruct elems as [|e t].
    - cbn [denote_elems] in De. injection De as <-. apply (ws_LVal [] [] false w). apply L_close_nil.
    - apply (elems_run (e :: t) ltac:(discriminate) HP Hok vs De [] rest). Qed.

  Lemma members_run : forall members, members <> [] -> Forall (fun m => Pdoc (snd (fst m))) members ->
    forallb (fun m => let '(_, k, _, _, x, _) := m in sitems_ok k && doc_ok x) members = true ->
    forall acc kvs, denote_members members acc = Some kvs ->
    forall key buf inval rest,
      accepts (MO OKeyStart acc key buf inval) (render_members members ++ x7d :: rest) (VObj kvs) rest.
  Proof. induction members as [|[[[[[a k] b] c] x] e] t IH]; intros Hn HP Hok acc kvs D key buf inval rest; [congruence|].
    inversion HP as [|m' t' Px Pt]; subst m' t'. cbn [fst snd] in Px.
    cbn [forallb] in Hok. apply andb_true_iff in Hok as [Okx Okt]. apply andb_true_iff in Okx as [Okk Okx].
    cbn [denote_members] in D. destruct (denote_string k) as [kb|] eqn:Dk; [|discriminate D].
    destruct (denote pfloat x) as [v|] eqn:Dx; [|discriminate D].
    destruct (Px v Okx Dx) as [_ HO].
    destruct t as [|p t0].
    - cbn [denote_members] in D. injection D as <-. cbn [render_members].
      rewrite <- !app_assoc. rewrite <- app_comm_cons. rewrite <- !app_assoc.
      apply (O_key k kb acc key buf inval a b _ Okk Dk).
      destruct (HO c e acc kb rest) as [_ Hclose]. exact Hclose.
    - change (render_members ((a, k, b, c, x, e) :: p :: t0)) with
        (render_ws a ++ render_string k ++ render_ws b ++ x3a :: render_ws c ++ render x ++ render_ws e ++ x2c :: render_members (p :: t0)).
      rewrite <- !app_assoc. rewrite <- app_comm_cons. rewrite <- !app_assoc. rewrite <- app_comm_cons.
      apply (O_key k kb acc key buf inval a b _ Okk Dk).
      destruct (HO c e acc kb (render_members (p :: t0) ++ x7d :: rest)) as [[key' [buf' [inval' Hcomma]]] _].
      apply Hcomma. apply IH; [discriminate|exact Pt|exact Okt|exact D]. Qed.

  Lemma obj_run : forall w members v, Forall (fun m => Pdoc (snd (fst m))) members ->
    doc_ok (DObj w members) = true -> denote pfloat (DObj w members) = Some v ->
    forall rest, accepts (MO OKeyStart [] [] [] false)
                   ((match members with [] => render_ws w | _ => render_members members end ++ [x7d]) ++ rest) v rest.
  Proof. intros w members v HP Hok D rest. rewrite denote_obj in D. cbn [doc_ok] in Hok.
    destruct (denote_members members []) as [kvs|] eqn:De; [|discriminate D]. injection D as <-.
    rewrite <- app_assoc. cbn [app].
    destruct members as [|m t].
    - cbn [denote_members] in De. injection De as <-. apply (ws_OKeyStart [] [] [] false w).
      apply bstep_ret; [reflexivity|]. intros l. reflexivity.
    - apply (members_run (m :: t) ltac:(discriminate) HP Hok [] kvs De). Qed.

  Lemma Pdoc_all : forall d, Pdoc d.
  Proof. induction d as [ | | | n | s | w elems IH | w members IH] using doc_ind'; intros v Hok D.
    - injection D as <-. apply scalar_elem_ok; [discriminate|reflexivity|apply field_null].
    - injection D as <-. apply scalar_elem_ok; [discriminate|reflexivity|apply field_true].
    - injection D as <-. apply scalar_elem_ok; [discriminate|reflexivity|apply field_false].
    - cbn [doc_ok denote render] in *. apply scalar_elem_ok.
      + destruct (render_num_head n Hok) as [c [t [E _]]]. rewrite E. discriminate.
      + apply num_tokch. exact Hok.
      + apply num_field; assumption.
    - cbn [doc_ok denote render] in *. destruct (denote_string s) as [b|] eqn:Ds; [|discriminate D].
      injection D as <-. apply string_elem_ok; assumption.
    - rewrite render_arr. apply (nest_elem_ok x5b (ML LVal [] [] false)); [left; split; reflexivity|].
      intros r. apply arr_run; assumption.
    - rewrite render_obj. apply (nest_elem_ok x7b (MO OKeyStart [] [] [] false)); [right; split; reflexivity|].
      intros r. apply obj_run; assumption. Qed.

  (* ================= main theorems ================= *)

  (* One element of an array / one member value of an object, with its surrounding blanks, up to and including the
     delimiter:  after ',' the machine is back in its value / key state with the meaning of the element appended
     (list: acc ++ [v]; object: aset key v acc); on the closing bracket it returns the finished container. *)
  Theorem parse_value_correct : forall d v, doc_ok d = true -> denote pfloat d = Some v ->
    (forall a b acc rest,
       leads (ML LVal acc [] false) (render_ws a ++ render d ++ render_ws b ++ x2c :: rest)
             (ML LVal (acc ++ [v]) [] false) rest /\
       accepts (ML LVal acc [] false) (render_ws a ++ render d ++ render_ws b ++ x5d :: rest) (VList (acc ++ [v])) rest) /\
    (forall a b acc key rest,
       (exists key' buf' inval',
          leads (MO OVal acc key [] false) (render_ws a ++ render d ++ render_ws b ++ x2c :: rest)
                (MO OKeyStart (aset key v acc) key' buf' inval') rest) /\
       accepts (MO OVal acc key [] false) (render_ws a ++ render d ++ render_ws b ++ x7d :: rest) (VObj (aset key v acc)) rest).
  Proof. intros d v Hok D. exact (Pdoc_all d v Hok D). Qed.

  (* the same, spelled out with the fuelled machine of Json.v, for the closing-bracket case *)
  Corollary parse_last_element : forall d v, doc_ok d = true -> denote pfloat d = Some v ->
    forall a b acc rest line, exists fuel line',
      plist pfloat fuel LVal acc [] false (render_ws a ++ render d ++ render_ws b ++ x5d :: rest) line
      = POk (VList (acc ++ [v])) rest line'.
  Proof. intros d v Hok D a b acc rest line.
    destruct (parse_value_correct d v Hok D) as [HL _]. destruct (HL a b acc rest) as [_ H]. exact (H line). Qed.

  Corollary parse_last_member : forall d v, doc_ok d = true -> denote pfloat d = Some v ->
    forall a b acc key rest line, exists fuel line',
      pobj pfloat fuel OVal acc key [] false (render_ws a ++ render d ++ render_ws b ++ x7d :: rest) line
      = POk (VObj (aset key v acc)) rest line'.
  Proof. intros d v Hok D a b acc key rest line.
    destruct (parse_value_correct d v Hok D) as [_ HO]. destruct (HO a b acc key rest) as [_ H]. exact (H line). Qed.

  Lemma all_Pdoc_elems : forall elems : list (ws * doc * ws), Forall (fun e => Pdoc (snd (fst e))) elems.
  Proof. intros elems. apply Forall_forall. intros e _. apply Pdoc_all. Qed.
  Lemma all_Pdoc_members : forall members : list (ws * list sitem * ws * ws * doc * ws),
    Forall (fun m => Pdoc (snd (fst m))) members.
  Proof. intros members. apply Forall_forall. intros m _. apply Pdoc_all. Qed.

  Lemma find_byte_ws : forall c a t l, (forall k, wsc_byte k <> c) ->
    find_byte c (render_ws a ++ c :: t) l = Some (t, l + count_nl (render_ws a)).
  Proof. intros c a t l Hc. revert l. induction a as [|k a IH]; intros l.
    - cbn [render_ws map app find_byte count_nl]. rewrite byte_eqb_refl. rewrite Z.add_0_r. reflexivity.
    - change (render_ws (k :: a) ++ c :: t) with (wsc_byte k :: render_ws a ++ c :: t).
      change (render_ws (k :: a)) with (wsc_byte k :: render_ws a).
      cbn [find_byte count_nl]. specialize (Hc k). apply byte_eqb_neq in Hc. rewrite Hc. rewrite IH.
      destruct (byte_eqb (wsc_byte k) x0a); f_equal; f_equal; lia. Qed.

  Lemma count_nl_cons_other : forall c t, byte_eqb c x0a = false -> count_nl (c :: t) = count_nl t.
  Proof. intros c t H. cbn [count_nl]. rewrite H. lia. Qed.

  (* the accepted text determines the final line counter *)
  Lemma accepted_line : forall f m text rest line v line',
    mrun pfloat f m (text ++ rest) line = POk v rest line' -> line' = line + count_nl text.
  Proof. intros f m text rest line v line' H. apply mrun_consumes in H.
    destruct H as [used [E [_ [L _]]]]. apply app_inv_tail in E. subst used. exact L. Qed.

  Theorem parse_list_correct : forall a w elems b v,
    doc_ok (DArr w elems) = true -> denote pfloat (DArr w elems) = Some v ->
    exists line', parse_list_top pfloat (render_ws a ++ render (DArr w elems) ++ render_ws b) = POk v (render_ws b) line'.
  Proof. intros a w elems b v Hok D. rewrite render_arr. cbn [app]. unfold parse_list_top.
    rewrite find_byte_ws by (intros []; discriminate).
    destruct (arr_run w elems v (all_Pdoc_elems elems) Hok D (render_ws b) (1 + count_nl (render_ws a))) as [f [line' E]].
    exists line'. exact (mrun_top_fuel f (ML LVal [] [] false) _ _ _ _ _ E). Qed.

  Theorem parse_object_correct : forall a w members b v,
    doc_ok (DObj w members) = true -> denote pfloat (DObj w members) = Some v ->
    exists line', parse_object_top pfloat (render_ws a ++ render (DObj w members) ++ render_ws b) = POk v (render_ws b) line'.
  Proof. intros a w members b v Hok D. rewrite render_obj. cbn [app]. unfold parse_object_top.
    rewrite find_byte_ws by (intros []; discriminate).
    destruct (obj_run w members v (all_Pdoc_members members) Hok D (render_ws b) (1 + count_nl (render_ws a))) as [f [line' E]].
    exists line'. exact (mrun_top_fuel f (MO OKeyStart [] [] [] false) _ _ _ _ _ E). Qed.

  (* with the value of the final line counter: 1 + the number of newlines up to and including the root container *)
  Theorem parse_list_correct_line : forall a w elems b v,
    doc_ok (DArr w elems) = true -> denote pfloat (DArr w elems) = Some v ->
    parse_list_top pfloat (render_ws a ++ render (DArr w elems) ++ render_ws b)
    = POk v (render_ws b) (1 + count_nl (render_ws a ++ render (DArr w elems))).
  Proof. intros a w elems b v Hok D. destruct (parse_list_correct a w elems b v Hok D) as [line' E]. rewrite E.
    f_equal. revert E. rewrite render_arr. cbn [app]. unfold parse_list_top.
    rewrite find_byte_ws by (intros []; discriminate). intros E.
    apply (accepted_line _ (ML LVal [] [] false)) in E. rewrite E.
    rewrite (count_nl_app (render_ws a)). rewrite count_nl_cons_other by reflexivity. lia. Qed.

  Theorem parse_object_correct_line : forall a w members b v,
    doc_ok (DObj w members) = true -> denote pfloat (DObj w members) = Some v ->
    parse_object_top pfloat (render_ws a ++ render (DObj w members) ++ render_ws b)
    = POk v (render_ws b) (1 + count_nl (render_ws a ++ render (DObj w members))).
  Proof. intros a w members b v Hok D. destruct (parse_object_correct a w members b v Hok D) as [line' E]. rewrite E.
    f_equal. revert E. rewrite render_obj. cbn [app]. unfold parse_object_top.
    rewrite find_byte_ws by (intros []; discriminate). intros E.
    apply (accepted_line _ (MO OKeyStart [] [] [] false)) in E. rewrite E.
    rewrite (count_nl_app (render_ws a)). rewrite count_nl_cons_other by reflexivity. lia. Qed.

End PC.
