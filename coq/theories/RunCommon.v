(* RunCommon.v — shared pieces of the correspondence runners. *)
From Anytype Require Import Base FloatBits Value.
Local Open Scope Z_scope.

(* [mismatches chk cases] = ids (positions are supplied by the harness) of the cases the model disagrees with *)
Fixpoint mismatches {C} (chk : C -> bool) (cs : list (Z * C)) : list Z :=
  match cs with
  | [] => []
  | (id, c) :: t => if chk c then mismatches chk t else id :: mismatches chk t
  end.

Definition res_eqb {A} (eqb : A -> A -> bool) (a b : res A) : bool :=
  match a, b with Ok x, Ok y => eqb x y | Panic, Panic => true | _, _ => false end.

Definition option_eqb {A} (eqb : A -> A -> bool) (a b : option A) : bool :=
  match a, b with Some x, Some y => eqb x y | None, None => true | _, _ => false end.

Fixpoint list_eqb {A} (eqb : A -> A -> bool) (a b : list A) : bool :=
  match a, b with
  | [], [] => true
  | x :: a', y :: b' => eqb x y && list_eqb eqb a' b'
  | _, _ => false
  end.

(* structural equality of trees, bit-exact on floats, order-sensitive on objects (the harness sorts members) *)
Fixpoint val_eqb (a b : val) : bool :=
  match a, b with
  | VNil, VNil => true
  | VBool x, VBool y => Bool.eqb x y
  | VInt x, VInt y => x =? y
  | VFloat x, VFloat y => (is_nan x && is_nan y) || (x =? y)   (* bit-exact, up to the payload of NaNs *)
  | VStr x, VStr y => bytes_eqb x y
  | VList x, VList y =>
      (fix go (x y : list val) : bool :=
         match x, y with [], [] => true | p :: x', q :: y' => val_eqb p q && go x' y' | _, _ => false end) x y
  | VObj x, VObj y =>
      (fix go (x y : list (bytes * val)) : bool :=
         match x, y with
         | [], [] => true
         | (k, p) :: x', (k', q) :: y' => bytes_eqb k k' && val_eqb p q && go x' y'
         | _, _ => false end) x y
  | _, _ => false
  end.

(* multiset equality of lists (for observables whose order is the runtime's map iteration order) *)
Fixpoint remove_first {A} (eqb : A -> A -> bool) (x : A) (l : list A) : option (list A) :=
  match l with
  | [] => None
  | y :: t => if eqb x y then Some t else match remove_first eqb x t with Some t' => Some (y :: t') | None => None end
  end.
Fixpoint perm_eqb {A} (eqb : A -> A -> bool) (l1 l2 : list A) : bool :=
  match l1 with
  | [] => match l2 with [] => true | _ => false end
  | x :: t => match remove_first eqb x l2 with Some l2' => perm_eqb eqb t l2' | None => false end
  end.

(* an observation is a tree; [true] = its top-level list is compared as a multiset *)
Definition obs_eqb (a b : bool * val) : bool :=
  match a, b with
  | (false, x), (false, y) => val_eqb x y
  | (true, VList x), (true, VList y) => perm_eqb val_eqb x y
  | _, _ => false
  end.
Definition obs_list_eqb (a b : list (bool * val)) : bool := list_eqb obs_eqb a b.
