(* RunCommon.v — shared pieces of the correspondence runners. *)
From Anytype Require Import Base FloatBits Value.
Local Open Scope Z_scope.

(* [mismatches chk cases] = ids (positions are supplied by the harness) of the cases the model disagrees with *)
Fixpoint mismatches {C} (chk : C -> bool) (cs : list (Z * C)) : list Z :=
  match cs with
  | [] => []
  | (id, c) :: t => if chk c then mismatches chk t else id :: mismatches chk t
  end.

Definition res_eqb {A} (eqb : A -> A -> bool) (a b : res A) : bool :=
  match a, b with Ok x, Ok y => eqb x y | Panic, Panic => true | _, _ => false end.

Definition option_eqb {A} (eqb : A -> A -> bool) (a b : option A) : bool :=
  match a, b with Some x, Some y => eqb x y | None, None => true | _, _ => false end.

Fixpoint list_eqb {A} (eqb : A -> A -> bool) (a b : list A) : bool :=
  match a, b with
  | [], [] => true
  | x :: a', y :: b' => eqb x y && list_eqb eqb a' b'
  | _, _ => false
  end.

(* structural equality of trees, bit-exact on floats, order-sensitive on objects (the harness sorts members) *)
Fixpoint val_eqb (a b : val) : bool :=
  match a, b with
  | VNil, VNil => true
  | VBool x, VBool y => Bool.eqb x y
  | VInt x, VInt y => x =? y
  | VFloat x, VFloat y => x =? y
  | VStr x, VStr y => bytes_eqb x y
  | VList x, VList y =>
      (fix go (x y : list val) : bool :=
         match x, y with [], [] => true | p :: x', q :: y' => val_eqb p q && go x' y' | _, _ => false end) x y
  | VObj x, VObj y =>
      (fix go (x y : list (bytes * val)) : bool :=
         match x, y with
         | [], [] => true
         | (k, p) :: x', (k', q) :: y' => bytes_eqb k k' && val_eqb p q && go x' y'
         | _, _ => false end) x y
  | _, _ => false
  end.
