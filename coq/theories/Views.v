(* Views.v — typed and untyped views of lists and objects (XSlice, ForEachX, MapX, FilterX, ReduceX, AllX, AllNumeric,
   ForEach, ForEachValue, Map, MapValues, Filter, Reduce) transcribed as the loops they are (a fold that logs callback
   arguments / appends to the result), and the C14 lemmas relating them to filter/map/fold over the elements of the kind. *)
From Anytype Require Import Base FloatBits Value.
From Coq Require Import Permutation.
Local Open Scope Z_scope.

Definition has_kind (k : kind) (v : val) : bool := kind_eqb (kind_of v) k.

(* ---- lists: every loop is "for _, item := range ego.val { if item is X { ... } }" ---- *)
Definition slice_k (k : kind) (l : list val) : list val :=
  fold_left (fun acc v => if has_kind k v then acc ++ [v] else acc) l [].
Definition foreach_k_log (k : kind) (l : list val) : list val := slice_k k l.           (* call log of ForEachX *)
Definition map_k (k : kind) (f : val -> val) (l : list val) : list val :=
  fold_left (fun acc v => if has_kind k v then acc ++ [f v] else acc) l [].
Definition filter_k (k : kind) (p : val -> bool) (l : list val) : list val :=
  fold_left (fun acc v => if has_kind k v && p v then acc ++ [v] else acc) l [].
Definition reduce_k {A} (k : kind) (g : A -> val -> A) (init : A) (l : list val) : A :=
  fold_left (fun acc v => if has_kind k v then g acc v else acc) l init.
Fixpoint all_k (k : kind) (l : list val) : bool :=
  match l with [] => true | v :: t => if has_kind k v then all_k k t else false end.
Fixpoint all_numeric (l : list val) : bool :=
  match l with
  | [] => true
  | v :: t => if has_kind KInt v then all_numeric t else if has_kind KFloat v then all_numeric t else false
  end.

(* untyped: index + value *)
Fixpoint foreach_log_from (i : nat) (l : list val) (log : list (nat * val)) : list (nat * val) :=
  match l with [] => log | v :: t => foreach_log_from (S i) t (log ++ [(i, v)]) end.
Definition foreach_log (l : list val) : list (nat * val) := foreach_log_from 0 l [].
Definition foreach_value_log (l : list val) : list val := fold_left (fun log v => log ++ [v]) l [].
Fixpoint map_idx_from (i : nat) (f : nat -> val -> val) (l : list val) (acc : list val) : list val :=
  match l with [] => acc | v :: t => map_idx_from (S i) f t (acc ++ [f i v]) end.
Definition map_idx (f : nat -> val -> val) (l : list val) : list val := map_idx_from 0 f l [].
Definition map_values (f : val -> val) (l : list val) : list val := fold_left (fun acc v => acc ++ [f v]) l [].
Definition filter_any (p : val -> bool) (l : list val) : list val :=
  fold_left (fun acc v => if p v then acc ++ [v] else acc) l [].
Definition reduce_any {A} (g : A -> val -> A) (init : A) (l : list val) : A := fold_left g l init.

(* ---------- lemmas (lists) ---------- *)
Lemma fold_app_filter_map {B} (c : val -> bool) (f : val -> B) l : forall acc,
  fold_left (fun acc v => if c v then acc ++ [f v] else acc) l acc = acc ++ map f (filter c l).
Proof. induction l as [|v l IH]; intros acc; simpl; [rewrite app_nil_r; reflexivity|].
  rewrite IH. destruct (c v); simpl; [rewrite <- app_assoc; reflexivity | reflexivity]. Qed.

Theorem slice_k_spec k l : slice_k k l = filter (has_kind k) l.
Proof. unfold slice_k. rewrite (fold_app_filter_map (has_kind k) (fun v => v)). simpl. apply map_id. Qed.
Theorem foreach_k_spec k l : foreach_k_log k l = filter (has_kind k) l.
Proof. apply slice_k_spec. Qed.
Theorem map_k_spec k f l : map_k k f l = map f (filter (has_kind k) l).
Proof. unfold map_k. rewrite (fold_app_filter_map (has_kind k) f). reflexivity. Qed.
Theorem filter_k_spec k p l : filter_k k p l = filter p (filter (has_kind k) l).
Proof. unfold filter_k. rewrite (fold_app_filter_map (fun v => has_kind k v && p v) (fun v => v)). simpl. rewrite map_id.
  induction l as [|v l IH]; simpl; [reflexivity|]. destruct (has_kind k v); simpl; [destruct (p v); rewrite IH; reflexivity | exact IH]. Qed.
Theorem reduce_k_spec {A} k (g : A -> val -> A) init l : reduce_k k g init l = fold_left g (filter (has_kind k) l) init.
Proof. unfold reduce_k. revert init. induction l as [|v l IH]; intros init; simpl; [reflexivity|].
  destruct (has_kind k v); simpl; apply IH. Qed.
Theorem all_k_spec k l : all_k k l = forallb (has_kind k) l.
Proof. induction l as [|v l IH]; simpl; [reflexivity|]. destruct (has_kind k v); simpl; [exact IH | reflexivity]. Qed.
Theorem all_numeric_spec l : all_numeric l = forallb (fun v => has_kind KInt v || has_kind KFloat v) l.
Proof. induction l as [|v l IH]; simpl; [reflexivity|]. destruct (has_kind KInt v); simpl; [exact IH|].
  destruct (has_kind KFloat v); simpl; [exact IH | reflexivity]. Qed.

Lemma foreach_log_from_spec l : forall i log, foreach_log_from i l log = log ++ combine (seq i (length l)) l.
Proof. induction l as [|v l IH]; intros i log; simpl; [rewrite app_nil_r; reflexivity|]. rewrite IH. rewrite <- app_assoc. reflexivity. Qed.
Theorem foreach_log_spec l : foreach_log l = combine (seq 0 (length l)) l.
Proof. unfold foreach_log. rewrite foreach_log_from_spec. reflexivity. Qed.
Theorem foreach_value_log_spec l : foreach_value_log l = l.
Proof. unfold foreach_value_log. rewrite (fold_app_filter_map (fun _ => true) (fun v => v)). simpl. rewrite map_id.
  induction l as [|v l IH]; simpl; congruence. Qed.
Lemma map_idx_from_spec f l : forall i acc, map_idx_from i f l acc = acc ++ map (fun p => f (fst p) (snd p)) (combine (seq i (length l)) l).
Proof. induction l as [|v l IH]; intros i acc; simpl; [rewrite app_nil_r; reflexivity|]. rewrite IH. rewrite <- app_assoc. reflexivity. Qed.
Theorem map_idx_spec f l : map_idx f l = map (fun p => f (fst p) (snd p)) (combine (seq 0 (length l)) l).
Proof. unfold map_idx. rewrite map_idx_from_spec. reflexivity. Qed.
Theorem map_values_spec f l : map_values f l = map f l.
Proof. unfold map_values. rewrite (fold_app_filter_map (fun _ => true) f). simpl. f_equal.
  induction l as [|v l IH]; simpl; congruence. Qed.
Theorem filter_any_spec p l : filter_any p l = filter p l.
Proof. unfold filter_any. rewrite (fold_app_filter_map p (fun v => v)). simpl. apply map_id. Qed.

(* "each exactly once, in index order": the selected elements are exactly the positions of kind k, increasing *)
Theorem slice_k_positions k l :
  slice_k k l = map snd (filter (fun p => has_kind k (snd p)) (combine (seq 0 (length l)) l)).
Proof. rewrite slice_k_spec. generalize 0%nat. induction l as [|v l IH]; intros i; simpl; [reflexivity|].
  destruct (has_kind k v); simpl; [f_equal|]; apply IH. Qed.

(* ---- objects: the runtime enumerates the fields in an arbitrary order; [kvs] is the enumeration it used ---- *)
Definition oforeach_log (kvs : list (bytes * val)) : list (bytes * val) := fold_left (fun log kv => log ++ [kv]) kvs [].
Definition oforeach_k_log (k : kind) (kvs : list (bytes * val)) : list val :=
  fold_left (fun log kv => if has_kind k (snd kv) then log ++ [snd kv] else log) kvs [].
(* Map variants: result.Set(key, f(...)) on a fresh object *)
Definition omap (f : bytes -> val -> val) (kvs : list (bytes * val)) : list (bytes * val) :=
  fold_left (fun acc kv => aset (fst kv) (f (fst kv) (snd kv)) acc) kvs [].
Definition omap_k (k : kind) (f : val -> val) (kvs : list (bytes * val)) : list (bytes * val) :=
  fold_left (fun acc kv => if has_kind k (snd kv) then aset (fst kv) (f (snd kv)) acc else acc) kvs [].

Theorem oforeach_log_spec kvs : oforeach_log kvs = kvs.
Proof. unfold oforeach_log. assert (G: forall acc, fold_left (fun log kv => log ++ [kv]) kvs acc = acc ++ kvs).
  { induction kvs as [|kv t IH]; intros acc; simpl; [rewrite app_nil_r; reflexivity | rewrite IH, <- app_assoc; reflexivity]. }
  apply G. Qed.
Theorem oforeach_k_log_spec k kvs : oforeach_k_log k kvs = map snd (filter (fun kv => has_kind k (snd kv)) kvs).
Proof. unfold oforeach_k_log.
  assert (G: forall acc, fold_left (fun log kv => if has_kind k (snd kv) then log ++ [snd kv] else log) kvs acc
                         = acc ++ map snd (filter (fun kv => has_kind k (snd kv)) kvs)).
  { induction kvs as [|kv t IH]; intros acc; simpl; [rewrite app_nil_r; reflexivity|]. rewrite IH.
    destruct (has_kind k (snd kv)); simpl; [rewrite <- app_assoc; reflexivity | reflexivity]. }
  apply G. Qed.
(* for every enumeration order the visited fields are the same multiset *)
Theorem oforeach_k_log_perm k kvs kvs' : Permutation kvs kvs' -> Permutation (oforeach_k_log k kvs) (oforeach_k_log k kvs').
Proof. intros P. rewrite !oforeach_k_log_spec. apply Permutation_map. induction P; simpl.
  - constructor.
  - destruct (has_kind k (snd x)); [constructor|]; exact IHP.
  - destruct (has_kind k (snd x)), (has_kind k (snd y)); try apply Permutation_refl. apply perm_swap.
  - eapply Permutation_trans; eassumption. Qed.

(* Map variants keep the key: lookup in the result = f applied to the source field (of kind k) *)
Lemma alookup_fold_aset (c : bytes * val -> bool) (g : bytes * val -> val) kvs : NoDup (akeys kvs) -> forall acc k,
  alookup k (fold_left (fun acc kv => if c kv then aset (fst kv) (g kv) acc else acc) kvs acc) =
  match alookup k kvs with
  | Some v => if c (k, v) then Some (g (k, v)) else alookup k acc
  | None => alookup k acc
  end.
Proof. induction kvs as [|[k0 v0] t IH]; intros ND acc k; simpl; [reflexivity|].
  inversion ND as [|? ? Hn ND']. subst. rewrite IH by exact ND'.
  destruct (bytes_eqb k k0) eqn:E.
  - apply bytes_eqb_eq in E. subst k0.
    assert (alookup k t = None) as -> by (apply alookup_None_notin; exact Hn).
    destruct (c (k, v0)); [simpl; apply alookup_aset_eq | reflexivity].
  - apply bytes_eqb_neq in E.
    assert (A: alookup k (if c (k0, v0) then aset k0 (g (k0, v0)) acc else acc) = alookup k acc)
      by (destruct (c (k0, v0)); [apply alookup_aset_neq; exact E | reflexivity]).
    rewrite A. reflexivity. Qed.

Theorem omap_k_spec k f kvs key : NoDup (akeys kvs) ->
  alookup key (omap_k k f kvs) = match alookup key kvs with Some v => if has_kind k v then Some (f v) else None | None => None end.
Proof. intros ND. unfold omap_k.
  rewrite (alookup_fold_aset (fun kv => has_kind k (snd kv)) (fun kv => f (snd kv)) kvs ND [] key). simpl.
  destruct (alookup key kvs); reflexivity. Qed.
Theorem omap_spec f kvs key : NoDup (akeys kvs) ->
  alookup key (omap f kvs) = match alookup key kvs with Some v => Some (f key v) | None => None end.
Proof. intros ND. unfold omap.
  pose proof (alookup_fold_aset (fun _ => true) (fun kv => f (fst kv) (snd kv)) kvs ND [] key) as H. simpl in H.
  rewrite H. destruct (alookup key kvs); reflexivity. Qed.
