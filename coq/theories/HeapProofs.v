(* HeapProofs.v — lemmas about the sequence-level list operations and the heap step function (C05, C06, C09). *)
From Anytype Require Import Base FloatBits Value GoInt Sorting Equality Heap.
From Coq Require Import Permutation.
Local Open Scope Z_scope.

(* ---------- panic domains ---------- *)
Lemma in_range_iff i n : in_range i n = true <-> 0 <= i < Z.of_nat n.
Proof. unfold in_range. lia. Qed.
Lemma in_range_false i n : in_range i n = false <-> (i < 0 \/ Z.of_nat n <= i).
Proof. unfold in_range. lia. Qed.

Lemma l_insert_panic_iff l i v : l_insert l i v = Panic <-> (i < 0 \/ Z.of_nat (length l) < i).
Proof. unfold l_insert. destruct ((i <? 0) || (Z.of_nat (length l) <? i)) eqn:E; split; intros H; try discriminate; try reflexivity; lia. Qed.
Lemma l_replace_panic_iff l i v : l_replace l i v = Panic <-> (i < 0 \/ Z.of_nat (length l) <= i).
Proof. unfold l_replace. destruct (in_range i (length l)) eqn:E.
  - apply in_range_iff in E. split; [discriminate | lia].
  - apply in_range_false in E. split; auto. Qed.
Lemma l_get_panic_iff l i : l_get l i = Panic <-> (i < 0 \/ Z.of_nat (length l) <= i).
Proof. unfold l_get. destruct (in_range i (length l)) eqn:E.
  - apply in_range_iff in E. destruct (nth_error l (Z.to_nat i)) eqn:N.
    + split; [discriminate | lia].
    + apply nth_error_None in N. lia.
  - apply in_range_false in E. split; auto. Qed.
Lemma l_delete1_panic_iff l i : snd (l_delete l [i]) = true <-> (i < 0 \/ Z.of_nat (length l) <= i).
Proof. unfold l_delete. cbn [isort insert rev app delete_desc]. destruct (in_range i (length l)) eqn:E; cbn [snd].
  - apply in_range_iff in E. split; [discriminate | lia].
  - apply in_range_false in E. split; auto. Qed.
Lemma l_pop_panic_iff l : snd (l_pop l) = true <-> l = [].
Proof. unfold l_pop. rewrite l_delete1_panic_iff. destruct l as [|x l]; cbn [length]; split; intros H; try reflexivity; try discriminate; lia. Qed.
Lemma l_sublist_panic_iff l s e :
  let n := Z.of_nat (length l) in
  l_sublist l s e = Panic <-> (n < e \/ e < - n \/ (if e <=? 0 then n + e else e) < s \/ s < 0).
Proof. cbv zeta. unfold l_sublist.
  destruct ((Z.of_nat (length l) <? e) || (e <? - Z.of_nat (length l))) eqn:E1; [split; [lia | reflexivity]|].
  destruct ((if e <=? 0 then Z.of_nat (length l) + e else e) <? s) eqn:E2; [split; [lia | reflexivity]|].
  destruct (s <? 0) eqn:E3; [split; [lia | reflexivity]|].
  split; [discriminate | lia]. Qed.

(* ---------- what they do ---------- *)
Lemma nth_error_skipn {A} (l : list A) : forall k j, nth_error (skipn k l) j = nth_error l (k + j).
Proof. induction l as [|x l IH]; intros [|k] j; simpl; try reflexivity. - destruct j; reflexivity. - apply IH. Qed.
Lemma nth_error_firstn_lt {A} (l : list A) : forall k j, (j < k)%nat -> nth_error (firstn k l) j = nth_error l j.
Proof. induction l as [|x l IH]; intros [|k] [|j] H; simpl; try lia; try reflexivity. apply IH. lia. Qed.
Lemma l_get_spec l i v : l_get l i = Ok v -> nth_error l (Z.to_nat i) = Some v.
Proof. unfold l_get. destruct (in_range i (length l)); [|discriminate]. destruct (nth_error l (Z.to_nat i)); [congruence | discriminate]. Qed.

Lemma l_insert_spec l i v l' : l_insert l i v = Ok l' ->
  length l' = S (length l) /\ nth_error l' (Z.to_nat i) = Some v /\
  (forall j, (j < Z.to_nat i)%nat -> nth_error l' j = nth_error l j) /\
  (forall j, (Z.to_nat i <= j)%nat -> nth_error l' (S j) = nth_error l j).
Proof. unfold l_insert. destruct ((i <? 0) || (Z.of_nat (length l) <? i)) eqn:E; [discriminate|]. intros H. injection H as <-.
  assert (Hi: (Z.to_nat i <= length l)%nat) by lia. set (k := Z.to_nat i) in *.
  assert (Lf: length (firstn k l) = k) by (apply firstn_length_le; exact Hi).
  split; [rewrite app_length; cbn [length]; rewrite Lf, skipn_length; lia|]. split.
  - rewrite nth_error_app2 by lia. rewrite Lf, Nat.sub_diag. reflexivity.
  - split.
    + intros j Hj. rewrite nth_error_app1 by lia. apply nth_error_firstn_lt. exact Hj.
    + intros j Hj. rewrite nth_error_app2 by lia. rewrite Lf. replace (S j - k)%nat with (S (j - k)) by lia. cbn [nth_error].
      rewrite nth_error_skipn. f_equal. lia. Qed.

Lemma nth_error_remove_nth {A} (l : list A) k j :
  nth_error (remove_nth k l) j = if (j <? k)%nat then nth_error l j else nth_error l (S j).
Proof. unfold remove_nth. destruct (Nat.ltb_spec j k) as [H|H].
  - destruct (Nat.lt_ge_cases k (length l)) as [Hk|Hk].
    + rewrite nth_error_app1 by (rewrite firstn_length_le; lia). apply nth_error_firstn_lt. exact H.
    + rewrite firstn_all2 by lia. rewrite skipn_all2 by lia. rewrite app_nil_r. reflexivity.
  - destruct (Nat.lt_ge_cases k (length l)) as [Hk|Hk].
    + rewrite nth_error_app2 by (rewrite firstn_length_le; lia). rewrite firstn_length_le by lia.
      rewrite nth_error_skipn. f_equal. lia.
    + rewrite firstn_all2 by lia. rewrite skipn_all2 by lia. rewrite app_nil_r.
      rewrite (proj2 (nth_error_None l j)) by lia. symmetry. apply nth_error_None. lia. Qed.

Lemma l_delete1_spec l i : snd (l_delete l [i]) = false ->
  let l' := fst (l_delete l [i]) in
  S (length l') = length l /\
  (forall j, (j < Z.to_nat i)%nat -> nth_error l' j = nth_error l j) /\
  (forall j, (Z.to_nat i <= j)%nat -> nth_error l' j = nth_error l (S j)).
Proof. unfold l_delete. cbn [isort insert rev app delete_desc]. destruct (in_range i (length l)) eqn:E; cbn [fst snd]; [|discriminate].
  intros _. apply in_range_iff in E. split.
  - unfold remove_nth. rewrite app_length, firstn_length_le, skipn_length by lia. lia.
  - split; intros j Hj; rewrite nth_error_remove_nth.
    + destruct (Nat.ltb_spec j (Z.to_nat i)); [reflexivity | lia].
    + destruct (Nat.ltb_spec j (Z.to_nat i)); [lia | reflexivity]. Qed.

Lemma l_sublist_spec l s e l' : l_sublist l s e = Ok l' ->
  let e' := if e <=? 0 then Z.of_nat (length l) + e else e in
  length l' = Z.to_nat (e' - s) /\ forall j, (j < length l')%nat -> nth_error l' j = nth_error l (Z.to_nat s + j).
Proof. cbv zeta. unfold l_sublist.
  destruct ((Z.of_nat (length l) <? e) || (e <? - Z.of_nat (length l))) eqn:E1; [discriminate|].
  destruct ((if e <=? 0 then Z.of_nat (length l) + e else e) <? s) eqn:E2; [discriminate|].
  destruct (s <? 0) eqn:E3; [discriminate|]. intros H. injection H as <-.
  set (e' := if e <=? 0 then Z.of_nat (length l) + e else e) in *.
  assert (He: e' <= Z.of_nat (length l)) by (unfold e'; destruct (e <=? 0) eqn:E4; lia).
  assert (L: length (firstn (Z.to_nat (e' - s)) (skipn (Z.to_nat s) l)) = Z.to_nat (e' - s)).
  { rewrite firstn_length_le; [reflexivity|]. rewrite skipn_length. lia. }
  split; [exact L|]. intros j Hj. rewrite L in Hj.
  rewrite <- nth_error_skipn.
  generalize (skipn (Z.to_nat s) l). intros m. revert j Hj. generalize (Z.to_nat (e' - s)). intros k. revert m.
  induction k as [|k IH]; intros m j Hj; [lia|]. destruct m as [|x m]; simpl; [destruct j; reflexivity|].
  destruct j; simpl; [reflexivity|]. apply IH. lia. Qed.

(* ---------- frame: a panicking single-index operation changes nothing ---------- *)
Definition single_index_op (o : op) : bool :=
  match o with
  | LInsert _ _ _ | LReplace _ _ _ | LPop _ | LGet _ _ | LGetTyped _ _ _ | LSubList _ _ _ | LSort _
  | OGet _ _ | OGetTyped _ _ _ | OPluck _ _ => true
  | LDelete _ [ _ ] => true
  | _ => false
  end.

Lemma set_list_same h id l : get_list h id = Some l -> set_list h id l = h.
Proof. unfold get_list, set_list. destruct (nth_error h id) as [[l0|]|] eqn:E; try discriminate. intros H. injection H as ->.
  revert id E. induction h as [|c h IH]; intros [|id] E; simpl in *; try discriminate.
  - injection E as ->. reflexivity.
  - f_equal. apply IH. exact E. Qed.

Lemma state_eta s : mkState (st_heap s) (st_env s) = s. Proof. destruct s; reflexivity. Qed.

Lemma reg_list_get s r id l : reg_list s r = Some (id, l) -> get_list (st_heap s) id = Some l.
Proof. unfold reg_list. destruct (nth_error (st_env s) r) as [[]|]; try discriminate.
  destruct (get_list (st_heap s) id0) eqn:E; [|discriminate]. intros H. injection H as <- <-. exact E. Qed.

Theorem panic_frame s o : single_index_op o = true -> snd (step_core s o) = Pan -> fst (step_core s o) = s.
Proof. destruct o; simpl; try discriminate;
    try (match goal with |- context [match ?idxs with [] => false | _ => _ end] => destruct idxs as [|? [|]]; try discriminate end);
    intros _;
    repeat match goal with
    | |- context [match reg_list ?s ?r with _ => _ end] => destruct (reg_list s r) as [[? ?]|] eqn:?; try discriminate
    | |- context [match reg_obj ?s ?r with _ => _ end] => destruct (reg_obj s r) as [[? ?]|] eqn:?; try discriminate
    | |- context [match eval_operand ?e ?v with _ => _ end] => destruct (eval_operand e v); try discriminate
    end; try reflexivity.
  all: try (match goal with |- context [l_insert ?l ?i ?h] => destruct (l_insert l i h) end; [discriminate | reflexivity]).
  all: try (match goal with |- context [l_replace ?l ?i ?h] => destruct (l_replace l i h) end; [discriminate | reflexivity]).
  all: try (match goal with |- context [l_sort ?l] => destruct (l_sort l) end; [discriminate | reflexivity]).
  all: try (match goal with |- context [l_sublist ?l ?a ?b] => destruct (l_sublist l a b) end; [simpl; discriminate | reflexivity]).
  all: try (match goal with |- context [fold_left ?f ?k ?a] => destruct (fold_left f k a) end; [simpl; discriminate | reflexivity]).
  all: try (unfold l_pop, l_delete; cbn [isort insert rev app delete_desc];
            match goal with |- context [in_range ?i ?n] => destruct (in_range i n) end; cbn [fst snd]; [discriminate|]; intros _;
            unfold with_heap; match goal with H : reg_list _ _ = Some _ |- _ => rewrite (set_list_same _ _ _ (reg_list_get _ _ _ _ H)) end; apply state_eta).
  all: try (destruct (typed _ _); reflexivity).
  all: try (destruct (untyped _); reflexivity).
Qed.

(* ---------- Clone only allocates: the old heap is a prefix of the new one ---------- *)
Lemma clone_val_extends : forall fuel h v h' v', clone_val fuel h v = Some (h', v') -> exists extra, h' = h ++ extra.
Proof. induction fuel as [|f IH]; intros h v h' v' H; [discriminate|]. cbn [clone_val] in H.
  destruct v as [| | | | |id|id]; try (injection H as <- <-; exists []; rewrite app_nil_r; reflexivity).
  - destruct (get_list h id) as [l|]; [|discriminate].
    match type of H with match ?g h l with _ => _ end = _ => set (go := g) in H end.
    assert (G: forall l h0 h1 l', go h0 l = Some (h1, l') -> exists extra, h1 = h0 ++ extra).
    { clear H. induction l0 as [|x t IHt]; intros h0 h1 l' E; simpl in E.
      - injection E as <- <-. exists []. rewrite app_nil_r. reflexivity.
      - destruct (clone_val f h0 x) as [[h2 x']|] eqn:Ex; [|discriminate].
        destruct (go h2 t) as [[h3 t']|] eqn:Et; [|discriminate]. injection E as <- <-.
        destruct (IH _ _ _ _ Ex) as [e1 ->]. destruct (IHt _ _ _ Et) as [e2 ->]. exists (e1 ++ e2). rewrite app_assoc. reflexivity. }
    destruct (go h l) as [[h1 l']|] eqn:E; [|discriminate]. unfold alloc in H. injection H as <- <-.
    destruct (G _ _ _ _ E) as [e ->]. exists (e ++ [CList l']). rewrite app_assoc. reflexivity.
  - destruct (get_obj h id) as [kvs|]; [|discriminate].
    match type of H with match ?g h kvs with _ => _ end = _ => set (go := g) in H end.
    assert (G: forall l h0 h1 l', go h0 l = Some (h1, l') -> exists extra, h1 = h0 ++ extra).
    { clear H. induction l as [|[k x] t IHt]; intros h0 h1 l' E; simpl in E.
      - injection E as <- <-. exists []. rewrite app_nil_r. reflexivity.
      - destruct (clone_val f h0 x) as [[h2 x']|] eqn:Ex; [|discriminate].
        destruct (go h2 t) as [[h3 t']|] eqn:Et; [|discriminate]. injection E as <- <-.
        destruct (IH _ _ _ _ Ex) as [e1 ->]. destruct (IHt _ _ _ Et) as [e2 ->]. exists (e1 ++ e2). rewrite app_assoc. reflexivity. }
    destruct (go h kvs) as [[h1 l']|] eqn:E; [|discriminate]. unfold alloc in H. injection H as <- <-.
    destruct (G _ _ _ _ E) as [e ->]. exists (e ++ [CObj l']). rewrite app_assoc. reflexivity. Qed.

(* the clone of a container is a container allocated by the call *)
Lemma clone_val_root_fresh fuel h v h' v' : clone_val fuel h v = Some (h', v') ->
  match v with
  | HL _ => exists id', v' = HL id' /\ (length h <= id')%nat /\ S id' = length h'
  | HO _ => exists id', v' = HO id' /\ (length h <= id')%nat /\ S id' = length h'
  | _ => v' = v /\ h' = h
  end.
Proof. destruct fuel as [|f]; [discriminate|]. cbn [clone_val]. destruct v as [| | | | |id|id]; intros H; try (injection H as <- <-; auto).
  - destruct (get_list h id) as [l|]; [|discriminate].
    match type of H with match ?g h l with _ => _ end = _ => set (go := g) in H end.
    assert (G: forall l h0 h1 l', go h0 l = Some (h1, l') -> exists extra, h1 = h0 ++ extra).
    { clear H. induction l0 as [|x t IHt]; intros h0 h1 l' E; simpl in E.
      - injection E as <- <-. exists []. rewrite app_nil_r. reflexivity.
      - destruct (clone_val f h0 x) as [[h2 x']|] eqn:Ex; [|discriminate].
        destruct (go h2 t) as [[h3 t']|] eqn:Et; [|discriminate]. injection E as <- <-.
        destruct (clone_val_extends _ _ _ _ _ Ex) as [e1 ->]. destruct (IHt _ _ _ Et) as [e2 ->]. exists (e1 ++ e2). rewrite app_assoc. reflexivity. }
    destruct (go h l) as [[h1 l']|] eqn:E; [|discriminate]. destruct (G _ _ _ _ E) as [e ->].
    unfold alloc in H. injection H as <- <-. exists (length (h ++ e)). split; [reflexivity|].
    rewrite !app_length. cbn [length]. lia.
  - destruct (get_obj h id) as [kvs|]; [|discriminate].
    match type of H with match ?g h kvs with _ => _ end = _ => set (go := g) in H end.
    assert (G: forall l h0 h1 l', go h0 l = Some (h1, l') -> exists extra, h1 = h0 ++ extra).
    { clear H. induction l as [|[k x] t IHt]; intros h0 h1 l' E; simpl in E.
      - injection E as <- <-. exists []. rewrite app_nil_r. reflexivity.
      - destruct (clone_val f h0 x) as [[h2 x']|] eqn:Ex; [|discriminate].
        destruct (go h2 t) as [[h3 t']|] eqn:Et; [|discriminate]. injection E as <- <-.
        destruct (clone_val_extends _ _ _ _ _ Ex) as [e1 ->]. destruct (IHt _ _ _ Et) as [e2 ->]. exists (e1 ++ e2). rewrite app_assoc. reflexivity. }
    destruct (go h kvs) as [[h1 l']|] eqn:E; [|discriminate]. destruct (G _ _ _ _ E) as [e ->].
    unfold alloc in H. injection H as <- <-. exists (length (h ++ e)). split; [reflexivity|].
    rewrite !app_length. cbn [length]. lia. Qed.

Arguments clone_val : simpl never.
Arguments reify : simpl never.
Arguments get_tf : simpl never.
Arguments typeof_tf : simpl never.

(* ---------- C09: deriving / observing operations never write a pre-existing cell; what they create is new ---------- *)
Definition deriving_op (o : op) : bool :=
  match o with
  | LSubList _ _ _ | LConcat _ _ | LCount _ | LEmpty _ | LGet _ _ | LGetTyped _ _ _ | LTypeOf _ _ | LSlice _ | LContains _ _ | LIndexOf _ _
  | OMerge _ _ | OPluck _ _ | OGet _ _ | OGetTyped _ _ _ | OTypeOf _ _ | OKeyExists _ _ | OCount _ | OEmpty _ | OKeys _ _ | OValues _ _
  | ODict _ | OContains _ _ | OKeyOf _ _ _ | Clone _ | Equals _ _ | GetTF _ _ | TypeOfTF _ _ => true
  | _ => false
  end.

Lemma upd_app_r {A} (l e : list A) i x : (length l <= i)%nat -> upd (l ++ e) i x = l ++ upd e (i - length l) x.
Proof. revert i. induction l as [|h t IH]; intros i H; simpl in *; [rewrite Nat.sub_0_r; reflexivity|].
  destruct i; [lia|]. simpl. f_equal. apply IH. lia. Qed.

Theorem deriving_frame s o : deriving_op o = true ->
  exists extra, st_heap (fst (step_core s o)) = st_heap s ++ extra /\ st_env (fst (step_core s o)) = st_env s.
Proof. intros D. destruct o; simpl in D; try discriminate; simpl;
    repeat match goal with
    | |- context [match reg_list ?s ?r with _ => _ end] => destruct (reg_list s r) as [[? ?]|] eqn:?
    | |- context [match reg_obj ?s ?r with _ => _ end] => destruct (reg_obj s r) as [[? ?]|] eqn:?
    | |- context [match eval_operand ?e ?v with _ => _ end] => destruct (eval_operand e v)
    | |- context [match nth_error (st_env ?s) ?r with _ => _ end] => destruct (nth_error (st_env s) r) eqn:?
    | |- context [match l_sublist ?l ?a ?b with _ => _ end] => destruct (l_sublist l a b)
    | |- context [match in_order ?l ?a with _ => _ end] => destruct (in_order l a)
    | |- context [match fold_left ?f ?k (Some []) with _ => _ end] => destruct (fold_left f k (Some []))
    | |- context [match reify ?f ?h ?v with _ => _ end] => destruct (reify f h v)
    | |- context [match get_obj ?h ?i with _ => _ end] => destruct (get_obj h i) eqn:?
    | |- context [match ?a with Some _ => _ | None => _ end] => destruct a eqn:?
    | |- context [match ?v with HO _ => _ | _ => _ end] => destruct v
    | |- context [if ?b then _ else _] => destruct b
    end;
    try (exists []; rewrite app_nil_r; split; reflexivity);
    try (eexists; split; reflexivity).
  (* OMerge: the clone is new, and Set writes only into it *)
  - match goal with H : clone_val _ _ _ = Some ?p |- _ => destruct p as [h1 v1]; rename H into CL end.
    pose proof (clone_val_root_fresh _ _ _ _ _ CL) as RF. destruct (clone_val_extends _ _ _ _ _ CL) as [e ->].
    destruct v1 as [| | | | |id'|id']; try (exists []; rewrite app_nil_r; split; reflexivity).
    destruct (get_obj (st_heap s ++ e) id') as [kvs1|] eqn:G1; [|exists []; rewrite app_nil_r; split; reflexivity].
    match type of RF with
    | match ?x with _ => _ end => destruct x; try (destruct RF as [RF _]; discriminate); destruct RF as [i' [E' [L' _]]]; try discriminate
    end.
    injection E' as <-. cbn [fst st_heap st_env with_heap]. unfold set_obj. rewrite upd_app_r by exact L'. eexists. split; reflexivity.
  (* Clone *)
  - match goal with H : clone_val _ _ _ = Some ?p |- _ => destruct p as [h1 v1]; rename H into CL end.
    destruct (clone_val_extends _ _ _ _ _ CL) as [e ->]. cbn [fst st_heap st_env with_heap]. eexists. split; reflexivity.
Qed.

(* --- the list observers IndexOf / Contains / Count / Empty --- *)
Local Open Scope Z_scope.
(* IndexOf: -1 exactly when no element is Go-equal to the value; otherwise the position of the FIRST such element *)
Lemma l_index_of_none l v : forall i, (forall x, In x l -> hval_go_eq x v = false) -> l_index_of l v i = -1.
Proof. induction l as [|a t IH]; intros i H; cbn [l_index_of]; [reflexivity|].
  rewrite (H a (or_introl eq_refl)). apply IH. intros x Hx. apply H. right. exact Hx. Qed.
Lemma l_index_of_first l v : forall i, (exists x, In x l /\ hval_go_eq x v = true) ->
  exists n x, l_index_of l v i = i + Z.of_nat n /\ nth_error l n = Some x /\ hval_go_eq x v = true /\
              forall m y, (m < n)%nat -> nth_error l m = Some y -> hval_go_eq y v = false.
Proof. induction l as [|a t IH]; intros i [x [Hin Hxv]]; [destruct Hin|]. cbn [l_index_of].
  destruct (hval_go_eq a v) eqn:Ea.
  - exists 0%nat, a. split; [cbn; lia|]. split; [reflexivity|]. split; [exact Ea|]. intros m y Hm. lia.
  - destruct Hin as [<-|Hx]; [congruence|]. destruct (IH (i + 1)) as [n [x' [Hn [Hnth [Hx' Hfirst]]]]]; [exists x; auto|].
    exists (S n), x'. split; [lia|]. split; [exact Hnth|]. split; [exact Hx'|].
    intros m y Hm Hy. destruct m as [|m]; [cbn in Hy; injection Hy as <-; exact Ea|]. apply (Hfirst m y); [lia | exact Hy]. Qed.
Theorem l_index_of_minus1_iff l v i : 0 <= i -> (l_index_of l v i = -1 <-> l_contains l v = false).
Proof. intros Hi. unfold l_contains. destruct (existsb (fun x => hval_go_eq x v) l) eqn:Ex.
  - apply existsb_exists in Ex. destruct (l_index_of_first l v i Ex) as [n [x [Hn _]]]. split; [lia | discriminate].
  - split; [reflexivity|]. intros _. apply l_index_of_none. intros x Hx. destruct (hval_go_eq x v) eqn:E; [|reflexivity].
    assert (existsb (fun y => hval_go_eq y v) l = true) by (apply existsb_exists; exists x; auto). congruence. Qed.
Lemma l_contains_iff l v : l_contains l v = true <-> exists x, In x l /\ hval_go_eq x v = true.
Proof. unfold l_contains. apply existsb_exists. Qed.
Lemma index_contains_step s r v id l x : reg_list s r = Some (id, l) -> eval_operand (st_env s) v = Some x ->
  step_core s (LIndexOf r v) = (s, Ret (OZ (l_index_of l x 0))) /\ step_core s (LContains r v) = (s, Ret (OB (l_contains l x))) /\
  step_core s (LCount r) = (s, Ret (OZ (Z.of_nat (length l)))) /\ step_core s (LEmpty r) = (s, Ret (OB (Nat.eqb (length l) 0))).
Proof. intros Hr Hv. cbn [step_core]. rewrite Hr, Hv. repeat split. destruct l; reflexivity. Qed.

(* Clear (list and object): no panic; the receiver's cell becomes empty, so EVERY register aliasing it reads empty afterwards;
   every other cell and the environment are untouched *)
Lemma clear_step s r id l : reg_list s r = Some (id, l) ->
  let s' := fst (step_core s (LClear r)) in
  snd (step_core s (LClear r)) = Ret ONone /\ st_env s' = st_env s /\
  (forall r', nth_error (st_env s) r' = Some (HL id) -> reg_list s' r' = Some (id, [])) /\
  (forall j, j <> id -> nth_error (st_heap s') j = nth_error (st_heap s) j) /\ length (st_heap s') = length (st_heap s).
Proof.
  intros Hr. cbn [step_core]. rewrite Hr. cbn [fst snd with_heap st_env st_heap]. split; [reflexivity|]. split; [reflexivity|].
  assert (Hid : (id < length (st_heap s))%nat).
  { unfold reg_list in Hr. destruct (nth_error (st_env s) r) as [[| | | | |i|]|]; try discriminate.
    unfold get_list in Hr. destruct (nth_error (st_heap s) i) as [c|] eqn:E; [|discriminate].
    destruct c; try discriminate. injection Hr as <- _. apply nth_error_Some. congruence. }
  split; [|split].
  - intros r' Hr'. unfold reg_list, with_heap. cbn [st_env st_heap]. rewrite Hr'. unfold get_list, set_list.
    rewrite nth_error_upd_eq by exact Hid. reflexivity.
  - intros j Hj. unfold set_list. apply nth_error_upd_neq. congruence.
  - unfold set_list. apply upd_length.
Qed.
