(* SourceTablesProofs.v — soundness of the boolean checkers of SourceTables.v. *)
From Anytype Require Import Base FloatBits Value GoInt Utf8 GoUnquote Json SourceTables.
From Anytype Require Import JsonDoc FormatModel.
From Coq Require Import ZifyBool Lia.
Local Open Scope Z_scope.

Arguments encode_rune : simpl never.

(* ---------- T1 ---------- *)


(* ---------- T2 ---------- *)
Lemma quote_rune_big : forall r, 128 <= r -> quote_rune r = encode_rune r.
Proof.
  intros r Hr. unfold quote_rune.
  replace (r =? 34) with false by lia.
  replace (r =? 92) with false by lia.
  replace (r =? 8) with false by lia.
  replace (r =? 12) with false by lia.
  replace (r =? 10) with false by lia.
  replace (r =? 13) with false by lia.
  replace (r =? 9) with false by lia.
  replace (r <? 32) with false by lia.
  reflexivity.
Qed.

Lemma qsmall_big : forall cs r, qsmall cs = true -> 128 <= r -> qinterp cs r = Some (encode_rune r).
Proof.
  intros cs. induction cs as [|c cs IH]; intros r Hs Hr.
  - simpl in Hs. discriminate.
  - destruct c as [c w|b w|w|src].
    + cbn [qsmall] in Hs.
      apply andb_true_iff in Hs as [Hc Ht]. apply andb_true_iff in Hc as [Hc0 Hc1].
      cbn [qinterp]. replace (r =? c) with false by lia. apply IH; assumption.
    + cbn [qsmall] in Hs.
      apply andb_true_iff in Hs as [Hb Ht].
      cbn [qinterp]. replace (r <? b) with false by lia. apply IH; assumption.
    + destruct w as [lit|p|]; cbn [qsmall] in Hs; try discriminate.
      reflexivity.
    + cbn [qsmall] in Hs. discriminate.
Qed.

Theorem qtable_sound : forall cs, qtable_ok cs = true -> forall r, 0 <= r -> qinterp cs r = Some (quote_rune r).
Proof.
  intros cs Hok r Hr. unfold qtable_ok in Hok.
  apply andb_true_iff in Hok as [Hall Hsmall].
  destruct (Z_lt_le_dec r 128) as [Hlt|Hge].
  - rewrite forallb_forall in Hall.
    assert (Hin : In (Z.to_nat r) (seq 0 128)).
    { apply in_seq. lia. }
    specialize (Hall _ Hin). rewrite Z2Nat.id in Hall by assumption.
    destruct (qinterp cs r) as [b|]; [|discriminate].
    apply bytes_eqb_eq in Hall. rewrite Hall. reflexivity.
  - rewrite quote_rune_big by assumption. apply qsmall_big; assumption.
Qed.

(* ---------- T3 ---------- *)
Lemma opt_bool_eqb_true : forall a b, opt_bool_eqb a b = true -> a = Some b.
Proof.
  intros [x|] b H; simpl in H; [|discriminate].
  apply Bool.eqb_prop in H. rewrite H. reflexivity.
Qed.

Lemma geval_low : forall g lo hi n, gconsts_within g lo hi = true -> n < lo -> geval g n = geval g (lo - 1).
Proof.
  intros g lo hi n. induction g as [c|c|a IHa b IHb|a IHa b IHb|src|]; intros Hw Hn; cbn [gconsts_within] in Hw.
  - cbn [geval]. f_equal. lia.
  - cbn [geval]. f_equal. lia.
  - apply andb_true_iff in Hw as [Ha Hb]. cbn [geval]. rewrite IHa, IHb by assumption. reflexivity.
  - apply andb_true_iff in Hw as [Ha Hb]. cbn [geval]. rewrite IHa, IHb by assumption. reflexivity.
  - discriminate.
  - discriminate.
Qed.

Lemma geval_high : forall g lo hi n, gconsts_within g lo hi = true -> hi < n -> geval g n = geval g (hi + 1).
Proof.
  intros g lo hi n. induction g as [c|c|a IHa b IHb|a IHa b IHb|src|]; intros Hw Hn; cbn [gconsts_within] in Hw.
  - cbn [geval]. f_equal. lia.
  - cbn [geval]. f_equal. lia.
  - apply andb_true_iff in Hw as [Ha Hb]. cbn [geval]. rewrite IHa, IHb by assumption. reflexivity.
  - apply andb_true_iff in Hw as [Ha Hb]. cbn [geval]. rewrite IHa, IHb by assumption. reflexivity.
  - discriminate.
  - discriminate.
Qed.

Lemma guard_mid : forall g, guard_ok g = true -> forall n, -20 <= n <= 30 -> geval g n = Some (guard_spec n).
Proof.
  intros g Hok n Hn. unfold guard_ok in Hok. apply andb_true_iff in Hok as [_ Hall].
  rewrite forallb_forall in Hall.
  assert (Hin : In (Z.to_nat (n + 20)) (seq 0 51)).
  { apply in_seq. lia. }
  specialize (Hall _ Hin).
  replace (Z.of_nat (Z.to_nat (n + 20)) - 20) with n in Hall by lia.
  apply opt_bool_eqb_true. exact Hall.
Qed.

Theorem guard_sound : forall g, guard_ok g = true -> forall n, geval g n = Some (guard_spec n).
Proof.
  intros g Hok n.
  assert (Hw : gconsts_within g (-19) 29 = true).
  { unfold guard_ok in Hok. apply andb_true_iff in Hok as [Hw _]. exact Hw. }
  destruct (Z_lt_le_dec n (-20)) as [Hlo|Hlo].
  - rewrite (geval_low g (-19) 29 n Hw) by lia.
    change (-19 - 1) with (-20).
    rewrite (guard_mid g Hok (-20)) by lia.
    f_equal. unfold guard_spec. lia.
  - destruct (Z_lt_le_dec 30 n) as [Hhi|Hhi].
    + rewrite (geval_high g (-19) 29 n Hw) by lia.
      change (29 + 1) with 30.
      rewrite (guard_mid g Hok 30) by lia.
      f_equal. unfold guard_spec. lia.
    + apply guard_mid; [assumption|lia].
Qed.

(* ---------- T4 ---------- *)
Corollary guard_sound_format : forall g fmt_e fmt_f v n, guard_ok g = true ->
  (geval g n = Some true <-> FormatModel.format_string fmt_e fmt_f v n = Panic).
Proof.
  intros g fmt_e fmt_f v n Hok.
  rewrite (guard_sound g Hok n). rewrite format_string_range. unfold guard_spec.
  split.
  - intros H. injection H as H. lia.
  - intros H. f_equal. lia.
Qed.

(* ---------- T5 ---------- *)
Example qtable_example : qtable_ok [QEq 34 (WLit [x5c; x22]); QEq 92 (WLit [x5c; x5c]); QEq 8 (WLit [x5c; x62]); QEq 12 (WLit [x5c; x66]); QEq 10 (WLit [x5c; x6e]); QEq 13 (WLit [x5c; x72]); QEq 9 (WLit [x5c; x74]); QLt 32 (WHex [x5c; x75; x30; x30]); QDefault WRune] = true.
Proof. vm_compute. reflexivity. Qed.

(* missing the QEq 8 line *)
Example qtable_neg_missing : qtable_ok [QEq 34 (WLit [x5c; x22]); QEq 92 (WLit [x5c; x5c]); QEq 12 (WLit [x5c; x66]); QEq 10 (WLit [x5c; x6e]); QEq 13 (WLit [x5c; x72]); QEq 9 (WLit [x5c; x74]); QLt 32 (WHex [x5c; x75; x30; x30]); QDefault WRune] = false.
Proof. vm_compute. reflexivity. Qed.

(* QLt 33 instead of QLt 32 *)
Example qtable_neg_bound33 : qtable_ok [QEq 34 (WLit [x5c; x22]); QEq 92 (WLit [x5c; x5c]); QEq 8 (WLit [x5c; x62]); QEq 12 (WLit [x5c; x66]); QEq 10 (WLit [x5c; x6e]); QEq 13 (WLit [x5c; x72]); QEq 9 (WLit [x5c; x74]); QLt 33 (WHex [x5c; x75; x30; x30]); QDefault WRune] = false.
Proof. vm_compute. reflexivity. Qed.

(* QLt 128: quote_rune 0x7f is the rune itself, not \u007f *)
Example qtable_neg_bound128 : qtable_ok [QEq 34 (WLit [x5c; x22]); QEq 92 (WLit [x5c; x5c]); QEq 8 (WLit [x5c; x62]); QEq 12 (WLit [x5c; x66]); QEq 10 (WLit [x5c; x6e]); QEq 13 (WLit [x5c; x72]); QEq 9 (WLit [x5c; x74]); QLt 128 (WHex [x5c; x75; x30; x30]); QDefault WRune] = false.
Proof. vm_compute. reflexivity. Qed.

(* default writes nothing *)
Example qtable_neg_default : qtable_ok [QEq 34 (WLit [x5c; x22]); QEq 92 (WLit [x5c; x5c]); QEq 8 (WLit [x5c; x62]); QEq 12 (WLit [x5c; x66]); QEq 10 (WLit [x5c; x6e]); QEq 13 (WLit [x5c; x72]); QEq 9 (WLit [x5c; x74]); QLt 32 (WHex [x5c; x75; x30; x30]); QDefault (WLit [])] = false.
Proof. vm_compute. reflexivity. Qed.

Example guard_example : guard_ok (GOr (GLt 0) (GGt 10)) = true.
Proof. vm_compute. reflexivity. Qed.
Example guard_neg_and : guard_ok (GAnd (GLt 0) (GGt 10)) = false.
Proof. vm_compute. reflexivity. Qed.
Example guard_neg_gt11 : guard_ok (GOr (GLt 0) (GGt 11)) = false.
Proof. vm_compute. reflexivity. Qed.
Example guard_neg_lt1 : guard_ok (GOr (GLt 1) (GGt 10)) = false.
Proof. vm_compute. reflexivity. Qed.

Print Assumptions qtable_sound.
Print Assumptions guard_sound.
