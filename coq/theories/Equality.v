(* Equality.v — model of Equals / isEqual (anytype.go, list_impl.go, object_impl.go) and the C07 lemmas. *)
From Anytype Require Import Base FloatBits Value.
From Coq Require Import Permutation.
Local Open Scope Z_scope.

(* transcription of the three isEqual methods:
   list: type test, count test, then element-wise;
   object: type test, count test, then for every key of the LEFT the value found in the RIGHT (a missing key yields "no field" = false);
   scalars: type test then Go == (floats: feq). *)
Fixpoint veq (a b : val) : bool :=
  match a, b with
  | VNil, VNil => true
  | VBool x, VBool y => Bool.eqb x y
  | VInt x, VInt y => x =? y
  | VFloat x, VFloat y => feq x y
  | VStr x, VStr y => bytes_eqb x y
  | VList xs, VList ys =>
      (length xs =? length ys)%nat &&
      (fix go (xs ys : list val) : bool :=
         match xs, ys with
         | x :: xs', y :: ys' => veq x y && go xs' ys'
         | _, _ => true
         end) xs ys
  | VObj xs, VObj ys =>
      (length xs =? length ys)%nat &&
      (fix go (xs : list (bytes * val)) : bool :=
         match xs with
         | [] => true
         | (k, v) :: t => match alookup k ys with Some w => veq v w | None => false end && go t
         end) xs
  | _, _ => false
  end.

(* typed structural equality, defined independently as a proposition *)
Fixpoint seqP (a b : val) : Prop :=
  match a, b with
  | VNil, VNil => True
  | VBool x, VBool y => x = y
  | VInt x, VInt y => x = y
  | VFloat x, VFloat y => feq x y = true
  | VStr x, VStr y => x = y
  | VList xs, VList ys =>
      (fix go (xs ys : list val) : Prop :=
         match xs, ys with
         | [], [] => True
         | x :: xs', y :: ys' => seqP x y /\ go xs' ys'
         | _, _ => False
         end) xs ys
  | VObj xs, VObj ys =>
      (* same key set, and related values per key *)
      (forall k, In k (akeys ys) -> In k (akeys xs)) /\
      (fix go (xs : list (bytes * val)) : Prop :=
         match xs with
         | [] => True
         | (k, v) :: t => (exists w, alookup k ys = Some w /\ seqP v w) /\ go t
         end) xs
  | _, _ => False
  end.

(* readable forms of the two nested fixpoints *)
Fixpoint list_rel (R : val -> val -> Prop) (xs ys : list val) : Prop :=
  match xs, ys with
  | [], [] => True
  | x :: xs', y :: ys' => R x y /\ list_rel R xs' ys'
  | _, _ => False
  end.
Fixpoint obj_rel (R : val -> val -> Prop) (ys xs : list (bytes * val)) : Prop :=
  match xs with
  | [] => True
  | (k, v) :: t => (exists w, alookup k ys = Some w /\ R v w) /\ obj_rel R ys t
  end.
Lemma seqP_list xs ys : seqP (VList xs) (VList ys) = list_rel seqP xs ys.
Proof. revert ys. induction xs as [|x xs IH]; intros [|y ys]; try reflexivity. simpl in *. rewrite <- IH. reflexivity. Qed.
Lemma seqP_obj xs ys : seqP (VObj xs) (VObj ys) = ((forall k, In k (akeys ys) -> In k (akeys xs)) /\ obj_rel seqP ys xs).
Proof. simpl. f_equal. induction xs as [|[k v] t IH]; simpl; [reflexivity|]. rewrite IH. reflexivity. Qed.

Fixpoint list_relb (R : val -> val -> bool) (xs ys : list val) : bool :=
  match xs, ys with
  | x :: xs', y :: ys' => R x y && list_relb R xs' ys'
  | _, _ => true
  end.
Fixpoint obj_relb (R : val -> val -> bool) (ys xs : list (bytes * val)) : bool :=
  match xs with
  | [] => true
  | (k, v) :: t => match alookup k ys with Some w => R v w | None => false end && obj_relb R ys t
  end.
Lemma veq_list xs ys : veq (VList xs) (VList ys) = (length xs =? length ys)%nat && list_relb veq xs ys.
Proof. simpl. f_equal. revert ys. induction xs as [|x xs IH]; intros [|y ys]; try reflexivity. simpl. rewrite <- IH. reflexivity. Qed.
Lemma veq_obj xs ys : veq (VObj xs) (VObj ys) = (length xs =? length ys)%nat && obj_relb veq ys xs.
Proof. simpl. f_equal. induction xs as [|[k v] t IH]; simpl; [reflexivity|]. rewrite IH. reflexivity. Qed.

Lemma obj_rel_forall R ys xs : obj_rel R ys xs <-> (forall k v, In (k, v) xs -> exists w, alookup k ys = Some w /\ R v w).
Proof. induction xs as [|[k v] t IH]; simpl.
  - split; [intros _ k v [] | auto].
  - rewrite IH. split.
    + intros [H1 H2] k' v' [E|Hin]; [injection E as <- <-; exact H1 | apply H2; exact Hin].
    + intros H. split; [apply H; left; reflexivity | intros k' v' Hin; apply H; right; exact Hin]. Qed.

Lemma keys_incl_of_obj_rel R ys xs : obj_rel R ys xs -> incl (akeys xs) (akeys ys).
Proof. intros H k Hk. unfold akeys in Hk. apply in_map_iff in Hk as [[k' v] [E Hin]]. simpl in E. subst k'.
  apply obj_rel_forall with (k := k) (v := v) in H; [|exact Hin]. destruct H as [w [Hw _]].
  apply alookup_In in Hw. apply (in_map fst) in Hw. exact Hw. Qed.

(* well-formedness as a Prop-friendly fact *)
Lemma wfb_obj kvs : wfb (VObj kvs) = true -> NoDup (akeys kvs) /\ Forall (fun kv => wfb (snd kv) = true) kvs.
Proof. simpl. intros H. apply andb_true_iff in H as [H1 H2]. split; [apply nodupb_NoDup; exact H1 | rewrite forallb_forall in H2; apply Forall_forall; exact H2]. Qed.
Lemma wfb_list l : wfb (VList l) = true -> Forall (fun v => wfb v = true) l.
Proof. simpl. intros H. rewrite forallb_forall in H. apply Forall_forall. exact H. Qed.

(* ---------- veq decides seqP ---------- *)
Theorem veq_spec : forall a b, wfb a = true -> wfb b = true -> (veq a b = true <-> seqP a b).
Proof. induction a as [|b0|z0|f0|s0|xs IH|xs IH] using val_ind'; intros b Wa Wb.
  - destruct b; simpl; split; auto; discriminate.
  - destruct b; simpl; split; try discriminate; try contradiction. apply Bool.eqb_prop. intros ->. apply Bool.eqb_reflx.
  - destruct b; simpl; split; try discriminate; try contradiction. apply Z.eqb_eq. intros ->. apply Z.eqb_refl.
  - destruct b; simpl; split; try discriminate; try contradiction; auto.
  - destruct b; simpl; split; try discriminate; try contradiction. apply bytes_eqb_eq. intros ->. apply bytes_eqb_refl.
  - destruct b as [| | | | |ys|]; try (simpl; split; [discriminate|contradiction]).
    rewrite veq_list, seqP_list. apply wfb_list in Wa. apply wfb_list in Wb.
    revert ys Wb. induction xs as [|x xs IHxs]; intros [|y ys] Wb; simpl; try (split; [discriminate | contradiction]).
    + split; auto.
    + inversion IH as [|? ? Hx Hxs]. inversion Wa as [|? ? Wx Wxs]. inversion Wb as [|? ? Wy Wys]. subst.
      specialize (IHxs Hxs Wxs ys Wys). specialize (Hx y Wx Wy).
      destruct (Nat.eqb (length xs) (length ys)) eqn:EL; simpl in *.
      * rewrite andb_true_iff, Hx, IHxs. reflexivity.
      * split; [discriminate|]. intros [_ H]. apply IHxs in H. discriminate.
  - destruct b as [| | | | | |ys]; try (simpl; split; [discriminate|contradiction]).
    rewrite veq_obj, seqP_obj. apply wfb_obj in Wa as [NDx Wx]. apply wfb_obj in Wb as [NDy Wy].
    assert (Hrel: obj_relb veq ys xs = true <-> obj_rel seqP ys xs).
    { clear NDx. induction xs as [|[k v] t IHt]; simpl; [split; auto|].
      inversion IH as [|? ? Hv Ht]. inversion Wx as [|? ? Wv Wt]. subst. simpl in Hv, Wv.
      specialize (IHt Ht Wt). rewrite andb_true_iff, IHt.
      destruct (alookup k ys) as [w|] eqn:E.
      - assert (Ww: wfb w = true).
        { apply alookup_In in E. rewrite Forall_forall in Wy. apply (Wy (k, w)). exact E. }
        rewrite (Hv w Wv Ww). split.
        + intros [H1 H2]. split; [exists w; auto | exact H2].
        + intros [[w' [E' H1]] H2]. injection E' as <-. auto.
      - split; [intros [H _]; discriminate | intros [[w' [E' _]] _]; discriminate]. }
    rewrite andb_true_iff, Hrel. split.
    + intros [HL HR]. split; [|exact HR].
      apply Nat.eqb_eq in HL. apply keys_incl_of_obj_rel in HR.
      apply NoDup_length_incl; [exact NDx | unfold akeys; rewrite !map_length; lia | exact HR].
    + intros [HI HR]. split; [|exact HR]. apply Nat.eqb_eq.
      apply keys_incl_of_obj_rel in HR.
      pose proof (NoDup_incl_length NDx HR) as L1. pose proof (NoDup_incl_length NDy HI) as L2.
      unfold akeys in L1, L2. rewrite !map_length in L1, L2. lia. Qed.

(* ---------- seqP is an equivalence on NaN-free well-formed trees ---------- *)
Fixpoint nan_free (v : val) : bool :=
  match v with
  | VFloat b => negb (is_nan b)
  | VList l => forallb nan_free l
  | VObj kvs => forallb (fun kv => nan_free (snd kv)) kvs
  | _ => true
  end.

Lemma seqP_refl : forall a, wfb a = true -> nan_free a = true -> seqP a a.
Proof. induction a as [|b0|z0|f0|s0|xs IH|xs IH] using val_ind'; intros Wa Na; simpl; auto.
  - apply feq_refl. simpl in Na. destruct (is_nan f0); [discriminate|reflexivity].
  - change (seqP (VList xs) (VList xs)). rewrite seqP_list. apply wfb_list in Wa.
    simpl in Na. rewrite forallb_forall in Na.
    induction xs as [|x xs IHxs]; simpl; auto.
    inversion IH as [|? ? Hx Hxs]; inversion Wa as [|? ? Wx0 Wxs]; subst. split; [apply Hx; [assumption | apply Na; left; reflexivity] |].
    apply IHxs; auto. intros y Hy. apply Na. right. exact Hy.
  - change (seqP (VObj xs) (VObj xs)). rewrite seqP_obj. split; [auto|].
    apply wfb_obj in Wa as [ND Wx]. simpl in Na. rewrite forallb_forall in Na.
    apply obj_rel_forall. intros k v Hin. exists v. split; [apply alookup_NoDup_In; assumption|].
    rewrite Forall_forall in IH, Wx. apply (IH (k, v) Hin); [apply (Wx (k, v) Hin) | apply (Na (k, v) Hin)]. Qed.

Lemma seqP_sym : forall a b, wfb a = true -> wfb b = true -> seqP a b -> seqP b a.
Proof. induction a as [|b0|z0|f0|s0|xs IH|xs IH] using val_ind'; intros b Wa Wb H; destruct b; simpl in H; try contradiction; simpl; auto.
  - rewrite feq_sym. exact H.
  - rename l into ys. change (seqP (VList ys) (VList xs)). change (seqP (VList xs) (VList ys)) in H. rewrite seqP_list in *.
    apply wfb_list in Wa. apply wfb_list in Wb. revert ys Wb H.
    induction xs as [|x xs IHxs]; intros [|y ys] Wb H; simpl in *; auto.
    inversion IH as [|? ? Hx Hxs]; inversion Wa as [|? ? Wx0 Wxs]; inversion Wb as [|? ? Wy0 Wys]; subst.
    destruct H as [H1 H2]. split; [apply Hx; assumption | apply IHxs; assumption].
  - rename kvs into ys. change (seqP (VObj ys) (VObj xs)). change (seqP (VObj xs) (VObj ys)) in H. rewrite seqP_obj in *.
    destruct H as [HI HR]. apply wfb_obj in Wa as [NDx Wx]. apply wfb_obj in Wb as [NDy Wy].
    split; [apply (keys_incl_of_obj_rel _ _ _ HR)|].
    apply obj_rel_forall. intros k w Hin.
    assert (Hk: In k (akeys xs)) by (apply HI; apply (in_map fst) in Hin; exact Hin).
    unfold akeys in Hk. apply in_map_iff in Hk as [[k' v] [E Hv]]. simpl in E. subst k'.
    exists v. split; [apply alookup_NoDup_In; assumption|].
    rewrite obj_rel_forall in HR. destruct (HR k v Hv) as [w' [E' Hs]].
    assert (w' = w). { apply alookup_NoDup_In with (v := w) in Hin; [congruence | exact NDy]. } subst w'.
    rewrite Forall_forall in IH, Wx, Wy. apply (IH (k, v) Hv); [apply (Wx (k, v) Hv) | apply (Wy (k, w) Hin) | exact Hs]. Qed.

Lemma seqP_trans : forall a b c, wfb a = true -> wfb b = true -> wfb c = true -> seqP a b -> seqP b c -> seqP a c.
Proof. induction a as [|b0|z0|f0|s0|xs IH|xs IH] using val_ind'; intros b c Wa Wb Wc H1 H2;
    destruct b; simpl in H1; try contradiction; destruct c; simpl in H2; try contradiction; simpl; auto; try congruence.
  - apply (feq_trans _ _ _ H1 H2).
  - rename l into ys. rename l0 into zs.
    change (seqP (VList xs) (VList zs)). change (seqP (VList xs) (VList ys)) in H1. change (seqP (VList ys) (VList zs)) in H2.
    rewrite seqP_list in *. apply wfb_list in Wa. apply wfb_list in Wb. apply wfb_list in Wc.
    revert ys zs Wb Wc H1 H2. induction xs as [|x xs IHxs]; intros [|y ys] [|z zs] Wb Wc H1 H2; simpl in *; auto; try contradiction.
    inversion IH as [|? ? Hx Hxs]; inversion Wa as [|? ? Wx0 Wxs]; inversion Wb as [|? ? Wy0 Wys]; inversion Wc as [|? ? Wz0 Wzs]; subst.
    destruct H1 as [A1 A2]. destruct H2 as [B1 B2].
    split; [apply (Hx y z); assumption | apply (IHxs Hxs Wxs ys zs); assumption].
  - rename kvs into ys. rename kvs0 into zs.
    change (seqP (VObj xs) (VObj zs)). change (seqP (VObj xs) (VObj ys)) in H1. change (seqP (VObj ys) (VObj zs)) in H2.
    rewrite seqP_obj in *. destruct H1 as [I1 R1]. destruct H2 as [I2 R2].
    apply wfb_obj in Wa as [NDx Wx]. apply wfb_obj in Wb as [NDy Wy]. apply wfb_obj in Wc as [NDz Wz].
    split; [intros k Hk; apply I1; apply I2; exact Hk|].
    rewrite obj_rel_forall in *. intros k v Hin.
    destruct (R1 k v Hin) as [w [Ew Hw]]. pose proof (alookup_In _ _ _ Ew) as Hinw.
    destruct (R2 k w Hinw) as [u [Eu Hu]]. pose proof (alookup_In _ _ _ Eu) as Hinu.
    exists u. split; [exact Eu|].
    rewrite Forall_forall in IH, Wx, Wy, Wz.
    apply (IH (k, v) Hin w u); [apply (Wx (k, v) Hin) | apply (Wy (k, w) Hinw) | apply (Wz (k, u) Hinu) | exact Hw | exact Hu]. Qed.

(* corollaries for the executable veq *)
Theorem veq_refl a : wfb a = true -> nan_free a = true -> veq a a = true.
Proof. intros W N. apply veq_spec; auto. apply seqP_refl; auto. Qed.
Theorem veq_sym a b : wfb a = true -> wfb b = true -> veq a b = veq b a.
Proof. intros Wa Wb. destruct (veq a b) eqn:E1, (veq b a) eqn:E2; auto.
  - apply veq_spec in E1; auto. apply seqP_sym in E1; auto. apply veq_spec in E1; auto. congruence.
  - apply veq_spec in E2; auto. apply seqP_sym in E2; auto. apply veq_spec in E2; auto. congruence. Qed.
Theorem veq_trans a b c : wfb a = true -> wfb b = true -> wfb c = true -> veq a b = true -> veq b c = true -> veq a c = true.
Proof. intros Wa Wb Wc H1 H2. apply veq_spec in H1; auto. apply veq_spec in H2; auto. apply veq_spec; auto.
  apply (seqP_trans a b c); auto. Qed.

(* kinds never mix: int 1 is not float 1.0, nil equals only nil, a shorter/longer list or a missing key gives false *)
Lemma veq_kind a b : veq a b = true -> kind_of a = kind_of b.
Proof. destruct a, b; simpl; intros H; try discriminate; reflexivity. Qed.
Lemma veq_list_length xs ys : veq (VList xs) (VList ys) = true -> length xs = length ys.
Proof. rewrite veq_list. intros H. apply andb_true_iff in H as [H _]. apply Nat.eqb_eq. exact H. Qed.
Lemma veq_obj_missing xs ys k v : In (k, v) xs -> alookup k ys = None -> veq (VObj xs) (VObj ys) = false.
Proof. intros Hin Hn. rewrite veq_obj. destruct (Nat.eqb _ _); [simpl|reflexivity].
  induction xs as [|[k' v'] t IH]; [destruct Hin|]. simpl. destruct Hin as [E|Hin].
  - injection E as -> ->. rewrite Hn. reflexivity.
  - rewrite (IH Hin). apply andb_false_r. Qed.
