(* Value.v — pure value trees (what every traversal of the library sees), kinds, induction principle. *)
From Anytype Require Import Base FloatBits.
Local Open Scope Z_scope.

Inductive val : Type :=
| VNil
| VBool (b : bool)
| VInt (z : Z)
| VFloat (bits : Z)
| VStr (s : bytes)
| VList (l : list val)
| VObj (kvs : list (bytes * val)).

(* anytype.Type enum: Undefined=0 Nil=1 Object=2 List=3 String=4 Bool=5 Int=6 Float=7 *)
Inductive kind := KUndefined | KNil | KObject | KList | KString | KBool | KInt | KFloat.
Definition kind_code (k : kind) : Z :=
  match k with KUndefined => 0 | KNil => 1 | KObject => 2 | KList => 3 | KString => 4 | KBool => 5 | KInt => 6 | KFloat => 7 end.
Definition kind_eqb (a b : kind) : bool := kind_code a =? kind_code b.
Lemma kind_eqb_eq a b : kind_eqb a b = true <-> a = b.
Proof. unfold kind_eqb. destruct a, b; simpl; split; intros H; try reflexivity; try discriminate. Qed.

Definition kind_of (v : val) : kind :=
  match v with
  | VNil => KNil | VBool _ => KBool | VInt _ => KInt | VFloat _ => KFloat
  | VStr _ => KString | VList _ => KList | VObj _ => KObject
  end.

(* nested induction principle *)
Section ValInd.
  Variable P : val -> Prop.
  Hypothesis Hnil : P VNil.
  Hypothesis Hbool : forall b, P (VBool b).
  Hypothesis Hint : forall z, P (VInt z).
  Hypothesis Hfloat : forall b, P (VFloat b).
  Hypothesis Hstr : forall s, P (VStr s).
  Hypothesis Hlist : forall l, Forall P l -> P (VList l).
  Hypothesis Hobj : forall kvs, Forall (fun kv => P (snd kv)) kvs -> P (VObj kvs).
  Fixpoint val_ind' (v : val) : P v :=
    match v with
    | VNil => Hnil | VBool b => Hbool b | VInt z => Hint z | VFloat b => Hfloat b | VStr s => Hstr s
    | VList l => Hlist l ((fix go (l : list val) : Forall P l :=
                             match l with [] => Forall_nil _ | x :: t => Forall_cons _ (val_ind' x) (go t) end) l)
    | VObj kvs => Hobj kvs ((fix go (l : list (bytes * val)) : Forall (fun kv => P (snd kv)) l :=
                             match l with [] => Forall_nil _ | x :: t => Forall_cons _ (val_ind' (snd x)) (go t) end) kvs)
    end.
End ValInd.

(* size, used as fuel bound for fuelled traversals *)
Fixpoint vsize (v : val) : nat :=
  match v with
  | VList l => S (fold_right (fun x n => vsize x + n)%nat O l)
  | VObj kvs => S (fold_right (fun kv n => vsize (snd kv) + n)%nat O kvs)
  | _ => 1%nat
  end.

(* association lists *)
Fixpoint alookup {A} (k : bytes) (kvs : list (bytes * A)) : option A :=
  match kvs with
  | [] => None
  | (k', v) :: t => if bytes_eqb k k' then Some v else alookup k t
  end.
Fixpoint aremove {A} (k : bytes) (kvs : list (bytes * A)) : list (bytes * A) :=
  match kvs with
  | [] => []
  | (k', v) :: t => if bytes_eqb k k' then aremove k t else (k', v) :: aremove k t
  end.
(* Set: replace in place when present, append otherwise (order is never an observable) *)
Fixpoint aset {A} (k : bytes) (x : A) (kvs : list (bytes * A)) : list (bytes * A) :=
  match kvs with
  | [] => [(k, x)]
  | (k', v) :: t => if bytes_eqb k k' then (k, x) :: t else (k', v) :: aset k x t
  end.
Definition akeys {A} (kvs : list (bytes * A)) : list bytes := map fst kvs.

Lemma alookup_aset_eq {A} k (x : A) kvs : alookup k (aset k x kvs) = Some x.
Proof. induction kvs as [|[k' v] t IH]; simpl.
  - rewrite bytes_eqb_refl. reflexivity.
  - destruct (bytes_eqb k k') eqn:E; simpl; [rewrite bytes_eqb_refl; reflexivity | rewrite E; exact IH]. Qed.
Lemma alookup_aset_neq {A} k k2 (x : A) kvs : k2 <> k -> alookup k2 (aset k x kvs) = alookup k2 kvs.
Proof. intros N. induction kvs as [|[k' v] t IH]; simpl.
  - apply bytes_eqb_neq in N. rewrite N. reflexivity.
  - destruct (bytes_eqb k k') eqn:E; simpl.
    + apply bytes_eqb_eq in E. subst k'. apply bytes_eqb_neq in N. rewrite N. reflexivity.
    + destruct (bytes_eqb k2 k'); [reflexivity | exact IH]. Qed.
Lemma alookup_aremove_eq {A} k (kvs : list (bytes * A)) : alookup k (aremove k kvs) = None.
Proof. induction kvs as [|[k' v] t IH]; simpl; auto. destruct (bytes_eqb k k') eqn:E; simpl; auto. rewrite E. exact IH. Qed.
Lemma alookup_aremove_neq {A} k k2 (kvs : list (bytes * A)) : k2 <> k -> alookup k2 (aremove k kvs) = alookup k2 kvs.
Proof. intros N. induction kvs as [|[k' v] t IH]; simpl; auto.
  destruct (bytes_eqb k k') eqn:E; simpl.
  - apply bytes_eqb_eq in E. subst k'. apply bytes_eqb_neq in N. rewrite N. exact IH.
  - destruct (bytes_eqb k2 k'); [reflexivity | exact IH]. Qed.
Lemma alookup_In {A} k (kvs : list (bytes * A)) v : alookup k kvs = Some v -> In (k, v) kvs.
Proof. induction kvs as [|[k' v'] t IH]; simpl; [discriminate|].
  destruct (bytes_eqb k k') eqn:E.
  - intros H. injection H as ->. apply bytes_eqb_eq in E. subst. left. reflexivity.
  - intros H. right. apply IH. exact H. Qed.
Lemma alookup_None_notin {A} k (kvs : list (bytes * A)) : alookup k kvs = None <-> ~ In k (akeys kvs).
Proof. induction kvs as [|[k' v'] t IH]; simpl.
  - split; auto.
  - destruct (bytes_eqb k k') eqn:E.
    + apply bytes_eqb_eq in E. subst. split; [discriminate | intros H; exfalso; apply H; left; reflexivity].
    + apply bytes_eqb_neq in E. rewrite IH. split; intros H; [intros [H1|H1]; [congruence|contradiction] | intros H1; apply H; right; exact H1]. Qed.
Lemma alookup_NoDup_In {A} k (kvs : list (bytes * A)) v : NoDup (akeys kvs) -> In (k, v) kvs -> alookup k kvs = Some v.
Proof. induction kvs as [|[k' v'] t IH]; simpl; [contradiction|].
  intros ND [H|H].
  - injection H as -> ->. rewrite bytes_eqb_refl. reflexivity.
  - inversion ND as [|? ? Hn ND']. subst.
    destruct (bytes_eqb k k') eqn:E.
    + apply bytes_eqb_eq in E. subst. exfalso. apply Hn. apply (in_map fst) in H. exact H.
    + apply IH; assumption. Qed.

(* well-formed trees: ints in range, float patterns in range, object keys pairwise distinct *)
Fixpoint nodupb (l : list bytes) : bool :=
  match l with [] => true | x :: t => negb (existsb (bytes_eqb x) t) && nodupb t end.
Lemma nodupb_NoDup l : nodupb l = true <-> NoDup l.
Proof. induction l as [|x t IH]; simpl.
  - split; [constructor | reflexivity].
  - rewrite andb_true_iff, negb_true_iff, IH. split.
    + intros [H1 H2]. constructor; [|exact H2]. intros Hin.
      assert (existsb (bytes_eqb x) t = true) by (apply existsb_exists; exists x; split; [exact Hin | apply bytes_eqb_refl]). congruence.
    + intros H. inversion H as [|? ? Hn ND]. subst. split; [|exact ND].
      destruct (existsb (bytes_eqb x) t) eqn:E; [|reflexivity].
      apply existsb_exists in E as [y [Hy1 Hy2]]. apply bytes_eqb_eq in Hy2. subst. contradiction. Qed.

Fixpoint wfb (v : val) : bool :=
  match v with
  | VInt z => in_int64 z
  | VFloat b => fbits_ok b
  | VList l => forallb wfb l
  | VObj kvs => nodupb (map fst kvs) && forallb (fun kv => wfb (snd kv)) kvs
  | _ => true
  end.
