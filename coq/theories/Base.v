(* Base.v — common imports and byte-string helpers.  Go strings are [list byte]. *)
From Coq Require Export List ZArith Lia Bool Arith.
From Coq Require Export Strings.Byte.
From Coq Require Strings.String Strings.Ascii.
Export Coq.Strings.String.StringSyntax.
Export ListNotations.

Definition bytes := list byte.

Definition byte_eqb (a b : byte) : bool := Byte.eqb a b.

Lemma byte_eqb_eq a b : byte_eqb a b = true <-> a = b.
Proof. unfold byte_eqb. split.
  - apply Byte.byte_dec_bl.
  - intros ->. apply Byte.byte_dec_lb. reflexivity. Qed.

Lemma byte_eqb_refl a : byte_eqb a a = true.
Proof. apply byte_eqb_eq. reflexivity. Qed.

Lemma byte_eqb_neq a b : byte_eqb a b = false <-> a <> b.
Proof. split.
  - intros H E. apply byte_eqb_eq in E. congruence.
  - intros H. destruct (byte_eqb a b) eqn:E; [apply byte_eqb_eq in E; contradiction|reflexivity]. Qed.

Fixpoint bytes_eqb (a b : bytes) : bool :=
  match a, b with
  | [], [] => true
  | x :: a', y :: b' => byte_eqb x y && bytes_eqb a' b'
  | _, _ => false
  end.

Lemma bytes_eqb_eq a b : bytes_eqb a b = true <-> a = b.
Proof. revert b. induction a as [|x a IH]; intros [|y b]; simpl; split; try congruence; try reflexivity.
  - intros H. apply andb_true_iff in H as [H1 H2]. apply byte_eqb_eq in H1. apply IH in H2. congruence.
  - intros E. injection E as -> ->. rewrite byte_eqb_refl. simpl. apply IH. reflexivity. Qed.

Lemma bytes_eqb_refl a : bytes_eqb a a = true.
Proof. apply bytes_eqb_eq. reflexivity. Qed.

Lemma bytes_eqb_neq a b : bytes_eqb a b = false <-> a <> b.
Proof. split.
  - intros H E. apply bytes_eqb_eq in E. congruence.
  - intros H. destruct (bytes_eqb a b) eqn:E; [apply bytes_eqb_eq in E; contradiction|reflexivity]. Qed.

Lemma bytes_eqb_sym a b : bytes_eqb a b = bytes_eqb b a.
Proof. destruct (bytes_eqb a b) eqn:E.
  - apply bytes_eqb_eq in E. subst. symmetry. apply bytes_eqb_refl.
  - symmetry. apply bytes_eqb_neq. apply bytes_eqb_neq in E. congruence. Qed.

Definition bytes_eq_dec (a b : bytes) : {a = b} + {a <> b}.
Proof. destruct (bytes_eqb a b) eqn:E; [left; apply bytes_eqb_eq; exact E | right; apply bytes_eqb_neq; exact E]. Defined.

(* numeric value of a byte *)
Definition bN (b : byte) : N := Byte.to_N b.
Definition bZ (b : byte) : Z := Z.of_N (Byte.to_N b).
Definition byte_of_Z (z : Z) : byte :=
  match Byte.of_N (Z.to_N z) with Some b => b | None => x00 end.

Lemma bZ_range b : (0 <= bZ b < 256)%Z.
Proof. unfold bZ. pose proof (Byte.to_N_bounded b). lia. Qed.

Lemma byte_of_Z_bZ b : byte_of_Z (bZ b) = b.
Proof. unfold byte_of_Z, bZ. rewrite N2Z.id. rewrite Byte.of_to_N. reflexivity. Qed.

Lemma bZ_byte_of_Z z : (0 <= z < 256)%Z -> bZ (byte_of_Z z) = z.
Proof. intros H. unfold byte_of_Z, bZ.
  destruct (Byte.of_N (Z.to_N z)) eqn:E.
  - apply Byte.to_of_N in E. rewrite E. lia.
  - apply Byte.of_N_None_iff in E. lia. Qed.

Lemma bZ_inj a b : bZ a = bZ b -> a = b.
Proof. intros H. rewrite <- (byte_of_Z_bZ a), <- (byte_of_Z_bZ b). congruence. Qed.

(* string literals as byte lists *)
Definition B (s : String.string) : bytes := String.list_byte_of_string s.
Arguments B s%string_scope.

(* lexicographic bytewise comparison, as Go's string < *)
Fixpoint bytes_ltb (a b : bytes) : bool :=
  match a, b with
  | [], [] => false
  | [], _ :: _ => true
  | _ :: _, [] => false
  | x :: a', y :: b' => if (bZ x <? bZ y)%Z then true else if (bZ y <? bZ x)%Z then false else bytes_ltb a' b'
  end.

Definition bytes_leb (a b : bytes) : bool := negb (bytes_ltb b a).

(* list helpers *)
Fixpoint upd {A} (l : list A) (n : nat) (x : A) : list A :=
  match l, n with
  | [], _ => []
  | _ :: t, O => x :: t
  | h :: t, S n' => h :: upd t n' x
  end.

Lemma upd_length {A} (l : list A) n x : length (upd l n x) = length l.
Proof. revert n. induction l as [|h t IH]; intros [|n]; simpl; auto. Qed.

Lemma nth_error_upd_eq {A} (l : list A) n x : n < length l -> nth_error (upd l n x) n = Some x.
Proof. revert n. induction l as [|h t IH]; intros [|n] H; simpl in *; try lia; auto. apply IH. lia. Qed.

Lemma nth_error_upd_neq {A} (l : list A) n m x : n <> m -> nth_error (upd l n x) m = nth_error l m.
Proof. revert n m. induction l as [|h t IH]; intros [|n] [|m] H; simpl; auto; try congruence. Qed.

Lemma upd_oob {A} (l : list A) n x : length l <= n -> upd l n x = l.
Proof. revert n. induction l as [|h t IH]; intros [|n] H; simpl in *; auto; try lia. f_equal. apply IH. lia. Qed.

Fixpoint repeat_list {A} (x : A) (n : nat) : list A := match n with O => [] | S k => x :: repeat_list x k end.

Definition Zlen {A} (l : list A) : Z := Z.of_nat (length l).

(* Go panics are a result constructor, never a default value *)
Inductive res (A : Type) : Type := Ok (a : A) | Panic.
Arguments Ok {A} a.
Arguments Panic {A}.
Definition res_bind {A B} (r : res A) (f : A -> res B) : res B := match r with Ok a => f a | Panic => Panic end.
Definition is_panic {A} (r : res A) : bool := match r with Panic => true | _ => false end.
