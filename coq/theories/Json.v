(* Json.v — the serializer (String: anytype.go quote / serialize, list_impl.go, object_impl.go) and the parser
   (parser.go: parseField, parseList, parseObject, ParseList, ParseObject, ParseFile), transcribed.
   Float text conversion is an oracle: section variables fmt_e, fmt_f (strconv.FormatFloat(x,'e'|'f',-1,64)) and
   pfloat (strconv.ParseFloat(s,64)). *)
From Anytype Require Import Base FloatBits Value GoInt Utf8 GoUnquote.
Local Open Scope Z_scope.

(* ================= serializer ================= *)

Definition hex_digit (d : Z) : byte := if d <? 10 then byte_of_Z (48 + d) else byte_of_Z (87 + d).

(* quote: for _, char := range str { switch ... } ; an ill-formed byte ranges as U+FFFD *)
Definition quote_rune (r : Z) : bytes :=
  if r =? 34 then [x5c; x22]
  else if r =? 92 then [x5c; x5c]
  else if r =? 8 then [x5c; x62]
  else if r =? 12 then [x5c; x66]
  else if r =? 10 then [x5c; x6e]
  else if r =? 13 then [x5c; x72]
  else if r =? 9 then [x5c; x74]
  else if r <? 32 then [x5c; x75; x30; x30; hex_digit (r / 16); hex_digit (r mod 16)]
  else encode_rune r.
Fixpoint quote_loop (fuel : nat) (s : bytes) : bytes :=
  match fuel with
  | O => []
  | S f => match s with
           | [] => []
           | _ => let '(r, n) := decode_rune s in quote_rune r ++ quote_loop f (skipn n s)
           end
  end.
Definition quote (s : bytes) : bytes := x22 :: quote_loop (length s) s ++ [x22].

Fixpoint contains_byte (c : byte) (s : bytes) : bool :=
  match s with [] => false | x :: t => byte_eqb x c || contains_byte c t end.

Section Json.
  Variable fmt_e fmt_f : Z -> bytes.
  Variable pfloat : bytes -> option Z.

  (* atFloat.serialize, with the ".0" repair *)
  Definition ser_float (b : Z) : bytes :=
    let a := fabs b in
    if fle f1e6 a || (flt pzero a && fle a f1em6) then fmt_e b
    else let s := fmt_f b in
         if negb (is_nan b) && negb (contains_byte x2e s) then s ++ [x2e; x30] else s.

  Fixpoint ser (v : val) : bytes :=
    match v with
    | VNil => B"null"
    | VBool true => B"true"
    | VBool false => B"false"
    | VInt z => itoa z
    | VFloat b => ser_float b
    | VStr s => quote s
    | VList l =>
        x5b :: (fix go (l : list val) : bytes :=
                  match l with
                  | [] => []
                  | [x] => ser x
                  | x :: t => ser x ++ x2c :: go t
                  end) l ++ [x5d]
    | VObj kvs =>
        x7b :: (fix go (l : list (bytes * val)) : bytes :=
                  match l with
                  | [] => []
                  | [(k, x)] => quote k ++ x3a :: ser x
                  | (k, x) :: t => quote k ++ x3a :: ser x ++ x2c :: go t
                  end) kvs ++ [x7d]
    end.

  (* ================= parser ================= *)

  Inductive expect := ExpQuote | ExpColon | ExpCommaBrace.
  Inductive perr :=
  | EUtf8                                   (* "not an UTF-8 encoding" *)
  | EEnd                                    (* "unexpected end of input" *)
  | EMissing                                (* "missing '['" / "missing '{'" *)
  | EChar (e : expect) (got : Z) (line : Z) (* expecting ..., got '<rune>' on line N *)
  | EValue (tok : bytes) (line : Z)         (* invalid value '<tok>' on line N *)
  | EFile.                                  (* the file cannot be read *)

  (* result of a machine: the container, the input remaining after its closing bracket, the line counter;
     an error remembers the input remaining AT the offending character (ghost: its offset) *)
  Inductive pres :=
  | POk (v : val) (rest : bytes) (line : Z)
  | PErr (e : perr) (at_rest : bytes)
  | PFuel.

  (* parseField *)
  Definition parse_field (tok : bytes) (line : Z) : val + perr :=
    if bytes_eqb tok (B"null") then inl VNil
    else match pint0 tok with
         | Some z => inl (VInt z)
         | None => match pfloat tok with
                   | Some b => inl (VFloat b)
                   | None => match pbool tok with
                             | Some b => inl (VBool b)
                             | None => inr (EValue tok line)
                             end
                   end
         end.

  Inductive lstate := LVal | LValString | LValEscape | LAfterString.
  Inductive ostate := OKeyStart | OKey | OKeyEscape | OAfterKey | OVal | OAfterVal | OValString | OValEscape | OAfterString.

  (* One fuel unit per loop iteration; a nested container is parsed with the remaining fuel on the remaining input.
     Both machines start AFTER their opening bracket (the stateStart iteration only consumes it). *)
  Fixpoint plist (fuel : nat) (st : lstate) (acc : list val) (buf : bytes) (inval : bool) (s : bytes) (line : Z) {struct fuel} : pres :=
    match fuel with
    | O => PFuel
    | S f =>
        match s with
        | [] => PErr EEnd []
        | _ =>
            let '(r, n) := decode_rune s in
            if Nat.eqb n 0 || ((r =? rune_error) && Nat.eqb n 1) then PErr EUtf8 s
            else
              let rest := skipn n s in
              let line := if r =? 10 then line + 1 else line in
              match st with
              | LVal =>
                  if is_space r then plist f LVal acc buf inval rest line
                  else if negb inval && (r =? 34) then plist f LValString acc buf inval rest line
                  else if negb inval && (r =? 123) then
                    match pobj f OKeyStart [] [] [] false rest line with
                    | POk o rest' line' => plist f LVal (acc ++ [o]) buf inval rest' line'
                    | other => other
                    end
                  else if negb inval && (r =? 91) then
                    match plist f LVal [] [] false rest line with
                    | POk l rest' line' => plist f LVal (acc ++ [l]) buf inval rest' line'
                    | other => other
                    end
                  else if (r =? 44) || (r =? 93) then
                    match (match buf with
                           | [] => inl (acc, buf, inval)
                           | _ => match parse_field buf line with
                                  | inl v => inl (acc ++ [v], [], false)
                                  | inr e => inr e
                                  end
                           end) with
                    | inr e => PErr e s
                    | inl (acc', buf', inval') =>
                        if r =? 93 then POk (VList acc') rest line else plist f LVal acc' buf' inval' rest line
                    end
                  else plist f LVal acc (buf ++ encode_rune r) true rest line
              | LValString =>
                  if r =? 92 then plist f LValEscape acc buf inval rest line
                  else if r =? 34 then plist f LAfterString (acc ++ [VStr (unescape buf)]) [] inval rest line
                  else plist f LValString acc (buf ++ encode_rune r) inval rest line
              | LValEscape => plist f LValString acc (buf ++ x5c :: encode_rune r) inval rest line
              | LAfterString =>
                  if r =? 44 then plist f LVal acc buf inval rest line
                  else if r =? 93 then POk (VList acc) rest line
                  else plist f LAfterString acc buf inval rest line
              end
        end
    end
  with pobj (fuel : nat) (st : ostate) (acc : list (bytes * val)) (key : bytes) (buf : bytes) (inval : bool) (s : bytes) (line : Z) {struct fuel} : pres :=
    match fuel with
    | O => PFuel
    | S f =>
        match s with
        | [] => PErr EEnd []
        | _ =>
            let '(r, n) := decode_rune s in
            if Nat.eqb n 0 || ((r =? rune_error) && Nat.eqb n 1) then PErr EUtf8 s
            else
              let rest := skipn n s in
              let line := if r =? 10 then line + 1 else line in
              match st with
              | OKeyStart =>
                  if is_space r then pobj f OKeyStart acc key buf inval rest line
                  else if r =? 125 then POk (VObj acc) rest line
                  else if r =? 34 then pobj f OKey acc [] buf inval rest line
                  else PErr (EChar ExpQuote r line) s
              | OKey =>
                  if r =? 34 then pobj f OAfterKey acc key buf inval rest line
                  else if r =? 92 then pobj f OKeyEscape acc key buf inval rest line
                  else pobj f OKey acc (key ++ encode_rune r) buf inval rest line
              | OKeyEscape => pobj f OKey acc (key ++ x5c :: encode_rune r) buf inval rest line
              | OAfterKey =>
                  if is_space r then pobj f OAfterKey acc key buf inval rest line
                  else if negb (r =? 58) then PErr (EChar ExpColon r line) s
                  else pobj f OVal acc (unescape key) [] false rest line
              | OVal =>
                  if is_space r then pobj f OVal acc key buf inval rest line
                  else if negb inval && (r =? 34) then pobj f OValString acc key buf inval rest line
                  else if negb inval && (r =? 123) then
                    match pobj f OKeyStart [] [] [] false rest line with
                    | POk o rest' line' => pobj f OAfterVal (aset key o acc) key buf inval rest' line'
                    | other => other
                    end
                  else if negb inval && (r =? 91) then
                    match plist f LVal [] [] false rest line with
                    | POk l rest' line' => pobj f OAfterVal (aset key l acc) key buf inval rest' line'
                    | other => other
                    end
                  else if (r =? 44) || (r =? 125) then
                    match (match buf with
                           | [] => inl acc
                           | _ => match parse_field buf line with
                                  | inl v => inl (aset key v acc)
                                  | inr e => inr e
                                  end
                           end) with
                    | inr e => PErr e s
                    | inl acc' => if r =? 44 then pobj f OKeyStart acc' key buf inval rest line else POk (VObj acc') rest line
                    end
                  else pobj f OVal acc key (buf ++ encode_rune r) true rest line
              | OAfterVal =>
                  if is_space r then pobj f OAfterVal acc key buf inval rest line
                  else if r =? 44 then pobj f OKeyStart acc key buf inval rest line
                  else if r =? 125 then POk (VObj acc) rest line
                  else if r =? 34 then pobj f OKey acc [] buf inval rest line
                  else PErr (EChar ExpCommaBrace r line) s
              | OValString =>
                  if r =? 92 then pobj f OValEscape acc key buf inval rest line
                  else if r =? 34 then pobj f OAfterString (aset key (VStr (unescape buf)) acc) key buf inval rest line
                  else pobj f OValString acc key (buf ++ encode_rune r) inval rest line
              | OValEscape => pobj f OValString acc key (buf ++ x5c :: encode_rune r) inval rest line
              | OAfterString =>
                  if r =? 44 then pobj f OKeyStart acc key buf inval rest line
                  else if r =? 125 then POk (VObj acc) rest line
                  else pobj f OAfterString acc key buf inval rest line
              end
        end
    end.

  (* strings.Index(json, "[") and strings.Count(json[:start], "\n") + 1 *)
  Fixpoint find_byte (c : byte) (s : bytes) (line : Z) : option (bytes * Z) :=
    match s with
    | [] => None
    | x :: t => if byte_eqb x c then Some (t, line) else find_byte c t (if byte_eqb x x0a then line + 1 else line)
    end.

  Definition parse_list_top (s : bytes) : pres :=
    match find_byte x5b s 1 with
    | None => PErr EMissing s
    | Some (rest, line) => plist (S (length rest)) LVal [] [] false rest line
    end.
  Definition parse_object_top (s : bytes) : pres :=
    match find_byte x7b s 1 with
    | None => PErr EMissing s
    | Some (rest, line) => pobj (S (length rest)) OKeyStart [] [] [] false rest line
    end.
  (* ParseFile: os.ReadFile then ParseObject *)
  Definition parse_file (content : option bytes) : pres :=
    match content with None => PErr EFile [] | Some b => parse_object_top b end.
End Json.
