(* FormatProofs.v — FormatString(n) = json.Indent(String(), "", n spaces) is a lossless, canonically indented
   re-layout of String(): same tokens, same data, valid JSON, the layout [relayout] prescribes, idempotent. *)
From Anytype Require Import Base FloatBits Value GoInt Utf8 Utf8Proofs GoUnquote Json JsonDoc JsonRefProofs SerializeProofs.
From Coq Require Import ZifyBool.
Local Open Scope Z_scope.

#[local] Arguments sitems_of : simpl never.
#[local] Arguments decode_rune : simpl never.
#[local] Arguments encode_rune : simpl never.
#[local] Arguments relayout : simpl never.


Section Fmt.
Variable fmt_e fmt_f : Z -> bytes.
Variable pfloat : bytes -> option Z.
Notation ser := (ser fmt_e fmt_f).
Hypothesis F2 : forall b, is_finite b = true -> fbits_ok b = true -> exists n, parse_num_text (ser_float fmt_e fmt_f b) = Some n.
Hypothesis F1 : forall b, is_finite b = true -> fbits_ok b = true -> pfloat (ser_float fmt_e fmt_f b) = Some b.
Hypothesis F4 : forall b, is_finite b = true -> fbits_ok b = true -> pint0 (ser_float fmt_e fmt_f b) = None.

Definition format_model (v : val) (n : nat) : bytes := indent_text n (ser v).

(* ================= (G1) the serializer's derivation is canonical: no blanks, lower-case hex digits ================= *)

Lemma sitem_of_rune_canon : forall r, sitem_canon (sitem_of_rune r) = true.
Proof using. intros r. unfold sitem_of_rune.
  destruct (r =? 34); [reflexivity|]. destruct (r =? 92); [reflexivity|].
  destruct (r =? 8); [reflexivity|]. destruct (r =? 12); [reflexivity|].
  destruct (r =? 10); [reflexivity|]. destruct (r =? 13); [reflexivity|].
  destruct (r =? 9); [reflexivity|]. destruct (r <? 32); reflexivity. Qed.

Lemma sitems_of_canon : forall fuel s, sitems_canon (sitems_of fuel s) = true.
Proof using. induction fuel as [|f IH]; intros s; [reflexivity|].
  destruct s as [|b t]; [rewrite sitems_of_nil; reflexivity|].
  rewrite sitems_of_S by discriminate. unfold sitems_canon in *. cbn [forallb].
  rewrite sitem_of_rune_canon. rewrite IH. reflexivity. Qed.

Lemma doc_of_canon_all : forall v, doc_canon (doc_of ser v) = true.
Proof using. induction v as [ | b | z | b | s | l IHl | kvs IHk ] using val_ind'.
  - reflexivity.
  - destruct b; reflexivity.
  - cbn [doc_of]. destruct (parse_num_text (ser (VInt z))); reflexivity.
  - cbn [doc_of]. destruct (parse_num_text (ser (VFloat b))); reflexivity.
  - cbn [doc_of doc_canon]. apply sitems_of_canon.
  - cbn [doc_of]. rewrite doc_canon_arr. apply andb_true_iff. split; [destruct l; reflexivity|].
    rewrite forallb_forall. intros e He. apply in_map_iff in He. destruct He as [x [<- Hx]]. cbn [fst snd].
    rewrite Forall_forall in IHl. apply IHl. exact Hx.
  - cbn [doc_of]. rewrite doc_canon_obj. apply andb_true_iff. split; [destruct kvs; reflexivity|].
    rewrite forallb_forall. intros e He. apply in_map_iff in He. destruct He as [kv [<- Hkv]]. cbv beta iota.
    rewrite sitems_of_canon. rewrite Forall_forall in IHk. apply (IHk kv Hkv). Qed.

Lemma doc_of_canon : forall v, val_ok v = true -> doc_canon (doc_of ser v) = true.
Proof using. intros v _. apply doc_of_canon_all. Qed.

Lemma render_text_nil : forall d, render_text ([], d, []) = render d.
Proof using. intros d. unfold render_text. cbn [render_ws map app]. apply app_nil_r. Qed.

Corollary ref_parse_ser : forall v, val_ok v = true -> ref_parse (ser v) = Some ([], doc_of ser v, []).
Proof using F2. intros v H. destruct (ser_render fmt_e fmt_f F2 v H) as [R O].
  rewrite R at 1. rewrite <- render_text_nil. apply ref_parse_complete; [exact O|]. apply doc_of_canon. exact H. Qed.


(* ================= (G2) the layout json.Indent produces ================= *)

(* named comma loops of [relayout] *)
Definition relayout_elems (n depth : nat) : list (ws * doc * ws) -> list (ws * doc * ws) :=
  fix go (l : list (ws * doc * ws)) : list (ws * doc * ws) :=
  match l with
  | [] => []
  | [(_, x, _)] => [(nl_indent n (S depth), relayout n (S depth) x, nl_indent n depth)]
  | (_, x, _) :: t => (nl_indent n (S depth), relayout n (S depth) x, []) :: go t
  end.
Definition relayout_members (n depth : nat) :
  list (ws * list sitem * ws * ws * doc * ws) -> list (ws * list sitem * ws * ws * doc * ws) :=
  fix go (l : list (ws * list sitem * ws * ws * doc * ws)) : list (ws * list sitem * ws * ws * doc * ws) :=
  match l with
  | [] => []
  | [(_, k, _, _, x, _)] => [(nl_indent n (S depth), k, [], [WsSpace], relayout n (S depth) x, nl_indent n depth)]
  | (_, k, _, _, x, _) :: t => (nl_indent n (S depth), k, [], [WsSpace], relayout n (S depth) x, []) :: go t
  end.

Lemma relayout_arr_eq : forall n depth w elems, relayout n depth (DArr w elems) = DArr [] (relayout_elems n depth elems).
Proof using. intros n depth w [|e t]; reflexivity. Qed.
Lemma relayout_obj_eq : forall n depth w ms, relayout n depth (DObj w ms) = DObj [] (relayout_members n depth ms).
Proof using. intros n depth w [|m t]; reflexivity. Qed.

(* the blanks after an element: a line break before the closing bracket, nothing before a comma *)
Definition last_ws {A} (n depth : nat) (t : list A) : ws := match t with [] => nl_indent n depth | _ => [] end.

Lemma relayout_elems_cons : forall n depth a x b t, relayout_elems n depth ((a, x, b) :: t) =
  (nl_indent n (S depth), relayout n (S depth) x, last_ws n depth t) :: relayout_elems n depth t.
Proof using. intros n depth a x b [|e t]; reflexivity. Qed.
Lemma relayout_members_cons : forall n depth a k b c x e t, relayout_members n depth ((a, k, b, c, x, e) :: t) =
  (nl_indent n (S depth), k, [], [WsSpace], relayout n (S depth) x, last_ws n depth t) :: relayout_members n depth t.
Proof using. intros n depth a k b c x e [|m t]; reflexivity. Qed.
#[local] Arguments relayout_elems : simpl never.
#[local] Arguments relayout_members : simpl never.

Lemma relayout_atom : forall n depth d, match d with DArr _ _ | DObj _ _ => False | _ => True end -> relayout n depth d = d.
Proof using. intros n depth d H. destruct d; try reflexivity; contradiction. Qed.

Lemma last_ws_elems : forall n depth k dp t, last_ws n depth (relayout_elems k dp t) = last_ws n depth t.
Proof using. intros n depth k dp [|[[a x] b] t]; [reflexivity|]. rewrite relayout_elems_cons. reflexivity. Qed.
Lemma last_ws_members : forall n depth k dp t, last_ws n depth (relayout_members k dp t) = last_ws n depth t.
Proof using. intros n depth k dp [|[[[[[a kk] b] c] x] e] t]; [reflexivity|]. rewrite relayout_members_cons. reflexivity. Qed.

Lemma relayout_ok : forall n depth d, doc_ok d = true -> doc_ok (relayout n depth d) = true.
Proof using. intros n depth d. revert depth. induction d using doc_ind'; intros depth Hok; try exact Hok.
  - rename H into F. rewrite relayout_arr_eq. rewrite doc_ok_arr in *.
    induction F as [|[[a x] b] t Hx Ht IHt]; [reflexivity|].
    cbn [forallb snd fst] in Hok. apply andb_true_iff in Hok as [Ox Ot]. cbn [snd fst] in Hx.
    rewrite relayout_elems_cons. cbn [forallb snd fst]. rewrite (Hx (S depth) Ox). rewrite (IHt Ot). reflexivity.
  - rename H into F. rewrite relayout_obj_eq. rewrite doc_ok_obj in *.
    induction F as [|[[[[[a k] b] c] x] e] t Hx Ht IHt]; [reflexivity|].
    cbn [forallb] in Hok. apply andb_true_iff in Hok as [Ox Ot]. apply andb_true_iff in Ox as [Ok Ox].
    rewrite relayout_members_cons. cbn [forallb]. rewrite Ok. rewrite (Hx (S depth) Ox). rewrite (IHt Ot). reflexivity. Qed.

Lemma relayout_canon : forall n depth d, doc_canon d = true -> doc_canon (relayout n depth d) = true.
Proof using. intros n depth d. revert depth. induction d using doc_ind'; intros depth Hc; try exact Hc.
  - rename H into F. rewrite relayout_arr_eq. rewrite doc_canon_arr in *. apply andb_true_iff in Hc as [_ Hc].
    apply andb_true_iff. split; [destruct (relayout_elems n depth elems); reflexivity|].
    induction F as [|[[a x] b] t Hx Ht IHt]; [reflexivity|].
    cbn [forallb snd fst] in Hc. apply andb_true_iff in Hc as [Cx Ct]. cbn [snd fst] in Hx.
    rewrite relayout_elems_cons. cbn [forallb snd fst]. rewrite (Hx (S depth) Cx). rewrite (IHt Ct). reflexivity.
  - rename H into F. rewrite relayout_obj_eq. rewrite doc_canon_obj in *. apply andb_true_iff in Hc as [_ Hc].
    apply andb_true_iff. split; [destruct (relayout_members n depth ms); reflexivity|].
    induction F as [|[[[[[a k] b] c] x] e] t Hx Ht IHt]; [reflexivity|].
    cbn [forallb] in Hc. apply andb_true_iff in Hc as [Cx Ct]. apply andb_true_iff in Cx as [Ck Cx].
    rewrite relayout_members_cons. cbn [forallb]. rewrite Ck. rewrite (Hx (S depth) Cx). rewrite (IHt Ct). reflexivity. Qed.

Lemma relayout_denote : forall n depth d, denote pfloat (relayout n depth d) = denote pfloat d.
Proof using. intros n depth d. revert depth. induction d using doc_ind'; intros depth; try reflexivity.
  - rename H into F. rewrite relayout_arr_eq. rewrite !denote_arr_eq.
    assert (E : denote_elems pfloat (relayout_elems n depth elems) = denote_elems pfloat elems).
    { induction F as [|[[a x] b] t Hx Ht IHt]; [reflexivity|]. cbn [snd fst] in Hx.
      rewrite relayout_elems_cons. cbn [denote_elems]. rewrite (Hx (S depth)). rewrite IHt. reflexivity. }
    rewrite E. reflexivity.
  - rename H into F. rewrite relayout_obj_eq. rewrite !denote_obj_eq.
    assert (E : forall acc, denote_members pfloat (relayout_members n depth ms) acc = denote_members pfloat ms acc).
    { induction F as [|[[[[[a k] b] c] x] e] t Hx Ht IHt]; intros acc; [reflexivity|].
      rewrite relayout_members_cons. cbn [denote_members]. rewrite (Hx (S depth)).
      destruct (denote_string k) as [kb|]; [|reflexivity]. destruct (denote pfloat x) as [v|]; [|reflexivity]. apply IHt. }
    rewrite E. reflexivity. Qed.

Lemma relayout_idem : forall n depth d, relayout n depth (relayout n depth d) = relayout n depth d.
Proof using. intros n depth d. revert depth. induction d using doc_ind'; intros depth; try reflexivity.
  - rename H into F. rewrite !relayout_arr_eq. f_equal.
    induction F as [|[[a x] b] t Hx Ht IHt]; [reflexivity|]. cbn [snd fst] in Hx.
    rewrite !relayout_elems_cons. rewrite (Hx (S depth)). rewrite last_ws_elems. rewrite IHt. reflexivity.
  - rename H into F. rewrite !relayout_obj_eq. f_equal.
    induction F as [|[[[[[a k] b] c] x] e] t Hx Ht IHt]; [reflexivity|].
    rewrite !relayout_members_cons. rewrite (Hx (S depth)). rewrite last_ws_members. rewrite IHt. reflexivity. Qed.


(* ================= (G3) FormatString ================= *)

Lemma indent_text_render : forall n d, doc_ok d = true -> doc_canon d = true -> indent_text n (render d) = render (relayout n 0 d).
Proof using. intros n d Hok Hc. unfold indent_text.
  pose proof (ref_parse_complete [] d [] Hok Hc) as P. rewrite render_text_nil in P. rewrite P.
  cbn [render_ws map]. apply app_nil_r. Qed.

Theorem format_canonical : forall v n, val_ok v = true -> format_model v n = render (relayout n 0 (doc_of ser v)).
Proof using F2. intros v n H. unfold format_model, indent_text. rewrite (ref_parse_ser v H). cbn [render_ws map]. apply app_nil_r. Qed.

(* the result is never the empty text (json.Indent's error case), for any value of the domain *)
Theorem format_nonempty_all : forall v n, val_ok v = true -> format_model v n <> [].
Proof using F2. intros v n H. rewrite (format_canonical v n H).
  destruct (ser_render fmt_e fmt_f F2 v H) as [_ O].
  destruct (render_head _ (relayout_ok n 0 _ O)) as [c [t [E _]]]. rewrite E. discriminate. Qed.

Theorem format_nonempty : forall v n, val_ok v = true -> match v with VList _ | VObj _ => True | _ => False end -> format_model v n <> [].
Proof using F2. intros v n H _. apply format_nonempty_all. exact H. Qed.

Theorem format_valid : forall v n, val_ok v = true -> json_valid (format_model v n) = true.
Proof using F2. intros v n H. rewrite (format_canonical v n H). apply json_valid_iff.
  destruct (ser_render fmt_e fmt_f F2 v H) as [_ O].
  exists [], (relayout n 0 (doc_of ser v)), []. split; [apply relayout_ok; exact O|]. symmetry. apply render_text_nil. Qed.

Theorem format_same_data : forall v n, val_ok v = true ->
  exists d, ref_parse (format_model v n) = Some ([], d, []) /\ denote pfloat d = Some v.
Proof using F1 F2 F4. intros v n H. exists (relayout n 0 (doc_of ser v)).
  destruct (ser_render fmt_e fmt_f F2 v H) as [_ O]. split.
  - rewrite (format_canonical v n H). rewrite <- render_text_nil. apply ref_parse_complete.
    + apply relayout_ok. exact O.
    + apply relayout_canon. apply doc_of_canon. exact H.
  - rewrite relayout_denote. apply (denote_doc_of fmt_e fmt_f pfloat F2 F1 F4). exact H. Qed.

Theorem format_idempotent : forall v n, val_ok v = true -> indent_text n (format_model v n) = format_model v n.
Proof using F2. intros v n H. rewrite (format_canonical v n H).
  destruct (ser_render fmt_e fmt_f F2 v H) as [_ O].
  rewrite indent_text_render.
  - rewrite relayout_idem. reflexivity.
  - apply relayout_ok. exact O.
  - apply relayout_canon. apply doc_of_canon. exact H. Qed.

(* ================= (G4) the shape of the layout ================= *)

Definition nl_bytes (n depth : nat) : bytes := x0a :: repeat_list x20 (n * depth).

Lemma render_ws_nl : forall n depth, render_ws (nl_indent n depth) = nl_bytes n depth.
Proof using. intros n depth. unfold nl_indent, nl_bytes, render_ws. cbn [map wsc_byte]. f_equal.
  induction (n * depth)%nat as [|k IH]; [reflexivity|]. cbn [repeat_list map wsc_byte]. rewrite IH. reflexivity. Qed.

Lemma relayout_elems_nonnil : forall n depth e t, relayout_elems n depth (e :: t) <> [].
Proof using. intros n depth [[a x] b] t. rewrite relayout_elems_cons. discriminate. Qed.
Lemma relayout_members_nonnil : forall n depth m t, relayout_members n depth (m :: t) <> [].
Proof using. intros n depth [[[[[a k] b] c] x] e] t. rewrite relayout_members_cons. discriminate. Qed.

(* every element on its own line, one level deeper; the closing bracket on its own line at the container's level *)
Definition elem_line (n depth : nat) (e : ws * doc * ws) : bytes :=
  nl_bytes n (S depth) ++ render (relayout n (S depth) (snd (fst e))).
Definition member_line (n depth : nat) (m : ws * list sitem * ws * ws * doc * ws) : bytes :=
  let '(_, k, _, _, x, _) := m in nl_bytes n (S depth) ++ render_string k ++ x3a :: x20 :: render (relayout n (S depth) x).

Lemma elem_line_eq : forall n depth a x b, elem_line n depth (a, x, b) = nl_bytes n (S depth) ++ render (relayout n (S depth) x).
Proof using. reflexivity. Qed.
Lemma member_line_eq : forall n depth a k b c x e, member_line n depth (a, k, b, c, x, e) =
  nl_bytes n (S depth) ++ render_string k ++ x3a :: x20 :: render (relayout n (S depth) x).
Proof using. reflexivity. Qed.
#[local] Arguments elem_line : simpl never.
#[local] Arguments member_line : simpl never.

Lemma render_relayout_elems : forall n depth l, l <> [] ->
  render_elems (relayout_elems n depth l) = join_comma (map (elem_line n depth) l) ++ nl_bytes n depth.
Proof using. intros n depth. induction l as [|[[a x] b] t IH]; intros Hne; [congruence|].
  rewrite relayout_elems_cons, render_elems_cons. rewrite render_ws_nl. destruct t as [|e' t'].
  - change (relayout_elems n depth []) with (@nil (ws * doc * ws)).
    cbn [last_ws elems_tail map join_comma]. rewrite render_ws_nl. rewrite app_nil_r.
    rewrite elem_line_eq. rewrite <- app_assoc. reflexivity.
  - specialize (IH ltac:(discriminate)).
    pose proof (relayout_elems_nonnil n depth e' t') as NN.
    destruct (relayout_elems n depth (e' :: t')) as [|r0 rt] eqn:Er; [congruence|].
    unfold elems_tail. rewrite IH. cbn [last_ws render_ws map app].
    rewrite join_comma_cons2. rewrite elem_line_eq. rewrite <- !app_assoc. reflexivity. Qed.

Lemma render_relayout_members : forall n depth l, l <> [] ->
  render_members (relayout_members n depth l) = join_comma (map (member_line n depth) l) ++ nl_bytes n depth.
Proof using. intros n depth. induction l as [|[[[[[a k] b] c] x] e] t IH]; intros Hne; [congruence|].
  rewrite relayout_members_cons, render_members_cons. rewrite render_ws_nl. destruct t as [|m' t'].
  - change (relayout_members n depth []) with (@nil (ws * list sitem * ws * ws * doc * ws)).
    cbn [last_ws members_tail map join_comma]. rewrite render_ws_nl. rewrite app_nil_r.
    rewrite member_line_eq. cbn [render_ws map wsc_byte app]. rewrite <- !app_assoc. reflexivity.
  - specialize (IH ltac:(discriminate)).
    pose proof (relayout_members_nonnil n depth m' t') as NN.
    destruct (relayout_members n depth (m' :: t')) as [|r0 rt] eqn:Er; [congruence|].
    unfold members_tail. rewrite IH. cbn [last_ws render_ws map wsc_byte app].
    rewrite join_comma_cons2. rewrite member_line_eq. rewrite <- !app_assoc. reflexivity. Qed.

Theorem relayout_arr_render : forall n depth w elems,
  render (relayout n depth (DArr w elems)) =
  match elems with
  | [] => B"[]"
  | _ => x5b :: join_comma (map (elem_line n depth) elems) ++ nl_bytes n depth ++ [x5d]
  end.
Proof using. intros n depth w elems. rewrite relayout_arr_eq. destruct elems as [|e t]; [reflexivity|].
  rewrite JsonRefProofs.render_arr_eq. pose proof (relayout_elems_nonnil n depth e t) as NN.
  destruct (relayout_elems n depth (e :: t)) as [|r0 rt] eqn:Er; [congruence|]. rewrite <- Er.
  rewrite (render_relayout_elems n depth (e :: t)) by discriminate. rewrite <- app_assoc. reflexivity. Qed.

Theorem relayout_obj_render : forall n depth w ms,
  render (relayout n depth (DObj w ms)) =
  match ms with
  | [] => B"{}"
  | _ => x7b :: join_comma (map (member_line n depth) ms) ++ nl_bytes n depth ++ [x7d]
  end.
Proof using. intros n depth w ms. rewrite relayout_obj_eq. destruct ms as [|m t]; [reflexivity|].
  rewrite JsonRefProofs.render_obj_eq. pose proof (relayout_members_nonnil n depth m t) as NN.
  destruct (relayout_members n depth (m :: t)) as [|r0 rt] eqn:Er; [congruence|]. rewrite <- Er.
  rewrite (render_relayout_members n depth (m :: t)) by discriminate. rewrite <- app_assoc. reflexivity. Qed.

(* readable corollary: "[" LF indent(depth+1) ... LF indent(depth) "]" *)
Corollary relayout_list_shape : forall n depth w elems, elems <> [] ->
  exists body, render (relayout n depth (DArr w elems)) = x5b :: nl_bytes n (S depth) ++ body ++ nl_bytes n depth ++ [x5d].
Proof using. intros n depth w elems Hne. rewrite relayout_arr_render. destruct elems as [|[[a x] b] t]; [congruence|].
  destruct t as [|e' t'].
  - exists (render (relayout n (S depth) x)). cbn [map join_comma]. rewrite elem_line_eq. rewrite <- !app_assoc. reflexivity.
  - exists (render (relayout n (S depth) x) ++ x2c :: join_comma (map (elem_line n depth) (e' :: t'))).
    cbn [map]. rewrite join_comma_cons2. rewrite elem_line_eq. rewrite <- !app_assoc. reflexivity. Qed.

Corollary relayout_empty_list : forall n depth w, render (relayout n depth (DArr w [])) = B"[]".
Proof using. reflexivity. Qed.
Corollary relayout_empty_obj : forall n depth w, render (relayout n depth (DObj w [])) = B"{}".
Proof using. reflexivity. Qed.

End Fmt.

(* a concrete run of the model: json.Indent(`[1,{"a":[]},"x"]`, "", "  ") *)
Example indent_example :
  indent_text 2 (B"[1,{""a"":[],""b"":{""c"":null}},""x""]") =
  B"[" ++ x0a :: B"  1," ++ x0a :: B"  {" ++ x0a :: B"    ""a"": []," ++ x0a :: B"    ""b"": {" ++ x0a ::
  B"      ""c"": null" ++ x0a :: B"    }" ++ x0a :: B"  }," ++ x0a :: B"  ""x""" ++ x0a :: B"]".
Proof. vm_compute. reflexivity. Qed.
