(* RunPure.v — correspondence runners for C07 (Equals), C14 (views), C17 (Sort/Reverse). *)
From Anytype Require Import Base FloatBits Value Equality Views Sorting FloatExec RunCommon.
Local Open Scope Z_scope.

(* ---------- C07 ---------- *)
Definition c07_model (a b : val) : bool * bool := (veq a b, veq b a).
Definition c07_check (c : val * val * bool * bool) : bool :=
  let '(a, b, ab, ba) := c in
  wfb a && wfb b && Bool.eqb (veq a b) ab && Bool.eqb (veq b a) ba.

(* ---------- C14: finite callback family, mirrored in the harness ---------- *)
Definition truthy (v : val) : bool :=
  match v with
  | VNil => false | VBool b => b | VInt z => 0 <? z | VFloat b => flt 0 b
  | VStr s => negb (match s with [] => true | _ => false end)
  | VList l => negb (match l with [] => true | _ => false end)
  | VObj kvs => negb (match kvs with [] => true | _ => false end)
  end.
Definition cb_map (v : val) : val := VList [VInt (kind_code (kind_of v)); v].
Definition cb_map_idx (i : nat) (v : val) : val := VList [VInt (Z.of_nat i); v].
Definition cb_map_key (k : bytes) (v : val) : val := VList [VStr k; v].
Definition cb_reduce_any (acc : val) (v : val) : val :=
  match acc with VList l => VList (l ++ [v]) | _ => VList [acc; v] end.
Definition cb_reduce_str (acc : val) (v : val) : val :=
  match acc, v with VStr a, VStr s => VStr (a ++ [x7c] ++ s) | _, _ => acc end.
Definition cb_reduce_int (acc : val) (v : val) : val :=
  match acc, v with VInt a, VInt z => VInt (wrap64 (wrap64 (a * 31) + z)) | _, _ => acc end.
Definition fhalf : Z := 4602678819172646912. (* 0.5 *)
Definition cb_reduce_float (acc : val) (v : val) : val :=
  match acc, v with VFloat a, VFloat z => VFloat (x_fadd (x_fmul a fhalf) z) | _, _ => acc end.

Definition kinds6 : list kind := [KObject; KList; KString; KBool; KInt; KFloat].
Definition bval (b : bool) : val := VBool b.
Definition pairs_val (l : list (nat * val)) : val := VList (map (fun p => VList [VInt (Z.of_nat (fst p)); snd p]) l).

Definition c14_list_model (l : list val) : list (bool * val) :=
  map (fun k => (false, VList (slice_k k l))) kinds6 ++
  map (fun k => (false, VList (foreach_k_log k l))) kinds6 ++
  map (fun k => (false, VList (map_k k cb_map l))) kinds6 ++
  map (fun k => (false, VList (filter_k k truthy l))) [KObject; KList; KString; KInt; KFloat] ++
  [ (false, reduce_k KString cb_reduce_str (VStr [x3e]) l);
    (false, reduce_k KInt cb_reduce_int (VInt 7) l);
    (false, reduce_k KFloat cb_reduce_float (VFloat fone) l) ] ++
  map (fun k => (false, bval (all_k k l))) kinds6 ++
  [ (false, bval (all_numeric l));
    (false, pairs_val (foreach_log l));
    (false, VList (foreach_value_log l));
    (false, VList (map_idx cb_map_idx l));
    (false, VList (map_values cb_map l));
    (false, VList (filter_any truthy l));
    (false, reduce_any cb_reduce_any (VList []) l);
    (false, reduce_any cb_reduce_any VNil l) ].

Definition kv_val (kv : bytes * val) : val := VList [VStr (fst kv); snd kv].
Definition c14_obj_model (kvs : list (bytes * val)) : list (bool * val) :=
  [ (true, VList (map kv_val (oforeach_log kvs)));
    (true, VList (map snd (oforeach_log kvs))) ] ++
  map (fun k => (true, VList (oforeach_k_log k kvs))) kinds6 ++
  [ (false, VObj (omap cb_map_key kvs));
    (false, VObj (omap (fun _ v => cb_map v) kvs)) ] ++
  map (fun k => (false, VObj (omap_k k cb_map kvs))) kinds6.

Definition c14_model (v : val) : list (bool * val) :=
  match v with VList l => c14_list_model l | VObj kvs => c14_obj_model kvs | _ => [] end.
Definition c14_check (c : val * list (bool * val)) : bool :=
  let '(v, obs) := c in wfb v && obs_list_eqb (c14_model v) obs.

(* ---------- C17 ---------- *)
Definition val_feq (a b : val) : bool :=
  match a, b with VFloat x, VFloat y => fkey x =? fkey y | _, _ => val_eqb a b end.
Definition c17_model (l : list val) : res (list val) * list val := (sort_model l, reverse_model l).
(* Sort results are compared pointwise up to the sign of zeros (sort.Float64s is not stable) and as bit-exact multisets *)
Definition c17_check (c : list val * res (list val) * list val) : bool :=
  let '(l, srt, rv) := c in
  match sort_model l, srt with
  | Ok m, Ok o => list_eqb val_feq m o && perm_eqb val_eqb m o
  | Panic, Panic => true
  | _, _ => false
  end && list_eqb val_eqb (reverse_model l) rv.
