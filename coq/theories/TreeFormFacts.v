(* TreeFormFacts.v — the theorems of TreeFormProofs.v with their two hypotheses about decimal rendering discharged. *)
From Anytype Require Import Base FloatBits Value GoInt GoIntProofs Heap TreeFormProofs.
Local Open Scope Z_scope.

Lemma itoa_digits_fact : forall n, 0 <= n -> itoa n <> [] /\ forallb (fun c => (48 <=? bZ c) && (bZ c <=? 57)) (itoa n) = true.
Proof. intros n Hn. unfold itoa. destruct (n <? 0) eqn:E; [lia|]. split; [apply digits_nonempty; exact Hn|].
  exact (digits_all_digits n Hn). Qed.

Definition tf_get_nav := get_tf_nav pint0_itoa itoa_digits_fact.
Definition tf_typeof_nav := typeof_tf_nav pint0_itoa itoa_digits_fact.
Definition tf_set_ok := set_tf_ok pint0_itoa itoa_digits_fact.
Definition tf_set_ok_acyclic := set_tf_ok_acyclic pint0_itoa itoa_digits_fact.
Definition tf_set_safe := set_tf_safe pint0_itoa itoa_digits_fact.
Definition tf_set_frame := set_tf_frame pint0_itoa itoa_digits_fact.
Definition tf_unset_nav := unset_tf_nav pint0_itoa itoa_digits_fact.
Definition tf_unset_ok := unset_tf_ok pint0_itoa itoa_digits_fact.
Definition tf_unset_frame := unset_tf_frame pint0_itoa itoa_digits_fact.
Definition tf_unset_absent := unset_tf_absent pint0_itoa itoa_digits_fact.
Definition tf_unset_oob := unset_tf_oob pint0_itoa itoa_digits_fact.
Definition tf_set_slot_frame := set_tf_slot_frame pint0_itoa itoa_digits_fact.
Definition tf_set_other_paths := set_tf_other_paths pint0_itoa itoa_digits_fact.
