(* GoInt.v — transcriptions of strconv.Itoa, strconv.ParseInt(s, 0, 64) and strconv.ParseBool. *)
From Anytype Require Import Base FloatBits.
Local Open Scope Z_scope.

(* ---------- Itoa ---------- *)
Definition digit_byte (d : Z) : byte := byte_of_Z (48 + d).
(* decimal digits of a non-negative number, most significant first; fuel = number of digits *)
Fixpoint digits_fuel (fuel : nat) (n : Z) (acc : bytes) : bytes :=
  match fuel with
  | O => acc
  | S f => let acc' := digit_byte (n mod 10) :: acc in
           if n / 10 =? 0 then acc' else digits_fuel f (n / 10) acc'
  end.
Definition digits (n : Z) : bytes := digits_fuel (S (Z.to_nat (Z.log2 (Z.max n 1)))) n [].
Definition itoa (z : Z) : bytes := if z <? 0 then x2d :: digits (- z) else digits z.

(* ---------- ParseUint / ParseInt, base 0, 64 bits ---------- *)
Definition lower (b : byte) : Z := Z.lor (bZ b) 32.
Definition max_u64 : Z := two64 - 1.

(* digit value of a character, None = not a digit in any base *)
Definition digit_val (c : byte) : option Z :=
  let z := bZ c in
  if (48 <=? z) && (z <=? 57) then Some (z - 48)
  else let lz := lower c in
       if (97 <=? lz) && (lz <=? 122) then Some (lz - 97 + 10) else None.

Inductive perr := ESyntax | ERange.

(* the digit loop: n accumulates; returns the value or the error kind *)
Fixpoint puint_loop (base : Z) (s : bytes) (n : Z) (us : bool) : (Z + perr) * bool :=
  match s with
  | [] => (inl n, us)
  | c :: t =>
      if byte_eqb c x5f (* '_' ; base0 is always true here *) then puint_loop base t n true
      else match digit_val c with
           | None => (inr ESyntax, us)
           | Some d =>
               if base <=? d then (inr ESyntax, us)
               else if max_u64 / base + 1 <=? n then (inr ERange, us)
               else let n1 := n * base + d in
                    if max_u64 <? n1 then (inr ERange, us) else puint_loop base t n1 us
           end
  end.

(* underscoreOK *)
Inductive uo_state := UoStart | UoDigit | UoUnder | UoOther.   (* '^' '0' '_' '!' *)
Fixpoint uo_loop (hex : bool) (s : bytes) (st : uo_state) : bool :=
  match s with
  | [] => match st with UoUnder => false | _ => true end
  | c :: t =>
      let z := bZ c in
      if ((48 <=? z) && (z <=? 57)) || (hex && (97 <=? lower c) && (lower c <=? 102)) then uo_loop hex t UoDigit
      else if byte_eqb c x5f then match st with UoDigit => uo_loop hex t UoUnder | _ => false end
      else match st with UoUnder => false | _ => uo_loop hex t UoOther end
  end.
Definition underscore_ok (s : bytes) : bool :=
  let s1 := match s with c :: t => if byte_eqb c x2d || byte_eqb c x2b then t else s | [] => s end in
  match s1 with
  | c0 :: c1 :: t =>
      if byte_eqb c0 x30 && ((lower c1 =? 98) || (lower c1 =? 111) || (lower c1 =? 120))
      then uo_loop (lower c1 =? 120) t UoDigit
      else uo_loop false s1 UoStart
  | _ => uo_loop false s1 UoStart
  end.

Definition parse_uint0 (s : bytes) : Z + perr :=
  match s with
  | [] => inr ESyntax
  | c0 :: rest =>
      let '(base, body) :=
        if byte_eqb c0 x30 then
          match rest with
          | c1 :: (_ :: _) as t =>
              if lower c1 =? 98 then (2, t) else if lower c1 =? 111 then (8, t) else if lower c1 =? 120 then (16, t) else (8, rest)
          | _ => (8, rest)
          end
        else (10, s) in
      match puint_loop base body 0 false with
      | (inr e, _) => inr e
      | (inl n, us) => if us && negb (underscore_ok s) then inr ESyntax else inl n
      end
  end.

(* strconv.ParseInt(s, 0, 64): Some value, or None on any error (syntax or range) *)
Definition pint0 (s : bytes) : option Z :=
  match s with
  | [] => None
  | c :: t =>
      let '(neg, body) := if byte_eqb c x2b then (false, t) else if byte_eqb c x2d then (true, t) else (false, s) in
      match parse_uint0 body with
      | inr _ => None
      | inl un =>
          if negb neg && (two63 <=? un) then None
          else if neg && (two63 <? un) then None
          else Some (if neg then - un else un)
      end
  end.

(* ---------- ParseBool ---------- *)
Definition pbool (s : bytes) : option bool :=
  if existsb (bytes_eqb s) [B"1"; B"t"; B"T"; B"true"; B"TRUE"; B"True"] then Some true
  else if existsb (bytes_eqb s) [B"0"; B"f"; B"F"; B"false"; B"FALSE"; B"False"] then Some false
  else None.
