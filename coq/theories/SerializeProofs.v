(* SerializeProofs.v — what the serializer writes IS the rendering of a well-formed JSON derivation whose meaning is the value. *)
From Anytype Require Import Base FloatBits Value GoInt GoIntProofs Utf8 Utf8Proofs GoUnquote Json JsonDoc.
From Coq Require Import ZifyBool.
Local Open Scope Z_scope.
Ltac Zify.zify_post_hook ::= Z.div_mod_to_equations.

#[local] Arguments quote_loop : simpl never.
#[local] Arguments sitems_of : simpl never.
#[local] Arguments decode_rune : simpl never.
#[local] Arguments encode_rune : simpl never.

Section Ser.
Variable fmt_e fmt_f : Z -> bytes.
Variable pfloat : bytes -> option Z.
Notation ser := (ser fmt_e fmt_f).
Notation ser_float := (ser_float fmt_e fmt_f).
(* the float-text contract (validated at run time against Go for every float the checks meet) *)
Hypothesis F2 : forall b, is_finite b = true -> fbits_ok b = true -> exists n, parse_num_text (ser_float b) = Some n.
Hypothesis F1 : forall b, is_finite b = true -> fbits_ok b = true -> pfloat (ser_float b) = Some b.
Hypothesis F4 : forall b, is_finite b = true -> fbits_ok b = true -> pint0 (ser_float b) = None.

(* lemmas that do not need the float contract drop it (lia would otherwise capture the whole context) *)
Ltac generic := clear F1 F2 F4; try clear pfloat; try clear fmt_e; try clear fmt_f.

(* the domain: ints in range, floats finite, strings and keys valid UTF-8, keys distinct *)
Fixpoint val_ok (v : val) : bool :=
  match v with
  | VInt z => in_int64 z
  | VFloat b => fbits_ok b && is_finite b
  | VStr s => utf8_valid s
  | VList l => forallb val_ok l
  | VObj kvs => nodupb (map fst kvs) && forallb (fun kv => utf8_valid (fst kv) && val_ok (snd kv)) kvs
  | _ => true
  end.

(* ================= (S1) quote = render_string of the canonical items ================= *)

Lemma quote_rune_render : forall r, quote_rune r = render_sitem (sitem_of_rune r).
Proof using. generic. intros r. unfold quote_rune, sitem_of_rune.
  destruct (r =? 34); [reflexivity|]. destruct (r =? 92); [reflexivity|].
  destruct (r =? 8); [reflexivity|]. destruct (r =? 12); [reflexivity|].
  destruct (r =? 10); [reflexivity|]. destruct (r =? 13); [reflexivity|].
  destruct (r =? 9); [reflexivity|]. destruct (r <? 32); reflexivity. Qed.

Lemma quote_loop_S : forall f s, s <> [] ->
  quote_loop (S f) s = quote_rune (fst (decode_rune s)) ++ quote_loop f (skipn (snd (decode_rune s)) s).
Proof using. generic. intros f s Hs. destruct s as [|b t]; [congruence|].
  unfold quote_loop at 1. fold quote_loop. destruct (decode_rune (b :: t)) as [r n]. reflexivity. Qed.

Lemma sitems_of_S : forall f s, s <> [] ->
  sitems_of (S f) s = sitem_of_rune (fst (decode_rune s)) :: sitems_of f (skipn (snd (decode_rune s)) s).
Proof using. generic. intros f s Hs. destruct s as [|b t]; [congruence|].
  unfold sitems_of at 1. fold sitems_of. destruct (decode_rune (b :: t)) as [r n]. reflexivity. Qed.

Lemma quote_loop_nil : forall f, quote_loop f [] = [].
Proof using. generic. intros [|f]; reflexivity. Qed.
Lemma sitems_of_nil : forall f, sitems_of f [] = [].
Proof using. generic. intros [|f]; reflexivity. Qed.

Lemma quote_loop_render : forall fuel s, quote_loop fuel s = flat_map render_sitem (sitems_of fuel s).
Proof using. generic. induction fuel as [|f IH]; intros s; [reflexivity|].
  destruct s as [|b t]; [reflexivity|].
  rewrite quote_loop_S by discriminate. rewrite sitems_of_S by discriminate.
  cbn [flat_map]. rewrite quote_rune_render, IH. reflexivity. Qed.

Lemma quote_render : forall s, quote s = render_string (sitems_of (length s) s).
Proof using. generic. intros s. unfold quote, render_string. rewrite quote_loop_render. reflexivity. Qed.

(* ================= (S2) the canonical items of a valid UTF-8 string ================= *)

Lemma sitem_of_rune_ok : forall r, valid_rune r = true ->
  sitem_ok (sitem_of_rune r) = true /\ denote_sitem (sitem_of_rune r) = Some (encode_rune r) /\
  (forall h, sitem_of_rune r <> SLone h).
Proof using. generic. intros r V. pose proof (valid_rune_range r V) as R. unfold sitem_of_rune.
  destruct (r =? 34) eqn:E1; [apply Z.eqb_eq in E1; subst r; split; [reflexivity|split; [reflexivity|discriminate]]|].
  destruct (r =? 92) eqn:E2; [apply Z.eqb_eq in E2; subst r; split; [reflexivity|split; [reflexivity|discriminate]]|].
  destruct (r =? 8) eqn:E3; [apply Z.eqb_eq in E3; subst r; split; [reflexivity|split; [reflexivity|discriminate]]|].
  destruct (r =? 12) eqn:E4; [apply Z.eqb_eq in E4; subst r; split; [reflexivity|split; [reflexivity|discriminate]]|].
  destruct (r =? 10) eqn:E5; [apply Z.eqb_eq in E5; subst r; split; [reflexivity|split; [reflexivity|discriminate]]|].
  destruct (r =? 13) eqn:E6; [apply Z.eqb_eq in E6; subst r; split; [reflexivity|split; [reflexivity|discriminate]]|].
  destruct (r =? 9) eqn:E7; [apply Z.eqb_eq in E7; subst r; split; [reflexivity|split; [reflexivity|discriminate]]|].
  destruct (r <? 32) eqn:E8.
  - assert (HV : hex4_val (mkHex 0 false, mkHex 0 false, mkHex (r / 16) false, mkHex (r mod 16) false) = r)
      by (unfold hex4_val; cbn [hv]; lia).
    split; [|split; [|discriminate]].
    + unfold sitem_ok. rewrite HV. unfold hex4_ok, hexd_ok, is_high, is_low. cbn [hv]. lia.
    + unfold denote_sitem. rewrite HV. reflexivity.
  - split; [|split; [reflexivity|discriminate]].
    unfold sitem_ok. rewrite V. lia. Qed.

Lemma sitems_ok_cons : forall i t, (forall h, i <> SLone h) -> sitems_ok (i :: t) = sitem_ok i && sitems_ok t.
Proof using. generic. intros i t H. cbn [sitems_ok]. destruct i as [r|e|h|hi lo|h]; try (rewrite andb_true_r; reflexivity).
  exfalso. exact (H h eq_refl). Qed.

Lemma sitems_of_ok_fuel : forall s, utf8_valid s = true -> forall fuel, (length s <= fuel)%nat ->
  sitems_ok (sitems_of fuel s) = true /\ denote_string (sitems_of fuel s) = Some s.
Proof using. generic. apply (utf8_valid_ind (fun s => forall fuel, (length s <= fuel)%nat ->
    sitems_ok (sitems_of fuel s) = true /\ denote_string (sitems_of fuel s) = Some s)).
  - intros fuel _. rewrite sitems_of_nil. split; reflexivity.
  - intros r s V Hs IH fuel L. pose proof (encode_rune_length r) as EL. rewrite app_length in L.
    assert (N : encode_rune r ++ s <> []).
    { intros E. apply app_eq_nil in E. destruct E as [E _]. exact (encode_rune_nonnil r E). }
    destruct fuel as [|f]; [lia|].
    rewrite sitems_of_S by exact N. rewrite (decode_encode r s V). cbn [fst snd]. rewrite skipn_length_app.
    destruct (sitem_of_rune_ok r V) as [O [D NL]].
    destruct (IH f) as [IH1 IH2]; [lia|].
    split.
    + rewrite sitems_ok_cons by exact NL. rewrite O, IH1. reflexivity.
    + cbn [denote_string]. rewrite D, IH2. reflexivity. Qed.

Lemma sitems_of_ok : forall s, utf8_valid s = true ->
  sitems_ok (sitems_of (length s) s) = true /\ denote_string (sitems_of (length s) s) = Some s.
Proof using. generic. intros s H. apply sitems_of_ok_fuel; [exact H|lia]. Qed.

(* ================= (S3) number texts ================= *)

Definition split_sign (s : bytes) : bool * bytes :=
  match s with c :: t => if byte_eqb c x2d then (true, t) else (false, s) | [] => (false, s) end.
Definition split_frac (s2 : bytes) : option bytes * bytes :=
  match s2 with
  | c :: t => if byte_eqb c x2e then let '(f, r) := span_digits t in (Some f, r) else (None, s2)
  | [] => (None, s2) end.
Definition split_esign (t : bytes) : esign * bytes :=
  match t with
  | g :: u => if byte_eqb g x2b then (SgPlus, u) else if byte_eqb g x2d then (SgMinus, u) else (SgNone, t)
  | [] => (SgNone, t) end.
Definition split_exp (s3 : bytes) : option (bool * esign * bytes) * bytes :=
  match s3 with
  | c :: t => if byte_eqb c x65 || byte_eqb c x45 then
                let '(sg, t') := split_esign t in
                let '(e, r) := span_digits t' in (Some (byte_eqb c x45, sg, e), r)
              else (None, s3)
  | [] => (None, s3) end.

Lemma parse_num_text_eq : forall s, parse_num_text s =
  let '(neg, s1) := split_sign s in
  let '(ip, s2) := span_digits s1 in
  let '(fr, s3) := split_frac s2 in
  let '(ex, s4) := split_exp s3 in
  match s4 with
  | [] => let n := mkNum neg ip fr ex in if jnum_ok n then Some n else None
  | _ => None
  end.
Proof using. generic. intros s. reflexivity. Qed.

Lemma span_digits_app : forall s d r, span_digits s = (d, r) -> s = d ++ r.
Proof using. generic. induction s as [|c t IH]; intros d r H.
  - cbn [span_digits] in H. injection H as <- <-. reflexivity.
  - cbn [span_digits] in H. destruct (is_digit c).
    + destruct (span_digits t) as [d' r'] eqn:E. injection H as <- <-. cbn [app]. f_equal. apply IH. reflexivity.
    + injection H as <- <-. reflexivity. Qed.

Lemma split_sign_app : forall s neg s1, split_sign s = (neg, s1) -> s = (if neg then [x2d] else []) ++ s1.
Proof using. generic. intros s neg s1 H. unfold split_sign in H. destruct s as [|c t].
  - injection H as <- <-. reflexivity.
  - destruct (byte_eqb c x2d) eqn:E.
    + injection H as <- <-. apply byte_eqb_eq in E. subst c. reflexivity.
    + injection H as <- <-. reflexivity. Qed.

Definition frac_text (fr : option bytes) : bytes := match fr with Some f => x2e :: f | None => [] end.
Definition exp_text (ex : option (bool * esign * bytes)) : bytes :=
  match ex with
  | Some (up, sg, e) => (if up then x45 else x65) :: match sg with SgNone => [] | SgPlus => [x2b] | SgMinus => [x2d] end ++ e
  | None => []
  end.

Lemma render_num_eq : forall n, render_num n = (if n_neg n then [x2d] else []) ++ n_int n ++ frac_text (n_frac n) ++ exp_text (n_exp n).
Proof using. generic. intros n. reflexivity. Qed.

Lemma split_frac_app : forall s fr r, split_frac s = (fr, r) -> s = frac_text fr ++ r.
Proof using. generic. intros s fr r H. unfold split_frac in H. destruct s as [|c t].
  - injection H as <- <-. reflexivity.
  - destruct (byte_eqb c x2e) eqn:E.
    + destruct (span_digits t) as [f r'] eqn:E2. injection H as <- <-. apply byte_eqb_eq in E. subst c.
      cbn [frac_text app]. f_equal. apply span_digits_app. exact E2.
    + injection H as <- <-. reflexivity. Qed.

Lemma split_esign_app : forall t sg u, split_esign t = (sg, u) ->
  t = match sg with SgNone => [] | SgPlus => [x2b] | SgMinus => [x2d] end ++ u.
Proof using. generic. intros t sg u H. unfold split_esign in H. destruct t as [|g w].
  - injection H as <- <-. reflexivity.
  - destruct (byte_eqb g x2b) eqn:E1.
    + injection H as <- <-. apply byte_eqb_eq in E1. subst g. reflexivity.
    + destruct (byte_eqb g x2d) eqn:E2.
      * injection H as <- <-. apply byte_eqb_eq in E2. subst g. reflexivity.
      * injection H as <- <-. reflexivity. Qed.

Lemma split_exp_app : forall s ex r, split_exp s = (ex, r) -> s = exp_text ex ++ r.
Proof using. generic. intros s ex r H. unfold split_exp in H. destruct s as [|c t].
  - injection H as <- <-. reflexivity.
  - destruct (byte_eqb c x65 || byte_eqb c x45) eqn:E.
    + destruct (split_esign t) as [sg t'] eqn:E2. destruct (span_digits t') as [e r'] eqn:E3.
      injection H as <- <-. cbn [exp_text].
      apply split_esign_app in E2. apply span_digits_app in E3. subst t t'.
      rewrite <- app_comm_cons. rewrite <- app_assoc. f_equal.
      destruct (byte_eqb c x45) eqn:E45.
      * apply byte_eqb_eq in E45. exact E45.
      * rewrite orb_false_r in E. apply byte_eqb_eq in E. exact E.
    + injection H as <- <-. reflexivity. Qed.

Lemma parse_num_text_render : forall s n, parse_num_text s = Some n -> render_num n = s /\ jnum_ok n = true.
Proof using. generic. intros s n H. rewrite parse_num_text_eq in H.
  destruct (split_sign s) as [neg s1] eqn:E1.
  destruct (span_digits s1) as [ip s2] eqn:E2.
  destruct (split_frac s2) as [fr s3] eqn:E3.
  destruct (split_exp s3) as [ex s4] eqn:E4.
  destruct s4 as [|c4 t4]; [|discriminate H].
  cbv zeta in H. destruct (jnum_ok (mkNum neg ip fr ex)) eqn:J; [|discriminate H].
  injection H as <-. split; [|exact J].
  rewrite render_num_eq. cbn [n_neg n_int n_frac n_exp].
  apply split_sign_app in E1. apply span_digits_app in E2. apply split_frac_app in E3. apply split_exp_app in E4.
  subst s s1 s2 s3. rewrite app_nil_r. reflexivity. Qed.

(* ================= (S4) integer texts ================= *)

Lemma span_digits_all : forall d, forallb is_digit d = true -> span_digits d = (d, []).
Proof using. generic. induction d as [|c t IH]; intros H; [reflexivity|].
  cbn [forallb] in H. apply andb_true_iff in H. destruct H as [Hc Ht].
  cbn [span_digits]. rewrite Hc. rewrite (IH Ht). reflexivity. Qed.

Lemma is_digit_not_minus : forall c, is_digit c = true -> byte_eqb c x2d = false.
Proof using. generic. intros c H. apply byte_eqb_neq. intros ->. vm_compute in H. discriminate H. Qed.

Lemma int_part_ok_inv : forall d, int_part_ok d = true ->
  exists c t, d = c :: t /\ is_digit c = true /\ forallb is_digit d = true /\ (t <> [] -> c <> x30).
Proof using. generic. intros d H. unfold int_part_ok, digits_ok in H. destruct d as [|c t]; [discriminate H|].
  apply andb_true_iff in H. destruct H as [H1 H2].
  exists c, t. split; [reflexivity|]. split.
  - cbn [forallb] in H1. apply andb_true_iff in H1. tauto.
  - split; [exact H1|]. intros Ht. destruct t as [|c1 t1]; [congruence|].
    apply negb_true_iff in H2. apply byte_eqb_neq in H2. exact H2. Qed.

(* the text of an integer literal parses to its parts *)
Lemma parse_num_text_int : forall (neg : bool) d, int_part_ok d = true ->
  parse_num_text ((if neg then [x2d] else []) ++ d) = Some (mkNum neg d None None).
Proof using. generic. intros neg d H. destruct (int_part_ok_inv d H) as [c [t [-> [Hc [Hall _]]]]].
  rewrite parse_num_text_eq.
  assert (E1 : split_sign ((if neg then [x2d] else []) ++ c :: t) = (neg, c :: t)).
  { destruct neg; [reflexivity|]. cbn [app]. unfold split_sign. rewrite (is_digit_not_minus c Hc). reflexivity. }
  rewrite E1. rewrite (span_digits_all _ Hall).
  change (split_frac []) with (@None bytes, @nil byte). cbv beta iota.
  change (split_exp []) with (@None (bool * esign * bytes), @nil byte). cbv zeta beta iota.
  assert (J : jnum_ok (mkNum neg (c :: t) None None) = true).
  { unfold jnum_ok. cbn [n_int n_frac n_exp]. rewrite H. reflexivity. }
  rewrite J. reflexivity. Qed.

Lemma digits_value_fuel : forall fuel n acc, 0 <= n -> n < 2 ^ Z.of_nat fuel ->
  digits_value (digits_fuel fuel n acc) 0 = digits_value acc n.
Proof using. generic. induction fuel as [|f IH]; intros n acc Hn Hlt.
  - change (2 ^ Z.of_nat 0) with 1 in Hlt. assert (n = 0) by lia. subst n. reflexivity.
  - rewrite pow2_succ_nat in Hlt. cbn [digits_fuel].
    assert (Hd : bZ (digit_byte (n mod 10)) - 48 = n mod 10) by (rewrite bZ_digit_byte; lia).
    destruct (n / 10 =? 0) eqn:E.
    + cbn [digits_value]. rewrite Hd. f_equal. lia.
    + rewrite IH by lia. cbn [digits_value]. rewrite Hd. f_equal. lia. Qed.

Lemma digits_value_digits : forall n, 0 <= n -> digits_value (digits n) 0 = n.
Proof using. generic. intros n Hn. unfold digits. rewrite digits_value_fuel; [reflexivity|exact Hn|].
  apply digits_fuel_ok. exact Hn. Qed.

Lemma int_part_ok_digits : forall m, 0 <= m -> int_part_ok (digits m) = true.
Proof using. generic. intros m Hm. pose proof (digits_all_digits m Hm) as A.
  change GoIntProofs.is_digit with is_digit in A.
  assert (C : m = 0 \/ 0 < m) by lia. destruct C as [-> | Hpos].
  - rewrite digits_zero. reflexivity.
  - destruct (digits_no_leading_zero m Hpos) as [c [t [E Hc]]]. rewrite E in *.
    unfold int_part_ok, digits_ok. rewrite A. cbn [andb].
    destruct t as [|c1 t1]; [reflexivity|].
    apply negb_true_iff. apply byte_eqb_neq. intros ->. apply Hc. reflexivity. Qed.

Lemma itoa_num : forall z, in_int64 z = true -> exists n, parse_num_text (itoa z) = Some n /\ n_frac n = None /\ n_exp n = None /\
  (if n_neg n then - digits_value (n_int n) 0 else digits_value (n_int n) 0) = z.
Proof using. generic. intros z Hz. unfold itoa. destruct (z <? 0) eqn:E.
  - exists (mkNum true (digits (- z)) None None). split; [|split; [reflexivity|split; [reflexivity|]]].
    + apply (parse_num_text_int true). apply int_part_ok_digits. lia.
    + cbn [n_neg n_int]. rewrite digits_value_digits by lia. lia.
  - exists (mkNum false (digits z) None None). split; [|split; [reflexivity|split; [reflexivity|]]].
    + apply (parse_num_text_int false). apply int_part_ok_digits. lia.
    + cbn [n_neg n_int]. rewrite digits_value_digits by lia. reflexivity. Qed.

(* ================= (S5) the serializer writes the rendering of the canonical derivation ================= *)

Fixpoint join_comma (l : list bytes) : bytes :=
  match l with
  | [] => []
  | [x] => x
  | x :: t => x ++ x2c :: join_comma t
  end.

Lemma join_comma_cons2 : forall x y t, join_comma (x :: y :: t) = x ++ x2c :: join_comma (y :: t).
Proof using. generic. reflexivity. Qed.

Lemma ser_list_eq : forall l, ser (VList l) = x5b :: join_comma (map ser l) ++ [x5d].
Proof using. generic. intros l. cbn [Json.ser]. f_equal. f_equal.
  induction l as [|x t IH]; [reflexivity|].
  destruct t as [|y t']; [reflexivity|].
  rewrite IH. reflexivity. Qed.

Lemma ser_obj_eq : forall kvs,
  ser (VObj kvs) = x7b :: join_comma (map (fun kv => quote (fst kv) ++ x3a :: ser (snd kv)) kvs) ++ [x7d].
Proof using. generic. intros kvs. cbn [Json.ser]. f_equal. f_equal.
  induction kvs as [|[k x] t IH]; [reflexivity|].
  destruct t as [|[k1 x1] t']; [reflexivity|].
  rewrite IH. cbn [map]. rewrite join_comma_cons2. cbn [fst snd].
  rewrite <- app_assoc. reflexivity. Qed.

Lemma render_arr_go : forall (f : val -> doc) l,
  (fix go (l : list (ws * doc * ws)) : bytes :=
     match l with
     | [] => []
     | [(a, x, b)] => render_ws a ++ render x ++ render_ws b
     | (a, x, b) :: t => render_ws a ++ render x ++ render_ws b ++ x2c :: go t
     end) (map (fun x => ([], f x, [])) l) = join_comma (map (fun x => render (f x)) l).
Proof using. generic. intros f. induction l as [|x t IH]; [reflexivity|].
  destruct t as [|y t'].
  - cbn [map join_comma render_ws app]. apply app_nil_r.
  - change (join_comma (map (fun x0 => render (f x0)) (x :: y :: t'))) with
      (render (f x) ++ x2c :: join_comma (map (fun x0 => render (f x0)) (y :: t'))).
    rewrite <- IH. reflexivity. Qed.

Lemma render_arr_eq : forall (f : val -> doc) l,
  render (DArr [] (map (fun x => ([], f x, [])) l)) = x5b :: join_comma (map (fun x => render (f x)) l) ++ [x5d].
Proof using. generic. intros f l. cbn [render]. f_equal. f_equal.
  destruct l as [|x t]; [reflexivity|].
  rewrite <- render_arr_go. reflexivity. Qed.

Lemma render_obj_go : forall (g : bytes -> list sitem) (f : val -> doc) l,
  (fix go (l : list (ws * list sitem * ws * ws * doc * ws)) : bytes :=
     match l with
     | [] => []
     | [(a, k, b, c, x, e)] => render_ws a ++ render_string k ++ render_ws b ++ x3a :: render_ws c ++ render x ++ render_ws e
     | (a, k, b, c, x, e) :: t =>
         render_ws a ++ render_string k ++ render_ws b ++ x3a :: render_ws c ++ render x ++ render_ws e ++ x2c :: go t
     end) (map (fun kv : bytes * val => ([], g (fst kv), [], [], f (snd kv), [])) l)
  = join_comma (map (fun kv => render_string (g (fst kv)) ++ x3a :: render (f (snd kv))) l).
Proof using. generic. intros g f. induction l as [|x t IH]; [reflexivity|].
  destruct t as [|y t'].
  - cbn [map join_comma render_ws app]. rewrite app_nil_r. reflexivity.
  - change (join_comma (map (fun kv : bytes * val => render_string (g (fst kv)) ++ x3a :: render (f (snd kv))) (x :: y :: t'))) with
      ((render_string (g (fst x)) ++ x3a :: render (f (snd x))) ++ x2c ::
       join_comma (map (fun kv : bytes * val => render_string (g (fst kv)) ++ x3a :: render (f (snd kv))) (y :: t'))).
    rewrite <- IH. rewrite <- app_assoc. reflexivity. Qed.

Lemma render_obj_eq : forall (g : bytes -> list sitem) (f : val -> doc) l,
  render (DObj [] (map (fun kv : bytes * val => ([], g (fst kv), [], [], f (snd kv), [])) l))
  = x7b :: join_comma (map (fun kv => render_string (g (fst kv)) ++ x3a :: render (f (snd kv))) l) ++ [x7d].
Proof using. generic. intros g f l. cbn [render]. f_equal. f_equal.
  destruct l as [|x t]; [reflexivity|].
  rewrite <- render_obj_go. reflexivity. Qed.

Theorem ser_render : forall v, val_ok v = true -> ser v = render (doc_of ser v) /\ doc_ok (doc_of ser v) = true.
Proof using F2. induction v as [ | b | z | b | s | l IHl | kvs IHk ] using val_ind'; intros Hok.
  - split; reflexivity.
  - destruct b; split; reflexivity.
  - cbn [val_ok] in Hok. destruct (itoa_num z Hok) as [n [P _]].
    cbn [doc_of Json.ser]. rewrite P. cbn [render doc_ok].
    destruct (parse_num_text_render _ _ P) as [R J]. split; [symmetry; exact R|exact J].
  - cbn [val_ok] in Hok. apply andb_true_iff in Hok. destruct Hok as [Hb Hf].
    destruct (F2 b Hf Hb) as [n P].
    cbn [doc_of Json.ser]. rewrite P. cbn [render doc_ok].
    destruct (parse_num_text_render _ _ P) as [R J]. split; [symmetry; exact R|exact J].
  - cbn [val_ok] in Hok. cbn [doc_of Json.ser render doc_ok].
    split; [apply quote_render|apply sitems_of_ok; exact Hok].
  - cbn [val_ok] in Hok.
    assert (A : forall x, In x l -> ser x = render (doc_of ser x) /\ doc_ok (doc_of ser x) = true).
    { intros x Hx. rewrite Forall_forall in IHl. rewrite forallb_forall in Hok.
      apply IHl; [exact Hx|apply Hok; exact Hx]. }
    cbn [doc_of]. rewrite ser_list_eq, render_arr_eq. split.
    + rewrite (map_ext_in ser (fun x => render (doc_of ser x)) l); [reflexivity|].
      intros a Ha. apply A. exact Ha.
    + cbn [doc_ok]. rewrite forallb_forall. intros e He. apply in_map_iff in He.
      destruct He as [x [<- Hx]]. cbn [fst snd]. apply A. exact Hx.
  - cbn [val_ok] in Hok. apply andb_true_iff in Hok. destruct Hok as [_ Hok].
    assert (A : forall kv, In kv kvs -> utf8_valid (fst kv) = true /\
                ser (snd kv) = render (doc_of ser (snd kv)) /\ doc_ok (doc_of ser (snd kv)) = true).
    { intros kv Hkv. rewrite Forall_forall in IHk. rewrite forallb_forall in Hok.
      specialize (Hok kv Hkv). cbv beta in Hok. apply andb_true_iff in Hok. destruct Hok as [H1 H2].
      split; [exact H1|]. apply (IHk kv Hkv). exact H2. }
    rewrite ser_obj_eq.
    assert (R : render (doc_of ser (VObj kvs)) =
                x7b :: join_comma (map (fun kv : bytes * val =>
                   render_string (sitems_of (length (fst kv)) (fst kv)) ++ x3a :: render (doc_of ser (snd kv))) kvs) ++ [x7d])
      by exact (render_obj_eq (fun k => sitems_of (length k) k) (doc_of ser) kvs).
    rewrite R. clear R. cbn [doc_of]. split.
    + rewrite (map_ext_in (fun kv : bytes * val => quote (fst kv) ++ x3a :: ser (snd kv))
                 (fun kv : bytes * val => render_string (sitems_of (length (fst kv)) (fst kv)) ++ x3a :: render (doc_of ser (snd kv))) kvs);
        [reflexivity|].
      intros kv Hkv. cbv beta. rewrite quote_render. destruct (A kv Hkv) as [_ [E _]]. rewrite <- E. reflexivity.
    + cbn [doc_ok]. rewrite forallb_forall. intros e He. apply in_map_iff in He.
      destruct He as [kv [<- Hkv]]. cbv beta iota.
      destruct (A kv Hkv) as [U [_ D]]. apply andb_true_iff. split; [|exact D].
      apply sitems_of_ok. exact U. Qed.

(* ================= (S6) the canonical derivation denotes the value ================= *)

Lemma is_digit_range : forall c, is_digit c = true -> 48 <= bZ c <= 57.
Proof using. generic. intros c H. unfold is_digit in H. lia. Qed.

Lemma digits_value_mono : forall d acc, forallb is_digit d = true -> 0 <= acc -> acc <= digits_value d acc.
Proof using. generic. induction d as [|c t IH]; intros acc H Hacc; cbn [digits_value]; [lia|].
  cbn [forallb] in H. apply andb_true_iff in H. destruct H as [Hc Ht]. apply is_digit_range in Hc.
  specialize (IH (acc * 10 + (bZ c - 48)) Ht). lia. Qed.

Lemma puint_loop_literal : forall d acc, forallb is_digit d = true -> 0 <= acc -> digits_value d acc <= max_u64 ->
  puint_loop 10 d acc false = (inl (digits_value d acc), false).
Proof using. generic. induction d as [|c t IH]; intros acc H Hacc Hle; [reflexivity|].
  cbn [forallb] in H. apply andb_true_iff in H. destruct H as [Hc Ht]. cbn [digits_value] in Hle |- *.
  pose proof (is_digit_range c Hc) as Rc.
  pose proof (digits_value_mono t (acc * 10 + (bZ c - 48)) Ht) as M.
  rewrite puint_loop_digit; [|exact Hc|exact Hacc|lia].
  apply IH; [exact Ht|lia|exact Hle]. Qed.

Lemma parse_uint0_literal : forall d, int_part_ok d = true -> digits_value d 0 <= max_u64 ->
  parse_uint0 d = inl (digits_value d 0).
Proof using. generic. intros d H Hle. destruct (int_part_ok_inv d H) as [c [t [-> [Hc [Hall Hnz]]]]].
  destruct (byte_eqb c x30) eqn:E0.
  - apply byte_eqb_eq in E0. subst c. destruct t as [|c1 t1]; [vm_compute; reflexivity|].
    exfalso. apply Hnz; [discriminate|reflexivity].
  - pose proof (puint_loop_literal (c :: t) 0 Hall (Z.le_refl 0) Hle) as Hl.
    unfold parse_uint0. rewrite E0. cbv beta iota. rewrite Hl. reflexivity. Qed.

(* an integer literal (no fraction, no exponent) that fits int64 is accepted by ParseInt *)
Lemma pint0_int_literal : forall (neg : bool) d, int_part_ok d = true ->
  in_int64 (if neg then - digits_value d 0 else digits_value d 0) = true ->
  pint0 ((if neg then [x2d] else []) ++ d) = Some (if neg then - digits_value d 0 else digits_value d 0).
Proof using. generic. intros neg d H Hin. destruct (int_part_ok_inv d H) as [c [t [E [Hc [Hall _]]]]].
  pose proof (digits_value_mono d 0 Hall (Z.le_refl 0)) as M.
  unfold in_int64, min_int, max_int, two63 in Hin.
  assert (Hu : parse_uint0 d = inl (digits_value d 0)).
  { apply parse_uint0_literal; [exact H|]. unfold max_u64, two64. destruct neg; lia. }
  destruct neg.
  - cbn [app]. unfold pint0.
    change (byte_eqb x2d x2b) with false. change (byte_eqb x2d x2d) with true.
    cbv beta iota. rewrite Hu. cbv beta iota.
    assert (E3 : (two63 <? digits_value d 0) = false) by (unfold two63; lia).
    rewrite E3. reflexivity.
  - cbn [app]. rewrite E in *. unfold pint0.
    assert (E1 : byte_eqb c x2b = false).
    { apply byte_eqb_neq. intros ->. vm_compute in Hc. discriminate Hc. }
    assert (E2 : byte_eqb c x2d = false).
    { apply byte_eqb_neq. intros ->. vm_compute in Hc. discriminate Hc. }
    rewrite E1, E2. cbv beta iota. rewrite Hu. cbv beta iota.
    assert (E3 : (two63 <=? digits_value (c :: t) 0) = false) by (unfold two63; lia).
    rewrite E3. reflexivity. Qed.

Lemma jnum_ok_int : forall n, jnum_ok n = true -> int_part_ok (n_int n) = true.
Proof using. generic. intros n H. unfold jnum_ok in H. apply andb_true_iff in H. destruct H as [H _].
  apply andb_true_iff in H. destruct H as [H _]. exact H. Qed.

Lemma denote_num_float : forall b n, is_finite b = true -> fbits_ok b = true ->
  parse_num_text (ser_float b) = Some n -> denote_num pfloat n = Some (VFloat b).
Proof using F1 F4. intros b n Hf Hb P. destruct (parse_num_text_render _ _ P) as [R J].
  unfold denote_num. cbv zeta. rewrite R. rewrite (F1 b Hf Hb).
  destruct (n_frac n) as [fr|] eqn:Efr; [reflexivity|].
  destruct (n_exp n) as [ex|] eqn:Eex; [reflexivity|].
  destruct (in_int64 (if n_neg n then - digits_value (n_int n) 0 else digits_value (n_int n) 0)) eqn:I; [|reflexivity].
  exfalso. pose proof (pint0_int_literal (n_neg n) (n_int n) (jnum_ok_int n J) I) as K.
  rewrite render_num_eq in R. rewrite Efr, Eex in R. cbn [frac_text exp_text] in R. rewrite !app_nil_r in R.
  rewrite R in K. rewrite (F4 b Hf Hb) in K. discriminate K. Qed.

Fixpoint denote_elems (l : list (ws * doc * ws)) : option (list val) :=
  match l with
  | [] => Some []
  | (_, x, _) :: t => match denote pfloat x, denote_elems t with Some v, Some vs => Some (v :: vs) | _, _ => None end
  end.

Lemma denote_arr_eq : forall w elems,
  denote pfloat (DArr w elems) = match denote_elems elems with Some vs => Some (VList vs) | None => None end.
Proof using. generic. intros w elems. cbn [denote].
  match goal with |- match ?a with Some _ => _ | None => _ end = _ => assert (E : a = denote_elems elems) end.
  { induction elems as [|[[a x] b] t IH]; [reflexivity|].
    cbn [denote_elems]. rewrite <- IH. reflexivity. }
  rewrite E. reflexivity. Qed.

Fixpoint denote_members (l : list (ws * list sitem * ws * ws * doc * ws)) (acc : list (bytes * val)) : option (list (bytes * val)) :=
  match l with
  | [] => Some acc
  | (_, k, _, _, x, _) :: t =>
      match denote_string k, denote pfloat x with Some kb, Some v => denote_members t (aset kb v acc) | _, _ => None end
  end.

Lemma denote_obj_eq : forall w members,
  denote pfloat (DObj w members) = match denote_members members [] with Some kvs => Some (VObj kvs) | None => None end.
Proof using. generic. intros w members. cbn [denote].
  match goal with |- match ?a ?l ?acc with Some _ => _ | None => _ end = _ =>
    assert (E : forall acc', a l acc' = denote_members l acc') end.
  { induction members as [|[[[[[a k] b] c] x] e] t IH]; intros acc'; [reflexivity|].
    simpl.
    destruct (denote_string k) as [kb|]; [|reflexivity].
    destruct (denote pfloat x) as [v|]; [|reflexivity].
    apply IH. }
  rewrite E. reflexivity. Qed.

Lemma denote_elems_map : forall l, (forall x, In x l -> denote pfloat (doc_of ser x) = Some x) ->
  denote_elems (map (fun x => ([], doc_of ser x, [])) l) = Some l.
Proof using. generic. induction l as [|x t IH]; intros H; [reflexivity|].
  cbn [map denote_elems]. rewrite (H x (or_introl eq_refl)).
  rewrite IH; [reflexivity|]. intros y Hy. apply H. right. exact Hy. Qed.

Lemma aset_notin : forall (k : bytes) (v : val) acc, ~ In k (map fst acc) -> aset k v acc = acc ++ [(k, v)].
Proof using. generic. intros k v. induction acc as [|[k' v'] t IH]; intros H; [reflexivity|].
  cbn [aset app]. destruct (bytes_eqb k k') eqn:E.
  - apply bytes_eqb_eq in E. exfalso. apply H. left. symmetry. exact E.
  - f_equal. apply IH. intros Hin. apply H. right. exact Hin. Qed.

Lemma denote_members_map : forall kvs acc, NoDup (map fst acc ++ map fst kvs) ->
  (forall kv, In kv kvs -> utf8_valid (fst kv) = true /\ denote pfloat (doc_of ser (snd kv)) = Some (snd kv)) ->
  denote_members (map (fun kv : bytes * val => ([], sitems_of (length (fst kv)) (fst kv), [], [], doc_of ser (snd kv), [])) kvs) acc
  = Some (acc ++ kvs).
Proof using. generic. induction kvs as [|[k v] t IH]; intros acc ND H.
  - cbn [map denote_members]. rewrite app_nil_r. reflexivity.
  - destruct (H (k, v) (or_introl eq_refl)) as [U D]. cbn [fst snd] in U, D.
    cbn [map denote_members fst snd]. rewrite (proj2 (sitems_of_ok k U)). rewrite D.
    cbn [map fst] in ND.
    assert (Hk : ~ In k (map fst acc)).
    { apply NoDup_remove_2 in ND. intros Hin. apply ND. apply in_or_app. left. exact Hin. }
    rewrite (aset_notin k v acc Hk).
    rewrite IH.
    + rewrite <- app_assoc. reflexivity.
    + rewrite map_app. rewrite <- app_assoc. exact ND.
    + intros kv Hkv. apply H. right. exact Hkv. Qed.

Theorem denote_doc_of : forall v, val_ok v = true -> denote pfloat (doc_of ser v) = Some v.
Proof using F1 F2 F4. induction v as [ | b | z | b | s | l IHl | kvs IHk ] using val_ind'; intros Hok.
  - reflexivity.
  - destruct b; reflexivity.
  - cbn [val_ok] in Hok. destruct (itoa_num z Hok) as [n [P [Hfr [Hex Hv]]]].
    cbn [doc_of Json.ser]. rewrite P. cbn [denote]. unfold denote_num. cbv zeta.
    rewrite Hfr, Hex, Hv, Hok. reflexivity.
  - cbn [val_ok] in Hok. apply andb_true_iff in Hok. destruct Hok as [Hb Hf].
    destruct (F2 b Hf Hb) as [n P].
    cbn [doc_of Json.ser]. rewrite P. cbn [denote]. apply denote_num_float; assumption.
  - cbn [val_ok] in Hok. cbn [doc_of denote]. rewrite (proj2 (sitems_of_ok s Hok)). reflexivity.
  - cbn [val_ok] in Hok.
    assert (E : denote pfloat (doc_of ser (VList l)) =
                match denote_elems (map (fun x => ([], doc_of ser x, [])) l) with Some vs => Some (VList vs) | None => None end)
      by exact (denote_arr_eq [] _).
    rewrite E. rewrite denote_elems_map; [reflexivity|].
    intros x Hx. rewrite Forall_forall in IHl. rewrite forallb_forall in Hok.
    apply IHl; [exact Hx|apply Hok; exact Hx].
  - cbn [val_ok] in Hok. apply andb_true_iff in Hok. destruct Hok as [Hnd Hok].
    assert (E : denote pfloat (doc_of ser (VObj kvs)) =
                match denote_members (map (fun kv : bytes * val =>
                        ([], sitems_of (length (fst kv)) (fst kv), [], [], doc_of ser (snd kv), [])) kvs) [] with
                | Some r => Some (VObj r) | None => None end)
      by exact (denote_obj_eq [] _).
    rewrite E. rewrite denote_members_map.
    + reflexivity.
    + cbn [map app]. apply nodupb_NoDup. exact Hnd.
    + intros kv Hkv. rewrite Forall_forall in IHk. rewrite forallb_forall in Hok.
      specialize (Hok kv Hkv). cbv beta in Hok. apply andb_true_iff in Hok. destruct Hok as [H1 H2].
      split; [exact H1|]. apply (IHk kv Hkv). exact H2. Qed.

(* ================= (S7) String() is standard JSON that denotes the same data ================= *)
Corollary C02_statement : forall v, val_ok v = true ->
  exists d, doc_ok d = true /\ ser v = render d /\ denote pfloat d = Some v.
Proof using F1 F2 F4. intros v H. exists (doc_of ser v). destruct (ser_render v H) as [R O].
  split; [exact O|]. split; [exact R|]. apply denote_doc_of. exact H. Qed.

End Ser.
