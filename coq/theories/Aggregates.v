(* Aggregates.v — model of Sum/Prod/Avg/Min/Max and IntSum/IntProd/IntMin/IntMax (list_impl.go) and the C18 lemmas.
   Float arithmetic is an oracle (section variables, no contract except that float64(int) is finite);
   comparison is the concrete [flt]. *)
From Anytype Require Import Base FloatBits Value.
Local Open Scope Z_scope.
Set Default Proof Using "Type".

Section Agg.
  Variable fadd fmul fdiv : Z -> Z -> Z.
  Variable of_int : Z -> Z.                     (* float64(int) *)

  Definition sum_step (acc : Z) (v : val) : Z :=
    match v with VInt z => fadd acc (of_int z) | VFloat b => fadd acc b | _ => acc end.
  Definition Sum (l : list val) : Z := fold_left sum_step l pzero.
  Definition prod_step (acc : Z) (v : val) : Z :=
    match v with VInt z => fmul acc (of_int z) | VFloat b => fmul acc b | _ => acc end.
  Definition Prod (l : list val) : Z := fold_left prod_step l fone.
  Definition Avg (l : list val) : Z := fdiv (Sum l) (of_int (Zlen l)).

  (* Min/Max: Reduce with a callback that type-asserts item.(float64) when it is not an int: panics on other kinds *)
  Definition min_step (acc : res Z) (v : val) : res Z :=
    match acc with
    | Panic => Panic
    | Ok m => match v with
              | VInt z => if flt (of_int z) m then Ok (of_int z) else Ok m
              | VFloat b => if flt b m then Ok b else Ok m
              | _ => Panic
              end
    end.
  Definition Min (l : list val) : res Z :=
    match l with [] => Ok 0 | _ => fold_left min_step l (Ok fmax) end.
  Definition max_step (acc : res Z) (v : val) : res Z :=
    match acc with
    | Panic => Panic
    | Ok m => match v with
              | VInt z => if flt m (of_int z) then Ok (of_int z) else Ok m
              | VFloat b => if flt m b then Ok b else Ok m
              | _ => Panic
              end
    end.
  Definition Max (l : list val) : res Z :=
    match l with [] => Ok 0 | _ => fold_left max_step l (Ok fnegmax) end.

  Definition ints_of (l : list val) : list Z :=
    flat_map (fun v => match v with VInt z => [z] | _ => [] end) l.
  Definition IntSum (l : list val) : Z :=
    fold_left (fun acc v => match v with VInt z => wrap64 (acc + z) | _ => acc end) l 0.
  Definition IntProd (l : list val) : Z :=
    fold_left (fun acc v => match v with VInt z => wrap64 (acc * z) | _ => acc end) l 1.
  (* ReduceInts(MaxInt, min) with the [present] flag *)
  Definition IntMin (l : list val) : Z :=
    match ints_of l with [] => 0 | zs => fold_left (fun m z => if z <? m then z else m) zs max_int end.
  Definition IntMax (l : list val) : Z :=
    match ints_of l with [] => 0 | zs => fold_left (fun m z => if m <? z then z else m) zs min_int end.

  Definition is_numeric (v : val) : bool := match v with VInt _ | VFloat _ => true | _ => false end.
  Definition to_f (v : val) : Z := match v with VInt z => of_int z | VFloat b => b | _ => 0 end.

  (* ---------- reference folds ---------- *)
  Lemma Sum_spec l : forallb is_numeric l = true -> Sum l = fold_left fadd (map to_f l) pzero.
  Proof. unfold Sum. generalize pzero. induction l as [|v l IH]; intros acc H; simpl in *; [reflexivity|].
    apply andb_true_iff in H as [Hv Hl]. rewrite IH by exact Hl. destruct v; simpl in *; try discriminate; reflexivity. Qed.
  Lemma Prod_spec l : forallb is_numeric l = true -> Prod l = fold_left fmul (map to_f l) fone.
  Proof. unfold Prod. generalize fone. induction l as [|v l IH]; intros acc H; simpl in *; [reflexivity|].
    apply andb_true_iff in H as [Hv Hl]. rewrite IH by exact Hl. destruct v; simpl in *; try discriminate; reflexivity. Qed.
  Lemma Avg_spec l : forallb is_numeric l = true ->
    Avg l = fdiv (fold_left fadd (map to_f l) pzero) (of_int (Zlen l)).
  Proof. intros H. unfold Avg. rewrite Sum_spec by exact H. reflexivity. Qed.

  (* on any list the float aggregates only look at numeric elements *)
  Lemma Sum_filter l : Sum l = Sum (filter is_numeric l).
  Proof. unfold Sum. generalize pzero. induction l as [|v l IH]; intros acc; simpl; [reflexivity|].
    destruct v; simpl; auto. Qed.
  Lemma Prod_filter l : Prod l = Prod (filter is_numeric l).
  Proof. unfold Prod. generalize fone. induction l as [|v l IH]; intros acc; simpl; [reflexivity|].
    destruct v; simpl; auto. Qed.

  (* ---------- Min / Max as a specification ---------- *)
  Definition fin_ok (v : val) : bool := fbits_ok (to_f v) && is_finite (to_f v).

  Lemma min_inv l : forall m,
    forallb is_numeric l = true -> forallb fin_ok l = true ->
    fbits_ok m = true -> is_nan m = false ->
    exists r, fold_left min_step l (Ok m) = Ok r /\ fbits_ok r = true /\ is_nan r = false /\
      flt m r = false /\ (forall x, In x l -> flt (to_f x) r = false) /\
      (r = m \/ exists x, In x l /\ to_f x = r).
  Proof. clear fadd fmul fdiv. induction l as [|v l IH]; intros m Hn Hf Hm Hmn; cbn [fold_left forallb] in *.
    - exists m. repeat split; auto. apply flt_irrefl. intros x [].
    - apply andb_true_iff in Hn as [Hv Hl]. apply andb_true_iff in Hf as [Hfv Hfl].
      unfold fin_ok in Hfv. apply andb_true_iff in Hfv as [Hb Hfin].
      assert (Hvn: is_nan (to_f v) = false) by (apply finite_not_nan; exact Hfin).
      assert (Step: min_step (Ok m) v = Ok (if flt (to_f v) m then to_f v else m)).
      { destruct v; simpl in *; try discriminate; destruct (flt _ m); reflexivity. }
      rewrite Step. clear Step.
      destruct (flt (to_f v) m) eqn:E.
      + destruct (IH (to_f v) Hl Hfl Hb Hvn) as [r [R1 [R2 [R3 [R4 [R5 R6]]]]]].
        exists r. split; [exact R1|]. split; [exact R2|]. split; [exact R3|]. split.
        * destruct (flt m r) eqn:E2; [|reflexivity]. rewrite (flt_trans _ _ _ E E2) in R4. discriminate.
        * split.
          -- intros x [<-|Hx]; [exact R4 | apply R5; exact Hx].
          -- right. destruct R6 as [->|[x [Hx1 Hx2]]]; [exists v; split; [left; reflexivity | reflexivity] | exists x; split; [right; exact Hx1 | exact Hx2]].
      + destruct (IH m Hl Hfl Hm Hmn) as [r [R1 [R2 [R3 [R4 [R5 R6]]]]]].
        exists r. split; [exact R1|]. split; [exact R2|]. split; [exact R3|]. split; [exact R4|]. split.
        * intros x [<-|Hx]; [|apply R5; exact Hx].
          destruct (flt (to_f v) r) eqn:E2; [|reflexivity].
          assert (flt r m = false).
          { destruct (flt r m) eqn:E3; [|reflexivity]. rewrite (flt_trans _ _ _ E2 E3) in E. discriminate. }
          assert (feq m r = true) by (apply flt_total; auto).
          unfold flt, feq in *. rewrite Hvn, Hmn, R3 in *. cbn [negb andb] in *. lia.
        * destruct R6 as [->|[x [Hx1 Hx2]]]; [left; reflexivity | right; exists x; split; [right; exact Hx1 | exact Hx2]]. Qed.

  Theorem Min_spec l : l <> [] -> forallb is_numeric l = true -> forallb fin_ok l = true ->
    exists m, Min l = Ok m /\ (forall x, In x l -> flt (to_f x) m = false) /\ (exists x, In x l /\ feq (to_f x) m = true).
  Proof. clear fadd fmul fdiv. intros Hne Hn Hf. destruct l as [|v l]; [congruence|]. unfold Min.
    destruct (min_inv (v :: l) fmax Hn Hf) as [r [R1 [R2 [R3 [R4 [R5 R6]]]]]]; [vm_compute; reflexivity | vm_compute; reflexivity |].
    exists r. split; [exact R1|]. split; [exact R5|].
    destruct R6 as [->|[x [Hx1 Hx2]]].
    - (* the accumulator never moved: every element is >= MaxFloat64, and finite, hence equal to it *)
      exists v. split; [left; reflexivity|].
      assert (Hv: flt (to_f v) fmax = false) by (apply R5; left; reflexivity).
      simpl in Hf. apply andb_true_iff in Hf as [Hfv _]. unfold fin_ok in Hfv. apply andb_true_iff in Hfv as [Hb Hfin].
      pose proof (fkey_le_max _ Hb Hfin) as Hle. pose proof (finite_not_nan _ Hfin) as Hvn.
      unfold flt, feq in *. rewrite Hvn in *. rewrite R3 in *. cbn [negb andb] in *. lia.
    - exists x. split; [exact Hx1|]. subst r. apply feq_refl. exact R3. Qed.

  Lemma max_inv l : forall m,
    forallb is_numeric l = true -> forallb fin_ok l = true ->
    fbits_ok m = true -> is_nan m = false ->
    exists r, fold_left max_step l (Ok m) = Ok r /\ fbits_ok r = true /\ is_nan r = false /\
      flt r m = false /\ (forall x, In x l -> flt r (to_f x) = false) /\
      (r = m \/ exists x, In x l /\ to_f x = r).
  Proof. clear fadd fmul fdiv. induction l as [|v l IH]; intros m Hn Hf Hm Hmn; cbn [fold_left forallb] in *.
    - exists m. repeat split; auto. apply flt_irrefl. intros x [].
    - apply andb_true_iff in Hn as [Hv Hl]. apply andb_true_iff in Hf as [Hfv Hfl].
      unfold fin_ok in Hfv. apply andb_true_iff in Hfv as [Hb Hfin].
      assert (Hvn: is_nan (to_f v) = false) by (apply finite_not_nan; exact Hfin).
      assert (Step: max_step (Ok m) v = Ok (if flt m (to_f v) then to_f v else m)).
      { destruct v; simpl in *; try discriminate; destruct (flt m _); reflexivity. }
      rewrite Step. clear Step.
      destruct (flt m (to_f v)) eqn:E.
      + destruct (IH (to_f v) Hl Hfl Hb Hvn) as [r [R1 [R2 [R3 [R4 [R5 R6]]]]]].
        exists r. split; [exact R1|]. split; [exact R2|]. split; [exact R3|]. split.
        * destruct (flt r m) eqn:E2; [|reflexivity]. rewrite (flt_trans _ _ _ E2 E) in R4. discriminate.
        * split.
          -- intros x [<-|Hx]; [exact R4 | apply R5; exact Hx].
          -- right. destruct R6 as [->|[x [Hx1 Hx2]]]; [exists v; split; [left; reflexivity | reflexivity] | exists x; split; [right; exact Hx1 | exact Hx2]].
      + destruct (IH m Hl Hfl Hm Hmn) as [r [R1 [R2 [R3 [R4 [R5 R6]]]]]].
        exists r. split; [exact R1|]. split; [exact R2|]. split; [exact R3|]. split; [exact R4|]. split.
        * intros x [<-|Hx]; [|apply R5; exact Hx].
          destruct (flt r (to_f v)) eqn:E2; [|reflexivity].
          assert (flt m r = false).
          { destruct (flt m r) eqn:E3; [|reflexivity]. rewrite (flt_trans _ _ _ E3 E2) in E. discriminate. }
          assert (feq r m = true) by (apply flt_total; auto).
          unfold flt, feq in *. rewrite Hvn, Hmn, R3 in *. cbn [negb andb] in *. lia.
        * destruct R6 as [->|[x [Hx1 Hx2]]]; [left; reflexivity | right; exists x; split; [right; exact Hx1 | exact Hx2]]. Qed.

  Theorem Max_spec l : l <> [] -> forallb is_numeric l = true -> forallb fin_ok l = true ->
    exists m, Max l = Ok m /\ (forall x, In x l -> flt m (to_f x) = false) /\ (exists x, In x l /\ feq (to_f x) m = true).
  Proof. clear fadd fmul fdiv. intros Hne Hn Hf. destruct l as [|v l]; [congruence|]. unfold Max.
    destruct (max_inv (v :: l) fnegmax Hn Hf) as [r [R1 [R2 [R3 [R4 [R5 R6]]]]]]; [vm_compute; reflexivity | vm_compute; reflexivity |].
    exists r. split; [exact R1|]. split; [exact R5|].
    destruct R6 as [->|[x [Hx1 Hx2]]].
    - exists v. split; [left; reflexivity|].
      assert (Hv: flt fnegmax (to_f v) = false) by (apply R5; left; reflexivity).
      simpl in Hf. apply andb_true_iff in Hf as [Hfv _]. unfold fin_ok in Hfv. apply andb_true_iff in Hfv as [Hb Hfin].
      pose proof (fkey_ge_negmax _ Hb Hfin) as Hle. pose proof (finite_not_nan _ Hfin) as Hvn.
      unfold flt, feq in *. rewrite Hvn in *. rewrite R3 in *. cbn [negb andb] in *. lia.
    - exists x. split; [exact Hx1|]. subst r. apply feq_refl. exact R3. Qed.

  (* empty cases *)
  Lemma empty_cases : Sum [] = 0 /\ Prod [] = fone /\ Min [] = Ok 0 /\ Max [] = Ok 0 /\
                      IntSum [] = 0 /\ IntProd [] = 1 /\ IntMin [] = 0 /\ IntMax [] = 0.
  Proof. repeat split. Qed.
End Agg.

  (* ---------- the Int family, on any list ---------- *)
  Definition zsum (zs : list Z) : Z := fold_left Z.add zs 0.
  Definition zprod (zs : list Z) : Z := fold_left Z.mul zs 1.

  Lemma IntSum_gen l : forall acc a, wrap64 a = acc ->
    fold_left (fun acc v => match v with VInt z => wrap64 (acc + z) | _ => acc end) l acc = wrap64 (fold_left Z.add (ints_of l) a).
  Proof. induction l as [|v l IH]; intros acc a H; simpl; [congruence|].
    destruct v; simpl; try (apply IH; exact H).
    apply IH. subst acc. symmetry. apply wrap64_add_l. Qed.
  Theorem IntSum_spec l : IntSum l = wrap64 (zsum (ints_of l)).
  Proof. unfold IntSum, zsum. apply IntSum_gen. reflexivity. Qed.

  Lemma IntProd_gen l : forall acc a, wrap64 a = acc ->
    fold_left (fun acc v => match v with VInt z => wrap64 (acc * z) | _ => acc end) l acc = wrap64 (fold_left Z.mul (ints_of l) a).
  Proof. induction l as [|v l IH]; intros acc a H; simpl; [congruence|].
    destruct v; simpl; try (apply IH; exact H).
    apply IH. subst acc. symmetry. apply wrap64_mul_l. Qed.
  Theorem IntProd_spec l : IntProd l = wrap64 (zprod (ints_of l)).
  Proof. unfold IntProd, zprod. apply IntProd_gen. reflexivity. Qed.

  Lemma fold_min_spec zs : forall m, let r := fold_left (fun m z => if z <? m then z else m) zs m in
    r <= m /\ (forall z, In z zs -> r <= z) /\ (r = m \/ In r zs).
  Proof. induction zs as [|z zs IH]; intros m; simpl.
    - split; [lia|]. split; [intros z []| left; reflexivity].
    - destruct (z <? m) eqn:E.
      + destruct (IH z) as [H1 [H2 H3]]. split; [lia|]. split.
        * intros y [<-|Hy]; [exact H1 | apply H2; exact Hy].
        * right. destruct H3 as [->|H3]; [left; reflexivity | right; exact H3].
      + destruct (IH m) as [H1 [H2 H3]]. split; [exact H1|]. split.
        * intros y [<-|Hy]; [lia | apply H2; exact Hy].
        * destruct H3 as [H3|H3]; [left; exact H3 | right; right; exact H3]. Qed.
  Lemma fold_max_spec zs : forall m, let r := fold_left (fun m z => if m <? z then z else m) zs m in
    m <= r /\ (forall z, In z zs -> z <= r) /\ (r = m \/ In r zs).
  Proof. induction zs as [|z zs IH]; intros m; simpl.
    - split; [lia|]. split; [intros z []| left; reflexivity].
    - destruct (m <? z) eqn:E.
      + destruct (IH z) as [H1 [H2 H3]]. split; [lia|]. split.
        * intros y [<-|Hy]; [exact H1 | apply H2; exact Hy].
        * right. destruct H3 as [->|H3]; [left; reflexivity | right; exact H3].
      + destruct (IH m) as [H1 [H2 H3]]. split; [exact H1|]. split.
        * intros y [<-|Hy]; [lia | apply H2; exact Hy].
        * destruct H3 as [H3|H3]; [left; exact H3 | right; right; exact H3]. Qed.

  Theorem IntMin_spec l : Forall (fun z => in_int64 z = true) (ints_of l) ->
    match ints_of l with
    | [] => IntMin l = 0
    | _ => In (IntMin l) (ints_of l) /\ forall z, In z (ints_of l) -> IntMin l <= z
    end.
  Proof. intros Hr. unfold IntMin. destruct (ints_of l) as [|z zs] eqn:E; [reflexivity|].
    pose proof (fold_min_spec (z :: zs) max_int) as [H1 [H2 H3]]. split; [|exact H2].
    destruct H3 as [H3|H3]; [|exact H3].
    (* accumulator never moved: every element >= MaxInt, and in range, so z = MaxInt *)
    left. rewrite H3. inversion Hr as [|? ? Hz _]. subst.
    assert (max_int <= z) by (rewrite <- H3; apply H2; left; reflexivity).
    unfold in_int64 in Hz. lia. Qed.
  Theorem IntMax_spec l : Forall (fun z => in_int64 z = true) (ints_of l) ->
    match ints_of l with
    | [] => IntMax l = 0
    | _ => In (IntMax l) (ints_of l) /\ forall z, In z (ints_of l) -> z <= IntMax l
    end.
  Proof. intros Hr. unfold IntMax. destruct (ints_of l) as [|z zs] eqn:E; [reflexivity|].
    pose proof (fold_max_spec (z :: zs) min_int) as [H1 [H2 H3]]. split; [|exact H2].
    destruct H3 as [H3|H3]; [|exact H3].
    left. rewrite H3. inversion Hr as [|? ? Hz _]. subst.
    assert (z <= min_int) by (rewrite <- H3; apply H2; left; reflexivity).
    unfold in_int64 in Hz. lia. Qed.

