(* AsyncProofs.v — ForEachAsync / MapAsync equal their sequential counterparts under every schedule (C15). *)
From Anytype Require Import Base Async.
From Coq Require Import ZifyBool Permutation.
Local Open Scope nat_scope.

(* ---------- generic helpers ---------- *)
Fixpoint cnt (k : nat) (l : list nat) : nat :=
  match l with [] => 0 | x :: r => (if x =? k then 1 else 0) + cnt k r end.

Lemma cnt_le k l : cnt k l <= length l.
Proof. induction l as [|x r IH]; simpl; [lia|]. destruct (x =? k); lia. Qed.

Lemma nth_error_upd {A} (l : list A) t a b i :
  nth_error l t = Some a -> nth_error (upd l t b) i = if i =? t then Some b else nth_error l i.
Proof.
  intros H. destruct (i =? t) eqn:E.
  - apply Nat.eqb_eq in E. subst i. apply nth_error_upd_eq. apply nth_error_Some. congruence.
  - apply Nat.eqb_neq in E. apply nth_error_upd_neq. congruence.
Qed.

Lemma cnt_upd k l t a b : nth_error l t = Some a ->
  cnt k (upd l t b) + (if a =? k then 1 else 0) = cnt k l + (if b =? k then 1 else 0).
Proof.
  revert t. induction l as [|x r IH]; intros [|t] H; simpl in *; try discriminate.
  - inversion H; subst x. destruct (a =? k), (b =? k); lia.
  - specialize (IH t H). destruct (a =? k), (b =? k), (x =? k); lia.
Qed.

Lemma cnt_full k l : cnt k l = length l -> forall i a, nth_error l i = Some a -> a = k.
Proof.
  induction l as [|x r IH]; simpl; intros H i a Hi.
  - destruct i; discriminate.
  - pose proof (cnt_le k r) as Hle. destruct (x =? k) eqn:E.
    + destruct i as [|i]; simpl in Hi.
      * inversion Hi; subst x. apply Nat.eqb_eq; exact E.
      * apply IH with i; [lia|exact Hi].
    + lia.
Qed.

Lemma cnt_notfull k l : cnt k l < length l -> exists i a, nth_error l i = Some a /\ a <> k.
Proof.
  induction l as [|x r IH]; simpl; intros H; [lia|].
  destruct (x =? k) eqn:E.
  - destruct IH as (i & a & Hi & Ha); [lia|]. exists (S i), a. split; assumption.
  - exists 0, x. split; [reflexivity|]. apply Nat.eqb_neq; exact E.
Qed.

Lemma repeat_list_length {A} (x : A) n : length (repeat_list x n) = n.
Proof. induction n as [|n IH]; simpl; auto. Qed.

Lemma nth_error_repeat {A} (x y : A) n i : nth_error (repeat_list x n) i = Some y -> y = x.
Proof.
  revert i. induction n as [|n IH]; intros [|i] H; simpl in H; try discriminate.
  - congruence.
  - eapply IH; eassumption.
Qed.

Lemma nth_error_repeat_lt {A} (x : A) n i : i < n -> nth_error (repeat_list x n) i = Some x.
Proof.
  revert i. induction n as [|n IH]; intros [|i] H; simpl; try lia; auto. apply IH; lia.
Qed.

Lemma cnt_repeat k x n : x <> k -> cnt k (repeat_list x n) = 0.
Proof. intros H. induction n as [|n IH]; simpl; auto. apply Nat.eqb_neq in H. rewrite H, IH. reflexivity. Qed.

Lemma nth_error_seq_lt a n i : i < n -> nth_error (seq a n) i = Some (a + i).
Proof.
  revert a i. induction n as [|n IH]; intros a [|i] H; simpl; try lia.
  - f_equal; lia.
  - rewrite IH by lia. f_equal; lia.
Qed.

Lemma nth_error_ext {A} (l1 l2 : list A) : (forall i, nth_error l1 i = nth_error l2 i) -> l1 = l2.
Proof.
  revert l2. induction l1 as [|x r IH]; intros [|y r2] H.
  - reflexivity.
  - specialize (H 0); discriminate.
  - specialize (H 0); discriminate.
  - pose proof (H 0) as H0. simpl in H0. inversion H0; subst y. f_equal. apply IH. intros i. exact (H (S i)).
Qed.

Lemma NoDup_snoc {A} (l : list A) x : NoDup l -> ~ In x l -> NoDup (l ++ [x]).
Proof.
  intros H Hx. apply Permutation_NoDup with (x :: l).
  - apply Permutation_cons_append.
  - constructor; assumption.
Qed.

Lemma NoDup_diag n : NoDup (map (fun i => (i, i)) (seq 0 n)).
Proof.
  apply FinFun.Injective_map_NoDup.
  - intros a b H. congruence.
  - apply seq_NoDup.
Qed.

(* existential statements over the worker pcs, after one worker's pc changed *)
Lemma ex_upd_same (P : nat -> Prop) l t a b (p : nat * nat) :
  nth_error l t = Some a -> (P a <-> P b) ->
  ((exists i pc, p = (i, i) /\ nth_error (upd l t b) i = Some pc /\ P pc) <->
   (exists i pc, p = (i, i) /\ nth_error l i = Some pc /\ P pc)).
Proof.
  intros Ht Hab. split; intros (i & pc & Hp & Hi & HP).
  - rewrite (nth_error_upd l t a b i Ht) in Hi. destruct (i =? t) eqn:E.
    + apply Nat.eqb_eq in E; subst i. inversion Hi; subst pc. exists t, a. tauto.
    + exists i, pc. tauto.
  - destruct (i =? t) eqn:E.
    + pose proof E as E'. apply Nat.eqb_eq in E'; subst i. exists t, b.
      rewrite (nth_error_upd l t a b t Ht), E. assert (pc = a) by congruence. subst pc. tauto.
    + exists i, pc. rewrite (nth_error_upd l t a b i Ht), E. tauto.
Qed.

Lemma ex_upd_new (P : nat -> Prop) l t a b (p : nat * nat) :
  nth_error l t = Some a -> ~ P a -> P b ->
  ((exists i pc, p = (i, i) /\ nth_error (upd l t b) i = Some pc /\ P pc) <->
   (p = (t, t) \/ exists i pc, p = (i, i) /\ nth_error l i = Some pc /\ P pc)).
Proof.
  intros Ht Ha Hb. split.
  - intros (i & pc & Hp & Hi & HP).
    rewrite (nth_error_upd l t a b i Ht) in Hi. destruct (i =? t) eqn:E.
    + apply Nat.eqb_eq in E; subst i. left; exact Hp.
    + right. exists i, pc. tauto.
  - intros [Hp | (i & pc & Hp & Hi & HP)].
    + exists t, b. rewrite (nth_error_upd l t a b t Ht), Nat.eqb_refl. tauto.
    + destruct (i =? t) eqn:E.
      * apply Nat.eqb_eq in E; subst i. assert (pc = a) by congruence. subst pc. contradiction.
      * exists i, pc. rewrite (nth_error_upd l t a b i Ht), E. tauto.
Qed.

Lemma forall_upd (Q : nat -> nat -> Prop) l t a b :
  nth_error l t = Some a -> Q t b ->
  (forall i pc, nth_error l i = Some pc -> Q i pc) ->
  forall i pc, nth_error (upd l t b) i = Some pc -> Q i pc.
Proof.
  intros Ht Hb H i pc Hi. rewrite (nth_error_upd l t a b i Ht) in Hi. destruct (i =? t) eqn:E.
  - apply Nat.eqb_eq in E; subst i. inversion Hi; subst pc. exact Hb.
  - apply H; exact Hi.
Qed.

Ltac projs := cbn [a_mpc a_spawned a_wpc a_counter a_mutex a_log a_result a_returned a_panicked].
Ltac projs_in H := cbn [a_mpc a_spawned a_wpc a_counter a_mutex a_log a_result a_returned a_panicked] in H.

(* ---------- ForEachAsync ---------- *)
Record InvF (n : nat) (s : astate) : Prop := {
  F_len : length (a_wpc s) = n;
  F_sp : a_spawned s <= n;
  F_pc : forall i pc, nth_error (a_wpc s) i = Some pc -> pc <= 2 /\ (a_spawned s <= i -> pc = 0);
  F_mpc : a_mpc s <= 4 /\ (a_mpc s = 0 -> a_spawned s = 0) /\ (2 <= a_mpc s -> a_spawned s = n);
  F_cnt : a_counter s = (Z.of_nat (if (1 <=? a_mpc s)%nat then n else 0%nat) - Z.of_nat (cnt 2 (a_wpc s)))%Z;
  F_nodup : NoDup (a_log s);
  F_log : forall p, In p (a_log s) <-> exists i pc, p = (i, i) /\ nth_error (a_wpc s) i = Some pc /\ 1 <= pc;
  F_ret : a_returned s = true <-> a_mpc s = 4;
  F_all : 3 <= a_mpc s -> forall i pc, nth_error (a_wpc s) i = Some pc -> pc = 2;
  F_pan : a_panicked s = false }.

Lemma invF_init n : InvF n (a_init n).
Proof.
  unfold a_init. constructor; projs.
  - apply repeat_list_length.
  - lia.
  - intros i pc H. apply nth_error_repeat in H. lia.
  - lia.
  - rewrite cnt_repeat by lia. reflexivity.
  - constructor.
  - intros p. split; [intros []|]. intros (i & pc & _ & H & Hpc). apply nth_error_repeat in H. lia.
  - split; [discriminate|lia].
  - lia.
  - reflexivity.
Qed.

Lemma invF_step n s t s' : InvF n s -> astep skel_foreach n s t = Some s' -> InvF n s'.
Proof.
  intros I H. unfold astep in H.
  destruct (a_returned s || a_panicked s) eqn:RP; [discriminate|].
  apply orb_false_elim in RP. destruct RP as [R P].
  destruct I as [Ilen Isp Ipc (Im1 & Im2 & Im3) Icnt Ind Ilog Iret Iall Ipan].
  assert (M4 : a_mpc s <> 4) by (intros E; apply Iret in E; congruence).
  destruct (Nat.eqb t n) eqn:Tn.
  - (* main *)
    cbn [skel_foreach s_main] in H.
    destruct (a_mpc s) as [|[|[|[|m]]]] eqn:M; cbn [nth_error] in H.
    + (* MAdd *)
      inversion H; subst s'; clear H. constructor; projs; try assumption; try lia.
      * cbn [Nat.leb] in *. lia.
    + (* MSpawn *)
      destruct (Nat.ltb (a_spawned s) n) eqn:L; inversion H; subst s'; clear H;
        constructor; projs; try assumption; try lia.
      * intros i pc Hi. destruct (Ipc i pc Hi) as [A B]. split; [exact A|]. intros; apply B; lia.
    + (* MWait *)
      destruct (a_counter s <=? 0)%Z eqn:C; inversion H; subst s'; clear H.
      constructor; projs; try assumption; try lia.
      * intros _. apply cnt_full. cbn [Nat.leb] in Icnt. pose proof (cnt_le 2 (a_wpc s)). lia.
    + (* MRet *)
      inversion H; subst s'; clear H. constructor; projs; try assumption; try lia.
      * intros _. apply Iall. lia.
    + exfalso. lia.
  - (* worker *)
    destruct (Nat.ltb t (a_spawned s)) eqn:Tsp; [|discriminate].
    apply Nat.ltb_lt in Tsp.
    destruct (nth_error (a_wpc s) t) as [pc|] eqn:Epc; [|discriminate].
    assert (M1 : (1 <=? a_mpc s) = true) by (apply Nat.leb_le; lia).
    cbn [skel_foreach s_worker] in H.
    destruct pc as [|[|pc]]; cbn [nth_error] in H.
    + (* WCall *)
      change (elem_of skel_foreach s n t) with t in H.
      inversion H; subst s'; clear H. constructor; projs; try assumption; try lia.
      * rewrite upd_length; exact Ilen.
      * apply (forall_upd (fun i pc => pc <= 2 /\ (a_spawned s <= i -> pc = 0)) _ t 0 1 Epc); [lia|exact Ipc].
      * pose proof (cnt_upd 2 _ t 0 1 Epc) as U. cbn [Nat.eqb] in U. rewrite Icnt. lia.
      * apply NoDup_snoc; [exact Ind|]. intros Hin. apply Ilog in Hin.
        destruct Hin as (i & pc & Hp & Hi & Hpc). inversion Hp; subst i. rewrite Epc in Hi. inversion Hi. lia.
      * intros p. rewrite (ex_upd_new (fun pc => 1 <= pc) _ t 0 1 p Epc) by lia.
        rewrite in_app_iff, Ilog. simpl. intuition congruence.
      * intros M3. specialize (Iall M3 t 0 Epc). lia.
    + (* WDone *)
      pose proof (cnt_upd 2 _ t 1 2 Epc) as U. cbn [Nat.eqb] in U.
      pose proof (cnt_le 2 (upd (a_wpc s) t 2)) as Ule. rewrite upd_length in Ule.
      rewrite M1 in Icnt.
      inversion H; subst s'; clear H. constructor; projs; try assumption; try lia.
      * rewrite upd_length; exact Ilen.
      * apply (forall_upd (fun i pc => pc <= 2 /\ (a_spawned s <= i -> pc = 0)) _ t 1 2 Epc); [lia|exact Ipc].
      * rewrite M1. lia.
      * intros p. rewrite (ex_upd_same (fun pc => 1 <= pc) _ t 1 2 p Epc) by lia. apply Ilog.
      * intros M3. specialize (Iall M3 t 1 Epc). lia.
    + destruct pc; discriminate.
Qed.

Lemma invF_run n sched : forall s, InvF n s -> InvF n (arun skel_foreach n s sched).
Proof.
  induction sched as [|t r IH]; intros s I; simpl; [exact I|].
  destruct (astep skel_foreach n s t) as [s'|] eqn:E.
  - apply IH. eapply invF_step; eassumption.
  - apply IH; exact I.
Qed.

Lemma diag_perm n (l : list (nat * nat)) :
  NoDup l -> (forall p, In p l <-> exists i, p = (i, i) /\ i < n) ->
  Permutation l (map (fun i => (i, i)) (seq 0 n)).
Proof.
  intros Hnd H. apply NoDup_Permutation; [exact Hnd|apply NoDup_diag|].
  intros p. rewrite H, in_map_iff. split.
  - intros (i & Hp & Hi). exists i. split; [congruence|]. apply in_seq. lia.
  - intros (i & Hp & Hi). exists i. apply in_seq in Hi. split; [congruence|lia].
Qed.

Theorem foreach_correct : forall n sched, let s := arun skel_foreach n (a_init n) sched in
  a_returned s = true ->
  Permutation (a_log s) (map (fun i => (i, i)) (seq 0 n)) /\
  (forall i, i < n -> worker_done skel_foreach s i = true) /\
  a_panicked s = false.
Proof.
  intros n sched s R.
  assert (I : InvF n s) by (apply invF_run, invF_init).
  destruct I as [Ilen Isp Ipc (Im1 & Im2 & Im3) Icnt Ind Ilog Iret Iall Ipan].
  apply Iret in R. assert (A : forall i pc, nth_error (a_wpc s) i = Some pc -> pc = 2) by (apply Iall; lia).
  split; [|split; [|exact Ipan]].
  - apply diag_perm; [exact Ind|]. intros p. rewrite Ilog. split.
    + intros (i & pc & Hp & Hi & _). exists i. split; [exact Hp|]. rewrite <- Ilen. apply nth_error_Some. congruence.
    + intros (i & Hp & Hi). rewrite <- Ilen in Hi. apply nth_error_Some in Hi.
      destruct (nth_error (a_wpc s) i) as [pc|] eqn:E; [|congruence].
      exists i, pc. split; [exact Hp|]. split; [exact E|]. apply A in E. lia.
  - intros i Hi. unfold worker_done. rewrite <- Ilen in Hi. apply nth_error_Some in Hi.
    destruct (nth_error (a_wpc s) i) as [pc|] eqn:E; [|congruence].
    apply A in E. subst pc. reflexivity.
Qed.

Theorem foreach_progress : forall n sched, let s := arun skel_foreach n (a_init n) sched in
  a_returned s = false -> exists t, t <= n /\ enabled skel_foreach n s t = true.
Proof.
  intros n sched s R.
  assert (I : InvF n s) by (apply invF_run, invF_init).
  destruct I as [Ilen Isp Ipc (Im1 & Im2 & Im3) Icnt Ind Ilog Iret Iall Ipan].
  assert (M4 : a_mpc s <> 4) by (intros E; apply Iret in E; congruence).
  unfold enabled, astep. rewrite R, Ipan. cbn [orb].
  destruct (a_mpc s) as [|[|[|[|m]]]] eqn:M.
  - exists n. split; [lia|]. rewrite Nat.eqb_refl. reflexivity.
  - exists n. split; [lia|]. rewrite Nat.eqb_refl. cbn [skel_foreach s_main nth_error].
    destruct (a_spawned s <? n); reflexivity.
  - destruct (a_counter s <=? 0)%Z eqn:C.
    + exists n. split; [lia|]. rewrite Nat.eqb_refl. cbn [skel_foreach s_main nth_error]. reflexivity.
    + cbn [Nat.leb] in Icnt.
      destruct (cnt_notfull 2 (a_wpc s)) as (i & pc & Hi & Hpc); [lia|].
      assert (Hin : i < n) by (rewrite <- Ilen; apply nth_error_Some; congruence).
      exists i. split; [lia|].
      replace (i =? n) with false by lia. rewrite Im3 by lia. replace (i <? n) with true by lia.
      rewrite Hi. destruct (Ipc i pc Hi) as [Hle _].
      cbn [skel_foreach s_worker].
      destruct pc as [|[|pc]]; cbn [nth_error]; try reflexivity. lia.
  - exists n. split; [lia|]. rewrite Nat.eqb_refl. reflexivity.
  - lia.
Qed.

(* ---------- MapAsync ---------- *)
Definition in_critical (s : astate) (i : nat) : bool :=
  match nth_error (a_wpc s) i with Some pc => (1 <=? pc) && (pc <=? 2) | None => false end.

Record InvM (n : nat) (s : astate) : Prop := {
  M_len : length (a_wpc s) = n;
  M_rlen : length (a_result s) = n;
  M_sp : a_spawned s <= n;
  M_pc : forall i pc, nth_error (a_wpc s) i = Some pc -> pc <= 4 /\ (a_spawned s <= i -> pc = 0);
  M_mpc : a_mpc s <= 5 /\ (a_mpc s <= 1 -> a_spawned s = 0) /\ (3 <= a_mpc s -> a_spawned s = n);
  M_cnt : a_counter s = (Z.of_nat (if (1 <=? a_mpc s)%nat then n else 0%nat) - Z.of_nat (cnt 4 (a_wpc s)))%Z;
  M_nodup : NoDup (a_log s);
  M_log : forall p, In p (a_log s) <-> exists i pc, p = (i, i) /\ nth_error (a_wpc s) i = Some pc /\ 2 <= pc;
  M_mutex : forall i, a_mutex s = Some i <-> exists pc, nth_error (a_wpc s) i = Some pc /\ 1 <= pc <= 2;
  M_res : forall i pc, nth_error (a_wpc s) i = Some pc ->
                       nth_error (a_result s) i = Some (if 2 <=? pc then Some i else None);
  M_ret : a_returned s = true <-> a_mpc s = 5;
  M_all : 4 <= a_mpc s -> forall i pc, nth_error (a_wpc s) i = Some pc -> pc = 4;
  M_pan : a_panicked s = false }.

Lemma invM_init n : InvM n (a_init n).
Proof.
  unfold a_init. constructor; projs.
  - apply repeat_list_length.
  - apply repeat_list_length.
  - lia.
  - intros i pc H. apply nth_error_repeat in H. lia.
  - lia.
  - rewrite cnt_repeat by lia. reflexivity.
  - constructor.
  - intros p. split; [intros []|]. intros (i & pc & _ & H & Hpc). apply nth_error_repeat in H. lia.
  - intros i. split; [discriminate|]. intros (pc & H & Hpc). apply nth_error_repeat in H. lia.
  - intros i pc H. pose proof H as H'. apply nth_error_repeat in H'. subst pc. cbn [Nat.leb].
    apply nth_error_repeat_lt. rewrite <- (repeat_list_length 0 n). apply nth_error_Some. congruence.
  - split; [discriminate|lia].
  - lia.
  - reflexivity.
Qed.

Lemma ex1_upd_same (P : nat -> Prop) l t a b i :
  nth_error l t = Some a -> (P a <-> P b) ->
  ((exists pc, nth_error (upd l t b) i = Some pc /\ P pc) <-> (exists pc, nth_error l i = Some pc /\ P pc)).
Proof.
  intros Ht Hab. rewrite (nth_error_upd l t a b i Ht). destruct (i =? t) eqn:E.
  - apply Nat.eqb_eq in E; subst i. split; intros (pc & Hi & HP).
    + inversion Hi; subst pc. exists a. tauto.
    + assert (pc = a) by congruence. subst pc. exists b. tauto.
  - tauto.
Qed.

Lemma invM_step n s t s' : InvM n s -> astep skel_list_map n s t = Some s' -> InvM n s'.
Proof.
  intros I H. unfold astep in H.
  destruct (a_returned s || a_panicked s) eqn:RP; [discriminate|].
  apply orb_false_elim in RP. destruct RP as [R P].
  destruct I as [Ilen Irlen Isp Ipc (Im1 & Im2 & Im3) Icnt Ind Ilog Imu Ires Iret Iall Ipan].
  assert (M5 : a_mpc s <> 5) by (intros E; apply Iret in E; congruence).
  destruct (Nat.eqb t n) eqn:Tn.
  - (* main *)
    cbn [skel_list_map s_main] in H.
    destruct (a_mpc s) as [|[|[|[|[|m]]]]] eqn:M; cbn [nth_error] in H.
    + (* MAdd *)
      inversion H; subst s'; clear H. constructor; projs; try assumption; try lia.
      * cbn [Nat.leb] in *. lia.
    + (* MMakeResult *)
      inversion H; subst s'; clear H. constructor; projs; try assumption; try lia.
      * apply repeat_list_length.
      * intros i pc Hi. destruct (Ipc i pc Hi) as [_ Hz]. rewrite Hz by lia. cbn [Nat.leb].
        apply nth_error_repeat_lt. rewrite <- Ilen. apply nth_error_Some. congruence.
    + (* MSpawn *)
      destruct (Nat.ltb (a_spawned s) n) eqn:L; inversion H; subst s'; clear H;
        constructor; projs; try assumption; try lia.
      * intros i pc Hi. destruct (Ipc i pc Hi) as [A B]. split; [exact A|]. intros; apply B; lia.
    + (* MWait *)
      destruct (a_counter s <=? 0)%Z eqn:C; inversion H; subst s'; clear H.
      constructor; projs; try assumption; try lia.
      * intros _. apply cnt_full. cbn [Nat.leb] in Icnt. pose proof (cnt_le 4 (a_wpc s)). lia.
    + (* MRet *)
      inversion H; subst s'; clear H. constructor; projs; try assumption; try lia.
      * intros _. apply Iall. lia.
    + exfalso. lia.
  - (* worker *)
    destruct (Nat.ltb t (a_spawned s)) eqn:Tsp; [|discriminate].
    apply Nat.ltb_lt in Tsp.
    destruct (nth_error (a_wpc s) t) as [pc|] eqn:Epc; [|discriminate].
    assert (M1 : (1 <=? a_mpc s) = true) by (apply Nat.leb_le; lia).
    assert (Tlt : t < n) by lia.
    cbn [skel_list_map s_worker] in H.
    destruct pc as [|[|[|[|pc]]]]; cbn [nth_error] in H.
    + (* WLock *)
      destruct (a_mutex s) as [h|] eqn:Mu; [discriminate|].
      inversion H; subst s'; clear H. constructor; projs; try assumption; try lia.
      * rewrite upd_length; exact Ilen.
      * apply (forall_upd (fun i pc => pc <= 4 /\ (a_spawned s <= i -> pc = 0)) _ t 0 1 Epc); [lia|exact Ipc].
      * pose proof (cnt_upd 4 _ t 0 1 Epc) as U. cbn [Nat.eqb] in U. rewrite Icnt. lia.
      * intros p. rewrite (ex_upd_same (fun pc => 2 <= pc) _ t 0 1 p Epc) by lia. apply Ilog.
      * intros i. rewrite (nth_error_upd _ t 0 1 i Epc). destruct (i =? t) eqn:E.
        -- apply Nat.eqb_eq in E; subst i. split; [intros _; exists 1; split; [reflexivity|lia]|reflexivity].
        -- apply Nat.eqb_neq in E. split; [intros X; inversion X; congruence|].
           intros X. apply Imu in X. discriminate.
      * apply (forall_upd (fun i pc => nth_error (a_result s) i = Some (if 2 <=? pc then Some i else None)) _ t 0 1 Epc);
          [exact (Ires t 0 Epc)|exact Ires].
      * intros M4. specialize (Iall M4 t 0 Epc). lia.
    + (* WCallStore *)
      change (elem_of skel_list_map s n t) with t in H.
      inversion H; subst s'; clear H. constructor; projs; try assumption; try lia.
      * rewrite upd_length; exact Ilen.
      * rewrite upd_length; exact Irlen.
      * apply (forall_upd (fun i pc => pc <= 4 /\ (a_spawned s <= i -> pc = 0)) _ t 1 2 Epc); [lia|exact Ipc].
      * pose proof (cnt_upd 4 _ t 1 2 Epc) as U. cbn [Nat.eqb] in U. rewrite Icnt. lia.
      * apply NoDup_snoc; [exact Ind|]. intros Hin. apply Ilog in Hin.
        destruct Hin as (i & pc & Hp & Hi & Hpc). inversion Hp; subst i. rewrite Epc in Hi. inversion Hi. lia.
      * intros p. rewrite (ex_upd_new (fun pc => 2 <= pc) _ t 1 2 p Epc) by lia.
        rewrite in_app_iff, Ilog. simpl. intuition congruence.
      * intros i. rewrite (ex1_upd_same (fun pc => 1 <= pc <= 2) _ t 1 2 i Epc) by lia. apply Imu.
      * intros i pc Hi. rewrite (nth_error_upd _ t 1 2 i Epc) in Hi.
        rewrite (nth_error_upd _ t None (Some t) i (Ires t 1 Epc)).
        destruct (i =? t) eqn:E.
        -- apply Nat.eqb_eq in E; subst i. inversion Hi; subst pc. reflexivity.
        -- apply Ires; exact Hi.
      * intros M4. specialize (Iall M4 t 1 Epc). lia.
    + (* WUnlock *)
      inversion H; subst s'; clear H. constructor; projs; try assumption; try lia.
      * rewrite upd_length; exact Ilen.
      * apply (forall_upd (fun i pc => pc <= 4 /\ (a_spawned s <= i -> pc = 0)) _ t 2 3 Epc); [lia|exact Ipc].
      * pose proof (cnt_upd 4 _ t 2 3 Epc) as U. cbn [Nat.eqb] in U. rewrite Icnt. lia.
      * intros p. rewrite (ex_upd_same (fun pc => 2 <= pc) _ t 2 3 p Epc) by lia. apply Ilog.
      * intros i. split; [discriminate|]. intros (pc & Hi & Hpc).
        rewrite (nth_error_upd _ t 2 3 i Epc) in Hi. destruct (i =? t) eqn:E.
        -- inversion Hi. lia.
        -- apply Nat.eqb_neq in E.
           assert (X : a_mutex s = Some i) by (apply Imu; exists pc; split; [exact Hi|lia]).
           assert (Y : a_mutex s = Some t) by (apply Imu; exists 2; split; [exact Epc|lia]).
           congruence.
      * apply (forall_upd (fun i pc => nth_error (a_result s) i = Some (if 2 <=? pc then Some i else None)) _ t 2 3 Epc);
          [exact (Ires t 2 Epc)|exact Ires].
      * intros M4. specialize (Iall M4 t 2 Epc). lia.
    + (* WDone *)
      pose proof (cnt_upd 4 _ t 3 4 Epc) as U. cbn [Nat.eqb] in U.
      pose proof (cnt_le 4 (upd (a_wpc s) t 4)) as Ule. rewrite upd_length in Ule.
      rewrite M1 in Icnt.
      inversion H; subst s'; clear H. constructor; projs; try assumption; try lia.
      * rewrite upd_length; exact Ilen.
      * apply (forall_upd (fun i pc => pc <= 4 /\ (a_spawned s <= i -> pc = 0)) _ t 3 4 Epc); [lia|exact Ipc].
      * rewrite M1. lia.
      * intros p. rewrite (ex_upd_same (fun pc => 2 <= pc) _ t 3 4 p Epc) by lia. apply Ilog.
      * intros i. rewrite (ex1_upd_same (fun pc => 1 <= pc <= 2) _ t 3 4 i Epc) by lia. apply Imu.
      * apply (forall_upd (fun i pc => nth_error (a_result s) i = Some (if 2 <=? pc then Some i else None)) _ t 3 4 Epc);
          [exact (Ires t 3 Epc)|exact Ires].
      * intros M4. specialize (Iall M4 t 3 Epc). lia.
    + destruct pc; discriminate.
Qed.

Lemma invM_run n sched : forall s, InvM n s -> InvM n (arun skel_list_map n s sched).
Proof.
  induction sched as [|t r IH]; intros s I; simpl; [exact I|].
  destruct (astep skel_list_map n s t) as [s'|] eqn:E.
  - apply IH. eapply invM_step; eassumption.
  - apply IH; exact I.
Qed.

Theorem map_correct : forall n sched, let s := arun skel_list_map n (a_init n) sched in
  a_returned s = true ->
  a_result s = map (fun i => Some i) (seq 0 n) /\
  Permutation (a_log s) (map (fun i => (i, i)) (seq 0 n)) /\
  (forall i, i < n -> worker_done skel_list_map s i = true) /\ a_panicked s = false.
Proof.
  intros n sched s R.
  assert (I : InvM n s) by (apply invM_run, invM_init).
  destruct I as [Ilen Irlen Isp Ipc (Im1 & Im2 & Im3) Icnt Ind Ilog Imu Ires Iret Iall Ipan].
  apply Iret in R. assert (A : forall i pc, nth_error (a_wpc s) i = Some pc -> pc = 4) by (apply Iall; lia).
  assert (B : forall i, i < n -> nth_error (a_wpc s) i = Some 4).
  { intros i Hi. rewrite <- Ilen in Hi. apply nth_error_Some in Hi.
    destruct (nth_error (a_wpc s) i) as [pc|] eqn:E; [|congruence]. apply A in E. congruence. }
  split; [|split; [|split; [|exact Ipan]]].
  - apply nth_error_ext. intros i. destruct (Nat.lt_ge_cases i n) as [Hi|Hi].
    + rewrite (Ires i 4 (B i Hi)). cbn [Nat.leb].
      rewrite (map_nth_error _ _ _ (nth_error_seq_lt 0 n i Hi)). reflexivity.
    + assert (X : nth_error (a_result s) i = None) by (apply nth_error_None; lia).
      assert (Y : nth_error (map (fun i => Some i) (seq 0 n)) i = None)
        by (apply nth_error_None; rewrite map_length, seq_length; lia).
      congruence.
  - apply diag_perm; [exact Ind|]. intros p. rewrite Ilog. split.
    + intros (i & pc & Hp & Hi & _). exists i. split; [exact Hp|]. rewrite <- Ilen. apply nth_error_Some. congruence.
    + intros (i & Hp & Hi). exists i, 4. split; [exact Hp|]. split; [apply B; exact Hi|lia].
  - intros i Hi. unfold worker_done. rewrite (B i Hi). reflexivity.
Qed.

Theorem map_mutex : forall n sched, let s := arun skel_list_map n (a_init n) sched in
  forall i j, i < n -> j < n -> in_critical s i = true -> in_critical s j = true -> i = j.
Proof.
  intros n sched s i j _ _ Hi Hj.
  assert (I : InvM n s) by (apply invM_run, invM_init).
  destruct I as [Ilen Irlen Isp Ipc (Im1 & Im2 & Im3) Icnt Ind Ilog Imu Ires Iret Iall Ipan].
  unfold in_critical in Hi, Hj.
  destruct (nth_error (a_wpc s) i) as [pi|] eqn:Ei; [|discriminate].
  destruct (nth_error (a_wpc s) j) as [pj|] eqn:Ej; [|discriminate].
  assert (X : a_mutex s = Some i) by (apply Imu; exists pi; split; [exact Ei|lia]).
  assert (Y : a_mutex s = Some j) by (apply Imu; exists pj; split; [exact Ej|lia]).
  congruence.
Qed.

(* the worker in the critical section is the holder recorded in the mutex *)
Theorem map_mutex_holder : forall n sched, let s := arun skel_list_map n (a_init n) sched in
  forall i, in_critical s i = true <-> a_mutex s = Some i.
Proof.
  intros n sched s i.
  assert (I : InvM n s) by (apply invM_run, invM_init).
  destruct I as [Ilen Irlen Isp Ipc (Im1 & Im2 & Im3) Icnt Ind Ilog Imu Ires Iret Iall Ipan].
  rewrite Imu. unfold in_critical. split.
  - destruct (nth_error (a_wpc s) i) as [pc|] eqn:E; [|discriminate]. intros H. exists pc. split; [reflexivity|lia].
  - intros (pc & E & H). rewrite E. lia.
Qed.

Theorem map_progress : forall n sched, let s := arun skel_list_map n (a_init n) sched in
  a_returned s = false -> exists t, t <= n /\ enabled skel_list_map n s t = true.
Proof.
  intros n sched s R.
  assert (I : InvM n s) by (apply invM_run, invM_init).
  destruct I as [Ilen Irlen Isp Ipc (Im1 & Im2 & Im3) Icnt Ind Ilog Imu Ires Iret Iall Ipan].
  assert (M5 : a_mpc s <> 5) by (intros E; apply Iret in E; congruence).
  unfold enabled, astep. rewrite R, Ipan. cbn [orb].
  destruct (a_mpc s) as [|[|[|[|[|m]]]]] eqn:M.
  - exists n. split; [lia|]. rewrite Nat.eqb_refl. reflexivity.
  - exists n. split; [lia|]. rewrite Nat.eqb_refl. reflexivity.
  - exists n. split; [lia|]. rewrite Nat.eqb_refl. cbn [skel_list_map s_main nth_error].
    destruct (a_spawned s <? n); reflexivity.
  - destruct (a_counter s <=? 0)%Z eqn:C.
    + exists n. split; [lia|]. rewrite Nat.eqb_refl. cbn [skel_list_map s_main nth_error]. reflexivity.
    + cbn [Nat.leb] in Icnt. rewrite Im3 by lia.
      destruct (a_mutex s) as [h|] eqn:Mu.
      * (* the holder can move *)
        destruct (proj1 (Imu h) eq_refl) as (pc & Hh & Hpc).
        assert (Hin : h < n) by (rewrite <- Ilen; apply nth_error_Some; congruence).
        exists h. split; [lia|].
        replace (h =? n) with false by lia. replace (h <? n) with true by lia.
        rewrite Hh. cbn [skel_list_map s_worker].
        destruct pc as [|[|[|pc]]]; cbn [nth_error]; try reflexivity; lia.
      * (* the mutex is free: any unfinished worker can move *)
        destruct (cnt_notfull 4 (a_wpc s)) as (i & pc & Hi & Hpc); [lia|].
        assert (Hin : i < n) by (rewrite <- Ilen; apply nth_error_Some; congruence).
        exists i. split; [lia|].
        replace (i =? n) with false by lia. replace (i <? n) with true by lia.
        rewrite Hi. destruct (Ipc i pc Hi) as [Hle _].
        cbn [skel_list_map s_worker].
        destruct pc as [|[|[|[|[|pc]]]]]; cbn [nth_error]; try reflexivity; lia.
  - exists n. split; [lia|]. rewrite Nat.eqb_refl. reflexivity.
  - lia.
Qed.

(* skel_object_map is the same skeleton *)
Lemma skel_object_map_eq : skel_object_map = skel_list_map.
Proof. reflexivity. Qed.

(* ---------- regressions: broken skeletons are refuted by a concrete schedule ---------- *)
Example no_wait_refuted : exists sched, let sk := mkSkel [MAdd; MSpawn true; MRet] [WCall; WDone] in
  let s := arun sk 2 (a_init 2) sched in a_returned s = true /\ length (a_log s) < 2.
Proof. exists [2; 2; 2; 2; 2]. vm_compute. split; [reflexivity|lia]. Qed.

Example done_before_call_refuted : exists sched, let sk := mkSkel [MAdd; MSpawn true; MWait; MRet] [WDone; WCall] in
  let s := arun sk 2 (a_init 2) sched in a_returned s = true /\ length (a_log s) < 2.
Proof. exists [2; 2; 2; 2; 0; 1; 2; 2]. vm_compute. split; [reflexivity|lia]. Qed.

Example captured_loop_variable_refuted : exists sched, let sk := mkSkel [MAdd; MSpawn false; MWait; MRet] [WCall; WDone] in
  let s := arun sk 2 (a_init 2) sched in a_returned s = true /\ ~ Permutation (a_log s) [(0, 0); (1, 1)].
Proof.
  exists [2; 2; 2; 2; 0; 0; 1; 1; 2; 2]. vm_compute. split; [reflexivity|].
  intros HP. apply Permutation_sym in HP. apply (Permutation_in (0, 0)) in HP; [|left; reflexivity].
  simpl in HP. destruct HP as [E | [E | []]]; discriminate.
Qed.

(* add_inside_goroutine: the instruction set has no worker-side Add (MAdd adds the whole count at once, in main), so the
   exact variant is not expressible.  The closest expressible ordering bug — Add issued only after the workers were
   started — is refuted: a worker's Done can run first and drive the counter negative (Go panics). *)
Example add_after_spawn_refuted : exists sched, let sk := mkSkel [MSpawn true; MAdd; MWait; MRet] [WCall; WDone] in
  let s := arun sk 2 (a_init 2) sched in a_panicked s = true.
Proof. exists [2; 0; 0]. vm_compute. reflexivity. Qed.
