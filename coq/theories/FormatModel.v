(* FormatModel.v — FormatString(indent) of both containers: the range check, then json.Indent over String(). *)
From Anytype Require Import Base FloatBits Value Json JsonDoc.
Local Open Scope Z_scope.

Definition format_string (fmt_e fmt_f : Z -> bytes) (v : val) (indent : Z) : res bytes :=
  if (indent <? 0) || (10 <? indent) then Panic
  else Ok (indent_text (Z.to_nat indent) (ser fmt_e fmt_f v)).

Lemma format_string_range fmt_e fmt_f v indent :
  format_string fmt_e fmt_f v indent = Panic <-> (indent < 0 \/ 10 < indent).
Proof. unfold format_string. destruct ((indent <? 0) || (10 <? indent)) eqn:E; split; intros H; try discriminate; try reflexivity; lia. Qed.
Lemma format_string_in_range fmt_e fmt_f v indent : 0 <= indent <= 10 ->
  format_string fmt_e fmt_f v indent = Ok (indent_text (Z.to_nat indent) (ser fmt_e fmt_f v)).
Proof. intros H. unfold format_string. destruct ((indent <? 0) || (10 <? indent)) eqn:E; [lia | reflexivity]. Qed.
