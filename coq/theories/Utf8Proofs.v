(* Utf8Proofs.v — round-trip, canonicity and structure theorems for the UTF-8 model of Utf8.v *)
From Anytype Require Import Base Utf8.
From Coq Require Import ZifyBool.
Local Open Scope Z_scope.
Ltac Zify.zify_post_hook ::= Z.div_mod_to_equations.

(* ---------- small helpers ---------- *)

Lemma byte_of_Z_eq : forall b z, bZ b = z -> b = byte_of_Z z.
Proof. intros b z H. rewrite <- H. symmetry. apply byte_of_Z_bZ. Qed.

Lemma valid_rune_range : forall r, valid_rune r = true -> 0 <= r <= 1114111 /\ (r < 55296 \/ 57343 < r).
Proof. intros r H. unfold valid_rune in H. lia. Qed.

Lemma valid_rune_intro : forall r, 0 <= r <= 1114111 -> (r < 55296 \/ 57343 < r) -> valid_rune r = true.
Proof. intros r H1 H2. unfold valid_rune. lia. Qed.

Lemma valid_rune_error : valid_rune rune_error = true.
Proof. reflexivity. Qed.

(* ---------- encode_rune by size class ---------- *)

Lemma encode_rune_valid_unfold : forall r, valid_rune r = true ->
  encode_rune r =
  if r <? 128 then [byte_of_Z r]
  else if r <? 2048 then [byte_of_Z (192 + r / 64); byte_of_Z (128 + r mod 64)]
  else if r <? 65536 then [byte_of_Z (224 + r / 4096); byte_of_Z (128 + (r / 64) mod 64); byte_of_Z (128 + r mod 64)]
  else [byte_of_Z (240 + r / 262144); byte_of_Z (128 + (r / 4096) mod 64); byte_of_Z (128 + (r / 64) mod 64); byte_of_Z (128 + r mod 64)].
Proof. intros r H. unfold encode_rune. rewrite H. reflexivity. Qed.

Lemma encode_rune_invalid : forall r, valid_rune r = false -> encode_rune r = encode_rune rune_error.
Proof. intros r H. unfold encode_rune. rewrite H. rewrite valid_rune_error. reflexivity. Qed.

Lemma encode_rune_1 : forall r, 0 <= r < 128 -> encode_rune r = [byte_of_Z r].
Proof. intros r H. rewrite encode_rune_valid_unfold by (apply valid_rune_intro; lia).
  replace (r <? 128) with true by lia. reflexivity. Qed.

Lemma encode_rune_2 : forall r, 128 <= r < 2048 ->
  encode_rune r = [byte_of_Z (192 + r / 64); byte_of_Z (128 + r mod 64)].
Proof. intros r H. rewrite encode_rune_valid_unfold by (apply valid_rune_intro; lia).
  replace (r <? 128) with false by lia. replace (r <? 2048) with true by lia. reflexivity. Qed.

Lemma encode_rune_3 : forall r, valid_rune r = true -> 2048 <= r < 65536 ->
  encode_rune r = [byte_of_Z (224 + r / 4096); byte_of_Z (128 + (r / 64) mod 64); byte_of_Z (128 + r mod 64)].
Proof. intros r V H. rewrite encode_rune_valid_unfold by exact V.
  replace (r <? 128) with false by lia. replace (r <? 2048) with false by lia.
  replace (r <? 65536) with true by lia. reflexivity. Qed.

Lemma encode_rune_4 : forall r, 65536 <= r <= 1114111 ->
  encode_rune r = [byte_of_Z (240 + r / 262144); byte_of_Z (128 + (r / 4096) mod 64); byte_of_Z (128 + (r / 64) mod 64); byte_of_Z (128 + r mod 64)].
Proof. intros r H. rewrite encode_rune_valid_unfold by (apply valid_rune_intro; lia).
  replace (r <? 128) with false by lia. replace (r <? 2048) with false by lia.
  replace (r <? 65536) with false by lia. reflexivity. Qed.

(* the four size classes of a valid rune *)
Lemma valid_rune_classes : forall r, valid_rune r = true ->
  (0 <= r < 128) \/ (128 <= r < 2048) \/ (2048 <= r < 65536) \/ (65536 <= r <= 1114111).
Proof. intros r H. apply valid_rune_range in H. lia. Qed.

(* (U1) *)
Lemma encode_rune_length_valid : forall r, valid_rune r = true -> (1 <= length (encode_rune r) <= 4)%nat.
Proof. intros r V. destruct (valid_rune_classes r V) as [H | [H | [H | H]]].
  - rewrite encode_rune_1 by exact H. cbn [length]. lia.
  - rewrite encode_rune_2 by exact H. cbn [length]. lia.
  - rewrite encode_rune_3 by assumption. cbn [length]. lia.
  - rewrite encode_rune_4 by exact H. cbn [length]. lia. Qed.

Lemma encode_rune_length : forall r, (1 <= length (encode_rune r) <= 4)%nat.
Proof. intros r. destruct (valid_rune r) eqn:V.
  - apply encode_rune_length_valid. exact V.
  - rewrite encode_rune_invalid by exact V. apply encode_rune_length_valid. apply valid_rune_error. Qed.

(* ---------- decode_rune on well-formed prefixes ---------- *)

Lemma decode_1 : forall b t, bZ b < 128 -> decode_rune (b :: t) = (bZ b, 1%nat).
Proof. intros b t H. unfold decode_rune. cbv zeta. replace (bZ b <? 128) with true by lia. reflexivity. Qed.

Lemma decode_2 : forall b0 b1 t, 194 <= bZ b0 <= 223 -> 128 <= bZ b1 <= 191 ->
  decode_rune (b0 :: b1 :: t) = ((bZ b0 - 192) * 64 + (bZ b1 - 128), 2%nat).
Proof. intros b0 b1 t H0 H1. unfold decode_rune, is_cont. cbv zeta.
  replace (bZ b0 <? 128) with false by lia.
  replace ((194 <=? bZ b0) && (bZ b0 <=? 223)) with true by lia.
  replace ((128 <=? bZ b1) && (bZ b1 <=? 191)) with true by lia. reflexivity. Qed.

Lemma decode_3 : forall b0 b1 b2 t, 224 <= bZ b0 <= 239 -> 128 <= bZ b1 <= 191 ->
  (bZ b0 = 224 -> 160 <= bZ b1) -> (bZ b0 = 237 -> bZ b1 <= 159) -> 128 <= bZ b2 <= 191 ->
  decode_rune (b0 :: b1 :: b2 :: t) = ((bZ b0 - 224) * 4096 + (bZ b1 - 128) * 64 + (bZ b2 - 128), 3%nat).
Proof. intros b0 b1 b2 t H0 H1 Hlo Hhi H2. unfold decode_rune, is_cont, in_rng. cbv zeta.
  replace (bZ b0 <? 128) with false by lia.
  replace ((194 <=? bZ b0) && (bZ b0 <=? 223)) with false by lia.
  replace ((224 <=? bZ b0) && (bZ b0 <=? 239)) with true by lia.
  replace ((128 <=? bZ b2) && (bZ b2 <=? 191)) with true by lia.
  destruct (bZ b0 =? 224) eqn:E224; destruct (bZ b0 =? 237) eqn:E237.
  - lia.
  - replace ((160 <=? bZ b1) && (bZ b1 <=? 191)) with true by lia. reflexivity.
  - replace ((128 <=? bZ b1) && (bZ b1 <=? 159)) with true by lia. reflexivity.
  - replace ((128 <=? bZ b1) && (bZ b1 <=? 191)) with true by lia. reflexivity. Qed.

Lemma decode_4 : forall b0 b1 b2 b3 t, 240 <= bZ b0 <= 244 -> 128 <= bZ b1 <= 191 ->
  (bZ b0 = 240 -> 144 <= bZ b1) -> (bZ b0 = 244 -> bZ b1 <= 143) -> 128 <= bZ b2 <= 191 -> 128 <= bZ b3 <= 191 ->
  decode_rune (b0 :: b1 :: b2 :: b3 :: t) =
  ((bZ b0 - 240) * 262144 + (bZ b1 - 128) * 4096 + (bZ b2 - 128) * 64 + (bZ b3 - 128), 4%nat).
Proof. intros b0 b1 b2 b3 t H0 H1 Hlo Hhi H2 H3. unfold decode_rune, is_cont, in_rng. cbv zeta.
  replace (bZ b0 <? 128) with false by lia.
  replace ((194 <=? bZ b0) && (bZ b0 <=? 223)) with false by lia.
  replace ((224 <=? bZ b0) && (bZ b0 <=? 239)) with false by lia.
  replace ((240 <=? bZ b0) && (bZ b0 <=? 244)) with true by lia.
  replace ((128 <=? bZ b2) && (bZ b2 <=? 191)) with true by lia.
  replace ((128 <=? bZ b3) && (bZ b3 <=? 191)) with true by lia.
  destruct (bZ b0 =? 240) eqn:E240; destruct (bZ b0 =? 244) eqn:E244.
  - lia.
  - replace ((144 <=? bZ b1) && (bZ b1 <=? 191)) with true by lia. reflexivity.
  - replace ((128 <=? bZ b1) && (bZ b1 <=? 143)) with true by lia. reflexivity.
  - replace ((128 <=? bZ b1) && (bZ b1 <=? 191)) with true by lia. reflexivity. Qed.

(* (U2) *)
Lemma decode_encode : forall r t, valid_rune r = true ->
  decode_rune (encode_rune r ++ t) = (r, length (encode_rune r)).
Proof. intros r t V. destruct (valid_rune_classes r V) as [H | [H | [H | H]]].
  - rewrite encode_rune_1 by exact H. cbn [app length].
    rewrite decode_1 by (rewrite bZ_byte_of_Z by lia; lia).
    rewrite bZ_byte_of_Z by lia. reflexivity.
  - rewrite encode_rune_2 by exact H. cbn [app length].
    assert (B0 : bZ (byte_of_Z (192 + r / 64)) = 192 + r / 64) by (apply bZ_byte_of_Z; lia).
    assert (B1 : bZ (byte_of_Z (128 + r mod 64)) = 128 + r mod 64) by (apply bZ_byte_of_Z; lia).
    rewrite decode_2 by (rewrite ?B0, ?B1; lia).
    rewrite B0, B1. f_equal. lia.
  - apply valid_rune_range in V.
    rewrite encode_rune_3 by (try apply valid_rune_intro; lia). cbn [app length].
    assert (B0 : bZ (byte_of_Z (224 + r / 4096)) = 224 + r / 4096) by (apply bZ_byte_of_Z; lia).
    assert (B1 : bZ (byte_of_Z (128 + (r / 64) mod 64)) = 128 + (r / 64) mod 64) by (apply bZ_byte_of_Z; lia).
    assert (B2 : bZ (byte_of_Z (128 + r mod 64)) = 128 + r mod 64) by (apply bZ_byte_of_Z; lia).
    rewrite decode_3 by (rewrite ?B0, ?B1, ?B2; lia).
    rewrite B0, B1, B2. f_equal. lia.
  - rewrite encode_rune_4 by exact H. cbn [app length].
    assert (B0 : bZ (byte_of_Z (240 + r / 262144)) = 240 + r / 262144) by (apply bZ_byte_of_Z; lia).
    assert (B1 : bZ (byte_of_Z (128 + (r / 4096) mod 64)) = 128 + (r / 4096) mod 64) by (apply bZ_byte_of_Z; lia).
    assert (B2 : bZ (byte_of_Z (128 + (r / 64) mod 64)) = 128 + (r / 64) mod 64) by (apply bZ_byte_of_Z; lia).
    assert (B3 : bZ (byte_of_Z (128 + r mod 64)) = 128 + r mod 64) by (apply bZ_byte_of_Z; lia).
    rewrite decode_4 by (rewrite ?B0, ?B1, ?B2, ?B3; lia).
    rewrite B0, B1, B2, B3. f_equal. lia. Qed.

(* ---------- complete case analysis of decode_rune ---------- *)

Inductive decode_spec : bytes -> Z -> nat -> Prop :=
| DS_empty : decode_spec [] rune_error 0%nat
| DS_err : forall s, s <> [] -> decode_spec s rune_error 1%nat
| DS_1 : forall b t, bZ b < 128 -> decode_spec (b :: t) (bZ b) 1%nat
| DS_2 : forall b0 b1 t, 194 <= bZ b0 <= 223 -> 128 <= bZ b1 <= 191 ->
    decode_spec (b0 :: b1 :: t) ((bZ b0 - 192) * 64 + (bZ b1 - 128)) 2%nat
| DS_3 : forall b0 b1 b2 t, 224 <= bZ b0 <= 239 -> 128 <= bZ b1 <= 191 ->
    (bZ b0 = 224 -> 160 <= bZ b1) -> (bZ b0 = 237 -> bZ b1 <= 159) -> 128 <= bZ b2 <= 191 ->
    decode_spec (b0 :: b1 :: b2 :: t) ((bZ b0 - 224) * 4096 + (bZ b1 - 128) * 64 + (bZ b2 - 128)) 3%nat
| DS_4 : forall b0 b1 b2 b3 t, 240 <= bZ b0 <= 244 -> 128 <= bZ b1 <= 191 ->
    (bZ b0 = 240 -> 144 <= bZ b1) -> (bZ b0 = 244 -> bZ b1 <= 143) -> 128 <= bZ b2 <= 191 -> 128 <= bZ b3 <= 191 ->
    decode_spec (b0 :: b1 :: b2 :: b3 :: t)
      ((bZ b0 - 240) * 262144 + (bZ b1 - 128) * 4096 + (bZ b2 - 128) * 64 + (bZ b3 - 128)) 4%nat.

Ltac dif D C := match type of D with _ = (if ?c then _ else _) => destruct c eqn:C end.
Ltac ds_err D := injection D as -> ->; apply DS_err; discriminate.

Lemma decode_rune_spec : forall s r n, decode_rune s = (r, n) -> decode_spec s r n.
Proof. intros s r n D. symmetry in D. destruct s as [|b0 t].
  - cbn [decode_rune] in D. injection D as -> ->. apply DS_empty.
  - unfold decode_rune in D. cbv zeta in D. unfold is_cont, in_rng in D.
    dif D E1.
    { injection D as -> ->. apply DS_1. lia. }
    dif D E2.
    { destruct t as [|b1 t]; [ds_err D|]. dif D C1; [|ds_err D].
      injection D as -> ->. apply DS_2; lia. }
    dif D E3.
    { destruct t as [|b1 [|b2 t]]; [ds_err D|ds_err D|].
      destruct (bZ b0 =? 224) eqn:E224; destruct (bZ b0 =? 237) eqn:E237;
        (dif D C1; [|ds_err D]); injection D as -> ->; apply DS_3; lia. }
    dif D E4.
    { destruct t as [|b1 [|b2 [|b3 t]]]; [ds_err D|ds_err D|ds_err D|].
      destruct (bZ b0 =? 240) eqn:E240; destruct (bZ b0 =? 244) eqn:E244;
        (dif D C1; [|ds_err D]); injection D as -> ->; apply DS_4; lia. }
    ds_err D. Qed.

(* (U3) *)
Lemma decode_rune_size : forall s r n, decode_rune s = (r, n) ->
  (n <= length s)%nat /\ (n <= 4)%nat /\ (n = 0%nat <-> s = []).
Proof. intros s r n D. apply decode_rune_spec in D.
  destruct D as [ | s Hs | b t H | b0 b1 t H0 H1 | b0 b1 b2 t H0 H1 Hlo Hhi H2 | b0 b1 b2 b3 t H0 H1 Hlo Hhi H2 H3 ];
    cbn [length].
  - split; [lia|]. split; [lia|]. split; reflexivity.
  - destruct s as [|b t]; [congruence|]. cbn [length]. split; [lia|]. split; [lia|]. split; intros X; discriminate X.
  - split; [lia|]. split; [lia|]. split; intros X; discriminate X.
  - split; [lia|]. split; [lia|]. split; intros X; discriminate X.
  - split; [lia|]. split; [lia|]. split; intros X; discriminate X.
  - split; [lia|]. split; [lia|]. split; intros X; discriminate X. Qed.

Lemma decode_rune_nonempty_pos : forall s r n, decode_rune s = (r, n) -> s <> [] -> (1 <= n)%nat.
Proof. intros s r n D Hs. apply decode_rune_size in D. destruct D as [_ [_ D]]. 
  destruct n as [|n]; [|lia]. exfalso. apply Hs. apply D. reflexivity. Qed.

(* (U4) *)
Lemma decode_rune_valid : forall s r n, decode_rune s = (r, n) ->
  (r = rune_error /\ (n = 1%nat \/ n = 0%nat)) \/
  (valid_rune r = true /\ (1 <= n)%nat /\ firstn n s = encode_rune r).
Proof. intros s r n D. apply decode_rune_spec in D.
  destruct D as [ | s Hs | b t H | b0 b1 t H0 H1 | b0 b1 b2 t H0 H1 Hlo Hhi H2 | b0 b1 b2 b3 t H0 H1 Hlo Hhi H2 H3 ].
  - left. split; [reflexivity|]. right. reflexivity.
  - left. split; [reflexivity|]. left. reflexivity.
  - right. pose proof (bZ_range b) as R. split; [apply valid_rune_intro; lia|]. split; [lia|].
    rewrite encode_rune_1 by lia. rewrite byte_of_Z_bZ. reflexivity.
  - right. pose proof (bZ_range b0) as R0. pose proof (bZ_range b1) as R1.
    split; [apply valid_rune_intro; lia|]. split; [lia|].
    rewrite encode_rune_2 by lia. cbn [firstn].
    apply f_equal2; [apply byte_of_Z_eq; lia|].
    apply f_equal2; [apply byte_of_Z_eq; lia|]. reflexivity.
  - right.
    assert (V : valid_rune ((bZ b0 - 224) * 4096 + (bZ b1 - 128) * 64 + (bZ b2 - 128)) = true)
      by (apply valid_rune_intro; lia).
    split; [exact V|]. split; [lia|].
    rewrite encode_rune_3 by (try exact V; lia). cbn [firstn].
    apply f_equal2; [apply byte_of_Z_eq; lia|].
    apply f_equal2; [apply byte_of_Z_eq; lia|].
    apply f_equal2; [apply byte_of_Z_eq; lia|]. reflexivity.
  - right. split; [apply valid_rune_intro; lia|]. split; [lia|].
    rewrite encode_rune_4 by lia. cbn [firstn].
    apply f_equal2; [apply byte_of_Z_eq; lia|].
    apply f_equal2; [apply byte_of_Z_eq; lia|].
    apply f_equal2; [apply byte_of_Z_eq; lia|].
    apply f_equal2; [apply byte_of_Z_eq; lia|]. reflexivity. Qed.

Corollary decode_ok_encode : forall s r n, decode_rune s = (r, n) -> n <> 0%nat ->
  ((r =? rune_error) && Nat.eqb n 1) = false ->
  valid_rune r = true /\ firstn n s = encode_rune r /\ s = encode_rune r ++ skipn n s /\ length (encode_rune r) = n.
Proof. intros s r n D Hn T.
  pose proof (decode_rune_size s r n D) as [L _].
  destruct (decode_rune_valid s r n D) as [[-> [-> | ->]] | [V [_ F]]].
  - discriminate T.
  - congruence.
  - split; [exact V|]. split; [exact F|]. split.
    + rewrite <- F. symmetry. apply firstn_skipn.
    + rewrite <- F. apply firstn_length_le. exact L. Qed.

(* ---------- (U5) ASCII facts ---------- *)

Lemma decode_ascii : forall b t, bZ b < 128 -> decode_rune (b :: t) = (bZ b, 1%nat).
Proof. exact decode_1. Qed.

Lemma encode_ascii : forall r, 0 <= r < 128 -> encode_rune r = [byte_of_Z r].
Proof. exact encode_rune_1. Qed.

Ltac forall_byte := apply Forall_cons; [cbv beta; rewrite bZ_byte_of_Z by lia; lia|].

Lemma encode_rune_nonascii_bytes : forall r, valid_rune r = true -> 128 <= r ->
  Forall (fun b => 128 <= bZ b) (encode_rune r).
Proof. intros r V H. destruct (valid_rune_classes r V) as [H1 | [H2 | [H3 | H4]]].
  - lia.
  - rewrite encode_rune_2 by exact H2. forall_byte. forall_byte. apply Forall_nil.
  - rewrite encode_rune_3 by assumption. forall_byte. forall_byte. forall_byte. apply Forall_nil.
  - rewrite encode_rune_4 by exact H4. forall_byte. forall_byte. forall_byte. forall_byte. apply Forall_nil. Qed.

Lemma encode_rune_head_ascii : forall r, valid_rune r = true -> r < 128 ->
  encode_rune r = [byte_of_Z r] /\ bZ (byte_of_Z r) = r.
Proof. intros r V H. apply valid_rune_range in V. split.
  - apply encode_rune_1. lia.
  - apply bZ_byte_of_Z. lia. Qed.

(* length of the encoding determines the size class *)
Lemma encode_rune_length_1 : forall r, valid_rune r = true -> length (encode_rune r) = 1%nat -> 0 <= r < 128.
Proof. intros r V L. destruct (valid_rune_classes r V) as [H1 | [H2 | [H3 | H4]]].
  - exact H1.
  - rewrite encode_rune_2 in L by exact H2. discriminate L.
  - rewrite encode_rune_3 in L by assumption. discriminate L.
  - rewrite encode_rune_4 in L by exact H4. discriminate L. Qed.

(* the ill-formedness test of utf8_valid never fires on a canonical encoding *)
Lemma encode_rune_not_error1 : forall r, valid_rune r = true ->
  ((r =? rune_error) && Nat.eqb (length (encode_rune r)) 1) = false.
Proof. intros r V. destruct (Nat.eqb (length (encode_rune r)) 1) eqn:E.
  - apply Nat.eqb_eq in E. apply encode_rune_length_1 in E; [|exact V]. unfold rune_error. lia.
  - apply andb_false_r. Qed.

(* ---------- (U6) utf8_valid structure ---------- *)

Lemma utf8_valid_nil : utf8_valid [] = true.
Proof. reflexivity. Qed.

Lemma utf8_valid_fuel_irrel : forall f f' s, (length s <= f)%nat -> (length s <= f')%nat ->
  utf8_valid_fuel f s = utf8_valid_fuel f' s.
Proof. induction f as [|f IH]; intros f' s L L'.
  - destruct s as [|b t]; [|cbn [length] in L; lia]. destruct f'; reflexivity.
  - destruct s as [|b t]; [destruct f'; reflexivity|].
    destruct f' as [|f']; [cbn [length] in L'; lia|].
    cbn [utf8_valid_fuel]. destruct (decode_rune (b :: t)) as [r n] eqn:D.
    destruct ((r =? rune_error) && Nat.eqb n 1); [reflexivity|].
    assert (P : (1 <= n)%nat) by (apply (decode_rune_nonempty_pos _ _ _ D); discriminate).
    assert (K : (length (skipn n (b :: t)) <= length t)%nat)
      by (rewrite skipn_length; cbn [length]; lia).
    cbn [length] in L, L'. apply IH; lia. Qed.

Lemma utf8_valid_fuel_enough : forall f s, (length s <= f)%nat -> utf8_valid_fuel f s = utf8_valid s.
Proof. intros f s L. unfold utf8_valid. apply utf8_valid_fuel_irrel; lia. Qed.

Lemma utf8_valid_step : forall s r n, s <> [] -> decode_rune s = (r, n) ->
  utf8_valid s = if (r =? rune_error) && Nat.eqb n 1 then false else utf8_valid (skipn n s).
Proof. intros s r n Hs D. destruct s as [|b t]; [congruence|].
  unfold utf8_valid at 1. cbn [length utf8_valid_fuel]. rewrite D.
  destruct ((r =? rune_error) && Nat.eqb n 1); [reflexivity|].
  apply utf8_valid_fuel_enough.
  assert (P : (1 <= n)%nat) by (apply (decode_rune_nonempty_pos _ _ _ D); discriminate).
  rewrite skipn_length. cbn [length]. lia. Qed.

Lemma skipn_length_app : forall (a b : bytes), skipn (length a) (a ++ b) = b.
Proof. induction a as [|x a IH]; intros b; [reflexivity|]. cbn [length app skipn]. apply IH. Qed.

Lemma encode_rune_nonnil : forall r, encode_rune r <> [].
Proof. intros r E. pose proof (encode_rune_length r) as L. rewrite E in L. cbn [length] in L. lia. Qed.

Lemma utf8_valid_cons_rune : forall r s, valid_rune r = true ->
  utf8_valid (encode_rune r ++ s) = utf8_valid s.
Proof. intros r s V.
  assert (N : encode_rune r ++ s <> []).
  { intros E. apply app_eq_nil in E. destruct E as [E _]. exact (encode_rune_nonnil r E). }
  rewrite (utf8_valid_step _ _ _ N (decode_encode r s V)).
  rewrite encode_rune_not_error1 by exact V.
  rewrite skipn_length_app. reflexivity. Qed.

Lemma utf8_valid_inv : forall s, utf8_valid s = true ->
  s = [] \/ exists r s', valid_rune r = true /\ s = encode_rune r ++ s' /\ utf8_valid s' = true.
Proof. intros s H. destruct s as [|b t]; [left; reflexivity|]. right.
  destruct (decode_rune (b :: t)) as [r n] eqn:D.
  assert (N : b :: t <> []) by discriminate.
  rewrite (utf8_valid_step _ _ _ N D) in H.
  destruct ((r =? rune_error) && Nat.eqb n 1) eqn:T; [discriminate H|].
  pose proof (decode_rune_nonempty_pos _ _ _ D N) as P.
  assert (Hn : n <> 0%nat) by lia.
  destruct (decode_ok_encode _ _ _ D Hn T) as [V [_ [S _]]].
  exists r, (skipn n (b :: t)). split; [exact V|]. split; [exact S|exact H]. Qed.

Lemma utf8_valid_ind : forall (P : bytes -> Prop), P [] ->
  (forall r s, valid_rune r = true -> utf8_valid s = true -> P s -> P (encode_rune r ++ s)) ->
  forall s, utf8_valid s = true -> P s.
Proof. intros P P0 PS.
  assert (G : forall k s, (length s <= k)%nat -> utf8_valid s = true -> P s).
  { induction k as [|k IH]; intros s L H.
    - destruct s as [|b t]; [exact P0|cbn [length] in L; lia].
    - destruct (utf8_valid_inv s H) as [-> | [r [s' [V [-> H']]]]]; [exact P0|].
      apply PS; [exact V|exact H'|]. apply IH; [|exact H'].
      rewrite app_length in L. pose proof (encode_rune_length r). lia. }
  intros s H. apply (G (length s)); [lia|exact H]. Qed.

Lemma utf8_valid_app : forall a b, utf8_valid a = true -> utf8_valid (a ++ b) = utf8_valid b.
Proof. intros a b H. revert a H. apply (utf8_valid_ind (fun a => utf8_valid (a ++ b) = utf8_valid b)).
  - reflexivity.
  - intros r s V _ IH. rewrite <- app_assoc. rewrite utf8_valid_cons_rune by exact V. exact IH. Qed.

Lemma utf8_valid_app_true : forall a b, utf8_valid a = true -> utf8_valid b = true -> utf8_valid (a ++ b) = true.
Proof. intros a b Ha Hb. rewrite utf8_valid_app by exact Ha. exact Hb. Qed.

Lemma utf8_valid_encode_rune : forall r, utf8_valid (encode_rune r) = true.
Proof. intros r. destruct (valid_rune r) eqn:V.
  - rewrite <- (app_nil_r (encode_rune r)). rewrite utf8_valid_cons_rune by exact V. reflexivity.
  - rewrite encode_rune_invalid by exact V. rewrite <- (app_nil_r (encode_rune rune_error)).
    rewrite utf8_valid_cons_rune by apply valid_rune_error. reflexivity. Qed.

(* ---------- (U7) ---------- *)

Lemma encode_rune_inj : forall r1 r2, valid_rune r1 = true -> valid_rune r2 = true ->
  encode_rune r1 = encode_rune r2 -> r1 = r2.
Proof. intros r1 r2 V1 V2 E.
  pose proof (decode_encode r1 [] V1) as D1. pose proof (decode_encode r2 [] V2) as D2.
  rewrite E in D1. rewrite D1 in D2. injection D2 as D2. exact D2. Qed.

(* the form in which the test appears in parsers: negb (ill-formed) = true *)
Corollary decode_ok_encode_negb : forall s r n, decode_rune s = (r, n) -> n <> 0%nat ->
  negb ((r =? rune_error) && Nat.eqb n 1) = true ->
  valid_rune r = true /\ firstn n s = encode_rune r /\ s = encode_rune r ++ skipn n s /\ length (encode_rune r) = n.
Proof. intros s r n D Hn T. apply negb_true_iff in T. exact (decode_ok_encode s r n D Hn T). Qed.
