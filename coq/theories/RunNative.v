(* RunNative.v — correspondence runners for C12 (normalisation of inserted Go values) and C13 (native exports). *)
From Anytype Require Import Base FloatBits Value Native RunCommon RunJson.
Local Open Scope Z_scope.

(* C12: (value as gov, what the implementation stored (as a tree) or Panic, NewListFrom outcome, NewObjectFrom outcome) *)
Definition c12_model (g : gov) := (norm g, new_list_from g, new_object_from g).
Definition c12_check (c : gov * res val * res val * res val) : bool :=
  let '(g, stored, lf, of) := c in
  res_eqb val_perm_eqb (norm g) stored && res_eqb val_perm_eqb (new_list_from g) lf && res_eqb val_perm_eqb (new_object_from g) of.

(* structural equality on the native fragment of gov (member order as given: the harness sorts map keys) *)
Fixpoint gov_eqb (a b : gov) : bool :=
  match a, b with
  | GNil, GNil => true
  | GBool x, GBool y => Bool.eqb x y
  | GStr x, GStr y => bytes_eqb x y
  | GIntW WInt x, GIntW WInt y => x =? y
  | GF64 x, GF64 y => fbits_same x y
  | GSliceAny x, GSliceAny y =>
      (fix go (x y : list gov) : bool :=
         match x, y with [], [] => true | p :: x', q :: y' => gov_eqb p q && go x' y' | _, _ => false end) x y
  | GMapAny x, GMapAny y =>
      (fix go (x y : list (bytes * gov)) : bool :=
         match x, y with
         | [], [] => true
         | (k, p) :: x', (k', q) :: y' => bytes_eqb k k' && gov_eqb p q && go x' y'
         | _, _ => false end) x y
  | GObjC x, GObjC y => val_perm_eqb (VObj x) (VObj y)
  | GListC x, GListC y => val_perm_eqb (VList x) (VList y)
  | _, _ => false
  end.

(* C13: (container content with sorted keys, the observed NativeSlice/NativeDict export, the observed one-level Slice()/Dict() snapshot) *)
Definition c13_model (v : val) := (native v, match v with VList l => GSliceAny (slice_snapshot l) | VObj kvs => GMapAny (dict_snapshot kvs) | _ => GNil end).
Definition c13_check (c : val * gov * gov) : bool :=
  let '(v, export, snapshot) := c in
  gov_eqb (native v) export && is_native export &&
  gov_eqb (snd (c13_model v)) snapshot &&
  res_eqb val_perm_eqb (norm export) (Ok v).
