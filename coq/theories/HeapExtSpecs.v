(* HeapExtSpecs.v — what the Map variants of HeapExt.v build (objects: same keys, selected fields only; lists: one fresh
   pair per selected element, with its index), what ForEach logs, and "typed programs never take the ill-typed escape":
   a decidable typing condition on the CURRENT state under which no operation answers OBad. *)
From Anytype Require Import Base FloatBits Value GoInt Sorting Equality Heap Aggregates HeapExt HeapProofs TreeFormProofs
  CloneProofs CloneHistory Footprint HeapExtProofs Reachable Acyclic.
Local Open Scope nat_scope.
Arguments clone_val : simpl never.  Arguments reify : simpl never.
Arguments get_tf : simpl never.  Arguments typeof_tf : simpl never.
Arguments set_tf : simpl never.  Arguments unset_tf : simpl never.

(* ================= A. the Map variants of objects ================= *)
(* the general form, over any accumulator: keys outside the selected ones keep what the accumulator had *)
Lemma omap_loop_lookup_acc sel f tagf : forall kvs h acc h' res, NoDup (akeys kvs) -> omap_loop sel f tagf h kvs acc = (h', res) ->
  forall k, match alookup k kvs with
            | Some x => if sel x then exists v, alookup k res = Some v else alookup k res = alookup k acc
            | None => alookup k res = alookup k acc
            end.
Proof. induction kvs as [|[k0 x0] t IH]; intros h acc h' res ND E k.
  - cbn [omap_loop] in E. injection E as <- <-. cbn [alookup]. reflexivity.
  - cbn [akeys map fst] in ND. inversion ND as [|? ? NI ND']. subst.
    assert (T0: alookup k0 t = None) by (apply alookup_None_notin; exact NI).
    cbn [omap_loop] in E. cbn [alookup].
    destruct (sel x0) eqn:SX.
    + destruct (store h (apply_mapf f (tagf k0 x0) x0)) as [h1 v] eqn:ST.
      pose proof (IH _ _ _ _ ND' E k) as Hk.
      destruct (bytes_eqb k k0) eqn:EK.
      * apply bytes_eqb_eq in EK. subst k0. rewrite SX. rewrite T0 in Hk. exists v. rewrite Hk. apply alookup_aset_eq.
      * apply bytes_eqb_neq in EK. rewrite (alookup_aset_neq k0 k v acc EK) in Hk. exact Hk.
    + pose proof (IH _ _ _ _ ND' E k) as Hk.
      destruct (bytes_eqb k k0) eqn:EK.
      * apply bytes_eqb_eq in EK. subst k0. rewrite SX. rewrite T0 in Hk. exact Hk.
      * exact Hk. Qed.

(* A1 *)
Theorem omap_loop_lookup : forall sel f tagf kvs h h' res, NoDup (akeys kvs) -> omap_loop sel f tagf h kvs [] = (h', res) ->
  forall k, match alookup k kvs with
            | Some x => if sel x then exists v, alookup k res = Some v else alookup k res = None
            | None => alookup k res = None
            end.
Proof. intros sel f tagf kvs h h' res ND E k. exact (omap_loop_lookup_acc sel f tagf kvs h [] h' res ND E k). Qed.

(* A2 *)
Lemma omap_loop_MId_acc sel tagf : forall kvs h acc, NoDup (akeys kvs) ->
  exists res, omap_loop sel MId tagf h kvs acc = (h, res) /\
    forall k, alookup k res = match alookup k kvs with
                              | Some x => if sel x then Some x else alookup k acc
                              | None => alookup k acc
                              end.
Proof. induction kvs as [|[k0 x0] t IH]; intros h acc ND.
  - exists acc. split; [reflexivity | intros k; reflexivity].
  - cbn [akeys map fst] in ND. inversion ND as [|? ? NI ND']. subst.
    assert (T0: alookup k0 t = None) by (apply alookup_None_notin; exact NI).
    cbn [omap_loop apply_mapf store].
    destruct (sel x0) eqn:SX.
    + destruct (IH h (aset k0 x0 acc) ND') as [res [E L]]. exists res. split; [exact E|]. intros k. rewrite L. cbn [alookup].
      destruct (bytes_eqb k k0) eqn:EK.
      * apply bytes_eqb_eq in EK. subst k0. rewrite T0, SX. apply alookup_aset_eq.
      * apply bytes_eqb_neq in EK. rewrite (alookup_aset_neq k0 k x0 acc EK). reflexivity.
    + destruct (IH h acc ND') as [res [E L]]. exists res. split; [exact E|]. intros k. rewrite L. cbn [alookup].
      destruct (bytes_eqb k k0) eqn:EK.
      * apply bytes_eqb_eq in EK. subst k0. rewrite T0, SX. reflexivity.
      * reflexivity. Qed.

Theorem omap_loop_MId : forall sel tagf kvs h, NoDup (akeys kvs) ->
  exists res, omap_loop sel MId tagf h kvs [] = (h, res) /\
    forall k, alookup k res = match alookup k kvs with Some x => if sel x then Some x else None | None => None end.
Proof. intros sel tagf kvs h ND. destruct (omap_loop_MId_acc sel tagf kvs h [] ND) as [res [E L]]. exists res. split; [exact E|].
  intros k. rewrite L. reflexivity. Qed.

(* A3 *)
Lemma akeys_aset_In {A} k (x : A) z : forall kvs, In z (akeys (aset k x kvs)) -> z = k \/ In z (akeys kvs).
Proof. induction kvs as [|[k' v] t IH]; cbn [aset akeys map fst].
  - intros [<- | []]. left. reflexivity.
  - destruct (bytes_eqb k k') eqn:EK; cbn [map fst].
    + apply bytes_eqb_eq in EK. subst k'. intros [<- | H]; [left; reflexivity | right; right; exact H].
    + intros [<- | H]; [right; left; reflexivity|]. destruct (IH H) as [-> | H']; [left; reflexivity | right; right; exact H']. Qed.
Lemma aset_NoDup {A} k (x : A) : forall kvs, NoDup (akeys kvs) -> NoDup (akeys (aset k x kvs)).
Proof. induction kvs as [|[k' v] t IH]; cbn [aset akeys map fst]; intros ND.
  - constructor; [intros [] | constructor].
  - inversion ND as [|? ? NI ND']. subst. destruct (bytes_eqb k k') eqn:EK; cbn [map fst].
    + apply bytes_eqb_eq in EK. subst k'. constructor; assumption.
    + apply bytes_eqb_neq in EK. constructor; [|exact (IH ND')]. intros H.
      destruct (akeys_aset_In k x k' t H) as [-> | H']; [exact (EK eq_refl) | exact (NI H')]. Qed.

Lemma omap_loop_nodup_acc sel f tagf : forall kvs h acc h' res, NoDup (akeys acc) -> omap_loop sel f tagf h kvs acc = (h', res) ->
  NoDup (akeys res).
Proof. induction kvs as [|[k0 x0] t IH]; intros h acc h' res ND E; cbn [omap_loop] in E.
  - injection E as <- <-. exact ND.
  - destruct (sel x0); [|exact (IH _ _ _ _ ND E)].
    destruct (store h (apply_mapf f (tagf k0 x0) x0)) as [h1 v]. exact (IH _ _ _ _ (aset_NoDup k0 v acc ND) E). Qed.

Theorem omap_loop_nodup : forall sel f tagf kvs h h' res, omap_loop sel f tagf h kvs [] = (h', res) -> NoDup (akeys res).
Proof. intros sel f tagf kvs h h' res E. apply (omap_loop_nodup_acc sel f tagf kvs h [] h' res); [constructor | exact E]. Qed.

(* ================= B. the Map variants of lists, ForEach ================= *)
(* the (index, element) pairs the loop selects, indexes counted from i *)
Definition selected (sel : hval -> bool) (i : Z) (l : list hval) : list (Z * hval) :=
  filter (fun p => sel (snd p)) (index_log l i).
Definition pair_cell (tagf : Z -> hval -> hval) (p : Z * hval) : cell := CList [tagf (fst p) (snd p); snd p].

Lemma selected_cons sel i x t :
  selected sel i (x :: t) = if sel x then (i, x) :: selected sel (i + 1)%Z t else selected sel (i + 1)%Z t.
Proof. unfold selected. cbn [index_log filter snd]. reflexivity. Qed.
Lemma selected_snd sel : forall l i, map snd (selected sel i l) = filter sel l.
Proof. induction l as [|x t IH]; intros i; [reflexivity|]. rewrite selected_cons. cbn [filter].
  destruct (sel x); cbn [map snd]; rewrite IH; reflexivity. Qed.
Lemma selected_length sel l i : length (selected sel i l) = length (filter sel l).
Proof. rewrite <- (selected_snd sel l i). rewrite map_length. reflexivity. Qed.

(* the exact result: the heap grows by one pair cell per selected element, in order; the result lists their ids *)
Theorem map_loop_MPair_eq : forall sel tagf l h i acc,
  map_loop sel MPair tagf h l i acc =
  (h ++ map (pair_cell tagf) (selected sel i l), acc ++ map HL (seq (length h) (length (selected sel i l)))).
Proof. intros sel tagf. induction l as [|x t IH]; intros h i acc.
  - cbn [map_loop selected index_log filter map length seq]. rewrite !app_nil_r. reflexivity.
  - rewrite selected_cons. cbn [map_loop apply_mapf store]. unfold alloc. destruct (sel x).
    + rewrite IH. cbn [map length seq]. rewrite <- !app_assoc. cbn [app]. rewrite app_length. cbn [length].
      rewrite Nat.add_1_r. unfold pair_cell at 2. cbn [fst snd]. reflexivity.
    + rewrite IH. reflexivity. Qed.

Lemma nth_error_seq_lt : forall n a j, j < n -> nth_error (seq a n) j = Some (a + j).
Proof. induction n as [|n IH]; intros a j L; [lia|]. destruct j as [|j]; cbn [seq nth_error].
  - f_equal. lia.
  - rewrite IH by lia. f_equal. lia. Qed.

(* B1, as stated *)
Theorem map_loop_MPair : forall sel tagf l h i,
  let '(h', res) := map_loop sel MPair tagf h l i [] in
  length res = length (filter sel l) /\
  (forall j v, nth_error res j = Some v -> exists id, v = HL id /\ length h <= id < length h') /\
  length h' = length h + length (filter sel l).
Proof. intros sel tagf l h i. rewrite map_loop_MPair_eq. cbn [app].
  rewrite map_length, seq_length, app_length, map_length, selected_length.
  split; [reflexivity|]. split; [|reflexivity].
  intros j v Hj.
  assert (L: j < length (filter sel l)).
  { assert (N: nth_error (map HL (seq (length h) (length (filter sel l)))) j <> None) by congruence.
    apply nth_error_Some in N. rewrite map_length, seq_length in N. exact N. }
  rewrite (map_nth_error HL j (seq (length h) (length (filter sel l))) (nth_error_seq_lt _ _ _ L)) in Hj.
  injection Hj as <-. exists (length h + j). split; [reflexivity | lia]. Qed.

(* B1, the content: the j-th selected element x_j (at index n_j of the source, counted from i) gives the fresh list
   [tagf n_j x_j; x_j], stored in cell (length h + j), and the result's j-th element is that cell *)
Theorem map_loop_MPair_content : forall sel tagf l h i,
  let '(h', res) := map_loop sel MPair tagf h l i [] in
  length res = length (selected sel i l) /\
  forall j p, nth_error (selected sel i l) j = Some p ->
    nth_error res j = Some (HL (length h + j)) /\
    nth_error h' (length h + j) = Some (CList [tagf (fst p) (snd p); snd p]).
Proof. intros sel tagf l h i. rewrite map_loop_MPair_eq. cbn [app]. split; [rewrite map_length, seq_length; reflexivity|].
  intros j p Hj.
  assert (L: j < length (selected sel i l)) by (apply nth_error_Some; congruence).
  split.
  - exact (map_nth_error HL j _ (nth_error_seq_lt _ _ _ L)).
  - rewrite nth_error_app2 by lia. replace (length h + j - length h) with j by lia.
    exact (map_nth_error (pair_cell tagf) j _ Hj). Qed.

(* the old cells are untouched *)
Corollary map_loop_MPair_old : forall sel tagf l h i id, id < length h ->
  nth_error (fst (map_loop sel MPair tagf h l i [])) id = nth_error h id.
Proof. intros sel tagf l h i id L. rewrite map_loop_MPair_eq. cbn [fst]. apply nth_error_app1. exact L. Qed.

(* B2 *)
Theorem index_log_spec : forall l i,
  map snd (index_log l i) = l /\ map fst (index_log l i) = map (fun k => (i + Z.of_nat k)%Z) (seq 0 (length l)).
Proof. induction l as [|x t IH]; intros i; [split; reflexivity|].
  destruct (IH (i + 1)%Z) as [IH1 IH2]. cbn [index_log map fst snd length seq]. split.
  - rewrite IH1. reflexivity.
  - rewrite IH2. rewrite <- seq_shift. rewrite map_map. f_equal; [cbn; lia|]. apply map_ext. intros k. lia. Qed.

(* the selected pairs carry the right indexes: the j-th selected pair is (i + position, element at that position) *)
Lemma index_log_nth : forall l i n x, nth_error l n = Some x -> nth_error (index_log l i) n = Some ((i + Z.of_nat n)%Z, x).
Proof. induction l as [|y t IH]; intros i n x H; [destruct n; discriminate|]. destruct n as [|n]; cbn [index_log nth_error] in *.
  - injection H as ->. f_equal. f_equal. lia.
  - rewrite (IH (i + 1)%Z n x H). f_equal. f_equal. lia. Qed.
Lemma index_log_In : forall l i p, In p (index_log l i) ->
  exists n, nth_error l n = Some (snd p) /\ fst p = (i + Z.of_nat n)%Z.
Proof. induction l as [|y t IH]; intros i p H; [destruct H|]. cbn [index_log] in H. destruct H as [<- | H].
  - exists 0. split; [reflexivity | cbn; lia].
  - destruct (IH _ _ H) as [n [E1 E2]]. exists (S n). split; [exact E1 | lia]. Qed.
Corollary selected_In sel l i p : In p (selected sel i l) ->
  sel (snd p) = true /\ exists n, nth_error l n = Some (snd p) /\ fst p = (i + Z.of_nat n)%Z.
Proof. unfold selected. intros H. apply filter_In in H as [H1 H2]. split; [exact H2 | exact (index_log_In _ _ _ H1)]. Qed.

(* ================= C. typed programs never take the "ill-typed" escape ================= *)
Theorem heap_acyclic_clone : forall h v, heap_wf h -> heap_acyclic h -> ref_ok h v -> clone_val (S (length h)) h v <> None.
Proof. intros h v W A OK C. pose proof (heap_acyclic_reify h v W A OK) as R.
  destruct (reify (S (length h)) h v) as [t|] eqn:E; [|exact (R eq_refl)].
  destruct (clone_total _ _ _ _ E) as [h' [v' C']]. congruence. Qed.

Definition reg_kind (s : state) (r : nat) : option bool :=
  match reg_list s r with
  | Some _ => Some true
  | None => match reg_obj s r with Some _ => Some false | None => None end
  end.

Lemma reg_kind_list s r : reg_kind s r = Some true <-> reg_list s r <> None.
Proof. unfold reg_kind. destruct (reg_list s r); [split; [discriminate | reflexivity]|].
  destruct (reg_obj s r); split; intros H; try discriminate; exfalso; apply H; reflexivity. Qed.
Lemma reg_kind_obj s r : reg_kind s r = Some false <-> reg_obj s r <> None.
Proof. unfold reg_kind, reg_list, reg_obj. destruct (nth_error (st_env s) r) as [[| | | | |id|id]|];
    try (split; intros H; [discriminate | exfalso; apply H; reflexivity]).
  - destruct (get_list (st_heap s) id); split; intros H; try discriminate; exfalso; apply H; reflexivity.
  - destruct (get_obj (st_heap s) id); split; intros H; try discriminate; try reflexivity; exfalso; apply H; reflexivity. Qed.

Definition is_list (s : state) (r : nat) : bool := match reg_kind s r with Some true => true | _ => false end.
Definition is_obj (s : state) (r : nat) : bool := match reg_kind s r with Some false => true | _ => false end.
Definition is_cont (s : state) (r : nat) : bool := match reg_kind s r with Some _ => true | None => false end.
Definition operand_inb (s : state) (o : operand) : bool :=
  match o with Lit _ => true | Reg n => Nat.ltb n (length (st_env s)) end.

Definition wt_op (s : state) (o : op) : bool :=
  match o with
  | NewList vs | NewObject vs => forallb (operand_inb s) vs
  | NewListOf v _ => operand_inb s v
  | LAdd r vs => is_list s r && forallb (operand_inb s) vs
  | LInsert r _ v | LReplace r _ v | LContains r v | LIndexOf r v => is_list s r && operand_inb s v
  | LDelete r _ | LPop r | LClear r | LReverse r | LSort r | LSubList r _ _ | LCount r | LEmpty r | LGet r _
  | LGetTyped _ r _ | LTypeOf r _ | LSlice r => is_list s r
  | LConcat r a => is_list s r && is_list s a
  | OSet r args => is_obj s r && forallb (operand_inb s) args
  | OUnset r _ | OClear r | OPluck r _ | OGet r _ | OGetTyped _ r _ | OTypeOf r _ | OKeyExists r _ | OCount r | OEmpty r
  | ODict r => is_obj s r
  | OMerge r a => is_obj s r && is_obj s a
  | OKeys r order | OValues r order =>
      match reg_obj s r with
      | Some (_, kvs) => match in_order kvs order with Some _ => true | None => false end
      | None => false
      end
  | OContains r v => is_obj s r && operand_inb s v
  | OKeyOf r v answer =>
      match reg_obj s r, eval_operand (st_env s) v with
      | Some (_, kvs), Some x =>
          match answer with
          | Some k => match alookup k kvs with Some y => hval_go_eq y x | None => false end
          | None => negb (o_contains kvs x)
          end
      | _, _ => false
      end
  | Clone r | GetTF r _ | UnsetTF r _ | TypeOfTF r _ => is_cont s r
  | Equals r a => match reg_kind s r, reg_kind s a with Some b1, Some b2 => Bool.eqb b1 b2 | _, _ => false end
  | SetTF r _ v => is_cont s r && operand_inb s v
  end.

Definition well_typedb (s : state) (o : xop) : bool :=
  match o with
  | Base b => wt_op s b
  | XNewListFrom src => forallb (operand_inb s) (nsrc_operands (NSlice src))
  | XNewObjectFrom src => forallb (operand_inb s) (nsrc_operands (NMap src))
  | XLFilter r _ | XLFilterK _ r _ | XLMap r _ | XLMapValues r _ | XLMapK _ r _ | XLMapAsync r _
  | XLForEach r | XLForEachValue r | XLForEachK _ r | XLForEachAsync r
  | XLReduce r | XLReduceStr r | XLReduceInt r | XLReduceFloat r | XLSliceK _ r | XLAll _ r | XLAllNumeric r | XLAgg _ r => is_list s r
  | XOForEach r | XOForEachValue r | XOForEachK _ r | XOForEachAsync r
  | XOMap r _ | XOMapValues r _ | XOMapK _ r _ | XOMapAsync r _ => is_obj s r
  | XString r | XFormat r _ | XNative r => is_cont s r
  end.

(* ---------- what the checks give ---------- *)
Lemma is_list_ex s r : is_list s r = true -> exists id l, reg_list s r = Some (id, l).
Proof. unfold is_list, reg_kind. destruct (reg_list s r) as [[id l]|]; [intros _; exists id, l; reflexivity|].
  destruct (reg_obj s r); discriminate. Qed.
Lemma is_obj_ex s r : is_obj s r = true -> exists id kvs, reg_obj s r = Some (id, kvs).
Proof. unfold is_obj, reg_kind. destruct (reg_list s r); [discriminate|].
  destruct (reg_obj s r) as [[id kvs]|]; [intros _; exists id, kvs; reflexivity | discriminate]. Qed.
Lemma reg_list_var s r id l : reg_list s r = Some (id, l) -> nth_error (st_env s) r = Some (HL id) /\ get_list (st_heap s) id = Some l.
Proof. unfold reg_list. destruct (nth_error (st_env s) r) as [[| | | | |i|i]|]; try discriminate.
  destruct (get_list (st_heap s) i) as [l0|] eqn:G; [|discriminate]. intros E. injection E as <- <-. split; [reflexivity | exact G]. Qed.
Lemma reg_obj_var s r id kvs : reg_obj s r = Some (id, kvs) -> nth_error (st_env s) r = Some (HO id) /\ get_obj (st_heap s) id = Some kvs.
Proof. unfold reg_obj. destruct (nth_error (st_env s) r) as [[| | | | |i|i]|]; try discriminate.
  destruct (get_obj (st_heap s) i) as [l0|] eqn:G; [|discriminate]. intros E. injection E as <- <-. split; [reflexivity | exact G]. Qed.
Lemma reg_kind_ex s r b : reg_kind s r = Some b -> exists v, nth_error (st_env s) r = Some v /\ ref_ok (st_heap s) v.
Proof. unfold reg_kind. destruct (reg_list s r) as [[id l]|] eqn:RL.
  - intros _. destruct (reg_list_var _ _ _ _ RL) as [E G]. exists (HL id). split; [exact E | exists l; exact G].
  - destruct (reg_obj s r) as [[id kvs]|] eqn:RO; [|discriminate].
    intros _. destruct (reg_obj_var _ _ _ _ RO) as [E G]. exists (HO id). split; [exact E | exists kvs; exact G]. Qed.
Lemma is_cont_ex s r : is_cont s r = true -> exists v, nth_error (st_env s) r = Some v /\ ref_ok (st_heap s) v.
Proof. unfold is_cont. destruct (reg_kind s r) as [b|] eqn:K; [|discriminate]. intros _. exact (reg_kind_ex s r b K). Qed.
Lemma operand_in_ex s o : operand_inb s o = true -> exists v, eval_operand (st_env s) o = Some v.
Proof. destruct o as [v|n]; cbn [operand_inb eval_operand]; intros H; [exists v; reflexivity|].
  apply Nat.ltb_lt in H. destruct (nth_error (st_env s) n) as [v|] eqn:E; [exists v; reflexivity|].
  apply nth_error_None in E. lia. Qed.
Lemma operands_in_ex s os : forallb (operand_inb s) os = true -> exists vs, eval_operands (st_env s) os = Some vs.
Proof. induction os as [|o t IH]; cbn [forallb eval_operands]; intros H; [exists []; reflexivity|].
  apply andb_true_iff in H as [H1 H2]. destruct (operand_in_ex _ _ H1) as [v ->]. destruct (IH H2) as [vs ->].
  exists (v :: vs). reflexivity. Qed.

Lemma untyped_not_bad r : untyped r <> Ret OBad.
Proof. destruct r; cbn [untyped]; discriminate. Qed.
Lemma typed_not_bad k r : typed k r <> Ret OBad.
Proof. destruct r as [v|]; cbn [typed]; [destruct (kind_eqb (hkind v) k)|]; discriminate. Qed.
Lemma lift_not_bad oc : oc <> Ret OBad -> lift oc <> XRet (XO OBad).
Proof. intros H E. destruct oc as [o|]; cbn [lift] in E; [|discriminate]. injection E as ->. exact (H eq_refl). Qed.
Lemma agg_not_bad fadd fmul fdiv of_int a l : agg_model fadd fmul fdiv of_int a l <> XRet (XO OBad).
Proof. destruct a; cbn [agg_model]; try discriminate.
  - destruct (Min of_int l); discriminate.
  - destruct (Max of_int l); discriminate. Qed.

Ltac wt_use :=
  repeat match goal with
  | H : andb _ _ = true |- _ => apply andb_true_iff in H; destruct H
  | H : is_list _ _ = true |- _ => apply is_list_ex in H; destruct H as [? [? H]]; try rewrite H
  | H : is_obj _ _ = true |- _ => apply is_obj_ex in H; destruct H as [? [? H]]; try rewrite H
  | H : is_cont _ _ = true |- _ => apply is_cont_ex in H; destruct H as [? [H ?]]; try rewrite H
  | H : operand_inb _ _ = true |- _ => apply operand_in_ex in H; destruct H as [? H]; try rewrite H
  | H : forallb (operand_inb _) _ = true |- _ => apply operands_in_ex in H; destruct H as [? H]; try rewrite H
  end.
Ltac fin :=
  repeat (cbn [snd fst];
          first [ apply untyped_not_bad | apply typed_not_bad | apply agg_not_bad
                | match goal with |- context [match ?x with _ => _ end] => destruct x end ]);
  cbn [snd fst]; try discriminate.

(* every native source whose operands all evaluate is stored *)
Definition evaluates (env : list hval) (o : operand) : Prop := eval_operand env o <> None.
Definition src_total (env : list hval) (n : nsrc) : Prop :=
  forall h, Forall (evaluates env) (nsrc_operands n) -> store_src env h n <> None.
Lemma store_srcs_total env l : Forall (src_total env) l -> forall h,
  Forall (evaluates env) (flat_map nsrc_operands l) -> store_srcs env h l <> None.
Proof. induction 1 as [|x t Hx _ IH]; intros h OK; cbn [store_srcs]; [discriminate|].
  cbn [flat_map] in OK. apply Forall_app in OK as [OKx OKt].
  destruct (store_src env h x) as [[h1 v]|] eqn:Ex; [|exfalso; exact (Hx h OKx Ex)].
  destruct (store_srcs env h1 t) as [[h2 vs]|] eqn:Et; [discriminate | exfalso; exact (IH h1 OKt Et)]. Qed.
Lemma store_kvs_total env l : Forall (fun kv => src_total env (snd kv)) l -> forall h,
  Forall (evaluates env) (flat_map (fun kv => nsrc_operands (snd kv)) l) -> store_kvs env h l <> None.
Proof. induction 1 as [|[k x] t Hx _ IH]; intros h OK; cbn [store_kvs]; [discriminate|].
  cbn [flat_map snd] in OK, Hx. apply Forall_app in OK as [OKx OKt].
  destruct (store_src env h x) as [[h1 v]|] eqn:Ex; [|exfalso; exact (Hx h OKx Ex)].
  destruct (store_kvs env h1 t) as [[h2 vs]|] eqn:Et; [discriminate | exfalso; exact (IH h1 OKt Et)]. Qed.
Lemma store_src_total env : forall n, src_total env n.
Proof. induction n as [o|l IH|kvs IH] using nsrc_ind'; intros h OK.
  - rewrite store_src_op. pose proof (Forall_inv OK) as E. unfold evaluates in E.
    destruct (eval_operand env o); [discriminate | exfalso; exact (E eq_refl)].
  - rewrite store_src_slice. rewrite nsrc_operands_slice in OK. pose proof (store_srcs_total env l IH h OK) as T.
    destruct (store_srcs env h l) as [[h1 vs]|]; [discriminate | exfalso; exact (T eq_refl)].
  - rewrite store_src_map. rewrite nsrc_operands_map in OK. pose proof (store_kvs_total env kvs IH h OK) as T.
    destruct (store_kvs env h kvs) as [[h1 vs]|]; [discriminate | exfalso; exact (T eq_refl)]. Qed.
Lemma operands_evaluate s os : forallb (operand_inb s) os = true -> Forall (evaluates (st_env s)) os.
Proof. intros H. apply Forall_forall. intros o Ho. rewrite forallb_forall in H. destruct (operand_in_ex s o (H o Ho)) as [v E].
  unfold evaluates. congruence. Qed.

(* ---------- one operation of Heap.v ---------- *)
Lemma no_obad_base s o : state_wf s -> heap_acyclic (st_heap s) -> wt_op s o = true -> snd (step_core s o) <> Ret OBad.
Proof. intros [W EV] A. destruct o; cbn [wt_op step_core]; unfold alloc, bad, fuel_of.
  all: try solve [intros WT; wt_use; fin].
  - (* OMerge: the receiver's clone is a fresh object cell *)
    intros WT. apply andb_true_iff in WT as [W1 W2].
    destruct (is_obj_ex _ _ W1) as [id [kvs RO]]. destruct (is_obj_ex _ _ W2) as [id2 [kvs2 RO2]].
    destruct (reg_obj_var _ _ _ _ RO) as [NE G]. rewrite RO, RO2, NE.
    pose proof (heap_acyclic_clone (st_heap s) (HO id) W A (ex_intro _ kvs G)) as C.
    rewrite clone_val_S in C |- *. rewrite G in C |- *.
    destruct (clone_kvs (length (st_heap s)) (st_heap s) kvs) as [[h1 kvs']|]; [|exfalso; exact (C eq_refl)].
    rewrite get_obj_new. cbn [snd]. discriminate.
  - (* Clone *)
    intros WT. destruct (is_cont_ex _ _ WT) as [v [NE OK]]. rewrite NE.
    pose proof (heap_acyclic_clone (st_heap s) v W A OK) as C.
    destruct (clone_val (S (length (st_heap s))) (st_heap s) v) as [[h1 v']|]; [cbn [snd]; discriminate | exfalso; exact (C eq_refl)].
  - (* Equals *)
    intros WT. destruct (reg_kind s r) as [b1|] eqn:K1; [|discriminate]. destruct (reg_kind s a) as [b2|] eqn:K2; [|discriminate].
    destruct (reg_kind_ex _ _ _ K1) as [x [NX OX]]. destruct (reg_kind_ex _ _ _ K2) as [y [NY OY]]. rewrite NX, NY.
    pose proof (heap_acyclic_reify (st_heap s) x W A OX) as RX. pose proof (heap_acyclic_reify (st_heap s) y W A OY) as RY.
    destruct (reify (S (length (st_heap s))) (st_heap s) x) as [vx|]; [|exfalso; exact (RX eq_refl)].
    destruct (reify (S (length (st_heap s))) (st_heap s) y) as [vy|]; [|exfalso; exact (RY eq_refl)].
    cbn [snd]. discriminate. Qed.

(* ---------- C: the theorem ---------- *)
Theorem no_obad_step : forall fadd fmul fdiv of_int s o, state_wf s -> heap_acyclic (st_heap s) -> well_typedb s o = true ->
  snd (xstep_core fadd fmul fdiv of_int s o) <> XRet (XO OBad).
Proof. intros fadd fmul fdiv of_int s o SW A. pose proof SW as [W EV].
  destruct o; cbn [well_typedb xstep_core]; unfold new_list, new_obj, alloc, xbad, fuel_of.
  all: try solve [intros WT; wt_use; fin].
  - (* Base *)
    intros WT. pose proof (no_obad_base s o SW A WT) as N. destruct (step_core s o) as [s1 oc]. cbn [snd] in *.
    exact (lift_not_bad oc N).
  - (* NewListFrom *)
    intros WT. pose proof (store_src_total (st_env s) (NSlice src) (st_heap s) (operands_evaluate s _ WT)) as T.
    destruct (store_src (st_env s) (st_heap s) (NSlice src)) as [[h1 v]|]; [cbn [snd]; discriminate | exfalso; exact (T eq_refl)].
  - (* NewObjectFrom *)
    intros WT. pose proof (store_src_total (st_env s) (NMap src) (st_heap s) (operands_evaluate s _ WT)) as T.
    destruct (store_src (st_env s) (st_heap s) (NMap src)) as [[h1 v]|]; [cbn [snd]; discriminate | exfalso; exact (T eq_refl)].
  - (* String *)
    intros WT. destruct (is_cont_ex _ _ WT) as [v [NE OK]]. rewrite NE. pose proof (heap_acyclic_reify (st_heap s) v W A OK) as R.
    destruct (reify (S (length (st_heap s))) (st_heap s) v) as [t|]; [cbn [snd]; discriminate | exfalso; exact (R eq_refl)].
  - (* FormatString *)
    intros WT. destruct (is_cont_ex _ _ WT) as [v [NE OK]]. rewrite NE. pose proof (heap_acyclic_reify (st_heap s) v W A OK) as R.
    destruct ((n <? 0)%Z || (10 <? n)%Z); [cbn [snd]; discriminate|].
    destruct (reify (S (length (st_heap s))) (st_heap s) v) as [t|]; [cbn [snd]; discriminate | exfalso; exact (R eq_refl)].
  - (* NativeSlice / NativeDict *)
    intros WT. destruct (is_cont_ex _ _ WT) as [v [NE OK]]. rewrite NE. pose proof (heap_acyclic_reify (st_heap s) v W A OK) as R.
    destruct (reify (S (length (st_heap s))) (st_heap s) v) as [t|]; [cbn [snd]; discriminate | exfalso; exact (R eq_refl)]. Qed.

(* ---------- whole programs: checked step by step on the current state ---------- *)
Fixpoint wt_run (fadd fmul fdiv : Z -> Z -> Z) (of_int : Z -> Z) (s : state) (prog : list xop) : bool :=
  match prog with
  | [] => true
  | o :: t => well_typedb s o && wt_run fadd fmul fdiv of_int (fst (xstep fadd fmul fdiv of_int s o)) t
  end.

Lemma xstep_snd fadd fmul fdiv of_int s o :
  snd (xstep fadd fmul fdiv of_int s o) = snd (xstep_core fadd fmul fdiv of_int s o).
Proof. unfold xstep. destruct (xstep_core fadd fmul fdiv of_int s o) as [s1 oc].
  destruct oc as [[[| [| | | | |i|i] | | | | | |] | | |]|]; reflexivity. Qed.

Theorem no_obad_run : forall fadd fmul fdiv of_int prog s, state_wf s -> heap_acyclic (st_heap s) ->
  run_okb fadd fmul fdiv of_int s prog = true -> wt_run fadd fmul fdiv of_int s prog = true ->
  Forall (fun r => fst r <> XRet (XO OBad)) (xrun fadd fmul fdiv of_int s prog).
Proof. intros fadd fmul fdiv of_int. induction prog as [|o t IH]; intros s SW A R T; cbn [xrun]; [constructor|].
  cbn [run_okb] in R. cbn [wt_run] in T.
  apply andb_true_iff in R as [R R3]. apply andb_true_iff in R as [R1 R2]. apply andb_true_iff in T as [T1 T2].
  apply xop_okb_spec in R1.
  pose proof (no_obad_step fadd fmul fdiv of_int s o SW A T1) as N. rewrite <- xstep_snd in N.
  pose proof (xstep_wf fadd fmul fdiv of_int s o R1 SW) as SW1.
  pose proof (acyclic_step fadd fmul fdiv of_int s o SW A R1 R2) as A1.
  destruct (xstep fadd fmul fdiv of_int s o) as [s1 oc]. cbn [fst snd] in *.
  constructor; [exact N | exact (IH s1 SW1 A1 R3 T2)]. Qed.

(* ================= D. non-vacuity ================= *)
(* A1: an object with three fields of different kinds; the Int fields are mapped to fresh pairs [kind code; value] *)
Definition ex_obj : list (bytes * hval) := [(B"n", HInt 7); (B"s", HStr (B"x")); (B"l", HL 0)].
Example omap_ex_run :
  omap_loop (sel_kind KInt) MPair (fun _ x => kind_tag x) [CList []] ex_obj [] =
  ([CList []; CList [HInt 6; HInt 7]], [(B"n", HL 1)]).
Proof. vm_compute. reflexivity. Qed.
Example omap_ex_nodup : NoDup (akeys ex_obj).
Proof. apply nodupb_NoDup. vm_compute. reflexivity. Qed.
Example omap_ex_spec : forall k,
  match alookup k ex_obj with
  | Some x => if sel_kind KInt x then exists v, alookup k [(B"n", HL 1)] = Some v else alookup k [(B"n", HL 1)] = None
  | None => alookup k [(B"n", HL 1)] = None
  end.
Proof. exact (omap_loop_lookup (sel_kind KInt) MPair (fun _ x => kind_tag x) ex_obj [CList []] _ _ omap_ex_nodup omap_ex_run). Qed.
Example omap_ex_n : exists v, alookup (B"n") [(B"n", HL 1)] = Some v.
Proof. exact (omap_ex_spec (B"n")). Qed.
Example omap_ex_s : alookup (B"s") [(B"n", HL 1)] = None.
Proof. exact (omap_ex_spec (B"s")). Qed.
Example omap_ex_l : alookup (B"l") [(B"n", HL 1)] = None.
Proof. exact (omap_ex_spec (B"l")). Qed.
Example omap_ex_nodup_res : NoDup (akeys [(B"n", HL 1)]).
Proof. exact (omap_loop_nodup (sel_kind KInt) MPair (fun _ x => kind_tag x) ex_obj [CList []] _ _ omap_ex_run). Qed.

(* B1: three elements, two selected; indexes counted from 0 *)
Example mpair_ex :
  map_loop (sel_kind KInt) MPair (fun i _ => HInt i) [CObj []] [HInt 5; HStr (B"x"); HInt 9] 0 [] =
  ([CObj []; CList [HInt 0; HInt 5]; CList [HInt 2; HInt 9]], [HL 1; HL 2]).
Proof. vm_compute. reflexivity. Qed.
Example mpair_ex_selected : selected (sel_kind KInt) 0 [HInt 5; HStr (B"x"); HInt 9] = [(0%Z, HInt 5); (2%Z, HInt 9)].
Proof. vm_compute. reflexivity. Qed.

(* C: a typed 6-step program; every step passes the check in the state it runs in, and none answers OBad *)
Definition typed_prog : list xop :=
  [ Base (NewList [Lit (HInt 1); Lit (HStr (B"a"))]);        (* r0 = [1, "a"] *)
    Base (NewObject [Lit (HStr (B"k")); Reg 0]);              (* r1 = {k: r0} *)
    XOMapK KList 1 MPair;                                      (* r2 = {k: [3, r0]} *)
    Base (OMerge 1 2);                                         (* r3 = a clone of r1, then k := r2.k *)
    Base (Equals 1 3);                                         (* two objects *)
    Base (OKeyOf 1 (Reg 0) (Some (B"k"))) ].                   (* the oracle's answer is consistent *)

Example typed_prog_checked :
  wt_run zero2 zero2 zero2 zero1 init_state typed_prog = true /\
  run_okb zero2 zero2 zero2 zero1 init_state typed_prog = true /\
  map fst (xrun zero2 zero2 zero2 zero1 init_state typed_prog) =
    [ XRet (XO (OV (HL 0))); XRet (XO (OV (HO 1))); XRet (XO (OV (HO 3))); XRet (XO (OV (HO 5)));
      XRet (XO (OB false)); XRet (XO (OV (HStr (B"k")))) ] /\
  forallb (fun r => match fst r with XRet (XO OBad) => false | _ => true end)
    (xrun zero2 zero2 zero2 zero1 init_state typed_prog) = true.
Proof. vm_compute. repeat split; reflexivity. Qed.

(* the same through the theorem *)
Example typed_prog_no_obad :
  Forall (fun r => fst r <> XRet (XO OBad)) (xrun zero2 zero2 zero2 zero1 init_state typed_prog).
Proof. destruct typed_prog_checked as [T [R _]].
  exact (no_obad_run zero2 zero2 zero2 zero1 typed_prog init_state init_wf init_acyclic R T). Qed.

(* the check is not trivially true: a list operation on an object register is rejected, and does answer OBad *)
Example ill_typed_rejected :
  let s := xexec zero2 zero2 zero2 zero1 init_state [Base (NewObject [])] in
  well_typedb s (Base (LCount 0)) = false /\ snd (xstep_core zero2 zero2 zero2 zero1 s (Base (LCount 0))) = XRet (XO OBad) /\
  well_typedb s (Base (OKeyOf 0 (Lit HNil) (Some (B"k")))) = false /\
  well_typedb s (Base (OKeys 0 [B"k"])) = false /\
  well_typedb s (Base (NewList [Reg 1])) = false /\
  well_typedb s (Base (OCount 0)) = true.
Proof. vm_compute. repeat split; reflexivity. Qed.

Print Assumptions omap_loop_lookup.
Print Assumptions omap_loop_MId.
Print Assumptions omap_loop_nodup.
Print Assumptions map_loop_MPair_eq.
Print Assumptions map_loop_MPair.
Print Assumptions map_loop_MPair_content.
Print Assumptions map_loop_MPair_old.
Print Assumptions index_log_spec.
Print Assumptions selected_In.
Print Assumptions heap_acyclic_clone.
Print Assumptions reg_kind_list.
Print Assumptions reg_kind_obj.
Print Assumptions no_obad_base.
Print Assumptions no_obad_step.
Print Assumptions no_obad_run.
Print Assumptions omap_ex_spec.
Print Assumptions omap_ex_n.
Print Assumptions mpair_ex.
Print Assumptions typed_prog_checked.
Print Assumptions typed_prog_no_obad.
Print Assumptions ill_typed_rejected.
